(* Extract.v — extraction of the executable model to OCaml.  ExtrOcamlBasic only: bool, option, unit,
   list, prod, sumbool, sumor are mapped to OCaml's; N, Z, positive, nat, byte stay extracted inductives. *)
From Coq Require Extraction.
From Coq Require Import ExtrOcamlBasic.
From CC Require Import Bytes Codec Utf8 Lines Json Sri Record Fs Prog Api Sess.
Extraction Language OCaml.
Extraction "model.ml" step step_crash parse_op show_outcome dump sstate0 pseudo_now s_fs dec_of_N take_digits b2n.
