(* C04 — a keyed write or removal interrupted by a crash is all-or-nothing.
   At EVERY crash state of a keyed commit (every step boundary of publishing the content and of the index insert,
   the index append torn at every byte length): every other key is at its previous value (even when it shares the
   bucket: [hash] is arbitrary), the key itself is at its previous value or at the complete new entry (all supplied
   metadata), and whenever the new entry is visible its content is completely stored; the index area stays
   well-shaped, so from any crash state every later history behaves per C05 — in particular a later write to the
   same key succeeds and is visible (the next record's leading newline terminates the torn tail).  Same for the
   tombstone of a removal.
   [PrefixFree text]: no proper prefix of the record's JSON text has the SHA-256 of the whole text — needed only for
   tears after the tab; a property of the hash on one string that no theorem can establish, hence a hypothesis
   visible in each statement.  Modelled, not verified: a single O_APPEND write(2) lands as a prefix of its bytes. *)
From CC Require Import Bytes Codec Utf8 Lines Json Sri Record Fs Prog Api Crash BytesP CodecP LinesP FsP ProgP SriP RecordP IndexP ReadP WriteP CommitP RemoveP CrashP CrashIdxP KeepP TotalP ConfineP FaultP Sess SessP JsonP RecCodecP MetaP HistP CrashHistP.

Section C04.
Variable hash : algo -> bytes -> bytes.
Hypothesis HL : HashLen hash.

Theorem C04_commit_keyed_crash f w now key final :
  WInv f w -> CacheInv f -> w_key w = Some key ->
  declared_ok (w_opts w) (sri_of hash (w_algo w) (w_data w)) = Some final ->
  size_ok (w_opts w) (lenN (w_data w)) = true ->
  let o' := commit_opts (w_opts w) final (lenN (w_data w)) in
  wf_rec hash (smeta_of key o' now) -> parse_entry_sri (sri_text final) = Some final ->
  PrefixFree hash (encode_smeta (smeta_of key o' now)) ->
  Forall (fun c =>
            IndexInv c /\
            (forall k, k <> key -> abs_idx hash c k = abs_idx hash f k) /\
            (abs_idx hash c key = abs_idx hash f key \/
             (abs_idx hash c key = new_entry key o' now /\
              lookup c (InCache (cpath hash (w_algo w) (w_data w))) = Some (File (w_data w)))))
         (crash_states (commit hash w now) f).
Proof. exact (commit_keyed_crash hash HL f w now key final). Qed.

Theorem C04_insert_crash f key o now :
  IndexInv f -> wf_rec hash (smeta_of key o now) -> wf_sri_opt o -> PrefixFree hash (encode_smeta (smeta_of key o now)) ->
  Forall (fun c => IndexInv c /\ (forall l, ~ is_index l -> lookup c l = lookup f l) /\
                   ((forall k, abs_idx hash c k = abs_idx hash f k) \/
                    (forall k, abs_idx hash c k = if bytes_eqb k key then new_entry key o now else abs_idx hash f k)))
         (crash_states (insert hash key o now) f).
Proof. exact (insert_crash_lookups hash f key o now). Qed.

Theorem C04_remove_crash f key now :
  IndexInv f -> wf_rec hash (smeta_of key wopts0 now) -> PrefixFree hash (encode_smeta (smeta_of key wopts0 now)) ->
  Forall (fun c => IndexInv c /\ (forall l, ~ is_index l -> lookup c l = lookup f l) /\
                   ((forall k, abs_idx hash c k = abs_idx hash f k) \/
                    (forall k, abs_idx hash c k = if bytes_eqb k key then None else abs_idx hash f k)))
         (crash_states (delete hash key now) f).
Proof. exact (delete_crash hash f key now). Qed.

(* a torn record is ignored on its own and the bucket stays appendable *)
Theorem C04_torn_append d m p :
  no_pending_cr d -> wf_rec hash m -> PrefixFree hash (encode_smeta m) -> In p (proper_prefixes (record_bytes hash m)) ->
  entries hash (d ++ p) = entries hash d /\ no_pending_cr (d ++ p).
Proof. exact (torn_append hash d m p). Qed.

(* restart and continue: from any tree with a well-shaped index area — every crash state above is one — every later
   history of inserts/removals is answered by the abstract map started at the crash state's lookups (C05) *)
Theorem C04_crash_then_continue c (h : list hop) :
  IndexInv c -> Forall (wf_hop hash) h ->
  forall k, run (find hash k) (fold_left (exec_hop hash) h c)
            = (Ok (fold_left spec_step h (abs_idx hash c) k), fold_left (exec_hop hash) h c).
Proof. intros Hi Hw. exact (proj2 (find_refines_map hash h c Hi Hw)). Qed.

(* every other key keeps its value — the content half: whatever a keyed write (any chunking) or a removal is killed at,
   every content file that was there is still there with the same bytes (KeepP.v); the index half is in the theorems above *)
Theorem C04_write_crash_keeps_content f fl key o cs now a0 d :
  CacheInv f -> lookup f (InCache (cpath hash a0 d)) = Some (File d) ->
  (InCache (cpath hash (algo_of o) (List.concat cs)) = InCache (cpath hash a0 d) -> List.concat cs = d) ->
  Forall (fun g => lookup g (InCache (cpath hash a0 d)) = Some (File d)) (crash_states (stream_write hash fl key o cs now) f) /\
  lookup (snd (run (stream_write hash fl key o cs now) f)) (InCache (cpath hash a0 d)) = Some (File d).
Proof. intros H1 H2 H3. apply (stream_write_keeps hash HL); [eexists _, _; reflexivity|exact H1|exact H2|exact H3]. Qed.

Theorem C04_remove_crash_keeps_content f key now a0 d :
  lookup f (InCache (cpath hash a0 d)) = Some (File d) ->
  Forall (fun g => lookup g (InCache (cpath hash a0 d)) = Some (File d)) (crash_states (insert hash key wopts0 now) f) /\
  lookup (snd (run (insert hash key wopts0 now) f)) (InCache (cpath hash a0 d)) = Some (File d).
Proof. intros H. apply (insert_keeps hash); [eexists _, _; reflexivity|exact H]. Qed.

(* the WHOLE keyed write (opening the writer, every chunk, trimming, publishing, the index append torn anywhere), from any
   well-shaped cache: at every crash state every other key's lookup is as before, the key is at its previous entry or at
   the complete new one with its content stored, the index stays well-shaped *)
Theorem C04_whole_write_crash f fl key o cs now :
  CacheInv f -> o_sri o = None -> size_ok o (lenN (List.concat cs)) = true ->
  let data := List.concat cs in let a := algo_of o in
  let o' := commit_opts o (sri_of hash a data) (lenN data) in
  wf_rec hash (smeta_of key o' now) -> PrefixFree hash (encode_smeta (smeta_of key o' now)) ->
  Forall (fun c => IndexInv c /\
                   (forall k, k <> key -> abs_idx hash c k = abs_idx hash f k) /\
                   (abs_idx hash c key = abs_idx hash f key \/
                    (abs_idx hash c key = new_entry key o' now /\ lookup c (InCache (cpath hash a data)) = Some (File data))))
         (crash_states (stream_write hash fl (Some key) o cs now) f).
Proof. exact (stream_write_keyed_crash hash HL f fl key o cs now). Qed.

(* and after ANY history of writes and removals (HistP.v): a kill at any point of the next keyed write; every other key
   reads exactly what the history's specification says (its stored value, or not found), the written key reads its old
   value or the new data *)
Theorem C04_crash_after_history (h : list cop) fl key o cs now :
  forallb (c_ok hash) h = true -> c_ok hash (CStream fl key o cs now) = true ->
  NoColl hash (c_all (c_step hash (fold_left (c_step hash) h cspec0) (CStream fl key o cs now))) ->
  let f := fold_left (c_run hash) h [] in let s := fold_left (c_step hash) h cspec0 in
  let data := List.concat cs in let a := algo_of o in
  PrefixFree hash (encode_smeta (smeta_of key (commit_opts o (sri_of hash a data) (lenN data)) now)) ->
  Forall (fun c =>
            (forall k, k <> key ->
               match c_map s k with
               | Some (a0, d0) => memb (a0, d0) (c_stored s) = true -> run (read hash k) c = (Ok d0, c)
               | None => run (read hash k) c = (Err ENotFound, c)
               end) /\
            (run (read hash key) c = (c_read s key, c) \/ run (read hash key) c = (Ok data, c) \/
             exists a0 d0, c_map s key = Some (a0, d0) /\ memb (a0, d0) (c_stored s) = false))
         (crash_states (stream_write hash fl (Some key) o cs now) f).
Proof. exact (crash_reads_after_history hash HL h fl key o cs now). Qed.

End C04.

Definition toy_hash (a : algo) (d : bytes) : bytes :=
  [n2b (N.modulo (lenN d) 251); n2b (N.modulo (fold_left (fun acc b => acc * 31 + b2n b)%N d 7%N) 256); x01].
(* non-vacuity: all crash states of an overwrite of key "k" (including every torn length of the record): the lookup
   is the old entry in all states but the last, where it is the new one *)
Definition ex_o1 : wopts := mkWopts None (Some [mkHash Sha256 (bs "AAECAw==")]) (Some 4%N) (Some 7%N) None None.
Definition ex_o2 : wopts := mkWopts None (Some [mkHash Sha256 (bs "BAUGBw==")]) (Some 5%N) (Some 8%N) (Some (JStr (bs "é"))) None.
Example C04_example :
  let f := snd (run (insert toy_hash (bs "k") ex_o1 1%N) []) in
  let cs := crash_states (insert toy_hash (bs "k") ex_o2 2%N) f in
  let olds := filter (fun c => match fst (run (find toy_hash (bs "k")) c) with Ok (Some m) => N.eqb (m_size m) 4 | _ => false end) cs in
  let news := filter (fun c => match fst (run (find toy_hash (bs "k")) c) with Ok (Some m) => N.eqb (m_size m) 5 | _ => false end) cs in
  (List.length cs = List.length olds + List.length news)%nat /\ (List.length news = 1)%nat /\ (100 < List.length olds)%nat.
Proof. vm_compute. repeat split; repeat constructor. Qed.

Print Assumptions C04_commit_keyed_crash.
Print Assumptions C04_insert_crash.
Print Assumptions C04_remove_crash.
Print Assumptions C04_torn_append.
Print Assumptions C04_crash_then_continue.
Print Assumptions C04_write_crash_keeps_content.
Print Assumptions C04_remove_crash_keeps_content.
Print Assumptions C04_whole_write_crash.
Print Assumptions C04_crash_after_history.
