(* C05 — a key lookup returns the most recent committed entry, or absent after removal.
   Histories of index inserts and removals, run as the library's own step programs on the abstract
   filesystem, refine the map  key |-> entry.  No collision hypothesis: [hash] is arbitrary, so two keys
   whose SHA-1 coincide share a bucket inside this theorem.  [wf_hop] asks that the codec handles the
   written records faithfully (round trip, no control bytes, UTF-8) — discharged for API-written records
   by the codec theorems of C11. *)
From CC Require Import Bytes Codec Utf8 Lines Json Sri Record Fs Prog Api BytesP CodecP RecordP FsP ProgP SriP IndexP ReadP WriteP CommitP JsonP RecCodecP MetaP.

Section C05.
Variable hash : algo -> bytes -> bytes.

Theorem C05_find_refines_map (h : list hop) f0 :
  IndexInv f0 -> Forall (wf_hop hash) h ->
  IndexInv (fold_left (exec_hop hash) h f0) /\
  (forall k, run (find hash k) (fold_left (exec_hop hash) h f0)
             = (Ok (fold_left spec_step h (abs_idx hash f0) k), fold_left (exec_hop hash) h f0)).
Proof. exact (find_refines_map hash h f0). Qed.

(* the abstract map: the last write to a key wins, other keys are untouched; a removal clears *)
Theorem C05_last_write_wins h s key o now k :
  fold_left spec_step (h ++ [HIns key o now]) s k
  = if bytes_eqb k key then new_entry key o now else fold_left spec_step h s k.
Proof. exact (spec_last_write_wins h s key o now k). Qed.

Theorem C05_removed_absent h s key now k :
  fold_left spec_step (h ++ [HDel key now]) s k = if bytes_eqb k key then None else fold_left spec_step h s k.
Proof. exact (spec_removed_absent h s key now k). Qed.

(* one step, for any tree with a well-shaped index area: every other location of the tree is untouched *)
Theorem C05_insert_frame f key o now :
  IndexInv f -> wf_rec hash (smeta_of key o now) -> wf_sri_opt o ->
  IndexInv (snd (run (insert hash key o now) f)) /\
  fst (run (insert hash key o now) f) = Ok (match o_sri o with Some i => i | None => deadbeef end) /\
  (forall k, abs_idx hash (snd (run (insert hash key o now) f)) k
             = if bytes_eqb k key then new_entry key o now else abs_idx hash f k) /\
  (forall l, (forall p, l <> InCache (index_dir :: p)) ->
             lookup (snd (run (insert hash key o now) f)) l = lookup f l).
Proof. exact (insert_abs hash f key o now). Qed.

(* the same with every hypothesis decidable (the codec round trip is a theorem: C11): keys valid UTF-8, timestamps < 2^128,
   sizes < 2^64, metadata in serde_json normal form, integrities addressable *)
Theorem C05_find_refines_map_closed (h : list hop) f0 :
  IndexInv f0 -> forallb hop_ok h = true ->
  IndexInv (fold_left (exec_hop hash) h f0) /\
  (forall k, run (find hash k) (fold_left (exec_hop hash) h f0)
             = (Ok (fold_left spec_step h (abs_idx hash f0) k), fold_left (exec_hop hash) h f0)).
Proof. exact (find_refines_map_closed hash h f0). Qed.

End C05.

(* non-vacuity: the hypotheses are met by a concrete history on the empty tree, and the theorem's
   conclusion can be observed by running the model *)
Definition toy_hash (a : algo) (d : bytes) : bytes :=
  [n2b (N.modulo (lenN d) 251); n2b (N.modulo (fold_left (fun acc b => acc * 31 + b2n b)%N d 7%N) 256); x01].
Definition ex_opts : wopts :=
  mkWopts None (Some [mkHash Sha256 (bs "AAECAw==")]) (Some 4%N) (Some 77%N) (Some (JArr [JInt 1; JStr (bs "x")])) None.

Example C05_example_inv : IndexInv [].
Proof. intros p n H. discriminate. Qed.

Example C05_example_wf : Forall (wf_hop toy_hash) [HIns (bs "a") ex_opts 5%N; HDel (bs "a") 6%N; HIns (bs "b") ex_opts 7%N].
Proof.
  repeat constructor; try (apply no_ctrl_of_forallb); try (vm_compute; reflexivity).
  all: intros i Hi; inversion Hi; subst; vm_compute; reflexivity.
Qed.

Example C05_example_hop_ok : forallb hop_ok [HIns (bs "a") ex_opts 5%N; HDel (bs "a") 6%N; HIns (bs "b") ex_opts 7%N] = true.
Proof. vm_compute. reflexivity. Qed.

Example C05_example_run :
  let f := fold_left (exec_hop toy_hash) [HIns (bs "a") ex_opts 5%N; HDel (bs "a") 6%N; HIns (bs "b") ex_opts 7%N] [] in
  fst (run (find toy_hash (bs "a")) f) = Ok None /\
  fst (run (find toy_hash (bs "b")) f) = Ok (new_entry (bs "b") ex_opts 7%N).
Proof. vm_compute. split; reflexivity. Qed.

Check (C05_find_refines_map : forall hash h f0, IndexInv f0 -> Forall (wf_hop hash) h ->
  IndexInv (fold_left (exec_hop hash) h f0) /\
  (forall k, run (find hash k) (fold_left (exec_hop hash) h f0)
             = (Ok (fold_left spec_step h (abs_idx hash f0) k), fold_left (exec_hop hash) h f0))).

Print Assumptions C05_find_refines_map.
Print Assumptions C05_find_refines_map_closed.
Print Assumptions C05_last_write_wins.
Print Assumptions C05_removed_absent.
Print Assumptions C05_insert_frame.
