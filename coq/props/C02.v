(* C02 — what is written under a key or address is exactly what is read back.
   For every key, chunk list (every chunking: empty, single-byte, decreasing chunks are just lists), algorithm,
   declared size in {none, correct}, flavour, and every tree satisfying the cache shape invariant.  [hash] is any
   function with digests of at least two bytes.  [wf_rec] = the codec handles the written record faithfully
   (C11). *)
From CC Require Import Bytes Codec Utf8 Lines Json Sri Record Fs Prog Api BytesP CodecP FsP ProgP SriP RecordP IndexP ReadP WriteP CommitP JsonP RecCodecP MetaP Crash CrashP CrashIdxP KeepP HistP.

Section C02.
Variable hash : algo -> bytes -> bytes.
Hypothesis HL : HashLen hash.

(* streamed, keyed *)
Theorem C02_streamed_keyed f fl key o cs now :
  CacheInv f -> o_sri o = None -> size_ok o (lenN (List.concat cs)) = true ->
  let data := List.concat cs in let a := algo_of o in
  wf_rec hash (smeta_of key (commit_opts o (sri_of hash a data) (lenN data)) now) ->
  let f' := snd (run (stream_write hash fl (Some key) o cs now) f) in
  fst (run (stream_write hash fl (Some key) o cs now) f) = Ok (sri_of hash a data) /\
  CacheInv f' /\
  run (read hash key) f' = (Ok data, f') /\
  run (read_hash hash (sri_of hash a data)) f' = (Ok data, f') /\
  (forall k, k <> key -> abs_idx hash f' k = abs_idx hash f k) /\
  exists m, run (find hash key) f' = (Ok (Some m), f') /\ m_key m = key /\ m_sri m = sri_of hash a data /\
            m_size m = match o_size o with Some s => s | None => lenN data end /\
            m_time m = match o_time o with Some t => t | None => now end /\
            m_metadata m = match o_meta o with Some j => j | None => JNull end /\ m_raw m = o_raw o.
Proof. exact (stream_write_keyed_roundtrip hash HL f fl key o cs now). Qed.

(* streamed, by address *)
Theorem C02_streamed_by_hash f fl o cs now :
  CacheInv f -> o_sri o = None -> size_ok o (lenN (List.concat cs)) = true ->
  let data := List.concat cs in let a := algo_of o in
  let f' := snd (run (stream_write hash fl None o cs now) f) in
  fst (run (stream_write hash fl None o cs now) f) = Ok (sri_of hash a data) /\
  CacheInv f' /\
  run (read_hash hash (sri_of hash a data)) f' = (Ok data, f') /\
  (forall k, abs_idx hash f' k = abs_idx hash f k).
Proof. exact (stream_write_by_hash_roundtrip hash HL f fl o cs now). Qed.

(* one shot: write / write_sync *)
Theorem C02_write f fl a key data now :
  CacheInv f ->
  wf_rec hash (smeta_of key (commit_opts (write_opts fl a data) (sri_of hash a data) (lenN data)) now) ->
  let f' := snd (run (write hash fl a key data now) f) in
  fst (run (write hash fl a key data now) f) = Ok (sri_of hash a data) /\
  CacheInv f' /\
  run (read hash key) f' = (Ok data, f') /\
  run (read_hash hash (sri_of hash a data)) f' = (Ok data, f') /\
  (forall k, k <> key -> abs_idx hash f' k = abs_idx hash f k) /\
  exists m, run (find hash key) f' = (Ok (Some m), f') /\ m_key m = key /\ m_sri m = sri_of hash a data /\
            m_size m = lenN data /\ m_time m = now /\ m_metadata m = JNull /\ m_raw m = None.
Proof. exact (write_roundtrip hash HL f fl a key data now). Qed.

(* one shot by address: write_hash / write_hash_sync *)
Theorem C02_write_hash f fl a data :
  CacheInv f ->
  let f' := snd (run (write_hash hash fl a data) f) in
  fst (run (write_hash hash fl a data) f) = Ok (sri_of hash a data) /\
  CacheInv f' /\
  run (read_hash hash (sri_of hash a data)) f' = (Ok data, f') /\
  (forall k, abs_idx hash f' k = abs_idx hash f k).
Proof. exact (write_hash_roundtrip hash HL f fl a data). Qed.

(* the round trip with the codec hypothesis discharged (C11): decidable conditions on the caller's arguments only *)
Theorem C02_streamed_keyed_closed f fl key o cs now :
  CacheInv f -> o_sri o = None -> size_ok o (lenN (List.concat cs)) = true ->
  let data := List.concat cs in let a := algo_of o in
  opts_ok key (commit_opts o (sri_of hash a data) (lenN data)) now = true ->
  let f' := snd (run (stream_write hash fl (Some key) o cs now) f) in
  fst (run (stream_write hash fl (Some key) o cs now) f) = Ok (sri_of hash a data) /\
  CacheInv f' /\
  run (read hash key) f' = (Ok data, f') /\
  run (read_hash hash (sri_of hash a data)) f' = (Ok data, f') /\
  (forall k, k <> key -> abs_idx hash f' k = abs_idx hash f k).
Proof.
  intros Hi Hs Hz data a Hok f'.
  destruct (stream_write_keyed_roundtrip hash HL f fl key o cs now Hi Hs Hz (opts_ok_wf_rec hash key _ now Hok)) as [H1 [H2 [H3 [H4 [H5 _]]]]].
  auto.
Qed.

Theorem C02_write_closed f fl a key data now :
  CacheInv f ->
  opts_ok key (commit_opts (write_opts fl a data) (sri_of hash a data) (lenN data)) now = true ->
  let f' := snd (run (write hash fl a key data now) f) in
  fst (run (write hash fl a key data now) f) = Ok (sri_of hash a data) /\
  CacheInv f' /\
  run (read hash key) f' = (Ok data, f') /\
  run (read_hash hash (sri_of hash a data)) f' = (Ok data, f').
Proof.
  intros Hi Hok f'. destruct (write_roundtrip hash HL f fl a key data now Hi (opts_ok_wf_rec hash key _ now Hok)) as [H1 [H2 [H3 [H4 _]]]]. auto.
Qed.

(* over histories (HistP.v): after ANY sequence of keyed one-shot writes (any flavour, algorithm, data) and removals from
   the empty cache, a read of any key returns exactly the data of the last write to that key, or "not found" if it was
   never written or removed since.  [kv_ok]: the caller's arguments fit the record format (UTF-8 key, time < 2^128);
   [NoColl]: no two different data of the history share a digest path. *)
Theorem C02_reads_see_latest_write (h : list kvop) :
  forallb (kv_ok hash) h = true -> NoColl hash (written h) ->
  let f := fold_left (kv_run hash) h [] in
  forall k, run (read hash k) f
            = (match fold_left kv_step h (fun _ => None) k with Some (a, d) => Ok d | None => Err ENotFound end, f).
Proof. exact (reads_see_latest_write hash HL h). Qed.

(* ... from any cache that refines a map, and every value ever written stays readable by address *)
Theorem C02_history_refines (h : list kvop) f0 m0 W0 :
  HInv hash f0 m0 W0 -> forallb (kv_ok hash) h = true -> NoColl hash (W0 ++ written h) ->
  let f := fold_left (kv_run hash) h f0 in
  (forall k, run (read hash k) f = (match fold_left kv_step h m0 k with Some (a, d) => Ok d | None => Err ENotFound end, f)) /\
  (forall a d, In (a, d) (W0 ++ written h) -> run (read_hash hash (sri_of hash a d)) f = (Ok d, f)).
Proof. intros H0 Hok Hnc f. exact (hinv_reads hash HL _ _ _ (history_refines hash HL h f0 m0 W0 H0 Hok Hnc)). Qed.

(* the map: last write wins, removal clears, other keys untouched *)
Theorem C02_map_last_write h m fl a key d now k :
  fold_left kv_step (h ++ [KWrite fl a key d now]) m k = if bytes_eqb k key then Some (a, d) else fold_left kv_step h m k.
Proof. exact (kv_last_write h m fl a key d now k). Qed.
Theorem C02_map_removed h m key now k :
  fold_left kv_step (h ++ [KRemove key now]) m k = if bytes_eqb k key then None else fold_left kv_step h m k.
Proof. exact (kv_removed h m key now k). Qed.

End C02.

(* non-vacuity: the empty tree satisfies the invariant; the model run shows the conclusion on a concrete case
   around the memory-map path (declared size, two chunks) *)
Definition toy_hash (a : algo) (d : bytes) : bytes :=
  [n2b (N.modulo (lenN d) 251); n2b (N.modulo (fold_left (fun acc b => acc * 31 + b2n b)%N d 7%N) 256); x01].
Example C02_inv_empty : CacheInv [].
Proof. split; [intros p n H; discriminate|split; [intros p n H; discriminate|left; reflexivity]]. Qed.
Example C02_example :
  let o := mkWopts (Some Sha1) None (Some 5%N) None None None in
  let f' := snd (run (stream_write toy_hash Sync (Some (bs "k")) o [bs "ab"; []; bs "cde"] 9%N) []) in
  fst (run (read toy_hash (bs "k")) f') = Ok (bs "abcde") /\
  size_ok o (lenN (List.concat [bs "ab"; []; bs "cde"])) = true.
Proof. vm_compute. split; reflexivity. Qed.

Print Assumptions C02_streamed_keyed.
Print Assumptions C02_streamed_keyed_closed.
Print Assumptions C02_write_closed.
Print Assumptions C02_streamed_by_hash.
Print Assumptions C02_write.
Print Assumptions C02_write_hash.

(* non-vacuity of the history theorem: a concrete history meets its premises *)
Example C02_history_example :
  let h := [KWrite Sync Sha256 (bs "k") (bs "one") 1%N; KWrite Async Sha1 (bs "j") (bs "two") 2%N;
            KWrite Sync Sha256 (bs "k") (bs "three") 3%N; KRemove (bs "j") 4%N] in
  forallb (kv_ok toy_hash) h = true /\ NoColl toy_hash (written h) /\
  fold_left kv_step h (fun _ => None) (bs "k") = Some (Sha256, bs "three") /\ fold_left kv_step h (fun _ => None) (bs "j") = None.
Proof.
  split; [vm_compute; reflexivity|]. split; [|split; vm_compute; reflexivity].
  intros a d a' d' H1 H2 Hc. cbn in H1, H2.
  destruct H1 as [E|[E|[E|[]]]]; destruct H2 as [E'|[E'|[E'|[]]]]; inversion E; inversion E'; subst; try reflexivity; vm_compute in Hc; discriminate.
Qed.
Print Assumptions C02_reads_see_latest_write.
Print Assumptions C02_history_refines.
Print Assumptions C02_map_last_write.
Print Assumptions C02_map_removed.
