(* C02 — what is written under a key or address is exactly what is read back.
   For every key, chunk list (every chunking: empty, single-byte, decreasing chunks are just lists), algorithm,
   declared size in {none, correct}, flavour, and every tree satisfying the cache shape invariant.  [hash] is any
   function with digests of at least two bytes.  [wf_rec] = the codec handles the written record faithfully
   (C11). *)
From CC Require Import Bytes Codec Utf8 Lines Json Sri Record Fs Prog Api BytesP CodecP FsP ProgP SriP RecordP IndexP ReadP WriteP CommitP JsonP RecCodecP MetaP.

Section C02.
Variable hash : algo -> bytes -> bytes.
Hypothesis HL : HashLen hash.

(* streamed, keyed *)
Theorem C02_streamed_keyed f fl key o cs now :
  CacheInv f -> o_sri o = None -> size_ok o (lenN (List.concat cs)) = true ->
  let data := List.concat cs in let a := algo_of o in
  wf_rec hash (smeta_of key (commit_opts o (sri_of hash a data) (lenN data)) now) ->
  let f' := snd (run (stream_write hash fl (Some key) o cs now) f) in
  fst (run (stream_write hash fl (Some key) o cs now) f) = Ok (sri_of hash a data) /\
  CacheInv f' /\
  run (read hash key) f' = (Ok data, f') /\
  run (read_hash hash (sri_of hash a data)) f' = (Ok data, f') /\
  (forall k, k <> key -> abs_idx hash f' k = abs_idx hash f k) /\
  exists m, run (find hash key) f' = (Ok (Some m), f') /\ m_key m = key /\ m_sri m = sri_of hash a data /\
            m_size m = match o_size o with Some s => s | None => lenN data end /\
            m_time m = match o_time o with Some t => t | None => now end /\
            m_metadata m = match o_meta o with Some j => j | None => JNull end /\ m_raw m = o_raw o.
Proof. exact (stream_write_keyed_roundtrip hash HL f fl key o cs now). Qed.

(* streamed, by address *)
Theorem C02_streamed_by_hash f fl o cs now :
  CacheInv f -> o_sri o = None -> size_ok o (lenN (List.concat cs)) = true ->
  let data := List.concat cs in let a := algo_of o in
  let f' := snd (run (stream_write hash fl None o cs now) f) in
  fst (run (stream_write hash fl None o cs now) f) = Ok (sri_of hash a data) /\
  CacheInv f' /\
  run (read_hash hash (sri_of hash a data)) f' = (Ok data, f') /\
  (forall k, abs_idx hash f' k = abs_idx hash f k).
Proof. exact (stream_write_by_hash_roundtrip hash HL f fl o cs now). Qed.

(* one shot: write / write_sync *)
Theorem C02_write f fl a key data now :
  CacheInv f ->
  wf_rec hash (smeta_of key (commit_opts (write_opts fl a data) (sri_of hash a data) (lenN data)) now) ->
  let f' := snd (run (write hash fl a key data now) f) in
  fst (run (write hash fl a key data now) f) = Ok (sri_of hash a data) /\
  CacheInv f' /\
  run (read hash key) f' = (Ok data, f') /\
  run (read_hash hash (sri_of hash a data)) f' = (Ok data, f') /\
  (forall k, k <> key -> abs_idx hash f' k = abs_idx hash f k) /\
  exists m, run (find hash key) f' = (Ok (Some m), f') /\ m_key m = key /\ m_sri m = sri_of hash a data /\
            m_size m = lenN data /\ m_time m = now /\ m_metadata m = JNull /\ m_raw m = None.
Proof. exact (write_roundtrip hash HL f fl a key data now). Qed.

(* one shot by address: write_hash / write_hash_sync *)
Theorem C02_write_hash f fl a data :
  CacheInv f ->
  let f' := snd (run (write_hash hash fl a data) f) in
  fst (run (write_hash hash fl a data) f) = Ok (sri_of hash a data) /\
  CacheInv f' /\
  run (read_hash hash (sri_of hash a data)) f' = (Ok data, f') /\
  (forall k, abs_idx hash f' k = abs_idx hash f k).
Proof. exact (write_hash_roundtrip hash HL f fl a data). Qed.

(* the round trip with the codec hypothesis discharged (C11): decidable conditions on the caller's arguments only *)
Theorem C02_streamed_keyed_closed f fl key o cs now :
  CacheInv f -> o_sri o = None -> size_ok o (lenN (List.concat cs)) = true ->
  let data := List.concat cs in let a := algo_of o in
  opts_ok key (commit_opts o (sri_of hash a data) (lenN data)) now = true ->
  let f' := snd (run (stream_write hash fl (Some key) o cs now) f) in
  fst (run (stream_write hash fl (Some key) o cs now) f) = Ok (sri_of hash a data) /\
  CacheInv f' /\
  run (read hash key) f' = (Ok data, f') /\
  run (read_hash hash (sri_of hash a data)) f' = (Ok data, f') /\
  (forall k, k <> key -> abs_idx hash f' k = abs_idx hash f k).
Proof.
  intros Hi Hs Hz data a Hok f'.
  destruct (stream_write_keyed_roundtrip hash HL f fl key o cs now Hi Hs Hz (opts_ok_wf_rec hash key _ now Hok)) as [H1 [H2 [H3 [H4 [H5 _]]]]].
  auto.
Qed.

Theorem C02_write_closed f fl a key data now :
  CacheInv f ->
  opts_ok key (commit_opts (write_opts fl a data) (sri_of hash a data) (lenN data)) now = true ->
  let f' := snd (run (write hash fl a key data now) f) in
  fst (run (write hash fl a key data now) f) = Ok (sri_of hash a data) /\
  CacheInv f' /\
  run (read hash key) f' = (Ok data, f') /\
  run (read_hash hash (sri_of hash a data)) f' = (Ok data, f').
Proof.
  intros Hi Hok f'. destruct (write_roundtrip hash HL f fl a key data now Hi (opts_ok_wf_rec hash key _ now Hok)) as [H1 [H2 [H3 [H4 _]]]]. auto.
Qed.

End C02.

(* non-vacuity: the empty tree satisfies the invariant; the model run shows the conclusion on a concrete case
   around the memory-map path (declared size, two chunks) *)
Definition toy_hash (a : algo) (d : bytes) : bytes :=
  [n2b (N.modulo (lenN d) 251); n2b (N.modulo (fold_left (fun acc b => acc * 31 + b2n b)%N d 7%N) 256); x01].
Example C02_inv_empty : CacheInv [].
Proof. split; [intros p n H; discriminate|split; [intros p n H; discriminate|left; reflexivity]]. Qed.
Example C02_example :
  let o := mkWopts (Some Sha1) None (Some 5%N) None None None in
  let f' := snd (run (stream_write toy_hash Sync (Some (bs "k")) o [bs "ab"; []; bs "cde"] 9%N) []) in
  fst (run (read toy_hash (bs "k")) f') = Ok (bs "abcde") /\
  size_ok o (lenN (List.concat [bs "ab"; []; bs "cde"])) = true.
Proof. vm_compute. split; reflexivity. Qed.

Print Assumptions C02_streamed_keyed.
Print Assumptions C02_streamed_keyed_closed.
Print Assumptions C02_write_closed.
Print Assumptions C02_streamed_by_hash.
Print Assumptions C02_write.
Print Assumptions C02_write_hash.
