(* C01 — checked reads never deliver bytes that differ from what was stored.
   The tree [f] is ARBITRARY (any finite map from locations to files, directories, symlinks): this covers
   every damage pattern at once — bit flips, truncation, extension, replacement, swapped files, symlink
   substitution.  [hash] is arbitrary too. *)
From CC Require Import Bytes Codec Utf8 Lines Json Sri Record Fs Prog Api BytesP FsP ProgP ReadP SriP.

Section C01.
Variable hash : algo -> bytes -> bytes.

(* whole read by address: success delivers bytes carrying the requested digest, and mutates nothing *)
Theorem C01_read_hash_sound f i :
  snd (run (read_hash hash i) f) = f /\
  forall d, fst (run (read_hash hash i) f) = Ok d ->
    digest_ok hash i d /\ exists cp, content_path i = Some cp /\ resolve f (InCache cp) = Some (File d).
Proof. exact (read_hash_sound hash f i). Qed.

(* whole read by key: the bytes carry the digest of the entry the lookup found *)
Theorem C01_read_sound f key :
  snd (run (read hash key) f) = f /\
  forall d, fst (run (read hash key) f) = Ok d ->
    exists m, fst (run (find hash key) f) = Ok (Some m) /\ digest_ok hash (m_sri m) d.
Proof. exact (read_sound hash f key). Qed.

(* streamed read finished by its check, for every sequence of buffer sizes *)
Theorem C01_reader_sound f i ns r :
  fst (run (ropen_hash i) f) = Ok r ->
  forall a, rcheck hash (snd (rchunks r ns)) = Ok a -> digest_ok hash i (List.concat (fst (rchunks r ns))).
Proof. exact (reader_sound hash f i ns r). Qed.

(* checked copy / hard link / reflink: what lands at the destination carries the digest *)
Theorem C01_extract_checked_sound f x i dst :
  forall n, fst (run (extract_hash hash x true i dst) f) = Ok n ->
    exists cp d, content_path i = Some cp /\ resolve f (InCache cp) = Some (File d) /\ digest_ok hash i d /\ n = lenN d /\
      match x with
      | XCopy => snd (run (extract_hash hash x true i dst) f) = update f dst (File d)
      | XHardLink => exists nd, lookup f (InCache cp) = Some nd /\ lookup f dst = None /\
                                snd (run (extract_hash hash x true i dst) f) = update f dst nd
      | XReflink => False
      end.
Proof. exact (extract_hash_checked hash f x i dst). Qed.

(* "carries the digest" means "is the stored data" unless the hash function collides on the two:
   the honest residue — no theorem can exclude a SHA collision *)
Theorem C01_checked_exact a stored got :
  digest_ok hash (sri_of hash a stored) got ->
  (hash a got = hash a stored -> got = stored) ->          (* CollisionFree on {got, stored} *)
  got = stored.
Proof. intros H Hcf. apply Hcf. apply (sri_check_computed hash a stored got). exact H. Qed.

End C01.

Check (C01_read_hash_sound : forall hash f i,
  snd (run (read_hash hash i) f) = f /\
  forall d, fst (run (read_hash hash i) f) = Ok d ->
    digest_ok hash i d /\ exists cp, content_path i = Some cp /\ resolve f (InCache cp) = Some (File d)).

(* non-vacuity: a damaged tree where the read fails, an intact one where it succeeds *)
Definition toy_hash (a : algo) (d : bytes) : bytes :=
  [n2b (N.modulo (lenN d) 251); n2b (N.modulo (fold_left (fun acc b => acc * 31 + b2n b)%N d 7%N) 256); x01].
Example C01_example :
  let i := sri_of toy_hash Sha256 (bs "hello") in
  match content_path i with
  | Some cp =>
      fst (run (read_hash toy_hash i) [(InCache cp, File (bs "hello"))]) = Ok (bs "hello") /\
      fst (run (read_hash toy_hash i) [(InCache cp, File (bs "hellp"))]) = Err EIntegrity /\
      fst (run (read_hash toy_hash i) [(InCache cp, Symlink (LAbs (bs "t"))); (Ext (bs "t"), File (bs "hel"))]) = Err EIntegrity
  | None => False
  end.
Proof. vm_compute. repeat split; reflexivity. Qed.

Print Assumptions C01_read_hash_sound.
Print Assumptions C01_read_sound.
Print Assumptions C01_reader_sound.
Print Assumptions C01_extract_checked_sound.
Print Assumptions C01_checked_exact.
