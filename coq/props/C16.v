(* C16 — addresses are pure digests: identical data is stored once, algorithms coexist. *)
From CC Require Import Bytes Codec Utf8 Lines Json Sri Record Fs Prog Api BytesP CodecP FsP ProgP SriP RecordP IndexP ReadP WriteP CommitP RemoveP Crash CrashP CrashIdxP KeepP.

Section C16.
Variable hash : algo -> bytes -> bytes.
Hypothesis HL : HashLen hash.

(* the address returned depends only on (algorithm, bytes): not on the key, the chunking, the flavour, the
   entry point, the declared size or the state of the cache *)
Theorem C16_address_is_digest_keyed f fl key o cs now :
  CacheInv f -> o_sri o = None -> size_ok o (lenN (List.concat cs)) = true ->
  wf_rec hash (smeta_of key (commit_opts o (sri_of hash (algo_of o) (List.concat cs)) (lenN (List.concat cs))) now) ->
  fst (run (stream_write hash fl (Some key) o cs now) f) = Ok (sri_of hash (algo_of o) (List.concat cs)).
Proof. intros H1 H2 H3 H4. exact (proj1 (stream_write_keyed_roundtrip hash HL f fl key o cs now H1 H2 H3 H4)). Qed.

Theorem C16_address_is_digest_by_hash f fl o cs now :
  CacheInv f -> o_sri o = None -> size_ok o (lenN (List.concat cs)) = true ->
  fst (run (stream_write hash fl None o cs now) f) = Ok (sri_of hash (algo_of o) (List.concat cs)).
Proof. intros H1 H2 H3. exact (proj1 (stream_write_by_hash_roundtrip hash HL f fl o cs now H1 H2 H3)). Qed.

(* the data lands at the path of its digest, complete *)
Theorem C16_stored_at_digest_path f w :
  WInv f w -> CacheInv f ->
  lookup (snd (run (close_writer hash w) f)) (InCache (cpath hash (w_algo w) (w_data w))) = Some (File (w_data w)).
Proof.
  intros Hw Hi. destruct (close_writer_inv hash HL f w Hw Hi) as [f1 [Hc [_ [Hcp _]]]]. rewrite Hc. exact Hcp.
Qed.

(* storing the same bytes again adds no second copy and leaves the stored copy byte-identical *)
Theorem C16_restore_idempotent f w :
  WInv f w -> CacheInv f ->
  lookup f (InCache (cpath hash (w_algo w) (w_data w))) = Some (File (w_data w)) ->
  forall l, is_content l ->
    lookup (snd (run (close_writer hash w) f)) l = lookup f l \/
    (lookup f l = None /\ lookup (snd (run (close_writer hash w) f)) l = Some Dir).
Proof. exact (restore_idempotent hash HL f w). Qed.

(* ... at EVERY instant: in every crash state of a write of the same bytes (one-shot; streamed with any chunking), and at
   its end, the stored copy is there and byte-identical *)
Theorem C16_rewrite_keeps_copy f fl key o data now :
  CacheInv f -> lookup f (InCache (cpath hash (algo_of o) data)) = Some (File data) ->
  Forall (fun g => lookup g (InCache (cpath hash (algo_of o) data)) = Some (File data)) (crash_states (oneshot hash fl key o data now) f) /\
  lookup (snd (run (oneshot hash fl key o data now) f)) (InCache (cpath hash (algo_of o) data)) = Some (File data).
Proof. exact (rewrite_keeps_copy hash HL f fl key o data now). Qed.

(* and every other stored copy too, whatever is written (equal bytes or not, any algorithm): entries coexist without
   affecting each other.  The side condition only excludes a digest collision between the written and the stored bytes. *)
Theorem C16_write_keeps_other_copies f fl key o cs now a0 d :
  CacheInv f -> lookup f (InCache (cpath hash a0 d)) = Some (File d) ->
  (InCache (cpath hash (algo_of o) (List.concat cs)) = InCache (cpath hash a0 d) -> List.concat cs = d) ->
  Forall (fun g => lookup g (InCache (cpath hash a0 d)) = Some (File d)) (crash_states (stream_write hash fl key o cs now) f) /\
  lookup (snd (run (stream_write hash fl key o cs now) f)) (InCache (cpath hash a0 d)) = Some (File d).
Proof. intros H1 H2 H3. apply (stream_write_keeps hash HL); [eexists _, _; reflexivity|exact H1|exact H2|exact H3]. Qed.

(* different algorithms never share a content path *)
Theorem C16_algos_disjoint a1 d1 a2 d2 : a1 <> a2 -> cpath hash a1 d1 <> cpath hash a2 d2.
Proof. exact (algos_disjoint hash a1 d1 a2 d2). Qed.

End C16.

Definition toy_hash (a : algo) (d : bytes) : bytes :=
  [n2b (N.modulo (lenN d) 251); n2b (N.modulo (fold_left (fun acc b => acc * 31 + b2n b)%N d 7%N) 256); x01].
Example C16_example :
  let o := mkWopts (Some Xxh3) None None None None None in
  fst (run (stream_write toy_hash Sync None o [bs "ab"; bs "c"] 1%N) []) =
  fst (run (stream_write toy_hash Async (Some (bs "k")) o [bs "a"; bs "bc"] 2%N) []).
Proof. vm_compute. reflexivity. Qed.

(* non-vacuity of the re-write theorem: after one write the copy is there, and a second write of the same bytes has
   crash states (17 of them), all of which still hold it *)
Example C16_example_rewrite :
  let o := mkWopts (Some Sha1) None None None None None in
  let f := snd (run (oneshot toy_hash Sync (Some (bs "k")) o (bs "same") 1%N) []) in
  lookup f (InCache (cpath toy_hash Sha1 (bs "same"))) = Some (File (bs "same")) /\
  (1 < List.length (crash_states (oneshot toy_hash Async (Some (bs "k2")) o (bs "same") 2%N) f))%nat /\
  forallb (fun g => match lookup g (InCache (cpath toy_hash Sha1 (bs "same"))) with Some (File d) => bytes_eqb d (bs "same") | _ => false end)
          (crash_states (oneshot toy_hash Async (Some (bs "k2")) o (bs "same") 2%N) f) = true.
Proof. vm_compute. split; [reflexivity|]. split; [repeat constructor|reflexivity]. Qed.

Print Assumptions C16_address_is_digest_keyed.
Print Assumptions C16_address_is_digest_by_hash.
Print Assumptions C16_stored_at_digest_path.
Print Assumptions C16_restore_idempotent.
Print Assumptions C16_algos_disjoint.
Print Assumptions C16_rewrite_keeps_copy.
Print Assumptions C16_write_keeps_other_copies.
