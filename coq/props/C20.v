(* C20 — no public call panics, aborts or hangs; every failure is a returned error.
   The model's outcomes include Panic, Hang and Stuck explicitly (Gallina's totality proves nothing by itself);
   the panic sites of the code are modelled where they are ([content_path]: ssri to_hex / hex slicing;
   [sri_check] on an empty integrity; [close_writer] addressing the computed digest).  Theorem: from EVERY tree
   (arbitrary on-disk state), for every sequence of operations with arbitrary handles, keys, data, chunkings,
   declared sizes and options — integrity ARGUMENTS well-formed, as the property assumes — every call returns Ok or
   Err.  Integrities that come out of the index are well-formed by the reader's own filter ([parse_entry_sri]).
   Partial: process aborts, stack exhaustion and executor starvation are runtime behaviour the model cannot exhibit;
   the harness runs every call under catch_unwind and a watchdog. *)
From CC Require Import Bytes Codec Utf8 Lines Json Sri Record Fs Prog Api Sess BytesP CodecP FsP ProgP SriP RecordP IndexP ReadP WriteP TotalP.

Section C20.
Variable hash : algo -> bytes -> bytes.
Hypothesis HL : HashLen hash.

Theorem C20_step_total s o now :
  sinv s -> wf_op o -> osafe (fst (step hash s o now)) /\ sinv (snd (step hash s o now)).
Proof. exact (step_total hash HL s o now). Qed.

Theorem C20_run_ops_total ops s i :
  sinv s -> Forall wf_op ops -> Forall osafe (fst (run_ops hash s ops i)).
Proof. exact (run_ops_total hash HL ops s i). Qed.

(* the same, entry point by entry point, on every tree *)
Theorem C20_reads_total key i x checked dst :
  wf_sri i ->
  psafe (find hash key) /\ psafe (read hash key) /\ psafe (read_hash hash i) /\ psafe (ropen hash key) /\
  psafe (ropen_hash i) /\ psafe (extract hash x checked key dst) /\ psafe (extract_hash hash x checked i dst) /\
  psafe (exists_hash i) /\ psafe (ls hash).
Proof.
  intros Hw. repeat split.
  - apply find_total. - apply read_total. - apply read_hash_total; assumption. - apply ropen_total.
  - apply ropen_hash_total; assumption. - apply extract_total. - apply extract_hash_total; assumption.
  - apply exists_hash_total; assumption. - apply ls_total.
Qed.

Theorem C20_writes_total fl a key okey o data now w i :
  wf_sri i ->
  psafe (write hash fl a key data now) /\ psafe (write_hash hash fl a data) /\ psafe (open_writer fl okey o) /\
  psafe (write_chunk w data) /\ psafe (commit hash w now) /\ psafe (drop_writer w) /\
  psafe (insert hash key o now) /\ psafe (delete hash key now) /\ psafe (remove_hash i) /\
  psafe (remove_fully hash key) /\ psafe clear.
Proof.
  intros Hw. repeat split.
  - apply write_total; assumption. - apply write_hash_total; assumption. - apply open_writer_total.
  - apply write_chunk_total. - apply commit_total; assumption. - apply drop_writer_total.
  - apply insert_total. - apply delete_total. - apply remove_hash_total; assumption.
  - apply remove_fully_total. - apply clear_total.
Qed.

End C20.

(* the definitions of "safe": Ok or Err, nothing else *)
Check (eq_refl : @safe nat Panic = False).
Check (eq_refl : @safe nat Hang = False).
Check (eq_refl : @safe nat Stuck = False).

(* non-vacuity: the empty session state satisfies the invariant; a crafted program with a directory at a content
   path, a declared size written in two chunks and a short write runs to error values *)
Definition toy_hash (a : algo) (d : bytes) : bytes :=
  [n2b (N.modulo (lenN d) 251); n2b (N.modulo (fold_left (fun acc b => acc * 31 + b2n b)%N d 7%N) 256); x01].
Example C20_sinv0 : sinv sstate0.
Proof. intros h r H. discriminate. Qed.
Example C20_example :
  let ops := [OOpen Sync 1%N (Some (bs "k")) (mkWopts None None (Some 10%N) None None None);
              OChunk 1%N (bs "01234"); OChunk 1%N (bs "56789"); OChunk 1%N (bs "x"); OCommit 1%N;
              ORead Sync (bs "k"); OCommit 9%N] in
  map (fun o => match o with Res (Ok _) => 0 | Res (Err _) => 1 | BadArg => 2 | _ => 3 end)%N
      (fst (run_ops toy_hash sstate0 ops 0%N)) = [0; 0; 0; 0; 1; 1; 2]%N.
Proof. vm_compute. reflexivity. Qed.

Print Assumptions C20_step_total.
Print Assumptions C20_run_ops_total.
Print Assumptions C20_reads_total.
Print Assumptions C20_writes_total.
