(* C19 — linked entries (link_to) read back verified target bytes, never copy or clobber.
   Model: the caller's files are [Ext] locations; the content path of a linked entry holds [Symlink (LAbs target)]
   (after the fix of the relative-target defect the library stores an absolute link text for relative and absolute
   arguments alike); reads follow the link and are verified like any other read.  Theorems:
   * link_read_back: after link_to key target on a cache in the invariant, the call returns the digest address of the
     target's bytes, read by key and by address return exactly those bytes, the recorded size is their length, the
     content path holds a symlink (no copy) and the target is untouched; other keys unchanged;
   * link_never_writes_target: for EVERY tree, linker state and answer of every step, every caller file is exactly
     as before (all steps are confined to the cache);
   * target changed / removed afterwards: a read returns Ok only with bytes carrying the address's digest (C01 on the
     arbitrary tree), and an I/O error when the target is gone;
   * declared integrity / size are enforced by the same decision rule as a write's commit, and a rejected link leaves
     every lookup unchanged.
   An address that already exists as regular content is accepted by the symlink-EEXIST / exists() branch of the model;
   that case, partial reads before commit and the three flavours are exercised by the correspondence suite. *)
From CC Require Import Bytes Codec Utf8 Lines Json Sri Record Fs Prog Api Crash BytesP CodecP FsP ProgP SriP RecordP IndexP ReadP WriteP CommitP RemoveP CrashP CrashIdxP ConfineP LinkP.

Section C19.
Variable hash : algo -> bytes -> bytes.
Hypothesis HL : HashLen hash.

Theorem C19_link_read_back f key target d now :
  CacheInv f -> lookup f (Ext target) = Some (File d) ->
  lookup f (InCache (cpath hash Sha256 d)) = None ->
  let o' := commit_opts (mkWopts None None (Some (lenN d)) None None None) (sri_of hash Sha256 d) (lenN d) in
  wf_rec hash (smeta_of key o' now) ->
  let f' := snd (run (link_to hash (Some key) target now) f) in
  fst (run (link_to hash (Some key) target now) f) = Ok (sri_of hash Sha256 d) /\
  run (read hash key) f' = (Ok d, f') /\
  run (read_hash hash (sri_of hash Sha256 d)) f' = (Ok d, f') /\
  lookup f' (InCache (cpath hash Sha256 d)) = Some (Symlink (LAbs target)) /\
  lookup f' (Ext target) = Some (File d) /\
  abs_idx hash f' key = new_entry key o' now /\
  (forall k, k <> key -> abs_idx hash f' k = abs_idx hash f k).
Proof. exact (link_read_back hash HL f key target d now). Qed.

Theorem C19_link_never_writes_target f l now n :
  lookup (snd (run (commit_linker hash l now) f)) (Ext n) = lookup f (Ext n).
Proof. exact (link_never_writes_target hash f l now n). Qed.

Theorem C19_linker_steps_confined plain key o target l now :
  all_steps readonly (open_linker plain key o target) /\ all_steps (confined None) (commit_linker hash l now).
Proof. split; [apply open_linker_readonly|apply commit_linker_confined]. Qed.

Theorem C19_link_target_changed f i out : fst (run (read_hash hash i) f) = Ok out -> digest_ok hash i out.
Proof. exact (link_target_changed hash f i out). Qed.

Theorem C19_link_target_removed f a d target :
  lookup f (InCache (cpath hash a d)) = Some (Symlink (LAbs target)) -> lookup f (Ext target) = None ->
  fst (run (read_hash hash (sri_of hash a d)) f) = Err EIoErr.
Proof. exact (link_target_removed hash HL f a d target). Qed.

Theorem C19_link_rejected f l now :
  ContentShape f -> IndexInv f ->
  lookup f (InCache (cpath hash (l_algo l) (l_seen l ++ l_rest l))) = None ->
  let data := l_seen l ++ l_rest l in
  (declared_ok (l_opts l) (sri_of hash (l_algo l) data) = None ->
     fst (run (commit_linker hash l now) f) = Err EIntegrity /\
     forall k, abs_idx hash (snd (run (commit_linker hash l now) f)) k = abs_idx hash f k) /\
  (forall final s, declared_ok (l_opts l) (sri_of hash (l_algo l) data) = Some final -> o_size (l_opts l) = Some s -> s <> lenN data ->
     fst (run (commit_linker hash l now) f) = Err (ESizeMismatch s (lenN data)) /\
     forall k, abs_idx hash (snd (run (commit_linker hash l now) f)) k = abs_idx hash f k).
Proof. exact (link_rejected hash HL f l now). Qed.

End C19.

Definition toy_hash (a : algo) (d : bytes) : bytes :=
  [n2b (N.modulo (lenN d) 251); n2b (N.modulo (fold_left (fun acc b => acc * 31 + b2n b)%N d 7%N) 256); x01].
(* non-vacuity: link, read back; change the target: integrity error; remove it: I/O error; an existing regular content
   file at the address is accepted and left alone *)
Example C19_example :
  let f0 := [(Ext (bs "t"), File (bs "target bytes"))] in
  let f1 := snd (run (link_to toy_hash (Some (bs "k")) (bs "t") 5%N) f0) in
  fst (run (read toy_hash (bs "k")) f1) = Ok (bs "target bytes") /\
  fst (run (read toy_hash (bs "k")) (update f1 (Ext (bs "t")) (File (bs "other")))) = Err EIntegrity /\
  fst (run (read toy_hash (bs "k")) (remove f1 (Ext (bs "t")))) = Err EIoErr /\
  (let g := snd (run (write_hash toy_hash Sync Sha256 (bs "target bytes")) f0) in
   fst (run (link_to toy_hash (Some (bs "k")) (bs "t") 5%N) g) = Ok (sri_of toy_hash Sha256 (bs "target bytes")) /\
   lookup (snd (run (link_to toy_hash (Some (bs "k")) (bs "t") 5%N) g)) (InCache (cpath toy_hash Sha256 (bs "target bytes"))) = Some (File (bs "target bytes"))).
Proof. vm_compute. repeat split; reflexivity. Qed.

Print Assumptions C19_link_read_back.
Print Assumptions C19_link_never_writes_target.
Print Assumptions C19_linker_steps_confined.
Print Assumptions C19_link_target_changed.
Print Assumptions C19_link_target_removed.
Print Assumptions C19_link_rejected.
