(* C14 — abandoned or rejected writes leave no trace in the index or temp area.
   Every step of a writer's life except an accepted commit leaves every lookup unchanged, and when the writer
   is gone so is its temp file.  A write cancelled while its background task is in flight is in the model too (Sess.v OAbandon: the
   chunk is stored and hashed, not acknowledged; the answer stays in the writer) and checked against the real writers
   by the "cancel" suite; when exactly the executor drops the temp file of a writer dropped in that state is runtime
   behaviour the model does not order — partial there. *)
From CC Require Import Bytes Codec Utf8 Lines Json Sri Record Fs Prog Api BytesP CodecP FsP ProgP SriP RecordP IndexP ReadP WriteP CommitP Crash Sess SessP.

Section C14.
Variable hash : algo -> bytes -> bytes.
Hypothesis HL : HashLen hash.

(* opening a writer changes no lookup *)
Theorem C14_open_no_effect f fl key o :
  CacheInv f -> forall k, abs_idx hash (snd (run (open_writer fl key o) f)) k = abs_idx hash f k.
Proof. exact (open_no_effect hash f fl key o). Qed.

(* writing a chunk touches nothing but the writer's own temp file *)
Theorem C14_chunk_no_effect f w s :
  WInv f w -> forall l, l <> w_tmp w -> lookup (snd (run (write_chunk w s) f)) l = lookup f l.
Proof. exact (chunk_no_effect hash f w s). Qed.

(* dropping: the temp file is gone, every other location is exactly as before *)
Theorem C14_drop_no_trace f w :
  WInv f w ->
  lookup (snd (run (drop_writer w) f)) (w_tmp w) = None /\
  forall l, l <> w_tmp w -> lookup (snd (run (drop_writer w) f)) l = lookup f l.
Proof. exact (drop_no_trace f w). Qed.

(* a rejected commit: every index location untouched, no temp file left *)
Theorem C14_rejected_no_trace f w now :
  WInv f w -> CacheInv f ->
  (declared_ok (w_opts w) (sri_of hash (w_algo w) (w_data w)) = None \/
   exists s, o_size (w_opts w) = Some s /\ s <> lenN (w_data w)) ->
  (fst (run (commit hash w now) f) = Err EIntegrity \/
   exists s, fst (run (commit hash w now) f) = Err (ESizeMismatch s (lenN (w_data w)))) /\
  (forall l, is_index l -> lookup (snd (run (commit hash w now) f)) l = lookup f l) /\
  (forall k, abs_idx hash (snd (run (commit hash w now) f)) k = abs_idx hash f k) /\
  lookup (snd (run (commit hash w now) f)) (w_tmp w) = None /\
  CacheInv (snd (run (commit hash w now) f)).
Proof. exact (commit_rejected_frame hash HL f w now). Qed.

(* over sessions (SessP.v): in ANY reachable state of ANY session — other writers open, other calls interleaved — opening a
   writer, feeding it (acknowledged writes, single write() calls, writes cancelled while the background task is in flight)
   and dropping it changes no location under index-v5 or content-v2, so no lookup, listing or read can tell; and after the
   drop its temp file is gone *)
Theorem C14_sessions ops o now :
  Forall sess_op ops -> quiet_op o ->
  let s := snd (run_ops hash sstate0 ops 0) in
  (forall l, is_index l \/ is_content l -> lookup (s_fs (snd (step hash s o now))) l = lookup (s_fs s) l) /\
  (forall h ws, o = ODrop h -> hget h (s_w s) = Some ws -> lookup (s_fs (snd (step hash s o now))) (w_tmp ws) = None).
Proof.
  intros H1 H2 s. apply (quiet_ops_no_trace hash); [|exact H2]. exact (run_ops_sinv hash HL ops sstate0 0 (sinv_init hash) H1).
Qed.

End C14.

Definition toy_hash (a : algo) (d : bytes) : bytes :=
  [n2b (N.modulo (lenN d) 251); n2b (N.modulo (fold_left (fun acc b => acc * 31 + b2n b)%N d 7%N) 256); x01].
Example C14_example :
  match run (open_writer Sync (Some (bs "k")) (mkWopts None None (Some 4%N) None None None)) [] with
  | (Ok w, f1) =>
      match run (write_chunk w (bs "ab")) f1 with
      | (Ok w2, f2) => snd (run (drop_writer w2) f2) = [(InCache [bs "tmp"], Dir)]
      | _ => False end
  | _ => False end.
Proof. vm_compute. reflexivity. Qed.

Print Assumptions C14_open_no_effect.
Print Assumptions C14_chunk_no_effect.
Print Assumptions C14_drop_no_trace.
Print Assumptions C14_rejected_no_trace.
Print Assumptions C14_sessions.
