(* C18 — extraction to a path delivers exact bytes; failed checks leave nothing behind.
   Arbitrary tree [f] (all damage classes), arbitrary destination state, arbitrary [hash]. *)
From CC Require Import Bytes Codec Utf8 Lines Json Sri Record Fs Prog Api BytesP FsP ProgP ReadP WriteP CommitP RemoveP Crash CrashP CrashIdxP KeepP JsonP RecCodecP MetaP HistP.

Section C18.
Variable hash : algo -> bytes -> bytes.

(* success of an unchecked extraction: the destination holds exactly the stored bytes (copy: and the
   returned count is their length); a hard link needs a fresh destination *)
Theorem C18_extract_unchecked_exact f x i dst n :
  fst (run (extract_hash hash x false i dst) f) = Ok n ->
  exists cp, content_path i = Some cp /\
    match x with
    | XCopy => exists d, resolve f (InCache cp) = Some (File d) /\ n = lenN d /\
                         snd (run (extract_hash hash x false i dst) f) = update f dst (File d)
    | XHardLink => exists nd, lookup f (InCache cp) = Some nd /\ lookup f dst = None /\
                              snd (run (extract_hash hash x false i dst) f) = update f dst nd
    | XReflink => False
    end.
Proof. exact (extract_hash_unchecked hash f x i dst n). Qed.

(* success of a checked extraction: the same, and the bytes were verified *)
Theorem C18_extract_checked_exact f x i dst :
  forall n, fst (run (extract_hash hash x true i dst) f) = Ok n ->
    exists cp d, content_path i = Some cp /\ resolve f (InCache cp) = Some (File d) /\ digest_ok hash i d /\ n = lenN d /\
      match x with
      | XCopy => snd (run (extract_hash hash x true i dst) f) = update f dst (File d)
      | XHardLink => exists nd, lookup f (InCache cp) = Some nd /\ lookup f dst = None /\
                                snd (run (extract_hash hash x true i dst) f) = update f dst nd
      | XReflink => False
      end.
Proof. exact (extract_hash_checked hash f x i dst). Qed.

(* a checked extraction that fails verification leaves the whole tree as it was: no file holding the
   unverified bytes appears at the destination, an existing destination is not replaced *)
Theorem C18_checked_fail_leaves_nothing f x i dst :
  fst (run (extract_hash hash x true i dst) f) = Err EIntegrity ->
  snd (run (extract_hash hash x true i dst) f) = f.
Proof. intros H. exact (extract_hash_checked_fail hash f x i dst EIntegrity H eq_refl). Qed.

(* missing key: the not-found error, nothing touched *)
Theorem C18_missing_key f x checked key dst :
  fst (run (find hash key) f) = Ok None ->
  run (extract hash x checked key dst) f = (Err ENotFound, f).
Proof. exact (extract_missing_key hash f x checked key dst). Qed.

(* missing content: an I/O error, nothing touched *)
Theorem C18_missing_content f x checked i dst cp :
  content_path i = Some cp -> resolve f (InCache cp) = None -> lookup f (InCache cp) = None ->
  run (extract_hash hash x checked i dst) f = (Err EIoErr, f).
Proof. exact (extract_missing_content hash f x checked i dst cp). Qed.

(* the positive direction, after any history (HistP.v): a checked copy of a key whose content is stored succeeds, returns
   the length, and leaves exactly the last data written under the key at the destination; a key the history's map does not
   hold is "not found" and nothing is touched *)
Theorem C18_copy_after_history (h : list cop) k e :
  HashLen hash ->
  forallb (c_ok hash) h = true -> NoColl hash (c_all (fold_left (c_step hash) h cspec0)) ->
  let f := fold_left (c_run hash) h [] in let s := fold_left (c_step hash) h cspec0 in
  lookup f (Ext e) <> Some Dir ->
  match c_map s k with
  | Some (a, d) => memb (a, d) (c_stored s) = true ->
                   run (extract hash XCopy true k (Ext e)) f = (Ok (lenN d), update f (Ext e) (File d))
  | None => run (extract hash XCopy true k (Ext e)) f = (Err ENotFound, f)
  end.
Proof.
  intros HL Hok Hnc f s Hd. exact (cinv_copy hash HL f s k e (chistory_refines hash HL h [] cspec0 (cinv_empty hash) Hok Hnc) Hd).
Qed.

End C18.

Check (C18_checked_fail_leaves_nothing : forall hash f x i dst,
  fst (run (extract_hash hash x true i dst) f) = Err EIntegrity ->
  snd (run (extract_hash hash x true i dst) f) = f).

Definition toy_hash (a : algo) (d : bytes) : bytes :=
  [n2b (N.modulo (lenN d) 251); n2b (N.modulo (fold_left (fun acc b => acc * 31 + b2n b)%N d 7%N) 256); x01].
Example C18_example :
  let i := sri_of toy_hash Sha1 (bs "data") in
  match content_path i with
  | Some cp =>
      run (extract_hash toy_hash XHardLink true i (Ext (bs "out"))) [(InCache cp, File (bs "dat!"))]
        = (Err EIntegrity, [(InCache cp, File (bs "dat!"))]) /\
      fst (run (extract_hash toy_hash XCopy true i (Ext (bs "out"))) [(InCache cp, File (bs "data"))]) = Ok 4%N
  | None => False
  end.
Proof. vm_compute. split; reflexivity. Qed.

Print Assumptions C18_extract_unchecked_exact.
Print Assumptions C18_extract_checked_exact.
Print Assumptions C18_checked_fail_leaves_nothing.
Print Assumptions C18_missing_key.
Print Assumptions C18_missing_content.
Print Assumptions C18_copy_after_history.
