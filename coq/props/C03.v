(* C03 — content files appear atomically: never partial, always matching their address.
   [crash_states p f] (theories/Crash.v) lists the tree a killed process leaves behind: every step boundary of the
   run, plus every intermediate state of steps the kernel performs piecemeal (a data write torn at EVERY byte
   length, a store through the mapping cut at every length, a recursive mkdir stopped after any number of
   directories, a copy stopped at any length).  [ContentInv] = every regular file anywhere under content-v2 carries
   the digest of its path.  Theorems: ContentInv holds at every crash state of every write (any chunking, keyed or
   by address, mapped or plain temp file, any options, cold or warm cache, address already present or not) and of
   every other API program on ANY tree.  The reason is visible in the proof: the only step of any program that
   puts a file under content-v2 is the rename of the writer's temp file, issued when that file holds exactly the
   bytes that were hashed ([close_writer_steps]); incomplete data lives only in tmp/.
   Over histories (SessP.v): after ANY sequence of API calls on one cache — several writers open at once, their chunks
   interleaved, writes cancelled while in flight (OAbandon), writers dropped or committed in any order — the invariant
   holds, every open writer's temp file holds exactly the bytes its digest covers, and a kill during the next call
   leaves only matching content files ([clear] under open writers, link_to and damage steps excluded).
   Modelled, not verified: atomicity of rename(2); posix_fallocate and remove_dir_all as single steps. *)
From CC Require Import Bytes Codec Utf8 Lines Json Sri Record Fs Prog Api Crash BytesP CodecP FsP ProgP SriP RecordP IndexP ReadP WriteP CommitP RemoveP CrashP Sess SessP.

Section C03.
Variable hash : algo -> bytes -> bytes.
Hypothesis HL : HashLen hash.

Theorem C03_stream_write_crash f fl key o cs now :
  CacheInv f -> ContentInv hash f ->
  Forall (ContentInv hash) (crash_states (stream_write hash fl key o cs now) f) /\
  ContentInv hash (snd (run (stream_write hash fl key o cs now) f)).
Proof. exact (stream_write_crash hash HL f fl key o cs now). Qed.

Theorem C03_write_crash f fl a key data now :
  CacheInv f -> ContentInv hash f ->
  Forall (ContentInv hash) (crash_states (write hash fl a key data now) f) /\
  ContentInv hash (snd (run (write hash fl a key data now) f)).
Proof. exact (oneshot_crash hash HL f fl (Some key) (write_opts fl a data) data now). Qed.

Theorem C03_write_hash_crash f fl a data :
  CacheInv f -> ContentInv hash f ->
  Forall (ContentInv hash) (crash_states (write_hash hash fl a data) f) /\
  ContentInv hash (snd (run (write_hash hash fl a data) f)).
Proof. exact (oneshot_crash hash HL f fl None _ data 0%N). Qed.

(* the general principle: a run all of whose steps are content-safe keeps the invariant at every crash state *)
Theorem C03_content_inv_crash {A} (p : prog A) f :
  ContentInv hash f -> steps_ok (csafe hash) p f ->
  Forall (ContentInv hash) (crash_states p f) /\ ContentInv hash (snd (run p f)).
Proof. exact (content_inv_crash hash p f). Qed.

(* the rename that publishes content is issued only when the temp file holds exactly the hashed bytes *)
Theorem C03_close_writer_steps f w : WInv f w -> steps_ok (csafe hash) (close_writer hash w) f.
Proof. exact (close_writer_steps hash HL f w). Qed.

(* every other entry point, on ANY tree: no step writes a file under content-v2 *)
Theorem C03_other_ops key i x checked dst now o f :
  ~ is_content dst -> ContentInv hash f ->
  Forall (ContentInv hash) (crash_states (insert hash key o now) f) /\
  Forall (ContentInv hash) (crash_states (find hash key) f) /\
  Forall (ContentInv hash) (crash_states (read_hash hash i) f) /\
  Forall (ContentInv hash) (crash_states (extract_hash hash x checked i dst) f) /\
  Forall (ContentInv hash) (crash_states (remove_hash i) f) /\
  Forall (ContentInv hash) (crash_states (remove_fully hash key) f).
Proof.
  intros Hd Hc. repeat split; apply (other_ops_crash hash); try exact Hc.
  - apply insert_all. - apply find_all. - apply read_hash_all. - apply extract_hash_all; exact Hd.
  - apply remove_hash_all. - apply remove_fully_all.
Qed.

(* every reachable state of every session, and every crash state of the next call *)
Theorem C03_sessions ops o i :
  Forall sess_op ops -> sess_op o ->
  SInv hash (snd (run_ops hash sstate0 ops 0)) /\
  Forall (ContentInv hash) (step_crash hash (snd (run_ops hash sstate0 ops 0)) o i).
Proof.
  intros H1 H2. split; [exact (run_ops_sinv hash HL ops sstate0 0 (sinv_init hash) H1)|exact (session_crash_content hash HL ops o i H1 H2)].
Qed.

(* what the session invariant says *)
Theorem C03_sinv_meaning s :
  SInv hash s ->
  ContentInv hash (s_fs s) /\
  (forall h ws, hget h (s_w s) = Some ws -> exists d, lookup (s_fs s) (w_tmp ws) = Some (File d) /\
     match w_map ws with Some sz => takeN (w_pos ws) d = w_data ws | None => d = w_data ws end).
Proof.
  intros [Hc [Hw _]]. split; [exact Hc|]. intros h ws Hh. destruct (Hw h ws Hh) as [_ [d [Hl Hm]]]. exists d. split; [exact Hl|].
  destruct (w_map ws); [exact (proj1 (proj2 (proj2 Hm)))|exact Hm].
Qed.

End C03.

(* non-vacuity: the crash states of a mapped two-chunk write on the empty tree, all satisfying the invariant's
   premise; one of them shows partial data — in tmp/ only *)
Definition toy_hash (a : algo) (d : bytes) : bytes :=
  [n2b (N.modulo (lenN d) 251); n2b (N.modulo (fold_left (fun acc b => acc * 31 + b2n b)%N d 7%N) 256); x01].
Example C03_empty : ContentInv toy_hash [].
Proof. intros p d H. discriminate. Qed.
Example C03_example :
  let o := mkWopts (Some Sha1) None (Some 4%N) None None None in
  let cs := crash_states (stream_write toy_hash Sync (Some (bs "k")) o [bs "ab"; bs "cd"] 9%N) [] in
  (List.length cs = 117)%nat /\
  existsb (fun g => match lookup g (InCache [bs "tmp"; [x54]]) with Some (File d) => bytes_eqb d [x61; x00; x00; x00] | _ => false end) cs = true.
Proof. vm_compute. split; reflexivity. Qed.

(* non-vacuity of the session theorem: two writers open at once, chunks interleaved, one write cancelled while in flight,
   one writer dropped, the other committed; the crash states of the commit (several) are covered *)
Example C03_example_session :
  let ops := [OOpen Async 1%N (Some (bs "k")) (mkWopts (Some Sha1) None None None None None);
              OOpen Sync 2%N None (mkWopts None None (Some 8%N) None None None);
              OChunk 1%N (bs "ab"); OAbandon 1%N (bs "cdef"); OChunk 2%N (bs "xy"); OWrite1 1%N (bs "g");
              OWrite Sync Sha256 (bs "other") (bs "data"); ODrop 2%N] in
  Forall sess_op ops /\ sess_op (OCommit 1%N) /\
  (1 < List.length (step_crash toy_hash (snd (run_ops toy_hash sstate0 ops 0)) (OCommit 1%N) 9%N))%nat /\
  match hget 1%N (s_w (snd (run_ops toy_hash sstate0 ops 0))) with Some ws => w_data ws = bs "abcdefg" | None => False end.
Proof. vm_compute. repeat split; repeat constructor. Qed.

Print Assumptions C03_stream_write_crash.
Print Assumptions C03_write_crash.
Print Assumptions C03_write_hash_crash.
Print Assumptions C03_content_inv_crash.
Print Assumptions C03_close_writer_steps.
Print Assumptions C03_other_ops.
Print Assumptions C03_sessions.
Print Assumptions C03_sinv_meaning.
