(* C10 — listing yields exactly the live entries, once each, agreeing with lookup.
   Per bucket, for arbitrary record lists (hence arbitrary bucket bytes via [entries]). *)
From CC Require Import Bytes Codec Utf8 Lines Json Sri Record BytesP LinesP LsP RecordP.

Section C10.
Variable hash : algo -> bytes -> bytes.

(* an entry is listed iff looking its key up finds exactly that entry *)
Theorem C10_ls_iff_find es m : In m (ls_entries es) <-> find_in (m_key m) es = Some m.
Proof. exact (ls_iff_find es m). Qed.

(* whatever a lookup finds is listed, field for field *)
Theorem C10_find_listed key es m : find_in key es = Some m -> In m (ls_entries es).
Proof. exact (find_listed key es m). Qed.

(* each key is listed at most once *)
Theorem C10_ls_keys_nodup es : NoDup (map m_key (ls_entries es)).
Proof. exact (ls_keys_nodup es). Qed.

(* the same on the bytes of a bucket file, whatever they are *)
Theorem C10_bucket_bytes f m : In m (ls_bytes hash f) <-> find_bytes hash (m_key m) f = Some m.
Proof. exact (ls_iff_find (entries hash f) m). Qed.

End C10.

Check (C10_ls_iff_find : forall es m, In m (ls_entries es) <-> find_in (m_key m) es = Some m).
Check (C10_ls_keys_nodup : forall es, NoDup (map m_key (ls_entries es))).

Print Assumptions C10_ls_iff_find.
Print Assumptions C10_find_listed.
Print Assumptions C10_ls_keys_nodup.
Print Assumptions C10_bucket_bytes.
