(* C10 — listing yields exactly the live entries, once each, agreeing with lookup.
   Per bucket, for arbitrary record lists (hence arbitrary bucket bytes via [entries]); and for the whole cache: the
   listing program (walk of index-v5, every bucket read and reduced) returns exactly the entries that lookups find, for
   every tree with a well-shaped index area in which every record sits in the bucket of its key (what the API produces;
   a record planted by hand in a foreign bucket is listed but not found: outside the property's histories). *)
From CC Require Import Bytes Codec Utf8 Lines Json Sri Record Fs Prog Api BytesP CodecP LinesP LsP FsP ProgP SriP RecordP IndexP ReadP WriteP CommitP RemoveP LsWholeP.

Section C10.
Variable hash : algo -> bytes -> bytes.

(* an entry is listed iff looking its key up finds exactly that entry *)
Theorem C10_ls_iff_find es m : In m (ls_entries es) <-> find_in (m_key m) es = Some m.
Proof. exact (ls_iff_find es m). Qed.

(* whatever a lookup finds is listed, field for field *)
Theorem C10_find_listed key es m : find_in key es = Some m -> In m (ls_entries es).
Proof. exact (find_listed key es m). Qed.

(* each key is listed at most once *)
Theorem C10_ls_keys_nodup es : NoDup (map m_key (ls_entries es)).
Proof. exact (ls_keys_nodup es). Qed.

(* the same on the bytes of a bucket file, whatever they are *)
Theorem C10_bucket_bytes f m : In m (ls_bytes hash f) <-> find_bytes hash (m_key m) f = Some m.
Proof. exact (ls_iff_find (entries hash f) m). Qed.

(* the whole cache *)
Theorem C10_ls_whole f :
  NoDupKeys f -> IndexInv f -> NoDeep f -> BucketPlacement hash f -> is_dir f [index_dir] = true ->
  exists items, run (ls hash) f = (Ok items, f) /\
    (forall it, In it items -> exists m, it = LMeta m) /\
    (forall m, In (LMeta m) items <-> abs_idx hash f (m_key m) = Some m).
Proof. exact (ls_whole hash f). Qed.

Theorem C10_ls_fresh f : is_dir f [index_dir] = false -> run (ls hash) f = (Ok [LErr EIoErr], f).
Proof. exact (ls_fresh hash f). Qed.

End C10.

(* non-vacuity: three writes and a removal over two keys; the listing is exactly the one live entry *)
Definition toy_hash (a : algo) (d : bytes) : bytes :=
  [n2b (N.modulo (lenN d) 251); n2b (N.modulo (fold_left (fun acc b => acc * 31 + b2n b)%N d 7%N) 256); x01].
Example C10_example :
  let f := snd (run (delete toy_hash (bs "a") 4%N)
            (snd (run (write toy_hash Sync Sha256 (bs "b") (bs "y") 3%N)
              (snd (run (write toy_hash Sync Sha256 (bs "a") (bs "x2") 2%N)
                (snd (run (write toy_hash Sync Sha256 (bs "a") (bs "x") 1%N) []))))))) in
  match fst (run (ls toy_hash) f) with
  | Ok [LMeta m] => bytes_eqb (m_key m) (bs "b") && N.eqb (m_size m) 1
  | _ => false end = true /\ is_dir f [index_dir] = true.
Proof. vm_compute. split; reflexivity. Qed.

Check (C10_ls_iff_find : forall es m, In m (ls_entries es) <-> find_in (m_key m) es = Some m).
Check (C10_ls_keys_nodup : forall es, NoDup (map m_key (ls_entries es))).

Print Assumptions C10_ls_iff_find.
Print Assumptions C10_find_listed.
Print Assumptions C10_ls_keys_nodup.
Print Assumptions C10_bucket_bytes.
Print Assumptions C10_ls_whole.
Print Assumptions C10_ls_fresh.
