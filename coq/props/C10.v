(* C10 — listing yields exactly the live entries, once each, agreeing with lookup.
   Per bucket, for arbitrary record lists (hence arbitrary bucket bytes via [entries]); and for the whole cache: the
   listing program (walk of index-v5, every bucket read and reduced) returns exactly the entries that lookups find, for
   every tree with a well-shaped index area in which every record sits in the bucket of its key (what the API produces;
   a record planted by hand in a foreign bucket is listed but not found: outside the property's histories). *)
From CC Require Import Bytes Codec Utf8 Lines Json Sri Record Fs Prog Api BytesP CodecP LinesP LsP FsP ProgP SriP RecordP IndexP ReadP WriteP CommitP RemoveP LsWholeP Crash CrashP CrashIdxP KeepP JsonP RecCodecP MetaP HistP LsHistP.

Section C10.
Variable hash : algo -> bytes -> bytes.

(* an entry is listed iff looking its key up finds exactly that entry *)
Theorem C10_ls_iff_find es m : In m (ls_entries es) <-> find_in (m_key m) es = Some m.
Proof. exact (ls_iff_find es m). Qed.

(* whatever a lookup finds is listed, field for field *)
Theorem C10_find_listed key es m : find_in key es = Some m -> In m (ls_entries es).
Proof. exact (find_listed key es m). Qed.

(* each key is listed at most once *)
Theorem C10_ls_keys_nodup es : NoDup (map m_key (ls_entries es)).
Proof. exact (ls_keys_nodup es). Qed.

(* the same on the bytes of a bucket file, whatever they are *)
Theorem C10_bucket_bytes f m : In m (ls_bytes hash f) <-> find_bytes hash (m_key m) f = Some m.
Proof. exact (ls_iff_find (entries hash f) m). Qed.

(* the whole cache *)
Theorem C10_ls_whole f :
  NoDupKeys f -> IndexInv f -> NoDeep f -> BucketPlacement hash f -> is_dir f [index_dir] = true ->
  exists items, run (ls hash) f = (Ok items, f) /\
    (forall it, In it items -> exists m, it = LMeta m) /\
    (forall m, In (LMeta m) items <-> abs_idx hash f (m_key m) = Some m).
Proof. exact (ls_whole hash f). Qed.

Theorem C10_ls_fresh f : is_dir f [index_dir] = false -> run (ls hash) f = (Ok [LErr EIoErr], f).
Proof. exact (ls_fresh hash f). Qed.

(* over histories (LsHistP.v): the shape hypotheses of [C10_ls_whole] hold in every state any history reaches, so after ANY
   sequence of keyed writes (one-shot, streamed), writes by address, key removals and removals of content from the empty
   cache — at least one of them touching the index — the listing succeeds, yields entries only, lists a key iff the
   specification map holds it (so: iff a lookup finds it), with the entry the lookup finds *)
Theorem C10_listing_after_history (h : list cop) :
  HashLen hash ->
  forallb (c_ok hash) h = true -> NoColl hash (c_all (fold_left (c_step hash) h cspec0)) -> existsb c_indexes h = true ->
  let f := fold_left (c_run hash) h [] in let s := fold_left (c_step hash) h cspec0 in
  exists items, run (ls hash) f = (Ok items, f) /\
    (forall it, In it items -> exists m, it = LMeta m) /\
    (forall m, In (LMeta m) items <-> abs_idx hash f (m_key m) = Some m) /\
    (forall k, (exists m, In (LMeta m) items /\ m_key m = k) <-> c_map s k <> None) /\
    (forall m a d, In (LMeta m) items -> c_map s (m_key m) = Some (a, d) -> m_sri m = sri_of hash a d).
Proof. intros HL. exact (listing_after_history hash HL h). Qed.

(* the shape invariants themselves are invariants of every history *)
Theorem C10_shape_reachable (h : list cop) f0 s0 :
  HashLen hash ->
  CInv hash f0 s0 -> LInv hash f0 -> forallb (c_ok hash) h = true -> NoColl hash (c_all (fold_left (c_step hash) h s0)) ->
  LInv hash (fold_left (c_run hash) h f0).
Proof. intros HL H0 Hl Hok Hnc. exact (proj1 (proj2 (lhistory hash HL h f0 s0 H0 Hl Hok Hnc))). Qed.

End C10.

(* non-vacuity: three writes and a removal over two keys; the listing is exactly the one live entry *)
Definition toy_hash (a : algo) (d : bytes) : bytes :=
  [n2b (N.modulo (lenN d) 251); n2b (N.modulo (fold_left (fun acc b => acc * 31 + b2n b)%N d 7%N) 256); x01].
Example C10_example :
  let f := snd (run (delete toy_hash (bs "a") 4%N)
            (snd (run (write toy_hash Sync Sha256 (bs "b") (bs "y") 3%N)
              (snd (run (write toy_hash Sync Sha256 (bs "a") (bs "x2") 2%N)
                (snd (run (write toy_hash Sync Sha256 (bs "a") (bs "x") 1%N) []))))))) in
  match fst (run (ls toy_hash) f) with
  | Ok [LMeta m] => bytes_eqb (m_key m) (bs "b") && N.eqb (m_size m) 1
  | _ => false end = true /\ is_dir f [index_dir] = true.
Proof. vm_compute. split; reflexivity. Qed.

Check (C10_ls_iff_find : forall es m, In m (ls_entries es) <-> find_in (m_key m) es = Some m).
Check (C10_ls_keys_nodup : forall es, NoDup (map m_key (ls_entries es))).

Print Assumptions C10_ls_iff_find.
Print Assumptions C10_find_listed.
Print Assumptions C10_ls_keys_nodup.
Print Assumptions C10_bucket_bytes.
Print Assumptions C10_ls_whole.
Print Assumptions C10_ls_fresh.
(* non-vacuity of the history theorem: its premises hold of a concrete history, and the listing of the final tree is
   exactly the two live keys *)
Example C10_history_example :
  let h := [CWrite Sync Sha256 (bs "k1") (bs "same") 1%N; CStream Async (bs "k2") (mkWopts (Some Sha256) None None None None None) [bs "sa"; bs "me"] 2%N;
            CWriteHash Sync Sha1 (bs "other"); CRemoveHash Sha256 (bs "same"); CWrite Sync Sha1 (bs "k1") (bs "new") 5%N;
            CWrite Sync Sha1 (bs "k3") (bs "x") 6%N; CRemove (bs "k3") 7%N] in
  forallb (c_ok toy_hash) h = true /\ NoColl toy_hash (c_all (fold_left (c_step toy_hash) h cspec0)) /\ existsb c_indexes h = true /\
  match fst (run (ls toy_hash) (fold_left (c_run toy_hash) h [])) with
  | Ok items => map (fun it => match it with LMeta m => m_key m | LErr _ => [] end) items = [bs "k2"; bs "k1"] \/
                map (fun it => match it with LMeta m => m_key m | LErr _ => [] end) items = [bs "k1"; bs "k2"]
  | _ => False end.
Proof.
  split; [vm_compute; reflexivity|]. split; [|split; [vm_compute; reflexivity|vm_compute; auto]].
  intros a d a' d' H1 H2 Hc. cbn in H1, H2.
  repeat (destruct H1 as [H1|H1]; [inversion H1; subst; clear H1|]); try contradiction;
    repeat (destruct H2 as [H2|H2]; [inversion H2; subst; clear H2|]); try contradiction; try reflexivity; vm_compute in Hc; discriminate.
Qed.
Print Assumptions C10_listing_after_history.
Print Assumptions C10_shape_reachable.
