(* C09 — removals remove exactly what they name and nothing else.
   remove = one tombstone record in the key's bucket; remove_hash = one unlink at the address's path;
   remove_fully = unlink the entry's content, unlink the bucket; clear = remove_dir_all of every child of the root.
   Each theorem states the effect AND the frame (what is untouched).  [hash] is arbitrary.  Keys that share one
   content file: after remove_fully of one key the other key's index entry is untouched (its bucket is another
   location) while its content is gone — exactly "other index entries unaffected" as the property words it; when
   two keys share a *bucket* (SHA-1 collision) remove_fully deletes the whole bucket file (the code unlinks it),
   which is why the frame of remove_fully is stated per location, not per key. *)
From CC Require Import Bytes Codec Utf8 Lines Json Sri Record Fs Prog Api BytesP CodecP FsP ProgP SriP RecordP IndexP ReadP WriteP CommitP RemoveP Crash CrashP CrashIdxP KeepP JsonP RecCodecP MetaP HistP Sess TotalP ConfineP FaultP SessP LsWholeP LsHistP FaultFrameP RetryP TreeP.

Section C09.
Variable hash : algo -> bytes -> bytes.

Theorem C09_remove_scope f key now :
  IndexInv f -> wf_rec hash (smeta_of key wopts0 now) ->
  let f' := snd (run (delete hash key now) f) in
  fst (run (delete hash key now) f) = Ok tt /\
  IndexInv f' /\
  (forall k, abs_idx hash f' k = if bytes_eqb k key then None else abs_idx hash f k) /\
  (forall l, (forall p, l <> InCache (index_dir :: p)) -> lookup f' l = lookup f l) /\
  (forall l, l <> InCache (bucket_path hash key) -> lookup f l <> None -> lookup f' l = lookup f l) /\
  entries hash (bucket_bytes hash f' key) = entries hash (bucket_bytes hash f key) ++ [smeta_of key wopts0 now].
Proof. exact (remove_scope hash f key now). Qed.

Theorem C09_remove_listing f key now m :
  IndexInv f -> wf_rec hash (smeta_of key wopts0 now) ->
  let f' := snd (run (delete hash key now) f) in
  In m (ls_bytes hash (bucket_bytes hash f' key)) <-> (In m (ls_bytes hash (bucket_bytes hash f key)) /\ m_key m <> key).
Proof. exact (remove_listing hash f key now m). Qed.

Theorem C09_remove_hash_scope f i :
  (forall l, (forall cp, content_path i = Some cp -> l <> InCache cp) ->
     lookup (snd (run (remove_hash i) f)) l = lookup f l) /\
  (forall cp, content_path i = Some cp ->
     (match lookup f (InCache cp) with
      | Some Dir => fst (run (remove_hash i) f) = Err EIoErr /\ snd (run (remove_hash i) f) = f
      | Some _ => fst (run (remove_hash i) f) = Ok tt /\ lookup (snd (run (remove_hash i) f)) (InCache cp) = None
      | None => fst (run (remove_hash i) f) = Err EIoErr /\ snd (run (remove_hash i) f) = f
      end)).
Proof. exact (remove_hash_scope f i). Qed.

Theorem C09_remove_fully_frame f key l :
  l <> InCache (bucket_path hash key) ->
  (forall m cp, fst (run (find hash key) f) = Ok (Some m) -> content_path (m_sri m) = Some cp -> l <> InCache cp) ->
  lookup (snd (run (remove_fully hash key) f)) l = lookup f l.
Proof. exact (remove_fully_frame hash f key l). Qed.

Theorem C09_remove_fully_scope f key m cp nd :
  IndexInv f -> abs_idx hash f key = Some m -> content_path (m_sri m) = Some cp ->
  lookup f (InCache cp) = Some nd -> nd <> Dir -> cp <> bucket_path hash key ->
  let f' := snd (run (remove_fully hash key) f) in
  fst (run (remove_fully hash key) f) = Ok tt /\
  lookup f' (InCache cp) = None /\
  lookup f' (InCache (bucket_path hash key)) = None /\
  abs_idx hash f' key = None /\
  (forall l, l <> InCache cp -> l <> InCache (bucket_path hash key) -> lookup f' l = lookup f l).
Proof. exact (remove_fully_scope hash f key m cp nd). Qed.

Theorem C09_remove_fully_content_gone f key m cp :
  IndexInv f -> abs_idx hash f key = Some m -> content_path (m_sri m) = Some cp ->
  lookup f (InCache cp) = None ->
  let f' := snd (run (remove_fully hash key) f) in
  fst (run (remove_fully hash key) f) = Ok tt /\
  abs_idx hash f' key = None /\
  (forall l, l <> InCache (bucket_path hash key) -> lookup f' l = lookup f l).
Proof. exact (remove_fully_content_gone hash f key m cp). Qed.

Theorem C09_clear_scope f :
  NoDupKeys f -> RootShape f ->
  let f' := snd (run clear f) in
  fst (run clear f) = Ok tt /\
  (forall p, lookup f' (InCache p) = None) /\
  (forall n, lookup f' (Ext n) = lookup f (Ext n)).
Proof. exact (clear_scope f). Qed.

Theorem C09_clear_usable f : NoDupKeys f -> RootShape f -> CacheInv (snd (run clear f)).
Proof. exact (clear_usable f). Qed.

(* over histories (HistP.v): after ANY sequence of keyed writes (one-shot, streamed with any chunking), writes by address,
   removals of keys, removals of content by address and FULL removals (entry + content; the bucket file is unlinked, so every
   key that shares it goes with it), the tree refines a three-part specification state — the map
   key -> (algorithm, data) of last writes, the list of stored contents, everything ever named — and every read answers
   from it: a removed key is "not found" while its content stays readable by address; a removed address makes exactly
   the keys that point at it fail (I/O error, never other bytes) while every other key and content reads as before. *)
Theorem C09_history_refines (h : list (cop)) f0 s0 :
  HashLen hash -> CInv hash f0 s0 -> forallb (c_ok hash) h = true -> NoColl hash (c_all (fold_left (c_step hash) h s0)) ->
  let f := fold_left (c_run hash) h f0 in let s := fold_left (c_step hash) h s0 in
  (forall k, run (read hash k) f = (c_read s k, f)) /\
  (forall a d, In (a, d) (c_all s) ->
     run (read_hash hash (sri_of hash a d)) f = (if memb (a, d) (c_stored s) then Ok d else Err EIoErr, f)).
Proof. intros HL H0 Hok Hnc f s. exact (cinv_reads hash HL _ _ (chistory_refines hash HL h f0 s0 H0 Hok Hnc)). Qed.

(* the specification's own laws: removing a key clears that key only and leaves the store; removing an address leaves the map *)
Theorem C09_spec_remove_key s key now :
  (forall k, c_map (c_step hash s (CRemove key now)) k = if bytes_eqb k key then None else c_map s k) /\
  c_stored (c_step hash s (CRemove key now)) = c_stored s.
Proof. split; [intros k|]; reflexivity. Qed.
Theorem C09_spec_remove_hash s a d x :
  c_map (c_step hash s (CRemoveHash a d)) = c_map s /\
  memb (a, d) (c_stored (c_step hash s (CRemoveHash a d))) = false /\
  (x <> (a, d) -> memb x (c_stored (c_step hash s (CRemoveHash a d))) = memb x (c_stored s)).
Proof.
  split; [reflexivity|]. split; [apply memb_del_same|]. intros Hne. apply memb_del_other. congruence.
Qed.

Theorem C09_spec_remove_fully s key :
  (forall k, c_map (c_step hash s (CRemoveFully key)) k
             = if list_eqb bytes_eqb (bucket_path hash k) (bucket_path hash key) then None else c_map s k) /\
  c_stored (c_step hash s (CRemoveFully key)) = match c_map s key with Some ad => del ad (c_stored s) | None => c_stored s end.
Proof. split; [intros k|]; reflexivity. Qed.

(* clearing, after ANY history (TreeP.v): the hypotheses of [C09_clear_scope] / [C09_clear_usable] — no location listed twice,
   the cache directory a tree — are invariants of every step of every API program, so whatever was written and removed
   before, clear succeeds, leaves nothing under the cache root, touches nothing outside, and the result is a usable cache *)
Theorem C09_clear_after_history (h : list cop) :
  HashLen hash ->
  let f := fold_left (c_run hash) h [] in
  fst (run clear f) = Ok tt /\
  (forall p, lookup (snd (run clear f)) (InCache p) = None) /\
  (forall n, lookup (snd (run clear f)) (Ext n) = lookup f (Ext n)) /\
  CacheInv (snd (run clear f)).
Proof. intros HL. exact (clear_after_history hash HL h). Qed.

End C09.

(* non-vacuity: a cache with two keys sharing one content file; remove_fully of one, then the other key's entry
   is still found (its content is gone), and clear empties everything *)
Definition toy_hash (a : algo) (d : bytes) : bytes :=
  [n2b (N.modulo (lenN d) 251); n2b (N.modulo (fold_left (fun acc b => acc * 31 + b2n b)%N d 7%N) 256); x01].
Definition ex_fs : fs :=
  snd (run (write toy_hash Sync Sha256 (bs "k2") (bs "data") 8%N)
        (snd (run (write toy_hash Sync Sha256 (bs "k1") (bs "data") 7%N) []))).
Example C09_example_remove_fully :
  let f' := snd (run (remove_fully toy_hash (bs "k1")) ex_fs) in
  fst (run (remove_fully toy_hash (bs "k1")) ex_fs) = Ok tt /\
  fst (run (find toy_hash (bs "k1")) f') = Ok None /\
  (exists m, fst (run (find toy_hash (bs "k2")) f') = Ok (Some m)) /\
  fst (run (read toy_hash (bs "k2")) f') = Err EIoErr /\
  fst (run (remove_fully toy_hash (bs "k2")) f') = Ok tt /\
  fst (run (find toy_hash (bs "k2")) (snd (run (remove_fully toy_hash (bs "k2")) f'))) = Ok None.
Proof. vm_compute. repeat split; try reflexivity. eexists; reflexivity. Qed.
Example C09_example_clear :
  RootShape ex_fs /\ snd (run clear ex_fs) = [].
Proof.
  split; [|vm_compute; reflexivity]. split; [vm_compute; reflexivity|]. split.
  - intros n nd H.
    assert (forall l x, lookup ex_fs l = Some x -> In (l, x) ex_fs) as Hin by (intros l x; apply lookup_in).
    apply Hin in H. vm_compute in H. repeat (destruct H as [H|H]; [inversion H; subst; reflexivity|]). destruct H.
  - intros x p nd H. apply lookup_in in H. vm_compute in H.
    repeat (destruct H as [H|H]; [inversion H; subst; vm_compute; discriminate|]). destruct H.
Qed.

Print Assumptions C09_remove_scope.
Print Assumptions C09_remove_listing.
Print Assumptions C09_remove_hash_scope.
Print Assumptions C09_remove_fully_frame.
Print Assumptions C09_remove_fully_scope.
Print Assumptions C09_remove_fully_content_gone.
Print Assumptions C09_clear_scope.
Print Assumptions C09_clear_usable.

(* non-vacuity of the history theorem: two keys share one content; the content is removed by address; one key is rewritten *)
Example C09_history_example :
  let h := [CWrite Sync Sha256 (bs "k1") (bs "same") 1%N; CStream Async (bs "k2") (mkWopts (Some Sha256) None None None None None) [bs "sa"; bs "me"] 2%N;
            CWriteHash Sync Sha1 (bs "other"); CRemoveHash Sha256 (bs "same"); CWrite Sync Sha1 (bs "k1") (bs "new") 5%N; CRemove (bs "k3") 6%N; CWrite Sync Sha1 (bs "k4") (bs "four") 7%N; CRemoveFully (bs "k4")] in
  forallb (c_ok toy_hash) h = true /\ NoColl toy_hash (c_all (fold_left (c_step toy_hash) h cspec0)) /\
  c_read (fold_left (c_step toy_hash) h cspec0) (bs "k1") = Ok (bs "new") /\
  c_read (fold_left (c_step toy_hash) h cspec0) (bs "k2") = Err EIoErr /\
  c_read (fold_left (c_step toy_hash) h cspec0) (bs "k3") = Err ENotFound.
Proof.
  split; [vm_compute; reflexivity|]. split; [|repeat split; vm_compute; reflexivity].
  intros a d a' d' H1 H2 Hc. cbn in H1, H2.
  repeat (destruct H1 as [H1|H1]; [inversion H1; subst; clear H1|]); try contradiction;
    repeat (destruct H2 as [H2|H2]; [inversion H2; subst; clear H2|]); try contradiction; try reflexivity; vm_compute in Hc; discriminate.
Qed.
Print Assumptions C09_history_refines.
Print Assumptions C09_spec_remove_key.
Print Assumptions C09_spec_remove_hash.
Print Assumptions C09_spec_remove_fully.
Print Assumptions C09_clear_after_history.
