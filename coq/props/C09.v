(* C09 — removals remove exactly what they name and nothing else.
   remove = one tombstone record in the key's bucket; remove_hash = one unlink at the address's path;
   remove_fully = unlink the entry's content, unlink the bucket; clear = remove_dir_all of every child of the root.
   Each theorem states the effect AND the frame (what is untouched).  [hash] is arbitrary.  Keys that share one
   content file: after remove_fully of one key the other key's index entry is untouched (its bucket is another
   location) while its content is gone — exactly "other index entries unaffected" as the property words it; when
   two keys share a *bucket* (SHA-1 collision) remove_fully deletes the whole bucket file (the code unlinks it),
   which is why the frame of remove_fully is stated per location, not per key. *)
From CC Require Import Bytes Codec Utf8 Lines Json Sri Record Fs Prog Api BytesP CodecP FsP ProgP SriP RecordP IndexP ReadP WriteP CommitP RemoveP.

Section C09.
Variable hash : algo -> bytes -> bytes.

Theorem C09_remove_scope f key now :
  IndexInv f -> wf_rec hash (smeta_of key wopts0 now) ->
  let f' := snd (run (delete hash key now) f) in
  fst (run (delete hash key now) f) = Ok tt /\
  IndexInv f' /\
  (forall k, abs_idx hash f' k = if bytes_eqb k key then None else abs_idx hash f k) /\
  (forall l, (forall p, l <> InCache (index_dir :: p)) -> lookup f' l = lookup f l) /\
  (forall l, l <> InCache (bucket_path hash key) -> lookup f l <> None -> lookup f' l = lookup f l) /\
  entries hash (bucket_bytes hash f' key) = entries hash (bucket_bytes hash f key) ++ [smeta_of key wopts0 now].
Proof. exact (remove_scope hash f key now). Qed.

Theorem C09_remove_listing f key now m :
  IndexInv f -> wf_rec hash (smeta_of key wopts0 now) ->
  let f' := snd (run (delete hash key now) f) in
  In m (ls_bytes hash (bucket_bytes hash f' key)) <-> (In m (ls_bytes hash (bucket_bytes hash f key)) /\ m_key m <> key).
Proof. exact (remove_listing hash f key now m). Qed.

Theorem C09_remove_hash_scope f i :
  (forall l, (forall cp, content_path i = Some cp -> l <> InCache cp) ->
     lookup (snd (run (remove_hash i) f)) l = lookup f l) /\
  (forall cp, content_path i = Some cp ->
     (match lookup f (InCache cp) with
      | Some Dir => fst (run (remove_hash i) f) = Err EIoErr /\ snd (run (remove_hash i) f) = f
      | Some _ => fst (run (remove_hash i) f) = Ok tt /\ lookup (snd (run (remove_hash i) f)) (InCache cp) = None
      | None => fst (run (remove_hash i) f) = Err EIoErr /\ snd (run (remove_hash i) f) = f
      end)).
Proof. exact (remove_hash_scope f i). Qed.

Theorem C09_remove_fully_frame f key l :
  l <> InCache (bucket_path hash key) ->
  (forall m cp, fst (run (find hash key) f) = Ok (Some m) -> content_path (m_sri m) = Some cp -> l <> InCache cp) ->
  lookup (snd (run (remove_fully hash key) f)) l = lookup f l.
Proof. exact (remove_fully_frame hash f key l). Qed.

Theorem C09_remove_fully_scope f key m cp nd :
  IndexInv f -> abs_idx hash f key = Some m -> content_path (m_sri m) = Some cp ->
  lookup f (InCache cp) = Some nd -> nd <> Dir -> cp <> bucket_path hash key ->
  let f' := snd (run (remove_fully hash key) f) in
  fst (run (remove_fully hash key) f) = Ok tt /\
  lookup f' (InCache cp) = None /\
  lookup f' (InCache (bucket_path hash key)) = None /\
  abs_idx hash f' key = None /\
  (forall l, l <> InCache cp -> l <> InCache (bucket_path hash key) -> lookup f' l = lookup f l).
Proof. exact (remove_fully_scope hash f key m cp nd). Qed.

Theorem C09_remove_fully_content_gone f key m cp :
  IndexInv f -> abs_idx hash f key = Some m -> content_path (m_sri m) = Some cp ->
  lookup f (InCache cp) = None ->
  let f' := snd (run (remove_fully hash key) f) in
  fst (run (remove_fully hash key) f) = Ok tt /\
  abs_idx hash f' key = None /\
  (forall l, l <> InCache (bucket_path hash key) -> lookup f' l = lookup f l).
Proof. exact (remove_fully_content_gone hash f key m cp). Qed.

Theorem C09_clear_scope f :
  NoDupKeys f -> RootShape f ->
  let f' := snd (run clear f) in
  fst (run clear f) = Ok tt /\
  (forall p, lookup f' (InCache p) = None) /\
  (forall n, lookup f' (Ext n) = lookup f (Ext n)).
Proof. exact (clear_scope f). Qed.

Theorem C09_clear_usable f : NoDupKeys f -> RootShape f -> CacheInv (snd (run clear f)).
Proof. exact (clear_usable f). Qed.

End C09.

(* non-vacuity: a cache with two keys sharing one content file; remove_fully of one, then the other key's entry
   is still found (its content is gone), and clear empties everything *)
Definition toy_hash (a : algo) (d : bytes) : bytes :=
  [n2b (N.modulo (lenN d) 251); n2b (N.modulo (fold_left (fun acc b => acc * 31 + b2n b)%N d 7%N) 256); x01].
Definition ex_fs : fs :=
  snd (run (write toy_hash Sync Sha256 (bs "k2") (bs "data") 8%N)
        (snd (run (write toy_hash Sync Sha256 (bs "k1") (bs "data") 7%N) []))).
Example C09_example_remove_fully :
  let f' := snd (run (remove_fully toy_hash (bs "k1")) ex_fs) in
  fst (run (remove_fully toy_hash (bs "k1")) ex_fs) = Ok tt /\
  fst (run (find toy_hash (bs "k1")) f') = Ok None /\
  (exists m, fst (run (find toy_hash (bs "k2")) f') = Ok (Some m)) /\
  fst (run (read toy_hash (bs "k2")) f') = Err EIoErr /\
  fst (run (remove_fully toy_hash (bs "k2")) f') = Ok tt /\
  fst (run (find toy_hash (bs "k2")) (snd (run (remove_fully toy_hash (bs "k2")) f'))) = Ok None.
Proof. vm_compute. repeat split; try reflexivity. eexists; reflexivity. Qed.
Example C09_example_clear :
  RootShape ex_fs /\ snd (run clear ex_fs) = [].
Proof.
  split; [|vm_compute; reflexivity]. split; [vm_compute; reflexivity|]. split.
  - intros n nd H.
    assert (forall l x, lookup ex_fs l = Some x -> In (l, x) ex_fs) as Hin by (intros l x; apply lookup_in).
    apply Hin in H. vm_compute in H. repeat (destruct H as [H|H]; [inversion H; subst; reflexivity|]). destruct H.
  - intros x p nd H. apply lookup_in in H. vm_compute in H.
    repeat (destruct H as [H|H]; [inversion H; subst; vm_compute; discriminate|]). destruct H.
Qed.

Print Assumptions C09_remove_scope.
Print Assumptions C09_remove_listing.
Print Assumptions C09_remove_hash_scope.
Print Assumptions C09_remove_fully_frame.
Print Assumptions C09_remove_fully_scope.
Print Assumptions C09_remove_fully_content_gone.
Print Assumptions C09_clear_scope.
Print Assumptions C09_clear_usable.
