(* C12 — sync, async-std and tokio flavours are observationally equivalent.
   The model has ONE program per entry point and a flavour parameter exactly where the Rust sources differ by text:
   (a) the size handed to the content writer (keyed async writers never memory-map), (b) the options of the one-shot
   keyed writes (write_sync declares no size, async write declares the length).  The theorems say these differences
   are unobservable.  async-std vs tokio: no source-level difference beyond the runtime library, hence no model-level
   difference; their equivalence is carried by the correspondence (each of the three binaries must match this one
   deterministic model on the same programs, pure and mixed-flavour). *)
From CC Require Import Bytes Codec Utf8 Lines Json Sri Record Fs Prog Api Sess BytesP CodecP FsP ProgP SriP RecordP IndexP ReadP WriteP CommitP FlavourP.

Section C12.
Variable hash : algo -> bytes -> bytes.

(* every operation except keyed writes: one step function for all flavours, on every session state (any tree, any
   open handles) — reads, extractions, removals, listing, index access, by-address writes *)
Theorem C12_step_flavour_blind s o now fl :
  fl_sensitive o = false -> step hash s (reflavour fl o) now = step hash s o now.
Proof. exact (step_flavour_blind hash s o now fl). Qed.

(* keyed one-shot write: identical result and identical tree, from EVERY tree (damaged ones included) *)
Theorem C12_write_flavour a key data now f :
  run (write hash Async a key data now) f = run (write hash Sync a key data now) f.
Proof. exact (write_flavour hash a key data now f). Qed.

Theorem C12_write_hash_flavour fl fl' a d : write_hash hash fl a d = write_hash hash fl' a d.
Proof. exact (write_hash_flavour hash fl fl' a d). Qed.

(* keyed streamed writers (mapped vs plain temp file): same answer, same lookup for every key, same bytes read back *)
Theorem C12_stream_keyed_flavour (HL : HashLen hash) f key o cs now :
  CacheInv f -> o_sri o = None -> size_ok o (lenN (List.concat cs)) = true ->
  let data := List.concat cs in
  wf_rec hash (smeta_of key (commit_opts o (sri_of hash (algo_of o) data) (lenN data)) now) ->
  let fS := snd (run (stream_write hash Sync (Some key) o cs now) f) in
  let fA := snd (run (stream_write hash Async (Some key) o cs now) f) in
  fst (run (stream_write hash Sync (Some key) o cs now) f) = fst (run (stream_write hash Async (Some key) o cs now) f) /\
  (forall k, abs_idx hash fS k = abs_idx hash fA k) /\
  run (read hash key) fS = (Ok data, fS) /\ run (read hash key) fA = (Ok data, fA) /\
  CacheInv fS /\ CacheInv fA.
Proof. exact (stream_keyed_flavour hash HL f key o cs now). Qed.

(* whole sessions: ANY assignment of the sync / async entry points to the calls of a session (every operation kind,
   damage steps in between included; the one exception is opening a keyed streamed writer, covered by the theorem above)
   gives the same answer at every step and the same final state *)
Theorem C12_sessions_any_flavour (g : op -> flavour) ops s i :
  forallb fl_free ops = true -> run_ops hash s (map (fun o => reflavour (g o) o) ops) i = run_ops hash s ops i.
Proof. exact (run_ops_any_flavour hash g ops s i). Qed.

End C12.

Definition toy_hash (a : algo) (d : bytes) : bytes :=
  [n2b (N.modulo (lenN d) 251); n2b (N.modulo (fold_left (fun acc b => acc * 31 + b2n b)%N d 7%N) 256); x01].
(* non-vacuity: a mapped sync writer and a plain async writer, three chunks, leave the same tree *)
Example C12_example :
  let o := mkWopts (Some Sha1) None (Some 5%N) None None None in
  snd (run (stream_write toy_hash Sync (Some (bs "k")) o [bs "ab"; []; bs "cde"] 9%N) [])
  = snd (run (stream_write toy_hash Async (Some (bs "k")) o [bs "ab"; []; bs "cde"] 9%N) []).
Proof. vm_compute. reflexivity. Qed.

Print Assumptions C12_step_flavour_blind.
Print Assumptions C12_write_flavour.
Print Assumptions C12_write_hash_flavour.
Print Assumptions C12_stream_keyed_flavour.
Print Assumptions C12_sessions_any_flavour.
