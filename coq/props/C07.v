(* C07 — concurrent, lock-free use behaves like some serial order.
   Model (theories/Conc.v): a pool of step programs, one transition = one filesystem step of one thread (rename, a
   single O_APPEND write, O_EXCL creation are atomic steps: modelled, not verified).
   General theorems, any number of threads, any interleaving:
   * C07_explore_complete: the explorer returns every terminal state of every interleaving of a pool;
   * C07_interleave_invariant / C07_conc_content_inv: an invariant kept by every (state-independently safe) step holds
     in every reachable state — no reader ever sees partial content under an address;
   * C07_appends_never_splice: appends of any threads to one bucket give the whole records in step order.
   * C07_conc_index_serializable — UNBOUNDED serialisability of the index: any number of concurrent index writers
     (inserts and tombstone removals: the index phase of every keyed write and of every removal), any interleaving of
     their mkdir / open(O_CREAT|O_APPEND) / append steps, from any tree with a well-shaped index area: no step fails,
     every operation returns Ok, and the final buckets and lookups are those of running the operations serially in the
     order of their append steps (a permutation of the operations).  No successful write is lost or spliced.
   * C07_conc_writes_serializable — UNBOUNDED serialisability of concurrent keyed writers AND removers: any number of
     one-shot writers (same key, different keys, identical or different content, any algorithms) and tombstone removers
     (the index insert of a removal), any interleaving of all their
     steps (mkdir tmp, O_EXCL temp file, data write, mkdir content, rename, mkdir index, open, append), from any tree in
     the cache invariant: no step fails; every writer returns the digest address of its data; every written content is
     completely stored under its address; the invariant is kept; and the index is exactly the one of the serial run of the
     writers in the order of their append steps.  Proof: per-thread stage predicate (the program term each thread can
     be at, with what it needs of the tree), a stability ("rely") relation — directories stay, bucket files stay files,
     published content stays, nobody touches another thread's temp file (fresh O_EXCL names are pairwise distinct) — and
     the ghost order of appends.  Hypothesis: the writers' data do not collide under their content paths.
   * C07_readers_among_writers — UNBOUNDED, readers included: any number of readers ([read key]: one step on the bucket,
     one on the content file) run with any number of such writers / removers, any interleaving of all steps (two pools
     on one tree, theories/Conc.v [ostep]).  The writers run exactly as without the readers, and the result of every
     reader is the result of the same read executed ATOMICALLY in the reachable state of the writers at which its index
     step happened: no reader observes partial content or a partial index record.  C07_atomic_read_value: such an
     atomic read answers "not found" or the complete, verified bytes of the initial entry or of one of the writers of
     that key whose record is appended.  Invariants behind it: content files are monotone (published bytes are only
     ever replaced by identical bytes), every content file comes from the initial cache or is the complete data of a
     writer, every visible index entry is backed by its content.  Hypotheses: as above plus the writers' data do not
     collide with content already stored, and the initial entries are backed (true of the empty cache and of every
     state such writers reach: C07_backed_reachable).
   * C07_serializable_with_readers — the property's statement for {write, remove, read}, UNBOUNDED: for any number of
     keyed one-shot writers, tombstone removers and readers by key, any interleaving of all their steps, from any
     cache that is the result of a sequential history (HistP.HInv; the empty cache included), there is ONE sequential
     order of the writers / removers (a permutation: the order of their append steps) and for every reader a position
     n in it such that every writer / remover returns what it returns alone, every read of the final tree answers as
     on the tree obtained by RUNNING the writers / removers one after the other in that order ([serial]: real
     sequential runs of the library's write / delete programs), and the reader's result is the result of the same read
     on the tree obtained by running the first n of them one after the other.  Hypotheses: arguments the record codec
     accepts (kv_ok, decidable), no digest collision among the data involved (NoColl) nor with content already stored
     (coll0).  C07_serializable_mixed: the same with observers of four kinds in one pool — read by key, metadata (index
     lookup), read by the address of some data, existence test; all answers and the final state are those of one
     sequential order (a content observer that sees the bytes is placed at the end of the order — content is visible
     before its writer's record is — one that does not see them at its ghost prefix).
   Serialisability of whole operations mixing readers / removers / listers, bounded (the bound is part of each statement): for the nine concrete pairs below — drawn from the
   property's operation set on cold and warm caches, with a toy hash, concrete keys and contents (two writers of one key /
   of one content are taken after their private temp-file phase, i.e. as two commits) — EVERY interleaving of
   the two operations' steps ends with results and a tree equal to those of one of the two serial orders
   ([forallb serial_ok] over the explorer's complete output, evaluated by the kernel's VM, lifted by
   [explore_complete]).  Partial: unbounded serialisability is proved for keyed one-shot writers, tombstone
   removers and readers by key (above); for streamed writers, removals by address, listers and existence tests it is
   bounded (the pairs below); triples and the real kernel's atomicity are exercised by the forced-schedule suite on the
   real binaries. *)
From CC Require Import Bytes Codec Utf8 Lines Json Sri Record Fs Prog Api Sess Crash Conc BytesP CodecP FsP ProgP SriP RecordP IndexP ReadP WriteP CommitP RemoveP CrashP CrashIdxP FormatP ConfineP RecCodecP KeepP HistP MetaP ConcP ConcIdxP ConcWriteP ConcReadP ConcSerP.
From Coq Require Import Permutation.
Local Open Scope N_scope.

Section C07.
Variable hash : algo -> bytes -> bytes.

Theorem C07_explore_complete {A} fuel (pl : pool A) f L :
  explore fuel pl f = Some L ->
  forall pl' f' rs, preach (pl, f) (pl', f') -> results pl' = Some rs -> In (rs, f') L.
Proof. exact (explore_complete fuel pl f L). Qed.

Theorem C07_interleave_invariant {A} (P : fs -> Prop) (S' : sys -> Prop) :
  (forall c f, P f -> S' c -> P (snd (exec c f))) ->
  forall (s s' : pool A * fs), preach s s' -> Forall (all_steps S') (fst s) -> P (snd s) -> Forall (all_steps S') (fst s') /\ P (snd s').
Proof. exact (interleave_invariant P S'). Qed.

Theorem C07_conc_content_inv {A} (s s' : pool A * fs) :
  preach s s' -> Forall (all_steps csafe') (fst s) -> ContentInv hash (snd s) -> ContentInv hash (snd s').
Proof. exact (conc_content_inv hash s s'). Qed.

Theorem C07_appends_never_splice l d recs f :
  lookup f l = Some (File d) ->
  lookup (fold_left (fun g r => snd (exec (Append l r) g)) recs f) l = Some (File (d ++ List.concat recs)).
Proof. exact (appends_never_splice l d recs f). Qed.

Theorem C07_conc_index_serializable hs f0 pl' f' rs :
  IndexInv f0 -> Forall (wf_hop hash) hs ->
  preach (map (hop_prog hash) hs, f0) (pl', f') -> results pl' = Some rs ->
  exists perm,
    Permutation perm hs /\
    rs = repeat (Ok tt) (List.length hs) /\
    IndexInv f' /\
    (forall b, bshape b -> bucket_at f' b = bucket_at (fold_left (exec_hop hash) perm f0) b) /\
    (forall k, abs_idx hash f' k = fold_left spec_step perm (abs_idx hash f0) k).
Proof. exact (conc_index_serializable hash hs f0 pl' f' rs). Qed.

Theorem C07_conc_writes_serializable (HL : HashLen hash) ws f0 pl' f' rs :
  CacheInv f0 -> coll_free hash ws -> Forall (fun x => wf_rec hash (hop_rec (x_hop hash x))) ws ->
  preach (map (wprog hash) ws, f0) (pl', f') -> results pl' = Some rs ->
  rs = map (fun x => Ok (x_res hash x)) ws /\
  (forall x, In x ws -> ws_rm x = false -> lookup f' (InCache (x_cp hash x)) = Some (File (ws_data x))) /\
  CacheInv f' /\
  exists perm, Permutation perm ws /\
    (forall b, bshape b -> bucket_at f' b = bucket_at (fold_left (exec_hop hash) (map (x_hop hash) perm) f0) b) /\
    (forall k, abs_idx hash f' k = fold_left spec_step (map (x_hop hash) perm) (abs_idx hash f0) k).
Proof. exact (conc_writes_serializable hash HL ws f0 pl' f' rs). Qed.

(* readers: a lookup is a single step; in any reachable state of a pool of index writers it answers the serial state of the
   operations appended so far, and later observations see longer prefixes of the same order (linearisability of lookups;
   no reader observes a partial index record) *)
Theorem C07_observations_monotone hs f0 s1 s2 :
  IndexInv f0 -> Forall (wf_hop hash) hs ->
  preach (map (hop_prog hash) hs, f0) s1 -> preach s1 s2 ->
  exists done ext,
    (forall k, run (find hash k) (snd s1) = (Ok (fold_left spec_step (hops_of hs done) (abs_idx hash f0) k), snd s1)) /\
    (forall k, run (find hash k) (snd s2) = (Ok (fold_left spec_step (hops_of hs (done ++ ext)) (abs_idx hash f0) k), snd s2)).
Proof. exact (observations_monotone hash hs f0 s1 s2). Qed.

(* readers among writers: each reader answers as the same read run atomically at a reachable state of the writers *)
Theorem C07_readers_among_writers (HL : HashLen hash) ws f0 ks pl' rl' f' :
  CacheInv f0 -> Backed hash f0 -> coll_free hash ws -> coll0 hash ws f0 ->
  Forall (fun x => wf_rec hash (hop_rec (x_hop hash x))) ws ->
  oreach (map (wprog hash) ws, map (read hash) ks, f0) (pl', rl', f') ->
  preach (map (wprog hash) ws, f0) (pl', f') /\
  forall j a, (j < List.length ks)%nat -> nth j rl' (Ret Stuck) = Ret a ->
    exists s1, preach (map (wprog hash) ws, f0) s1 /\ preach s1 (pl', f') /\
               a = fst (run (read hash (nth j ks [])) (snd s1)).
Proof. intros H1 H2 H3 H4 H5. exact (readers_among_writers hash HL ws f0 H1 H2 H3 H4 H5 ks pl' rl' f'). Qed.

Theorem C07_atomic_read_value (HL : HashLen hash) ws f0 k s :
  CacheInv f0 -> Backed hash f0 -> coll_free hash ws -> coll0 hash ws f0 ->
  Forall (fun x => wf_rec hash (hop_rec (x_hop hash x))) ws ->
  preach (map (wprog hash) ws, f0) s ->
  fst (run (read hash k) (snd s)) = Err ENotFound /\ abs_idx hash (snd s) k = None \/
  exists m d, abs_idx hash (snd s) k = Some m /\ fst (run (read hash k) (snd s)) = Ok d /\ check_res hash (m_sri m) d = Ok tt /\
    (abs_idx hash f0 k = Some m \/
     exists x, In x ws /\ ws_rm x = false /\ bytes_eqb k (ws_key x) = true /\ m_sri m = x_sri hash x /\ d = ws_data x).
Proof. intros H1 H2 H3 H4 H5. exact (atomic_read_value hash HL ws f0 H1 H2 H3 H4 H5 k s). Qed.

Theorem C07_backed_reachable (HL : HashLen hash) ws f0 s :
  CacheInv f0 -> Backed hash f0 -> coll_free hash ws -> coll0 hash ws f0 ->
  Forall (fun x => wf_rec hash (hop_rec (x_hop hash x))) ws ->
  preach (map (wprog hash) ws, f0) s -> CacheInv (snd s) /\ Backed hash (snd s).
Proof. intros H1 H2 H3 H4 H5. exact (reach_cache_ok hash HL ws f0 H1 H2 H3 H4 H5 s). Qed.

(* writers, removers and readers: one sequential order explains every result and the final state *)
Theorem C07_serializable_with_readers (HL : HashLen hash) ws f0 m0 W0 ks pl' rl' f' rs :
  HInv hash f0 m0 W0 -> coll0 hash ws f0 ->
  forallb (kv_ok hash) (map kv_of ws) = true -> NoColl hash (W0 ++ written (map kv_of ws)) ->
  oreach (map (wprog hash) ws, map (read hash) ks, f0) (pl', rl', f') -> results pl' = Some rs ->
  exists perm,
    Permutation perm ws /\
    rs = map (fun x => Ok (x_res hash x)) ws /\
    (forall k, fst (run (read hash k) f') = fst (run (read hash k) (serial hash f0 perm))) /\
    (forall j a, (j < List.length ks)%nat -> nth j rl' (Ret Stuck) = Ret a ->
       exists n, (n <= List.length perm)%nat /\ a = fst (run (read hash (nth j ks [])) (serial hash f0 (firstn n perm)))).
Proof. intros H1 H2 H3 H4. exact (serializable_with_readers hash HL ws f0 m0 W0 H1 H2 H3 H4 ks pl' rl' f' rs). Qed.

(* the same with observers of four kinds in one pool: read by key (two steps), metadata / index lookup, read by the
   address of some data, existence test (one step each).  For the two content observers the initial content area must hold
   no symbolic link (true of every cache ordinary writes produce; link_to entries are excluded) *)
Theorem C07_serializable_mixed (HL : HashLen hash) ws f0 m0 W0 ops pl' rl' f' rs :
  HInv hash f0 m0 W0 -> coll0 hash ws f0 ->
  forallb (kv_ok hash) (map kv_of ws) = true -> NoColl hash (W0 ++ written (map kv_of ws)) ->
  oreach (map (wprog hash) ws, map (rprog hash) ops, f0) (pl', rl', f') -> results pl' = Some rs ->
  exists perm,
    Permutation perm ws /\
    rs = map (fun x => Ok (x_res hash x)) ws /\
    (forall op, (content_op op -> NoSymC f0) -> ranswer hash op f' = ranswer hash op (serial hash f0 perm)) /\
    (forall j a, (j < List.length ops)%nat -> (content_op (nth j ops (RMeta [])) -> NoSymC f0) ->
       nth j rl' (Ret (OMeta Stuck)) = Ret a ->
       exists n, (n <= List.length perm)%nat /\ a = ranswer hash (nth j ops (RMeta [])) (serial hash f0 (firstn n perm))).
Proof. intros H1 H2 H3 H4. exact (serializable_mixed hash HL ws f0 m0 W0 H1 H2 H3 H4 ops pl' rl' f' rs). Qed.

(* the observer programs are the library's programs (their results tagged), the atomic answers their runs *)
Theorem C07_rprog_is_library op :
  rprog hash op = match op with
                  | RRead k => bind (read hash k) (fun r => Ret (OBytes r))
                  | RMeta k => bind (find hash k) (fun r => Ret (OMeta r))
                  | RHash a d => bind (read_hash hash (sri_of hash a d)) (fun r => Ret (OBytes r))
                  | RExists a d => bind (exists_hash (sri_of hash a d)) (fun r => Ret (OBool r))
                  end /\
  forall f, ranswer hash op f = match op with
                                | RRead k => OBytes (fst (run (read hash k) f))
                                | RMeta k => OMeta (fst (run (find hash k) f))
                                | RHash a d => OBytes (fst (run (read_hash hash (sri_of hash a d)) f))
                                | RExists a d => OBool (fst (run (exists_hash (sri_of hash a d)) f))
                                end.
Proof. split; [destruct op; reflexivity|intros f; destruct op; reflexivity]. Qed.

(* the empty cache has no symbolic link; neither has any state the writers reach from a cache without one *)
Theorem C07_nosym_empty : NoSymC [].
Proof. intros p t H. discriminate. Qed.

(* [serial] is the sequential execution of the library's programs: a writer's [write], a remover's [delete] *)
Theorem C07_serial_is_sequential f0 x xs :
  serial hash f0 (x :: xs) =
  serial hash (if ws_rm x then snd (run (delete hash (ws_key x) (ws_now x)) f0)
               else snd (run (write hash Sync (ws_a x) (ws_key x) (ws_data x) (ws_now x)) f0)) xs.
Proof. unfold serial, kv_of. cbn [map fold_left]. destruct (ws_rm x); reflexivity. Qed.

(* the hypothesis on the initial cache holds for the empty cache and after every sequential history *)
Theorem C07_initial_cache_ok (HL : HashLen hash) h :
  forallb (kv_ok hash) h = true -> NoColl hash (written h) ->
  HInv hash (fold_left (kv_run hash) h []) (fold_left kv_step h (fun _ => None)) (written h).
Proof. intros H1 H2. exact (history_refines hash HL h [] _ [] (hinv_empty hash) H1 H2). Qed.

Theorem C07_backed_empty : Backed hash [].
Proof. exact (backed_empty hash). Qed.

(* the reader programs of that theorem are the library's read programs and never change the tree *)
Theorem C07_read_is_readonly key : all_steps readonly (read hash key).
Proof. exact (read_ro hash key). Qed.

(* the thread programs of that theorem are the library's write_sync programs (async write runs identically: C12) *)
Theorem C07_wprog_is_write x :
  wprog hash x = if ws_rm x then insert hash (ws_key x) wopts0 (ws_now x)
                 else write hash Sync (ws_a x) (ws_key x) (ws_data x) (ws_now x).
Proof. reflexivity. Qed.

(* the thread programs of the index theorem are the library's index programs *)
Theorem C07_hop_prog_is_insert key o now :
  insert hash key o now = seq_prog (hop_steps hash (HIns key o now)) (match o_sri o with Some i => i | None => deadbeef end) /\
  hop_prog hash (HIns key o now) = seq_prog (hop_steps hash (HIns key o now)) tt.
Proof. split; reflexivity. Qed.

End C07.

(* ---------- bounded serialisability: concrete pairs, all interleavings ---------- *)
Definition toy_hash (a : algo) (d : bytes) : bytes :=
  [n2b (N.modulo (lenN d) 251); n2b (N.modulo (fold_left (fun acc b => acc * 31 + b2n b)%N d 7%N) 256); x01].

Definition pv {A} (p : prog (res A)) (g : A -> val) : prog outcome := bind p (fun r => Ret (Res (rmap g r))).

Definition show1 (o : outcome) : list bytes := let '(a, b) := show_outcome o in a :: b.
Definition same_lines (a b : list bytes) : bool :=
  Nat.eqb (List.length a) (List.length b) && forallb (fun x => existsb (bytes_eqb x) b) a && forallb (fun x => existsb (bytes_eqb x) a) b.

(* results and final tree of running the two programs one after the other *)
Definition serial2 (pA pB : prog outcome) (f : fs) : list outcome * fs :=
  let '(ra, fa) := run pA f in let '(rb, fb) := run pB fa in ([ra; rb], fb).
(* the two serial references are computed once per pair *)
Definition refs (pA pB : prog outcome) (f0 : fs) : (list (list bytes) * list bytes) * (list (list bytes) * list bytes) :=
  let '(r1, f1) := serial2 pA pB f0 in
  let '(r2, f2) := serial2 pB pA f0 in
  ((map show1 r1, dump toy_hash f1), (map show1 (rev r2), dump toy_hash f2)).
Definition serial_ok_ref (R : (list (list bytes) * list bytes) * (list (list bytes) * list bytes)) (x : list outcome * fs) : bool :=
  let '(rs, f') := x in
  let '((o1, d1), (o2, d2)) := R in
  let os := map show1 rs in let d := dump toy_hash f' in
  (list_eqb (list_eqb bytes_eqb) os o1 && same_lines d d1) || (list_eqb (list_eqb bytes_eqb) os o2 && same_lines d d2).
Definition serial_ok (pA pB : prog outcome) (f0 : fs) (x : list outcome * fs) : bool := serial_ok_ref (refs pA pB f0) x.

Definition all_serial (pA pB : prog outcome) (f0 : fs) : bool :=
  match explore 40 [pA; pB] f0 with
  | Some L => let R := refs pA pB f0 in forallb (serial_ok_ref R) L
  | None => false
  end.

Lemma all_serial_sound pA pB f0 :
  all_serial pA pB f0 = true ->
  forall pl' f' rs, preach ([pA; pB], f0) (pl', f') -> results pl' = Some rs -> serial_ok pA pB f0 (rs, f') = true.
Proof.
  unfold all_serial. destruct (explore 40 [pA; pB] f0) as [L|] eqn:E; [|discriminate]. intros H pl' f' rs Hr Hres.
  cbv zeta in H. rewrite forallb_forall in H. apply H. exact (explore_complete 40 [pA; pB] f0 L E pl' f' rs Hr Hres).
Qed.

Definition K := bs "k". Definition K2 := bs "k2".
Definition DA := bs "content A". Definition DB := bs "content B!".
Definition wr (key data : bytes) (now : N) : prog outcome := pv (write toy_hash Sync Sha256 key data now) VSri.
Definition warm : fs := snd (run (wr K DA 1) []).
Definition sA : integrity := sri_of toy_hash Sha256 DA.

(* a writer that has opened its temp file and written its data (the private phase), ready to commit *)
Definition prep (key data : bytes) (f : fs) : option (wstate * fs) :=
  match run (open_writer Sync (Some key) (mkWopts (Some Sha256) None None None None None)) f with
  | (Ok w, f1) => match run (write_chunk w data) f1 with (Ok w', f2) => Some (w', f2) | _ => None end
  | _ => None
  end.
Definition two_committers (k1 d1 k2 d2 : bytes) : option (prog outcome * prog outcome * fs) :=
  match prep k1 d1 [] with
  | Some (w1, f1) => match prep k2 d2 f1 with
                     | Some (w2, f2) => Some (pv (commit toy_hash w1 2) VSri, pv (commit toy_hash w2 3) VSri, f2)
                     | None => None end
  | None => None
  end.
Definition opt_pair (o : option (prog outcome * prog outcome * fs)) : list (prog outcome * prog outcome * fs) :=
  match o with Some t => [t] | None => [] end.

Definition pairs : list (prog outcome * prog outcome * fs) :=
  opt_pair (two_committers K DA K DB) ++                                  (* two commits of one key (temp files written) *)
  opt_pair (two_committers K DA K2 DA) ++                                 (* same content, two keys *)
  [ (wr K DB 2, pv (delete toy_hash K 3) (fun _ => VUnit), warm);        (* whole write vs remove *)
    (wr K2 DA 2, pv (remove_hash sA) (fun _ => VUnit), warm);            (* write vs remove_hash of the same address *)
    (wr K DB 2, pv (read toy_hash K) VBytes, warm);                      (* write vs read *)
    (wr K DB 2, pv (find toy_hash K) VMeta, warm);                       (* write vs metadata *)
    (wr K2 DB 2, pv (ls toy_hash) VList, warm);                          (* write vs list *)
    (pv (write_hash toy_hash Sync Sha256 DA) VSri, pv (exists_hash sA) VBool, []);
    (pv (delete toy_hash K 2) (fun _ => VUnit), pv (read_hash toy_hash sA) VBytes, warm) ].

Example C07_pairs_count : List.length pairs = 9%nat.
Proof. vm_compute. reflexivity. Qed.

Theorem C07_pairs_serializable :
  forallb (fun t => let '(pA, pB, f0) := t in all_serial pA pB f0) pairs = true.
Proof. vm_compute. reflexivity. Qed.

(* unfolded: every interleaving of every listed pair ends like one of the two serial orders *)
(* KNOWN FINDING (KNOWN_FINDINGS.txt), reproduced in the model: a listing that runs during the FIRST write into a fresh
   cache is not serialisable.  Between the creation of index-v5/ and of the first bucket file the listing is empty; run
   before the write it is one error item (no index directory: the repository's own test pins that), after it the entry. *)
Definition first_write : prog outcome := wr K DB 2.
Definition listing : prog outcome := pv (ls toy_hash) VList.
Theorem C07_list_during_first_write_refuted :
  all_serial first_write listing [] = false /\
  (exists L, explore 40 [first_write; listing] [] = Some L /\
             existsb (fun x => match fst x with [Res (Ok (VSri _)); Res (Ok (VList []))] => true | _ => false end) L = true) /\
  fst (run listing []) = Res (Ok (VList [LErr EIoErr])) /\
  match fst (run listing (snd (run first_write []))) with Res (Ok (VList [LMeta _])) => True | _ => False end.
Proof. vm_compute. split; [reflexivity|]. split; [eexists; split; reflexivity|]. split; [reflexivity|exact I]. Qed.

Theorem C07_pairs_all_interleavings pA pB f0 :
  In (pA, pB, f0) pairs ->
  forall pl' f' rs, preach ([pA; pB], f0) (pl', f') -> results pl' = Some rs -> serial_ok pA pB f0 (rs, f') = true.
Proof.
  intros Hin. apply all_serial_sound. pose proof C07_pairs_serializable as H. rewrite forallb_forall in H. exact (H _ Hin).
Qed.

(* non-vacuity: for the two committers of one key the explorer's output has 252 interleavings and both serial outcomes *)
Example C07_example :
  match pairs with
  | (pA, pB, f0) :: _ =>
      match explore 40 [pA; pB] f0 with
      | Some L => (N.of_nat (List.length L) =? 252) &&
                  existsb (fun x => same_lines (dump toy_hash (snd x)) (dump toy_hash (snd (serial2 pA pB f0)))) L &&
                  existsb (fun x => same_lines (dump toy_hash (snd x)) (dump toy_hash (snd (serial2 pB pA f0)))) L &&
                  negb (same_lines (dump toy_hash (snd (serial2 pA pB f0))) (dump toy_hash (snd (serial2 pB pA f0))))
      | None => false end
  | [] => false end = true.
Proof. vm_compute. reflexivity. Qed.

(* non-vacuity of the readers-among-writers theorems: two writers of one key with different contents, a writer of another
   key with the same content as the first, and a remover, on the empty cache, meet every hypothesis *)
Definition ex_ws : list wspec :=
  [mkWs false Sha256 K DA 1; mkWs false Sha1 K DB 2; mkWs false Sha256 K2 DA 3; mkWs true Sha256 K [] 4].
Example C07_readers_hypotheses :
  HashLen toy_hash /\ CacheInv [] /\ Backed toy_hash [] /\ coll_free toy_hash ex_ws /\ coll0 toy_hash ex_ws [] /\
  Forall (fun x => wf_rec toy_hash (hop_rec (x_hop toy_hash x))) ex_ws.
Proof.
  split; [intros a d; vm_compute; discriminate|].
  split; [split; [intros p n H; discriminate|split; [intros p n H; discriminate|left; reflexivity]]|].
  split; [exact (C07_backed_empty toy_hash)|].
  split.
  { intros x y Hx Hy. cbn [ex_ws In] in Hx, Hy.
    destruct Hx as [<-|[<-|[<-|[<-|[]]]]]; destruct Hy as [<-|[<-|[<-|[<-|[]]]]]; intros Hwx Hwy E; try reflexivity; try discriminate;
      vm_compute in E; discriminate. }
  split; [intros x d _ _ H; discriminate|].
  repeat (apply Forall_cons; [apply wf_rec_api; vm_compute; reflexivity|]). apply Forall_nil.
Qed.

Example C07_serializable_hypotheses :
  HInv toy_hash [] (fun _ => None) [] /\ coll0 toy_hash ex_ws [] /\
  forallb (kv_ok toy_hash) (map kv_of ex_ws) = true /\ NoColl toy_hash ([] ++ written (map kv_of ex_ws)).
Proof.
  split; [exact (hinv_empty toy_hash)|]. split; [intros x d _ _ H; discriminate|]. split; [vm_compute; reflexivity|].
  intros a d a' d' H1 H2 E. cbn in H1, H2.
  destruct H1 as [H1|[H1|[H1|[]]]]; destruct H2 as [H2|[H2|[H2|[]]]]; inversion H1; inversion H2; subst; try reflexivity;
    vm_compute in E; discriminate.
Qed.

Print Assumptions C07_explore_complete.
Print Assumptions C07_interleave_invariant.
Print Assumptions C07_conc_content_inv.
Print Assumptions C07_appends_never_splice.
Print Assumptions C07_conc_index_serializable.
Print Assumptions C07_conc_writes_serializable.
Print Assumptions C07_observations_monotone.
Print Assumptions C07_readers_among_writers.
Print Assumptions C07_serializable_with_readers.
Print Assumptions C07_serializable_mixed.
Print Assumptions C07_initial_cache_ok.
Print Assumptions C07_atomic_read_value.
Print Assumptions C07_backed_reachable.
Print Assumptions C07_hop_prog_is_insert.
Print Assumptions C07_pairs_serializable.
Print Assumptions C07_pairs_all_interleavings.
Print Assumptions C07_list_during_first_write_refuted.
