(* C08 — commit enforces declared integrity and size; a rejected commit maps nothing.
   For every open writer state satisfying the writer invariant (i.e. reached by any chunk list, any options),
   every tree with the cache shape invariant.  The three cases below are exhaustive. *)
From CC Require Import Bytes Codec Utf8 Lines Json Sri Record Fs Prog Api BytesP CodecP FsP ProgP SriP RecordP IndexP ReadP WriteP CommitP.

Section C08.
Variable hash : algo -> bytes -> bytes.
Hypothesis HL : HashLen hash.

(* rejected: integrity error if the declared integrity is not satisfied, else size mismatch if the declared
   size differs; in both cases every index location (hence every key's mapping) is untouched and no temp
   file remains *)
Theorem C08_rejected f w now :
  WInv f w -> CacheInv f ->
  (declared_ok (w_opts w) (sri_of hash (w_algo w) (w_data w)) = None \/
   exists s, o_size (w_opts w) = Some s /\ s <> lenN (w_data w)) ->
  (fst (run (commit hash w now) f) = Err EIntegrity \/
   exists s, fst (run (commit hash w now) f) = Err (ESizeMismatch s (lenN (w_data w)))) /\
  (forall l, is_index l -> lookup (snd (run (commit hash w now) f)) l = lookup f l) /\
  (forall k, abs_idx hash (snd (run (commit hash w now) f)) k = abs_idx hash f k) /\
  lookup (snd (run (commit hash w now) f)) (w_tmp w) = None /\
  CacheInv (snd (run (commit hash w now) f)).
Proof. exact (commit_rejected_frame hash HL f w now). Qed.

(* which error: the integrity check comes first *)
Theorem C08_integrity_first f w now :
  WInv f w -> CacheInv f ->
  declared_ok (w_opts w) (sri_of hash (w_algo w) (w_data w)) = None ->
  fst (run (commit hash w now) f) = Err EIntegrity.
Proof. intros Hw Hi Hd. rewrite (commit_rejected_integrity hash HL f w now Hw Hi Hd). reflexivity. Qed.

Theorem C08_size_mismatch f w now final s :
  WInv f w -> CacheInv f ->
  declared_ok (w_opts w) (sri_of hash (w_algo w) (w_data w)) = Some final ->
  o_size (w_opts w) = Some s -> s <> lenN (w_data w) ->
  fst (run (commit hash w now) f) = Err (ESizeMismatch s (lenN (w_data w))).
Proof. intros Hw Hi Hd Hs Hne. rewrite (commit_rejected_size hash HL f w now Hw Hi final s Hd Hs Hne). reflexivity. Qed.

(* accepted, keyed: success, and the key now maps to the complete new entry; other keys unchanged *)
Theorem C08_accepted_keyed f w now key final :
  WInv f w -> CacheInv f -> w_key w = Some key ->
  declared_ok (w_opts w) (sri_of hash (w_algo w) (w_data w)) = Some final ->
  size_ok (w_opts w) (lenN (w_data w)) = true ->
  wf_rec hash (smeta_of key (commit_opts (w_opts w) final (lenN (w_data w))) now) ->
  parse_entry_sri (sri_text final) = Some final ->
  fst (run (commit hash w now) f) = Ok final /\
  CacheInv (snd (run (commit hash w now) f)) /\
  (forall k, abs_idx hash (snd (run (commit hash w now) f)) k
             = if bytes_eqb k key then new_entry key (commit_opts (w_opts w) final (lenN (w_data w))) now
               else abs_idx hash f k) /\
  lookup (snd (run (commit hash w now) f)) (InCache (cpath hash (w_algo w) (w_data w))) = Some (File (w_data w)) /\
  lookup (snd (run (commit hash w now) f)) (w_tmp w) = None /\
  (forall l, ~ is_index l -> ~ is_content l -> l <> w_tmp w ->
             lookup (snd (run (commit hash w now) f)) l = lookup f l).
Proof. exact (commit_keyed_accepted hash HL f w now key final). Qed.

(* accepted, by address *)
Theorem C08_accepted_by_hash f w now final :
  WInv f w -> CacheInv f -> w_key w = None ->
  declared_ok (w_opts w) (sri_of hash (w_algo w) (w_data w)) = Some final ->
  size_ok (w_opts w) (lenN (w_data w)) = true ->
  fst (run (commit hash w now) f) = Ok (sri_of hash (w_algo w) (w_data w)).
Proof. intros Hw Hi Hk Hd Hs. rewrite (commit_by_hash_ok hash HL f w now Hw Hi final Hd Hs Hk). reflexivity. Qed.

(* "satisfies the declared integrity" = the declaration contains the digest under the writer's algorithm *)
Theorem C08_correct_declaration_accepted a d : declared_ok (mkWopts (Some a) (Some (sri_of hash a d)) None None None None) (sri_of hash a d) = Some (sri_of hash a d).
Proof. unfold declared_ok. cbn [o_sri]. rewrite (sri_matches_self hash a d). reflexivity. Qed.

End C08.

Definition toy_hash (a : algo) (d : bytes) : bytes :=
  [n2b (N.modulo (lenN d) 251); n2b (N.modulo (fold_left (fun acc b => acc * 31 + b2n b)%N d 7%N) 256); x01].
Example C08_example :
  let o := mkWopts (Some Sha256) None (Some 5%N) None None None in
  fst (run (stream_write toy_hash Sync (Some (bs "k")) o [bs "ab"; bs "c"] 9%N) []) = Err (ESizeMismatch 5 3) /\
  fst (run (stream_write toy_hash Sync (Some (bs "k")) o [bs "abcdef"; bs "g"] 9%N) []) = Err (ESizeMismatch 5 7) /\
  fst (run (stream_write toy_hash Async None
         (mkWopts None (Some (sri_of toy_hash Sha256 (bs "zz"))) None None None None) [bs "ab"] 9%N) []) = Err EIntegrity.
Proof. vm_compute. repeat split; reflexivity. Qed.

Print Assumptions C08_rejected.
Print Assumptions C08_integrity_first.
Print Assumptions C08_size_mismatch.
Print Assumptions C08_accepted_keyed.
Print Assumptions C08_accepted_by_hash.
Print Assumptions C08_correct_declaration_accepted.
