(* C15 — effects stay inside the cache directory; keys are opaque; reads do not mutate.
   [may_touch c l] (theories/Crash.v) = location l can be created, changed or deleted by step c or one of its
   intermediate states ([exec_frame] in CrashIdxP proves that every other location is untouched).  Theorems, for
   EVERY answer the filesystem could give to every step (so: on any tree, under any fault):
   * every step of every mutating entry point touches only locations inside the cache, or the one destination given
     to an extraction;
   * read-only entry points (find/metadata, read, read_hash, readers, exists, list) have no touching step at all and
     return the tree exactly as it was, also at every crash state;
   * keys reach paths only through their hash; every path component below index-v5 / content-v2/<algo> is a string
     over [0-9a-f] (never ".", "..", never containing "/" or NUL), whatever the key.
   Key independence (distinct byte strings — case and normalisation twins included — are distinct entries) is C05.
   Tie to the code: strace of every path-taking / descriptor-writing syscall of the real binaries (DESIGN 7/C15). *)
From CC Require Import Bytes Codec Utf8 Lines Json Sri Record Fs Prog Api Crash BytesP CodecP FsP ProgP SriP RecordP IndexP ReadP WriteP CommitP RemoveP CrashP CrashIdxP ConfineP.

Section C15.
Variable hash : algo -> bytes -> bytes.

Theorem C15_exec_frame c f l :
  ~ may_touch c l ->
  lookup (snd (exec c f)) l = lookup f l /\ Forall (fun g => lookup g l = lookup f l) (mid_states c f).
Proof. exact (exec_frame c f l). Qed.

Theorem C15_writes_confined dst fl key okey o data now w f :
  wtmp_in w ->
  steps_ok (fun c _ => confined dst c) (oneshot hash fl okey o data now) f /\
  all_steps (confined dst) (open_writer fl okey o) /\ all_steps (confined dst) (write_chunk w data) /\
  all_steps (confined dst) (commit hash w now) /\ all_steps (confined dst) (insert hash key o now).
Proof.
  intros Hw. split; [apply oneshot_confined|]. split; [apply open_writer_confined|]. split; [apply write_chunk_confined; exact Hw|].
  split; [apply commit_confined; exact Hw|apply insert_confined].
Qed.

Theorem C15_removals_confined dst key i :
  all_steps (confined dst) (remove_hash i) /\ all_steps (confined dst) (remove_fully hash key) /\
  all_steps (confined dst) (delete hash key 0%N) /\ all_steps (confined dst) clear.
Proof.
  split; [apply remove_hash_confined|]. split; [apply remove_fully_confined|]. split; [|apply clear_confined].
  unfold delete. apply all_steps_rbind; [apply insert_confined|intros; exact I].
Qed.

Theorem C15_extraction_confined x checked key i dst :
  all_steps (confined (Some dst)) (extract hash x checked key dst) /\
  all_steps (confined (Some dst)) (extract_hash hash x checked i dst).
Proof. split; [apply extract_confined|apply extract_hash_confined]. Qed.

Theorem C15_readonly key i :
  all_steps readonly (find hash key) /\ all_steps readonly (read hash key) /\ all_steps readonly (read_hash hash i) /\
  all_steps readonly (ropen hash key) /\ all_steps readonly (ropen_hash i) /\ all_steps readonly (exists_hash i) /\
  all_steps readonly (ls hash).
Proof.
  split; [apply find_ro|]. split; [apply read_ro|]. split; [apply read_hash_ro|]. split; [apply ropen_ro|].
  split; [apply ropen_hash_ro|]. split; [apply exists_hash_ro|apply ls_ro].
Qed.

Theorem C15_readonly_no_mutation {A} (p : prog A) f :
  all_steps readonly p -> snd (run p f) = f /\ Forall (fun g => g = f) (crash_states p f).
Proof. exact (readonly_no_mutation p f). Qed.

Theorem C15_key_only_via_hash k1 k2 : hash Sha1 k1 = hash Sha1 k2 -> bucket_path hash k1 = bucket_path hash k2.
Proof. exact (key_only_via_hash hash k1 k2). Qed.

Theorem C15_components key i p :
  (exists a b c, bucket_path hash key = [index_dir; a; b; c] /\
     forallb hexchar a = true /\ forallb hexchar b = true /\ forallb hexchar c = true) /\
  (content_path i = Some p -> exists al a b c, p = [content_dir; algo_name al; a; b; c] /\
     forallb hexchar a = true /\ forallb hexchar b = true /\ forallb hexchar c = true).
Proof. split; [apply bucket_components_hex|apply content_components_hex]. Qed.

End C15.

Definition toy_hash (a : algo) (d : bytes) : bytes :=
  [n2b (N.modulo (lenN d) 251); n2b (N.modulo (fold_left (fun acc b => acc * 31 + b2n b)%N d 7%N) 256); x01].
(* non-vacuity: a path-like key lands in a hex-named bucket; hexchar rejects '/', '.', NUL *)
Example C15_example :
  bucket_path toy_hash (bs "../../etc/passwd") = [bs "index-v5"; bs "10"; bs "20"; bs "01"] /\
  map hexchar [x2f; x2e; x00; x41] = [false; false; false; false].
Proof. vm_compute. split; reflexivity. Qed.

Print Assumptions C15_exec_frame.
Print Assumptions C15_writes_confined.
Print Assumptions C15_removals_confined.
Print Assumptions C15_extraction_confined.
Print Assumptions C15_readonly.
Print Assumptions C15_readonly_no_mutation.
Print Assumptions C15_key_only_via_hash.
Print Assumptions C15_components.
