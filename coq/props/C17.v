(* C17 — the on-disk layout is the fixed, versioned cacache format, readable by others.
   Paths and record framing are pinned as equalities to the literal format; every bucket produced by any history
   of inserts/removals is its initial bytes followed by whole records (nl . hex64 . tab . json) in order; a naive
   reader defined from the format sentence alone (64 hex characters, a tab, the JSON text; scan from the end for
   the key) returns the same records and the same lookups as the library's reader on every bucket in that
   language, whoever wrote it — which is both directions of the interoperability claim.  [hash] is arbitrary
   (with SHA-256 digests of 32 bytes for the fixed-width naive reader).  Outside the language (crafted lines with
   tabs inside the JSON, CR before the newline) the two readers may differ; the property does not speak of those. *)
From CC Require Import Bytes Codec Utf8 Lines Json Sri Record Fs Prog Api BytesP CodecP LinesP LsP FsP ProgP SriP RecordP IndexP ReadP WriteP FormatP.
Local Open Scope N_scope.

Section C17.
Variable hash : algo -> bytes -> bytes.

Theorem C17_bucket_path_format key :
  let h := hex_encode (hash Sha1 key) in
  bucket_path hash key = [bs "index-v5"; takeN 2 h; takeN 2 (dropN 2 h); dropN 4 h].
Proof. exact (bucket_path_format hash key). Qed.

Theorem C17_content_path_format a data :
  HashLen hash ->
  let h := hex_encode (hash a data) in
  content_path (sri_of hash a data) = Some [bs "content-v2"; algo_name a; takeN 2 h; takeN 2 (dropN 2 h); dropN 4 h].
Proof. exact (content_path_format hash a data). Qed.

Theorem C17_algo_names :
  map algo_name [Sha1; Sha256; Sha384; Sha512; Xxh3] = [bs "sha1"; bs "sha256"; bs "sha384"; bs "sha512"; bs "xxh3"].
Proof. exact algo_names. Qed.

Theorem C17_record_format m :
  record_bytes hash m = nl :: hex_encode (hash Sha256 (encode_smeta m)) ++ tab :: encode_smeta m /\
  encode_smeta m =
  ser (JObj [ (bs "key", JStr (sm_key m));
              (bs "integrity", match sm_integrity m with Some s => JStr s | None => JNull end);
              (bs "time", JInt (Z.of_N (sm_time m)));
              (bs "size", JInt (Z.of_N (sm_size m)));
              (bs "metadata", sm_metadata m);
              (bs "raw_metadata", jraw (sm_raw m)) ]).
Proof. exact (conj (record_format hash m) (record_json_fields m)). Qed.

Theorem C17_bucket_language h f0 b :
  IndexInv f0 -> Forall (wf_hop hash) h -> (exists a c d, b = [index_dir; a; c; d]) ->
  bucket_at (fold_left (exec_hop hash) h f0) b = bucket_at f0 b ++ bucket_of hash (hist_records hash h b).
Proof. exact (bucket_language hash h f0 b). Qed.

Theorem C17_ref_reader_agrees (Sha256Len : forall d, lenN (hash Sha256 d) = 32) ms key :
  Forall (wf_rec hash) ms ->
  naive_entries hash (bucket_of hash ms) = entries hash (bucket_of hash ms) /\
  naive_find hash key (bucket_of hash ms) = find_bytes hash key (bucket_of hash ms).
Proof. exact (ref_reader_agrees hash Sha256Len ms key). Qed.

Theorem C17_reader_returns_records ms :
  Forall (wf_rec hash) ms -> entries hash (bucket_of hash ms) = ms /\ no_pending_cr (bucket_of hash ms).
Proof. exact (entries_bucket_of hash ms). Qed.

End C17.

(* non-vacuity: a two-record bucket (a write and a tombstone) under a toy hash with 32-byte SHA-256 digests *)
Definition toy_hash (a : algo) (d : bytes) : bytes :=
  match a with
  | Sha256 => n2b (N.modulo (lenN d) 251) :: n2b (N.modulo (fold_left (fun acc b => acc * 31 + b2n b)%N d 7%N) 256) :: repeat x2a 30
  | _ => [n2b (N.modulo (lenN d) 251); n2b (N.modulo (fold_left (fun acc b => acc * 31 + b2n b)%N d 7%N) 256); x01]
  end.
Definition ex_ms : list smeta :=
  [ mkSmeta (bs "k") (Some (bs "sha256-AAECAw==")) 7 4 (JObj [(bs "a", JArr [JInt 1; JNull])]) (Some [x00; xff]);
    mkSmeta (bs "k") None 8 0 JNull None ].
Example C17_example :
  naive_entries toy_hash (bucket_of toy_hash ex_ms) = ex_ms /\
  entries toy_hash (bucket_of toy_hash ex_ms) = ex_ms /\
  naive_find toy_hash (bs "k") (bucket_of toy_hash ex_ms) = None /\
  naive_find toy_hash (bs "k") (bucket_of toy_hash (firstn 1 ex_ms)) <> None.
Proof. vm_compute. repeat split; try reflexivity. discriminate. Qed.

Print Assumptions C17_bucket_path_format.
Print Assumptions C17_content_path_format.
Print Assumptions C17_algo_names.
Print Assumptions C17_record_format.
Print Assumptions C17_bucket_language.
Print Assumptions C17_ref_reader_agrees.
Print Assumptions C17_reader_returns_records.
