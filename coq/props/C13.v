(* C13 — a failing filesystem operation surfaces as an error and never corrupts the cache.
   Fault model (theories/Crash.v): [frun] = runs in which ANY number of steps fail (the property asks for one, pairs in
   the thorough tier: both are instances); a failing step answers an errno and leaves the tree as it was or in one of
   the step's intermediate states (short write, some directories of a mkdir -p created, part of a copy).
   [fpost Q p] = Q holds of the result whatever every step answers (any payload of its kind — any bytes — or any errno).
   Theorems:
   (1) every entry point returns Ok or Err under all answers (never Panic / Hang / Stuck), and a read that returns Ok
       returns bytes carrying the requested digest even if the file read delivered arbitrary bytes (truthful success);
   (2) in every faulty run of every entry point the content invariant is kept (every file under content-v2 matches its
       address: complete valid files only) — for commit because the publishing rename is only reached with the temp
       file holding exactly the hashed bytes;
   (3) a faulty index insert (hence keyed commit, removal) ends either with every lookup unchanged and the index area
       well-shaped, or in the state of the complete insert (error reported late, e.g. by a buffered writer's flush);
       it returns Ok only in the latter.  Other keys are never affected.  Retry: the post-state satisfies the
       invariants C02/C05 start from, so the same call then behaves as in the fault-free theorems.
   (4) truthful success of a write: a close / commit that answers Ok in ANY faulty run leaves a file at the content path
       of the hashed bytes — the writer's own bytes (the rename went through) or a file that was already there (the rename
       failed and exists() said yes: by (2) it carries the same digest) — and a keyed commit answers Ok only if the index
       insert answered Ok from that state, which by (3) is the state of the complete insert.
   (5) other entries are unaffected: in ANY faulty run of a keyed one-shot write, every other key's lookup and every
       other stored content file are exactly as before, the index area stays well-shaped, and the written key's lookup is
       its previous entry or the complete new one (FaultFrameP.v).
   (6) retry: after ANY faulty run of a keyed one-shot write the cache is still well-shaped ([Shape]: directories and files
       where they belong, temp entries regular files; kept by every step and every intermediate state), so the same call
       issued again without faults succeeds, its data reads back, and every other key is as before the first attempt
       (RetryP.v).
   Partial: kernel errno semantics and the mapping of library-internal syscalls to model steps (one model step may be
   several syscalls) are exercised by the strace fault sweep, compared by oracle, not step for step. *)
From CC Require Import Bytes Codec Utf8 Lines Json Sri Record Fs Prog Api Crash BytesP CodecP LinesP FsP ProgP SriP RecordP IndexP ReadP WriteP CommitP RemoveP TotalP CrashP CrashIdxP FaultP ConfineP KeepP Sess SessP JsonP RecCodecP MetaP HistP FaultFrameP RetryP.

Section C13.
Variable hash : algo -> bytes -> bytes.
Hypothesis HL : HashLen hash.

Theorem C13_all_answers_total fl a key okey o data now w i :
  wf_sri i ->
  fsafe (oneshot hash fl okey o data now) /\ fsafe (write hash fl a key data now) /\ fsafe (open_writer fl okey o) /\
  fsafe (write_chunk w data) /\ fsafe (commit hash w now) /\ fsafe (insert hash key o now) /\
  fsafe (read hash key) /\ fsafe (remove_hash i) /\ fsafe (remove_fully hash key) /\ fsafe (ls hash).
Proof.
  intros Hw. split; [apply oneshot_any; exact HL|]. split; [apply oneshot_any; exact HL|]. split; [apply open_writer_any|].
  split; [apply write_chunk_any|]. split; [apply commit_any; exact HL|]. split; [apply insert_any|].
  split; [apply read_any|]. split; [apply remove_hash_any; exact Hw|]. split; [apply remove_fully_any|apply ls_any].
Qed.

Theorem C13_read_truthful i : wf_sri i -> fpost (okq (digest_ok hash i)) (read_hash hash i).
Proof. exact (read_hash_any hash i). Qed.

(* "for all answers" covers every run, faulty or not *)
Theorem C13_fpost_frun {A} (Q : A -> Prop) (p : prog A) f a f' : fpost Q p -> frun p f a f' -> Q a.
Proof. exact (fpost_frun Q p f a f'). Qed.

Theorem C13_content_inv_faulty {A} (p : prog A) f a f' :
  all_steps csafe' p -> ContentInv hash f -> frun p f a f' -> ContentInv hash f'.
Proof. exact (content_inv_faulty_all hash p f a f'). Qed.

Theorem C13_commit_faulty_content f w now r f' :
  WInv f w -> ContentInv hash f -> frun (commit hash w now) f r f' -> ContentInv hash f'.
Proof. exact (commit_faulty_content hash HL f w now r f'). Qed.

Theorem C13_insert_faulty f key o now r f' :
  IndexInv f -> wf_rec hash (smeta_of key o now) -> PrefixFree hash (encode_smeta (smeta_of key o now)) ->
  frun (insert hash key o now) f r f' ->
  (SameIdx hash f f' \/ f' = snd (run (insert hash key o now) f)) /\
  (forall i, r = Ok i -> f' = snd (run (insert hash key o now) f)).
Proof. exact (insert_faulty hash f key o now r f'). Qed.

Theorem C13_close_truthful f w sri f' :
  WInv f w -> frun (close_writer hash w) f (Ok sri) f' ->
  sri = sri_of hash (w_algo w) (w_data w) /\
  (lookup f' (InCache (cpath hash (w_algo w) (w_data w))) = Some (File (w_data w)) \/
   resolve f' (InCache (cpath hash (w_algo w) (w_data w))) <> None).
Proof. exact (close_writer_faulty_ok hash HL f w sri f'). Qed.

Theorem C13_commit_truthful f w now i f' :
  WInv f w -> frun (commit hash w now) f (Ok i) f' ->
  exists f1,
    frun (close_writer hash w) f (Ok (sri_of hash (w_algo w) (w_data w))) f1 /\
    (lookup f1 (InCache (cpath hash (w_algo w) (w_data w))) = Some (File (w_data w)) \/
     resolve f1 (InCache (cpath hash (w_algo w) (w_data w))) <> None) /\
    match w_key w with
    | None => f' = f1 /\ i = sri_of hash (w_algo w) (w_data w)
    | Some key => exists o', frun (insert hash key o' now) f1 (Ok i) f'
    end.
Proof. exact (commit_faulty_ok hash HL f w now i f'). Qed.

Theorem C13_write_faulty_others f fl a key data now r f' :
  IndexInv f ->
  let o' := commit_opts (write_opts fl a data) (sri_of hash a data) (lenN data) in
  wf_rec hash (smeta_of key o' now) -> PrefixFree hash (encode_smeta (smeta_of key o' now)) ->
  frun (write hash fl a key data now) f r f' ->
  IndexInv f' /\
  (forall k, k <> key -> abs_idx hash f' k = abs_idx hash f k) /\
  (forall l, cfile hash l -> InCache (cpath hash a data) <> l -> lookup f' l = lookup f l) /\
  (abs_idx hash f' key = abs_idx hash f key \/ abs_idx hash f' key = new_entry key o' now).
Proof. exact (write_faulty_others hash HL f fl a key data now r f'). Qed.

Theorem C13_retry_succeeds f fl a key data now r f' :
  IndexInv f -> Shape f ->
  let o' := commit_opts (write_opts fl a data) (sri_of hash a data) (lenN data) in
  wf_rec hash (smeta_of key o' now) -> PrefixFree hash (encode_smeta (smeta_of key o' now)) ->
  frun (write hash fl a key data now) f r f' ->
  CacheInv f' /\
  fst (run (write hash fl a key data now) f') = Ok (sri_of hash a data) /\
  let f'' := snd (run (write hash fl a key data now) f') in
  run (read hash key) f'' = (Ok data, f'') /\ (forall k, k <> key -> abs_idx hash f'' k = abs_idx hash f k).
Proof. exact (write_retry_succeeds hash HL f fl a key data now r f'). Qed.

Theorem C13_remove_hash_faulty_others i f r f' :
  frun (remove_hash i) f r f' ->
  forall l, (forall cp, content_path i = Some cp -> l <> InCache cp) -> lookup f' l = lookup f l.
Proof. exact (remove_hash_faulty_others i f r f'). Qed.

Theorem C13_remove_faulty_others f key now r f' :
  IndexInv f -> wf_rec hash (smeta_of key wopts0 now) -> PrefixFree hash (encode_smeta (smeta_of key wopts0 now)) ->
  frun (delete hash key now) f r f' ->
  IndexInv f' /\
  (forall k, k <> key -> abs_idx hash f' k = abs_idx hash f k) /\
  (forall l, ~ is_index l -> lookup f' l = lookup f l) /\
  (abs_idx hash f' key = abs_idx hash f key \/ abs_idx hash f' key = None).
Proof. exact (delete_faulty_others hash f key now r f'). Qed.

(* what SameIdx gives: the index area is well-shaped, every key's lookup and every non-index location unchanged *)
Theorem C13_same_idx f c :
  SameIdx hash f c -> IndexInv c /\ (forall k, abs_idx hash c k = abs_idx hash f k) /\ (forall l, ~ is_index l -> lookup c l = lookup f l).
Proof. intros H. split; [exact (proj1 H)|]. split; [intros k; apply SameIdx_abs; exact H|exact (proj2 (proj2 H))]. Qed.

End C13.

Definition toy_hash (a : algo) (d : bytes) : bytes :=
  [n2b (N.modulo (lenN d) 251); n2b (N.modulo (fold_left (fun acc b => acc * 31 + b2n b)%N d 7%N) 256); x01].
(* non-vacuity: a faulty run exists — the index append of an insert fails after a short write of 10 bytes *)
Example C13_example :
  exists g, frun (step_ok (Append (InCache [bs "b"]) (bs "0123456789abcdef"))) [(InCache [bs "b"], File (bs "old"))] (Err EIoErr) g /\
            lookup g (InCache [bs "b"]) = Some (File (bs "old0123456789")).
Proof.
  eexists. split.
  - unfold step_ok. eapply (FFault _ _ _ EIO).
    + exact I.
    + right. vm_compute. do 9 right. left. reflexivity.
    + cbn beta iota. apply FRet.
  - vm_compute. reflexivity.
Qed.

(* the shape premise is satisfiable: the empty cache, and the cache after a write *)
Example C13_shape_empty : Shape [].
Proof. intros l n H. discriminate. Qed.

Print Assumptions C13_all_answers_total.
Print Assumptions C13_read_truthful.
Print Assumptions C13_fpost_frun.
Print Assumptions C13_content_inv_faulty.
Print Assumptions C13_commit_faulty_content.
Print Assumptions C13_insert_faulty.
Print Assumptions C13_same_idx.
Print Assumptions C13_close_truthful.
Print Assumptions C13_commit_truthful.
Print Assumptions C13_write_faulty_others.
Print Assumptions C13_retry_succeeds.
Print Assumptions C13_remove_hash_faulty_others.
Print Assumptions C13_remove_faulty_others.
