(* C11 — index metadata is returned exactly as supplied, with truthful defaults.
   The codec round trip is a THEOREM (JsonP / RecCodecP): serde_json's compact serializer followed by its recursive-
   descent parser (escapes, \uXXXX, number lexing, recursion limit, fuel) is the identity on every JSON value without
   floats whose containers nest at most 127 deep — all strings (any bytes), all integers, all arrays/objects — and
   the record decoder returns every record whose key / integrity text / metadata strings are valid UTF-8, time < 2^128,
   size < 2^64, metadata in serde_json's normal form (sorted unique keys: what a serde_json::Value is), any raw bytes.
   Consequently the [wf_rec] hypothesis of C02 / C05 / C08 / C04 / C09 holds for every record an API call writes with
   such arguments ([C11_opts_wf_rec]).  Decimals: the model carries floats as raw text outside the theorem's domain
   (the correspondence compares short decimals on the real code).  Defaults: time = the commit's clock reading, size =
   bytes written, metadata = null, raw = none (C02's statement, here with the side conditions discharged). *)
From Coq Require Import Lia.
From CC Require Import Bytes Codec Utf8 Lines Json Sri Record Fs Prog Api BytesP CodecP FsP ProgP SriP RecordP IndexP ReadP WriteP CommitP JsonP RecCodecP MetaP.
Local Open Scope N_scope.

Section C11.
Variable hash : algo -> bytes -> bytes.

Theorem C11_json_roundtrip v :
  jclean v = true -> (jdepth v <= json_depth)%nat -> parse_json (ser v) = POk v [].
Proof. exact (parse_json_ser v). Qed.

Theorem C11_string_roundtrip s rest : parse_string_body (flat_map esc s ++ x22 :: rest) = Some (s, rest).
Proof. exact (parse_string_body_ser s rest). Qed.

Theorem C11_record_roundtrip m :
  rec_ok m = true ->
  parse_smeta (encode_smeta m) = Some m /\
  (forall b, In b (encode_smeta m) -> 32 <= b2n b) /\
  valid_utf8 (record_line hash (encode_smeta m)) = true.
Proof. intros H. destruct (wf_rec_api hash m H) as [H1 [H2 H3]]. auto. Qed.

Theorem C11_opts_wf_rec key o now : opts_ok key o now = true -> wf_rec hash (smeta_of key o now).
Proof. exact (opts_ok_wf_rec hash key o now). Qed.

Theorem C11_insert_find_roundtrip f key o now :
  IndexInv f -> opts_ok key o now = true -> wf_sri_opt o ->
  let f' := snd (run (insert hash key o now) f) in
  run (find hash key) f' = (Ok (new_entry key o now), f') /\
  (forall k, k <> key -> run (find hash k) f' = (Ok (abs_idx hash f k), f')).
Proof. exact (insert_find_roundtrip hash f key o now). Qed.

Theorem C11_insert_listed f key o now i :
  IndexInv f -> opts_ok key o now = true -> wf_sri_opt o -> o_sri o = Some i ->
  let f' := snd (run (insert hash key o now) f) in
  exists m, new_entry key o now = Some m /\ In m (ls_bytes hash (bucket_bytes hash f' key)).
Proof. exact (insert_listed hash f key o now i). Qed.

(* what "the supplied fields" means, field by field *)
Theorem C11_new_entry_fields key o now i :
  o_sri o = Some i ->
  new_entry key o now = Some (mkMeta key i (match o_time o with Some t => t | None => now end)
                                     (match o_size o with Some s => s | None => 0 end)
                                     (match o_meta o with Some m => m | None => JNull end) (o_raw o)).
Proof. intros H. unfold new_entry. rewrite H. reflexivity. Qed.

(* a streamed keyed write: every supplied field comes back; defaults are the clock reading of the commit, the number
   of bytes written, null, none *)
Theorem C11_commit_fields (HL : HashLen hash) f fl key o cs now :
  CacheInv f -> o_sri o = None -> size_ok o (lenN (List.concat cs)) = true ->
  let data := List.concat cs in
  opts_ok key (commit_opts o (sri_of hash (algo_of o) data) (lenN data)) now = true ->
  let f' := snd (run (stream_write hash fl (Some key) o cs now) f) in
  exists m, run (find hash key) f' = (Ok (Some m), f') /\ m_key m = key /\ m_sri m = sri_of hash (algo_of o) data /\
            m_size m = match o_size o with Some s => s | None => lenN data end /\
            m_time m = match o_time o with Some t => t | None => now end /\
            m_metadata m = match o_meta o with Some j => j | None => JNull end /\ m_raw m = o_raw o.
Proof.
  intros Hinv Hs Hz data Hok f'.
  destruct (stream_write_keyed_roundtrip hash HL f fl key o cs now Hinv Hs Hz (opts_ok_wf_rec hash key _ now Hok)) as [_ [_ [_ [_ [_ H]]]]].
  exact H.
Qed.

End C11.

Definition toy_hash (a : algo) (d : bytes) : bytes :=
  [n2b (N.modulo (lenN d) 251); n2b (N.modulo (fold_left (fun acc b => acc * 31 + b2n b)%N d 7%N) 256); x01].
(* non-vacuity: hostile key, 2^128-1 timestamp, nested metadata with control and non-ASCII characters, raw bytes *)
Definition ex_meta : jv :=
  JObj [(bs "a", JArr [JInt (-5); JNull; JBool true; JStr [x22; x5c; x0a; x01; xc3; xa9]]); (bs "b", JObj [])].
Definition ex_opts : wopts :=
  mkWopts None (Some [mkHash Sha256 (bs "AAECAw==")]) (Some 18446744073709551615)
          (Some 340282366920938463463374607431768211455) (Some ex_meta) (Some [x00; xff; x0a]).
Example C11_example :
  opts_ok [x09; x0a; x22; x00; xc3; xa9] ex_opts 0 = true /\
  fst (run (find toy_hash [x09; x0a; x22; x00; xc3; xa9])
           (snd (run (insert toy_hash [x09; x0a; x22; x00; xc3; xa9] ex_opts 0) [])))
  = Ok (new_entry [x09; x0a; x22; x00; xc3; xa9] ex_opts 0).
Proof. vm_compute. split; reflexivity. Qed.

Print Assumptions C11_json_roundtrip.
Print Assumptions C11_string_roundtrip.
Print Assumptions C11_record_roundtrip.
Print Assumptions C11_opts_wf_rec.
Print Assumptions C11_insert_find_roundtrip.
Print Assumptions C11_insert_listed.
Print Assumptions C11_new_entry_fields.
Print Assumptions C11_commit_fields.
