(* C06 — damage to an index file is contained to the damaged records.
   Statements only; proofs live in proofs/.  [hash] is universally quantified: the theorems hold for
   every hash function.  The file [f] is an arbitrary byte string: this is the whole damage space. *)
From CC Require Import Bytes Codec Utf8 Lines Json Sri Record BytesP LinesP RecordP.

Section C06.
Variable hash : algo -> bytes -> bytes.

(* validity is decided line by line; nothing carries over from one line to the next *)
Theorem C06_entries_per_line f : entries hash f = flat_map (contrib hash) (lines f).
Proof. reflexivity. Qed.

(* replacing the bytes of one (terminated) line by any newline-free bytes changes only that line's
   contribution: the records before and after it stay effective *)
Theorem C06_damage_local a l l' b :
  no_nl l -> no_nl l' ->
  exists pre post,
    entries hash (a ++ nl :: l ++ nl :: b) = pre ++ contrib hash (strip_cr l) ++ post /\
    entries hash (a ++ nl :: l' ++ nl :: b) = pre ++ contrib hash (strip_cr l') ++ post.
Proof. exact (damage_local hash a l l' b). Qed.

(* destroying a separating newline fuses, and thereby replaces, exactly the two adjacent records *)
Theorem C06_newline_fusion a l1 l2 b :
  no_nl l1 -> no_nl l2 ->
  exists pre post,
    entries hash (a ++ nl :: l1 ++ nl :: l2 ++ nl :: b)
      = pre ++ contrib hash (strip_cr l1) ++ contrib hash (strip_cr l2) ++ post /\
    entries hash (a ++ nl :: (l1 ++ l2) ++ nl :: b)
      = pre ++ contrib hash (strip_cr (l1 ++ l2)) ++ post.
Proof. exact (newline_fusion hash a l1 l2 b). Qed.

(* a record appended after arbitrary earlier bytes (a torn tail included) is effective, and the
   earlier contributions are untouched, provided the file does not end in a pending CR *)
Theorem C06_entries_app_line f line :
  no_nl line -> no_pending_cr f ->
  entries hash (f ++ nl :: line) = entries hash f ++ contrib hash line.
Proof. exact (entries_app_line hash f line). Qed.

(* no entry is fabricated: whatever the reader returns is the decoding of a checksum-valid,
   UTF-8-valid line that is literally present in the file *)
Theorem C06_no_fabrication f m :
  In m (entries hash f) ->
  exists line h text,
    In line (lines f) /\ valid_utf8 line = true /\
    line = h ++ tab :: text /\ h = hash_entry hash text /\ parse_smeta text = Some m.
Proof. exact (no_fabrication hash f m). Qed.

End C06.

Check (C06_entries_per_line : forall hash f, entries hash f = flat_map (contrib hash) (lines f)).
Check (C06_entries_app_line : forall hash f line, no_nl line -> no_pending_cr f ->
         entries hash (f ++ nl :: line) = entries hash f ++ contrib hash line).

(* non-vacuity: a concrete damaged bucket under a toy hash *)
Definition toy_hash (a : algo) (d : bytes) : bytes := [n2b (N.modulo (lenN d) 256); x01].
Example C06_damage_example :
  let text := bs "{""key"":""k"",""integrity"":null,""time"":1,""size"":2,""metadata"":null,""raw_metadata"":null}" in
  let good := record_line toy_hash text in
  List.length (entries toy_hash (bs "junk" ++ nl :: good ++ nl :: [xff; xfe] ++ nl :: good)) = 2%nat
  /\ no_nl good.
Proof. split; [vm_compute; reflexivity|]. intros b Hb. vm_compute in Hb.
  repeat (destruct Hb as [<-|Hb]; [reflexivity|]). destruct Hb. Qed.

Print Assumptions C06_entries_per_line.
Print Assumptions C06_damage_local.
Print Assumptions C06_newline_fusion.
Print Assumptions C06_entries_app_line.
Print Assumptions C06_no_fabrication.
