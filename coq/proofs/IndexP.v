(* IndexP.v — index::insert / find / delete on the abstract filesystem refine a map key -> entry. *)
From CC Require Import Bytes Codec Utf8 Lines Json Sri Record Fs Prog Api BytesP LinesP RecordP FsP ProgP.
From Coq Require Import Lia.

Section I.
Variable hash : algo -> bytes -> bytes.

(* shape of the index area: directories down to depth 3, bucket files (without a pending CR) at depth 4 *)
Definition IndexInv (f : fs) : Prop :=
  forall p n, lookup f (InCache (index_dir :: p)) = Some n ->
    ((List.length p <= 2)%nat -> n = Dir) /\
    (List.length p = 3%nat -> exists d, n = File d /\ no_pending_cr d).

Definition bucket_bytes (f : fs) (key : bytes) : bytes :=
  match lookup f (InCache (bucket_path hash key)) with Some (File d) => d | _ => [] end.

(* the abstraction function: what a lookup of [key] means on this tree *)
Definition abs_idx (f : fs) (key : bytes) : option meta :=
  find_in key (entries hash (bucket_bytes f key)).

(* a record the codec handles faithfully (established for API-written records in CodecP / C11) *)
Definition no_ctrl (l : bytes) : Prop := forall b, In b l -> (32 <= b2n b)%N.
Definition wf_rec (m : smeta) : Prop :=
  let text := encode_smeta m in
  no_ctrl text /\ valid_utf8 (record_line hash text) = true /\ parse_smeta text = Some m.

Lemma no_ctrl_of_forallb l : forallb (fun b => (32 <=? b2n b)%N) l = true -> no_ctrl l.
Proof. intros H b Hb. rewrite forallb_forall in H. apply N.leb_le. apply H. exact Hb. Qed.

Lemma no_ctrl_facts l : no_ctrl l ->
  (forall b, In b l -> Byte.eqb b nl = false) /\ (forall b, In b l -> Byte.eqb b tab = false) /\
  (forall b, In b l -> Byte.eqb b cr = false).
Proof.
  intros H. repeat split; intros b Hb; specialize (H b Hb); apply byte_eqb_neq; intros ->; vm_compute in H; congruence.
Qed.

Lemma ends_cr_app_last l x : ends_cr (l ++ [x]) = Byte.eqb x cr.
Proof. unfold ends_cr. rewrite rev_app_distr. reflexivity. Qed.

Lemma record_line_facts text : no_ctrl text ->
  no_nl (record_line hash text) /\ ends_cr (record_line hash text) = false.
Proof.
  intros H. destruct (no_ctrl_facts text H) as [Hnl [Htab Hcr]]. unfold record_line. split.
  - intros b Hb. apply in_app_or in Hb as [Hb|[<-|Hb]]; [apply (hex_encode_clean _ _ Hb)|reflexivity|apply Hnl; exact Hb].
  - destruct text as [|x text] using rev_ind.
    + rewrite ends_cr_app_last. reflexivity.
    + change (hash_entry hash (text ++ [x]) ++ tab :: text ++ [x]) with (hash_entry hash (text ++ [x]) ++ (tab :: text) ++ [x]).
      rewrite app_assoc, ends_cr_app_last. apply Hcr. apply in_or_app. right. left. reflexivity.
Qed.

Lemma contrib_record m : wf_rec m -> contrib hash (record_line hash (encode_smeta m)) = [m].
Proof.
  intros [Hc [Hu Hp]]. unfold contrib. rewrite Hu.
  apply entry_of_record_line; [exact (proj1 (proj2 (no_ctrl_facts _ Hc)))|exact Hp].
Qed.

(* appending a well-formed record to any bucket without a pending CR *)
Lemma entries_app_record d m : no_pending_cr d -> wf_rec m ->
  entries hash (d ++ record_bytes hash m) = entries hash d ++ [m] /\ no_pending_cr (d ++ record_bytes hash m).
Proof.
  intros Hd Hw. pose proof Hw as [Hc _]. destruct (record_line_facts _ Hc) as [Hnl Hcr].
  unfold record_bytes. split.
  - rewrite entries_app_line by assumption. rewrite contrib_record by exact Hw. reflexivity.
  - apply no_pending_cr_app; assumption.
Qed.

Lemma no_pending_cr_nil : no_pending_cr [].
Proof. reflexivity. Qed.

(* ---------- paths ---------- *)
Lemma bucket_path_shape key : exists a b c, bucket_path hash key = [index_dir; a; b; c].
Proof. unfold bucket_path. eauto. Qed.

Lemma bucket_lookup f key : IndexInv f ->
  lookup f (InCache (bucket_path hash key)) = None \/
  exists d, lookup f (InCache (bucket_path hash key)) = Some (File d) /\ no_pending_cr d.
Proof.
  intros Hinv. destruct (bucket_path_shape key) as [a [b [c E]]]. rewrite E.
  destruct (lookup f (InCache [index_dir; a; b; c])) as [n|] eqn:El; [|left; reflexivity].
  right. destruct (Hinv [a; b; c] n El) as [_ H]. destruct (H eq_refl) as [d [-> Hd]]. exists d. auto.
Qed.

(* ---------- find ---------- *)
Theorem find_run f key : IndexInv f -> run (find hash key) f = (Ok (abs_idx f key), f).
Proof.
  intros Hinv. unfold find, bucket_entries, abs_idx, bucket_bytes.
  unfold rbind. rewrite run_bind. cbn [run].
  destruct (bucket_lookup f key Hinv) as [Hn|[d [Hd _]]].
  - rewrite (exec_readfile_absent _ _ Hn), Hn. reflexivity.
  - rewrite (exec_readfile_file _ _ _ Hd), Hd. reflexivity.
Qed.

(* ---------- insert ---------- *)
Lemma prefixes_parent_bucket a b c :
  prefixes (parent [index_dir; a; b; c]) = [[index_dir]; [index_dir; a]; [index_dir; a; b]].
Proof. reflexivity. Qed.

Theorem insert_run f key o now :
  IndexInv f -> wf_rec (smeta_of key o now) ->
  exists f',
    run (insert hash key o now) f = (Ok (match o_sri o with Some i => i | None => deadbeef end), f') /\
    IndexInv f' /\
    lookup f' (InCache (bucket_path hash key))
      = Some (File (bucket_bytes f key ++ record_bytes hash (smeta_of key o now))) /\
    (forall l, l <> InCache (bucket_path hash key) ->
       lookup f' l = lookup f l \/
       (lookup f l = None /\ lookup f' l = Some Dir /\ exists p, l = InCache (index_dir :: p) /\ (List.length p <= 2)%nat)).
Proof.
  intros Hinv Hwf. set (sm := smeta_of key o now) in *.
  destruct (bucket_path_shape key) as [a [b [c Eb]]].
  unfold insert, bucket_bytes. rewrite Eb. fold sm.
  (* MkdirAll *)
  destruct (mkdirs_ok f (prefixes (parent [index_dir; a; b; c]))) as [f1 [Hmk [Hdirs [Hother Hany]]]].
  { rewrite prefixes_parent_bucket. intros p Hp. unfold dir_or_absent.
    destruct (lookup f (InCache p)) as [n|] eqn:El; [|left; reflexivity]. right. f_equal.
    destruct Hp as [<-|[<-|[<-|[]]]].
    - apply (Hinv [] n El). simpl. lia.
    - apply (Hinv [a] n El). simpl. lia.
    - apply (Hinv [a; b] n El). simpl. lia. }
  assert (lookup f1 (InCache [index_dir; a; b; c]) = lookup f (InCache [index_dir; a; b; c])) as Hb1.
  { apply Hother. rewrite prefixes_parent_bucket. intros p [<-|[<-|[<-|[]]]]; discriminate. }
  assert (lookup f1 (InCache [index_dir; a; b]) = Some Dir) as Hpar.
  { apply Hdirs. rewrite prefixes_parent_bucket. right. right. left. reflexivity. }
  erewrite run_rbind_ok; [|apply (run_step_ok _ _ ROk f1); [exact Hmk|exact I]].
  (* CreateIfMissing, then Append *)
  assert (Hbl := bucket_lookup f key Hinv). rewrite Eb in Hbl.
  set (old := match lookup f (InCache [index_dir; a; b; c]) with Some (File d) => d | _ => [] end).
  assert (exists f2, exec (CreateIfMissing (InCache [index_dir; a; b; c])) f1 = (ROk, f2) /\
                     lookup f2 (InCache [index_dir; a; b; c]) = Some (File old) /\
                     (forall l, l <> InCache [index_dir; a; b; c] -> lookup f2 l = lookup f1 l) /\ no_pending_cr old)
    as [f2 [Hc [Hl2 [Ho2 Hcr]]]].
  { destruct Hbl as [Hn|[d [Hd Hcr]]].
    - exists (update f1 (InCache [index_dir; a; b; c]) (File [])).
      rewrite exec_create_absent; [|rewrite Hb1; exact Hn|unfold parent_ok, is_dir; cbn [parent removelast]; rewrite Hpar; reflexivity].
      subst old. rewrite Hn.
      split; [reflexivity|]. split; [apply lookup_update_eq|]. split; [|apply no_pending_cr_nil].
      intros l Hl. apply lookup_update_neq. congruence.
    - exists f1. rewrite (exec_create_file f1 _ d) by (rewrite Hb1; exact Hd). subst old. rewrite Hd.
      split; [reflexivity|]. split; [rewrite Hb1; exact Hd|].
      split; [reflexivity|exact Hcr]. }
  erewrite run_rbind_ok; [|apply (run_step_ok _ _ ROk f2); [exact Hc|exact I]].
  set (rec := record_bytes hash sm).
  assert (exec (Append (InCache [index_dir; a; b; c]) rec) f2
          = (ROk, update f2 (InCache [index_dir; a; b; c]) (File (old ++ rec)))) as Ha.
  { apply exec_append. exact Hl2. }
  erewrite run_rbind_ok; [|apply (run_step_ok _ _ ROk _ Ha I)].
  cbn [run].
  exists (update f2 (InCache [index_dir; a; b; c]) (File (old ++ rec))).
  split; [reflexivity|]. split; [|split].
  - (* invariant *)
    intros p n Hn. rewrite lookup_update in Hn.
    destruct (loc_eqb (InCache [index_dir; a; b; c]) (InCache (index_dir :: p))) eqn:E.
    + apply loc_eqb_eq in E. inversion E; subst p. inversion Hn; subst n. split; [simpl; lia|].
      intros _. exists (old ++ rec). split; [reflexivity|]. apply (entries_app_record old sm Hcr Hwf).
    + apply loc_eqb_neq in E. rewrite Ho2 in Hn by congruence.
      destruct (Hany (InCache (index_dir :: p))) as [H|H].
      * rewrite H in Hn. apply (Hinv p n Hn).
      * rewrite H in Hn. inversion Hn; subst n. split; [reflexivity|]. intros Hlen.
        (* a depth-3 node that mkdirs turned into a directory: impossible, it only touches depth <= 2 *)
        exfalso. destruct (lookup f (InCache (index_dir :: p))) as [n0|] eqn:E0.
        -- destruct (Hinv p n0 E0) as [_ Hf]. destruct (Hf Hlen) as [d [-> _]].
           assert (lookup f1 (InCache (index_dir :: p)) = Some (File d)).
           { rewrite <- E0. apply Hother. rewrite prefixes_parent_bucket.
             intros q [<-|[<-|[<-|[]]]] Eq; inversion Eq; subst p; simpl in Hlen; lia. }
           congruence.
        -- assert (lookup f1 (InCache (index_dir :: p)) = None).
           { rewrite <- E0. apply Hother. rewrite prefixes_parent_bucket.
             intros q [<-|[<-|[<-|[]]]] Eq; inversion Eq; subst p; simpl in Hlen; lia. }
           congruence.
  - apply lookup_update_eq.
  - intros l Hl. rewrite lookup_update_neq by congruence. rewrite Ho2 by exact Hl.
    destruct (lookup f1 l) as [n1|] eqn:E1.
    + destruct (Hany l) as [H|H]; [left; congruence|].
      destruct (lookup f l) as [n0|] eqn:E0.
      * left. (* f had a node here; mkdirs never replaces a node *)
        destruct (loc_eq_dec l (InCache [index_dir])) as [->|N1];
        [|destruct (loc_eq_dec l (InCache [index_dir; a])) as [->|N2];
          [|destruct (loc_eq_dec l (InCache [index_dir; a; b])) as [->|N3]]].
        -- rewrite (proj1 (Hinv [] n0 E0) ltac:(simpl; lia)). congruence.
        -- rewrite (proj1 (Hinv [a] n0 E0) ltac:(simpl; lia)). congruence.
        -- rewrite (proj1 (Hinv [a; b] n0 E0) ltac:(simpl; lia)). congruence.
        -- rewrite <- E0, <- E1. apply Hother. rewrite prefixes_parent_bucket.
           intros q [<-|[<-|[<-|[]]]]; congruence.
      * right. split; [reflexivity|]. split; [congruence|].
        destruct (loc_eq_dec l (InCache [index_dir])) as [->|N1];
        [exists []; split; [reflexivity|simpl; lia]|].
        destruct (loc_eq_dec l (InCache [index_dir; a])) as [->|N2];
        [exists [a]; split; [reflexivity|simpl; lia]|].
        destruct (loc_eq_dec l (InCache [index_dir; a; b])) as [->|N3];
        [exists [a; b]; split; [reflexivity|simpl; lia]|].
        exfalso. assert (lookup f1 l = lookup f l) as E.
        { apply Hother. rewrite prefixes_parent_bucket. intros q [<-|[<-|[<-|[]]]]; congruence. }
        congruence.
    + left. destruct (Hany l) as [H|H]; congruence.
Qed.

(* what the inserted record means for a lookup of [k] *)
Definition new_entry (key : bytes) (o : wopts) (now : N) : option meta :=
  match o_sri o with
  | Some i => Some (mkMeta key i (match o_time o with Some t => t | None => now end)
                          (match o_size o with Some s => s | None => 0%N end)
                          (match o_meta o with Some m => m | None => JNull end) (o_raw o))
  | None => None
  end.

Definition wf_sri_opt (o : wopts) : Prop :=
  forall i, o_sri o = Some i -> parse_entry_sri (sri_text i) = Some i.

Lemma find_step_new key o now acc :
  wf_sri_opt o -> find_step key acc (smeta_of key o now) = new_entry key o now.
Proof.
  intros Hs. unfold find_step, smeta_of, new_entry. cbn [sm_key sm_integrity sm_time sm_size sm_metadata sm_raw].
  rewrite bytes_eqb_refl. destruct (o_sri o) as [i|] eqn:E; cbn [option_map]; [|reflexivity].
  rewrite (Hs i E). reflexivity.
Qed.

Theorem insert_abs f key o now :
  IndexInv f -> wf_rec (smeta_of key o now) -> wf_sri_opt o ->
  IndexInv (snd (run (insert hash key o now) f)) /\
  fst (run (insert hash key o now) f) = Ok (match o_sri o with Some i => i | None => deadbeef end) /\
  (forall k, abs_idx (snd (run (insert hash key o now) f)) k
             = if bytes_eqb k key then new_entry key o now else abs_idx f k) /\
  (forall l, (forall p, l <> InCache (index_dir :: p)) ->
             lookup (snd (run (insert hash key o now) f)) l = lookup f l).
Proof.
  intros Hinv Hwf Hs. destruct (insert_run f key o now Hinv Hwf) as [f' [Hrun [Hinv' [Hb Ho]]]].
  rewrite Hrun. cbn [fst snd]. split; [exact Hinv'|]. split; [reflexivity|]. split.
  - intros k. unfold abs_idx at 1. unfold bucket_bytes at 1.
    destruct (loc_eq_dec (InCache (bucket_path hash k)) (InCache (bucket_path hash key))) as [E|N].
    + rewrite E, Hb.
      assert (no_pending_cr (bucket_bytes f key)) as Hcr.
      { unfold bucket_bytes. destruct (bucket_lookup f key Hinv) as [Hn|[d [Hd Hc]]]; [rewrite Hn; reflexivity|rewrite Hd; exact Hc]. }
      rewrite (proj1 (entries_app_record _ _ Hcr Hwf)), find_in_app.
      assert (bucket_bytes f key = bucket_bytes f k) as Ebb by (unfold bucket_bytes; rewrite E; reflexivity).
      destruct (bytes_eqb k key) eqn:Ek.
      * apply bytes_eqb_eq in Ek. subst k. apply find_step_new. exact Hs.
      * unfold find_step. cbn [smeta_of sm_key]. rewrite Ebb.
        assert (bytes_eqb key k = false) as -> by (apply bytes_eqb_neq; apply bytes_eqb_neq in Ek; congruence).
        reflexivity.
    + destruct (bytes_eqb k key) eqn:Ek; [apply bytes_eqb_eq in Ek; subst; contradiction|].
      unfold abs_idx, bucket_bytes.
      destruct (Ho _ N) as [H|[H0 [H1 _]]]; [rewrite H; reflexivity|rewrite H0, H1; reflexivity].
  - intros l Hl. destruct (bucket_path_shape key) as [a [b [c Eb]]].
    destruct (Ho l) as [H|[_ [_ [p [-> _]]]]]; [rewrite Eb; apply Hl|exact H|exfalso; apply (Hl p); reflexivity].
Qed.

(* ---------- histories ---------- *)
Inductive hop := HIns (key : bytes) (o : wopts) (now : N) | HDel (key : bytes) (now : N).

Definition exec_hop (f : fs) (h : hop) : fs :=
  match h with
  | HIns key o now => snd (run (insert hash key o now) f)
  | HDel key now => snd (run (delete hash key now) f)
  end.

Definition spec_step (s : bytes -> option meta) (h : hop) : bytes -> option meta :=
  fun k => match h with
           | HIns key o now => if bytes_eqb k key then new_entry key o now else s k
           | HDel key _ => if bytes_eqb k key then None else s k
           end.

Definition wf_hop (h : hop) : Prop :=
  match h with
  | HIns key o now => wf_rec (smeta_of key o now) /\ wf_sri_opt o
  | HDel key now => wf_rec (smeta_of key wopts0 now)
  end.

Lemma delete_snd f key now : snd (run (delete hash key now) f) = snd (run (insert hash key wopts0 now) f).
Proof.
  unfold delete, rbind. rewrite run_bind. destruct (run (insert hash key wopts0 now) f) as [r f'].
  destruct r; reflexivity.
Qed.

Lemma exec_hop_spec f h :
  IndexInv f -> wf_hop h ->
  IndexInv (exec_hop f h) /\ (forall k, abs_idx (exec_hop f h) k = spec_step (abs_idx f) h k) /\
  (forall l, (forall p, l <> InCache (index_dir :: p)) -> lookup (exec_hop f h) l = lookup f l).
Proof.
  intros Hinv Hw. destruct h as [key o now|key now]; cbn [exec_hop spec_step wf_hop] in *.
  - destruct Hw as [Hw Hs]. destruct (insert_abs f key o now Hinv Hw Hs) as [H1 [_ [H2 H3]]]. auto.
  - rewrite delete_snd.
    destruct (insert_abs f key wopts0 now Hinv Hw) as [H1 [_ [H2 H3]]]; [intros i Hi; discriminate|]. auto.
Qed.

(* C05: after any history, a lookup returns what the abstract map says *)
Theorem find_refines_map (h : list hop) f0 :
  IndexInv f0 -> Forall wf_hop h ->
  IndexInv (fold_left exec_hop h f0) /\
  (forall k, run (find hash k) (fold_left exec_hop h f0)
             = (Ok (fold_left spec_step h (abs_idx f0) k), fold_left exec_hop h f0)).
Proof.
  revert f0. induction h as [|x h IH]; intros f0 Hinv Hw; cbn [fold_left].
  - split; [exact Hinv|]. intros k. apply find_run. exact Hinv.
  - inversion Hw as [|? ? Hx Hh]; subst.
    destruct (exec_hop_spec f0 x Hinv Hx) as [Hinv' [Habs _]].
    destruct (IH (exec_hop f0 x) Hinv' Hh) as [Hinv'' Hfind].
    split; [exact Hinv''|]. intros k. rewrite Hfind. f_equal. f_equal.
    clear - Habs. revert k. 
    assert (forall s s', (forall k, s k = s' k) -> forall k, fold_left spec_step h s k = fold_left spec_step h s' k) as Hext.
    { clear. induction h as [|y h IH]; intros s s' E k; cbn [fold_left]; [apply E|].
      apply IH. intros k'. unfold spec_step. destruct y; destruct (bytes_eqb k' key); auto. }
    intros k. apply Hext. exact Habs.
Qed.

(* writes to one key never change what another key returns; earlier entries never resurface *)
Corollary spec_last_write_wins h s key o now k :
  fold_left spec_step (h ++ [HIns key o now]) s k = if bytes_eqb k key then new_entry key o now else fold_left spec_step h s k.
Proof. rewrite fold_left_app. reflexivity. Qed.

Corollary spec_removed_absent h s key now k :
  fold_left spec_step (h ++ [HDel key now]) s k = if bytes_eqb k key then None else fold_left spec_step h s k.
Proof. rewrite fold_left_app. reflexivity. Qed.

End I.
