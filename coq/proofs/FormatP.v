(* FormatP.v — the on-disk format (C17): paths, the language of bucket files, and a deliberately naive reader
   written from the format sentence alone, shown to agree with the library's reader on every file the library
   can produce (and, conversely, the library's reader reads every file a naive writer produces). *)
From CC Require Import Bytes Codec Utf8 Lines Json Sri Record Fs Prog Api
  BytesP CodecP LinesP LsP FsP ProgP SriP RecordP IndexP ReadP WriteP.
From Coq Require Import Lia.
Local Open Scope N_scope.

Section F.
Variable hash : algo -> bytes -> bytes.

(* ---------- paths ---------- *)
Theorem bucket_path_format key :
  let h := hex_encode (hash Sha1 key) in
  bucket_path hash key = [bs "index-v5"; takeN 2 h; takeN 2 (dropN 2 h); dropN 4 h].
Proof. reflexivity. Qed.

Theorem content_path_format a data :
  HashLen hash ->
  let h := hex_encode (hash a data) in
  content_path (sri_of hash a data) = Some [bs "content-v2"; algo_name a; takeN 2 h; takeN 2 (dropN 2 h); dropN 4 h].
Proof. intros HL. exact (content_path_computed hash a data HL). Qed.

Theorem algo_names :
  map algo_name [Sha1; Sha256; Sha384; Sha512; Xxh3] = [bs "sha1"; bs "sha256"; bs "sha384"; bs "sha512"; bs "xxh3"].
Proof. reflexivity. Qed.

(* ---------- one record ---------- *)
Theorem record_format m :
  record_bytes hash m =
  nl :: hex_encode (hash Sha256 (encode_smeta m)) ++ tab :: encode_smeta m.
Proof. reflexivity. Qed.

Theorem record_json_fields m :
  encode_smeta m =
  ser (JObj [ (bs "key", JStr (sm_key m));
              (bs "integrity", match sm_integrity m with Some s => JStr s | None => JNull end);
              (bs "time", JInt (Z.of_N (sm_time m)));
              (bs "size", JInt (Z.of_N (sm_size m)));
              (bs "metadata", sm_metadata m);
              (bs "raw_metadata", jraw (sm_raw m)) ]).
Proof. reflexivity. Qed.

(* ---------- the language of bucket files ---------- *)
Definition bucket_of (ms : list smeta) : bytes := List.concat (map (record_bytes hash) ms).

Lemma bucket_of_snoc ms m : bucket_of (ms ++ [m]) = bucket_of ms ++ record_bytes hash m.
Proof. unfold bucket_of. rewrite map_app, concat_app. cbn [map List.concat]. rewrite app_nil_r. reflexivity. Qed.

(* the library's reader on a well-formed bucket returns exactly the records, in order *)
Theorem entries_bucket_of ms :
  Forall (wf_rec hash) ms -> entries hash (bucket_of ms) = ms /\ no_pending_cr (bucket_of ms).
Proof.
  induction ms as [|m ms IH] using rev_ind; intros Hw.
  - split; reflexivity.
  - apply Forall_app in Hw as [Hms Hm]. inversion Hm as [|? ? Hm' _]; subst.
    destruct (IH Hms) as [He Hcr]. rewrite bucket_of_snoc.
    destruct (entries_app_record hash _ m Hcr Hm') as [H1 H2]. rewrite H1, He. auto.
Qed.

(* every insert / removal appends one record to the key's bucket and touches no other bucket *)
Theorem insert_appends f key o now :
  IndexInv f -> wf_rec hash (smeta_of key o now) ->
  bucket_bytes hash (snd (run (insert hash key o now) f)) key
  = bucket_bytes hash f key ++ record_bytes hash (smeta_of key o now).
Proof.
  intros Hinv Hwf. destruct (insert_run hash f key o now Hinv Hwf) as [f' [Hrun [_ [Hb _]]]].
  rewrite Hrun. cbn [snd]. unfold bucket_bytes at 1. rewrite Hb. reflexivity.
Qed.

Fixpoint hist_records (h : list hop) (b : path) : list smeta :=
  match h with
  | [] => []
  | HIns key o now :: t =>
      if path_eqb (bucket_path hash key) b then smeta_of key o now :: hist_records t b else hist_records t b
  | HDel key now :: t =>
      if path_eqb (bucket_path hash key) b then smeta_of key wopts0 now :: hist_records t b else hist_records t b
  end.

Definition bucket_at (f : fs) (b : path) : bytes :=
  match lookup f (InCache b) with Some (File d) => d | _ => [] end.

Lemma exec_hop_bucket f x b :
  IndexInv f -> wf_hop hash x ->
  (exists a c d, b = [index_dir; a; c; d]) ->
  bucket_at (exec_hop hash f x) b = bucket_at f b ++ bucket_of (hist_records [x] b).
Proof.
  intros Hinv Hw [a [c [d Eb]]].
  assert (forall key o now, wf_rec hash (smeta_of key o now) ->
            bucket_at (snd (run (insert hash key o now) f)) b
            = bucket_at f b ++ bucket_of (if path_eqb (bucket_path hash key) b then [smeta_of key o now] else [])) as Hins.
  { intros key o now Hwf. destruct (insert_run hash f key o now Hinv Hwf) as [f' [Hrun [_ [Hb Ho]]]].
    rewrite Hrun. cbn [snd]. destruct (path_eqb (bucket_path hash key) b) eqn:E.
    - apply path_eqb_eq in E. rewrite <- E. unfold bucket_at at 1. rewrite Hb. unfold bucket_of. cbn [map List.concat].
      rewrite app_nil_r. reflexivity.
    - assert (InCache b <> InCache (bucket_path hash key)) as Hne.
      { intro H. inversion H as [H']. rewrite H', (proj2 (path_eqb_eq _ _) eq_refl) in E. discriminate. }
      unfold bucket_of. cbn [map List.concat]. rewrite app_nil_r. unfold bucket_at.
      destruct (Ho _ Hne) as [H|[H0 [H1 [p [Ep Hlen]]]]]; [rewrite H; reflexivity|].
      rewrite H0, H1. reflexivity. }
  destruct x as [key o now|key now]; cbn [exec_hop hist_records wf_hop] in *.
  - destruct Hw as [Hw _]. rewrite (Hins key o now Hw). destruct (path_eqb (bucket_path hash key) b); reflexivity.
  - rewrite delete_snd, (Hins key wopts0 now Hw). destruct (path_eqb (bucket_path hash key) b); reflexivity.
Qed.

Lemma hist_records_app h1 h2 b : hist_records (h1 ++ h2) b = hist_records h1 b ++ hist_records h2 b.
Proof.
  induction h1 as [|x h1 IH]; [reflexivity|]. destruct x; cbn [app hist_records]; destruct (path_eqb _ b); cbn [app]; rewrite IH; reflexivity.
Qed.

(* after ANY history, every bucket file is its initial bytes followed by the whole records of the inserts and
   removals that hash to it, in order: (nl . hex64 . tab . json)* *)
Theorem bucket_language h f0 b :
  IndexInv f0 -> Forall (wf_hop hash) h -> (exists a c d, b = [index_dir; a; c; d]) ->
  bucket_at (fold_left (exec_hop hash) h f0) b = bucket_at f0 b ++ bucket_of (hist_records h b).
Proof.
  revert f0. induction h as [|x h IH]; intros f0 Hinv Hw Hb.
  - cbn [fold_left hist_records]. unfold bucket_of. cbn. rewrite app_nil_r. reflexivity.
  - inversion Hw as [|? ? Hx Hh]; subst. cbn [fold_left].
    destruct (exec_hop_spec hash f0 x Hinv Hx) as [Hinv' _].
    rewrite (IH _ Hinv' Hh Hb), (exec_hop_bucket f0 x b Hinv Hx Hb).
    change (x :: h) with ([x] ++ h). rewrite hist_records_app. unfold bucket_of. rewrite map_app, concat_app, app_assoc. reflexivity.
Qed.

(* ---------- a naive reader, from the format sentence ---------- *)
(* "each record is a newline, the hex SHA-256 of the JSON text (64 characters), a tab, and a one-line JSON object" *)
Definition naive_line (l : bytes) : list smeta :=
  let h := takeN 64 l in
  match dropN 64 l with
  | t :: json =>
      if Byte.eqb t tab && bytes_eqb h (hex_encode (hash Sha256 json)) then
        match parse_smeta json with Some m => [m] | None => [] end
      else []
  | [] => []
  end.
Definition naive_entries (f : bytes) : list smeta := flat_map naive_line (split nl f).

(* "the last record of a key decides; integrity null marks a removal": scan from the end *)
Fixpoint naive_scan (key : bytes) (rs : list smeta) : option meta :=
  match rs with
  | [] => None
  | e :: t => if bytes_eqb (sm_key e) key && parses e then meta_of e else naive_scan key t
  end.
Definition naive_find (key : bytes) (f : bytes) : option meta := naive_scan key (rev (naive_entries f)).

Hypothesis Sha256Len : forall d, lenN (hash Sha256 d) = 32.

Lemma takeN_app_len (a b : bytes) n : lenN a = n -> takeN n (a ++ b) = a.
Proof. intros <-. apply takeN_app_exact. Qed.
Lemma dropN_app_len (a b : bytes) n : lenN a = n -> dropN n (a ++ b) = b.
Proof. intros <-. rewrite dropN_skipn, lenN_of_nat, Nat2N.id, skipn_app, skipn_all, Nat.sub_diag. reflexivity. Qed.

Lemma naive_line_record m : wf_rec hash m -> naive_line (record_line hash (encode_smeta m)) = [m].
Proof.
  intros [_ [_ Hp]]. unfold naive_line, record_line, hash_entry.
  set (hx := hex_encode (hash Sha256 (encode_smeta m))).
  assert (lenN hx = 64) as Hl . { unfold hx. rewrite (lenN_hex_encode hash). rewrite (Sha256Len (encode_smeta m)). reflexivity. }
  rewrite (takeN_app_len hx _ 64 Hl), (dropN_app_len hx _ 64 Hl).
  rewrite byte_eqb_refl. fold hx. rewrite bytes_eqb_refl. cbn [andb]. rewrite Hp. reflexivity.
Qed.

Lemma naive_entries_app f line :
  (forall b, In b line -> Byte.eqb b nl = false) ->
  naive_entries (f ++ nl :: line) = naive_entries f ++ naive_line line.
Proof.
  intros Hnl. unfold naive_entries. rewrite split_app_sep, (split_no_sep nl line Hnl), flat_map_app.
  cbn [flat_map]. rewrite app_nil_r. reflexivity.
Qed.

Theorem naive_entries_bucket_of ms : Forall (wf_rec hash) ms -> naive_entries (bucket_of ms) = ms.
Proof.
  induction ms as [|m ms IH] using rev_ind; intros Hw; [reflexivity|].
  apply Forall_app in Hw as [Hms Hm]. inversion Hm as [|? ? Hm' _]; subst.
  rewrite bucket_of_snoc. unfold record_bytes. rewrite naive_entries_app.
  - rewrite (IH Hms), (naive_line_record m Hm'). reflexivity.
  - destruct Hm' as [Hc _]. exact (proj1 (record_line_facts hash _ Hc)).
Qed.

Lemma rev_filter {A} (p : A -> bool) l : rev (filter p l) = filter p (rev l).
Proof.
  induction l as [|x l IH]; [reflexivity|]. cbn [rev filter]. rewrite filter_app. cbn [filter].
  destruct (p x); cbn [rev]; rewrite IH, ?app_nil_r; reflexivity.
Qed.

Lemma naive_scan_first_match key l :
  naive_scan key l = match first_match bytes meta bytes_eqb key (map view (filter parses l)) with Some o => o | None => None end.
Proof.
  induction l as [|e l IH]; [reflexivity|]. cbn [naive_scan filter]. destruct (parses e) eqn:Ep.
  - cbn [map first_match view fst snd]. rewrite andb_true_r. destruct (bytes_eqb (sm_key e) key); [reflexivity|exact IH].
  - rewrite andb_false_r. exact IH.
Qed.

Lemma naive_scan_find key es : naive_scan key (rev es) = find_in key es.
Proof.
  rewrite find_in_view, (gfind_first_match bytes meta bytes_eqb), <- map_rev, rev_filter.
  apply naive_scan_first_match.
Qed.

(* both directions of C17 in one statement: on every bucket in the format's language — whoever wrote it — the naive
   reader and the library's reader return the same records, hence the same lookups and listings *)
Theorem ref_reader_agrees ms key :
  Forall (wf_rec hash) ms ->
  naive_entries (bucket_of ms) = entries hash (bucket_of ms) /\
  naive_find key (bucket_of ms) = find_bytes hash key (bucket_of ms).
Proof.
  intros Hw. rewrite (naive_entries_bucket_of ms Hw), (proj1 (entries_bucket_of ms Hw)). split; [reflexivity|].
  unfold naive_find, find_bytes. rewrite (naive_entries_bucket_of ms Hw), (proj1 (entries_bucket_of ms Hw)).
  apply naive_scan_find.
Qed.

End F.
