(* FaultP.v — C13: failing filesystem operations.  Three kinds of statements:
   (1) whatever every step answers (its own payload — ANY bytes, ANY listing — or any errno), every API call returns
       Ok or Err, and a read that returns Ok returns bytes carrying the requested digest;
   (2) in every run in which any number of steps fail (leaving the tree as it was, or in an intermediate state of
       the failed step: short write, partial mkdir -p, partial copy), the content invariant is kept;
   (3) a failed index insert leaves every lookup unchanged, or the complete record (error reported late). *)
From CC Require Import Bytes Codec Utf8 Lines Json Sri Record Fs Prog Api Crash
  BytesP CodecP LinesP FsP ProgP SriP RecordP IndexP ReadP WriteP CommitP RemoveP TotalP CrashP CrashIdxP.
From Coq Require Import Lia.
Local Open Scope N_scope.

(* ---------- generic ---------- *)
Lemma exec_shape c f : shape c (fst (exec c f)).
Proof.
  destruct c; unfold exec; cbn [shape].
  - induction (prefixes p) as [|q ps IH] in f |- *; cbn [mkdirs fst]; [exact I|].
    destruct (lookup f (InCache q)) as [[d| |t]|]; cbn [fst]; try exact I; apply IH.
  - destruct (is_dir f tmp_dir); exact I.
  - destruct (lookup f l) as [[d| |t]|]; try exact I. destruct (n =? 0); exact I.
  - destruct (lookup f l) as [[d0| |t]|]; try exact I. destruct (off + lenN d <=? lenN d0); exact I.
  - destruct (lookup f l) as [[d| |t]|]; exact I.
  - destruct (lookup f l) as [[d0| |t]|]; exact I.
  - destruct (lookup f src); [|exact I]. destruct (parent_ok f dst); [|exact I]. destruct (lookup f dst) as [[d| |t]|]; exact I.
  - destruct (lookup f l) as [[d| |t]|]; exact I.
  - destruct (lookup f l) as [[d| |t]|]; try exact I. destruct (parent_ok f l); exact I.
  - destruct (lookup f l) as [[d0| |t]|]; exact I.
  - destruct (resolve f l) as [[d| |t]|]; exact I.
  - exact I.
  - destruct (lookup f src) as [[d| |t]|]; try exact I; (destruct (lookup f dst); [exact I|]); destruct (parent_ok f dst); exact I.
  - destruct (lookup f dst); [exact I|]. destruct (parent_ok f dst); exact I.
  - destruct (resolve f src) as [[d| |t]|]; try exact I. destruct (lookup f dst) as [[d0| |t0]|]; try exact I; destruct (parent_ok f dst); exact I.
  - destruct (resolve f src) as [[d| |t]|]; exact I.
  - destruct (is_dir f p); exact I.
  - destruct (is_dir f p); exact I.
  - destruct (lookup f (InCache p)) as [[d| |t]|]; exact I.
Qed.

(* what holds for all answers holds for every run, faulty or not *)
Theorem fpost_frun {A} (Q : A -> Prop) (p : prog A) f a f' : fpost Q p -> frun p f a f' -> Q a.
Proof.
  intros Hp Hr. induction Hr as [a f|c k f a f'' _ IH|c k f e g a f'' Hf _ _ IH]; cbn [fpost] in Hp.
  - exact Hp.
  - apply IH. apply Hp. apply exec_shape.
  - apply IH. apply Hp. exact Hf.
Qed.
Theorem fpost_run {A} (Q : A -> Prop) (p : prog A) f : fpost Q p -> Q (fst (run p f)).
Proof.
  revert f. induction p as [a|c k IH]; intros f Hp; cbn [run fpost] in *; [exact Hp|].
  pose proof (exec_shape c f) as Hs. destruct (exec c f) as [r f1]. cbn [fst] in Hs. apply IH. apply Hp. exact Hs.
Qed.

Lemma fpost_impl {A} (Q Q' : A -> Prop) (p : prog A) : (forall a, Q a -> Q' a) -> fpost Q p -> fpost Q' p.
Proof. intros H. induction p as [a|c k IH]; cbn [fpost]; [apply H|]. intros Hp r Hr. apply IH. apply Hp. exact Hr. Qed.

Lemma fpost_bind {A B} (Q : A -> Prop) (R : B -> Prop) (p : prog A) (g : A -> prog B) :
  fpost Q p -> (forall a, Q a -> fpost R (g a)) -> fpost R (bind p g).
Proof. induction p as [a|c k IH]; cbn [bind fpost]; [auto|]. intros Hp Hg r Hr. apply IH; [apply Hp; exact Hr|exact Hg]. Qed.

(* results of [res] type: safe, and on Ok the payload satisfies Q *)
Definition okq {A} (Q : A -> Prop) (r : res A) : Prop := match r with Ok a => Q a | Err _ => True | _ => False end.
Definition fsafe {A} (p : prog (res A)) : Prop := fpost (okq (fun _ => True)) p.

Lemma fpost_rbind {A B} (Q : A -> Prop) (R : B -> Prop) (p : prog (res A)) (g : A -> prog (res B)) :
  fpost (okq Q) p -> (forall a, Q a -> fpost (okq R) (g a)) -> fpost (okq R) (rbind p g).
Proof.
  intros Hp Hg. unfold rbind. apply (fpost_bind (okq Q)); [exact Hp|]. intros [a|e| | |] Ha; cbn in Ha |- *; try contradiction; auto.
Qed.

Lemma fsafe_step_ok c : fpost (okq (fun _ : unit => True)) (step_ok c).
Proof. unfold step_ok. cbn [fpost]. intros r _. destruct r; exact I. Qed.

Lemma fsafe_unlink_quiet {A} (Q : A -> Prop) l (r : res A) : okq Q r -> fpost (okq Q) (unlink_quiet l r).
Proof. intros H. unfold unlink_quiet. cbn [fpost]. intros; exact H. Qed.

Section Fa.
Variable hash : algo -> bytes -> bytes.
Hypothesis HL : HashLen hash.

Notation T := (fun _ => True).

(* ---------- (1) totality and read soundness for all answers ---------- *)
Lemma bucket_entries_any b : fpost (okq T) (bucket_entries hash b).
Proof. unfold bucket_entries. cbn [fpost]. intros r Hr. destruct r as [| | | | | |e]; cbn in Hr |- *; try contradiction; try exact I. destruct e; exact I. Qed.

(* a lookup returns only entries whose integrity is addressable, whatever bytes the bucket read returned *)
Theorem find_any key : fpost (okq (fun e => match e with Some m => wf_sri (m_sri m) | None => True end)) (find hash key).
Proof.
  unfold find, rbind, bucket_entries. cbn [bind fpost]. intros r Hr.
  destruct r as [| | | | | |e]; cbn in Hr |- *; try contradiction; try exact I.
  - destruct (find_in key (entries hash d)) as [m|] eqn:E; [exact (find_in_wf _ _ _ E)|exact I].
  - destruct e; cbn; exact I.
Qed.

Theorem insert_any key o now : fsafe (insert hash key o now).
Proof.
  unfold fsafe, insert. repeat (apply (fpost_rbind T); [apply fsafe_step_ok|intros _ _]). exact I.
Qed.

Theorem open_writer_any fl key o : fsafe (open_writer fl key o).
Proof.
  unfold fsafe, open_writer. apply (fpost_rbind T); [apply fsafe_step_ok|intros _ _]. cbn [fpost]. intros r Hr.
  destruct r; cbn in Hr; try contradiction; try exact I.
  destruct (content_size fl key o) as [sz|]; [|exact I]. destruct ((1 <=? sz) && (sz <=? max_mmap)); [|exact I].
  cbn [fpost]. intros r2 _. destruct r2; try exact I. apply fsafe_unlink_quiet. exact I.
Qed.

Theorem write_chunk_any w d : fsafe (write_chunk w d).
Proof.
  unfold fsafe, write_chunk. destruct (w_map w) as [sz|].
  - destruct (w_pos w + lenN d <=? sz); repeat (apply (fpost_rbind T); [apply fsafe_step_ok|intros _ _]); exact I.
  - apply (fpost_rbind T); [apply fsafe_step_ok|intros _ _]. exact I.
Qed.

Theorem close_writer_any w : fsafe (close_writer hash w).
Proof.
  unfold fsafe, close_writer. destruct (wf_sri_cpath _ (wf_sri_computed hash HL (w_algo w) (w_data w))) as [cp ->].
  apply (fpost_bind (okq T)).
  - unfold trim. destruct (w_map w) as [sz|]; [destruct (w_pos w <? sz)|]; try exact I. apply fsafe_step_ok.
  - intros rt _. destruct rt; try (apply fsafe_unlink_quiet; exact I).
    unfold publish. cbn [fpost]. intros r0 _. destruct r0; try (apply fsafe_unlink_quiet; exact I).
    all: cbn [fpost]; intros r _; destruct r; try exact I; cbn [fpost]; intros r2 _;
      destruct r2 as [| |[|]| | | |]; apply fsafe_unlink_quiet; exact I.
Qed.

Theorem commit_any w now : fsafe (commit hash w now).
Proof.
  unfold fsafe, commit. apply (fpost_rbind T); [apply close_writer_any|intros wsri _].
  destruct (match o_sri (w_opts w) with Some d => match sri_matches d wsri with Some _ => Some d | None => None end | None => Some wsri end); [|exact I].
  destruct (match o_size (w_opts w) with Some s => negb (s =? w_written w) | None => false end); destruct (o_size (w_opts w));
    try exact I; destruct (w_key w); try exact I; apply insert_any.
Qed.

Theorem oneshot_any fl key o data now : fsafe (oneshot hash fl key o data now).
Proof.
  unfold fsafe, oneshot. apply (fpost_rbind T); [apply open_writer_any|intros w _].
  destruct data as [|b data]; [apply commit_any|].
  apply (fpost_bind (okq T)); [apply write_chunk_any|]. intros r Hr.
  destruct r; cbn in Hr; try contradiction; [apply commit_any|apply fsafe_unlink_quiet; exact I].
Qed.

Lemma read_file_any l : fpost (okq T) (read_file l).
Proof. unfold read_file. cbn [fpost]. intros r Hr. destruct r; cbn in Hr |- *; try contradiction; exact I. Qed.

(* a read returns Ok only with bytes that carry the requested digest — whatever bytes the file read returned *)
Theorem read_hash_any i : wf_sri i -> fpost (okq (digest_ok hash i)) (read_hash hash i).
Proof.
  intros Hw. unfold read_hash, with_cpath. destruct (wf_sri_cpath i Hw) as [p ->].
  unfold rbind, read_file. cbn [bind fpost]. intros r Hr. destruct r; cbn in Hr |- *; try contradiction; try exact I.
  pose proof (check_res_safe hash i d Hw) as Hs. destruct (check_res hash i d) eqn:E; cbn in Hs |- *; try contradiction; try exact I.
  destruct a. apply (proj1 (check_res_ok hash i d)). exact E.
Qed.

Theorem read_any key :
  fpost (okq (fun d => True)) (read hash key).
Proof.
  unfold read, by_key. apply (fpost_rbind (fun e => match e with Some m => wf_sri (m_sri m) | None => True end)); [apply find_any|].
  intros [m|] Hm; [|exact I]. eapply fpost_impl; [|apply read_hash_any; exact Hm]. intros r Hr. destruct r; cbn in *; auto.
Qed.

Theorem remove_hash_any i : wf_sri i -> fsafe (remove_hash i).
Proof. intros Hw. unfold fsafe, remove_hash, with_cpath. destruct (wf_sri_cpath i Hw) as [p ->]. apply fsafe_step_ok. Qed.

Theorem remove_fully_any key : fsafe (remove_fully hash key).
Proof.
  unfold fsafe, remove_fully. apply (fpost_rbind (fun e => match e with Some m => wf_sri (m_sri m) | None => True end)); [apply find_any|].
  intros e He. apply (fpost_rbind T); [|intros; apply fsafe_step_ok].
  destruct e as [m|]; [|exact I]. unfold with_cpath. destruct (wf_sri_cpath _ He) as [p ->].
  unfold unlink_if_present. cbn [fpost]. intros r _. destruct r as [| | | | | |[]]; exact I.
Qed.

Theorem ls_any : fsafe (ls hash).
Proof.
  unfold fsafe, ls. cbn [fpost]. intros r Hr. destruct r; cbn in Hr |- *; try contradiction; try exact I.
  apply (fpost_bind T); [|intros; exact I].
  induction l as [|b bs IH]; [exact I|]. cbn [ls_buckets]. apply (fpost_bind T); [eapply fpost_impl; [|apply bucket_entries_any]; auto|].
  intros r0 _. apply (fpost_bind T); [exact IH|intros; exact I].
Qed.

(* ---------- (2) the content invariant in faulty runs ---------- *)
Theorem frun_invariant {A} (P : fs -> Prop) (S : sys -> fs -> Prop) :
  (forall c f, P f -> S c f -> P (snd (exec c f)) /\ Forall P (mid_states c f)) ->
  forall (p : prog A) f a f', P f -> fsteps S p f -> frun p f a f' -> P f'.
Proof.
  intros Hstep p f a f' HP Hs Hr. induction Hr as [a f|c k f a f'' _ IH|c k f e g a f'' Hf Hg _ IH]; cbn [fsteps] in Hs.
  - exact HP.
  - destruct Hs as [Hc [Hn _]]. apply IH; [apply (Hstep c f HP Hc)|exact Hn].
  - destruct Hs as [Hc [_ Hfa]]. apply IH; [|apply Hfa; [exact Hf|exact Hg]].
    destruct Hg as [->|Hin]; [exact HP|]. destruct (Hstep c f HP Hc) as [_ Hm]. rewrite Forall_forall in Hm. apply Hm. exact Hin.
Qed.

Lemma all_steps_fsteps {A} (S' : sys -> Prop) (S : sys -> fs -> Prop) (p : prog A) :
  (forall c f, S' c -> S c f) -> all_steps S' p -> forall f, fsteps S p f.
Proof.
  intros HS. induction p as [a|c k IH]; intros H f; cbn [fsteps all_steps] in *; [exact I|].
  destruct H as [Hc Hk]. split; [apply HS; exact Hc|]. split; [apply IH; apply Hk|]. intros _ e g _. apply IH. apply Hk.
Qed.

Lemma fsteps_bind {A B} (S : sys -> fs -> Prop) (p : prog A) (g : A -> prog B) f :
  fsteps S p f -> (forall a f', frun p f a f' -> fsteps S (g a) f') -> fsteps S (bind p g) f.
Proof.
  revert f. induction p as [a|c k IH]; intros f Hp Hg; cbn [bind fsteps] in *.
  - apply Hg. constructor.
  - destruct Hp as [Hc [Hn Hfa]]. split; [exact Hc|]. split.
    + apply IH; [exact Hn|]. intros a f' Hr. apply Hg. apply FStep. exact Hr.
    + intros Hf e g0 Hg0. apply IH; [apply Hfa; [exact Hf|exact Hg0]|]. intros a f' Hr. apply Hg.
      eapply FFault; [exact Hf|exact Hg0|exact Hr].
Qed.

Theorem content_inv_faulty {A} (p : prog A) f a f' :
  ContentInv hash f -> fsteps (csafe hash) p f -> frun p f a f' -> ContentInv hash f'.
Proof. apply frun_invariant. exact (step_content hash). Qed.

Corollary content_inv_faulty_all {A} (p : prog A) f a f' :
  all_steps csafe' p -> ContentInv hash f -> frun p f a f' -> ContentInv hash f'.
Proof. intros Hp Hc. apply content_inv_faulty; [exact Hc|]. apply (all_steps_fsteps csafe'); [apply csafe'_csafe|exact Hp]. Qed.

(* faulty runs of a single fallible step *)
Lemma frun_step_ok c f (a : res unit) f' :
  frun (step_ok c) f a f' ->
  (a = fst (run (step_ok c) f) /\ f' = snd (run (step_ok c) f)) \/ (a = Err EIoErr /\ (f' = f \/ In f' (mid_states c f))).
Proof.
  unfold step_ok. intros H. inversion H as [|c0 k0 f0 a0 f0' Hn|c0 k0 f0 e g a0 f0' Hf Hg Hn]; subst.
  - left. cbn [run]. destruct (exec c f) as [r f1]. cbn [fst snd] in *. destruct r; inversion Hn; subst; auto.
  - right. inversion Hn; subst. auto.
Qed.

Lemma publish_fsteps f w sri :
  wtmp_ok w -> lookup f (w_tmp w) = Some (File (w_data w)) ->
  fsteps (csafe hash) (publish w (cpath hash (w_algo w) (w_data w)) sri) f.
Proof.
  intros Htmp Hl. unfold publish. set (cp := cpath hash (w_algo w) (w_data w)).
  assert (forall (r : res integrity) g, fsteps (csafe hash) (unlink_quiet (w_tmp w) r) g) as Hunl.
  { intros r g. apply (all_steps_fsteps csafe'); [apply csafe'_csafe|apply all_unlink_quiet]. }
  cbn [fsteps]. split; [cbn; intros l0 []|]. split; [|intros _ e g _; apply Hunl].
  assert (lookup (snd (exec (MkdirAll (parent cp)) f)) (w_tmp w) = Some (File (w_data w))) as Hl1.
  { rewrite exec_mkdirall. apply mkdirs_keeps. exact Hl. }
  destruct (exec (MkdirAll (parent cp)) f) as [r0 f1]. cbn [fst snd] in *.
  destruct r0; try apply Hunl.
  all: cbn [fsteps]; split; [cbn [csafe]; intros _ dd Hdd; rewrite Hl1 in Hdd; inversion Hdd; subst dd; exists (w_algo w); reflexivity|].
  all: split;
    [destruct (exec (Rename (w_tmp w) (InCache cp)) f1) as [r f3]; cbn [fst snd]; destruct r; try exact I;
     cbn [fsteps]; split; [cbn; intros l0 []|]; split; [|intros []];
     destruct (exec (Exists (InCache cp)) f3) as [r2 f4]; cbn [fst snd]; destruct r2 as [| |[|]| | | |]; apply Hunl
    |intros _ e g _; cbn [fsteps]; split; [cbn; intros l0 []|]; split; [|intros []];
     destruct (exec (Exists (InCache cp)) g) as [r2 f4]; cbn [fst snd]; destruct r2 as [| |[|]| | | |]; apply Hunl].
Qed.

(* what the trim leaves in the temp file, in any faulty run of it that answers Ok *)
Lemma trim_frun f w rt f2 :
  WInv f w -> frun (trim w) f rt f2 -> match rt with Ok _ => lookup f2 (w_tmp w) = Some (File (w_data w)) | _ => True end.
Proof.
  intros [[n Hn] [Hwr [d [Hl Hm]]]] Hr. unfold trim in Hr. destruct (w_map w) as [sz|].
  - destruct Hm as [Hlen [Hpos [Htake Hle]]]. destruct (w_pos w <? sz) eqn:Elt.
    + apply frun_step_ok in Hr as [[-> ->]|[-> _]]; [|exact I].
      unfold step_ok. cbn [run]. rewrite (exec_truncate f _ d _ Hl). cbn [run fst snd]. rewrite lookup_update_eq, Htake. reflexivity.
    + inversion Hr; subst. apply N.ltb_ge in Elt. assert (w_pos w = lenN d) as Epos by lia.
      rewrite Epos, takeN_all in Htake. rewrite Hl, Htake. reflexivity.
  - inversion Hr; subst. exact Hl.
Qed.

Lemma close_writer_fsteps f w : WInv f w -> fsteps (csafe hash) (close_writer hash w) f.
Proof.
  intros Hw. pose proof (WInv_wtmp f w Hw) as Htmp.
  unfold close_writer. rewrite (content_path_computed hash _ _ HL).
  assert (forall (r : res integrity) g, fsteps (csafe hash) (unlink_quiet (w_tmp w) r) g) as Hunl.
  { intros r g. apply (all_steps_fsteps csafe'); [apply csafe'_csafe|apply all_unlink_quiet]. }
  apply fsteps_bind.
  - apply (all_steps_fsteps csafe'); [apply csafe'_csafe|apply trim_all; exact Htmp].
  - intros rt f2 Hr. pose proof (trim_frun f w rt f2 Hw Hr) as Hafter.
    destruct rt; try apply Hunl. apply publish_fsteps; assumption.
Qed.

(* a commit in which any steps fail never puts a file that does not match its address under content-v2 *)
Theorem commit_faulty_content f w now r f' :
  WInv f w -> ContentInv hash f -> frun (commit hash w now) f r f' -> ContentInv hash f'.
Proof.
  intros Hw Hc. apply content_inv_faulty; [exact Hc|]. unfold commit, rbind. apply fsteps_bind; [apply close_writer_fsteps; exact Hw|].
  intros a f1 _. destruct a; try exact I.
  destruct (match o_sri (w_opts w) with Some d => match sri_matches d a with Some _ => Some d | None => None end | None => Some a end); [|exact I].
  destruct (match o_size (w_opts w) with Some s => negb (s =? w_written w) | None => false end); destruct (o_size (w_opts w));
    try exact I; destruct (w_key w); try exact I; apply (all_steps_fsteps csafe'); try apply csafe'_csafe; apply insert_all.
Qed.

(* ---------- (3) a failed index insert ---------- *)
(* in a straight-line program the first failing step ends the run: the final state of a faulty run is the final state
   of the fault-free run, or (with an error answer) one of its crash states *)
Lemma frun_seq {V} cs (v : V) f r f' :
  frun (seq_prog cs v) f r f' ->
  (r = fst (run (seq_prog cs v) f) /\ f' = snd (run (seq_prog cs v) f)) \/
  (r = Err EIoErr /\ In f' (crash_states (seq_prog cs v) f)).
Proof.
  revert f. induction cs as [|c cs IH]; intros f H.
  - cbn [seq_prog fold_right] in H. inversion H; subst. left. split; reflexivity.
  - rewrite run_seq_cons. cbn [seq_prog fold_right] in H |- *. unfold rbind, step_ok in H |- *. cbn [bind] in H |- *.
    cbn [crash_states].
    inversion H as [|c0 k0 f0 a0 f0' Hn|c0 k0 f0 e g a0 f0' Hf Hg Hn]; subst.
    + destruct (exec c f) as [r0 f1]. cbn [fst snd] in *.
      destruct r0; cbn [is_err bind] in Hn |- *;
        try (destruct (IH f1 Hn) as [[-> ->]|[-> Hin]]; [left; split; reflexivity|right; split; [reflexivity|right; apply in_or_app; right; exact Hin]]).
      inversion Hn; subst. left. split; reflexivity.
    + cbn [bind] in Hn. inversion Hn; subst. right. split; [reflexivity|].
      destruct Hg as [->|Hin]; [left; reflexivity|right; apply in_or_app; left; exact Hin].
Qed.

Theorem insert_faulty f key o now r f' :
  IndexInv f -> wf_rec hash (smeta_of key o now) -> PrefixFree hash (encode_smeta (smeta_of key o now)) ->
  frun (insert hash key o now) f r f' ->
  (SameIdx hash f f' \/ f' = snd (run (insert hash key o now) f)) /\
  (forall i, r = Ok i -> f' = snd (run (insert hash key o now) f)).
Proof.
  intros Hinv Hwf Hpf Hr. pose proof (insert_crash_atomic hash f key o now Hinv Hwf Hpf) as Hall.
  rewrite insert_is_seq in *. apply frun_seq in Hr as [[-> ->]|[-> Hin]].
  - split; [right; reflexivity|intros; reflexivity].
  - rewrite Forall_forall in Hall. split; [exact (Hall f' Hin)|intros i Hi; discriminate].
Qed.

End Fa.

(* ---------- (4) truthful success of a write under faults ---------- *)
Section Fw.
Variable hash : algo -> bytes -> bytes.
Hypothesis HL : HashLen hash.

(* faulty runs of bind: a faulty run of the first program, then a faulty run of the continuation *)
Lemma frun_bind {A B} (p : prog A) (g : A -> prog B) f b f'' :
  frun (bind p g) f b f'' -> exists a f', frun p f a f' /\ frun (g a) f' b f''.
Proof.
  revert f. induction p as [a|c k IH]; intros f H; cbn [bind] in H.
  - exists a, f. split; [constructor|exact H].
  - inversion H as [|c0 k0 f0 a0 f0' Hn|c0 k0 f0 e g0 a0 f0' Hf Hg Hn]; subst.
    + destruct (IH _ _ Hn) as [a [f' [H1 H2]]]. exists a, f'. split; [apply FStep; exact H1|exact H2].
    + destruct (IH _ _ Hn) as [a [f' [H1 H2]]]. exists a, f'. split; [eapply FFault; eassumption|exact H2].
Qed.

Lemma frun_ret {A} (a b : A) f f' : frun (Ret a) f b f' -> b = a /\ f' = f.
Proof. intros H. inversion H; subst. auto. Qed.

Lemma frun_do_inv {A} c (k : ret -> prog A) f a f' :
  frun (Do c k) f a f' ->
  frun (k (fst (exec c f))) (snd (exec c f)) a f' \/
  (faultable c /\ exists e g, (g = f \/ In g (mid_states c f)) /\ frun (k (RErr e)) g a f').
Proof.
  intros H. inversion H as [|c0 k0 f0 a0 f0' Hn|c0 k0 f0 e g0 a0 f0' Hf Hg Hn]; subst; [left; exact Hn|right].
  split; [exact Hf|]. exists e, g0. split; assumption.
Qed.

Lemma frun_unlink_quiet {A} l (r r' : res A) f f' : frun (unlink_quiet l r) f r' f' -> r' = r.
Proof.
  unfold unlink_quiet. intros H. inversion H as [|c0 k0 f0 a0 f0' Hn|c0 k0 f0 e g0 a0 f0' Hf Hg Hn]; subst;
    apply frun_ret in Hn; tauto.
Qed.

Lemma frun_unlink_quiet_state {A} l (r r' : res A) f f' :
  frun (unlink_quiet l r) f r' f' -> r' = r /\ (f' = f \/ f' = remove f l).
Proof.
  unfold unlink_quiet. intros H. inversion H as [|c0 k0 f0 a0 f0' Hn|c0 k0 f0 e g0 a0 f0' Hf Hg Hn]; subst.
  - apply frun_ret in Hn as [-> ->]. split; [reflexivity|]. unfold exec. destruct (lookup f l) as [[d| |t]|]; cbn [snd]; auto.
  - apply frun_ret in Hn as [-> ->]. split; [reflexivity|]. destruct Hg as [->|[]]. left. reflexivity.
Qed.

Lemma resolve_remove_other f t l : (forall n, t <> Ext n) -> t <> l -> resolve (remove f t) l = resolve f l.
Proof.
  intros Hext Hne. unfold resolve. rewrite lookup_remove_neq by congruence.
  destruct (lookup f l) as [[d| |[n|tx]]|]; try reflexivity. rewrite lookup_remove_neq by (apply Hext). reflexivity.
Qed.

(* the "destination exists after a failed rename" branch *)
Lemma exists_branch g cp n sri0 sri f' :
  frun (Do (Exists (InCache cp)) (fun r2 => match r2 with
          | RBool true => unlink_quiet (InCache [bs "tmp"; n]) (Ok sri0)
          | _ => unlink_quiet (InCache [bs "tmp"; n]) (@Err integrity EIoErr) end)) g (Ok sri) f' ->
  InCache [bs "tmp"; n] <> InCache cp ->
  sri = sri0 /\ resolve f' (InCache cp) <> None.
Proof.
  intros H Hne. inversion H as [|c0 k0 f0 a0 f0' Hn|c0 k0 f0 e g0 a0 f0' Hf Hg Hn]; subst; [|destruct Hf].
  unfold exec in Hn. cbn [fst snd] in Hn. destruct (resolve g (InCache cp)) as [nd|] eqn:Er.
  - apply frun_unlink_quiet_state in Hn as [E [->| ->]]; inversion E; (split; [reflexivity|]).
    + rewrite Er. discriminate.
    + rewrite resolve_remove_other; [rewrite Er; discriminate|intros m; discriminate|exact Hne].
  - apply frun_unlink_quiet in Hn. discriminate.
Qed.

(* closing under faults: an Ok answer means the content path holds a file — the writer's own bytes (published by the rename),
   or something that was already there (the rename failed and [exists] said yes) *)
Lemma publish_faulty_ok f w sri f' :
  (exists n, w_tmp w = InCache [bs "tmp"; n]) -> lookup f (w_tmp w) = Some (File (w_data w)) ->
  frun (publish w (cpath hash (w_algo w) (w_data w)) (sri_of hash (w_algo w) (w_data w))) f (Ok sri) f' ->
  sri = sri_of hash (w_algo w) (w_data w) /\
  (lookup f' (InCache (cpath hash (w_algo w) (w_data w))) = Some (File (w_data w)) \/
   resolve f' (InCache (cpath hash (w_algo w) (w_data w))) <> None).
Proof.
  intros [n Hn] Hl Hr. unfold publish in Hr. set (cp := cpath hash (w_algo w) (w_data w)) in *.
  assert (InCache [bs "tmp"; n] <> InCache cp) as Htc by (apply tmp_not_content).
  apply frun_do_inv in Hr as [Hn1|[_ [e [g0 [_ Hn1]]]]].
  2: { apply frun_unlink_quiet in Hn1. discriminate. }
  assert (lookup (snd (exec (MkdirAll (parent cp)) f)) (w_tmp w) = Some (File (w_data w))) as Hl1.
  { rewrite exec_mkdirall. apply mkdirs_keeps. exact Hl. }
  destruct (exec (MkdirAll (parent cp)) f) as [r0 f1]. cbn [fst snd] in *.
  assert (frun (Do (Rename (w_tmp w) (InCache cp)) (fun r => match r with
                        | RErr _ => Do (Exists (InCache cp)) (fun r2 => match r2 with
                              | RBool true => unlink_quiet (w_tmp w) (Ok (sri_of hash (w_algo w) (w_data w)))
                              | _ => unlink_quiet (w_tmp w) (Err EIoErr) end)
                        | _ => Ret (Ok (sri_of hash (w_algo w) (w_data w))) end)) f1 (Ok sri) f' ->
          sri = sri_of hash (w_algo w) (w_data w) /\
          (lookup f' (InCache cp) = Some (File (w_data w)) \/ resolve f' (InCache cp) <> None)) as Hren.
  { intros Hc. rewrite Hn in *.
    inversion Hc as [|c1 k1 f3 a1 f3' Hn2|c1 k1 f3 e1 g1 a1 f3' Hf2 Hg2 Hn2]; subst.
    - remember (exec (Rename (InCache [bs "tmp"; n]) (InCache cp)) f1) as ex eqn:Eex. destruct ex as [r f3].
      cbn [fst snd] in Hn2. unfold exec in Eex. rewrite Hl1 in Eex.
      assert ((r = ROk /\ f3 = update (remove f1 (InCache [bs "tmp"; n])) (InCache cp) (File (w_data w))) \/
              (exists e, r = RErr e /\ f3 = f1)) as [[-> ->]|[e [-> ->]]].
      { destruct (parent_ok f1 (InCache cp)); [destruct (lookup f1 (InCache cp)) as [[d0| |t0]|]|]; inversion Eex; subst; eauto. }
      + apply frun_ret in Hn2 as [E1 ->]. inversion E1. split; [reflexivity|]. left. apply lookup_update_eq.
      + destruct (exists_branch _ _ _ _ _ _ Hn2 Htc) as [E1 E2]. split; [exact E1|right; exact E2].
    - destruct Hg2 as [->|[]]. destruct (exists_branch _ _ _ _ _ _ Hn2 Htc) as [E1 E2]. split; [exact E1|right; exact E2]. }
  destruct r0; try (apply Hren; exact Hn1).
  apply frun_unlink_quiet in Hn1. discriminate.
Qed.

(* closing under faults: an Ok answer means the content path holds a file — the writer's own bytes (published by the rename),
   or something that was already there (the rename failed and [exists] said yes) *)
Theorem close_writer_faulty_ok f w sri f' :
  WInv f w ->
  frun (close_writer hash w) f (Ok sri) f' ->
  sri = sri_of hash (w_algo w) (w_data w) /\
  (lookup f' (InCache (cpath hash (w_algo w) (w_data w))) = Some (File (w_data w)) \/
   resolve f' (InCache (cpath hash (w_algo w) (w_data w))) <> None).
Proof.
  intros Hw Hr. pose proof Hw as [Hn _].
  unfold close_writer in Hr. rewrite (content_path_computed hash _ _ HL) in Hr.
  apply frun_bind in Hr as [rt [f2 [Ht Hc]]]. pose proof (trim_frun f w rt f2 Hw Ht) as Hafter.
  destruct rt; try (apply frun_unlink_quiet in Hc; discriminate).
  exact (publish_faulty_ok f2 w sri f' Hn Hafter Hc).
Qed.

(* the whole commit: Ok means the close published (or found) the content, and for a keyed writer the index insert answered Ok
   from that state — [insert_faulty] then says the tree is that of the complete insert *)
Theorem commit_faulty_ok f w now i f' :
  WInv f w ->
  frun (commit hash w now) f (Ok i) f' ->
  exists f1,
    frun (close_writer hash w) f (Ok (sri_of hash (w_algo w) (w_data w))) f1 /\
    (lookup f1 (InCache (cpath hash (w_algo w) (w_data w))) = Some (File (w_data w)) \/
     resolve f1 (InCache (cpath hash (w_algo w) (w_data w))) <> None) /\
    match w_key w with
    | None => f' = f1 /\ i = sri_of hash (w_algo w) (w_data w)
    | Some key => exists o', frun (insert hash key o' now) f1 (Ok i) f'
    end.
Proof.
  intros Hw Hr. unfold commit, rbind in Hr. apply frun_bind in Hr as [a [f1 [Hc Hrest]]].
  destruct a as [wsri|e| | |]; try (apply frun_ret in Hrest as [E _]; discriminate).
  destruct (close_writer_faulty_ok f w wsri f1 Hw Hc) as [-> Hcont].
  exists f1. split; [exact Hc|]. split; [exact Hcont|].
  destruct (match o_sri (w_opts w) with
            | Some d => match sri_matches d (sri_of hash (w_algo w) (w_data w)) with Some _ => Some d | None => None end
            | None => Some (sri_of hash (w_algo w) (w_data w)) end) as [final|];
    [|apply frun_ret in Hrest as [E _]; discriminate].
  destruct (match o_size (w_opts w) with Some s => negb (s =? w_written w) | None => false end); destruct (o_size (w_opts w)) as [s|];
    try (apply frun_ret in Hrest as [E _]; discriminate);
    (destruct (w_key w) as [key|]; [eexists; exact Hrest|apply frun_ret in Hrest as [E ->]; inversion E; auto]).
Qed.

End Fw.
