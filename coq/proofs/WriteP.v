(* WriteP.v — the content writer: invariant of an open writer, chunk writes, close (publication by rename). *)
From CC Require Import Bytes Codec Utf8 Lines Json Sri Record Fs Prog Api BytesP CodecP FsP ProgP SriP.
From Coq Require Import Lia.
Local Open Scope N_scope.

Section W.
Variable hash : algo -> bytes -> bytes.

(* the only property of the digests the layout needs: at least two bytes (real ones have 16..64) *)
Definition HashLen : Prop := forall a d, 2 <= lenN (hash a d).

Definition hexdigest (a : algo) (d : bytes) : bytes := hex_encode (hash a d).
Definition cpath (a : algo) (d : bytes) : path :=
  let h := hexdigest a d in [content_dir; algo_name a; takeN 2 h; takeN 2 (dropN 2 h); dropN 4 h].

Lemma lenN_hex_encode l : lenN (hex_encode l) = 2 * lenN l.
Proof. induction l as [|x l IH]; [reflexivity|]. unfold hex_encode in *. cbn [flat_map hex_byte app lenN]. rewrite IH. cbn [lenN]. lia. Qed.

Lemma content_path_computed a d : HashLen -> content_path (sri_of hash a d) = Some (cpath a d).
Proof.
  intros HL. unfold content_path, sri_of, sri_to_hex. cbn [h_digest h_algo].
  rewrite b64_decode_encode. specialize (HL a d).
  assert (lenN (hex_encode (hash a d)) <? 4 = false) as -> by (apply N.ltb_ge; rewrite lenN_hex_encode; lia).
  reflexivity.
Qed.

Lemma parse_entry_computed a d : HashLen -> parse_entry_sri (sri_text (sri_of hash a d)) = Some (sri_of hash a d).
Proof.
  intros HL. unfold parse_entry_sri. rewrite (parse_sri_computed hash a d).
  unfold addressable, sri_of, sri_to_hex. cbn [h_digest h_algo]. rewrite b64_decode_encode.
  specialize (HL a d). assert (4 <=? lenN (hex_encode (hash a d)) = true) as -> by (apply N.leb_le; rewrite lenN_hex_encode; lia).
  reflexivity.
Qed.

(* ---------- fresh temp names ---------- *)
Lemma tmp_names_lookup f n nd : lookup f (InCache [bs "tmp"; n]) = Some nd -> In n (tmp_names f).
Proof.
  induction f as [|[l x] f IH]; unfold lookup; cbn [tmp_names]; [discriminate|]. fold (lookup f).
  destruct (loc_eqb l (InCache [bs "tmp"; n])) eqn:E.
  - apply loc_eqb_eq in E. subst l. intros _. rewrite bytes_eqb_refl. left. reflexivity.
  - intros H. specialize (IH H).
    destruct l as [[|t [|m [|? ?]]]|?]; try exact IH. destruct (bytes_eqb t (bs "tmp")); [right|]; exact IH.
Qed.

Lemma in_concat_length (n : bytes) (ns : list bytes) : In n ns -> (List.length n <= List.length (List.concat ns))%nat.
Proof.
  induction ns as [|m ns IH]; [intros []|]. intros [->|H]; cbn [List.concat]; rewrite app_length; [lia|].
  specialize (IH H). lia.
Qed.

Lemma fresh_absent f : lookup f (InCache (tmp_dir ++ [fresh f])) = None.
Proof.
  destruct (lookup f (InCache (tmp_dir ++ [fresh f]))) as [nd|] eqn:E; [|reflexivity]. exfalso.
  apply tmp_names_lookup in E. apply in_concat_length in E. unfold fresh in E. cbn [List.length] in E. lia.
Qed.

(* ---------- writer invariant ---------- *)
Definition WInv (f : fs) (w : wstate) : Prop :=
  (exists n, w_tmp w = InCache [bs "tmp"; n]) /\
  w_written w = lenN (w_data w) /\
  exists d, lookup f (w_tmp w) = Some (File d) /\
    match w_map w with
    | Some sz => lenN d = sz /\ w_pos w = lenN (w_data w) /\ takeN (w_pos w) d = w_data w /\ w_pos w <= sz
    | None => d = w_data w
    end.

Definition same_writer (w w' : wstate) : Prop :=
  w_key w' = w_key w /\ w_opts w' = w_opts w /\ w_algo w' = w_algo w /\ w_tmp w' = w_tmp w.

(* store_at facts *)
Lemma store_at_len d off s : off + lenN s <= lenN d -> lenN (store_at d off s) = lenN d.
Proof.
  intros H. unfold store_at. rewrite !lenN_app, lenN_dropN, lenN_takeN by lia. lia.
Qed.

Lemma store_at_take d off s : off <= lenN d ->
  takeN (off + lenN s) (store_at d off s) = takeN off d ++ s.
Proof.
  intros H. unfold store_at. rewrite app_assoc.
  replace (off + lenN s) with (lenN (takeN off d ++ s)) by (rewrite lenN_app, lenN_takeN by lia; reflexivity).
  apply takeN_app_exact.
Qed.

Lemma exec_mmapstore f l d off s : lookup f l = Some (File d) -> off + lenN s <= lenN d ->
  exec (MmapStore l off s) f = (ROk, update f l (File (store_at d off s))).
Proof. intros H1 H2. unfold exec. rewrite H1. apply N.leb_le in H2. rewrite H2. reflexivity. Qed.

Lemma exec_truncate f l d n : lookup f l = Some (File d) -> exec (Truncate l n) f = (ROk, update f l (File (takeN n d))).
Proof. intros H1. unfold exec. rewrite H1. reflexivity. Qed.

Lemma exec_writeappend f l d s : lookup f l = Some (File d) ->
  exec (WriteAppend l s) f = (RNum (lenN s), update f l (File (d ++ s))).
Proof. intros H1. unfold exec. rewrite H1. reflexivity. Qed.

Theorem write_chunk_ok f w s :
  WInv f w ->
  exists w' f', run (write_chunk w s) f = (Ok w', f') /\ WInv f' w' /\ same_writer w w' /\
    w_data w' = w_data w ++ s /\ (forall l, l <> w_tmp w -> lookup f' l = lookup f l).
Proof.
  intros [Hn [Hwr [d [Hl Hm]]]]. unfold write_chunk.
  destruct (w_map w) as [sz|] eqn:Emap.
  - destruct Hm as [Hlen [Hpos [Htake Hle]]].
    destruct (w_pos w + lenN s <=? sz) eqn:Efit.
    + apply N.leb_le in Efit.
      erewrite run_rbind_ok; [|apply (run_step_ok _ _ ROk); [apply (exec_mmapstore _ _ d); [exact Hl|lia]|exact I]].
      cbn [run]. eexists _, _. split; [reflexivity|]. split; [|split; [repeat split|split; [reflexivity|]]].
      * split; [exact Hn|]. cbn [w_tmp w_written w_data w_map w_pos]. split; [rewrite lenN_app; lia|].
        exists (store_at d (w_pos w) s). split; [apply lookup_update_eq|].
        split; [rewrite store_at_len; lia|]. split; [rewrite lenN_app; lia|].
        split; [rewrite store_at_take by lia; rewrite Htake; reflexivity|lia].
      * intros l Hne. apply lookup_update_neq. congruence.
    + apply N.leb_gt in Efit.
      erewrite run_rbind_ok; [|apply (run_step_ok _ _ ROk); [apply (exec_truncate _ _ d); exact Hl|exact I]].
      erewrite run_rbind_ok; [|apply (run_step_ok _ _ (RNum (lenN s))); [apply (exec_writeappend _ _ (takeN (w_pos w) d)); apply lookup_update_eq|exact I]].
      cbn [run]. eexists _, _. split; [reflexivity|]. split; [|split; [repeat split|split; [reflexivity|]]].
      * split; [exact Hn|]. cbn [w_tmp w_written w_data w_map w_pos]. split; [rewrite lenN_app; lia|].
        exists (w_data w ++ s). split; [rewrite lookup_update_eq, Htake; reflexivity|reflexivity].
      * intros l Hne. rewrite !lookup_update_neq by congruence. reflexivity.
  - subst d.
    erewrite run_rbind_ok; [|apply (run_step_ok _ _ (RNum (lenN s))); [apply (exec_writeappend _ _ (w_data w)); exact Hl|exact I]].
    cbn [run]. eexists _, _. split; [reflexivity|]. split; [|split; [repeat split|split; [reflexivity|]]].
    + split; [exact Hn|]. cbn [w_tmp w_written w_data w_map w_pos]. split; [rewrite lenN_app; lia|].
      exists (w_data w ++ s). split; [apply lookup_update_eq|reflexivity].
    + intros l Hne. apply lookup_update_neq. congruence.
Qed.

Theorem write_chunks_ok f w cs :
  WInv f w ->
  exists w' f', run (write_chunks w cs) f = (Ok w', f') /\ WInv f' w' /\ same_writer w w' /\
    w_data w' = w_data w ++ List.concat cs /\ (forall l, l <> w_tmp w -> lookup f' l = lookup f l).
Proof.
  revert f w. induction cs as [|c cs IH]; intros f w Hw; cbn [write_chunks].
  - exists w, f. cbn [run List.concat]. rewrite app_nil_r. split; [reflexivity|]. split; [exact Hw|].
    split; [repeat split|]. split; [reflexivity|]. intros; reflexivity.
  - destruct (write_chunk_ok f w c Hw) as [w1 [f1 [Hr [Hw1 [Hs1 [Hd1 Ho1]]]]]].
    erewrite run_rbind_ok by exact Hr.
    destruct (IH f1 w1 Hw1) as [w2 [f2 [Hr2 [Hw2 [Hs2 [Hd2 Ho2]]]]]].
    exists w2, f2. split; [exact Hr2|]. split; [exact Hw2|].
    destruct Hs1 as (A1 & A2 & A3 & A4), Hs2 as (B1 & B2 & B3 & B4).
    split; [repeat split; congruence|]. split; [rewrite Hd2, Hd1; cbn [List.concat]; rewrite app_assoc; reflexivity|].
    intros l Hne. rewrite Ho2 by congruence. apply Ho1. exact Hne.
Qed.

(* ---------- opening a writer ---------- *)
Definition TmpShape (f : fs) : Prop := dir_or_absent f tmp_dir.

Lemma lenN_zeros n : lenN (zeros n) = n.
Proof.
  unfold zeros. induction n as [|n IH] using N.peano_ind; [reflexivity|].
  rewrite N.iter_succ. cbn [lenN]. rewrite IH. reflexivity.
Qed.

Lemma takeN_0 {A} (l : list A) : takeN 0 l = [].
Proof. destruct l; reflexivity. Qed.

Lemma is_dir_of_lookup f p : lookup f (InCache p) = Some Dir -> is_dir f p = true.
Proof. intros H. unfold is_dir. destruct p; [reflexivity|]. rewrite H. reflexivity. Qed.

Lemma exec_createtmp f : is_dir f tmp_dir = true ->
  exec CreateTmp f = (RName (fresh f), update f (InCache (tmp_dir ++ [fresh f])) (File [])).
Proof. intros H. unfold exec. rewrite H. reflexivity. Qed.

Lemma exec_fallocate f l n : lookup f l = Some (File []) -> n <> 0 ->
  exec (Fallocate l n) f = (ROk, update f l (File (zeros n))).
Proof.
  intros H Hn. unfold exec. rewrite H. apply N.eqb_neq in Hn. rewrite Hn. cbn [app lenN]. rewrite N.sub_0_r. reflexivity.
Qed.

Theorem open_writer_ok f fl key o :
  TmpShape f ->
  exists w f', run (open_writer fl key o) f = (Ok w, f') /\ WInv f' w /\
    w_data w = [] /\ w_key w = key /\ w_opts w = o /\
    w_algo w = match o_algo o with Some a => a | None => Sha256 end /\
    lookup f (w_tmp w) = None /\ lookup f' (InCache tmp_dir) = Some Dir /\
    (forall l, l <> w_tmp w -> l <> InCache tmp_dir -> lookup f' l = lookup f l).
Proof.
  intros Ht. unfold open_writer.
  destruct (mkdirs_ok f (prefixes tmp_dir)) as [f1 [Hmk [Hdirs [Hother _]]]].
  { intros p [<-|[]]. exact Ht. }
  erewrite run_rbind_ok; [|apply (run_step_ok _ _ ROk f1); [exact Hmk|exact I]].
  assert (lookup f1 (InCache tmp_dir) = Some Dir) as Hd by (apply Hdirs; left; reflexivity).
  cbn [run]. rewrite (exec_createtmp f1 (is_dir_of_lookup _ _ Hd)).
  set (n := fresh f1). set (t := InCache (tmp_dir ++ [n])).
  assert (lookup f1 t = None) as Hfresh by apply fresh_absent.
  assert (lookup f t = None) as Hfresh0.
  { rewrite <- Hfresh. symmetry. apply Hother. intros p [<-|[]]. discriminate. }
  assert (forall l, l <> t -> l <> InCache tmp_dir -> lookup (update f1 t (File [])) l = lookup f l) as Hfr.
  { intros l H1 H2. rewrite lookup_update_neq by congruence. apply Hother. intros p [<-|[]]. exact H2. }
  assert (lookup (update f1 t (File [])) (InCache tmp_dir) = Some Dir) as Hd2.
  { rewrite lookup_update_neq by discriminate. exact Hd. }
  set (a := match o_algo o with Some a => a | None => Sha256 end).
  assert (exists w f', run (Ret (Ok (mkW key o a t None 0 0 []))) (update f1 t (File [])) = (Ok w, f') /\ WInv f' w /\
            w_data w = [] /\ w_key w = key /\ w_opts w = o /\ w_algo w = a /\ lookup f (w_tmp w) = None /\
            lookup f' (InCache tmp_dir) = Some Dir /\
            (forall l, l <> w_tmp w -> l <> InCache tmp_dir -> lookup f' l = lookup f l)) as Hplain.
  { eexists _, _. split; [reflexivity|]. split.
    - split; [exists n; reflexivity|]. split; [reflexivity|]. exists []. split; [apply lookup_update_eq|reflexivity].
    - cbn [w_data w_key w_opts w_algo w_tmp]. repeat split; auto. }
  destruct (content_size fl key o) as [sz|]; [|exact Hplain].
  destruct ((1 <=? sz) && (sz <=? max_mmap)) eqn:Erange; [|exact Hplain].
  apply andb_true_iff in Erange as [E1 _]. apply N.leb_le in E1.
  cbn [run]. rewrite (exec_fallocate _ t sz) by (try apply lookup_update_eq; lia). cbn [run].
  eexists _, _. split; [reflexivity|]. split.
  - split; [exists n; reflexivity|]. split; [reflexivity|]. exists (zeros sz).
    cbn [w_tmp w_map w_pos w_data]. split; [apply lookup_update_eq|].
    split; [apply lenN_zeros|]. split; [reflexivity|]. split; [apply takeN_0|lia].
  - cbn [w_data w_key w_opts w_algo w_tmp]. repeat split; auto.
    + rewrite lookup_update_neq by discriminate. exact Hd2.
    + intros l H1 H2. rewrite lookup_update_neq by congruence. apply Hfr; assumption.
Qed.

(* ---------- dropping a writer ---------- *)
Theorem drop_writer_ok f w :
  WInv f w ->
  exists f', run (drop_writer w) f = (Ok tt, f') /\ lookup f' (w_tmp w) = None /\
    (forall l, l <> w_tmp w -> lookup f' l = lookup f l).
Proof.
  intros [_ [_ [d [Hl _]]]]. unfold drop_writer, unlink_quiet. cbn [run]. unfold exec. rewrite Hl.
  eexists. split; [reflexivity|]. split; [apply lookup_remove_eq|]. intros l Hne. apply lookup_remove_neq. congruence.
Qed.

(* ---------- closing: publication by rename ---------- *)
Definition ContentShape (f : fs) : Prop :=
  forall p n, lookup f (InCache (content_dir :: p)) = Some n ->
    ((List.length p <= 3)%nat -> n = Dir) /\ (List.length p = 4%nat -> n <> Dir).

Lemma cpath_prefixes a d :
  prefixes (parent (cpath a d)) =
  let h := hexdigest a d in
  [[content_dir]; [content_dir; algo_name a]; [content_dir; algo_name a; takeN 2 h];
   [content_dir; algo_name a; takeN 2 h; takeN 2 (dropN 2 h)]].
Proof. reflexivity. Qed.

Lemma tmp_not_content n p : InCache [bs "tmp"; n] <> InCache (content_dir :: p).
Proof. intros H. inversion H as [[H1 H2]]; try (vm_compute in H1; discriminate). Qed.

Lemma exec_rename f src dst n : lookup f src = Some n -> parent_ok f dst = true -> lookup f dst <> Some Dir ->
  exec (Rename src dst) f = (ROk, update (remove f src) dst n).
Proof.
  intros H1 H2 H3. unfold exec. rewrite H1, H2. destruct (lookup f dst) as [[| |]|]; try reflexivity. congruence.
Qed.

(* the temp file after the trim holds exactly the hashed bytes *)
Lemma trim_ok f w :
  WInv f w ->
  exists ft, run (trim w) f = (Ok tt, ft) /\ lookup ft (w_tmp w) = Some (File (w_data w)) /\
             (forall l, l <> w_tmp w -> lookup ft l = lookup f l).
Proof.
  intros [[n Hn] [Hwr [d [Hl Hm]]]]. unfold trim.
  destruct (w_map w) as [sz|].
  - destruct Hm as [Hlen [Hpos [Htake Hle]]]. destruct (w_pos w <? sz) eqn:Elt.
    + exists (update f (w_tmp w) (File (takeN (w_pos w) d))).
      split; [apply (run_step_ok _ _ ROk); [apply exec_truncate; exact Hl|exact I]|].
      split; [rewrite lookup_update_eq, Htake; reflexivity|]. intros l Hne. apply lookup_update_neq. congruence.
    + apply N.ltb_ge in Elt. exists f. split; [reflexivity|]. split; [|reflexivity].
      assert (w_pos w = lenN d) as Epos by lia. rewrite Epos, takeN_all in Htake. rewrite Hl, Htake. reflexivity.
  - subst d. exists f. split; [reflexivity|]. split; [exact Hl|reflexivity].
Qed.

Lemma publish_ok f w :
  (exists n, w_tmp w = InCache [bs "tmp"; n]) -> lookup f (w_tmp w) = Some (File (w_data w)) -> ContentShape f ->
  let cp := InCache (cpath (w_algo w) (w_data w)) in
  exists f', run (publish w (cpath (w_algo w) (w_data w)) (sri_of hash (w_algo w) (w_data w))) f = (Ok (sri_of hash (w_algo w) (w_data w)), f') /\
    lookup f' cp = Some (File (w_data w)) /\ lookup f' (w_tmp w) = None /\ ContentShape f' /\
    (forall l, l <> cp -> l <> w_tmp w ->
       lookup f' l = lookup f l \/
       (lookup f l = None /\ lookup f' l = Some Dir /\ exists p, l = InCache (content_dir :: p) /\ (List.length p <= 3)%nat)).
Proof.
  intros [n Hn] Hl Hcs cp. unfold publish.
  set (a := w_algo w) in *. set (data := w_data w) in *.
  set (h := hexdigest a data).
  (* MkdirAll *)
  destruct (mkdirs_ok f (prefixes (parent (cpath a data)))) as [f1 [Hmk [Hdirs [Hother Hany]]]].
  { rewrite cpath_prefixes. cbv zeta. fold h. intros p Hp. unfold dir_or_absent.
    destruct (lookup f (InCache p)) as [nd|] eqn:El; [|left; reflexivity]. right. f_equal.
    destruct Hp as [<-|[<-|[<-|[<-|[]]]]].
    - apply (Hcs [] nd El). simpl. lia.
    - apply (Hcs [_] nd El). simpl. lia.
    - apply (Hcs [_; _] nd El). simpl. lia.
    - apply (Hcs [_; _; _] nd El). simpl. lia. }
  cbn [run]. rewrite exec_mkdirall, Hmk.
  assert (forall l, (exists m, l = InCache [bs "tmp"; m]) -> lookup f1 l = lookup f l) as Htmp1.
  { intros l [m ->]. apply Hother. rewrite cpath_prefixes. cbv zeta. intros p [<-|[<-|[<-|[<-|[]]]]]; apply tmp_not_content. }
  assert (lookup f1 cp = lookup f cp) as Hcp1.
  { apply Hother. rewrite cpath_prefixes. cbv zeta. intros p [<-|[<-|[<-|[<-|[]]]]]; discriminate. }
  assert (lookup f1 (InCache (parent (cpath a data))) = Some Dir) as Hpar.
  { apply Hdirs. rewrite cpath_prefixes. cbv zeta. right. right. right. left. reflexivity. }
  assert (lookup f1 (w_tmp w) = Some (File data)) as Hl2 by (rewrite Htmp1 by (exists n; exact Hn); exact Hl).
  (* Rename *)
  assert (cp <> w_tmp w) as Hne by (rewrite Hn; intro E; symmetry in E; revert E; apply tmp_not_content).
  assert (exec (Rename (w_tmp w) cp) f1 = (ROk, update (remove f1 (w_tmp w)) cp (File data))) as Hren.
  { apply exec_rename; [exact Hl2| |].
    - unfold parent_ok, cp. apply is_dir_of_lookup. exact Hpar.
    - rewrite Hcp1. intros Ecp. apply (proj2 (Hcs _ _ Ecp) eq_refl). reflexivity. }
  cbn [run]. fold cp. rewrite Hren. cbn [run].
  exists (update (remove f1 (w_tmp w)) cp (File data)).
  split; [reflexivity|]. split; [apply lookup_update_eq|]. split; [rewrite lookup_update_neq by exact Hne; apply lookup_remove_eq|].
  assert (forall l, l <> cp -> l <> w_tmp w -> lookup (update (remove f1 (w_tmp w)) cp (File data)) l = lookup f1 l) as Hfin.
  { intros l H1 H2. rewrite lookup_update_neq by congruence. rewrite lookup_remove_neq by congruence. reflexivity. }
  split.
  - (* ContentShape preserved *)
    intros p nd Hnd. destruct (loc_eq_dec (InCache (content_dir :: p)) cp) as [E|N].
    + rewrite E, lookup_update_eq in Hnd. inversion Hnd; subst nd. unfold cp, cpath in E. inversion E; subst p.
      split; [cbn; lia|discriminate].
    + rewrite Hfin in Hnd by (try exact N; rewrite Hn; intro E; symmetry in E; revert E; apply tmp_not_content).
      destruct (Hany (InCache (content_dir :: p))) as [H|H]; rewrite H in Hnd.
      * apply (Hcs p nd Hnd).
      * inversion Hnd; subst nd. split; [reflexivity|]. intros Hlen.
        (* mkdirs creates nothing at depth 4 *)
        exfalso. assert (lookup f1 (InCache (content_dir :: p)) = lookup f (InCache (content_dir :: p))) as Eq.
        { apply Hother. rewrite cpath_prefixes. cbv zeta.
          intros q [<-|[<-|[<-|[<-|[]]]]] Eq; inversion Eq; subst p; cbn in Hlen; lia. }
        rewrite H in Eq. symmetry in Eq. apply (proj2 (Hcs _ _ Eq) Hlen). reflexivity.
  - intros l H1 H2. rewrite Hfin by assumption.
    destruct (Hany l) as [H|H]; [left; exact H|].
    destruct (lookup f l) as [n0|] eqn:E0.
    + left. rewrite H.
      (* a node that already existed where mkdirs wants a directory is that directory *)
      destruct (in_dec loc_eq_dec l (map InCache (prefixes (parent (cpath a data))))) as [Hin|Hnin].
      * rewrite cpath_prefixes in Hin. cbv zeta in Hin.
        destruct Hin as [<-|[<-|[<-|[<-|[]]]]].
        -- rewrite (proj1 (Hcs [] n0 E0)) by (cbn; lia). reflexivity.
        -- rewrite (proj1 (Hcs [_] n0 E0)) by (cbn; lia). reflexivity.
        -- rewrite (proj1 (Hcs [_; _] n0 E0)) by (cbn; lia). reflexivity.
        -- rewrite (proj1 (Hcs [_; _; _] n0 E0)) by (cbn; lia). reflexivity.
      * rewrite <- H, <- E0. apply Hother. intros q Hq E. apply Hnin. subst l. apply in_map. exact Hq.
    + right. split; [reflexivity|]. split; [exact H|].
      destruct (in_dec loc_eq_dec l (map InCache (prefixes (parent (cpath a data))))) as [Hin|Hnin].
      * rewrite cpath_prefixes in Hin. cbv zeta in Hin.
        destruct Hin as [<-|[<-|[<-|[<-|[]]]]]; eexists; (split; [reflexivity|cbn; lia]).
      * exfalso. assert (lookup f1 l = lookup f l) as Eq.
        { apply Hother. intros q Hq E. apply Hnin. subst l. apply in_map. exact Hq. }
        congruence.
Qed.

Theorem close_writer_ok f w :
  HashLen -> WInv f w -> ContentShape f ->
  let cp := InCache (cpath (w_algo w) (w_data w)) in
  exists f', run (close_writer hash w) f = (Ok (sri_of hash (w_algo w) (w_data w)), f') /\
    lookup f' cp = Some (File (w_data w)) /\ lookup f' (w_tmp w) = None /\ ContentShape f' /\
    (forall l, l <> cp -> l <> w_tmp w ->
       lookup f' l = lookup f l \/
       (lookup f l = None /\ lookup f' l = Some Dir /\ exists p, l = InCache (content_dir :: p) /\ (List.length p <= 3)%nat)).
Proof.
  intros HL Hw Hcs cp. pose proof Hw as [[n Hn] _].
  destruct (trim_ok f w Hw) as [ft [Htr [Hlt Hot]]].
  assert (ContentShape ft) as Hcst.
  { intros p nd Hnd. rewrite Hot in Hnd by (rewrite Hn; intro E; symmetry in E; revert E; apply tmp_not_content). exact (Hcs p nd Hnd). }
  destruct (publish_ok ft w (ex_intro _ n Hn) Hlt Hcst) as [f' [Hr [H1 [H2 [H3 H4]]]]].
  exists f'. unfold close_writer. rewrite (content_path_computed _ _ HL). rewrite run_bind, Htr. cbn [fst snd].
  split; [exact Hr|]. split; [exact H1|]. split; [exact H2|]. split; [exact H3|].
  intros l Hl1 Hl2. rewrite <- (Hot l Hl2). apply H4; assumption.
Qed.

End W.
