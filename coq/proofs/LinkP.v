(* LinkP.v — C19: link_to.  The content path becomes a symlink to the caller's file; reads go through the link and are
   verified like any other read; no step ever touches a location outside the cache; declared size / integrity are
   enforced by the same decision rule as a write's commit. *)
From CC Require Import Bytes Codec Utf8 Lines Json Sri Record Fs Prog Api Crash
  BytesP CodecP FsP ProgP SriP RecordP IndexP ReadP WriteP CommitP RemoveP CrashP CrashIdxP ConfineP.
From Coq Require Import Lia.
Local Open Scope N_scope.

Section L.
Variable hash : algo -> bytes -> bytes.
Hypothesis HL : HashLen hash.

(* ---------- the target is never written: every step, for every answer, stays inside the cache ---------- *)
Theorem open_linker_readonly plain key o target : all_steps readonly (open_linker plain key o target).
Proof. unfold open_linker. apply all_steps_rbind; [apply read_file_ro|intros; exact I]. Qed.

Theorem commit_linker_confined l now : all_steps (confined None) (commit_linker hash l now).
Proof.
  unfold commit_linker. destruct (content_path (sri_of hash (l_algo l) (l_seen l ++ l_rest l))) as [cp|]; [|exact I].
  set (rest := match (match o_sri (l_opts l) with Some d => match sri_matches d _ with Some _ => Some d | None => None end | None => Some _ end) with
               | None => Ret (Err EIntegrity) | Some final => _ end).
  assert (all_steps (confined None) rest) as Hrest.
  { subst rest. destruct (match o_sri (l_opts l) with Some d => match sri_matches d _ with Some _ => Some d | None => None end | None => Some _ end); [|exact I].
    destruct (match o_size (l_opts l) with Some s => negb (s =? lenN (l_seen l ++ l_rest l)) | None => false end); destruct (o_size (l_opts l));
      try exact I; destruct (l_key l); try exact I; apply insert_confined. }
  apply all_steps_rbind.
  - apply all_steps_step_ok. intros lx Hx. cbn [may_touch] in Hx. apply in_map_iff in Hx as [q [<- _]]. left. eexists. reflexivity.
  - intros _. cbn [all_steps]. split; [intros lx ->; left; eexists; reflexivity|].
    intros r. destruct r; try exact Hrest. cbn [all_steps]. split; [intros lx []|]. intros r2. destruct r2 as [| |[|]| | | |]; try exact I. exact Hrest.
Qed.

(* hence: whatever the tree and the arguments, linking leaves every file of the caller exactly as it was *)
Theorem link_never_writes_target f l now n :
  lookup (snd (run (commit_linker hash l now) f)) (Ext n) = lookup f (Ext n).
Proof.
  destruct (untouched_crash (fun x => exists m, x = Ext m) (commit_linker hash l now) f) as [_ H].
  - apply (all_steps_ok (confined None)); [|apply commit_linker_confined].
    intros c g Hc lx Ht [m ->]. destruct (Hc _ Ht) as [[p E]|E]; discriminate.
  - apply H. eexists. reflexivity.
Qed.

(* ---------- publication: the content path becomes a symlink (no copy) ---------- *)
Definition link_rest (l : lstate) (now : N) : prog (res integrity) :=
  let data := l_seen l ++ l_rest l in
  let lsri := sri_of hash (l_algo l) data in
  let o := l_opts l in
  match declared_ok o lsri with
  | None => Ret (Err EIntegrity)
  | Some final =>
      match o_size o with
      | Some s => if N.eqb s (lenN data) then
                    match l_key l with
                    | Some key => insert hash key (commit_opts o final (lenN data)) now
                    | None => Ret (Ok lsri) end
                  else Ret (Err (ESizeMismatch s (lenN data)))
      | None => match l_key l with
                | Some key => insert hash key (commit_opts o final (lenN data)) now
                | None => Ret (Ok lsri) end
      end
  end.

Lemma commit_linker_run f l now :
  ContentShape f ->
  let data := l_seen l ++ l_rest l in
  let cp := InCache (cpath hash (l_algo l) data) in
  lookup f cp = None ->
  exists f1,
    run (commit_linker hash l now) f = run (link_rest l now) f1 /\
    lookup f1 cp = Some (Symlink (LAbs (l_target l))) /\
    (forall x, ~ is_content x -> lookup f1 x = lookup f x) /\
    ContentShape f1.
Proof.
  intros Hcs data cp Hnone. unfold commit_linker. fold data. rewrite (content_path_computed hash _ _ HL).
  destruct (mkdirs_ok f (prefixes (parent (cpath hash (l_algo l) data)))) as [f1 [Hmk [Hdirs [Hother Hany]]]].
  { rewrite cpath_prefixes. cbv zeta. intros p Hp. unfold dir_or_absent.
    destruct (lookup f (InCache p)) as [nd|] eqn:El; [|left; reflexivity]. right. f_equal.
    destruct Hp as [<-|[<-|[<-|[<-|[]]]]].
    - apply (Hcs [] nd El). simpl. lia.
    - apply (Hcs [_] nd El). simpl. lia.
    - apply (Hcs [_; _] nd El). simpl. lia.
    - apply (Hcs [_; _; _] nd El). simpl. lia. }
  assert (lookup f1 cp = None) as Hcp1.
  { rewrite <- Hnone. apply Hother. rewrite cpath_prefixes. cbv zeta. intros p [<-|[<-|[<-|[<-|[]]]]]; discriminate. }
  assert (lookup f1 (InCache (parent (cpath hash (l_algo l) data))) = Some Dir) as Hpar.
  { apply Hdirs. rewrite cpath_prefixes. cbv zeta. right. right. right. left. reflexivity. }
  exists (update f1 cp (Symlink (LAbs (l_target l)))).
  split; [|split; [apply lookup_update_eq|split]].
  - unfold rbind. rewrite run_bind. unfold step_ok. cbn [run]. rewrite exec_mkdirall, Hmk. cbn [run].
    fold cp.
    assert (exec (SymlinkTo (LAbs (l_target l)) cp) f1 = (ROk, update f1 cp (Symlink (LAbs (l_target l))))) as ->.
    { unfold exec. rewrite Hcp1. unfold parent_ok, cp. rewrite (is_dir_of_lookup _ _ Hpar). reflexivity. }
    unfold link_rest, declared_ok, commit_opts. fold data.
    destruct (o_sri (l_opts l)) as [d0|]; [destruct (sri_matches d0 _)|]; try reflexivity;
      destruct (o_size (l_opts l)) as [s|]; try reflexivity; destruct (N.eqb s (lenN data)); reflexivity.
  - intros x Hx. rewrite lookup_update_neq by (intros <-; apply Hx; eexists; reflexivity).
    apply Hother. rewrite cpath_prefixes. cbv zeta. intros p [<-|[<-|[<-|[<-|[]]]]] E; apply Hx; rewrite E; eexists; reflexivity.
  - intros p nd Hnd. rewrite lookup_update in Hnd. destruct (loc_eqb cp (InCache (content_dir :: p))) eqn:E.
    + apply loc_eqb_eq in E. unfold cp, cpath in E. inversion E; subst p. inversion Hnd; subst nd. split; [cbn; lia|discriminate].
    + destruct (Hany (InCache (content_dir :: p))) as [H|H]; rewrite H in Hnd; [apply (Hcs p nd Hnd)|].
      inversion Hnd; subst nd. split; [reflexivity|]. intros Hlen. exfalso.
      assert (lookup f1 (InCache (content_dir :: p)) = lookup f (InCache (content_dir :: p))) as Eq.
      { apply Hother. rewrite cpath_prefixes. cbv zeta. intros q [<-|[<-|[<-|[<-|[]]]]] Eq; inversion Eq; subst p; cbn in Hlen; lia. }
      rewrite H in Eq. symmetry in Eq. apply (proj2 (Hcs _ _ Eq) Hlen). reflexivity.
Qed.

(* ---------- link, then read back by key and by address ---------- *)
Theorem link_read_back f key target d now :
  CacheInv f -> lookup f (Ext target) = Some (File d) ->
  lookup f (InCache (cpath hash Sha256 d)) = None ->
  let o' := commit_opts (mkWopts None None (Some (lenN d)) None None None) (sri_of hash Sha256 d) (lenN d) in
  wf_rec hash (smeta_of key o' now) ->
  let f' := snd (run (link_to hash (Some key) target now) f) in
  fst (run (link_to hash (Some key) target now) f) = Ok (sri_of hash Sha256 d) /\
  run (read hash key) f' = (Ok d, f') /\
  run (read_hash hash (sri_of hash Sha256 d)) f' = (Ok d, f') /\
  lookup f' (InCache (cpath hash Sha256 d)) = Some (Symlink (LAbs target)) /\
  lookup f' (Ext target) = Some (File d) /\
  abs_idx hash f' key = new_entry key o' now /\
  (forall k, k <> key -> abs_idx hash f' k = abs_idx hash f k).
Proof.
  intros [Hi [Hc Ht]] Htgt Hnone o' Hwf f'.
  assert (run (open_linker true (Some key) wopts0 target) f
          = (Ok (mkL (Some key) (mkWopts None None (Some (lenN d)) None None None) Sha256 target d []), f)) as Hopen.
  { unfold open_linker, rbind. rewrite run_bind. unfold read_file. cbn [run]. unfold exec, resolve. rewrite Htgt. reflexivity. }
  set (l := mkL (Some key) (mkWopts None None (Some (lenN d)) None None None) Sha256 target d []).
  destruct (commit_linker_run f l now Hc) as [f1 [Hrun [Hcp [Hfr Hc1]]]]; [cbn [l_seen l_rest l_algo l app]; exact Hnone|].
  cbn [l_seen l_rest l_algo l app] in Hrun, Hcp.
  assert (run (link_to hash (Some key) target now) f = run (insert hash key o' now) f1) as Hlink.
  { unfold link_to, rbind. rewrite run_bind, Hopen. fold l. rewrite Hrun.
    unfold link_rest, declared_ok. cbn [l_opts l o_sri o_size l_seen l_rest l_key l_algo app]. rewrite N.eqb_refl. reflexivity. }
  assert (IndexInv f1) as Hi1.
  { apply (IndexInv_frame f); [exact Hi|]. intros x Hx. apply Hfr. intro. eapply index_not_content; eauto. }
  assert (wf_sri_opt o') as Hso.
  { intros i Ei. unfold o', commit_opts in Ei. cbn [o_sri] in Ei. inversion Ei; subst i. apply parse_entry_computed. exact HL. }
  destruct (insert_abs hash f1 key o' now Hi1 Hwf Hso) as [Hi2 [Hres [Habs Hfr2]]].
  subst f'. rewrite Hlink.
  set (f2 := snd (run (insert hash key o' now) f1)) in *.
  assert (forall x, ~ is_index x -> lookup f2 x = lookup f1 x) as Hfr2'.
  { intros x Hx. apply Hfr2. intros p E. apply Hx. exists p. exact E. }
  assert (lookup f2 (InCache (cpath hash Sha256 d)) = Some (Symlink (LAbs target))) as Hcp2.
  { rewrite Hfr2' by (intro; eapply index_not_content; [eassumption|eexists; reflexivity]). exact Hcp. }
  assert (lookup f2 (Ext target) = Some (File d)) as Htgt2.
  { rewrite Hfr2' by (intros [p E]; discriminate). rewrite Hfr by (intros [p E]; discriminate). exact Htgt. }
  assert (run (read_hash hash (sri_of hash Sha256 d)) f2 = (Ok d, f2)) as Hrh.
  { unfold read_hash, with_cpath. rewrite (content_path_computed hash _ _ HL). unfold rbind. rewrite run_bind.
    unfold read_file. cbn [run]. unfold exec, resolve. rewrite Hcp2, Htgt2. cbn [run].
    unfold check_res. rewrite sri_check_self. reflexivity. }
  split; [rewrite Hres; reflexivity|].
  assert (abs_idx hash f2 key = new_entry key o' now) as Hk by (rewrite Habs, bytes_eqb_refl; reflexivity).
  split.
  - rewrite (read_by_key hash f2 key (mkMeta key (sri_of hash Sha256 d) now (lenN d) JNull None) Hi2); [exact Hrh|].
    rewrite Hk. reflexivity.
  - split; [exact Hrh|]. split; [exact Hcp2|]. split; [exact Htgt2|]. split; [exact Hk|].
    intros k Hne. rewrite Habs. apply bytes_eqb_neq in Hne. rewrite Hne.
    apply abs_idx_frame. intros x Hx. apply Hfr. intro. eapply index_not_content; eauto.
Qed.

(* ---------- the target changes after linking: errors, never other bytes (instance of C01 on the arbitrary tree) ---------- *)
Theorem link_target_changed f i out :
  fst (run (read_hash hash i) f) = Ok out -> digest_ok hash i out.
Proof. intros H. exact (proj1 (proj2 (read_hash_sound hash f i) out H)). Qed.

Theorem link_target_removed f a d target :
  lookup f (InCache (cpath hash a d)) = Some (Symlink (LAbs target)) -> lookup f (Ext target) = None ->
  fst (run (read_hash hash (sri_of hash a d)) f) = Err EIoErr.
Proof.
  intros Hcp Hn. unfold read_hash, with_cpath. rewrite (content_path_computed hash _ _ HL). unfold rbind. rewrite run_bind.
  unfold read_file. cbn [run]. unfold exec, resolve. rewrite Hcp, Hn. reflexivity.
Qed.

(* ---------- declared options are enforced as for writes; a rejected link maps nothing ---------- *)
Theorem link_rejected f l now :
  ContentShape f -> IndexInv f ->
  lookup f (InCache (cpath hash (l_algo l) (l_seen l ++ l_rest l))) = None ->
  let data := l_seen l ++ l_rest l in
  (declared_ok (l_opts l) (sri_of hash (l_algo l) data) = None ->
     fst (run (commit_linker hash l now) f) = Err EIntegrity /\
     forall k, abs_idx hash (snd (run (commit_linker hash l now) f)) k = abs_idx hash f k) /\
  (forall final s, declared_ok (l_opts l) (sri_of hash (l_algo l) data) = Some final -> o_size (l_opts l) = Some s -> s <> lenN data ->
     fst (run (commit_linker hash l now) f) = Err (ESizeMismatch s (lenN data)) /\
     forall k, abs_idx hash (snd (run (commit_linker hash l now) f)) k = abs_idx hash f k).
Proof.
  intros Hc Hi Hnone data. destruct (commit_linker_run f l now Hc Hnone) as [f1 [Hrun [_ [Hfr _]]]].
  assert (forall k, abs_idx hash f1 k = abs_idx hash f k) as Habs.
  { apply abs_idx_frame. intros x Hx. apply Hfr. intro. eapply index_not_content; eauto. }
  split.
  - intros Hd. rewrite Hrun. unfold link_rest. fold data. rewrite Hd. cbn [run fst snd]. split; [reflexivity|exact Habs].
  - intros final s Hd Hs Hne. rewrite Hrun. unfold link_rest. fold data. rewrite Hd, Hs.
    apply N.eqb_neq in Hne. rewrite Hne. cbn [run fst snd]. split; [reflexivity|exact Habs].
Qed.

End L.
