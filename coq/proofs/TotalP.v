(* TotalP.v — no public call panics, hangs or gets stuck: from EVERY tree (any damage), for every argument with
   well-formed integrity values, every API program returns Ok or Err.  The model makes the panic sites of the code
   explicit (ssri to_hex / path slicing in [content_path], the empty-integrity index panic in [check]); this file
   shows none of them is reachable. *)
From CC Require Import Bytes Codec Utf8 Lines Json Sri Record Fs Prog Api Sess
  BytesP CodecP FsP ProgP SriP RecordP IndexP ReadP WriteP.
From Coq Require Import Lia.
Local Open Scope N_scope.

Definition safe {A} (r : res A) : Prop := match r with Ok _ | Err _ => True | _ => False end.
Definition psafe {A} (p : prog (res A)) : Prop := forall f, safe (fst (run p f)).

Lemma psafe_ret_ok {A} (a : A) : psafe (Ret (Ok a)).
Proof. intros f. exact I. Qed.
Lemma psafe_ret_err {A} e : psafe (Ret (@Err A e)).
Proof. intros f. exact I. Qed.

Lemma psafe_rbind {A B} (p : prog (res A)) (g : A -> prog (res B)) :
  psafe p -> (forall a, psafe (g a)) -> psafe (rbind p g).
Proof.
  intros Hp Hg f. unfold rbind. rewrite run_bind. specialize (Hp f). destruct (run p f) as [r f1]. cbn [fst] in Hp.
  destruct r; try contradiction; [apply Hg|exact I].
Qed.

Lemma psafe_step_ok c : psafe (step_ok c).
Proof. intros f. unfold step_ok. cbn [run]. destruct (exec c f) as [r f1]. destruct r; exact I. Qed.

Lemma psafe_bind_any {A B} (p : prog A) (g : A -> prog (res B)) : (forall a, psafe (g a)) -> psafe (bind p g).
Proof. intros Hg f. rewrite run_bind. destruct (run p f) as [a f1]. apply Hg. Qed.

Lemma psafe_unlink_quiet {A} l (r : res A) : safe r -> psafe (unlink_quiet l r).
Proof. intros H f. unfold unlink_quiet. cbn [run]. destruct (exec (Unlink l) f). exact H. Qed.

(* shapes of the answers of [exec] *)
Lemma exec_readfile_shape l f : (exists d, fst (exec (ReadFile l) f) = RBytes d) \/ (exists e, fst (exec (ReadFile l) f) = RErr e).
Proof. unfold exec. destruct (resolve f l) as [[d| |t]|]; cbn [fst]; solve [left; eexists; reflexivity | right; eexists; reflexivity]. Qed.
Lemma exec_exists_shape l f : exists b, fst (exec (Exists l) f) = RBool b.
Proof. unfold exec. cbn [fst]. eexists; reflexivity. Qed.
Lemma exec_createtmp_shape f : (exists n, fst (exec CreateTmp f) = RName n) \/ (exists e, fst (exec CreateTmp f) = RErr e).
Proof. unfold exec. destruct (is_dir f tmp_dir); cbn [fst]; solve [left; eexists; reflexivity | right; eexists; reflexivity]. Qed.
Lemma exec_walk_shape p f : (exists l, fst (exec (WalkFiles p) f) = RLocs l) \/ (exists e, fst (exec (WalkFiles p) f) = RErr e).
Proof. unfold exec. destruct (is_dir f p); cbn [fst]; solve [left; eexists; reflexivity | right; eexists; reflexivity]. Qed.
Lemma exec_readdir_shape p f : (exists l, fst (exec (ReadDir p) f) = RLocs l) \/ (exists e, fst (exec (ReadDir p) f) = RErr e).
Proof. unfold exec. destruct (is_dir f p); cbn [fst]; solve [left; eexists; reflexivity | right; eexists; reflexivity]. Qed.

Section T.
Variable hash : algo -> bytes -> bytes.
Hypothesis HL : HashLen hash.

(* well-formed integrity argument: what the property assumes of caller-supplied values *)
Definition wf_sri (i : integrity) : Prop := addressable i = true.

Lemma wf_sri_cpath i : wf_sri i -> exists p, content_path i = Some p.
Proof.
  unfold wf_sri, addressable, content_path. destruct (sri_to_hex i) as [[a h]|]; [|discriminate].
  intros H. apply N.leb_le in H. assert (lenN h <? 4 = false) as -> by (apply N.ltb_ge; exact H). eauto.
Qed.
Lemma wf_sri_pick i : wf_sri i -> exists a, pick_algorithm i = Some a.
Proof. unfold wf_sri, addressable, sri_to_hex. destruct i as [|h t]; [discriminate|]. cbn. eauto. Qed.

Lemma wf_sri_computed a d : wf_sri (sri_of hash a d).
Proof.
  unfold wf_sri, addressable, sri_of, sri_to_hex. cbn [h_digest h_algo]. rewrite b64_decode_encode.
  apply N.leb_le. rewrite (lenN_hex_encode hash). specialize (HL a d). lia.
Qed.

(* entries handed out by a lookup carry an addressable integrity *)
Lemma find_in_wf key es m : find_in key es = Some m -> wf_sri (m_sri m).
Proof.
  unfold find_in. assert (forall acc, (forall m0, acc = Some m0 -> wf_sri (m_sri m0)) ->
            fold_left (find_step key) es acc = Some m -> wf_sri (m_sri m)) as H.
  { induction es as [|e es IH]; intros acc Hacc; cbn [fold_left]; [apply Hacc|].
    apply IH. intros m0. unfold find_step. destruct (bytes_eqb (sm_key e) key); [|apply Hacc].
    destruct (sm_integrity e) as [t|]; [|discriminate].
    unfold parse_entry_sri. destruct (parse_sri t) as [i|]; [|apply Hacc].
    destruct (addressable i) eqn:Ea; [|apply Hacc]. intros H0. inversion H0; subst. exact Ea. }
  apply H. intros m0 H0. discriminate.
Qed.

Lemma psafe_with_cpath {A} i (k : loc -> prog (res A)) : wf_sri i -> (forall l, psafe (k l)) -> psafe (with_cpath i k).
Proof. intros Hw Hk. unfold with_cpath. destruct (wf_sri_cpath i Hw) as [p ->]. apply Hk. Qed.

Lemma psafe_bucket_entries b : psafe (bucket_entries hash b).
Proof.
  intros f. unfold bucket_entries. cbn [run]. destruct (exec_readfile_shape b f) as [[d H]|[e H]];
    destruct (exec (ReadFile b) f) as [r f1]; cbn [fst] in H; subst r; [exact I|destruct e; exact I].
Qed.

Theorem find_total key : psafe (find hash key).
Proof. unfold find. apply psafe_rbind; [apply psafe_bucket_entries|intros; apply psafe_ret_ok]. Qed.

Lemma find_result_wf key f m : fst (run (find hash key) f) = Ok (Some m) -> wf_sri (m_sri m).
Proof.
  unfold find, rbind. rewrite run_bind. destruct (run (bucket_entries hash (InCache (bucket_path hash key))) f) as [r f1].
  destruct r; cbn [run fst]; try discriminate. intros H. inversion H as [H1]. exact (find_in_wf _ _ _ H1).
Qed.

Theorem insert_total key o now : psafe (insert hash key o now).
Proof. unfold insert. repeat (apply psafe_rbind; [apply psafe_step_ok|intros _]). apply psafe_ret_ok. Qed.

Theorem delete_total key now : psafe (delete hash key now).
Proof. unfold delete. apply psafe_rbind; [apply insert_total|intros; apply psafe_ret_ok]. Qed.

Theorem open_writer_total fl key o : psafe (open_writer fl key o).
Proof.
  unfold open_writer. apply psafe_rbind; [apply psafe_step_ok|intros _]. intros f. cbn [run].
  destruct (exec_createtmp_shape f) as [[n H]|[e H]]; destruct (exec CreateTmp f) as [r f1]; cbn [fst] in H; subst r; [|exact I].
  destruct (content_size fl key o) as [sz|]; [|exact I].
  destruct ((1 <=? sz) && (sz <=? max_mmap)); [|exact I]. cbn [run].
  destruct (exec (Fallocate (InCache (tmp_dir ++ [n])) sz) f1) as [r2 f2].
  destruct r2; try exact I. apply psafe_unlink_quiet. exact I.
Qed.

Theorem write_chunk_total w d : psafe (write_chunk w d).
Proof.
  unfold write_chunk. destruct (w_map w) as [sz|].
  - destruct (w_pos w + lenN d <=? sz); repeat (apply psafe_rbind; [apply psafe_step_ok|intros _]); apply psafe_ret_ok.
  - apply psafe_rbind; [apply psafe_step_ok|intros _]. apply psafe_ret_ok.
Qed.

Theorem drop_writer_total w : psafe (drop_writer w).
Proof. apply psafe_unlink_quiet. exact I. Qed.

Theorem publish_total w cp sri : psafe (publish w cp sri).
Proof.
  intros f. unfold publish. cbn [run]. destruct (exec (MkdirAll (parent cp)) f) as [r0 f0].
  assert (forall f2, safe (fst (run (Do (Rename (w_tmp w) (InCache cp)) (fun r => match r with
                  | RErr _ => Do (Exists (InCache cp)) (fun r2 => match r2 with
                        | RBool true => unlink_quiet (w_tmp w) (Ok sri)
                        | _ => unlink_quiet (w_tmp w) (Err EIoErr) end)
                  | _ => Ret (Ok sri) end)) f2))) as Hrest.
  { intros f2. cbn [run]. destruct (exec (Rename (w_tmp w) (InCache cp)) f2) as [r f3].
    destruct r; try exact I. cbn [run]. destruct (exec (Exists (InCache cp)) f3) as [r2 f4].
    destruct r2 as [| |[|]| | | |]; apply psafe_unlink_quiet; exact I. }
  destruct r0; try apply Hrest. apply psafe_unlink_quiet. exact I.
Qed.

Theorem close_writer_total w : psafe (close_writer hash w).
Proof.
  unfold close_writer. destruct (wf_sri_cpath _ (wf_sri_computed (w_algo w) (w_data w))) as [cp ->].
  intros f. rewrite run_bind. destruct (run (trim w) f) as [rt f2]. cbn [fst snd].
  destruct rt; try (apply psafe_unlink_quiet; exact I). apply publish_total.
Qed.

Theorem commit_total w now : psafe (commit hash w now).
Proof.
  unfold commit. apply psafe_rbind; [apply close_writer_total|intros wsri].
  destruct (match o_sri (w_opts w) with Some d => match sri_matches d wsri with Some _ => Some d | None => None end | None => Some wsri end);
    [|apply psafe_ret_err].
  destruct (match o_size (w_opts w) with Some s => negb (s =? w_written w) | None => false end); destruct (o_size (w_opts w));
    try apply psafe_ret_err; destruct (w_key w); try apply insert_total; apply psafe_ret_ok.
Qed.

Lemma psafe_lift_err {A B} (r : res A) : safe r -> (forall a, r <> Ok a) -> safe (@lift_err A B r).
Proof. destruct r; cbn; auto. intros _ H. exact (H a eq_refl). Qed.

Theorem oneshot_total fl key o data now : psafe (oneshot hash fl key o data now).
Proof.
  unfold oneshot. apply psafe_rbind; [apply open_writer_total|intros w].
  destruct data as [|b data]; [apply commit_total|].
  intros f. rewrite run_bind. pose proof (write_chunk_total w (b :: data) f) as H.
  destruct (run (write_chunk w (b :: data)) f) as [r f1]. cbn [fst] in H.
  destruct r; try contradiction; [apply commit_total|apply psafe_unlink_quiet; exact I].
Qed.

Theorem write_total fl a key data now : psafe (write hash fl a key data now).
Proof. apply oneshot_total. Qed.
Theorem write_hash_total fl a data : psafe (write_hash hash fl a data).
Proof. apply oneshot_total. Qed.

(* ---------- reads ---------- *)
Lemma psafe_read_file l : psafe (read_file l).
Proof.
  intros f. unfold read_file. cbn [run]. destruct (exec_readfile_shape l f) as [[d H]|[e H]];
    destruct (exec (ReadFile l) f) as [r f1]; cbn [fst] in H; subst r; exact I.
Qed.

Lemma check_res_safe i d : wf_sri i -> safe (check_res hash i d).
Proof.
  intros Hw. unfold check_res, sri_check. destruct (wf_sri_pick i Hw) as [a ->].
  destruct (existsb _ _); exact I.
Qed.

Theorem read_hash_total i : wf_sri i -> psafe (read_hash hash i).
Proof.
  intros Hw. unfold read_hash. apply psafe_with_cpath; [exact Hw|intros cp].
  apply psafe_rbind; [apply psafe_read_file|intros d]. pose proof (check_res_safe i d Hw) as H.
  destruct (check_res hash i d); try contradiction; intros f; exact I.
Qed.

Lemma psafe_by_key {A} key (k : integrity -> prog (res A)) :
  (forall i, wf_sri i -> psafe (k i)) -> psafe (by_key hash key k).
Proof.
  intros Hk f. unfold by_key, rbind. rewrite run_bind.
  pose proof (find_total key f) as Hs. pose proof (find_result_wf key f) as Hwf.
  destruct (run (find hash key) f) as [r f1]. cbn [fst] in Hs, Hwf.
  destruct r as [[m|]|e| | |]; try contradiction; try exact I.
  apply Hk. apply Hwf. reflexivity.
Qed.

Theorem read_total key : psafe (read hash key).
Proof. apply psafe_by_key. intros i Hi. apply read_hash_total. exact Hi. Qed.

Theorem ropen_hash_total i : wf_sri i -> psafe (ropen_hash i).
Proof.
  intros Hw. unfold ropen_hash. apply psafe_with_cpath; [exact Hw|intros cp].
  apply psafe_rbind; [apply psafe_read_file|intros; apply psafe_ret_ok].
Qed.
Theorem ropen_total key : psafe (ropen hash key).
Proof. apply psafe_by_key. intros i Hi. apply ropen_hash_total. exact Hi. Qed.

(* a reader's integrity stays the one it was opened with *)
Theorem rcheck_total r : wf_sri (r_sri r) -> safe (rcheck hash r).
Proof.
  intros Hw. unfold rcheck. pose proof (check_res_safe (r_sri r) (r_seen r) Hw) as H.
  destruct (wf_sri_pick _ Hw) as [a ->]. destruct (check_res hash (r_sri r) (r_seen r)); try contradiction; exact I.
Qed.

Lemma psafe_verify i cp : wf_sri i -> psafe (verify hash i cp).
Proof.
  intros Hw. unfold verify. apply psafe_rbind; [apply psafe_read_file|intros d].
  pose proof (check_res_safe i d Hw) as H. destruct (check_res hash i d); try contradiction; intros f; exact I.
Qed.
Lemma psafe_xstep x cp dst : psafe (xstep x cp dst).
Proof. intros f. unfold xstep. cbn [run]. destruct (exec _ f) as [r f1]. destruct r; exact I. Qed.

Theorem extract_hash_total x checked i dst : wf_sri i -> psafe (extract_hash hash x checked i dst).
Proof.
  intros Hw. unfold extract_hash. apply psafe_with_cpath; [exact Hw|intros cp]. destruct checked; [|apply psafe_xstep].
  apply psafe_rbind; [apply psafe_verify; exact Hw|intros n]. apply psafe_rbind; [apply psafe_xstep|intros; apply psafe_ret_ok].
Qed.
Theorem extract_total x checked key dst : psafe (extract hash x checked key dst).
Proof. apply psafe_by_key. intros i Hi. apply extract_hash_total. exact Hi. Qed.

Theorem exists_hash_total i : wf_sri i -> psafe (exists_hash i).
Proof.
  intros Hw. unfold exists_hash. apply psafe_with_cpath; [exact Hw|intros cp]. intros f. cbn [run].
  destruct (exec_exists_shape cp f) as [b H]. destruct (exec (Exists cp) f) as [r f1]. cbn [fst] in H. subst r. exact I.
Qed.

(* ---------- removals, listing ---------- *)
Theorem remove_hash_total i : wf_sri i -> psafe (remove_hash i).
Proof. intros Hw. unfold remove_hash. apply psafe_with_cpath; [exact Hw|intros; apply psafe_step_ok]. Qed.

Theorem remove_fully_total key : psafe (remove_fully hash key).
Proof.
  unfold remove_fully. intros f. unfold rbind at 1. rewrite run_bind.
  pose proof (find_total key f) as Hs. pose proof (find_result_wf key f) as Hwf.
  destruct (run (find hash key) f) as [r f1]. cbn [fst] in Hs, Hwf.
  destruct r as [[m|]|e| | |]; try contradiction; try exact I.
  - apply psafe_rbind; [|intros; apply psafe_step_ok]. apply psafe_with_cpath; [apply Hwf; reflexivity|intros l g].
    unfold unlink_if_present. cbn [run]. destruct (exec (Unlink l) g) as [r0 g1]. destruct r0 as [| | | | | |[]]; exact I.
  - apply psafe_rbind; [apply psafe_ret_ok|intros; apply psafe_step_ok].
Qed.

Lemma remove_all_total ls : psafe (remove_all ls).
Proof.
  induction ls as [|[p|e] ls IH]; [apply psafe_ret_ok| |exact IH].
  cbn [remove_all]. apply psafe_rbind; [apply psafe_step_ok|intros _; exact IH].
Qed.

Theorem clear_total : psafe clear.
Proof.
  intros f. unfold clear. cbn [run]. destruct (exec_readdir_shape [] f) as [[l H]|[e H]];
    destruct (exec (ReadDir []) f) as [r f1]; cbn [fst] in H; subst r; [apply remove_all_total|exact I].
Qed.

Theorem ls_total : psafe (ls hash).
Proof.
  intros f. unfold ls. cbn [run]. destruct (exec_walk_shape [index_dir] f) as [[l H]|[e H]];
    destruct (exec (WalkFiles [index_dir]) f) as [r f1]; cbn [fst] in H; subst r; [|exact I].
  rewrite run_bind. destruct (run (ls_buckets hash l) f1). exact I.
Qed.

(* ---------- link_to ---------- *)
Theorem open_linker_total plain key o target : psafe (open_linker plain key o target).
Proof. unfold open_linker. apply psafe_rbind; [apply psafe_read_file|intros; apply psafe_ret_ok]. Qed.

Theorem commit_linker_total l now : psafe (commit_linker hash l now).
Proof.
  unfold commit_linker. destruct (wf_sri_cpath _ (wf_sri_computed (l_algo l) (l_seen l ++ l_rest l))) as [cp ->].
  set (rest := match (match o_sri (l_opts l) with Some d => match sri_matches d (sri_of hash (l_algo l) (l_seen l ++ l_rest l)) with Some _ => Some d | None => None end | None => Some (sri_of hash (l_algo l) (l_seen l ++ l_rest l)) end) with
               | None => Ret (Err EIntegrity) | Some final => _ end).
  assert (psafe rest) as Hrest.
  { subst rest. destruct (match o_sri (l_opts l) with Some d => match sri_matches d _ with Some _ => Some d | None => None end | None => Some _ end); [|apply psafe_ret_err].
    destruct (match o_size (l_opts l) with Some s => negb (s =? lenN (l_seen l ++ l_rest l)) | None => false end); destruct (o_size (l_opts l));
      try apply psafe_ret_err; destruct (l_key l); try apply insert_total; apply psafe_ret_ok. }
  apply psafe_rbind; [apply psafe_step_ok|intros _]. intros f. cbn [run].
  destruct (exec (SymlinkTo (LAbs (l_target l)) (InCache cp)) f) as [r f1]. destruct r; try apply Hrest.
  cbn [run]. destruct (exec_exists_shape (InCache cp) f1) as [b Hb]. destruct (exec (Exists (InCache cp)) f1) as [r2 f2]. cbn [fst] in Hb. subst r2.
  destruct b; [apply Hrest|exact I].
Qed.

Theorem link_to_total key target now : psafe (link_to hash key target now).
Proof. unfold link_to. apply psafe_rbind; [apply open_linker_total|intros; apply commit_linker_total]. Qed.

(* ---------- whole sessions: any sequence of operations, any handles ---------- *)
Definition wf_op (o : op) : Prop :=
  match o with
  | OReadHash _ i | OExists _ i | ORemoveHash _ i => wf_sri i
  | OROpen _ _ (ByHash i) => wf_sri i
  | OExtract _ _ _ (ByHash i) _ => wf_sri i
  | _ => True
  end.
Definition sinv (s : sstate) : Prop := forall h r, hget h (s_r s) = Some r -> wf_sri (r_sri r).
Definition osafe (o : outcome) : Prop := match o with Res r => safe r | BadArg => True end.

Lemma safe_rmap {A B} (g : A -> B) r : safe r -> safe (rmap g r).
Proof. destruct r; exact (fun x => x). Qed.

Lemma runv_safe {A} s (p : prog (res A)) g : psafe p -> osafe (fst (runv s p g)) /\ s_r (snd (runv s p g)) = s_r s.
Proof.
  intros Hp. unfold runv. specialize (Hp (s_fs s)). destruct (run p (s_fs s)) as [r f]. cbn [fst snd osafe s_r].
  split; [apply safe_rmap; exact Hp|reflexivity].
Qed.

Lemma hget_hset {A} h h' (v : A) l : hget h (hset h' v l) = if N.eqb h' h then Some v else hget h (hdel h' l).
Proof. reflexivity. Qed.
Lemma hget_hdel {A} h h' (l : list (N * A)) r : hget h (hdel h' l) = Some r -> hget h l = Some r.
Proof.
  induction l as [|[k v] l IH]; cbn [hdel hget]; [discriminate|].
  destruct (N.eqb k h') eqn:E.
  - intros H. specialize (IH H). destruct (N.eqb k h) eqn:E2; [|exact IH].
    apply N.eqb_eq in E, E2. subst. clear - H. exfalso. induction l as [|[k0 v0] l IH0]; cbn [hdel hget] in H; [discriminate|].
    destruct (N.eqb k0 h) eqn:E; [auto|]. cbn [hget] in H. rewrite E in H. auto.
  - cbn [hget]. destruct (N.eqb k h); [auto|exact IH].
Qed.

Lemma sinv_hset s r rs : sinv s -> wf_sri (r_sri rs) -> forall f, sinv (mkS s f (s_w s) (hset r rs (s_r s))).
Proof.
  intros Hs Hw f h r0. unfold mkS. cbn [s_r]. rewrite hget_hset. destruct (N.eqb r h); [intros H; inversion H; subst; exact Hw|].
  intros H. apply hget_hdel in H. exact (Hs _ _ H).
Qed.
Lemma sinv_hdel s r : sinv s -> forall f, sinv (mkS s f (s_w s) (hdel r (s_r s))).
Proof. intros Hs f h r0. unfold mkS. cbn [s_r]. intros H. apply hget_hdel in H. exact (Hs _ _ H). Qed.
Lemma sinv_same s s' : sinv s -> s_r s' = s_r s -> sinv s'.
Proof. intros Hs E h r. rewrite E. apply Hs. Qed.

Lemma ropen_hash_sri i f r : fst (run (ropen_hash i) f) = Ok r -> r_sri r = i.
Proof.
  unfold ropen_hash, with_cpath. destruct (content_path i) as [p|]; [|discriminate].
  unfold rbind. rewrite run_bind. destruct (run (read_file (InCache p)) f) as [x f1]. destruct x; cbn [run fst]; try discriminate.
  intros H. inversion H. reflexivity.
Qed.
Lemma ropen_sri key f r : fst (run (ropen hash key) f) = Ok r -> wf_sri (r_sri r).
Proof.
  unfold ropen, by_key, rbind. rewrite run_bind. pose proof (find_result_wf key f) as Hwf.
  destruct (run (find hash key) f) as [x f1]. cbn [fst] in Hwf. destruct x as [[m|]|e| | |]; cbn [run fst]; try discriminate.
  intros H. rewrite (ropen_hash_sri _ _ _ H). apply Hwf. reflexivity.
Qed.

(* chunks through writers, with or without a pending answer of an abandoned write *)
Lemma plain_chunk_total s w ws d : osafe (fst (plain_chunk s w ws d)) /\ s_r (snd (plain_chunk s w ws d)) = s_r s.
Proof.
  unfold plain_chunk. pose proof (write_chunk_total ws d (s_fs s)) as H. destruct (run (write_chunk ws d) (s_fs s)) as [r f]. cbn [fst] in H.
  destruct r; try contradiction; cbn [fst snd osafe safe rmap]; (split; [exact I|reflexivity]).
Qed.
Lemma start_abandoned_total s w ws d : osafe (fst (start_abandoned s w ws d)) /\ s_r (snd (start_abandoned s w ws d)) = s_r s.
Proof.
  unfold start_abandoned. destruct (run (write_chunk ws d) (s_fs s)) as [r f].
  destruct r; cbn [fst snd osafe safe]; (split; [exact I|reflexivity]).
Qed.
Lemma write1_pending_total s w ws p d : osafe (fst (write1_pending s w ws p d)) /\ s_r (snd (write1_pending s w ws p d)) = s_r s.
Proof.
  unfold write1_pending. destruct p as [n|]; [|cbn [fst snd osafe safe]; split; [exact I|reflexivity]].
  destruct (n <=? lenN d); [cbn [fst snd osafe safe]; split; [exact I|reflexivity]|].
  destruct (plain_chunk_total (clear_p s w) w ws d) as [H1 H2]. split; [exact H1|rewrite H2; reflexivity].
Qed.
Lemma write_all_pending_total s w ws p d : osafe (fst (write_all_pending s w ws p d)) /\ s_r (snd (write_all_pending s w ws p d)) = s_r s.
Proof.
  unfold write_all_pending. destruct d as [|b d]; [cbn [fst snd osafe safe]; split; [exact I|reflexivity]|].
  destruct p as [n|]; [|cbn [fst snd osafe safe]; split; [exact I|reflexivity]].
  destruct (n <=? lenN (b :: d)).
  - destruct (n =? 0); [cbn [fst snd osafe safe]; split; [exact I|reflexivity]|].
    destruct (dropN n (b :: d)) as [|b' rest]; [cbn [fst snd osafe safe]; split; [exact I|reflexivity]|].
    destruct (plain_chunk_total (ack (clear_p s w) w ws n) w (with_written ws (w_written ws + n)) (b' :: rest)) as [H1 H2].
    destruct (plain_chunk (ack (clear_p s w) w ws n) w (with_written ws (w_written ws + n)) (b' :: rest)) as [o s3].
    cbn [fst snd] in *. split; [|rewrite H2; reflexivity].
    destruct o as [[v|e| | |]|]; cbn [osafe safe] in *; try exact I; exact H1.
  - destruct (plain_chunk_total (clear_p s w) w ws (b :: d)) as [H1 H2]. split; [exact H1|rewrite H2; reflexivity].
Qed.

Theorem step_total s o now :
  sinv s -> wf_op o -> osafe (fst (step hash s o now)) /\ sinv (snd (step hash s o now)).
Proof.
  intros Hs Hw.
  assert (forall A (p : prog (res A)) g, psafe p -> osafe (fst (runv s p g)) /\ sinv (snd (runv s p g))) as Hrunv.
  { intros A p g Hp. destruct (runv_safe s p g Hp) as [H1 H2]. split; [exact H1|exact (sinv_same s _ Hs H2)]. }
  destruct o; cbn [step wf_op] in *.
  - apply Hrunv, write_total.
  - apply Hrunv, write_hash_total.
  - pose proof (open_writer_total fl key o (s_fs s)) as H. destruct (run (open_writer fl key o) (s_fs s)) as [r f]. cbn [fst] in H.
    destruct r; try contradiction; cbn [fst snd osafe safe rmap]; (split; [exact I|exact (sinv_same s _ Hs eq_refl)]).
  - destruct (hget w (s_w s)) as [ws|]; [|split; [exact I|exact Hs]].
    destruct (hget w (s_p s)) as [p|].
    + destruct (write_all_pending_total s w ws p d) as [H1 H2]. split; [exact H1|exact (sinv_same s _ Hs H2)].
    + destruct (plain_chunk_total s w ws d) as [H1 H2]. split; [exact H1|exact (sinv_same s _ Hs H2)].
  - destruct (hget w (s_w s)) as [ws|]; [|split; [exact I|exact Hs]].
    pose proof (commit_total ws now (s_fs s)) as H. destruct (run (commit hash ws now) (s_fs s)) as [r f]. cbn [fst] in H.
    cbn [fst snd osafe]. split; [apply safe_rmap; exact H|exact (sinv_same s _ Hs eq_refl)].
  - destruct (hget w (s_w s)) as [ws|]; [|split; [exact I|exact Hs]].
    destruct (run (drop_writer ws) (s_fs s)) as [r f]. cbn [fst snd osafe safe]. split; [exact I|exact (sinv_same s _ Hs eq_refl)].
  - apply Hrunv, insert_total.
  - apply Hrunv, delete_total.
  - apply Hrunv, find_total.
  - apply Hrunv, read_total.
  - apply Hrunv, read_hash_total. exact Hw.
  - assert (psafe (match b with ByKey k => ropen hash k | ByHash i => ropen_hash i end)) as Hp.
    { destruct b; [apply ropen_total|apply ropen_hash_total; exact Hw]. }
    specialize (Hp (s_fs s)).
    assert (forall rs f, run (match b with ByKey k => ropen hash k | ByHash i => ropen_hash i end) (s_fs s) = (Ok rs, f) -> wf_sri (r_sri rs)) as Hsri.
    { intros rs f E. destruct b.
      - apply (ropen_sri k (s_fs s)). rewrite E. reflexivity.
      - rewrite (ropen_hash_sri i (s_fs s) rs); [exact Hw|rewrite E; reflexivity]. }
    destruct (run (match b with ByKey k => ropen hash k | ByHash i => ropen_hash i end) (s_fs s)) as [x f]. cbn [fst] in Hp.
    destruct x; try contradiction; cbn [fst snd osafe safe rmap].
    + split; [exact I|]. apply sinv_hset; [exact Hs|]. apply (Hsri a f eq_refl).
    + split; [exact I|exact (sinv_same s _ Hs eq_refl)].
  - destruct (hget r (s_r s)) as [rs|] eqn:E; [|split; [exact I|exact Hs]].
    destruct (rchunk rs n) as [c rs'] eqn:Ec. cbn [fst snd osafe safe]. split; [exact I|].
    apply sinv_hset; [exact Hs|]. unfold rchunk in Ec. inversion Ec. cbn [r_sri]. exact (Hs _ _ E).
  - destruct (hget r (s_r s)) as [rs|] eqn:E; [|split; [exact I|exact Hs]].
    destruct (rchunk rs (lenN (r_rest rs))) as [c rs'] eqn:Ec. cbn [fst snd osafe safe]. split; [exact I|].
    apply sinv_hset; [exact Hs|]. unfold rchunk in Ec. inversion Ec. cbn [r_sri]. exact (Hs _ _ E).
  - destruct (hget r (s_r s)) as [rs|] eqn:E; [|split; [exact I|exact Hs]].
    cbn [fst snd osafe]. split; [apply safe_rmap, rcheck_total; exact (Hs _ _ E)|apply sinv_hdel; exact Hs].
  - destruct (hget r (s_r s)) as [rs|] eqn:E; [|split; [exact I|exact Hs]].
    cbn [fst snd osafe safe]. split; [exact I|apply sinv_hdel; exact Hs].
  - apply Hrunv. destruct b; [apply extract_total|apply extract_hash_total; exact Hw].
  - apply Hrunv, exists_hash_total. exact Hw.
  - apply Hrunv, delete_total.
  - apply Hrunv, remove_hash_total. exact Hw.
  - apply Hrunv, remove_fully_total.
  - apply Hrunv, clear_total.
  - apply Hrunv, ls_total.
  - apply Hrunv, link_to_total.
  - pose proof (open_linker_total plain key o target (s_fs s)) as H. destruct (run (open_linker plain key o target) (s_fs s)) as [r f]. cbn [fst] in H.
    destruct r; try contradiction; cbn [fst snd osafe safe rmap]; (split; [exact I|exact (sinv_same s _ Hs eq_refl)]).
  - destruct (hget l (s_l s)) as [ls|]; [|split; [exact I|exact Hs]].
    destruct (lchunk ls n) as [c ls']. cbn [fst snd osafe safe]. split; [exact I|exact (sinv_same s _ Hs eq_refl)].
  - destruct (hget l (s_l s)) as [ls|]; [|split; [exact I|exact Hs]].
    pose proof (commit_linker_total ls now (s_fs s)) as H. destruct (run (commit_linker hash ls now) (s_fs s)) as [r f]. cbn [fst] in H.
    cbn [fst snd osafe]. split; [apply safe_rmap; exact H|exact (sinv_same s _ Hs eq_refl)].
  - destruct (hget l (s_l s)) as [ls|]; [|split; [exact I|exact Hs]].
    cbn [fst snd osafe safe]. split; [exact I|exact (sinv_same s _ Hs eq_refl)].
  - destruct (hget w (s_w s)) as [ws|]; [|split; [exact I|exact Hs]].
    destruct (hget w (s_p s)) as [[n|]|].
    + destruct (n <=? lenN d); [cbn [fst snd osafe safe]; split; [exact I|exact (sinv_same s _ Hs eq_refl)]|].
      destruct (start_abandoned_total (clear_p s w) w ws d) as [H1 H2]. split; [exact H1|exact (sinv_same s _ Hs H2)].
    + cbn [fst snd osafe safe]. split; [exact I|exact (sinv_same s _ Hs eq_refl)].
    + destruct (start_abandoned_total s w ws d) as [H1 H2]. split; [exact H1|exact (sinv_same s _ Hs H2)].
  - destruct (hget w (s_w s)) as [ws|]; [|split; [exact I|exact Hs]].
    destruct (hget w (s_p s)) as [p|].
    + destruct (write1_pending_total s w ws p d) as [H1 H2]. split; [exact H1|exact (sinv_same s _ Hs H2)].
    + destruct (plain_chunk_total s w ws d) as [H1 H2]. split; [exact H1|exact (sinv_same s _ Hs H2)].
  - split; [exact I|exact (sinv_same s _ Hs eq_refl)].
  - split; [exact I|exact (sinv_same s _ Hs eq_refl)].
  - split; [exact I|exact (sinv_same s _ Hs eq_refl)].
  - split; [exact I|exact (sinv_same s _ Hs eq_refl)].
Qed.

(* every call of every program: whatever the sequence, including damage steps between calls *)
Theorem run_ops_total ops : forall s i, sinv s -> Forall wf_op ops -> Forall osafe (fst (run_ops hash s ops i)).
Proof.
  induction ops as [|o ops IH]; intros s i Hs Hw; cbn [run_ops]; [constructor|].
  inversion Hw as [|? ? Ho Hops]; subst. destruct (step_total s o (pseudo_now i) Hs Ho) as [H1 H2].
  destruct (step hash s o (pseudo_now i)) as [r s']. cbn [fst snd] in H1, H2.
  specialize (IH s' (i + 1) H2 Hops). destruct (run_ops hash s' ops (i + 1)) as [rs s'']. cbn [fst] in *.
  constructor; assumption.
Qed.

End T.
