(* LsHistP.v — C10 over histories: the shape invariants the whole-cache listing theorem needs (no duplicate locations,
   nothing below the bucket level, every record in the bucket of its key) hold in every state any history of writes
   and removals reaches, so after any history the listing yields exactly the keys the map holds — each with the entry a
   lookup finds. *)
From CC Require Import Bytes Codec Utf8 Lines Json Sri Record Fs Prog Api Crash
  BytesP CodecP LinesP LsP FsP ProgP SriP RecordP IndexP ReadP WriteP CommitP RemoveP LsWholeP CrashP CrashIdxP KeepP
  JsonP RecCodecP MetaP HistP Sess TotalP ConfineP SessP.
From Coq Require Import Lia.
Local Open Scope N_scope.

(* ---------- no duplicate locations: an invariant of every step of every program ---------- *)
Lemma remove_cons l' n f l : remove ((l', n) :: f) l = if loc_eqb l' l then remove f l else (l', n) :: remove f l.
Proof. reflexivity. Qed.
Lemma remove_subset f l x : In x (map fst (remove f l)) -> In x (map fst f).
Proof.
  induction f as [|[l' n] f IH]; [auto|]. rewrite remove_cons. destruct (loc_eqb l' l); simpl.
  - intros H. right. exact (IH H).
  - intros [H|H]; [left; exact H|right; exact (IH H)].
Qed.
Lemma remove_not_in f l : ~ In l (map fst (remove f l)).
Proof.
  induction f as [|[l' n] f IH]; [auto|]. rewrite remove_cons. destruct (loc_eqb l' l) eqn:E; [exact IH|].
  simpl. intros [H|H]; [subst l'; rewrite (proj2 (loc_eqb_eq l l) eq_refl) in E; discriminate|exact (IH H)].
Qed.
Lemma nodup_remove f l : NoDupKeys f -> NoDupKeys (remove f l).
Proof.
  unfold NoDupKeys. induction f as [|[l' n] f IH]; intros H; [constructor|]. rewrite remove_cons. simpl in H.
  inversion H as [|? ? Hn Hr]; subst. destruct (loc_eqb l' l); [exact (IH Hr)|].
  simpl. constructor; [intros X; exact (Hn (remove_subset _ _ _ X))|exact (IH Hr)].
Qed.
Lemma nodup_update f l n : NoDupKeys f -> NoDupKeys (update f l n).
Proof. intros H. unfold update, NoDupKeys. cbn [map fst]. constructor; [apply remove_not_in|apply nodup_remove; exact H]. Qed.
Lemma nodup_filter (p : loc * node -> bool) f : NoDupKeys f -> NoDupKeys (filter p f).
Proof.
  unfold NoDupKeys. induction f as [|x f IH]; cbn [filter map]; intros H; [constructor|].
  inversion H as [|? ? Hn Hr]; subst. destruct (p x); [|exact (IH Hr)].
  cbn [map]. constructor; [|exact (IH Hr)]. intros X. apply Hn. apply in_map_iff in X as [y [E Hy]]. apply filter_In in Hy as [Hy _].
  rewrite <- E. apply in_map. exact Hy.
Qed.
Lemma nodup_mkdirs f ps : NoDupKeys f -> NoDupKeys (snd (mkdirs f ps)).
Proof.
  revert f. induction ps as [|p ps IH]; intros f H; cbn [mkdirs snd]; [exact H|].
  destruct (lookup f (InCache p)) as [[d| |t]|]; cbn [snd]; try exact H; [apply IH; exact H|apply IH, nodup_update; exact H].
Qed.

Lemma nodup_exec c f : NoDupKeys f -> NoDupKeys (snd (exec c f)).
Proof.
  intros H. destruct c; unfold exec;
  repeat match goal with
  | |- NoDupKeys (snd (mkdirs _ _)) => apply nodup_mkdirs; exact H
  | |- context [match lookup ?g ?l with _ => _ end] => destruct (lookup g l) as [[?| |?]|]
  | |- context [match resolve ?g ?l with _ => _ end] => destruct (resolve g l) as [[?| |?]|]
  | |- context [if ?b then _ else _] => destruct b
  | |- NoDupKeys (snd (_, _)) => cbn [snd]
  | |- NoDupKeys (update _ _ _) => apply nodup_update
  | |- NoDupKeys (remove _ _) => apply nodup_remove
  | |- NoDupKeys (filter _ _) => apply nodup_filter
  | |- NoDupKeys _ => exact H
  end.
Qed.

Theorem nodup_run {A} (p : prog A) f : NoDupKeys f -> NoDupKeys (snd (run p f)).
Proof.
  revert f. induction p as [a|c k IH]; intros f H; cbn [run snd]; [exact H|].
  pose proof (nodup_exec c f H) as H1. destruct (exec c f) as [r f1]. apply IH. exact H1.
Qed.

Section LH.
Variable hash : algo -> bytes -> bytes.
Hypothesis HL : HashLen hash.

(* the shape of the index area that the listing theorem needs *)
Definition LIdx (f : fs) : Prop := IndexInv f /\ NoDeep f /\ BucketPlacement hash f.
Definition LInv (f : fs) : Prop := NoDupKeys f /\ LIdx f.

(* all of it speaks about locations under index-v5 only *)
Lemma lidx_frame f f' :
  LIdx f -> (forall l, is_index l -> lookup f' l = lookup f l) -> LIdx f'.
Proof.
  intros [Hi [Hd Hb]] Hfr. split; [|split].
  - intros p n Hl. rewrite Hfr in Hl by (eexists; reflexivity). exact (Hi p n Hl).
  - intros p n Hl. rewrite Hfr in Hl by (eexists; reflexivity). exact (Hd p n Hl).
  - intros a b c d Hl e He. rewrite Hfr in Hl by (eexists; reflexivity). exact (Hb a b c d Hl e He).
Qed.

Lemma linv_empty : LInv [].
Proof.
  split; [constructor|]. split; [intros p n H; discriminate|]. split; [intros p n H; discriminate|intros a b c d H; discriminate].
Qed.

(* an index insert keeps the shape and makes sure index-v5/ exists *)
Lemma lidx_insert f key o now :
  LIdx f -> wf_rec hash (smeta_of key o now) ->
  LIdx (snd (run (insert hash key o now) f)) /\ is_dir (snd (run (insert hash key o now) f)) [index_dir] = true.
Proof.
  intros [Hi [Hd Hb]] Hwf.
  destruct (insert_run hash f key o now Hi Hwf) as [f' [Hrun [Hi' [Hbk Ho]]]].
  destruct (bucket_path_shape hash key) as [a [b [c Eb]]].
  assert (is_dir (snd (run (insert hash key o now) f)) [index_dir] = true) as Hdir.
  { (* mkdir -p creates it; the two later steps touch the bucket file only *)
    unfold insert, rbind. rewrite Eb. rewrite run_bind.
    destruct (mkdirs_ok f (prefixes (parent [index_dir; a; b; c]))) as [f1 [Hmk [Hdirs _]]].
    { rewrite prefixes_parent_bucket. intros p Hp. unfold dir_or_absent.
      destruct (lookup f (InCache p)) as [nd|] eqn:El; [|left; reflexivity]. right. f_equal.
      destruct Hp as [<-|[<-|[<-|[]]]]; [apply (Hi [] nd El)|apply (Hi [_] nd El)|apply (Hi [_; _] nd El)]; simpl; lia. }
    assert (run (step_ok (MkdirAll (parent [index_dir; a; b; c]))) f = (Ok tt, f1)) as E1.
    { apply (run_step_ok _ _ ROk); [rewrite exec_mkdirall; exact Hmk|exact I]. }
    rewrite E1. cbn [fst snd].
    assert (lookup f1 (InCache [index_dir]) = Some Dir) as Hd1 by (apply Hdirs; rewrite prefixes_parent_bucket; left; reflexivity).
    match goal with |- is_dir (snd (run ?p f1)) _ = true => destruct (untouched_crash (fun x => x = InCache [index_dir]) p f1) as [_ Hu] end.
    - apply (all_steps_ok (fun c => forall l, may_touch c l -> l <> InCache [index_dir])); [intros c0 g H; exact H|].
      apply all_steps_bind; [apply all_steps_step_ok; intros l -> E; discriminate E|].
      intros r1. destruct r1; try exact I.
      apply all_steps_bind; [apply all_steps_step_ok; intros l -> E; discriminate E|].
      intros r2. destruct r2; exact I.
    - unfold is_dir. rewrite (Hu _ eq_refl), Hd1. reflexivity. }
  split; [|exact Hdir]. rewrite Hrun in *. cbn [snd] in *. rewrite Eb in *.
  split; [exact Hi'|]. split.
  - (* nothing below the bucket level *)
    intros p n Hl. destruct (loc_eq_dec (InCache (index_dir :: p)) (InCache [index_dir; a; b; c])) as [E|N]; [inversion E; simpl; lia|].
    destruct (Ho _ N) as [H|[_ [_ [q [E Hq]]]]]; [rewrite H in Hl; exact (Hd p n Hl)|inversion E; subst q; lia].
  - (* every record in the bucket of its key *)
    intros a0 b0 c0 d0 Hl e He.
    destruct (loc_eq_dec (InCache [index_dir; a0; b0; c0]) (InCache [index_dir; a; b; c])) as [E|N].
    + inversion E; subst a0 b0 c0. rewrite Hbk in Hl. inversion Hl; subst d0.
      assert (no_pending_cr (bucket_bytes hash f key)) as Hcr.
      { unfold bucket_bytes. rewrite Eb. destruct (lookup f (InCache [index_dir; a; b; c])) as [nd|] eqn:El; [|apply no_pending_cr_nil].
        destruct (Hi [a; b; c] nd El) as [_ H]. destruct (H eq_refl) as [d1 [-> Hd1]]. exact Hd1. }
      rewrite (proj1 (entries_app_record hash _ _ Hcr Hwf)) in He. apply in_app_or in He as [He|[<-|[]]].
      * unfold bucket_bytes in He. rewrite Eb in He. destruct (lookup f (InCache [index_dir; a; b; c])) as [[d1| |t]|] eqn:El; try (destruct He).
        exact (Hb a b c d1 El e He).
      * cbn [smeta_of sm_key]. exact Eb.
    + destruct (Ho _ N) as [H|[_ [H _]]]; [rewrite H in Hl; exact (Hb a0 b0 c0 d0 Hl e He)|rewrite H in Hl; discriminate].
Qed.


(* a keyed write is: steps that leave index-v5 alone (temp file, content), then one index insert *)
Lemma stream_keyed_index_decomp f fl key o cs now :
  CacheInv f -> o_sri o = None -> size_ok o (lenN (List.concat cs)) = true ->
  exists f1, (forall l, is_index l -> lookup f1 l = lookup f l) /\
    run (stream_write hash fl (Some key) o cs now) f
    = run (insert hash key (commit_opts o (sri_of hash (algo_of o) (List.concat cs)) (lenN (List.concat cs))) now) f1.
Proof.
  intros Hinv Hns Hs. unfold stream_write.
  destruct (open_writer_inv hash f fl (Some key) o Hinv) as [w [f1 [Hr1 [Hw1 [Hi1 [Hd1 [Hk1 [Ho1 [Ha1 [Hfr1 _]]]]]]]]]].
  rewrite (run_rbind_ok _ _ _ _ _ Hr1).
  destruct (write_chunks_inv hash f1 w cs Hw1 Hi1) as [w2 [f2 [Hr2 [Hw2 [Hi2 [[S1 [S2 [S3 S4]]] [Hd2 Hfr2]]]]]]].
  rewrite (run_rbind_ok _ _ _ _ _ Hr2).
  rewrite Hd1 in Hd2. cbn [app] in Hd2.
  assert (w_key w2 = Some key) as Hk2 by congruence.
  assert (w_opts w2 = o) as Ho2 by congruence.
  assert (w_algo w2 = algo_of o) as Ha2 by (unfold algo_of; congruence).
  assert (declared_ok (w_opts w2) (sri_of hash (w_algo w2) (w_data w2)) = Some (sri_of hash (w_algo w2) (w_data w2))) as Hd
    by (unfold declared_ok; rewrite Ho2, Hns; reflexivity).
  assert (size_ok (w_opts w2) (lenN (w_data w2)) = true) as Hs2 by (rewrite Ho2, Hd2; exact Hs).
  rewrite (commit_keyed_run hash HL f2 w2 now Hw2 Hi2 _ key Hd Hs2 Hk2).
  destruct (close_writer_inv hash HL f2 w2 Hw2 Hi2) as [f3 [Hclose [_ [_ [_ [Hfr3 _]]]]]].
  rewrite Hclose. cbn [snd]. rewrite Ho2, Ha2, Hd2. exists f3. split; [|reflexivity].
  intros l Hl. destruct Hw2 as [[n Hn] _].
  rewrite Hfr3; [|intro X; eapply index_not_content; eauto|intro X; eapply index_not_tmp; [exact Hl|right; exists n; congruence]].
  rewrite Hfr2; [|destruct Hw1 as [[n1 Hn1] _]; intro X; eapply index_not_tmp; [exact Hl|right; exists n1; congruence]].
  apply Hfr1. intro X. eapply index_not_tmp; eauto.
Qed.

Lemma stream_by_hash_index_frame f fl o cs now :
  CacheInv f -> o_sri o = None -> size_ok o (lenN (List.concat cs)) = true ->
  forall l, is_index l -> lookup (snd (run (stream_write hash fl None o cs now) f)) l = lookup f l.
Proof.
  intros Hinv Hns Hs l Hl. unfold stream_write.
  destruct (open_writer_inv hash f fl None o Hinv) as [w [f1 [Hr1 [Hw1 [Hi1 [Hd1 [Hk1 [Ho1 [Ha1 [Hfr1 _]]]]]]]]]].
  rewrite (run_rbind_ok _ _ _ _ _ Hr1).
  destruct (write_chunks_inv hash f1 w cs Hw1 Hi1) as [w2 [f2 [Hr2 [Hw2 [Hi2 [[S1 [S2 [S3 S4]]] [Hd2 Hfr2]]]]]]].
  rewrite (run_rbind_ok _ _ _ _ _ Hr2).
  rewrite Hd1 in Hd2. cbn [app] in Hd2.
  assert (w_key w2 = None) as Hk2 by congruence.
  assert (w_opts w2 = o) as Ho2 by congruence.
  assert (declared_ok (w_opts w2) (sri_of hash (w_algo w2) (w_data w2)) = Some (sri_of hash (w_algo w2) (w_data w2))) as Hd
    by (unfold declared_ok; rewrite Ho2, Hns; reflexivity).
  assert (size_ok (w_opts w2) (lenN (w_data w2)) = true) as Hs2 by (rewrite Ho2, Hd2; exact Hs).
  rewrite (commit_by_hash_ok hash HL f2 w2 now Hw2 Hi2 _ Hd Hs2 Hk2).
  destruct (close_writer_inv hash HL f2 w2 Hw2 Hi2) as [f3 [Hclose [_ [_ [_ [Hfr3 _]]]]]].
  rewrite Hclose. cbn [snd]. destruct Hw2 as [[n Hn] _].
  rewrite Hfr3; [|intro X; eapply index_not_content; eauto|intro X; eapply index_not_tmp; [exact Hl|right; exists n; congruence]].
  rewrite Hfr2; [|destruct Hw1 as [[n1 Hn1] _]; intro X; eapply index_not_tmp; [exact Hl|right; exists n1; congruence]].
  apply Hfr1. intro X. eapply index_not_tmp; eauto.
Qed.


(* does the operation write an index record? *)
Definition c_indexes (o : cop) : bool :=
  match o with CWrite _ _ _ _ _ | CStream _ _ _ _ _ | CRemove _ _ => true | _ => false end.

Lemma is_dir_frame f f' p : lookup f' (InCache p) = lookup f (InCache p) -> is_dir f' p = is_dir f p.
Proof. intros E. unfold is_dir. rewrite E. reflexivity. Qed.

Lemma lidx_cstep f o :
  CacheInv f -> LIdx f -> c_ok hash o = true ->
  LIdx (c_run hash f o) /\
  (c_indexes o = true -> is_dir (c_run hash f o) [index_dir] = true) /\
  (is_dir f [index_dir] = true -> is_dir (c_run hash f o) [index_dir] = true).
Proof.
  intros Hinv Hl Hok.
  assert (is_index (InCache [index_dir])) as Hidx by (exists []; reflexivity).
  destruct o as [fl a key data now|fl key o cs now|fl a data|key now|a d|key]; cbn [c_run c_ok c_indexes] in *.
  - (* write = streamed write with zero or one chunk *)
    pose proof (opts_ok_wf_rec hash key _ now Hok) as Hwf.
    unfold write. rewrite (oneshot_stream hash _ _ _ _ _ _ Hinv).
    assert (algo_of (write_opts fl a data) = a) as Ea by (destruct fl; reflexivity).
    match goal with |- context [stream_write hash fl (Some key) (write_opts fl a data) ?c now] => set (cs0 := c) in * end.
    assert (List.concat cs0 = data) as Ecs by (exact (concat_oneshot data)).
    destruct (stream_keyed_index_decomp f fl key (write_opts fl a data) cs0 now Hinv) as [f1 [Hfr Hrun]].
    { destruct fl; reflexivity. }
    { rewrite Ecs. destruct fl; unfold size_ok; cbn [write_opts o_size]; [reflexivity|apply N.eqb_refl]. }
    rewrite Hrun. rewrite Ecs, Ea in *.
    destruct (lidx_insert f1 key _ now (lidx_frame f f1 Hl Hfr) Hwf) as [H1 H2]. split; [exact H1|]. split; intros _; exact H2.
  - apply andb_true_iff in Hok as [Hok Hopts]. apply andb_true_iff in Hok as [Hns Hsz].
    assert (o_sri o = None) as Hns' by (destruct (o_sri o); [discriminate|reflexivity]).
    pose proof (opts_ok_wf_rec hash key _ now Hopts) as Hwf.
    destruct (stream_keyed_index_decomp f fl key o cs now Hinv Hns' Hsz) as [f1 [Hfr Hrun]]. rewrite Hrun.
    destruct (lidx_insert f1 key _ now (lidx_frame f f1 Hl Hfr) Hwf) as [H1 H2]. split; [exact H1|]. split; intros _; exact H2.
  - (* by address: the index area is untouched *)
    assert (forall l, is_index l -> lookup (snd (run (write_hash hash fl a data) f)) l = lookup f l) as Hfr.
    { intros l Hli. unfold write_hash. rewrite (oneshot_stream hash _ _ _ _ _ _ Hinv).
      apply stream_by_hash_index_frame; [exact Hinv|reflexivity| |exact Hli].
      rewrite concat_oneshot. unfold size_ok. cbn [o_size]. apply N.eqb_refl. }
    split; [exact (lidx_frame _ _ Hl Hfr)|]. split; [discriminate|]. intros H. rewrite (is_dir_frame _ _ _ (Hfr _ Hidx)). exact H.
  - pose proof (opts_ok_wf_rec hash key _ now Hok) as Hwf.
    assert (snd (run (delete hash key now) f) = snd (run (insert hash key wopts0 now) f)) as E.
    { unfold delete, rbind. rewrite run_bind. destruct (run (insert hash key wopts0 now) f) as [r f1]. destruct r; reflexivity. }
    rewrite E. destruct (lidx_insert f key wopts0 now Hl Hwf) as [H1 H2]. split; [exact H1|]. split; intros _; exact H2.
  - destruct (remove_hash_scope f (sri_of hash a d)) as [Hfr0 _].
    assert (forall l, is_index l -> lookup (snd (run (remove_hash (sri_of hash a d)) f)) l = lookup f l) as Hfr.
    { intros l Hli. apply Hfr0. intros cp E X. subst l. rewrite (content_path_computed hash a d HL) in E. inversion E; subst cp.
      eapply index_not_content; [exact Hli|eexists; reflexivity]. }
    split; [exact (lidx_frame _ _ Hl Hfr)|]. split; [discriminate|]. intros H. rewrite (is_dir_frame _ _ _ (Hfr _ Hidx)). exact H.
  - (* full removal: index locations are as before or gone; index-v5/ itself stays *)
    set (f' := snd (run (remove_fully hash key) f)).
    destruct (bucket_path_shape hash key) as [bx [by_ [bz Eb]]].
    assert (forall l, l <> InCache (bucket_path hash key) -> is_index l -> lookup f' l = lookup f l) as Hoth.
    { intros l N Hli. unfold f'. apply (remove_fully_frame hash); [exact N|].
      intros m cp _ Ecp X. subst l. destruct (content_path_shape _ _ Ecp) as [c1 [c2 [c3 [c4 ->]]]].
      eapply index_not_content; [exact Hli|eexists; reflexivity]. }
    assert (lookup f' (InCache (bucket_path hash key)) = lookup f (InCache (bucket_path hash key)) \/
            lookup f' (InCache (bucket_path hash key)) = None) as Hbk.
    { unfold f'. rewrite (remove_fully_run hash f key (proj1 Hl)).
      assert (forall g, lookup g (InCache (bucket_path hash key)) = lookup f (InCache (bucket_path hash key)) ->
                lookup (snd (run (step_ok (Unlink (InCache (bucket_path hash key)))) g)) (InCache (bucket_path hash key)) = lookup f (InCache (bucket_path hash key)) \/
                lookup (snd (run (step_ok (Unlink (InCache (bucket_path hash key)))) g)) (InCache (bucket_path hash key)) = None) as Hun.
      { intros g Eg. rewrite run_unlink. destruct (lookup g (InCache (bucket_path hash key))) as [[xx| |tt]|] eqn:E; cbn [snd];
          try (right; apply lookup_remove_eq); left; congruence. }
      destruct (abs_idx hash f key) as [m|]; [|apply Hun; reflexivity].
      destruct (content_path (m_sri m)) as [cp|] eqn:Ecp; [|left; reflexivity].
      destruct (content_path_shape _ _ Ecp) as [c1 [c2 [c3 [c4 ->]]]].
      assert (InCache [content_dir; c1; c2; c3; c4] <> InCache (bucket_path hash key)) as Hne
        by (rewrite Eb; intros X; inversion X as [[H1 H2]]; try (vm_compute in H1; discriminate)).
      destruct (lookup f (InCache [content_dir; c1; c2; c3; c4])) as [[xx| |tt]|]; cbn [snd];
        try (left; reflexivity); apply Hun; try reflexivity; apply lookup_remove_neq; exact Hne. }
    assert (forall l, is_index l -> lookup f' l = lookup f l \/ lookup f' l = None) as Hsh.
    { intros l Hli. destruct (loc_eq_dec l (InCache (bucket_path hash key))) as [->|N]; [exact Hbk|left; apply Hoth; assumption]. }
    split; [|split; [discriminate|]].
    + destruct Hl as [Hi [Hd Hb]]. split; [|split].
      * intros p n Hln. destruct (Hsh (InCache (index_dir :: p))) as [E|E]; [eexists; reflexivity| |]; rewrite E in Hln; [exact (Hi p n Hln)|discriminate].
      * intros p n Hln. destruct (Hsh (InCache (index_dir :: p))) as [E|E]; [eexists; reflexivity| |]; rewrite E in Hln; [exact (Hd p n Hln)|discriminate].
      * intros a b c d Hln e He. destruct (Hsh (InCache [index_dir; a; b; c])) as [E|E]; [eexists; reflexivity| |]; rewrite E in Hln; [exact (Hb a b c d Hln e He)|discriminate].
    + intros H. rewrite (is_dir_frame f f' [index_dir]); [exact H|]. apply Hoth; [rewrite Eb; discriminate|exact Hidx].
Qed.

(* over whole histories, together with the refinement of HistP *)
Theorem lhistory (h : list cop) f0 s0 :
  CInv hash f0 s0 -> LInv f0 -> forallb (c_ok hash) h = true -> NoColl hash (c_all (fold_left (c_step hash) h s0)) ->
  let f := fold_left (c_run hash) h f0 in
  CInv hash f (fold_left (c_step hash) h s0) /\ LInv f /\
  (existsb c_indexes h = true \/ is_dir f0 [index_dir] = true -> is_dir f [index_dir] = true).
Proof.
  revert f0 s0. induction h as [|o h IH]; intros f0 s0 H0 Hl0 Hok Hnc; cbn [fold_left existsb forallb] in *.
  - split; [exact H0|]. split; [exact Hl0|]. intros [X|X]; [discriminate|exact X].
  - apply andb_true_iff in Hok as [Hok1 Hok2].
    assert (CInv hash (c_run hash f0 o) (c_step hash s0 o)) as H1.
    { apply (cinv_step hash HL); [exact H0|exact Hok1|]. destruct (c_all_fold hash h (c_step hash s0 o)) as [pre E]. rewrite E in Hnc. exact (NoColl_suffix hash _ _ Hnc). }
    destruct (lidx_cstep f0 o (proj1 H0) (proj2 Hl0) Hok1) as [L1 [L2 L3]].
    assert (LInv (c_run hash f0 o)) as Hl1.
    { split; [|exact L1]. destruct o; cbn [c_run]; apply nodup_run; exact (proj1 Hl0). }
    destruct (IH _ _ H1 Hl1 Hok2 Hnc) as [R1 [R2 R3]]. split; [exact R1|]. split; [exact R2|].
    intros [X|X]; apply R3.
    + apply orb_true_iff in X as [X|X]; [right; exact (L2 X)|left; exact X].
    + right. exact (L3 X).
Qed.

(* C10 after any history from the empty cache: the listing is exactly the keys the specification map holds, each with the
   entry a lookup finds (its integrity the digest of the last data written under the key) *)
Theorem listing_after_history (h : list cop) :
  forallb (c_ok hash) h = true -> NoColl hash (c_all (fold_left (c_step hash) h cspec0)) -> existsb c_indexes h = true ->
  let f := fold_left (c_run hash) h [] in let s := fold_left (c_step hash) h cspec0 in
  exists items, run (ls hash) f = (Ok items, f) /\
    (forall it, In it items -> exists m, it = LMeta m) /\
    (forall m, In (LMeta m) items <-> abs_idx hash f (m_key m) = Some m) /\
    (forall k, (exists m, In (LMeta m) items /\ m_key m = k) <-> c_map s k <> None) /\
    (forall m a d, In (LMeta m) items -> c_map s (m_key m) = Some (a, d) -> m_sri m = sri_of hash a d).
Proof.
  intros Hok Hnc Hidx f s.
  destruct (lhistory h [] cspec0 (cinv_empty hash) linv_empty Hok Hnc) as [Hc [[Hn [Hi [Hd Hb]]] Hdir]].
  fold f in Hc, Hn, Hi, Hd, Hb, Hdir. fold s in Hc.
  destruct (ls_whole hash f Hn Hi Hd Hb (Hdir (or_introl Hidx))) as [items [Hrun [Hall Hiff]]].
  exists items. split; [exact Hrun|]. split; [exact Hall|]. split; [exact Hiff|].
  destruct Hc as [_ [Hm _]]. split.
  - intros k. specialize (Hm k). split.
    + intros [m [Hin Hk]]. apply Hiff in Hin. rewrite Hk in Hin. destruct (c_map s k) as [[a d]|]; [discriminate|congruence].
    + intros Hne. destruct (c_map s k) as [[a d]|]; [|contradiction]. destruct Hm as [_ [e [He _]]].
      exists e. assert (m_key e = k) as Ek by (unfold abs_idx in He; exact (find_in_key _ _ _ He)). split; [apply Hiff; rewrite Ek; exact He|exact Ek].
  - intros m a d Hin Hk. apply Hiff in Hin. specialize (Hm (m_key m)). rewrite Hk in Hm. destruct Hm as [_ [e [He Hs]]]. congruence.
Qed.

End LH.
