(* MetaP.v — C11: everything a writer attaches to an entry comes back unchanged; truthful defaults.
   Uses the codec round trip of JsonP / RecCodecP to discharge [wf_rec] for every record an API call can write. *)
From Coq Require Import Lia.
From CC Require Import Bytes Codec Utf8 Lines Json Sri Record Fs Prog Api
  BytesP CodecP FsP ProgP SriP RecordP IndexP ReadP WriteP CommitP JsonP RecCodecP.
Local Open Scope N_scope.

Section M.
Variable hash : algo -> bytes -> bytes.

(* what the caller supplies, as boolean side conditions (all satisfiable; see the Example in props/C11.v) *)
Definition meta_ok (j : jv) : bool :=
  jclean j && jutf8 j && Nat.leb (jdepth j) 126 && jcanon j.
Definition opts_ok (key : bytes) (o : wopts) (now : N) : bool :=
  valid_utf8 key && opt_utf8 (option_map sri_text (o_sri o)) &&
  ((match o_time o with Some t => t | None => now end) <? n128) &&
  ((match o_size o with Some s => s | None => 0 end) <? n64) &&
  meta_ok (match o_meta o with Some j => j | None => JNull end).

Lemma opts_ok_rec_ok key o now : opts_ok key o now = true -> rec_ok (smeta_of key o now) = true.
Proof.
  unfold opts_ok, meta_ok, rec_ok, smeta_of. cbn [sm_key sm_integrity sm_time sm_size sm_metadata].
  intros H. rewrite !andb_true_iff in H |- *. tauto.
Qed.

Theorem opts_ok_wf_rec key o now : opts_ok key o now = true -> wf_rec hash (smeta_of key o now).
Proof. intros H. apply wf_rec_api, opts_ok_rec_ok. exact H. Qed.

(* index::insert then a lookup: exactly the supplied fields *)
Theorem insert_find_roundtrip f key o now :
  IndexInv f -> opts_ok key o now = true -> wf_sri_opt o ->
  let f' := snd (run (insert hash key o now) f) in
  run (find hash key) f' = (Ok (new_entry key o now), f') /\
  (forall k, k <> key -> run (find hash k) f' = (Ok (abs_idx hash f k), f')).
Proof.
  intros Hinv Hok Hs f'. destruct (insert_abs hash f key o now Hinv (opts_ok_wf_rec key o now Hok) Hs) as [Hi' [_ [Habs _]]].
  fold f' in Hi', Habs. split.
  - rewrite (find_run hash f' key Hi'), Habs, bytes_eqb_refl. reflexivity.
  - intros k Hk. rewrite (find_run hash f' k Hi'), Habs. apply bytes_eqb_neq in Hk. rewrite Hk. reflexivity.
Qed.

(* the listing of the key's bucket carries the same entry *)
Theorem insert_listed f key o now i :
  IndexInv f -> opts_ok key o now = true -> wf_sri_opt o -> o_sri o = Some i ->
  let f' := snd (run (insert hash key o now) f) in
  exists m, new_entry key o now = Some m /\ In m (ls_bytes hash (bucket_bytes hash f' key)).
Proof.
  intros Hinv Hok Hs Hi f'. destruct (insert_abs hash f key o now Hinv (opts_ok_wf_rec key o now Hok) Hs) as [_ [_ [Habs _]]].
  fold f' in Habs. specialize (Habs key). rewrite bytes_eqb_refl in Habs.
  unfold new_entry in *. rewrite Hi in *. eexists. split; [reflexivity|].
  unfold ls_bytes. apply (find_listed key). exact Habs.
Qed.

End M.
