(* MetaP.v — C11: everything a writer attaches to an entry comes back unchanged; truthful defaults.
   Uses the codec round trip of JsonP / RecCodecP to discharge [wf_rec] for every record an API call can write. *)
From Coq Require Import Lia.
From CC Require Import Bytes Codec Utf8 Lines Json Sri Record Fs Prog Api
  BytesP CodecP FsP ProgP SriP RecordP IndexP ReadP WriteP CommitP JsonP RecCodecP.
Local Open Scope N_scope.

Section M.
Variable hash : algo -> bytes -> bytes.

(* what the caller supplies, as boolean side conditions (all satisfiable; see the Example in props/C11.v) *)
Definition meta_ok (j : jv) : bool :=
  jclean j && jutf8 j && Nat.leb (jdepth j) 126 && jcanon j.
Definition opts_ok (key : bytes) (o : wopts) (now : N) : bool :=
  valid_utf8 key && opt_utf8 (option_map sri_text (o_sri o)) &&
  ((match o_time o with Some t => t | None => now end) <? n128) &&
  ((match o_size o with Some s => s | None => 0 end) <? n64) &&
  meta_ok (match o_meta o with Some j => j | None => JNull end).

Lemma opts_ok_rec_ok key o now : opts_ok key o now = true -> rec_ok (smeta_of key o now) = true.
Proof.
  unfold opts_ok, meta_ok, rec_ok, smeta_of. cbn [sm_key sm_integrity sm_time sm_size sm_metadata].
  intros H. rewrite !andb_true_iff in H |- *. tauto.
Qed.

Theorem opts_ok_wf_rec key o now : opts_ok key o now = true -> wf_rec hash (smeta_of key o now).
Proof. intros H. apply wf_rec_api, opts_ok_rec_ok. exact H. Qed.

(* index::insert then a lookup: exactly the supplied fields *)
Theorem insert_find_roundtrip f key o now :
  IndexInv f -> opts_ok key o now = true -> wf_sri_opt o ->
  let f' := snd (run (insert hash key o now) f) in
  run (find hash key) f' = (Ok (new_entry key o now), f') /\
  (forall k, k <> key -> run (find hash k) f' = (Ok (abs_idx hash f k), f')).
Proof.
  intros Hinv Hok Hs f'. destruct (insert_abs hash f key o now Hinv (opts_ok_wf_rec key o now Hok) Hs) as [Hi' [_ [Habs _]]].
  fold f' in Hi', Habs. split.
  - rewrite (find_run hash f' key Hi'), Habs, bytes_eqb_refl. reflexivity.
  - intros k Hk. rewrite (find_run hash f' k Hi'), Habs. apply bytes_eqb_neq in Hk. rewrite Hk. reflexivity.
Qed.

(* the listing of the key's bucket carries the same entry *)
Theorem insert_listed f key o now i :
  IndexInv f -> opts_ok key o now = true -> wf_sri_opt o -> o_sri o = Some i ->
  let f' := snd (run (insert hash key o now) f) in
  exists m, new_entry key o now = Some m /\ In m (ls_bytes hash (bucket_bytes hash f' key)).
Proof.
  intros Hinv Hok Hs Hi f'. destruct (insert_abs hash f key o now Hinv (opts_ok_wf_rec key o now Hok) Hs) as [_ [_ [Habs _]]].
  fold f' in Habs. specialize (Habs key). rewrite bytes_eqb_refl in Habs.
  unfold new_entry in *. rewrite Hi in *. eexists. split; [reflexivity|].
  unfold ls_bytes. apply (find_listed key). exact Habs.
Qed.

(* ---------- boolean side conditions for whole histories: the [wf_hop] hypothesis of C05 / C17 / C04 discharged ---------- *)
Definition integrity_eqb (a b : integrity) : bool := list_eqb hashv_eqb a b.
Lemma integrity_eqb_eq a b : integrity_eqb a b = true -> a = b.
Proof. apply (proj1 (list_eqb_eq hashv_eqb hashv_eqb_eq a b)). Qed.

Definition sri_opt_ok (o : wopts) : bool :=
  match o_sri o with
  | Some i => match parse_entry_sri (sri_text i) with Some j => integrity_eqb j i | None => false end
  | None => true
  end.
Lemma sri_opt_ok_wf o : sri_opt_ok o = true -> wf_sri_opt o.
Proof.
  unfold sri_opt_ok, wf_sri_opt. intros H i Hi. rewrite Hi in H. destruct (parse_entry_sri (sri_text i)) as [j|]; [|discriminate].
  rewrite (integrity_eqb_eq j i H). reflexivity.
Qed.

Definition hop_ok (h : hop) : bool :=
  match h with
  | HIns key o now => opts_ok key o now && sri_opt_ok o
  | HDel key now => opts_ok key wopts0 now
  end.
Lemma hop_ok_wf h : hop_ok h = true -> wf_hop hash h.
Proof.
  destruct h as [key o now|key now]; cbn [hop_ok wf_hop]; intros H.
  - apply andb_true_iff in H as [H1 H2]. split; [apply opts_ok_wf_rec; exact H1|apply sri_opt_ok_wf; exact H2].
  - apply opts_ok_wf_rec. exact H.
Qed.

(* C05 with every hypothesis decidable: histories of inserts / removals with UTF-8 keys, timestamps < 2^128, sizes < 2^64,
   normal-form metadata and addressable integrities refine the map *)
Theorem find_refines_map_closed (h : list hop) f0 :
  IndexInv f0 -> forallb hop_ok h = true ->
  IndexInv (fold_left (exec_hop hash) h f0) /\
  (forall k, run (find hash k) (fold_left (exec_hop hash) h f0)
             = (Ok (fold_left spec_step h (abs_idx hash f0) k), fold_left (exec_hop hash) h f0)).
Proof.
  intros Hi Hh. apply find_refines_map; [exact Hi|]. apply Forall_forall. intros x Hx. apply hop_ok_wf.
  rewrite forallb_forall in Hh. exact (Hh x Hx).
Qed.

End M.
