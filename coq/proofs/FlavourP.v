(* FlavourP.v — the sync and async families of entry points are observationally the same in the model.
   The model has flavour-specific code exactly where the Rust sources differ: the size handed to the content
   writer (keyed async writers never map the temp file) and the options of the one-shot writes. *)
From CC Require Import Bytes Codec Utf8 Lines Json Sri Record Fs Prog Api Sess
  BytesP CodecP FsP ProgP SriP RecordP IndexP ReadP WriteP CommitP.
From Coq Require Import Lia.
Local Open Scope N_scope.

Section Fl.
Variable hash : algo -> bytes -> bytes.

Definition other (fl : flavour) : flavour := match fl with Sync => Async | Async => Sync end.

(* the operation with the flavour tag replaced *)
Definition reflavour (fl : flavour) (o : op) : op :=
  match o with
  | OWrite _ a k d => OWrite fl a k d
  | OWriteHash _ a d => OWriteHash fl a d
  | OOpen _ w k o => OOpen fl w k o
  | OInsert _ k o => OInsert fl k o
  | ODelete _ k => ODelete fl k
  | OFind _ k => OFind fl k
  | ORead _ k => ORead fl k
  | OReadHash _ i => OReadHash fl i
  | OROpen _ r b => OROpen fl r b
  | OExtract x _ c b d => OExtract x fl c b d
  | OExists _ i => OExists fl i
  | ORemove _ k => ORemove fl k
  | ORemoveHash _ i => ORemoveHash fl i
  | ORemoveFully _ k => ORemoveFully fl k
  | OClear _ => OClear fl
  | other => other
  end.

(* operations whose model program mentions the flavour at all *)
Definition fl_sensitive (o : op) : bool :=
  match o with
  | OWrite _ _ _ _ => true
  | OOpen _ _ (Some _) _ => true
  | _ => false
  end.

Lemma content_size_by_hash fl o : content_size fl None o = o_size o.
Proof. destruct fl; reflexivity. Qed.

Lemma open_writer_by_hash fl fl' o : open_writer fl None o = open_writer fl' None o.
Proof. unfold open_writer. rewrite !content_size_by_hash. reflexivity. Qed.

Theorem write_hash_flavour fl fl' a d : write_hash hash fl a d = write_hash hash fl' a d.
Proof. unfold write_hash, oneshot. rewrite (open_writer_by_hash fl fl'). reflexivity. Qed.

(* every operation except keyed writes: the step function ignores the flavour *)
Theorem step_flavour_blind s o now fl :
  fl_sensitive o = false -> step hash s (reflavour fl o) now = step hash s o now.
Proof.
  destruct o; cbn [fl_sensitive reflavour]; intros H; try reflexivity; try discriminate.
  - cbn [step]. rewrite (write_hash_flavour fl fl0). reflexivity.
  - destruct key; [discriminate|]. cbn [step]. rewrite (open_writer_by_hash fl fl0). reflexivity.
Qed.

(* keyed one-shot writes: write_sync declares no size, async write declares the data length; the keyed async
   writer never maps, the sync one has nothing to map: the two programs run identically on EVERY tree *)
Lemma open_writer_keyed_plain fl key o f :
  (fl = Async \/ o_size o = None) ->
  run (open_writer fl (Some key) o) f =
  let '(r1, f1) := run (step_ok (MkdirAll tmp_dir)) f in
  match r1 with
  | Ok _ =>
      let '(r2, f2) := exec CreateTmp f1 in
      match r2 with
      | RName n => (Ok (mkW (Some key) o (match o_algo o with Some a => a | None => Sha256 end)
                            (InCache (tmp_dir ++ [n])) None 0 0 []), f2)
      | RErr _ => (Err EIoErr, f2)
      | _ => (Stuck, f2)
      end
  | Err e => (Err e, f1) | Panic => (Panic, f1) | Hang => (Hang, f1) | Stuck => (Stuck, f1)
  end.
Proof.
  intros Hfl. unfold open_writer. unfold rbind at 1. rewrite run_bind.
  destruct (run (step_ok (MkdirAll tmp_dir)) f) as [r1 f1]. destruct r1; try reflexivity.
  cbn [run]. destruct (exec CreateTmp f1) as [r2 f2]. destruct r2; try reflexivity.
  assert (content_size fl (Some key) o = None) as ->; [|reflexivity].
  destruct Hfl as [->|H]; [reflexivity|]. destruct fl; [exact H|reflexivity].
Qed.

Definition wsame (w w' : wstate) : Prop :=
  w_key w' = w_key w /\ w_algo w' = w_algo w /\ w_tmp w' = w_tmp w /\ w_map w' = w_map w /\ w_pos w' = w_pos w /\
  w_written w' = w_written w /\ w_data w' = w_data w.

Lemma write_chunk_wsame w w' d f : wsame w w' ->
  match run (write_chunk w d) f, run (write_chunk w' d) f with
  | (Ok a, f1), (Ok b, f2) => wsame a b /\ w_opts a = w_opts w /\ w_opts b = w_opts w' /\ f1 = f2
  | (Err e1, f1), (Err e2, f2) => e1 = e2 /\ f1 = f2
  | (Panic, f1), (Panic, f2) | (Hang, f1), (Hang, f2) | (Stuck, f1), (Stuck, f2) => f1 = f2
  | _, _ => False
  end.
Proof.
  intros [Hk [Ha [Ht [Hm [Hp [Hwr Hd]]]]]]. unfold write_chunk. rewrite Hm, Hp, Ht, Hwr, Hd.
  destruct (w_map w) as [sz|].
  - destruct (w_pos w + lenN d <=? sz).
    + unfold rbind. rewrite !run_bind. destruct (run (step_ok (MmapStore (w_tmp w) (w_pos w) d)) f) as [r f1].
      destruct r; cbn [run]; auto. unfold wsame. cbn. rewrite Hk, Ha. auto 10.
    + unfold rbind. rewrite !run_bind. destruct (run (step_ok (Truncate (w_tmp w) (w_pos w))) f) as [r f1].
      destruct r; cbn [run]; auto. rewrite !run_bind. destruct (run (step_ok (WriteAppend (w_tmp w) d)) f1) as [r2 f2].
      destruct r2; cbn [run]; auto. unfold wsame. cbn. rewrite Hk, Ha. auto 10.
  - unfold rbind. rewrite !run_bind. destruct (run (step_ok (WriteAppend (w_tmp w) d)) f) as [r2 f2].
    destruct r2; cbn [run]; auto. unfold wsame. cbn. rewrite Hk, Ha. auto 10.
Qed.

Lemma close_writer_wsame w w' f : wsame w w' -> run (close_writer hash w') f = run (close_writer hash w) f.
Proof.
  intros [Hk [Ha [Ht [Hm [Hp [Hwr Hd]]]]]]. unfold close_writer, trim, publish. rewrite Ha, Ht, Hm, Hp, Hd. reflexivity.
Qed.

(* the commit of two writers that differ only in the declared size, when the declaration is the truth *)
Lemma commit_wsame w w' now f :
  wsame w w' ->
  o_algo (w_opts w') = o_algo (w_opts w) -> o_sri (w_opts w') = o_sri (w_opts w) -> o_time (w_opts w') = o_time (w_opts w) ->
  o_meta (w_opts w') = o_meta (w_opts w) -> o_raw (w_opts w') = o_raw (w_opts w) ->
  o_size (w_opts w) = None -> o_size (w_opts w') = Some (w_written w) ->
  run (commit hash w' now) f = run (commit hash w now) f.
Proof.
  intros Hs Hal Hsri Htime Hmeta Hraw Hz Hz'. pose proof Hs as [Hk [Ha [Ht [Hm [Hp [Hwr Hd]]]]]].
  unfold commit. unfold rbind. rewrite !run_bind, (close_writer_wsame w w' f Hs).
  destruct (run (close_writer hash w) f) as [r f1]. destruct r; try reflexivity.
  rewrite Hsri, Hz, Hz', Hwr, N.eqb_refl, Hk, Hal, Htime, Hmeta, Hraw. cbn [negb].
  destruct (match o_sri (w_opts w) with Some d => match sri_matches d a with Some _ => Some d | None => None end | None => Some a end); reflexivity.
Qed.

Theorem write_flavour a key data now f :
  run (write hash Async a key data now) f = run (write hash Sync a key data now) f.
Proof.
  unfold write, oneshot. unfold rbind at 1. match goal with |- _ = run (rbind _ _) _ => unfold rbind at 1 end. rewrite !run_bind.
  rewrite (open_writer_keyed_plain Async key (write_opts Async a data) f (or_introl eq_refl)).
  rewrite (open_writer_keyed_plain Sync key (write_opts Sync a data) f (or_intror eq_refl)).
  destruct (run (step_ok (MkdirAll tmp_dir)) f) as [r1 f1]. destruct r1; try reflexivity.
  destruct (exec CreateTmp f1) as [r2 f2]. destruct r2; try reflexivity.
  cbn [write_opts o_algo].
  set (wS := mkW (Some key) (mkWopts (Some a) None None None None None) a (InCache (tmp_dir ++ [n])) None 0 0 []).
  set (wA := mkW (Some key) (mkWopts (Some a) None (Some (lenN data)) None None None) a (InCache (tmp_dir ++ [n])) None 0 0 []).
  assert (wsame wS wA) as Hs by (repeat split).
  destruct data as [|b data'].
  - apply commit_wsame; try reflexivity. exact Hs.
  - set (data := b :: data'). rewrite !run_bind.
    pose proof (write_chunk_wsame wS wA data f2 Hs) as H.
    destruct (run (write_chunk wS data) f2) as [rS fS] eqn:ES. destruct (run (write_chunk wA data) f2) as [rA fA] eqn:EA.
    destruct rS as [wS'|eS| | |]; destruct rA as [wA'|eA| | |]; try contradiction.
    + destruct H as [Hs' [HoS [HoA ->]]]. apply commit_wsame; try (rewrite HoS, HoA; reflexivity); [exact Hs'|rewrite HoS; reflexivity|].
      rewrite HoA. cbn [w_opts wA o_size]. f_equal.
      (* bytes written = length of the one chunk *)
      unfold write_chunk in ES. cbn [w_map wS] in ES. unfold rbind in ES. rewrite run_bind in ES.
      destruct (run (step_ok (WriteAppend (w_tmp wS) data)) f2) as [r3 f3]. destruct r3; cbn [run] in ES; inversion ES; subst. reflexivity.
    + destruct H as [-> ->]. cbn [lift_err w_tmp wS wA]. reflexivity.
    + subst. reflexivity.
    + subst. reflexivity.
    + subst. reflexivity.
Qed.

(* streamed keyed writers (the sync one maps its temp file when a size <= 1 MiB is declared, the async one never
   does): same answer, same lookups for every key, same bytes read back *)
Lemma meta_ext (m m' : meta) :
  m_key m = m_key m' -> m_sri m = m_sri m' -> m_size m = m_size m' -> m_time m = m_time m' ->
  m_metadata m = m_metadata m' -> m_raw m = m_raw m' -> m = m'.
Proof. destruct m, m'. cbn. intros; subst; reflexivity. Qed.

Theorem stream_keyed_flavour (HL : HashLen hash) f key o cs now :
  CacheInv f -> o_sri o = None -> size_ok o (lenN (List.concat cs)) = true ->
  let data := List.concat cs in
  wf_rec hash (smeta_of key (commit_opts o (sri_of hash (algo_of o) data) (lenN data)) now) ->
  let fS := snd (run (stream_write hash Sync (Some key) o cs now) f) in
  let fA := snd (run (stream_write hash Async (Some key) o cs now) f) in
  fst (run (stream_write hash Sync (Some key) o cs now) f) = fst (run (stream_write hash Async (Some key) o cs now) f) /\
  (forall k, abs_idx hash fS k = abs_idx hash fA k) /\
  run (read hash key) fS = (Ok data, fS) /\ run (read hash key) fA = (Ok data, fA) /\
  CacheInv fS /\ CacheInv fA.
Proof.
  intros Hinv Hsri Hsz data Hwf fS fA.
  destruct (stream_write_keyed_roundtrip hash HL f Sync key o cs now Hinv Hsri Hsz Hwf) as [HrS [HiS [HreadS [_ [HoS [mS [HfS HmS]]]]]]].
  destruct (stream_write_keyed_roundtrip hash HL f Async key o cs now Hinv Hsri Hsz Hwf) as [HrA [HiA [HreadA [_ [HoA [mA [HfA HmA]]]]]]].
  fold fS in HiS, HreadS, HoS, HfS. fold fA in HiA, HreadA, HoA, HfA.
  split; [rewrite HrS, HrA; reflexivity|]. split; [|auto].
  intros k. destruct (bytes_eqb k key) eqn:E.
  - apply bytes_eqb_eq in E. subst k.
    rewrite (find_run hash fS key (proj1 HiS)) in HfS. rewrite (find_run hash fA key (proj1 HiA)) in HfA.
    assert (abs_idx hash fS key = Some mS) as -> by congruence.
    assert (abs_idx hash fA key = Some mA) as -> by congruence. f_equal.
    destruct HmS as [S1 [S2 [S3 [S4 [S5 S6]]]]]. destruct HmA as [A1 [A2 [A3 [A4 [A5 A6]]]]]. apply meta_ext; congruence.
  - apply bytes_eqb_neq in E. rewrite (HoS k E), (HoA k E). reflexivity.
Qed.


(* ---------- whole sessions ---------- *)
(* every operation except opening a KEYED streamed writer (the async one ignores the declared size: no mapping) *)
Definition fl_free (o : op) : bool := match o with OOpen _ _ (Some _) _ => false | _ => true end.

Lemma step_any_flavour s o now fl : fl_free o = true -> step hash s (reflavour fl o) now = step hash s o now.
Proof.
  intros Hf. destruct (fl_sensitive o) eqn:E; [|apply step_flavour_blind; exact E].
  destruct o; cbn [fl_sensitive fl_free] in *; try discriminate.
  - (* OWrite *) cbn [reflavour step]. unfold runv. destruct fl, fl0; try reflexivity; [rewrite <- write_flavour|rewrite write_flavour]; reflexivity.
  - destruct key; discriminate.
Qed.

(* any assignment of sync / async to the calls of a session gives the same answers and the same final state *)
Theorem run_ops_any_flavour (g : op -> flavour) ops : forall s i,
  forallb fl_free ops = true -> run_ops hash s (map (fun o => reflavour (g o) o) ops) i = run_ops hash s ops i.
Proof.
  induction ops as [|o ops IH]; intros s i H; cbn [map run_ops forallb] in *; [reflexivity|].
  apply andb_true_iff in H as [H1 H2]. rewrite (step_any_flavour s o (pseudo_now i) (g o) H1).
  destruct (step hash s o (pseudo_now i)) as [r s']. rewrite (IH s' (i + 1) H2). reflexivity.
Qed.

End Fl.
