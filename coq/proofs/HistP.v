(* HistP.v — reads see the latest write, over histories (C02 + C05 + C09 together): after ANY sequence of keyed one-shot
   writes (any flavour, algorithm, data) and removals, from any well-shaped cache, reading a key returns exactly the data of
   the last write to that key — or "not found" if it was never written or removed since —, every earlier value of every
   other key is still stored and readable by address, and nothing else.  The specification is a finite map
   key -> (algorithm, data); the refinement is proved by induction over the history. *)
From CC Require Import Bytes Codec Utf8 Lines Json Sri Record Fs Prog Api Crash
  BytesP CodecP LinesP FsP ProgP SriP RecordP IndexP ReadP WriteP CommitP RemoveP CrashP CrashIdxP KeepP JsonP RecCodecP MetaP.
From Coq Require Import Lia.
Local Open Scope N_scope.

Section Hist.
Variable hash : algo -> bytes -> bytes.
Hypothesis HL : HashLen hash.

Inductive kvop :=
| KWrite (fl : flavour) (a : algo) (key data : bytes) (now : N)
| KRemove (key : bytes) (now : N).

Definition kv_run (f : fs) (o : kvop) : fs :=
  match o with
  | KWrite fl a k d now => snd (run (write hash fl a k d now) f)
  | KRemove k now => snd (run (delete hash k now) f)
  end.

(* the specification: a map from keys to what was last written *)
Definition kv := bytes -> option (algo * bytes).
Definition kv_step (m : kv) (o : kvop) : kv :=
  fun k => match o with
           | KWrite _ a key d _ => if bytes_eqb k key then Some (a, d) else m k
           | KRemove key _ => if bytes_eqb k key then None else m k
           end.

(* decidable side conditions on the caller's arguments (UTF-8 key, time < 2^128, size < 2^64): what the record codec needs *)
Definition kv_ok (o : kvop) : bool :=
  match o with
  | KWrite fl a key d now => opts_ok key (commit_opts (write_opts fl a d) (sri_of hash a d) (lenN d)) now
  | KRemove key now => opts_ok key wopts0 now
  end.

Definition written (h : list kvop) : list (algo * bytes) :=
  flat_map (fun o => match o with KWrite _ a _ d _ => [(a, d)] | KRemove _ _ => [] end) h.

(* no two different data of the history share a content path (no digest collision among them) *)
Definition NoColl (W : list (algo * bytes)) : Prop :=
  forall a d a' d', In (a, d) W -> In (a', d') W -> cpath hash a d = cpath hash a' d' -> d = d'.

Definition HInv (f : fs) (m : kv) (W : list (algo * bytes)) : Prop :=
  CacheInv f /\
  (forall k, match m k with
             | Some (a, d) => In (a, d) W /\ exists e, abs_idx hash f k = Some e /\ m_sri e = sri_of hash a d
             | None => abs_idx hash f k = None
             end) /\
  (forall a d, In (a, d) W -> lookup f (InCache (cpath hash a d)) = Some (File d)).

Lemma hinv_step f m W o :
  HInv f m W -> kv_ok o = true -> NoColl (W ++ written [o]) ->
  HInv (kv_run f o) (kv_step m o) (W ++ written [o]).
Proof.
  intros [Hinv [Hm Hst]] Hok Hnc. destruct o as [fl a key data now|key now]; cbn [kv_run kv_step written flat_map app] in *.
  - (* a write *)
    pose proof (opts_ok_wf_rec hash key _ now Hok) as Hwf.
    destruct (write_roundtrip hash HL f fl a key data now Hinv Hwf) as [_ [Hinv' [_ [_ [Hfr [e [He [_ [Hsri _]]]]]]]]].
    pose proof (write_stored hash HL f fl a key data now Hinv Hwf) as Hnew.
    set (f' := snd (run (write hash fl a key data now) f)) in *.
    assert (abs_idx hash f' key = Some e) as Hkey.
    { pose proof (find_run hash f' key (proj1 Hinv')) as E. rewrite He in E. inversion E. reflexivity. }
    split; [exact Hinv'|]. split.
    + intros k. unfold kv_step. destruct (bytes_eqb k key) eqn:Ek.
      * apply bytes_eqb_eq in Ek. subst k. split; [apply in_or_app; right; left; reflexivity|]. exists e. split; [exact Hkey|exact Hsri].
      * apply bytes_eqb_neq in Ek. specialize (Hm k). rewrite (Hfr k Ek).
        destruct (m k) as [[a0 d0]|]; [|exact Hm]. destruct Hm as [Hin Hex]. split; [apply in_or_app; left; exact Hin|exact Hex].
    + intros a0 d0 Hin. apply in_app_or in Hin as [Hin|[E|[]]].
      * (* an older value: kept by the write *)
        assert (algo_of (write_opts fl a data) = a) as Ea by (destruct fl; reflexivity).
        assert (In (a, data) (W ++ [(a, data)])) as Hin1 by (apply in_or_app; right; left; reflexivity).
        assert (In (a0, d0) (W ++ [(a, data)])) as Hin2 by (apply in_or_app; left; exact Hin).
        assert (cfile hash (InCache (cpath hash a0 d0))) as Hcf by (exists a0, d0; reflexivity).
        destruct (oneshot_keeps hash HL _ Hcf f fl (Some key) (write_opts fl a data) data now d0 Hinv (Hst a0 d0 Hin)) as [_ Hk]; [|exact Hk].
        rewrite Ea. intros E. assert (cpath hash a data = cpath hash a0 d0) as E' by congruence. exact (Hnc _ _ _ _ Hin1 Hin2 E').
      * inversion E; subst a0 d0. exact Hnew.
  - (* a removal *)
    pose proof (opts_ok_wf_rec hash key _ now Hok) as Hwf.
    destruct (remove_scope hash f key now (proj1 Hinv) Hwf) as [_ [Hi' [Habs [Hfr _]]]].
    set (f' := snd (run (delete hash key now) f)) in *. rewrite app_nil_r in *.
    split; [|split].
    + destruct Hinv as [Hi [Hcs Hts]]. split; [exact Hi'|]. split.
      * intros p n Hl. rewrite Hfr in Hl by (intros q E; inversion E as [[H1 H2]]; vm_compute in H1; discriminate). exact (Hcs p n Hl).
      * unfold TmpShape, dir_or_absent in *. rewrite Hfr by (intros q E; inversion E as [[H1 H2]]; vm_compute in H1; discriminate). exact Hts.
    + intros k. unfold kv_step. rewrite Habs. destruct (bytes_eqb k key); [reflexivity|exact (Hm k)].
    + intros a0 d0 Hin. rewrite Hfr by (intros q E; inversion E as [[H1 H2]]; vm_compute in H1; discriminate). exact (Hst a0 d0 Hin).
Qed.


Lemma written_app h o : written (h ++ [o]) = written h ++ written [o].
Proof. unfold written. rewrite flat_map_app. reflexivity. Qed.

Lemma NoColl_prefix W W' : NoColl (W ++ W') -> NoColl W.
Proof. intros H a d a' d' H1 H2. apply H; apply in_or_app; left; assumption. Qed.

(* the refinement over whole histories, starting from any cache that satisfies the invariant for some map *)
Theorem history_refines (h : list kvop) f0 m0 W0 :
  HInv f0 m0 W0 -> forallb kv_ok h = true -> NoColl (W0 ++ written h) ->
  HInv (fold_left kv_run h f0) (fold_left kv_step h m0) (W0 ++ written h).
Proof.
  revert f0 m0 W0. induction h as [|o h IH] using rev_ind; intros f0 m0 W0 H0 Hok Hnc.
  - cbn. rewrite app_nil_r. exact H0.
  - rewrite forallb_app in Hok. apply andb_true_iff in Hok as [Hok1 Hok2]. cbn [forallb] in Hok2. rewrite andb_true_r in Hok2.
    rewrite !fold_left_app. cbn [fold_left]. rewrite written_app, app_assoc in *.
    apply hinv_step; [|exact Hok2|exact Hnc]. apply IH; [exact H0|exact Hok1|exact (NoColl_prefix _ _ Hnc)].
Qed.

(* what the invariant means for a caller *)
Theorem hinv_reads f m W :
  HInv f m W ->
  (forall k, run (read hash k) f = (match m k with Some (a, d) => Ok d | None => Err ENotFound end, f)) /\
  (forall a d, In (a, d) W -> run (read_hash hash (sri_of hash a d)) f = (Ok d, f)).
Proof.
  intros [Hinv [Hm Hst]]. split.
  - intros k. specialize (Hm k). destruct (m k) as [[a d]|].
    + destruct Hm as [Hin [e [He Hs]]]. rewrite (read_by_key hash f k e (proj1 Hinv) He), Hs.
      apply (read_hash_stored hash HL). exact (Hst a d Hin).
    + unfold read, by_key, rbind. rewrite run_bind, (find_run hash f k (proj1 Hinv)), Hm. reflexivity.
  - intros a d Hin. apply (read_hash_stored hash HL). exact (Hst a d Hin).
Qed.

Lemma hinv_empty : HInv [] (fun _ => None) [].
Proof.
  split; [split; [intros p n H; discriminate|split; [intros p n H; discriminate|left; reflexivity]]|].
  split; [intros k; reflexivity|intros a d []].
Qed.

(* from the empty cache: the reads after any history are those of the map *)
Corollary reads_see_latest_write (h : list kvop) :
  forallb kv_ok h = true -> NoColl (written h) ->
  let f := fold_left kv_run h [] in
  forall k, run (read hash k) f = (match fold_left kv_step h (fun _ => None) k with Some (a, d) => Ok d | None => Err ENotFound end, f).
Proof.
  intros Hok Hnc f k. exact (proj1 (hinv_reads _ _ _ (history_refines h [] _ [] hinv_empty Hok Hnc)) k).
Qed.

(* the map itself: the last write to a key wins, a removal clears, other keys are untouched *)
Lemma kv_last_write h m fl a key d now k :
  fold_left kv_step (h ++ [KWrite fl a key d now]) m k = if bytes_eqb k key then Some (a, d) else fold_left kv_step h m k.
Proof. rewrite fold_left_app. reflexivity. Qed.
Lemma kv_removed h m key now k :
  fold_left kv_step (h ++ [KRemove key now]) m k = if bytes_eqb k key then None else fold_left kv_step h m k.
Proof. rewrite fold_left_app. reflexivity. Qed.

End Hist.
