(* HistP.v — reads see the latest write, over histories (C02 + C05 + C09 together): after ANY sequence of keyed one-shot
   writes (any flavour, algorithm, data) and removals, from any well-shaped cache, reading a key returns exactly the data of
   the last write to that key — or "not found" if it was never written or removed since —, every earlier value of every
   other key is still stored and readable by address, and nothing else.  The specification is a finite map
   key -> (algorithm, data); the refinement is proved by induction over the history. *)
From CC Require Import Bytes Codec Utf8 Lines Json Sri Record Fs Prog Api Crash
  BytesP CodecP LinesP FsP ProgP SriP RecordP IndexP ReadP WriteP CommitP RemoveP CrashP CrashIdxP KeepP JsonP RecCodecP MetaP.
From Coq Require Import Lia.
Local Open Scope N_scope.

Section Hist.
Variable hash : algo -> bytes -> bytes.
Hypothesis HL : HashLen hash.

Inductive kvop :=
| KWrite (fl : flavour) (a : algo) (key data : bytes) (now : N)
| KRemove (key : bytes) (now : N).

Definition kv_run (f : fs) (o : kvop) : fs :=
  match o with
  | KWrite fl a k d now => snd (run (write hash fl a k d now) f)
  | KRemove k now => snd (run (delete hash k now) f)
  end.

(* the specification: a map from keys to what was last written *)
Definition kv := bytes -> option (algo * bytes).
Definition kv_step (m : kv) (o : kvop) : kv :=
  fun k => match o with
           | KWrite _ a key d _ => if bytes_eqb k key then Some (a, d) else m k
           | KRemove key _ => if bytes_eqb k key then None else m k
           end.

(* decidable side conditions on the caller's arguments (UTF-8 key, time < 2^128, size < 2^64): what the record codec needs *)
Definition kv_ok (o : kvop) : bool :=
  match o with
  | KWrite fl a key d now => opts_ok key (commit_opts (write_opts fl a d) (sri_of hash a d) (lenN d)) now
  | KRemove key now => opts_ok key wopts0 now
  end.

Definition written (h : list kvop) : list (algo * bytes) :=
  flat_map (fun o => match o with KWrite _ a _ d _ => [(a, d)] | KRemove _ _ => [] end) h.

(* no two different data of the history share a content path (no digest collision among them) *)
Definition NoColl (W : list (algo * bytes)) : Prop :=
  forall a d a' d', In (a, d) W -> In (a', d') W -> cpath hash a d = cpath hash a' d' -> d = d'.

Definition HInv (f : fs) (m : kv) (W : list (algo * bytes)) : Prop :=
  CacheInv f /\
  (forall k, match m k with
             | Some (a, d) => In (a, d) W /\ exists e, abs_idx hash f k = Some e /\ m_sri e = sri_of hash a d
             | None => abs_idx hash f k = None
             end) /\
  (forall a d, In (a, d) W -> lookup f (InCache (cpath hash a d)) = Some (File d)).

Lemma hinv_step f m W o :
  HInv f m W -> kv_ok o = true -> NoColl (W ++ written [o]) ->
  HInv (kv_run f o) (kv_step m o) (W ++ written [o]).
Proof.
  intros [Hinv [Hm Hst]] Hok Hnc. destruct o as [fl a key data now|key now]; cbn [kv_run kv_step written flat_map app] in *.
  - (* a write *)
    pose proof (opts_ok_wf_rec hash key _ now Hok) as Hwf.
    destruct (write_roundtrip hash HL f fl a key data now Hinv Hwf) as [_ [Hinv' [_ [_ [Hfr [e [He [_ [Hsri _]]]]]]]]].
    pose proof (write_stored hash HL f fl a key data now Hinv Hwf) as Hnew.
    set (f' := snd (run (write hash fl a key data now) f)) in *.
    assert (abs_idx hash f' key = Some e) as Hkey.
    { pose proof (find_run hash f' key (proj1 Hinv')) as E. rewrite He in E. inversion E. reflexivity. }
    split; [exact Hinv'|]. split.
    + intros k. unfold kv_step. destruct (bytes_eqb k key) eqn:Ek.
      * apply bytes_eqb_eq in Ek. subst k. split; [apply in_or_app; right; left; reflexivity|]. exists e. split; [exact Hkey|exact Hsri].
      * apply bytes_eqb_neq in Ek. specialize (Hm k). rewrite (Hfr k Ek).
        destruct (m k) as [[a0 d0]|]; [|exact Hm]. destruct Hm as [Hin Hex]. split; [apply in_or_app; left; exact Hin|exact Hex].
    + intros a0 d0 Hin. apply in_app_or in Hin as [Hin|[E|[]]].
      * (* an older value: kept by the write *)
        assert (algo_of (write_opts fl a data) = a) as Ea by (destruct fl; reflexivity).
        assert (In (a, data) (W ++ [(a, data)])) as Hin1 by (apply in_or_app; right; left; reflexivity).
        assert (In (a0, d0) (W ++ [(a, data)])) as Hin2 by (apply in_or_app; left; exact Hin).
        assert (cfile hash (InCache (cpath hash a0 d0))) as Hcf by (exists a0, d0; reflexivity).
        destruct (oneshot_keeps hash HL _ Hcf f fl (Some key) (write_opts fl a data) data now d0 Hinv (Hst a0 d0 Hin)) as [_ Hk]; [|exact Hk].
        rewrite Ea. intros E. assert (cpath hash a data = cpath hash a0 d0) as E' by congruence. exact (Hnc _ _ _ _ Hin1 Hin2 E').
      * inversion E; subst a0 d0. exact Hnew.
  - (* a removal *)
    pose proof (opts_ok_wf_rec hash key _ now Hok) as Hwf.
    destruct (remove_scope hash f key now (proj1 Hinv) Hwf) as [_ [Hi' [Habs [Hfr _]]]].
    set (f' := snd (run (delete hash key now) f)) in *. rewrite app_nil_r in *.
    split; [|split].
    + destruct Hinv as [Hi [Hcs Hts]]. split; [exact Hi'|]. split.
      * intros p n Hl. rewrite Hfr in Hl by (intros q E; inversion E as [[H1 H2]]; vm_compute in H1; discriminate). exact (Hcs p n Hl).
      * unfold TmpShape, dir_or_absent in *. rewrite Hfr by (intros q E; inversion E as [[H1 H2]]; vm_compute in H1; discriminate). exact Hts.
    + intros k. unfold kv_step. rewrite Habs. destruct (bytes_eqb k key); [reflexivity|exact (Hm k)].
    + intros a0 d0 Hin. rewrite Hfr by (intros q E; inversion E as [[H1 H2]]; vm_compute in H1; discriminate). exact (Hst a0 d0 Hin).
Qed.


Lemma written_app h o : written (h ++ [o]) = written h ++ written [o].
Proof. unfold written. rewrite flat_map_app. reflexivity. Qed.

Lemma NoColl_prefix W W' : NoColl (W ++ W') -> NoColl W.
Proof. intros H a d a' d' H1 H2. apply H; apply in_or_app; left; assumption. Qed.

(* the refinement over whole histories, starting from any cache that satisfies the invariant for some map *)
Theorem history_refines (h : list kvop) f0 m0 W0 :
  HInv f0 m0 W0 -> forallb kv_ok h = true -> NoColl (W0 ++ written h) ->
  HInv (fold_left kv_run h f0) (fold_left kv_step h m0) (W0 ++ written h).
Proof.
  revert f0 m0 W0. induction h as [|o h IH] using rev_ind; intros f0 m0 W0 H0 Hok Hnc.
  - cbn. rewrite app_nil_r. exact H0.
  - rewrite forallb_app in Hok. apply andb_true_iff in Hok as [Hok1 Hok2]. cbn [forallb] in Hok2. rewrite andb_true_r in Hok2.
    rewrite !fold_left_app. cbn [fold_left]. rewrite written_app, app_assoc in *.
    apply hinv_step; [|exact Hok2|exact Hnc]. apply IH; [exact H0|exact Hok1|exact (NoColl_prefix _ _ Hnc)].
Qed.

(* what the invariant means for a caller *)
Theorem hinv_reads f m W :
  HInv f m W ->
  (forall k, run (read hash k) f = (match m k with Some (a, d) => Ok d | None => Err ENotFound end, f)) /\
  (forall a d, In (a, d) W -> run (read_hash hash (sri_of hash a d)) f = (Ok d, f)).
Proof.
  intros [Hinv [Hm Hst]]. split.
  - intros k. specialize (Hm k). destruct (m k) as [[a d]|].
    + destruct Hm as [Hin [e [He Hs]]]. rewrite (read_by_key hash f k e (proj1 Hinv) He), Hs.
      apply (read_hash_stored hash HL). exact (Hst a d Hin).
    + unfold read, by_key, rbind. rewrite run_bind, (find_run hash f k (proj1 Hinv)), Hm. reflexivity.
  - intros a d Hin. apply (read_hash_stored hash HL). exact (Hst a d Hin).
Qed.

Lemma hinv_empty : HInv [] (fun _ => None) [].
Proof.
  split; [split; [intros p n H; discriminate|split; [intros p n H; discriminate|left; reflexivity]]|].
  split; [intros k; reflexivity|intros a d []].
Qed.

(* from the empty cache: the reads after any history are those of the map *)
Corollary reads_see_latest_write (h : list kvop) :
  forallb kv_ok h = true -> NoColl (written h) ->
  let f := fold_left kv_run h [] in
  forall k, run (read hash k) f = (match fold_left kv_step h (fun _ => None) k with Some (a, d) => Ok d | None => Err ENotFound end, f).
Proof.
  intros Hok Hnc f k. exact (proj1 (hinv_reads _ _ _ (history_refines h [] _ [] hinv_empty Hok Hnc)) k).
Qed.

(* the map itself: the last write to a key wins, a removal clears, other keys are untouched *)
Lemma kv_last_write h m fl a key d now k :
  fold_left kv_step (h ++ [KWrite fl a key d now]) m k = if bytes_eqb k key then Some (a, d) else fold_left kv_step h m k.
Proof. rewrite fold_left_app. reflexivity. Qed.
Lemma kv_removed h m key now k :
  fold_left kv_step (h ++ [KRemove key now]) m k = if bytes_eqb k key then None else fold_left kv_step h m k.
Proof. rewrite fold_left_app. reflexivity. Qed.

End Hist.

(* ================= the same with content removal, writes by address and streamed writes ================= *)
Section Hist2.
Variable hash : algo -> bytes -> bytes.
Hypothesis HL : HashLen hash.

Definition ad_eqb (x y : algo * bytes) : bool := algo_eqb (fst x) (fst y) && bytes_eqb (snd x) (snd y).
Lemma ad_eqb_eq x y : ad_eqb x y = true <-> x = y.
Proof.
  destruct x as [a d], y as [a' d']. unfold ad_eqb. cbn [fst snd]. rewrite andb_true_iff, algo_eqb_eq, bytes_eqb_eq.
  split; [intros [-> ->]; reflexivity|intros E; inversion E; auto].
Qed.
Definition memb (x : algo * bytes) (l : list (algo * bytes)) : bool := existsb (ad_eqb x) l.
Lemma memb_cons x y l : memb x (y :: l) = ad_eqb x y || memb x l.
Proof. reflexivity. Qed.
Definition del (x : algo * bytes) (l : list (algo * bytes)) : list (algo * bytes) := filter (fun y => negb (ad_eqb x y)) l.
Lemma memb_del_same x l : memb x (del x l) = false.
Proof.
  induction l as [|y l IH]; [reflexivity|]. cbn [del filter]. destruct (ad_eqb x y) eqn:E; cbn [negb]; [exact IH|].
  fold (del x l). rewrite memb_cons, E, IH. reflexivity.
Qed.
Lemma memb_del_other x y l : x <> y -> memb y (del x l) = memb y l.
Proof.
  intros Hne. induction l as [|z l IH]; [reflexivity|]. cbn [del filter]. fold (del x l).
  destruct (ad_eqb x z) eqn:E; cbn [negb].
  - apply ad_eqb_eq in E. subst z. rewrite memb_cons, IH.
    destruct (ad_eqb y x) eqn:E2; [apply ad_eqb_eq in E2; congruence|reflexivity].
  - rewrite !memb_cons, IH. reflexivity.
Qed.

Inductive cop :=
| CWrite (fl : flavour) (a : algo) (key data : bytes) (now : N)
| CStream (fl : flavour) (key : bytes) (o : wopts) (cs : list bytes) (now : N)
| CWriteHash (fl : flavour) (a : algo) (data : bytes)
| CRemove (key : bytes) (now : N)
| CRemoveHash (a : algo) (d : bytes)
| CRemoveFully (key : bytes).

Definition c_run (f : fs) (o : cop) : fs :=
  match o with
  | CWrite fl a k d now => snd (run (write hash fl a k d now) f)
  | CStream fl k o cs now => snd (run (stream_write hash fl (Some k) o cs now) f)
  | CWriteHash fl a d => snd (run (write_hash hash fl a d) f)
  | CRemove k now => snd (run (delete hash k now) f)
  | CRemoveHash a d => snd (run (remove_hash (sri_of hash a d)) f)
  | CRemoveFully k => snd (run (remove_fully hash k) f)
  end.

(* the specification: the map, what is stored now, everything that was ever named *)
Record cspec := mkC { c_map : kv; c_stored : list (algo * bytes); c_all : list (algo * bytes) }.
Definition c_step (s : cspec) (o : cop) : cspec :=
  match o with
  | CWrite _ a key d _ =>
      mkC (fun k => if bytes_eqb k key then Some (a, d) else c_map s k) ((a, d) :: c_stored s) ((a, d) :: c_all s)
  | CStream _ key o cs _ =>
      let ad := (algo_of o, List.concat cs) in
      mkC (fun k => if bytes_eqb k key then Some ad else c_map s k) (ad :: c_stored s) (ad :: c_all s)
  | CWriteHash _ a d => mkC (c_map s) ((a, d) :: c_stored s) ((a, d) :: c_all s)
  | CRemove key _ => mkC (fun k => if bytes_eqb k key then None else c_map s k) (c_stored s) (c_all s)
  | CRemoveHash a d => mkC (c_map s) (del (a, d) (c_stored s)) ((a, d) :: c_all s)
  | CRemoveFully key =>
      (* the bucket file is unlinked: every key that shares it is gone with it; the key's content is deleted *)
      mkC (fun k => if list_eqb bytes_eqb (bucket_path hash k) (bucket_path hash key) then None else c_map s k)
          (match c_map s key with Some ad => del ad (c_stored s) | None => c_stored s end) (c_all s)
  end.

Definition c_ok (o : cop) : bool :=
  match o with
  | CWrite fl a key d now => opts_ok key (commit_opts (write_opts fl a d) (sri_of hash a d) (lenN d)) now
  | CStream fl key o cs now =>
      match o_sri o with None => true | Some _ => false end && size_ok o (lenN (List.concat cs)) &&
      opts_ok key (commit_opts o (sri_of hash (algo_of o) (List.concat cs)) (lenN (List.concat cs))) now
  | CWriteHash _ _ _ => true
  | CRemove key now => opts_ok key wopts0 now
  | CRemoveHash _ _ => true
  | CRemoveFully _ => true
  end.

(* what a read of key k must answer *)
Definition c_read (s : cspec) (k : bytes) : res bytes :=
  match c_map s k with
  | Some (a, d) => if memb (a, d) (c_stored s) then Ok d else Err EIoErr
  | None => Err ENotFound
  end.

Definition CInv (f : fs) (s : cspec) : Prop :=
  CacheInv f /\
  (forall k, match c_map s k with
             | Some (a, d) => In (a, d) (c_all s) /\ exists e, abs_idx hash f k = Some e /\ m_sri e = sri_of hash a d
             | None => abs_idx hash f k = None
             end) /\
  (forall a d, In (a, d) (c_all s) ->
     lookup f (InCache (cpath hash a d)) = if memb (a, d) (c_stored s) then Some (File d) else None).

(* two named (algorithm, data) pairs with one path are the same pair *)
Lemma nocoll_pair W a d a' d' :
  NoColl hash W -> In (a, d) W -> In (a', d') W -> cpath hash a d = cpath hash a' d' -> (a, d) = (a', d').
Proof.
  intros Hn H1 H2 E. pose proof (Hn _ _ _ _ H1 H2 E) as Ed. subst d'. f_equal.
  destruct (algo_eqb a a') eqn:Ea; [apply algo_eqb_eq; exact Ea|]. exfalso.
  apply (algos_disjoint hash a d a' d); [intros X; rewrite X, algo_eqb_refl in Ea; discriminate|exact E].
Qed.

(* ---------- frames: a write leaves every other content location as it was ---------- *)
Lemma ksafe'_untouched l c : ksafe' l c -> ~ may_touch c l.
Proof. destruct c; cbn [ksafe' may_touch]; auto. intros [H1 H2] [E|E]; congruence. Qed.

Lemma untouched_final {A} l (p : prog A) f :
  steps_ok (fun c _ => ksafe' l c) p f -> lookup (snd (run p f)) l = lookup f l.
Proof.
  intros Hs. destruct (untouched_crash (fun x => x = l) p f) as [_ H]; [|apply H; reflexivity].
  revert f Hs. induction p as [a|c k IH]; intros f Hs; cbn [steps_ok] in *; [exact I|].
  destruct Hs as [Hc Hk]. split; [intros x Hx ->; exact (ksafe'_untouched l c Hc Hx)|].
  destruct (exec c f) as [r f1]. apply IH. exact Hk.
Qed.

Lemma kp_publish l w cp sri :
  cfile hash l -> wtmp_is w -> InCache cp <> l -> (exists x a b c, cp = [content_dir; x; a; b; c]) ->
  all_steps (ksafe' l) (publish w cp sri).
Proof.
  intros Hl [n Hn] Hne [x [a [b [c ->]]]].
  assert (w_tmp w <> l) as Htl by (rewrite Hn; apply (cfile_not_tmp hash); exact Hl).
  assert (forall (r : res integrity), all_steps (ksafe' l) (unlink_quiet (w_tmp w) r)) as Hunl.
  { intros r. rewrite Hn. apply (k_unlink_quiet hash l Hl). }
  unfold publish. cbn [all_steps]. split.
  - cbn [ksafe' may_touch parent removelast]. intros Hin. apply in_map_iff in Hin as [q [E Hq]]. destruct Hl as [a0 [d0 ->]].
    inversion E; subst q. apply prefixes_length in Hq. unfold cpath in Hq. cbn in Hq. lia.
  - intros r0. destruct r0; try apply Hunl.
    all: cbn [all_steps]; split; [cbn [ksafe']; split; [exact Htl|exact Hne]|].
    all: intros r; destruct r; try exact I.
    all: cbn [all_steps]; split; [cbn [ksafe' may_touch]; tauto|]; intros r2; destruct r2 as [| |[|]| | | |]; apply Hunl.
Qed.

Lemma kp_commit l w now :
  cfile hash l -> wtmp_is w -> InCache (cpath hash (w_algo w) (w_data w)) <> l -> all_steps (ksafe' l) (commit hash w now).
Proof.
  intros Hl Hw Hne. unfold commit. apply all_steps_rbind.
  - unfold close_writer. rewrite (content_path_computed hash _ _ HL).
    apply all_steps_bind; [apply (k_trim hash l Hl); exact Hw|].
    intros rt. destruct rt; try (destruct Hw as [n Hn]; rewrite Hn; apply (k_unlink_quiet hash l Hl)).
    apply kp_publish; [exact Hl|exact Hw|exact Hne|unfold cpath; eauto 10].
  - intros wsri.
    destruct (match o_sri (w_opts w) with Some d => match sri_matches d wsri with Some _ => Some d | None => None end | None => Some wsri end); [|exact I].
    destruct (match o_size (w_opts w) with Some s => negb (s =? w_written w) | None => false end); destruct (o_size (w_opts w));
      try exact I; destruct (w_key w); try exact I; apply (k_insert hash l Hl).
Qed.

Lemma kp_write_chunks l f w cs :
  cfile hash l -> WInv f w -> steps_ok (fun c _ => ksafe' l c) (write_chunks w cs) f.
Proof.
  intros Hl. revert f w. induction cs as [|c cs IH]; intros f w Hw; cbn [write_chunks]; [exact I|].
  unfold rbind. apply steps_ok_bind. split.
  - apply (all_steps_ok (ksafe' l)); [auto|]. apply (k_write_chunk hash l Hl). exact (WInv_wtmp_is f w Hw).
  - destruct (write_chunk_ok hash f w c Hw) as [w1 [f1 [Hr [Hw1 _]]]]. rewrite Hr. cbn [fst snd]. apply IH. exact Hw1.
Qed.

Lemma stream_write_frame f fl key o cs now l :
  CacheInv f -> cfile hash l -> InCache (cpath hash (algo_of o) (List.concat cs)) <> l ->
  lookup (snd (run (stream_write hash fl key o cs now) f)) l = lookup f l.
Proof.
  intros Hinv Hl Hne. apply untouched_final.
  unfold stream_write, rbind. apply steps_ok_bind. split.
  - apply (all_steps_ok (ksafe' l)); [auto|apply (k_open_writer hash l Hl)].
  - destruct (open_writer_inv hash f fl key o Hinv) as [w [f1 [Hr [Hw [Hi1 [Hd0 [_ [_ [Ha _]]]]]]]]]. rewrite Hr. cbn [fst snd].
    apply steps_ok_bind. split; [apply kp_write_chunks; assumption|].
    destruct (write_chunks_ok hash f1 w cs Hw) as [w2 [f2 [Hr2 [Hw2 [Hs2 [Hd2 _]]]]]]. rewrite Hr2. cbn [fst snd].
    apply (all_steps_ok (ksafe' l)); [auto|]. apply kp_commit; [exact Hl|exact (WInv_wtmp_is f2 w2 Hw2)|].
    destruct Hs2 as (_ & _ & Ha2 & _). rewrite Ha2, Ha, Hd2, Hd0. exact Hne.
Qed.


Lemma write_frame f fl a key data now l :
  CacheInv f -> cfile hash l -> InCache (cpath hash a data) <> l ->
  lookup (snd (run (write hash fl a key data now) f)) l = lookup f l.
Proof.
  intros Hinv Hl Hne. unfold write. rewrite (oneshot_stream hash _ _ _ _ _ _ Hinv).
  apply stream_write_frame; [exact Hinv|exact Hl|]. rewrite concat_oneshot.
  assert (algo_of (write_opts fl a data) = a) as -> by (destruct fl; reflexivity). exact Hne.
Qed.
Lemma write_hash_frame f fl a data l :
  CacheInv f -> cfile hash l -> InCache (cpath hash a data) <> l ->
  lookup (snd (run (write_hash hash fl a data) f)) l = lookup f l.
Proof.
  intros Hinv Hl Hne. unfold write_hash. rewrite (oneshot_stream hash _ _ _ _ _ _ Hinv).
  apply stream_write_frame; [exact Hinv|exact Hl|]. rewrite concat_oneshot. exact Hne.
Qed.

(* the store part of the invariant after (a, d) was written *)
Lemma store_after_write f f' St U a d :
  NoColl hash ((a, d) :: U) ->
  (forall a0 d0, In (a0, d0) U -> lookup f (InCache (cpath hash a0 d0)) = if memb (a0, d0) St then Some (File d0) else None) ->
  lookup f' (InCache (cpath hash a d)) = Some (File d) ->
  (forall l, cfile hash l -> InCache (cpath hash a d) <> l -> lookup f' l = lookup f l) ->
  forall a0 d0, In (a0, d0) ((a, d) :: U) ->
    lookup f' (InCache (cpath hash a0 d0)) = if memb (a0, d0) ((a, d) :: St) then Some (File d0) else None.
Proof.
  intros Hnc Hold Hnew Hfr a0 d0 Hin. rewrite memb_cons.
  destruct (ad_eqb (a0, d0) (a, d)) eqn:E.
  - apply ad_eqb_eq in E. inversion E; subst a0 d0. exact Hnew.
  - cbn [orb]. destruct Hin as [Hin|Hin]; [inversion Hin; subst a0 d0; rewrite (proj2 (ad_eqb_eq (a, d) (a, d)) eq_refl) in E; discriminate|].
    rewrite Hfr; [exact (Hold a0 d0 Hin)|eexists _, _; reflexivity|].
    intros X. assert (cpath hash a d = cpath hash a0 d0) as X' by congruence.
    pose proof (nocoll_pair _ a d a0 d0 Hnc (or_introl eq_refl) (or_intror Hin) X') as Y. inversion Y; subst a0 d0.
    rewrite (proj2 (ad_eqb_eq (a, d) (a, d)) eq_refl) in E. discriminate.
Qed.

Lemma read_hash_gone f a d :
  lookup f (InCache (cpath hash a d)) = None -> run (read_hash hash (sri_of hash a d)) f = (Err EIoErr, f).
Proof.
  intros H. unfold read_hash, with_cpath. rewrite (content_path_computed hash a d HL).
  unfold rbind, read_file. cbn [bind run]. unfold exec, resolve. rewrite H. reflexivity.
Qed.

Lemma path_eqb_eq (p q : path) : list_eqb bytes_eqb p q = true <-> p = q.
Proof.
  revert q. induction p as [|x p IH]; intros [|y q]; cbn [list_eqb]; try (split; [discriminate|discriminate]); [split; reflexivity|].
  rewrite andb_true_iff, bytes_eqb_eq, IH. split; [intros [-> ->]; reflexivity|intros E; inversion E; auto].
Qed.

(* the run of a full removal in closed form *)
Lemma remove_fully_run f key :
  IndexInv f ->
  run (remove_fully hash key) f =
  match abs_idx hash f key with
  | Some m =>
      match content_path (m_sri m) with
      | Some cp =>
          match lookup f (InCache cp) with
          | Some Dir => (Err EIoErr, f)
          | Some _ => run (step_ok (Unlink (InCache (bucket_path hash key)))) (remove f (InCache cp))
          | None => run (step_ok (Unlink (InCache (bucket_path hash key)))) f
          end
      | None => (Panic, f)
      end
  | None => run (step_ok (Unlink (InCache (bucket_path hash key)))) f
  end.
Proof.
  intros Hi. unfold remove_fully. unfold rbind at 1. rewrite run_bind, (find_run hash f key Hi). cbn [fst snd].
  destruct (abs_idx hash f key) as [m|]; unfold rbind; rewrite run_bind.
  - unfold with_cpath. destruct (content_path (m_sri m)) as [cp|]; [|reflexivity].
    rewrite run_unlink_if_present. destruct (lookup f (InCache cp)) as [[x| |t]|]; reflexivity.
  - reflexivity.
Qed.

(* what a full removal does, from any well-shaped cache *)
Lemma remove_fully_effect f key :
  CacheInv f ->
  (forall m, abs_idx hash f key = Some m -> exists a d, m_sri m = sri_of hash a d) ->
  let f' := snd (run (remove_fully hash key) f) in
  lookup f' (InCache (bucket_path hash key)) = None /\
  (forall m a d, abs_idx hash f key = Some m -> m_sri m = sri_of hash a d -> lookup f' (InCache (cpath hash a d)) = None) /\
  (forall l, l <> InCache (bucket_path hash key) ->
     (forall m a d, abs_idx hash f key = Some m -> m_sri m = sri_of hash a d -> l <> InCache (cpath hash a d)) ->
     lookup f' l = lookup f l).
Proof.
  intros [Hi [Hcs Hts]] Hsri f'. destruct (bucket_path_shape hash key) as [ba [bb [bc Eb]]].
  (* unlinking the bucket from a state [g] that agrees with [f] on it *)
  assert (forall g, lookup g (InCache (bucket_path hash key)) = lookup f (InCache (bucket_path hash key)) ->
            lookup (snd (run (step_ok (Unlink (InCache (bucket_path hash key)))) g)) (InCache (bucket_path hash key)) = None /\
            (forall l, l <> InCache (bucket_path hash key) -> lookup (snd (run (step_ok (Unlink (InCache (bucket_path hash key)))) g)) l = lookup g l)) as Hun.
  { intros g Eg. split; [|intros l Hl; apply run_unlink_frame; exact Hl]. rewrite run_unlink, Eg.
    destruct (lookup f (InCache (bucket_path hash key))) as [nd|] eqn:El; [|cbn [snd]; exact Eg].
    rewrite Eb in El. destruct (Hi [ba; bb; bc] nd El) as [_ H]. destruct (H eq_refl) as [d [-> _]]. cbn [snd]. apply lookup_remove_eq. }
  subst f'. rewrite (remove_fully_run f key Hi).
  destruct (abs_idx hash f key) as [m|] eqn:Ea.
  - destruct (Hsri m eq_refl) as [a [d Es]]. rewrite Es, (content_path_computed hash a d HL).
    assert (InCache (cpath hash a d) <> InCache (bucket_path hash key)) as Hne.
    { rewrite Eb. unfold cpath. intros X. inversion X as [[H1 H2]]; try (vm_compute in H1; discriminate). }
    assert (forall a0 d0, sri_of hash a d = sri_of hash a0 d0 -> cpath hash a0 d0 = cpath hash a d) as Hcp.
    { intros a0 d0 E. pose proof (content_path_computed hash a0 d0 HL) as P1. rewrite <- E, (content_path_computed hash a d HL) in P1. congruence. }
    destruct (lookup f (InCache (cpath hash a d))) as [[x| |t]|] eqn:Ec.
    + destruct (Hun (remove f (InCache (cpath hash a d)))) as [U1 U2]; [apply lookup_remove_neq; exact Hne|].
      split; [exact U1|]. split.
      * intros m0 a0 d0 E0 Es0. inversion E0; subst m0. rewrite Es in Es0. rewrite (Hcp a0 d0 Es0). rewrite U2 by congruence. apply lookup_remove_eq.
      * intros l Hl Hc. rewrite U2 by exact Hl. apply lookup_remove_neq. intros X. exact (Hc m a d eq_refl Es (eq_sym X)).
    + exfalso. unfold cpath in Ec. apply (proj2 (Hcs _ _ Ec)); reflexivity.
    + destruct (Hun (remove f (InCache (cpath hash a d)))) as [U1 U2]; [apply lookup_remove_neq; exact Hne|].
      split; [exact U1|]. split.
      * intros m0 a0 d0 E0 Es0. inversion E0; subst m0. rewrite Es in Es0. rewrite (Hcp a0 d0 Es0). rewrite U2 by congruence. apply lookup_remove_eq.
      * intros l Hl Hc. rewrite U2 by exact Hl. apply lookup_remove_neq. intros X. exact (Hc m a d eq_refl Es (eq_sym X)).
    + destruct (Hun f eq_refl) as [U1 U2]. split; [exact U1|]. split.
      * intros m0 a0 d0 E0 Es0. inversion E0; subst m0. rewrite Es in Es0. rewrite (Hcp a0 d0 Es0). rewrite U2 by congruence. exact Ec.
      * intros l Hl _. apply U2. exact Hl.
  - destruct (Hun f eq_refl) as [U1 U2]. split; [exact U1|]. split; [intros m a d X; discriminate X|]. intros l Hl _. apply U2. exact Hl.
Qed.

Lemma cinv_step f s o :
  CInv f s -> c_ok o = true -> NoColl hash (c_all (c_step s o)) -> CInv (c_run f o) (c_step s o).
Proof.
  intros [Hinv [Hm Hst]] Hok Hnc. unfold CInv. destruct o as [fl a key data now|fl key o cs now|fl a data|key now|a d|key]; cbn [c_run c_step c_ok c_map c_stored c_all] in *.
  - (* write *)
    pose proof (opts_ok_wf_rec hash key _ now Hok) as Hwf.
    destruct (write_roundtrip hash HL f fl a key data now Hinv Hwf) as [_ [Hinv' [_ [_ [Hfr [e [He [_ [Hsri _]]]]]]]]].
    pose proof (write_stored hash HL f fl a key data now Hinv Hwf) as Hnew.
    set (f' := snd (run (write hash fl a key data now) f)) in *.
    assert (abs_idx hash f' key = Some e) as Hkey.
    { pose proof (find_run hash f' key (proj1 Hinv')) as E. rewrite He in E. inversion E. reflexivity. }
    split; [exact Hinv'|]. split.
    + intros k. destruct (bytes_eqb k key) eqn:Ek.
      * apply bytes_eqb_eq in Ek. subst k. split; [left; reflexivity|]. exists e. split; [exact Hkey|exact Hsri].
      * apply bytes_eqb_neq in Ek. specialize (Hm k). rewrite (Hfr k Ek).
        destruct (c_map s k) as [[a0 d0]|]; [|exact Hm]. destruct Hm as [Hin Hex]. split; [right; exact Hin|exact Hex].
    + apply (store_after_write f f'); [exact Hnc|exact Hst|exact Hnew|].
      intros l Hl Hne. apply write_frame; assumption.
  - (* streamed keyed write *)
    apply andb_true_iff in Hok as [Hok Hopts]. apply andb_true_iff in Hok as [Hns Hsz].
    assert (o_sri o = None) as Hns' by (destruct (o_sri o); [discriminate|reflexivity]).
    pose proof (opts_ok_wf_rec hash key _ now Hopts) as Hwf.
    destruct (stream_write_keyed_roundtrip hash HL f fl key o cs now Hinv Hns' Hsz Hwf) as [_ [Hinv' [_ [_ [Hfr [e [He [_ [Hsri _]]]]]]]]].
    pose proof (stream_write_keyed_stored hash HL f fl key o cs now Hinv Hns' Hsz Hwf) as Hnew.
    set (f' := snd (run (stream_write hash fl (Some key) o cs now) f)) in *.
    assert (abs_idx hash f' key = Some e) as Hkey.
    { pose proof (find_run hash f' key (proj1 Hinv')) as E. rewrite He in E. inversion E. reflexivity. }
    split; [exact Hinv'|]. split.
    + intros k. destruct (bytes_eqb k key) eqn:Ek.
      * apply bytes_eqb_eq in Ek. subst k. split; [left; reflexivity|]. exists e. split; [exact Hkey|exact Hsri].
      * apply bytes_eqb_neq in Ek. specialize (Hm k). rewrite (Hfr k Ek).
        destruct (c_map s k) as [[a0 d0]|]; [|exact Hm]. destruct Hm as [Hin Hex]. split; [right; exact Hin|exact Hex].
    + apply (store_after_write f f'); [exact Hnc|exact Hst|exact Hnew|].
      intros l Hl Hne. apply stream_write_frame; assumption.
  - (* write by address *)
    destruct (write_hash_roundtrip hash HL f fl a data Hinv) as [_ [Hinv' [_ Hfr]]].
    pose proof (write_hash_stored hash HL f fl a data Hinv) as Hnew.
    set (f' := snd (run (write_hash hash fl a data) f)) in *.
    split; [exact Hinv'|]. split.
    + intros k. specialize (Hm k). rewrite (Hfr k).
      destruct (c_map s k) as [[a0 d0]|]; [|exact Hm]. destruct Hm as [Hin Hex]. split; [right; exact Hin|exact Hex].
    + apply (store_after_write f f'); [exact Hnc|exact Hst|exact Hnew|].
      intros l Hl Hne. apply write_hash_frame; assumption.
  - (* tombstone removal *)
    pose proof (opts_ok_wf_rec hash key _ now Hok) as Hwf.
    destruct (remove_scope hash f key now (proj1 Hinv) Hwf) as [_ [Hi' [Habs [Hfr _]]]].
    set (f' := snd (run (delete hash key now) f)) in *.
    split; [|split].
    + destruct Hinv as [Hi [Hcs Hts]]. split; [exact Hi'|]. split.
      * intros p n Hl. rewrite Hfr in Hl by (intros q E; inversion E as [[H1 H2]]; vm_compute in H1; discriminate). exact (Hcs p n Hl).
      * unfold TmpShape, dir_or_absent in *. rewrite Hfr by (intros q E; inversion E as [[H1 H2]]; vm_compute in H1; discriminate). exact Hts.
    + intros k. rewrite Habs. destruct (bytes_eqb k key); [reflexivity|exact (Hm k)].
    + intros a0 d0 Hin. rewrite Hfr by (intros q E; inversion E as [[H1 H2]]; vm_compute in H1; discriminate). exact (Hst a0 d0 Hin).
  - (* removal of content by address *)
    destruct (remove_hash_scope f (sri_of hash a d)) as [Hfr Hcp].
    specialize (Hcp _ (content_path_computed hash a d HL)).
    set (f' := snd (run (remove_hash (sri_of hash a d)) f)) in *.
    assert (forall l, l <> InCache (cpath hash a d) -> lookup f' l = lookup f l) as Hfr'.
    { intros l Hl. apply Hfr. intros cp E. rewrite (content_path_computed hash a d HL) in E. inversion E; subst cp. exact Hl. }
    assert (lookup f' (InCache (cpath hash a d)) = None) as Hgone.
    { destruct (lookup f (InCache (cpath hash a d))) as [[x| |t]|] eqn:E.
      - exact (proj2 Hcp).
      - exfalso. destruct Hinv as [_ [Hcs _]]. apply (proj2 (Hcs _ _ E)); reflexivity.
      - exact (proj2 Hcp).
      - destruct Hcp as [_ Hsame]. fold f' in Hsame. rewrite Hsame. exact E. }
    split; [|split].
    + destruct Hinv as [Hi [Hcs Hts]]. split; [|split].
      * apply (IndexInv_frame f); [exact Hi|]. intros l Hl. apply Hfr'. intros X. subst l. eapply index_not_content; [exact Hl|eexists; reflexivity].
      * intros p n Hl. destruct (loc_eq_dec (InCache (content_dir :: p)) (InCache (cpath hash a d))) as [E|N]; [rewrite E, Hgone in Hl; discriminate|].
        rewrite Hfr' in Hl by exact N. exact (Hcs p n Hl).
      * unfold TmpShape, dir_or_absent in *. rewrite Hfr' by discriminate. exact Hts.
    + intros k. specialize (Hm k).
      assert (abs_idx hash f' k = abs_idx hash f k) as ->.
      { apply abs_idx_frame. intros l Hl. apply Hfr'. intros X. subst l. eapply index_not_content; [exact Hl|eexists; reflexivity]. }
      destruct (c_map s k) as [[a0 d0]|]; [|exact Hm]. destruct Hm as [Hin Hex]. split; [right; exact Hin|exact Hex].
    + intros a0 d0 Hin. destruct (ad_eqb (a, d) (a0, d0)) eqn:E.
      * apply ad_eqb_eq in E. inversion E; subst a0 d0. rewrite memb_del_same. exact Hgone.
      * assert ((a, d) <> (a0, d0)) as Hne by (intros X; rewrite X, (proj2 (ad_eqb_eq _ _) eq_refl) in E; discriminate).
        rewrite (memb_del_other _ _ _ Hne). destruct Hin as [Hin|Hin]; [congruence|].
        rewrite Hfr'; [exact (Hst a0 d0 Hin)|].
        intros X. assert (cpath hash a d = cpath hash a0 d0) as X' by congruence.
        exact (Hne (nocoll_pair _ a d a0 d0 Hnc (or_introl eq_refl) (or_intror Hin) X')).
  - (* full removal: the bucket file and the entry's content are unlinked *)
    assert (forall m, abs_idx hash f key = Some m -> exists a d, m_sri m = sri_of hash a d) as Hsri.
    { intros m Hk. specialize (Hm key). destruct (c_map s key) as [[a d]|]; [|congruence].
      destruct Hm as [_ [e [He Hs]]]. exists a, d. congruence. }
    destruct (remove_fully_effect f key Hinv Hsri) as [Hb [Hcgone Hfr]].
    set (f' := snd (run (remove_fully hash key) f)) in *.
    assert (forall l, lookup f' l = lookup f l \/ lookup f' l = None) as Hshrink.
    { intros l. destruct (loc_eq_dec l (InCache (bucket_path hash key))) as [->|N]; [right; exact Hb|].
      destruct (abs_idx hash f key) as [m|] eqn:Ea.
      - destruct (Hsri m eq_refl) as [a [d Es]]. destruct (loc_eq_dec l (InCache (cpath hash a d))) as [->|N2]; [right; exact (Hcgone m a d eq_refl Es)|].
        left. apply Hfr; [exact N|]. intros m0 a0 d0 E0 Es0. inversion E0; subst m0.
        assert (cpath hash a0 d0 = cpath hash a d) as -> by (pose proof (content_path_computed hash a0 d0 HL) as P1; rewrite <- Es0, Es, (content_path_computed hash a d HL) in P1; congruence).
        exact N2.
      - left. apply Hfr; [exact N|]. intros m a d X. discriminate X. }
    split; [|split].
    + destruct Hinv as [Hi [Hcs Hts]]. split; [|split].
      * intros p n Hl. destruct (Hshrink (InCache (index_dir :: p))) as [E|E]; rewrite E in Hl; [exact (Hi p n Hl)|discriminate].
      * intros p n Hl. destruct (Hshrink (InCache (content_dir :: p))) as [E|E]; rewrite E in Hl; [exact (Hcs p n Hl)|discriminate].
      * unfold TmpShape, dir_or_absent in *. destruct (Hshrink (InCache tmp_dir)) as [E|E]; rewrite E; [exact Hts|left; reflexivity].
    + intros k. destruct (list_eqb bytes_eqb (bucket_path hash k) (bucket_path hash key)) eqn:Eq.
      * apply path_eqb_eq in Eq. unfold abs_idx, bucket_bytes. rewrite Eq, Hb. vm_compute. reflexivity.
      * assert (bucket_path hash k <> bucket_path hash key) as Nb by (intros X; rewrite X, (proj2 (path_eqb_eq _ _) eq_refl) in Eq; discriminate).
        assert (abs_idx hash f' k = abs_idx hash f k) as ->.
        { unfold abs_idx, bucket_bytes. rewrite Hfr; [reflexivity|congruence|].
          intros m a d _ _ X. destruct (bucket_path_shape hash k) as [x [y [z E]]]. rewrite E in X. unfold cpath in X. inversion X as [[H1 H2]]; try (vm_compute in H1; discriminate). }
        exact (Hm k).
    + intros a0 d0 Hin. pose proof (Hst a0 d0 Hin) as Hold. pose proof (Hm key) as Hmk.
      assert (InCache (cpath hash a0 d0) <> InCache (bucket_path hash key)) as Nb.
      { destruct (bucket_path_shape hash key) as [x [y [z E]]]. rewrite E. unfold cpath. intros X. inversion X as [[H1 H2]]; try (vm_compute in H1; discriminate). }
      destruct (c_map s key) as [[a d]|].
      * destruct Hmk as [Hin1 [e [He Hs]]].
        destruct (ad_eqb (a, d) (a0, d0)) eqn:E.
        -- apply ad_eqb_eq in E. inversion E; subst a0 d0. rewrite memb_del_same. exact (Hcgone e a d He Hs).
        -- assert ((a, d) <> (a0, d0)) as Hne by (intros X; rewrite X, (proj2 (ad_eqb_eq _ _) eq_refl) in E; discriminate).
           rewrite (memb_del_other _ _ _ Hne). rewrite Hfr; [exact Hold|exact Nb|].
           intros m a1 d1 E1 Es1 X. rewrite He in E1. inversion E1; subst m.
           assert (cpath hash a1 d1 = cpath hash a d) as Ecp by (pose proof (content_path_computed hash a1 d1 HL) as P1; rewrite <- Es1, Hs, (content_path_computed hash a d HL) in P1; congruence).
           assert (cpath hash a d = cpath hash a0 d0) as X' by congruence.
           exact (Hne (nocoll_pair _ a d a0 d0 Hnc Hin1 Hin X')).
      * rewrite Hfr; [exact Hold|exact Nb|]. intros m a d Ea. congruence.
Qed.


(* everything ever named only grows *)
Lemma c_all_grows s o : exists pre, c_all (c_step s o) = pre ++ c_all s.
Proof. destruct o; cbn [c_step c_all]; solve [exists []; reflexivity | eexists [_]; reflexivity]. Qed.
Lemma c_all_fold h s : exists pre, c_all (fold_left c_step h s) = pre ++ c_all s.
Proof.
  revert s. induction h as [|o h IH]; intros s; cbn [fold_left]; [exists []; reflexivity|].
  destruct (IH (c_step s o)) as [p1 E1]. destruct (c_all_grows s o) as [p2 E2]. exists (p1 ++ p2). rewrite E1, E2, app_assoc. reflexivity.
Qed.
Lemma NoColl_suffix W W' : NoColl hash (W ++ W') -> NoColl hash W'.
Proof. intros H a d a' d' H1 H2. apply H; apply in_or_app; right; assumption. Qed.

(* the refinement: after any history the tree refines the specification state *)
Theorem chistory_refines (h : list cop) f0 s0 :
  CInv f0 s0 -> forallb c_ok h = true -> NoColl hash (c_all (fold_left c_step h s0)) ->
  CInv (fold_left c_run h f0) (fold_left c_step h s0).
Proof.
  revert f0 s0. induction h as [|o h IH]; intros f0 s0 H0 Hok Hnc; cbn [fold_left] in *; [exact H0|].
  cbn [forallb] in Hok. apply andb_true_iff in Hok as [Hok1 Hok2].
  apply IH; [|exact Hok2|exact Hnc]. apply cinv_step; [exact H0|exact Hok1|].
  destruct (c_all_fold h (c_step s0 o)) as [pre E]. rewrite E in Hnc. exact (NoColl_suffix _ _ Hnc).
Qed.

(* what the invariant means for a caller: every read by key and by address *)
Theorem cinv_reads f s :
  CInv f s ->
  (forall k, run (read hash k) f = (c_read s k, f)) /\
  (forall a d, In (a, d) (c_all s) ->
     run (read_hash hash (sri_of hash a d)) f = (if memb (a, d) (c_stored s) then Ok d else Err EIoErr, f)).
Proof.
  intros [Hinv [Hm Hst]].
  assert (forall a d, In (a, d) (c_all s) ->
     run (read_hash hash (sri_of hash a d)) f = (if memb (a, d) (c_stored s) then Ok d else Err EIoErr, f)) as Haddr.
  { intros a d Hin. specialize (Hst a d Hin). destruct (memb (a, d) (c_stored s)).
    - apply (read_hash_stored hash HL). exact Hst.
    - apply read_hash_gone. exact Hst. }
  split; [|exact Haddr].
  intros k. unfold c_read. specialize (Hm k). destruct (c_map s k) as [[a d]|].
  - destruct Hm as [Hin [e [He Hs]]]. rewrite (read_by_key hash f k e (proj1 Hinv) He), Hs. exact (Haddr a d Hin).
  - unfold read, by_key, rbind. rewrite run_bind, (find_run hash f k (proj1 Hinv)), Hm. reflexivity.
Qed.

(* a checked copy of stored data out of the cache succeeds and leaves exactly the bytes at the destination *)
Lemma copy_stored f a d e :
  lookup f (InCache (cpath hash a d)) = Some (File d) -> lookup f (Ext e) <> Some Dir ->
  run (extract_hash hash XCopy true (sri_of hash a d) (Ext e)) f = (Ok (lenN d), update f (Ext e) (File d)).
Proof.
  intros H Hd. unfold extract_hash, with_cpath. rewrite (content_path_computed hash a d HL).
  unfold rbind. rewrite run_bind. unfold verify, rbind. rewrite run_bind. unfold read_file. cbn [run].
  rewrite (exec_readfile_file _ _ _ H). cbn [run fst snd]. unfold check_res. rewrite sri_check_self. cbn [run fst snd].
  rewrite run_bind. unfold xstep. cbn [run]. unfold exec, resolve. rewrite H. cbn [parent_ok].
  destruct (lookup f (Ext e)) as [[x| |t]|]; try reflexivity. exfalso. apply Hd. reflexivity.
Qed.

Theorem cinv_copy f s k e :
  CInv f s -> lookup f (Ext e) <> Some Dir ->
  match c_map s k with
  | Some (a, d) => memb (a, d) (c_stored s) = true ->
                   run (extract hash XCopy true k (Ext e)) f = (Ok (lenN d), update f (Ext e) (File d))
  | None => run (extract hash XCopy true k (Ext e)) f = (Err ENotFound, f)
  end.
Proof.
  intros [Hinv [Hm Hst]] Hd. specialize (Hm k). destruct (c_map s k) as [[a d]|].
  - intros Hmem. destruct Hm as [Hin [m [He Hs]]]. pose proof (Hst a d Hin) as Hl. rewrite Hmem in Hl.
    unfold extract, by_key, rbind. rewrite run_bind, (find_run hash f k (proj1 Hinv)), He. cbn [fst snd]. rewrite Hs.
    apply copy_stored; assumption.
  - unfold extract, by_key, rbind. rewrite run_bind, (find_run hash f k (proj1 Hinv)), Hm. reflexivity.
Qed.

Definition cspec0 : cspec := mkC (fun _ => None) [] [].
Lemma cinv_empty : CInv [] cspec0.
Proof.
  split; [split; [intros p n H; discriminate|split; [intros p n H; discriminate|left; reflexivity]]|].
  split; [intros k; reflexivity|intros a d []].
Qed.

Corollary creads_from_empty (h : list cop) :
  forallb c_ok h = true -> NoColl hash (c_all (fold_left c_step h cspec0)) ->
  let f := fold_left c_run h [] in
  forall k, run (read hash k) f = (c_read (fold_left c_step h cspec0) k, f).
Proof. intros Hok Hnc f k. exact (proj1 (cinv_reads _ _ (chistory_refines h [] cspec0 cinv_empty Hok Hnc)) k). Qed.

End Hist2.
