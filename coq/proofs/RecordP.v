(* RecordP.v — the bucket reader on arbitrary bytes: line-locality, append, no fabrication;
   [ls] of a bucket agrees with [find]. *)
From CC Require Import Bytes Codec Utf8 Lines Json Sri Record BytesP LinesP LsP.
From Coq Require Import Lia.

Section R.
Variable hash : algo -> bytes -> bytes.

Lemma contrib_nil : contrib hash [] = [].
Proof. reflexivity. Qed.

Definition no_nl (l : bytes) : Prop := forall b, In b l -> Byte.eqb b nl = false.
Definition no_pending_cr (f : bytes) : Prop := ends_cr (last (split nl f) []) = false.

(* ---------- appending a line ---------- *)
Theorem entries_app_line f line :
  no_nl line -> no_pending_cr f ->
  entries hash (f ++ nl :: line) = entries hash f ++ contrib hash line.
Proof.
  intros Hnl Hcr. unfold entries.
  rewrite (lines_app_line (contrib hash) contrib_nil f line Hnl Hcr).
  rewrite (lines_of_single (contrib hash) contrib_nil). reflexivity.
Qed.

Lemma no_pending_cr_app f line :
  no_nl line -> ends_cr line = false -> no_pending_cr (f ++ nl :: line).
Proof. intros Hnl Hcr. unfold no_pending_cr. rewrite (last_split_app f line Hnl). exact Hcr. Qed.

(* ---------- line locality ---------- *)
Lemma lines_of_app xs ys : ys <> [] -> lines_of (xs ++ ys) = map strip_cr xs ++ lines_of ys.
Proof.
  intros Hy. induction xs as [|x xs IH]; [reflexivity|].
  simpl app. destruct (xs ++ ys) as [|z zs] eqn:E.
  - destruct xs; simpl in E; [congruence|discriminate].
  - simpl map. rewrite <- IH. reflexivity.
Qed.

(* a terminated line in the middle of a file: everything before and after it contributes
   independently of its bytes *)
Theorem entries_middle_line a l b :
  no_nl l ->
  entries hash (a ++ nl :: l ++ nl :: b) =
  flat_map (contrib hash) (map strip_cr (split nl a)) ++ contrib hash (strip_cr l)
    ++ flat_map (contrib hash) (lines b).
Proof.
  intros Hl. unfold entries, lines.
  rewrite split_app_sep, split_app_sep, (split_no_sep nl l Hl).
  rewrite lines_of_app by (intro H; destruct (split nl b) eqn:E; [eapply split_nonempty; eauto|discriminate]).
  rewrite flat_map_app. f_equal.
  change ([l] ++ split nl b) with ([l] ++ split nl b).
  rewrite lines_of_app by apply split_nonempty.
  rewrite flat_map_app. simpl. rewrite app_nil_r. reflexivity.
Qed.

(* damage confined to one line: replacing l by l' changes only that line's contribution *)
Corollary damage_local a l l' b :
  no_nl l -> no_nl l' ->
  exists pre post,
    entries hash (a ++ nl :: l ++ nl :: b) = pre ++ contrib hash (strip_cr l) ++ post /\
    entries hash (a ++ nl :: l' ++ nl :: b) = pre ++ contrib hash (strip_cr l') ++ post.
Proof.
  intros Hl Hl'. exists (flat_map (contrib hash) (map strip_cr (split nl a))), (flat_map (contrib hash) (lines b)).
  split; apply entries_middle_line; assumption.
Qed.

(* destroying the newline between two records fuses exactly those two *)
Corollary newline_fusion a l1 l2 b :
  no_nl l1 -> no_nl l2 ->
  exists pre post,
    entries hash (a ++ nl :: l1 ++ nl :: l2 ++ nl :: b)
      = pre ++ contrib hash (strip_cr l1) ++ contrib hash (strip_cr l2) ++ post /\
    entries hash (a ++ nl :: (l1 ++ l2) ++ nl :: b)
      = pre ++ contrib hash (strip_cr (l1 ++ l2)) ++ post.
Proof.
  intros H1 H2.
  exists (flat_map (contrib hash) (map strip_cr (split nl a))), (flat_map (contrib hash) (lines b)).
  split.
  - rewrite (entries_middle_line a l1 (l2 ++ nl :: b) H1). f_equal. f_equal.
    pose proof (entries_middle_line [] l2 b H2) as E. unfold entries in E at 1.
    simpl app in E.
    (* lines (l2 ++ nl :: b) *)
    unfold lines. rewrite split_app_sep, (split_no_sep nl l2 H2).
    rewrite lines_of_app by apply split_nonempty. rewrite flat_map_app. simpl. rewrite app_nil_r. reflexivity.
  - apply entries_middle_line. intros x Hx. apply in_app_or in Hx as [Hx|Hx]; [apply H1|apply H2]; exact Hx.
Qed.

(* ---------- nothing is fabricated ---------- *)
Lemma split_cons_inv sep l s ss : split sep l = s :: ss ->
  match ss with
  | [] => l = s
  | _ => exists rest, l = s ++ sep :: rest /\ split sep rest = ss
  end.
Proof.
  revert s ss. induction l as [|x l IH]; intros s ss H; simpl in H.
  - inversion H; subst. reflexivity.
  - destruct (Byte.eqb x sep) eqn:E.
    + inversion H; subst. apply byte_eqb_eq in E. subst.
      destruct (split sep l) eqn:El; [exfalso; eapply split_nonempty; eauto|].
      exists l. split; [reflexivity|exact El].
    + destruct (split sep l) as [|s0 ss0] eqn:El; [exfalso; eapply split_nonempty; eauto|].
      inversion H; subst. specialize (IH s0 ss eq_refl).
      destruct ss.
      * subst. reflexivity.
      * destruct IH as [rest [-> Hr]]. exists rest. split; [reflexivity|exact Hr].
Qed.

Lemma split_two_inv sep l a b : split sep l = [a; b] -> l = a ++ sep :: b.
Proof.
  intros H. apply split_cons_inv in H. destruct H as [rest [-> Hr]].
  apply split_cons_inv in Hr. subst. reflexivity.
Qed.

Lemma entry_of_line_inv line m :
  In m (entry_of_line hash line) ->
  exists h text, line = h ++ tab :: text /\ h = hash_entry hash text /\ parse_smeta text = Some m.
Proof.
  unfold entry_of_line. destruct (split tab line) as [|h [|text [|x xs]]] eqn:E; try (intros []).
  destruct (bytes_eqb (hash_entry hash text) h) eqn:Eh; [|intros []].
  destruct (parse_smeta text) as [m'|] eqn:Ep; [|intros []].
  intros [<-|[]]. exists h, text. split; [apply split_two_inv; exact E|].
  split; [symmetry; apply bytes_eqb_eq; exact Eh|exact Ep].
Qed.

(* every entry the reader returns is the decoding of a checksum-valid line of the file *)
Theorem no_fabrication f m :
  In m (entries hash f) ->
  exists line h text,
    In line (lines f) /\ valid_utf8 line = true /\
    line = h ++ tab :: text /\ h = hash_entry hash text /\ parse_smeta text = Some m.
Proof.
  unfold entries. rewrite in_flat_map. intros [line [Hin Hm]].
  unfold contrib in Hm. destruct (valid_utf8 line) eqn:Ev; [|destruct Hm].
  apply entry_of_line_inv in Hm as [h [text [H1 [H2 H3]]]].
  exists line, h, text. auto.
Qed.

(* ---------- a well-formed record line yields its record ---------- *)
Lemma hex_byte_clean b : forall x, In x (hex_byte b) -> Byte.eqb x tab = false /\ Byte.eqb x nl = false /\ Byte.eqb x cr = false.
Proof. destruct b; intros x [<-|[<-|[]]]; repeat split; reflexivity. Qed.

Lemma hex_encode_clean l x : In x (hex_encode l) -> Byte.eqb x tab = false /\ Byte.eqb x nl = false /\ Byte.eqb x cr = false.
Proof.
  unfold hex_encode. rewrite in_flat_map. intros [b [_ Hx]]. eapply hex_byte_clean; eauto.
Qed.

Definition no_tab (l : bytes) : Prop := forall b, In b l -> Byte.eqb b tab = false.

Theorem entry_of_record_line text m :
  no_tab text -> parse_smeta text = Some m ->
  entry_of_line hash (record_line hash text) = [m].
Proof.
  intros Ht Hp. unfold entry_of_line, record_line.
  rewrite split_two; [|intros x Hx; apply (hex_encode_clean _ _ Hx)|exact Ht].
  rewrite bytes_eqb_refl, Hp. reflexivity.
Qed.

(* ---------- find ---------- *)
Lemma find_in_app key es e : find_in key (es ++ [e]) = find_step key (find_in key es) e.
Proof. unfold find_in. rewrite fold_left_app. reflexivity. Qed.

Lemma find_in_app_other key es e :
  sm_key e <> key -> find_in key (es ++ [e]) = find_in key es.
Proof.
  intros H. rewrite find_in_app. unfold find_step.
  destruct (bytes_eqb (sm_key e) key) eqn:E; [apply bytes_eqb_eq in E; contradiction|reflexivity].
Qed.

(* ---------- listing a bucket = finding in it ---------- *)
Definition meta_of (e : smeta) : option meta :=
  match sm_integrity e with
  | Some text => match parse_entry_sri text with
                 | Some i => Some (mkMeta (sm_key e) i (sm_time e) (sm_size e) (sm_metadata e) (sm_raw e))
                 | None => None end
  | None => None
  end.
Definition view (e : smeta) : bytes * option meta := (sm_key e, meta_of e).

Lemma find_in_view key es :
  find_in key es = gfind bytes meta bytes_eqb key (map view (filter parses es)).
Proof.
  unfold find_in, gfind. generalize (@None meta) as acc.
  induction es as [|e es IH]; intros acc; [reflexivity|].
  cbn [fold_left filter]. destruct (parses e) eqn:Ep.
  - cbn [map fold_left]. rewrite IH. f_equal.
    unfold find_step, view, meta_of, parses in *. cbn [fst snd].
    destruct (bytes_eqb (sm_key e) key); [|reflexivity].
    destruct (sm_integrity e) as [t|]; [|reflexivity].
    destruct (parse_entry_sri t); [reflexivity|discriminate].
  - rewrite IH. f_equal. unfold find_step, parses in *.
    destruct (sm_integrity e) as [t|]; [|discriminate].
    destruct (parse_entry_sri t); [discriminate|].
    destruct (bytes_eqb (sm_key e) key); reflexivity.
Qed.

Lemma dedupe_view seen l :
  map view (dedupe seen l) = gdedupe bytes meta bytes_eqb seen (map view l).
Proof.
  revert seen. induction l as [|e l IH]; intros seen; [reflexivity|].
  cbn [dedupe map gdedupe]. cbn [view fst].
  destruct (existsb (bytes_eqb (sm_key e)) seen); [apply IH|].
  cbn [map]. rewrite IH. reflexivity.
Qed.

Lemma live_view l :
  flat_map live l = map snd (flat_map (glive bytes meta) (map view l)).
Proof.
  induction l as [|e l IH]; [reflexivity|].
  cbn [flat_map map]. rewrite map_app, <- IH. f_equal.
  unfold live, glive, view, meta_of. cbn [fst snd].
  destruct (sm_integrity e) as [t|]; [|reflexivity].
  destruct (parse_entry_sri t); reflexivity.
Qed.

Lemma ls_entries_view es :
  ls_entries es = map snd (gls bytes meta bytes_eqb (map view (filter parses es))).
Proof.
  unfold ls_entries, gls. rewrite live_view, dedupe_view, map_rev. reflexivity.
Qed.

Lemma find_in_key key es m : find_in key es = Some m -> m_key m = key.
Proof.
  induction es as [|e es IH] using rev_ind; [discriminate|].
  rewrite find_in_app. unfold find_step.
  destruct (bytes_eqb (sm_key e) key) eqn:E; [|exact IH].
  apply bytes_eqb_eq in E.
  destruct (sm_integrity e) as [t|]; [|discriminate].
  destruct (parse_entry_sri t); [|exact IH].
  intros H. inversion H; subst. reflexivity.
Qed.

Theorem ls_iff_find es m :
  In m (ls_entries es) <-> find_in (m_key m) es = Some m.
Proof.
  rewrite ls_entries_view, in_map_iff. split.
  - intros [[k m'] [Hs Hin]]. cbn [snd] in Hs. subst m'.
    apply (gls_iff_gfind bytes meta bytes_eqb bytes_eqb_spec) in Hin.
    rewrite <- find_in_view in Hin. rewrite (find_in_key _ _ _ Hin). exact Hin.
  - intros H. exists (m_key m, m). split; [reflexivity|].
    apply (gls_iff_gfind bytes meta bytes_eqb bytes_eqb_spec). rewrite <- find_in_view. exact H.
Qed.

Corollary find_listed key es m : find_in key es = Some m -> In m (ls_entries es).
Proof. intros H. apply ls_iff_find. rewrite (find_in_key _ _ _ H). exact H. Qed.

Theorem ls_keys_nodup es : NoDup (map m_key (ls_entries es)).
Proof.
  rewrite ls_entries_view.
  set (L := gls bytes meta bytes_eqb (map view (filter parses es))).
  assert (forall p, In p L -> m_key (snd p) = fst p) as Hk.
  { intros [k m] Hin. cbn [fst snd].
    apply (gls_iff_gfind bytes meta bytes_eqb bytes_eqb_spec) in Hin.
    rewrite <- find_in_view in Hin. apply (find_in_key _ _ _ Hin). }
  assert (map m_key (map snd L) = map fst L) as ->.
  { rewrite map_map. apply map_ext_in. exact Hk. }
  apply gls_nodup. exact bytes_eqb_spec.
Qed.

End R.
