(* ConcWriteP.v — C07, unbounded, whole writes: any number of concurrent keyed one-shot writers (same key, different keys,
   same or different content, any algorithms), any interleaving of their filesystem steps, from any tree satisfying the
   cache invariant: no step fails, every writer returns the digest address of its data, every written content is
   completely stored under its address, no temp file remains, and the index is the one produced by running the writers
   serially in the order of their append steps.  Hypothesis: the writers' data do not collide under their addresses
   (distinct data have distinct content paths) — a theorem cannot exclude hash collisions. *)
From CC Require Import Bytes Codec Utf8 Lines Json Sri Record Fs Prog Api Crash Conc
  BytesP CodecP LinesP FsP ProgP SriP RecordP IndexP ReadP WriteP CommitP RemoveP CrashP CrashIdxP FormatP ConcP ConcIdxP.
From Coq Require Import Lia Permutation.
Local Open Scope N_scope.

Definition nxt {A} (p : prog A) (r : ret) : prog A := match p with Do _ k => k r | Ret a => Ret a end.
Definition head {A} (p : prog A) : option sys := match p with Do c _ => Some c | Ret _ => None end.

Lemma head_nxt {A} (p : prog A) c k : p = Do c k -> forall r, k r = nxt p r.
Proof. intros -> r. reflexivity. Qed.

Section CW.
Variable hash : algo -> bytes -> bytes.
Hypothesis HL : HashLen hash.

(* a thread: a keyed one-shot writer, or (ws_rm) a tombstone remover of a key *)
Record wspec := mkWs { ws_rm : bool; ws_a : algo; ws_key : bytes; ws_data : bytes; ws_now : N }.

Definition wprog (x : wspec) : prog (res integrity) :=
  if ws_rm x then insert hash (ws_key x) wopts0 (ws_now x)        (* remove = the index insert of a tombstone *)
  else write hash Sync (ws_a x) (ws_key x) (ws_data x) (ws_now x).
Definition x_sri (x : wspec) : integrity := sri_of hash (ws_a x) (ws_data x).
Definition x_cp (x : wspec) : path := cpath hash (ws_a x) (ws_data x).
Definition x_o' (x : wspec) : wopts := mkWopts (Some (ws_a x)) (Some (x_sri x)) (Some (lenN (ws_data x))) None None None.
Definition x_hop (x : wspec) : hop := HIns (ws_key x) (if ws_rm x then wopts0 else x_o' x) (ws_now x).
Definition x_res (x : wspec) : integrity := if ws_rm x then deadbeef else x_sri x.
(* what a thread that is past its content phase relies on: its content is stored (writers only) *)
Definition content_fact (x : wspec) (f : fs) : Prop :=
  ws_rm x = false -> lookup f (InCache (x_cp x)) = Some (File (ws_data x)).
Definition x_tmp (n : name) : loc := InCache (tmp_dir ++ [n]).

(* commit with the content path already computed *)
Definition close' (cp : path) (w : wstate) : prog (res integrity) :=
  bind (trim w) (fun rt =>
    match rt with
    | Ok _ => publish w cp (sri_of hash (w_algo w) (w_data w))
    | _ => unlink_quiet (w_tmp w) (Err EIoErr)
    end).

Lemma close_writer_close' w :
  close_writer hash w = close' (cpath hash (w_algo w) (w_data w)) w.
Proof. unfold close_writer, close'. rewrite (content_path_computed hash _ _ HL). reflexivity. Qed.

(* the stages of one writer, as explicit program terms *)
Definition A0 (x : wspec) : prog (res integrity) := write hash Sync (ws_a x) (ws_key x) (ws_data x) (ws_now x).
Definition A1 (x : wspec) : prog (res integrity) := nxt (A0 x) ROk.
Definition A2 (x : wspec) (n : name) : prog (res integrity) := nxt (A1 x) (RName n).

Lemma A0_head x : head (A0 x) = Some (MkdirAll tmp_dir).
Proof. reflexivity. Qed.
Lemma A1_head x : head (A1 x) = Some CreateTmp.
Proof. reflexivity. Qed.

(* the writer state when its commit starts: all data in the temp file *)
Definition x_w (x : wspec) (n : name) : wstate :=
  mkW (Some (ws_key x)) (mkWopts (Some (ws_a x)) None None None None None) (ws_a x) (x_tmp n) None 0 (lenN (ws_data x)) (ws_data x).

Definition B0 (x : wspec) (n : name) : prog (res integrity) := commit hash (x_w x n) (ws_now x).

(* after CreateTmp: either straight to commit (empty data) or one append to the temp file, then commit *)
Lemma A2_empty x n : ws_data x = [] -> A2 x n = B0 x n.
Proof. intros E. unfold A2, A1, A0, write, oneshot, B0, x_w. rewrite E. reflexivity. Qed.

Lemma A2_data x n : ws_data x <> [] ->
  head (A2 x n) = Some (WriteAppend (x_tmp n) (ws_data x)) /\ nxt (A2 x n) (RNum (lenN (ws_data x))) = B0 x n.
Proof.
  intros Hne. unfold A2, A1, A0, write, oneshot, B0, x_w. destruct (ws_data x) as [|b d] eqn:E; [contradiction|].
  split; reflexivity.
Qed.

(* commit = mkdir -p of the content directory, rename, then the index insert *)
Definition B0' (x : wspec) (n : name) : prog (res integrity) :=
  rbind (close' (x_cp x) (x_w x n))
        (fun wsri => insert hash (ws_key x) (mkWopts (Some (ws_a x)) (Some wsri) (Some (lenN (ws_data x))) None None None) (ws_now x)).
Definition B1 (x : wspec) (n : name) : prog (res integrity) := nxt (B0' x n) ROk.
Definition I0 (x : wspec) : prog (res integrity) := seq_prog (hop_steps hash (x_hop x)) (x_res x).
Definition I1 (x : wspec) : prog (res integrity) := seq_prog (tl (hop_steps hash (x_hop x))) (x_res x).
Definition I2 (x : wspec) : prog (res integrity) := seq_prog (tl (tl (hop_steps hash (x_hop x)))) (x_res x).

Lemma B0_B0' x n : B0 x n = B0' x n.
Proof. unfold B0, B0', commit. rewrite close_writer_close'. reflexivity. Qed.
Lemma B0'_head x n : head (B0' x n) = Some (MkdirAll (parent (x_cp x))).
Proof. reflexivity. Qed.
Lemma B1_head x n : head (B1 x n) = Some (Rename (x_tmp n) (InCache (x_cp x))).
Proof. reflexivity. Qed.
Lemma B1_next x n : ws_rm x = false -> nxt (B1 x n) ROk = I0 x.
Proof. intros E. unfold I0, x_hop, x_res. rewrite E. reflexivity. Qed.
Lemma wprog_writer x : ws_rm x = false -> wprog x = A0 x.
Proof. intros E. unfold wprog. rewrite E. reflexivity. Qed.
Lemma wprog_remover x : ws_rm x = true -> wprog x = I0 x.
Proof. intros E. unfold wprog, I0, x_hop, x_res. rewrite E. reflexivity. Qed.

(* ---------- stages ---------- *)
Inductive wst (x : wspec) (f : fs) : prog (res integrity) -> bool -> option name -> Prop :=
| W0 : ws_rm x = false -> wst x f (A0 x) false None
| W1 : ws_rm x = false -> is_dir f tmp_dir = true -> wst x f (A1 x) false None
| W2 n : ws_rm x = false -> lookup f (x_tmp n) = Some (File []) -> ws_data x <> [] -> wst x f (A2 x n) false (Some n)
| W3 n : ws_rm x = false -> lookup f (x_tmp n) = Some (File (ws_data x)) -> wst x f (B0' x n) false (Some n)
| W4 n : ws_rm x = false -> lookup f (x_tmp n) = Some (File (ws_data x)) -> is_dir f (parent (x_cp x)) = true -> wst x f (B1 x n) false (Some n)
| W5 : content_fact x f -> wst x f (I0 x) false None
| W6 : content_fact x f -> is_dir f (parent (hb hash (x_hop x))) = true -> wst x f (I1 x) false None
| W7 d : content_fact x f -> lookup f (InCache (hb hash (x_hop x))) = Some (File d) -> wst x f (I2 x) false None
| W8 : content_fact x f -> wst x f (Ret (Ok (x_res x))) true None.

(* what a thread needs of the others: nothing it relies on is undone *)
Definition stable (f g : fs) (x : wspec) (own : option name) : Prop :=
  (forall p, is_dir f p = true -> is_dir g p = true) /\
  (forall b, bshape b -> forall d, lookup f (InCache b) = Some (File d) -> exists d', lookup g (InCache b) = Some (File d')) /\
  (content_fact x f -> content_fact x g) /\
  (forall n, own = Some n -> lookup g (x_tmp n) = lookup f (x_tmp n)).

Lemma wst_stable x f g p fl own : stable f g x own -> wst x f p fl own -> wst x g p fl own.
Proof.
  intros [Hd [Hb [Hc Ho]]] Hs. destruct Hs as [Hw|Hw H|n Hw H Hne|n Hw H|n Hw H H2|H|H H2|d H H2|H].
  - constructor. exact Hw.
  - constructor; [exact Hw|apply Hd; exact H].
  - constructor; [exact Hw|rewrite (Ho n eq_refl); exact H|exact Hne].
  - constructor; [exact Hw|rewrite (Ho n eq_refl); exact H].
  - constructor; [exact Hw|rewrite (Ho n eq_refl); exact H|apply Hd; exact H2].
  - constructor. apply Hc. exact H.
  - constructor; [apply Hc; exact H|apply Hd; exact H2].
  - destruct (Hb _ (hb_shape hash (x_hop x)) d H2) as [d' Hd']. exact (W7 x g d' (Hc H) Hd').
  - constructor. apply Hc. exact H.
Qed.

(* ---------- a step changes existing nodes only inside a known list of locations ---------- *)
Definition agree_except (T : list loc) (f g : fs) : Prop :=
  forall l, ~ In l T -> lookup f l <> None -> lookup g l = lookup f l.

Lemma stable_agree T f g x own :
  agree_except T f g ->
  (forall p, is_dir f p = true -> p <> [] -> ~ In (InCache p) T) ->
  (forall b, bshape b -> In (InCache b) T -> exists d', lookup g (InCache b) = Some (File d')) ->
  (ws_rm x = false -> In (InCache (x_cp x)) T -> lookup f (InCache (x_cp x)) = Some (File (ws_data x)) -> lookup g (InCache (x_cp x)) = Some (File (ws_data x))) ->
  (forall n, own = Some n -> ~ In (x_tmp n) T /\ lookup f (x_tmp n) <> None) ->
  stable f g x own.
Proof.
  intros Ha Hd Hb Hc Ho. split; [|split; [|split]].
  - intros p Hp. destruct p as [|y p]; [reflexivity|]. unfold is_dir in *.
    destruct (lookup f (InCache (y :: p))) as [[d| |t]|] eqn:E; try discriminate.
    rewrite (Ha (InCache (y :: p))); [rewrite E; reflexivity|apply Hd; [unfold is_dir; rewrite E; reflexivity|discriminate]|rewrite E; discriminate].
  - intros b Hbs d Hl. destruct (in_dec loc_eq_dec (InCache b) T) as [Hin|Hnin]; [exact (Hb b Hbs Hin)|].
    exists d. rewrite (Ha _ Hnin); [exact Hl|rewrite Hl; discriminate].
  - intros Hcf Hw. specialize (Hcf Hw). destruct (in_dec loc_eq_dec (InCache (x_cp x)) T) as [Hin|Hnin]; [exact (Hc Hw Hin Hcf)|].
    rewrite (Ha _ Hnin); [exact Hcf|rewrite Hcf; discriminate].
  - intros n Hn. destruct (Ho n Hn) as [H1 H2]. apply Ha; assumption.
Qed.

Lemma agree_mkdirs f ps : agree_except [] f (snd (mkdirs f ps)).
Proof. intros l _ Hl. destruct (lookup f l) as [n|] eqn:E; [|congruence]. apply mkdirs_keeps. exact E. Qed.

Lemma agree_update_new f l n : lookup f l = None -> agree_except [] f (update f l n).
Proof. intros Hn l' _ Hl'. apply lookup_update_neq. intros <-. congruence. Qed.

Lemma agree_update f l n : agree_except [l] f (update f l n).
Proof. intros l' Hl' _. apply lookup_update_neq. intros <-. apply Hl'. left. reflexivity. Qed.

Lemma agree_rename f t c n : agree_except [t; c] f (update (remove f t) c n).
Proof.
  intros l Hl _. rewrite lookup_update_neq by (intros <-; apply Hl; right; left; reflexivity).
  apply lookup_remove_neq. intros <-. apply Hl. left. reflexivity.
Qed.

(* ---------- invariants of the three areas under each step ---------- *)
Lemma frame_inv f g :
  (forall l, is_index l -> lookup g l = lookup f l) -> IndexInv f -> IndexInv g.
Proof. intros H Hi. exact (IndexInv_frame f g Hi H). Qed.

Lemma bucket_at_frame f g b : bshape b -> (forall l, is_index l -> lookup g l = lookup f l) -> bucket_at g b = bucket_at f b.
Proof. intros [a [c [d ->]]] H. unfold bucket_at. rewrite H; [reflexivity|]. exists [a; c; d]. reflexivity. Qed.

Lemma tmp_loc_not_index n : ~ is_index (x_tmp n).
Proof. intros [p E]. inversion E as [[H1 H2]]; try (vm_compute in H1; discriminate). Qed.
Lemma tmp_dir_not_index : ~ is_index (InCache tmp_dir).
Proof. intros [p E]. inversion E as [[H1 H2]]; try (vm_compute in H1; discriminate). Qed.
Lemma tmp_dir_not_content : ~ is_content (InCache tmp_dir).
Proof. intros [p E]. inversion E as [[H1 H2]]; try (vm_compute in H1; discriminate). Qed.
Lemma x_cp_content x : is_content (InCache (x_cp x)).
Proof. eexists. reflexivity. Qed.
Lemma x_cp_not_index x : ~ is_index (InCache (x_cp x)).
Proof. intros H. eapply index_not_content; [exact H|apply x_cp_content]. Qed.

(* S1: mkdir -p tmp *)
Lemma s_mktmp f :
  TmpShape f ->
  let g := snd (exec (MkdirAll tmp_dir) f) in
  fst (exec (MkdirAll tmp_dir) f) = ROk /\ is_dir g tmp_dir = true /\
  (forall l, l <> InCache tmp_dir -> lookup g l = lookup f l) /\ agree_except [] f g.
Proof.
  intros Ht g. subst g. rewrite exec_mkdirall. change (prefixes tmp_dir) with [tmp_dir]. cbn [mkdirs].
  destruct Ht as [Hn|Hd]; rewrite ?Hn, ?Hd; cbn [fst snd].
  - split; [reflexivity|]. split; [unfold is_dir; cbn; rewrite lookup_update_eq; reflexivity|].
    split; [intros l Hl; apply lookup_update_neq; congruence|apply agree_update_new; exact Hn].
  - split; [reflexivity|]. split; [apply is_dir_of_lookup; exact Hd|]. split; [reflexivity|intros l _ _; reflexivity].
Qed.

(* S4: mkdir -p of the content directory *)
Lemma s_mkcontent f a d :
  ContentShape f ->
  let cp := cpath hash a d in
  let g := snd (exec (MkdirAll (parent cp)) f) in
  fst (exec (MkdirAll (parent cp)) f) = ROk /\ is_dir g (parent cp) = true /\ ContentShape g /\
  (forall l, ~ is_content l -> lookup g l = lookup f l) /\ agree_except [] f g.
Proof.
  intros Hcs cp g. subst g. rewrite exec_mkdirall.
  destruct (mkdirs_ok f (prefixes (parent cp))) as [f1 [Hmk [Hdirs [Hother Hany]]]].
  { unfold cp. rewrite cpath_prefixes. cbv zeta. intros p Hp. unfold dir_or_absent.
    destruct (lookup f (InCache p)) as [nd|] eqn:El; [|left; reflexivity]. right. f_equal.
    destruct Hp as [<-|[<-|[<-|[<-|[]]]]].
    - apply (Hcs [] nd El). simpl. lia.
    - apply (Hcs [_] nd El). simpl. lia.
    - apply (Hcs [_; _] nd El). simpl. lia.
    - apply (Hcs [_; _; _] nd El). simpl. lia. }
  pose proof (agree_mkdirs f (prefixes (parent cp))) as Hag. rewrite Hmk in Hag |- *. cbn [fst snd] in *.
  split; [reflexivity|]. split; [|split; [|split; [|exact Hag]]].
  - apply is_dir_of_lookup. apply Hdirs. unfold cp. rewrite cpath_prefixes. cbv zeta. right. right. right. left. reflexivity.
  - intros p nd Hnd. destruct (Hany (InCache (content_dir :: p))) as [H|H]; rewrite H in Hnd; [apply (Hcs p nd Hnd)|].
    inversion Hnd; subst nd. split; [reflexivity|]. intros Hlen. exfalso.
    assert (lookup f1 (InCache (content_dir :: p)) = lookup f (InCache (content_dir :: p))) as Eq.
    { apply Hother. unfold cp. rewrite cpath_prefixes. cbv zeta. intros q [<-|[<-|[<-|[<-|[]]]]] Eq; inversion Eq; subst p; cbn in Hlen; lia. }
    rewrite H in Eq. symmetry in Eq. apply (proj2 (Hcs _ _ Eq) Hlen). reflexivity.
  - intros l Hl. apply Hother. unfold cp. rewrite cpath_prefixes. cbv zeta. intros q [<-|[<-|[<-|[<-|[]]]]] E; apply Hl; rewrite E; eexists; reflexivity.
Qed.

(* ---------- index steps: what they leave alone ---------- *)
Lemma bshape_index b : bshape b -> is_index (InCache b).
Proof. intros [a [c [d ->]]]. eexists. reflexivity. Qed.

Lemma idx_mkdir_frame f b l : bshape b -> ~ is_index l -> lookup (snd (exec (MkdirAll (parent b)) f)) l = lookup f l.
Proof.
  intros [a [c [d ->]]] Hl. apply exec_frame. cbn [may_touch]. rewrite prefixes_parent_bucket.
  intros Hin. apply Hl. cbn [map In] in Hin. destruct Hin as [<-|[<-|[<-|[]]]]; eexists; reflexivity.
Qed.
Lemma idx_create_frame f b l : bshape b -> ~ is_index l -> lookup (snd (exec (CreateIfMissing (InCache b)) f)) l = lookup f l.
Proof. intros Hb Hl. apply exec_frame. cbn [may_touch]. intros ->. apply Hl. apply bshape_index. exact Hb. Qed.
Lemma idx_append_frame f b r l : bshape b -> ~ is_index l -> lookup (snd (exec (Append (InCache b) r) f)) l = lookup f l.
Proof. intros Hb Hl. apply exec_frame. cbn [may_touch]. intros ->. apply Hl. apply bshape_index. exact Hb. Qed.

Lemma agree_exec_mkdir f p : agree_except [] f (snd (exec (MkdirAll p) f)).
Proof. rewrite exec_mkdirall. apply agree_mkdirs. Qed.
Lemma agree_exec_create f l : agree_except [] f (snd (exec (CreateIfMissing l) f)).
Proof.
  unfold exec. destruct (lookup f l) as [[d| |t]|] eqn:E; cbn [snd]; try (intros l' _ _; reflexivity).
  destruct (parent_ok f l); cbn [snd]; [apply agree_update_new; exact E|intros l' _ _; reflexivity].
Qed.
Lemma agree_exec_append f l r : agree_except [l] f (snd (exec (Append l r) f)).
Proof. unfold exec. destruct (lookup f l) as [[d| |t]|]; cbn [snd]; try (intros l' _ _; reflexivity). apply agree_update. Qed.

(* ---------- the pool invariant ---------- *)
Definition dw : wspec := mkWs false Sha256 [] [] 0.
Definition coll_free (ws : list wspec) : Prop :=
  forall x y, In x ws -> In y ws -> ws_rm x = false -> ws_rm y = false -> x_cp x = x_cp y -> ws_data x = ws_data y.

(* [done]: the threads that have appended their record, in the order of their append steps (ghost) *)
Definition PInvWd (ws : list wspec) (f0 : fs) (done : list nat) (s : pool (res integrity) * fs) : Prop :=
  let '(pl, f) := s in
  exists (owns : list (option name)),
    NoDup done /\ (forall i, In i done -> (i < List.length ws)%nat) /\
    List.length pl = List.length ws /\ List.length owns = List.length ws /\
    (forall i, (i < List.length ws)%nat -> wst (nth i ws dw) f (nth i pl (Ret Stuck)) (member i done) (nth i owns None)) /\
    (forall i j a b, i <> j -> nth i owns None = Some a -> nth j owns None = Some b -> a <> b) /\
    IndexInv f /\ ContentShape f /\ TmpShape f /\
    (forall b, bshape b -> bucket_at f b = bucket_at f0 b ++ bucket_of hash (hist_records hash (hops_of (map x_hop ws) done) b)).

Definition PInvW (ws : list wspec) (f0 : fs) (s : pool (res integrity) * fs) : Prop := exists done, PInvWd ws f0 done s.

Lemma wst_own_exists x f p fl n : wst x f p fl (Some n) -> lookup f (x_tmp n) <> None.
Proof. intros H. inversion H; subst; congruence. Qed.

Lemma do_eq {A} c k (p : prog A) c' : Do c k = p -> head p = Some c' -> c = c' /\ forall r, k r = nxt p r.
Proof. intros <- H. cbn in H. inversion H. split; reflexivity. Qed.

Fixpoint set_nth {A} (i : nat) (v : A) (l : list A) : list A :=
  match l, i with
  | [], _ => []
  | _ :: t, O => v :: t
  | x :: t, S j => x :: set_nth j v t
  end.
Lemma set_nth_length {A} i (v : A) l : List.length (set_nth i v l) = List.length l.
Proof. revert i. induction l as [|x l IH]; intros [|i]; cbn; auto. Qed.
Lemma nth_set_nth_eq {A} i (v d : A) l : (i < List.length l)%nat -> nth i (set_nth i v l) d = v.
Proof. revert i. induction l as [|x l IH]; intros [|i] H; cbn in *; try lia; auto. apply IH. lia. Qed.
Lemma nth_set_nth_neq {A} i j (v d : A) l : i <> j -> nth j (set_nth i v l) d = nth j l d.
Proof. revert i j. induction l as [|x l IH]; intros [|i] [|j] H; cbn; auto; try congruence. Qed.

Lemma tmp_ne_cp n x : x_tmp n <> InCache (x_cp x).
Proof. intros E. inversion E as [[H1 H2]]; try (vm_compute in H1; discriminate). Qed.
Lemma tmp_ne_bucket n b : bshape b -> x_tmp n <> InCache b.
Proof. intros [a [c [d ->]]] E. inversion E as [[H1 H2]]; try (vm_compute in H1; discriminate). Qed.
Lemma cp_ne_bucket x b : bshape b -> InCache (x_cp x) <> InCache b.
Proof. intros [a [c [d ->]]] E. inversion E as [[H1 H2]]; try (vm_compute in H1; discriminate). Qed.
Lemma tmp_ne_tmpdir n : x_tmp n <> InCache tmp_dir.
Proof. intros E. inversion E. Qed.
Lemma cp_ne_tmpdir x : InCache (x_cp x) <> InCache tmp_dir.
Proof. intros E. inversion E as [[H1 H2]]; try (vm_compute in H1; discriminate). Qed.

Lemma is_dir_lookup f x p : is_dir f (x :: p) = true -> lookup f (InCache (x :: p)) = Some Dir.
Proof. unfold is_dir. destruct (lookup f (InCache (x :: p))) as [[d| |t]|]; try discriminate. reflexivity. Qed.

Lemma not_dir_of_file f l d : lookup f l = Some (File d) -> forall p, is_dir f p = true -> p <> [] -> InCache p <> l.
Proof. intros Hl p Hp Hne E. subst l. destruct p as [|y q]; [congruence|]. unfold is_dir in Hp. rewrite Hl in Hp. discriminate. Qed.
Lemma not_dir_of_notdir f l : lookup f l <> Some Dir -> forall p, is_dir f p = true -> p <> [] -> InCache p <> l.
Proof.
  intros Hl p Hp Hne E. subst l. destruct p as [|y q]; [congruence|]. unfold is_dir in Hp.
  destruct (lookup f (InCache (y :: q))) as [[d| |t]|]; try discriminate. congruence.
Qed.

Lemma PInvWd_init ws f0 : CacheInv f0 -> PInvWd ws f0 [] (map wprog ws, f0).
Proof.
  intros [Hi [Hc Ht]]. exists (repeat None (List.length ws)).
  split; [constructor|]. split; [intros i []|]. split; [apply map_length|]. split; [apply repeat_length|].
  split; [|split; [|split; [exact Hi|split; [exact Hc|split; [exact Ht|]]]]].
  - intros i Hi'. cbn [member existsb]. rewrite (nth_indep _ (Ret Stuck) (wprog dw)) by (rewrite map_length; exact Hi').
    rewrite (map_nth wprog ws dw i). rewrite nth_repeat. destruct (ws_rm (nth i ws dw)) eqn:Ek.
    + rewrite (wprog_remover _ Ek). apply W5. intros H. congruence.
    + rewrite (wprog_writer _ Ek). apply W0. exact Ek.
  - intros i j a b _ H. rewrite nth_repeat in H. discriminate.
  - intros b _. cbn [hops_of map hist_records]. unfold bucket_of. cbn. rewrite app_nil_r. reflexivity.
Qed.

Lemma PInvW_init ws f0 : CacheInv f0 -> PInvW ws f0 (map wprog ws, f0).
Proof. intros H. exists []. exact (PInvWd_init ws f0 H). Qed.

(* one step keeps the invariant; the ghost order grows at the end, by the stepping thread when the step is its append *)
Lemma PInvWd_step ws f0 done s s' :
  coll_free ws -> Forall (fun x => wf_rec hash (hop_rec (x_hop x))) ws ->
  PInvWd ws f0 done s -> pstep s s' -> exists ext, PInvWd ws f0 (done ++ ext) s'.
Proof.
  intros Hcf Hwf Hinv Hstep. inversion Hstep as [pre c k post f E1 E2]. subst s s'. clear Hstep.
  destruct Hinv as [owns [Hnd [Hlt [Hlen [Hlo [Hst [Hdist [Hi [Hc [Ht Hb]]]]]]]]]].
  set (i0 := List.length pre).
  assert (i0 < List.length ws)%nat as Hi0 by (rewrite <- Hlen, app_length; cbn [List.length]; lia).
  set (x := nth i0 ws dw).
  assert (In x ws) as Hxin by (apply nth_In; exact Hi0).
  pose proof (Hst i0 Hi0) as Hs0. fold x in Hs0. unfold i0 in Hs0 at 1. rewrite nth_mid in Hs0.
  (* re-establishing the invariant after the step of thread i0 *)
  assert (forall p' f' done' own',
            NoDup done' -> (forall i, In i done' -> (i < List.length ws)%nat) ->
            (forall i, i <> i0 -> member i done' = member i done) ->
            wst x f' p' (member i0 done') own' ->
            (forall i, (i < List.length ws)%nat -> i <> i0 -> stable f f' (nth i ws dw) (nth i owns None)) ->
            (forall j a b, j <> i0 -> own' = Some a -> nth j owns None = Some b -> a <> b) ->
            IndexInv f' -> ContentShape f' -> TmpShape f' ->
            (forall b, bshape b -> bucket_at f' b = bucket_at f0 b ++ bucket_of hash (hist_records hash (hops_of (map x_hop ws) done') b)) ->
            PInvWd ws f0 done' (pre ++ p' :: post, f')) as Hre.
  { intros p' f' done' own' Hnd' Hlt' Hmem Hnew Hstab Hd' Hi' Hc' Ht' Hb'.
    exists (set_nth i0 own' owns).
    split; [exact Hnd'|]. split; [exact Hlt'|]. split; [rewrite <- Hlen, !app_length; reflexivity|]. split; [rewrite set_nth_length; exact Hlo|].
    split; [|split; [|split; [exact Hi'|split; [exact Hc'|split; [exact Ht'|exact Hb']]]]].
    - intros i Hi'0. destruct (Nat.eq_dec i i0) as [->|Hne].
      + unfold i0 at 2. rewrite nth_mid. rewrite nth_set_nth_eq by (rewrite Hlo; exact Hi0). exact Hnew.
      + rewrite (nth_other pre post p' (Do c k)) by exact Hne. rewrite (Hmem i Hne), nth_set_nth_neq by congruence.
        apply (wst_stable _ f); [apply Hstab; assumption|apply Hst; exact Hi'0].
    - intros i j a b Hij Ha Hbb. destruct (Nat.eq_dec i i0) as [->|Hni]; destruct (Nat.eq_dec j i0) as [->|Hnj]; try congruence.
      + rewrite nth_set_nth_eq in Ha by (rewrite Hlo; exact Hi0). rewrite nth_set_nth_neq in Hbb by congruence. exact (Hd' j a b Hnj Ha Hbb).
      + rewrite nth_set_nth_eq in Hbb by (rewrite Hlo; exact Hi0). rewrite nth_set_nth_neq in Ha by congruence.
        intros E. exact (Hd' i b a Hni Hbb Ha (eq_sym E)).
      + rewrite nth_set_nth_neq in Ha by congruence. rewrite nth_set_nth_neq in Hbb by congruence. exact (Hdist i j a b Hij Ha Hbb). }
  (* other threads' owned temp files exist and are distinct from mine *)
  assert (forall j b, (j < List.length ws)%nat -> nth j owns None = Some b -> lookup f (x_tmp b) <> None) as Hownex.
  { intros j b Hj Hjb. pose proof (Hst j Hj) as H. rewrite Hjb in H. exact (wst_own_exists _ _ _ _ _ H). }
  assert (forall j, (List.length ws <= j)%nat -> nth j owns None = None) as Hownout.
  { intros j Hj. apply nth_overflow. rewrite Hlo. exact Hj. }
  assert (forall j b, nth j owns None = Some b -> (j < List.length ws)%nat) as Hownin.
  { intros j b Hjb. destruct (Nat.lt_ge_cases j (List.length ws)) as [H|H]; [exact H|]. rewrite (Hownout j H) in Hjb. discriminate. }
  remember (Do c k) as p0 eqn:Ep0. remember (member i0 done) as fl eqn:Efl. remember (nth i0 owns None) as own0 eqn:Eown.
  destruct Hs0 as [Hw|Hw Hd|n Hw Hl Hne|n Hw Hl|n Hw Hl Hd|Hcp|Hcp Hd|d Hcp Hd|Hcp].
  - (* S1: mkdir -p tmp *)
    destruct (do_eq c k (A0 x) _ (eq_sym Ep0) (A0_head x)) as [-> Hk].
    destruct (s_mktmp f Ht) as [Hr [Hdir [Hfr Hag]]].
    rewrite (Hk _), Hr. change (nxt (A0 x) ROk) with (A1 x).
    exists []; rewrite app_nil_r; apply (Hre (A1 x) _ done None); try assumption; try reflexivity.
    + rewrite <- Efl. apply W1; [exact Hw|exact Hdir].
    + intros i Hi' Hne. apply (stable_agree []); [exact Hag| | | |]; try (intros; contradiction).
      * intros p _ _ [].
      * intros n Hn. split; [intros []|apply (Hownex i n Hi' Hn)].
    + intros j a b _ H. discriminate.
    + apply (IndexInv_frame f); [exact Hi|]. intros l Hl. apply Hfr. intros ->. exact (tmp_dir_not_index Hl).
    + apply (ContentShape_frame f); [exact Hc|]. intros l Hl. apply Hfr. intros ->. exact (tmp_dir_not_content Hl).
    + right. apply (is_dir_lookup _ (bs "tmp") []). exact Hdir.
    + intros b Hbs. rewrite (bucket_at_frame f _ b Hbs); [apply Hb; exact Hbs|]. intros l Hl. apply Hfr. intros ->. exact (tmp_dir_not_index Hl).
  - (* S2: create the temp file *)
    destruct (do_eq c k (A1 x) _ (eq_sym Ep0) (A1_head x)) as [-> Hk].
    rewrite (Hk _), (exec_createtmp f Hd). cbn [fst snd]. set (n := fresh f). fold (x_tmp n).
    assert (lookup f (x_tmp n) = None) as Hfresh by exact (fresh_absent hash f).
    change (nxt (A1 x) (RName n)) with (A2 x n).
    assert (forall y own, (forall m, own = Some m -> lookup f (x_tmp m) <> None) -> stable f (update f (x_tmp n) (File [])) y own) as Hstab.
    { intros y own Hex. apply (stable_agree []); [apply agree_update_new; exact Hfresh| | | |]; try (intros; contradiction).
      - intros p _ _ [].
      - intros m Hm. split; [intros []|apply Hex; exact Hm]. }
    assert (IndexInv (update f (x_tmp n) (File [])) /\ ContentShape (update f (x_tmp n) (File [])) /\ TmpShape (update f (x_tmp n) (File [])) /\
            (forall b, bshape b -> bucket_at (update f (x_tmp n) (File [])) b = bucket_at f b)) as [HI2 [HC2 [HT2 HB2]]].
    { split; [|split; [|split]].
      - apply (IndexInv_frame f); [exact Hi|]. intros l Hl. apply lookup_update_neq. intros <-. exact (tmp_loc_not_index n Hl).
      - apply (ContentShape_frame f); [exact Hc|]. intros l Hl. apply lookup_update_neq. intros <-. exact (tmp_loc_not_content n Hl).
      - apply (TmpShape_frame f); [exact Ht|]. apply lookup_update_neq. apply tmp_ne_tmpdir.
      - intros b Hbs. apply bucket_at_frame; [exact Hbs|]. intros l Hl. apply lookup_update_neq. intros <-. exact (tmp_loc_not_index n Hl). }
    destruct (ws_data x) as [|b0 d0] eqn:Edata.
    + (* no data: the commit starts right away *)
      rewrite (A2_empty x n Edata), B0_B0'.
      exists []; rewrite app_nil_r; apply (Hre (B0' x n) _ done (Some n)); try assumption; try reflexivity.
      * rewrite <- Efl. apply W3; [exact Hw|rewrite Edata; apply lookup_update_eq].
      * intros i Hi' Hne. apply Hstab. intros m Hm. apply (Hownex i m Hi' Hm).
      * intros j a b Hj Ha Hjb. inversion Ha; subst a. intros <-. apply (Hownex j n (Hownin j n Hjb) Hjb). exact Hfresh.
      * intros b Hbs. rewrite (HB2 b Hbs). apply Hb. exact Hbs.
    + exists []; rewrite app_nil_r; apply (Hre (A2 x n) _ done (Some n)); try assumption; try reflexivity.
      * rewrite <- Efl. apply W2; [exact Hw|apply lookup_update_eq|rewrite Edata; discriminate].
      * intros i Hi' Hne. apply Hstab. intros m Hm. apply (Hownex i m Hi' Hm).
      * intros j a b Hj Ha Hjb. inversion Ha; subst a. intros <-. apply (Hownex j n (Hownin j n Hjb) Hjb). exact Hfresh.
      * intros b Hbs. rewrite (HB2 b Hbs). apply Hb. exact Hbs.
  - (* S3: the data goes to the temp file *)
    destruct (A2_data x n Hne) as [Hh Hn2].
    destruct (do_eq c k (A2 x n) _ (eq_sym Ep0) Hh) as [-> Hk].
    rewrite (Hk _), (exec_writeappend f _ [] _ Hl). cbn [fst snd app]. rewrite Hn2, B0_B0'.
    set (g := update f (x_tmp n) (File (ws_data x))).
    assert (forall l, l <> x_tmp n -> lookup g l = lookup f l) as Hfr by (intros l H; apply lookup_update_neq; congruence).
    exists []; rewrite app_nil_r; apply (Hre (B0' x n) g done (Some n)); try assumption; try reflexivity.
    + rewrite <- Efl. apply W3; [exact Hw|apply lookup_update_eq].
    + intros i Hi' Hnei. apply (stable_agree [x_tmp n]); [apply agree_update| | | |].
      * intros p Hp Hnp [E|[]]. exact (not_dir_of_file f _ _ Hl p Hp Hnp (eq_sym E)).
      * intros b Hbs [E|[]]. exfalso. exact (tmp_ne_bucket n b Hbs E).
      * intros _ [E|[]] _. exfalso. exact (tmp_ne_cp n _ E).
      * intros m Hm. split; [|apply (Hownex i m Hi' Hm)]. intros [E|[]]. inversion E as [E']. subst m.
        exact (Hdist i i0 n n Hnei Hm (eq_sym Eown) eq_refl).
    + intros j a b Hj Ha Hjb. inversion Ha; subst a. exact (fun E => Hdist i0 j n b (fun e => Hj (eq_sym e)) (eq_sym Eown) Hjb E).
    + apply (IndexInv_frame f); [exact Hi|]. intros l Hli. apply Hfr. intros ->. exact (tmp_loc_not_index n Hli).
    + apply (ContentShape_frame f); [exact Hc|]. intros l Hlc. apply Hfr. intros ->. exact (tmp_loc_not_content n Hlc).
    + apply (TmpShape_frame f); [exact Ht|]. apply Hfr. intros E. exact (tmp_ne_tmpdir n (eq_sym E)).
    + intros b Hbs. rewrite (bucket_at_frame f g b Hbs); [apply Hb; exact Hbs|]. intros l Hli. apply Hfr. intros ->. exact (tmp_loc_not_index n Hli).
  - (* S4: mkdir -p of the content directory *)
    destruct (do_eq c k (B0' x n) _ (eq_sym Ep0) (B0'_head x n)) as [-> Hk].
    destruct (s_mkcontent f (ws_a x) (ws_data x) Hc) as [Hr [Hdir [Hc' [Hfr Hag]]]]. fold (x_cp x) in Hr, Hdir, Hc', Hfr, Hag.
    rewrite (Hk _), Hr. change (nxt (B0' x n) ROk) with (B1 x n).
    set (g := snd (exec (MkdirAll (parent (x_cp x))) f)) in *.
    exists []; rewrite app_nil_r; apply (Hre (B1 x n) g done (Some n)); try assumption; try reflexivity.
    + rewrite <- Efl. apply W4; [exact Hw|rewrite Hfr by apply tmp_loc_not_content; exact Hl|exact Hdir].
    + intros i Hi' Hnei. apply (stable_agree []); [exact Hag| | | |]; try (intros; contradiction).
      * intros p _ _ [].
      * intros m Hm. split; [intros []|apply (Hownex i m Hi' Hm)].
    + intros j a b Hj Ha Hjb. inversion Ha; subst a. exact (fun E => Hdist i0 j n b (fun e => Hj (eq_sym e)) (eq_sym Eown) Hjb E).
    + apply (IndexInv_frame f); [exact Hi|]. intros l Hli. apply Hfr. intro. eapply index_not_content; eauto.
    + apply (TmpShape_frame f); [exact Ht|]. apply Hfr. apply tmp_dir_not_content.
    + intros b Hbs. rewrite (bucket_at_frame f g b Hbs); [apply Hb; exact Hbs|]. intros l Hli. apply Hfr. intro. eapply index_not_content; eauto.
  - (* S5: the rename that publishes the content *)
    destruct (do_eq c k (B1 x n) _ (eq_sym Ep0) (B1_head x n)) as [-> Hk].
    assert (lookup f (InCache (x_cp x)) <> Some Dir) as Hnd5.
    { intros E. unfold x_cp, cpath in E. apply (proj2 (Hc _ _ E) eq_refl). reflexivity. }
    assert (parent_ok f (InCache (x_cp x)) = true) as Hpok by exact Hd.
    rewrite (Hk _), (exec_rename f _ _ _ Hl Hpok Hnd5). cbn [fst snd]. rewrite (B1_next x n Hw).
    set (g := update (remove f (x_tmp n)) (InCache (x_cp x)) (File (ws_data x))).
    assert (forall l, l <> x_tmp n -> l <> InCache (x_cp x) -> lookup g l = lookup f l) as Hfr.
    { intros l H1 H2. unfold g. rewrite lookup_update_neq by congruence. apply lookup_remove_neq. congruence. }
    exists []; rewrite app_nil_r; apply (Hre (I0 x) g done None); try assumption; try reflexivity.
    + rewrite <- Efl. apply W5. intros _. apply lookup_update_eq.
    + intros i Hi' Hnei. apply (stable_agree [x_tmp n; InCache (x_cp x)]); [apply agree_rename| | | |].
      * intros p Hp Hnp [E|[E|[]]]; [exact (not_dir_of_file f _ _ Hl p Hp Hnp (eq_sym E))|exact (not_dir_of_notdir f _ Hnd5 p Hp Hnp (eq_sym E))].
      * intros b Hbs [E|[E|[]]]; exfalso; [exact (tmp_ne_bucket n b Hbs E)|exact (cp_ne_bucket x b Hbs E)].
      * intros Hwy _ Hy. unfold g.
        destruct (loc_eq_dec (InCache (x_cp x)) (InCache (x_cp (nth i ws dw)))) as [E|N].
        -- rewrite <- E, lookup_update_eq. assert (x_cp x = x_cp (nth i ws dw)) as E' by congruence. rewrite (Hcf x (nth i ws dw) Hxin (nth_In ws dw Hi') Hw Hwy E'). reflexivity.
        -- rewrite lookup_update_neq by exact N. rewrite lookup_remove_neq; [exact Hy|]. intros E. exact (tmp_ne_cp n _ E).
      * intros m Hm. split; [|apply (Hownex i m Hi' Hm)]. intros [E|[E|[]]].
        -- inversion E as [E']. subst m. exact (Hdist i i0 n n Hnei Hm (eq_sym Eown) eq_refl).
        -- exact (tmp_ne_cp m x (eq_sym E)).
    + intros j a b _ H. discriminate.
    + apply (IndexInv_frame f); [exact Hi|]. intros l Hli. apply Hfr; intros ->; [exact (tmp_loc_not_index n Hli)|exact (x_cp_not_index x Hli)].
    + intros p nd Hnd'. unfold g in Hnd'. rewrite lookup_update in Hnd'. destruct (loc_eqb (InCache (x_cp x)) (InCache (content_dir :: p))) eqn:E.
      * apply loc_eqb_eq in E. unfold x_cp, cpath in E. inversion E; subst p. inversion Hnd'; subst nd. split; [cbn; lia|discriminate].
      * rewrite lookup_remove_neq in Hnd' by (intros E'; apply (tmp_loc_not_content n); unfold x_tmp in E'; rewrite E'; eexists; reflexivity). apply (Hc p nd Hnd').
    + apply (TmpShape_frame f); [exact Ht|]. apply Hfr; [intros E; exact (tmp_ne_tmpdir n (eq_sym E))|intros E; exact (cp_ne_tmpdir x (eq_sym E))].
    + intros b Hbs. rewrite (bucket_at_frame f g b Hbs); [apply Hb; exact Hbs|]. intros l Hli. apply Hfr; intros ->; [exact (tmp_loc_not_index n Hli)|exact (x_cp_not_index x Hli)].
  - (* S6: mkdir -p of the bucket's directory *)
    pose proof (hb_shape hash (x_hop x)) as Hbsx.
    destruct (seq_prog_unfold (MkdirAll (parent (hb hash (x_hop x)))) (tl (hop_steps hash (x_hop x))) (x_res x)) as [k1 [E Hk1]].
    assert (Do c k = Do (MkdirAll (parent (hb hash (x_hop x)))) k1) as Ed by (rewrite <- E; symmetry; exact Ep0).
    remember (MkdirAll (parent (hb hash (x_hop x)))) as c1 eqn:Ec1. injection Ed as -> ->. subst c1.
    destruct (step_mkdir hash f _ Hi Hbsx) as [Herr [Hi' [Hdir [Hbk _]]]].
    rewrite (Hk1 _ Herr). set (g := snd (exec (MkdirAll (parent (hb hash (x_hop x)))) f)) in *.
    assert (forall l, ~ is_index l -> lookup g l = lookup f l) as Hfr by (intros l H; apply idx_mkdir_frame; assumption).
    exists []; rewrite app_nil_r; apply (Hre (I1 x) g done None); try assumption; try reflexivity.
    + rewrite <- Efl. apply W6; [intros Hwx; rewrite Hfr by apply x_cp_not_index; exact (Hcp Hwx)|exact Hdir].
    + intros i Hi'0 Hnei. apply (stable_agree []); [apply agree_exec_mkdir| | | |]; try (intros; contradiction).
      * intros p _ _ [].
      * intros m Hm. split; [intros []|apply (Hownex i m Hi'0 Hm)].
    + intros j a b _ H. discriminate.
    + apply (ContentShape_frame f); [exact Hc|]. intros l Hlc. apply Hfr. intro. eapply index_not_content; eauto.
    + apply (TmpShape_frame f); [exact Ht|]. apply Hfr. apply tmp_dir_not_index.
    + intros b Hbs. rewrite (Hbk b Hbs). apply Hb. exact Hbs.
  - (* S7: open(O_CREAT|O_APPEND) of the bucket *)
    pose proof (hb_shape hash (x_hop x)) as Hbsx.
    destruct (seq_prog_unfold (CreateIfMissing (InCache (hb hash (x_hop x)))) (tl (tl (hop_steps hash (x_hop x)))) (x_res x)) as [k1 [E Hk1]].
    assert (Do c k = Do (CreateIfMissing (InCache (hb hash (x_hop x)))) k1) as Ed by (rewrite <- E; symmetry; exact Ep0).
    remember (CreateIfMissing (InCache (hb hash (x_hop x)))) as c1 eqn:Ec1. injection Ed as -> ->. subst c1.
    destruct (step_create hash f _ Hi Hbsx Hd) as [Herr [Hi' [[d Hdd] [Hbk _]]]].
    rewrite (Hk1 _ Herr). set (g := snd (exec (CreateIfMissing (InCache (hb hash (x_hop x)))) f)) in *.
    assert (forall l, ~ is_index l -> lookup g l = lookup f l) as Hfr by (intros l H; apply idx_create_frame; assumption).
    exists []; rewrite app_nil_r; apply (Hre (I2 x) g done None); try assumption; try reflexivity.
    + rewrite <- Efl. apply (W7 x g d); [intros Hwx; rewrite Hfr by apply x_cp_not_index; exact (Hcp Hwx)|exact Hdd].
    + intros i Hi'0 Hnei. apply (stable_agree []); [apply agree_exec_create| | | |]; try (intros; contradiction).
      * intros p _ _ [].
      * intros m Hm. split; [intros []|apply (Hownex i m Hi'0 Hm)].
    + intros j a b _ H. discriminate.
    + apply (ContentShape_frame f); [exact Hc|]. intros l Hlc. apply Hfr. intro. eapply index_not_content; eauto.
    + apply (TmpShape_frame f); [exact Ht|]. apply Hfr. apply tmp_dir_not_index.
    + intros b Hbs. rewrite (Hbk b Hbs). apply Hb. exact Hbs.
  - (* S8: the append — the writer takes its place in the serial order *)
    pose proof (hb_shape hash (x_hop x)) as Hbsx.
    destruct (seq_prog_unfold (Append (InCache (hb hash (x_hop x))) (record_bytes hash (hop_rec (x_hop x)))) [] (x_res x)) as [k1 [E Hk1]].
    assert (Do c k = Do (Append (InCache (hb hash (x_hop x))) (record_bytes hash (hop_rec (x_hop x)))) k1) as Ed by (rewrite <- E; symmetry; exact Ep0).
    remember (Append (InCache (hb hash (x_hop x))) (record_bytes hash (hop_rec (x_hop x)))) as c1 eqn:Ec1. injection Ed as -> ->. subst c1.
    assert (wf_rec hash (hop_rec (x_hop x))) as Hwfx by (rewrite Forall_forall in Hwf; exact (Hwf x Hxin)).
    destruct (step_append hash f (x_hop x) d Hi Hwfx Hd) as [Herr [Hi' [Hbk _]]].
    rewrite (Hk1 _ Herr). set (g := snd (exec (Append (InCache (hb hash (x_hop x))) (record_bytes hash (hop_rec (x_hop x)))) f)) in *.
    assert (forall l, ~ is_index l -> lookup g l = lookup f l) as Hfr by (intros l H; apply idx_append_frame; assumption).
    assert (~ In i0 done) as Hnotin by (intro Hin; apply member_spec in Hin; congruence).
    exists [i0]; apply (Hre (Ret (Ok (x_res x))) g (done ++ [i0]) None); try assumption.
    + apply NoDup_snoc; assumption.
    + intros i Hin. apply in_app_or in Hin as [Hin|[<-|[]]]; [apply Hlt; exact Hin|exact Hi0].
    + intros i Hnei. apply member_snoc_other. exact Hnei.
    + assert (member i0 (done ++ [i0]) = true) as -> by (apply member_spec; apply in_or_app; right; left; reflexivity).
      apply W8. intros Hwx. rewrite Hfr by apply x_cp_not_index. exact (Hcp Hwx).
    + intros i Hi'0 Hnei. apply (stable_agree [InCache (hb hash (x_hop x))]); [apply agree_exec_append| | | |].
      * intros p Hp Hnp [Eq0|[]]. exact (not_dir_of_file f _ _ Hd p Hp Hnp (eq_sym Eq0)).
      * intros b Hbs [Eq0|[]]. inversion Eq0; subst b. unfold g, exec. rewrite Hd. cbn [snd]. rewrite lookup_update_eq. eauto.
      * intros _ [Eq0|[]] _. exfalso. exact (cp_ne_bucket _ _ Hbsx (eq_sym Eq0)).
      * intros m Hm. split; [|apply (Hownex i m Hi'0 Hm)]. intros [Eq0|[]]. exact (tmp_ne_bucket m _ Hbsx (eq_sym Eq0)).
    + intros j a b _ H. discriminate.
    + apply (ContentShape_frame f); [exact Hc|]. intros l Hlc. apply Hfr. intro. eapply index_not_content; eauto.
    + apply (TmpShape_frame f); [exact Ht|]. apply Hfr. apply tmp_dir_not_index.
    + intros b Hbs. rewrite (Hbk b Hbs), (Hb b Hbs). unfold hops_of. rewrite map_app. cbn [map].
      assert (nth i0 (map x_hop ws) dflt = x_hop x) as ->.
      { rewrite (nth_indep _ dflt (x_hop dw)) by (rewrite map_length; exact Hi0). apply (map_nth x_hop ws dw i0). }
      rewrite hist_records_snoc. unfold bucket_of. rewrite map_app, concat_app, app_assoc. reflexivity.
  - discriminate.
Qed.

Lemma PInvW_step ws f0 s s' :
  coll_free ws -> Forall (fun x => wf_rec hash (hop_rec (x_hop x))) ws ->
  PInvW ws f0 s -> pstep s s' -> PInvW ws f0 s'.
Proof. intros Hcf Hwf [done Hi] Hs. destruct (PInvWd_step ws f0 done s s' Hcf Hwf Hi Hs) as [ext H]. exists (done ++ ext). exact H. Qed.

Lemma PInvWd_reach ws f0 done s s' :
  coll_free ws -> Forall (fun x => wf_rec hash (hop_rec (x_hop x))) ws ->
  PInvWd ws f0 done s -> preach s s' -> exists ext, PInvWd ws f0 (done ++ ext) s'.
Proof.
  intros Hcf Hwf Hi Hr. revert done Hi. induction Hr as [s|s1 s2 s3 Hs _ IH]; intros done Hi.
  - exists []. rewrite app_nil_r. exact Hi.
  - destruct (PInvWd_step ws f0 done s1 s2 Hcf Hwf Hi Hs) as [e1 H1]. destruct (IH _ H1) as [e2 H2].
    exists (e1 ++ e2). rewrite app_assoc. exact H2.
Qed.

Lemma PInvW_reach ws f0 s s' :
  coll_free ws -> Forall (fun x => wf_rec hash (hop_rec (x_hop x))) ws ->
  PInvW ws f0 s -> preach s s' -> PInvW ws f0 s'.
Proof. intros Hcf Hwf Hi Hr. induction Hr as [s|s1 s2 s3 Hs _ IH]; [exact Hi|]. apply IH. exact (PInvW_step ws f0 s1 s2 Hcf Hwf Hi Hs). Qed.

Lemma head_ret_none {A} (p : prog A) r c : p = Ret r -> head p = Some c -> False.
Proof. intros -> H. discriminate. Qed.

(* a finished thread is in the last stage *)
Lemma wst_ret x f r fl own : wst x f (Ret r) fl own -> r = Ok (x_res x) /\ fl = true /\ content_fact x f.
Proof.
  intros H. remember (Ret r) as p eqn:Ep. destruct H as [Hw|Hw Hd|n Hw Hl Hne|n Hw Hl|n Hw Hl Hd|Hcp|Hcp Hd|d Hcp Hd|Hcp].
  - exfalso. exact (head_ret_none _ _ _ Ep (A0_head x)).
  - exfalso. exact (head_ret_none _ _ _ Ep (A1_head x)).
  - exfalso. exact (head_ret_none _ _ _ Ep (proj1 (A2_data x n Hne))).
  - exfalso. exact (head_ret_none _ _ _ Ep (B0'_head x n)).
  - exfalso. exact (head_ret_none _ _ _ Ep (B1_head x n)).
  - exfalso. unfold I0 in Ep. cbn [hop_steps] in Ep. exact (seq_prog_not_ret _ _ _ _ Ep).
  - exfalso. unfold I1 in Ep. cbn [hop_steps tl] in Ep. exact (seq_prog_not_ret _ _ _ _ Ep).
  - exfalso. unfold I2 in Ep. cbn [hop_steps tl] in Ep. exact (seq_prog_not_ret _ _ _ _ Ep).
  - inversion Ep. auto.
Qed.

(* ---------- the theorem ---------- *)
Theorem conc_writes_serializable ws f0 pl' f' rs :
  CacheInv f0 -> coll_free ws -> Forall (fun x => wf_rec hash (hop_rec (x_hop x))) ws ->
  preach (map wprog ws, f0) (pl', f') -> results pl' = Some rs ->
  rs = map (fun x => Ok (x_res x)) ws /\
  (forall x, In x ws -> ws_rm x = false -> lookup f' (InCache (x_cp x)) = Some (File (ws_data x))) /\
  CacheInv f' /\
  exists perm, Permutation perm ws /\
    (forall b, bshape b -> bucket_at f' b = bucket_at (fold_left (exec_hop hash) (map x_hop perm) f0) b) /\
    (forall k, abs_idx hash f' k = fold_left spec_step (map x_hop perm) (abs_idx hash f0) k).
Proof.
  intros Hinv0 Hcf Hwf Hr Hres.
  destruct (PInvW_reach ws f0 _ _ Hcf Hwf (PInvW_init ws f0 Hinv0) Hr) as [done [owns [Hnd [Hlt [Hlen [Hlo [Hst [Hdist [Hi [Hc [Ht Hb]]]]]]]]]]].
  pose proof (results_some_ret pl' rs Hres) as Epl.
  assert (forall i, (i < List.length ws)%nat ->
            nth i rs Stuck = Ok (x_res (nth i ws dw)) /\ In i done /\ content_fact (nth i ws dw) f') as Hall.
  { intros i Hi'. pose proof (Hst i Hi') as Hs. rewrite Epl in Hs. rewrite (map_nth (@Ret (res integrity)) rs Stuck i) in Hs.
    destruct (wst_ret _ _ _ _ _ Hs) as [E1 [E2 E3]]. split; [exact E1|]. split; [apply member_spec; exact E2|exact E3]. }
  assert (List.length rs = List.length ws) as Hlr by (rewrite <- Hlen, Epl, map_length; reflexivity).
  split.
  { apply (nth_ext _ _ Stuck (Ok (x_res dw))); [rewrite map_length; exact Hlr|].
    intros n Hn. rewrite Hlr in Hn. rewrite (proj1 (Hall n Hn)). symmetry. apply (map_nth (fun x => Ok (x_res x)) ws dw n). }
  split.
  { intros x Hx Hwx. destruct (In_nth ws x dw Hx) as [i [Hi' <-]]. exact (proj2 (proj2 (Hall i Hi')) Hwx). }
  split; [split; [exact Hi|split; [exact Hc|exact Ht]]|].
  assert (Permutation done (seq 0 (List.length ws))) as Hperm.
  { apply NoDup_Permutation; [exact Hnd|apply seq_NoDup|]. intros y. rewrite in_seq. split; [intros H; split; [lia|apply Hlt; exact H]|intros [_ H]; apply (Hall y H)]. }
  set (perm := map (fun i => nth i ws dw) done).
  assert (Permutation perm ws) as Hp.
  { unfold perm. pose proof (Permutation_map (fun i => nth i ws dw) Hperm) as H. rewrite (map_nth_seq ws dw) in H. exact H. }
  assert (hops_of (map x_hop ws) done = map x_hop perm) as Ehops.
  { unfold hops_of, perm. rewrite map_map. apply map_ext_in. intros i Hin.
    rewrite (nth_indep _ dflt (x_hop dw)) by (rewrite map_length; apply Hlt; exact Hin). apply (map_nth x_hop ws dw i). }
  assert (Forall (wf_hop hash) (map x_hop perm)) as Hwf'.
  { apply Forall_forall. intros h Hh. apply in_map_iff in Hh as [y [<- Hy]].
    assert (In y ws) as Hyw by (apply (Permutation_in _ Hp); exact Hy).
    rewrite Forall_forall in Hwf. cbn [wf_hop x_hop]. split; [exact (Hwf y Hyw)|].
    intros i Ei. destruct (ws_rm y); [discriminate|]. cbn [x_o' o_sri] in Ei. inversion Ei; subst i. apply parse_entry_computed. exact HL. }
  exists perm. split; [exact Hp|].
  assert (forall b, bshape b -> bucket_at f' b = bucket_at (fold_left (exec_hop hash) (map x_hop perm) f0) b) as Hbk.
  { intros b Hbs. rewrite (Hb b Hbs), Ehops. symmetry. apply bucket_language; [exact (proj1 Hinv0)|exact Hwf'|exact Hbs]. }
  split; [exact Hbk|]. intros k.
  destruct (find_refines_map hash (map x_hop perm) f0 (proj1 Hinv0) Hwf') as [Hi' Hfind].
  pose proof (Hfind k) as Hf. rewrite (find_run hash _ k Hi') in Hf.
  assert (abs_idx hash (fold_left (exec_hop hash) (map x_hop perm) f0) k = fold_left spec_step (map x_hop perm) (abs_idx hash f0) k) as Hf' by congruence.
  rewrite <- Hf'. unfold abs_idx, bucket_bytes.
  pose proof (Hbk (bucket_path hash k)) as Hk. unfold bucket_at in Hk. rewrite Hk; [reflexivity|].
  destruct (bucket_path_shape hash k) as [a [b [c E]]]. exists a, b, c. exact E.
Qed.

End CW.
