(* RecCodecP.v — the record codec: every record satisfying the boolean predicate [rec_ok] is written
   as a line without control bytes, valid UTF-8, that parses back to the same record.  This discharges
   the hypothesis [wf_rec] of IndexP.v for such records. *)
From Coq Require Import Lia.
From CC Require Import Bytes Codec Utf8 Lines Json Sri Record Fs Prog Api BytesP CodecP LinesP RecordP IndexP JsonP.
Local Open Scope N_scope.

(* bounds of the typed decoder: time is a u128, size a u64 (usize on 64-bit targets) *)
Definition n128 : N := 340282366920938463463374607431768211456.
Definition n64 : N := 18446744073709551616.
Example n128_pow : n128 = 2 ^ 128. Proof. reflexivity. Qed.
Example n64_pow : n64 = 2 ^ 64. Proof. reflexivity. Qed.

Definition opt_utf8 (o : option bytes) : bool := match o with Some s => valid_utf8 s | None => true end.

(* Why each conjunct is needed:
   - key / integrity valid UTF-8: they are copied (escaped) into the line, which [contrib] drops
     unless it is valid UTF-8;
   - time < 2^128, size < 2^64: [dec_uint two128] / [dec_uint two64] reject larger integers;
   - metadata [jclean]: a [JFloat] carries arbitrary raw text;  [jutf8]: its strings and keys are
     copied into the line;  depth <= 126: it sits inside the record object and the parser accepts
     [json_depth] = 127 nested containers;  [jcanon]: the decoder returns [canon] of the parsed
     metadata (serde_json's BTreeMap sorts keys and keeps the last duplicate), so only values in
     normal form come back unchanged ([jsorted_jcanon]: strictly ascending keys suffice);
   - raw metadata: any bytes. *)
Definition rec_ok (m : smeta) : bool :=
  valid_utf8 (sm_key m) && opt_utf8 (sm_integrity m) &&
  (sm_time m <? n128) && (sm_size m <? n64) &&
  jclean (sm_metadata m) && jutf8 (sm_metadata m) && Nat.leb (jdepth (sm_metadata m)) 126 &&
  jcanon (sm_metadata m).

Lemma dec_uint_of_N bound n : (Z.of_N n < bound)%Z -> dec_uint bound (JInt (Z.of_N n)) = Some n.
Proof.
  intros H. unfold dec_uint.
  assert ((0 <=? Z.of_N n)%Z = true) as -> by (apply Z.leb_le; lia).
  assert ((Z.of_N n <? bound)%Z = true) as -> by (apply Z.ltb_lt; exact H).
  cbn [andb]. rewrite N2Z.id. reflexivity.
Qed.

Definition jbyte (b : byte) : jv := JInt (Z.of_N (b2n b)).

Lemma dec_u8s_map d : dec_u8s (map jbyte d) = Some d.
Proof.
  induction d as [|b d IH]; [reflexivity|].
  cbn [map dec_u8s]. unfold jbyte at 1. rewrite dec_uint_of_N by (pose proof (b2n_bounded b); lia).
  rewrite IH. unfold n2b. rewrite byte_of_to_N. reflexivity.
Qed.

Lemma dec_raw_jraw r : dec_raw (jraw r) = Some r.
Proof.
  destruct r as [d|]; [|reflexivity]. cbn [jraw dec_raw]. fold jbyte. rewrite dec_u8s_map. reflexivity.
Qed.

Lemma dec_fields_six vk vi vt vs vm vr k i t s r :
  dec_string vk = Some k -> dec_opt_string vi = Some i -> dec_uint two128 vt = Some t ->
  dec_uint two64 vs = Some s -> dec_raw vr = Some r ->
  dec_fields [(bs "key", vk); (bs "integrity", vi); (bs "time", vt); (bs "size", vs);
              (bs "metadata", vm); (bs "raw_metadata", vr)] partial0
  = Some (mkPartial (Some k) (Some i) (Some t) (Some s) (Some (canon vm)) (Some r)).
Proof.
  intros Hk Hi Ht Hs Hr.
  cbn [dec_fields]. unfold dec_field.
  repeat match goal with
  | |- context [bytes_eqb ?a ?b] =>
      let v := eval vm_compute in (bytes_eqb a b) in change (bytes_eqb a b) with v; cbv iota
  end.
  unfold partial0.
  cbn [p_key p_int p_time p_size p_meta p_raw]. rewrite Hk.
  cbn [p_key p_int p_time p_size p_meta p_raw]. rewrite Hi.
  cbn [p_key p_int p_time p_size p_meta p_raw]. rewrite Ht.
  cbn [p_key p_int p_time p_size p_meta p_raw]. rewrite Hs.
  cbn [p_key p_int p_time p_size p_meta p_raw]. rewrite Hr.
  reflexivity.
Qed.

Lemma decode_smeta_json m :
  (sm_time m <? n128) = true -> (sm_size m <? n64) = true -> jcanon (sm_metadata m) = true ->
  decode_smeta (smeta_json m) = Some m.
Proof.
  intros Ht Hs Hc. apply N.ltb_lt in Ht. apply N.ltb_lt in Hs.
  unfold smeta_json, decode_smeta.
  rewrite (dec_fields_six _ _ _ _ _ _ (sm_key m) (sm_integrity m) (sm_time m) (sm_size m) (sm_raw m)).
  - unfold finish. cbn [p_key p_int p_time p_size p_meta p_raw].
    rewrite (jcanon_canon _ Hc). destruct m; reflexivity.
  - reflexivity.
  - destruct (sm_integrity m); reflexivity.
  - apply dec_uint_of_N. unfold two128, n128 in *. lia.
  - apply dec_uint_of_N. unfold two64, n64 in *. lia.
  - apply dec_raw_jraw.
Qed.

(* ---- the JSON value of a record satisfies the side conditions of JsonP ---- *)
Lemma jraw_clean r : jclean (jraw r) = true.
Proof. destruct r as [d|]; [|reflexivity]. cbn [jraw jclean]. induction d as [|b d IH]; [reflexivity|exact IH]. Qed.

Lemma jraw_utf8 r : jutf8 (jraw r) = true.
Proof. destruct r as [d|]; [|reflexivity]. cbn [jraw jutf8]. induction d as [|b d IH]; [reflexivity|exact IH]. Qed.

Lemma jraw_depth r : (jdepth (jraw r) <= 1)%nat.
Proof.
  destruct r as [d|]; [|cbn; lia]. cbn [jraw jdepth].
  assert (fold_right (fun x acc => Nat.max (jdepth x) acc) O (map (fun b => JInt (Z.of_N (b2n b))) d) = O) as ->; [|lia].
  induction d as [|b d IH]; [reflexivity|]. cbn [map fold_right jdepth]. rewrite IH. reflexivity.
Qed.

Lemma smeta_json_clean m : jclean (sm_metadata m) = true -> jclean (smeta_json m) = true.
Proof.
  intros H. unfold smeta_json. cbn [jclean forallb snd]. rewrite H, jraw_clean.
  destruct (sm_integrity m); reflexivity.
Qed.

Lemma smeta_json_utf8 m :
  valid_utf8 (sm_key m) = true -> opt_utf8 (sm_integrity m) = true -> jutf8 (sm_metadata m) = true ->
  jutf8 (smeta_json m) = true.
Proof.
  intros Hk Hi Hm. unfold smeta_json.
  destruct (sm_integrity m) as [s|]; cbn [opt_utf8] in Hi; cbn [jutf8 forallb fst snd]; rewrite ?Hi, Hk, Hm, jraw_utf8;
    repeat match goal with |- context [valid_utf8 (bs ?s)] => change (valid_utf8 (bs s)) with true end;
    reflexivity.
Qed.

Lemma smeta_json_depth m : (jdepth (sm_metadata m) <= 126)%nat -> (jdepth (smeta_json m) <= json_depth)%nat.
Proof.
  intros H. unfold smeta_json, json_depth. cbn [jdepth fold_right snd]. pose proof (jraw_depth (sm_raw m)) as Hr.
  assert (jdepth (match sm_integrity m with Some s => JStr s | None => JNull end) = O) as -> by (destruct (sm_integrity m); reflexivity).
  lia.
Qed.

Lemma hex_byte_ascii b : forallb is_ascii (hex_byte b) = true.
Proof. destruct b; vm_compute; reflexivity. Qed.

Lemma hex_encode_ascii l : forallb is_ascii (hex_encode l) = true.
Proof.
  unfold hex_encode. induction l as [|b l IH]; [reflexivity|].
  cbn [flat_map]. rewrite forallb_app, hex_byte_ascii, IH. reflexivity.
Qed.

Section W.
Variable hash : algo -> bytes -> bytes.

Lemma record_line_utf8 text : valid_utf8 text = true -> valid_utf8 (record_line hash text) = true.
Proof.
  intros H. unfold record_line, hash_entry.
  change (tab :: text) with ([tab] ++ text). rewrite app_assoc, valid_utf8_ascii_app; [exact H|].
  rewrite forallb_app, hex_encode_ascii. reflexivity.
Qed.

(* Target 5 *)
Theorem wf_rec_api m : rec_ok m = true -> wf_rec hash m.
Proof.
  unfold rec_ok. intros H.
  apply andb_true_iff in H as [H Hcanon]. apply andb_true_iff in H as [H Hdepth].
  apply andb_true_iff in H as [H Hutf]. apply andb_true_iff in H as [H Hclean].
  apply andb_true_iff in H as [H Hsize]. apply andb_true_iff in H as [H Htime].
  apply andb_true_iff in H as [Hkey Hint].
  apply Nat.leb_le in Hdepth.
  pose proof (smeta_json_clean m Hclean) as Jc.
  pose proof (smeta_json_utf8 m Hkey Hint Hutf) as Ju.
  pose proof (smeta_json_depth m Hdepth) as Jd.
  unfold wf_rec. cbv zeta. unfold encode_smeta. split; [|split].
  - intros b Hb. exact (ser_no_ctrl _ Jc b Hb).
  - apply record_line_utf8. exact (ser_utf8 _ Jc Ju).
  - unfold parse_smeta. rewrite (parse_json_ser _ Jc Jd). exact (decode_smeta_json m Htime Hsize Hcanon).
Qed.
End W.

(* [rec_ok] from its components, with the structural form of the normal-form condition *)
Lemma rec_ok_intro m :
  valid_utf8 (sm_key m) = true -> opt_utf8 (sm_integrity m) = true ->
  sm_time m < n128 -> sm_size m < n64 ->
  jclean (sm_metadata m) = true -> jutf8 (sm_metadata m) = true -> (jdepth (sm_metadata m) <= 126)%nat ->
  jsorted (sm_metadata m) = true ->
  rec_ok m = true.
Proof.
  intros Hk Hi Ht Hs Hc Hu Hd Hn. unfold rec_ok.
  apply N.ltb_lt in Ht. apply N.ltb_lt in Hs. apply Nat.leb_le in Hd.
  rewrite Hk, Hi, Ht, Hs, Hc, Hu, Hd, (jsorted_jcanon _ Hn). reflexivity.
Qed.

(* ---- the predicate is satisfiable: a record with a non-ASCII key, nested metadata, raw bytes ---- *)
Definition ex_rec : smeta :=
  mkSmeta [x6b; xc3; xa9; x79; xe2; x82; xac]                    (* "k\u00e9y\u20ac" *)
          (Some (bs "sha256-47DEQpj8HBSa+/TImW+5JCeuQeRkm5NMpJWZG3hSuFU="))
          1700000000123 42
          (JObj [(bs "a", JArr [JInt 1; JInt (-20); JNull; JStr [x22; x5c; x0a; x01; xf0; x9f; x98; x80]]);
                 (bs "b", JObj [(bs "x", JBool true); (bs "y", JObj []); (bs "z", JArr [])]);
                 ([xc3; xa9], JInt 0)])
          (Some [x00; xff; x0a; x22; x30]).

Example ex_rec_ok : rec_ok ex_rec = true.
Proof. vm_compute. reflexivity. Qed.

(* the same round trip, by evaluation *)
Example ex_rec_roundtrip : parse_smeta (encode_smeta ex_rec) = Some ex_rec.
Proof. vm_compute. reflexivity. Qed.

(* the normal-form condition is not vacuous: unsorted keys are rejected (the decoder would sort them) *)
Example ex_rec_unsorted :
  rec_ok (mkSmeta (bs "k") None 0 0 (JObj [(bs "b", JNull); (bs "a", JNull)]) None) = false.
Proof. vm_compute. reflexivity. Qed.

Print Assumptions wf_rec_api.
Print Assumptions decode_smeta_json.
