(* FaultFrameP.v — C13 "afterwards other entries are unaffected", for a keyed one-shot write in which ANY number of steps
   fail (each answering an errno and leaving the tree as it was or in one of the step's intermediate states): every other
   key's lookup and every other stored content are exactly as before; the written key's lookup is its previous entry or
   the complete new one. *)
From CC Require Import Bytes Codec Utf8 Lines Json Sri Record Fs Prog Api Crash Sess
  BytesP CodecP LinesP FsP ProgP SriP RecordP IndexP ReadP WriteP CommitP RemoveP TotalP CrashP CrashIdxP ConfineP KeepP
  FaultP SessP JsonP RecCodecP MetaP HistP.
From Coq Require Import Lia.
Local Open Scope N_scope.

Section FF.
Variable hash : algo -> bytes -> bytes.
Hypothesis HL : HashLen hash.

(* a region no step touches is the same after any faulty run *)
Lemma frun_untouched {A} (R : loc -> Prop) (p : prog A) f a f' :
  all_steps (fun c => forall l, may_touch c l -> ~ R l) p -> frun p f a f' -> forall l, R l -> lookup f' l = lookup f l.
Proof.
  intros Hp Hr.
  apply (frun_invariant (fun g => forall l, R l -> lookup g l = lookup f l) (fun c _ => forall l, may_touch c l -> ~ R l)) with (p := p) (f := f) (a := a).
  - intros c g Hg Hc. split.
    + intros l Hl. rewrite <- (Hg l Hl). apply exec_frame. intro Ht. exact (Hc l Ht Hl).
    + apply Forall_forall. intros h Hh l Hl. rewrite <- (Hg l Hl).
      destruct (exec_frame c g l) as [_ Hm]; [intro Ht; exact (Hc l Ht Hl)|]. rewrite Forall_forall in Hm. exact (Hm h Hh).
  - reflexivity.
  - apply (all_steps_fsteps (fun c => forall l, may_touch c l -> ~ R l)); [intros c g H; exact H|exact Hp].
  - exact Hr.
Qed.

(* the region a write must leave alone: the index area and every content file other than its own *)
Definition other (cp : path) (l : loc) : Prop := is_index l \/ (cfile hash l /\ InCache cp <> l).

Lemma tmponly_other cp c : tmponly c -> forall l, may_touch c l -> ~ other cp l.
Proof.
  intros Hc l Hl [[q E]|[[a [d E]] _]]; destruct (Hc l Hl) as [X|[n X]]; rewrite X in E; inversion E as [[H1 H2]]; try (vm_compute in H1; discriminate).
Qed.

(* ---------- what the pieces of a write answer, whatever their steps answer ---------- *)
Definition Qopen (key : option bytes) (o : wopts) (w : wstate) : Prop :=
  tmpfile (w_tmp w) /\ w_data w = [] /\ w_written w = 0 /\ w_key w = key /\ w_opts w = o /\ w_algo w = algo_of o.
Lemma open_writer_fpost fl key o : fpost (okq (Qopen key o)) (open_writer fl key o).
Proof.
  unfold open_writer. apply (fpost_rbind (fun _ => True)); [apply fsafe_step_ok|intros _ _]. cbn [fpost]. intros r Hr.
  destruct r; cbn in Hr; try contradiction; try exact I.
  assert (Qopen key o (mkW key o (match o_algo o with Some a => a | None => Sha256 end) (InCache (tmp_dir ++ [n])) None 0 0 [])) as Q1
    by (repeat split; exists n; reflexivity).
  destruct (content_size fl key o) as [sz|]; [|exact Q1]. destruct ((1 <=? sz) && (sz <=? max_mmap)); [|exact Q1].
  cbn [fpost]. intros r2 _. destruct r2; try (repeat split; exists n; reflexivity).
Qed.

Definition Qchunk (w : wstate) (d : bytes) (w' : wstate) : Prop :=
  w_tmp w' = w_tmp w /\ w_data w' = w_data w ++ d /\ w_written w' = w_written w + lenN d /\
  w_key w' = w_key w /\ w_opts w' = w_opts w /\ w_algo w' = w_algo w.
Lemma write_chunk_fpost w d : fpost (okq (Qchunk w d)) (write_chunk w d).
Proof.
  unfold write_chunk. destruct (w_map w) as [sz|].
  - destruct (w_pos w + lenN d <=? sz); repeat (apply (fpost_rbind (fun _ => True)); [apply fsafe_step_ok|intros _ _]); repeat split.
  - apply (fpost_rbind (fun _ => True)); [apply fsafe_step_ok|intros _ _]. repeat split.
Qed.

Lemma close_writer_fpost w : fpost (okq (fun sri => sri = sri_of hash (w_algo w) (w_data w))) (close_writer hash w).
Proof.
  unfold close_writer. destruct (wf_sri_cpath _ (wf_sri_computed hash HL (w_algo w) (w_data w))) as [cp ->].
  apply (fpost_bind (okq (fun _ => True))).
  - unfold trim. destruct (w_map w) as [sz|]; [destruct (w_pos w <? sz)|]; try exact I. apply fsafe_step_ok.
  - intros rt _. destruct rt; try (apply fsafe_unlink_quiet; exact I).
    unfold publish. cbn [fpost]. intros r0 _. destruct r0; try (apply fsafe_unlink_quiet; exact I).
    all: cbn [fpost]; intros r _; destruct r; try reflexivity; cbn [fpost]; intros r2 _;
      destruct r2 as [| |[|]| | | |]; unfold unlink_quiet; cbn [fpost]; intros; try reflexivity; exact I.
Qed.


Lemma all_steps_and {A} (P Q : sys -> Prop) (p : prog A) : all_steps P p -> all_steps Q p -> all_steps (fun c => P c /\ Q c) p.
Proof. induction p as [a|c k IH]; cbn [all_steps]; [auto|]. intros [H1 H2] [H3 H4]. split; [split; assumption|intros r; apply IH; auto]. Qed.
Lemma all_steps_forall {A X} (S : X -> sys -> Prop) (p : prog A) : (forall x, all_steps (S x) p) -> all_steps (fun c => forall x, S x c) p.
Proof.
  induction p as [a|c k IH]; cbn [all_steps]; [auto|]. intros H. split; [intros x; exact (proj1 (H x))|].
  intros r. apply IH. intros x. exact (proj2 (H x) r).
Qed.
Lemma all_steps_impl {A} (P Q : sys -> Prop) (p : prog A) : (forall c, P c -> Q c) -> all_steps P p -> all_steps Q p.
Proof. intros HPQ. induction p as [a|c k IH]; cbn [all_steps]; [auto|]. intros [H1 H2]. split; [auto|intros r; apply IH; auto]. Qed.

(* closing a writer: the index area and every other content file are left alone *)
Lemma close_other w :
  tmpfile (w_tmp w) ->
  all_steps (fun c => forall l, may_touch c l -> ~ other (cpath hash (w_algo w) (w_data w)) l) (close_writer hash w).
Proof.
  intros [n Hn]. set (cp := cpath hash (w_algo w) (w_data w)).
  assert (wtmp_is w) as Hw by (exists n; exact Hn).
  assert (all_steps (fun c => forall l, cfile hash l /\ InCache cp <> l -> ksafe' l c) (close_writer hash w)) as H2.
  { apply all_steps_forall. intros l.
    assert (cfile hash l /\ InCache cp <> l -> all_steps (ksafe' l) (close_writer hash w)) as Hc.
    { intros [Hl Hne]. unfold close_writer. rewrite (content_path_computed hash _ _ HL).
      apply all_steps_bind; [apply (k_trim hash l Hl); exact Hw|].
      intros rt. destruct rt; try (rewrite Hn; apply (k_unlink_quiet hash l Hl)).
      apply (kp_publish hash); [exact Hl|exact Hw|exact Hne|unfold cpath; eauto 10]. }
    (* when the side condition fails the step predicate is trivially true *)
    generalize (close_writer hash w) Hc. clear. intros p. induction p as [a|c k IH]; cbn [all_steps]; [auto|].
    intros Hc. split; [intros Hx; exact (proj1 (Hc Hx))|]. intros r. apply IH. intros Hx. exact (proj2 (Hc Hx) r). }
  pose proof (close_writer_noidx hash HL w (ex_intro _ n Hn)) as H1.
  apply (all_steps_impl _ _ _ (fun c H => H) ) .
  apply (all_steps_impl (fun c => noidx c /\ (forall l, cfile hash l /\ InCache cp <> l -> ksafe' l c))); [|apply all_steps_and; assumption].
  intros c [Hi Hk] l Hl [Hx|Hx]; [exact (Hi l Hl Hx)|exact (ksafe'_untouched l c (Hk l Hx) Hl)].
Qed.


(* the conclusions, relative to a start state [f] *)
Definition others_kept (f f' : fs) (key : bytes) (cp : path) (o' : wopts) (now : N) : Prop :=
  IndexInv f' /\
  (forall k, k <> key -> abs_idx hash f' k = abs_idx hash f k) /\
  (forall l, cfile hash l -> InCache cp <> l -> lookup f' l = lookup f l) /\
  (abs_idx hash f' key = abs_idx hash f key \/ abs_idx hash f' key = new_entry key o' now).

Lemma others_kept_frame f g key cp o' now :
  IndexInv f -> (forall l, other cp l -> lookup g l = lookup f l) -> others_kept f g key cp o' now.
Proof.
  intros Hi Hfr. assert (forall l, is_index l -> lookup g l = lookup f l) as Hidx by (intros l Hl; apply Hfr; left; exact Hl).
  split; [exact (IndexInv_frame f g Hi Hidx)|]. split; [intros k _; apply (abs_idx_frame hash); exact Hidx|].
  split; [intros l Hl Hne; apply Hfr; right; split; assumption|left; apply (abs_idx_frame hash); exact Hidx].
Qed.

Lemma others_kept_trans f g h key cp o' now :
  (forall l, other cp l -> lookup g l = lookup f l) -> others_kept g h key cp o' now -> others_kept f h key cp o' now.
Proof.
  intros Hfr [Hi [Ho [Hc Hk]]].
  assert (forall k, abs_idx hash g k = abs_idx hash f k) as Ha by (apply (abs_idx_frame hash); intros l Hl; apply Hfr; left; exact Hl).
  split; [exact Hi|]. split; [intros k Hne; rewrite (Ho k Hne); apply Ha|].
  split; [intros l Hl Hne; rewrite (Hc l Hl Hne); apply Hfr; right; split; assumption|rewrite <- (Ha key); exact Hk].
Qed.

(* the commit of the one-shot writer, any steps failing *)
Lemma commit_faulty_others f w fl a key data now r f' :
  IndexInv f -> tmpfile (w_tmp w) -> w_key w = Some key -> w_opts w = write_opts fl a data -> w_algo w = a ->
  w_data w = data -> w_written w = lenN data ->
  let o' := commit_opts (write_opts fl a data) (sri_of hash a data) (lenN data) in
  wf_rec hash (smeta_of key o' now) -> PrefixFree hash (encode_smeta (smeta_of key o' now)) ->
  frun (commit hash w now) f r f' -> others_kept f f' key (cpath hash a data) o' now.
Proof.
  intros Hi Ht Hk Ho Ha Hd Hwr o' Hwf Hpf Hr. unfold commit, rbind in Hr. apply frun_bind in Hr as [rc [f3 [Hc Hrest]]].
  pose proof (frun_untouched _ _ _ _ _ (close_other w Ht) Hc) as F3. rewrite Ha, Hd in F3.
  pose proof (fpost_frun _ _ _ _ _ (close_writer_fpost w) Hc) as Qc.
  destruct rc as [wsri|e| | |]; cbn [okq] in Qc; try contradiction.
  - subst wsri. rewrite Ha, Hd, Ho, Hk, Hwr in Hrest.
    assert (frun (insert hash key o' now) f3 r f') as Hins.
    { revert Hrest. unfold o', commit_opts. destruct fl; cbn [write_opts o_sri o_size o_algo o_time o_meta o_raw]; [|rewrite N.eqb_refl; cbn [negb]]; exact (fun x => x). }
    assert (IndexInv f3) as Hi3 by (apply (IndexInv_frame f); [exact Hi|intros l Hl; apply F3; left; exact Hl]).
    apply (others_kept_trans f f3); [exact F3|].
    destruct (insert_faulty hash f3 key o' now r f' Hi3 Hwf Hpf Hins) as [[Hs|Hcomp] _].
    + pose proof Hs as [Hi' [_ Hnon]]. split; [exact Hi'|]. split; [intros k _; apply (SameIdx_abs hash); exact Hs|].
      split; [|left; apply (SameIdx_abs hash); exact Hs].
      intros l Hl _. apply Hnon. intros X. eapply index_not_content; [exact X|apply (cfile_content hash); exact Hl].
    + subst f'. assert (wf_sri_opt o') as Hso.
      { intros i Ei. unfold o', commit_opts in Ei. cbn [o_sri] in Ei. inversion Ei; subst i. apply (parse_entry_computed hash _ _ HL). }
      destruct (insert_abs hash f3 key o' now Hi3 Hwf Hso) as [Hi' [_ [Habs Hnon]]].
      split; [exact Hi'|]. split; [intros k Hne; rewrite Habs; apply bytes_eqb_neq in Hne; rewrite Hne; reflexivity|].
      split; [|right; rewrite Habs, (proj2 (bytes_eqb_eq key key) eq_refl); reflexivity].
      intros l Hl _. apply Hnon. intros q X. apply (index_not_content l); [exists q; exact X|apply (cfile_content hash); exact Hl].
  - apply frun_ret in Hrest as [_ ->]. apply others_kept_frame; assumption.
Qed.


Lemma unlink_quiet_other {A} cp n (r : res A) :
  all_steps (fun c => forall l, may_touch c l -> ~ other cp l) (unlink_quiet (InCache (tmp_dir ++ [n])) r).
Proof. apply (all_steps_impl tmponly); [intros c Hc; apply tmponly_other; exact Hc|apply t_unlink_quiet]. Qed.

(* a keyed one-shot write in which any steps fail *)
Theorem write_faulty_others f fl a key data now r f' :
  IndexInv f ->
  let o' := commit_opts (write_opts fl a data) (sri_of hash a data) (lenN data) in
  wf_rec hash (smeta_of key o' now) -> PrefixFree hash (encode_smeta (smeta_of key o' now)) ->
  frun (write hash fl a key data now) f r f' -> others_kept f f' key (cpath hash a data) o' now.
Proof.
  intros Hi o' Hwf Hpf Hr. set (cp := cpath hash a data).
  unfold write, oneshot, rbind in Hr. apply frun_bind in Hr as [r1 [f1 [Ho Hrest]]].
  assert (forall l, other cp l -> lookup f1 l = lookup f l) as F1.
  { apply (frun_untouched (other cp) _ _ _ _ (all_steps_impl tmponly _ _ (fun c Hc => tmponly_other cp c Hc) (t_open_writer _ _ _)) Ho). }
  pose proof (fpost_frun _ _ _ _ _ (open_writer_fpost fl (Some key) (write_opts fl a data)) Ho) as Q1.
  destruct r1 as [w|e| | |]; cbn [okq] in Q1; try contradiction.
  2: { apply frun_ret in Hrest as [_ ->]. apply others_kept_frame; assumption. }
  destruct Q1 as [Ht [Hd0 [Hw0 [Hk [Hop Hal]]]]].
  assert (algo_of (write_opts fl a data) = a) as Ea by (destruct fl; reflexivity). rewrite Ea in Hal.
  assert (IndexInv f1) as Hi1 by (apply (IndexInv_frame f); [exact Hi|intros l Hl; apply F1; left; exact Hl]).
  apply (others_kept_trans f f1); [exact F1|].
  destruct data as [|b data].
  - apply (commit_faulty_others f1 w fl a key [] now r f'); [exact Hi1|exact Ht|exact Hk|exact Hop|exact Hal|exact Hd0|exact Hw0|exact Hwf|exact Hpf|exact Hrest].
  - apply frun_bind in Hrest as [r2 [f2 [Hc Hrest]]].
    assert (forall l, other cp l -> lookup f2 l = lookup f1 l) as F2.
    { apply (frun_untouched (other cp) _ _ _ _ (all_steps_impl tmponly _ _ (fun c Hc => tmponly_other cp c Hc) (t_write_chunk w (b :: data) Ht)) Hc). }
    assert (IndexInv f2) as Hi2 by (apply (IndexInv_frame f1); [exact Hi1|intros l Hl; apply F2; left; exact Hl]).
    apply (others_kept_trans f1 f2); [exact F2|].
    pose proof (fpost_frun _ _ _ _ _ (write_chunk_fpost w (b :: data)) Hc) as Q2.
    destruct r2 as [w'|e| | |]; cbn [okq] in Q2; try contradiction.
    + destruct Q2 as [Et [Ed [Ew [Ek [Eo Eal]]]]].
      apply (commit_faulty_others f2 w' fl a key (b :: data) now r f');
        [exact Hi2|rewrite Et; exact Ht|congruence|congruence|congruence|rewrite Ed, Hd0; reflexivity|rewrite Ew, Hw0; reflexivity|exact Hwf|exact Hpf|exact Hrest].
    + destruct Ht as [n Hn]. rewrite Hn in Hrest.
      apply others_kept_frame; [exact Hi2|]. apply (frun_untouched (other cp) _ _ _ _ (unlink_quiet_other cp n _) Hrest).
Qed.


(* ---------- removals under faults ---------- *)
(* removal of content by address: only that content path can change *)
Theorem remove_hash_faulty_others i f r f' :
  frun (remove_hash i) f r f' ->
  forall l, (forall cp, content_path i = Some cp -> l <> InCache cp) -> lookup f' l = lookup f l.
Proof.
  intros Hr l Hl.
  apply (frun_untouched (fun x => x = l) (remove_hash i) f r f'); [|exact Hr|reflexivity].
  unfold remove_hash, with_cpath. destruct (content_path i) as [cp|]; [|exact I].
  apply all_steps_step_ok. intros x Hx ->. cbn [may_touch] in Hx. exact (Hl cp eq_refl Hx).
Qed.

(* removal of a key (tombstone): unchanged or complete, other keys and every non-index location untouched *)
Theorem delete_faulty_others f key now r f' :
  IndexInv f -> wf_rec hash (smeta_of key wopts0 now) -> PrefixFree hash (encode_smeta (smeta_of key wopts0 now)) ->
  frun (delete hash key now) f r f' ->
  IndexInv f' /\
  (forall k, k <> key -> abs_idx hash f' k = abs_idx hash f k) /\
  (forall l, ~ is_index l -> lookup f' l = lookup f l) /\
  (abs_idx hash f' key = abs_idx hash f key \/ abs_idx hash f' key = None).
Proof.
  intros Hi Hwf Hpf Hr. unfold delete, rbind in Hr. apply frun_bind in Hr as [r1 [f1 [Hins Hrest]]].
  assert (f' = f1) as -> by (destruct r1; apply frun_ret in Hrest as [_ ->]; reflexivity).
  destruct (insert_faulty hash f key wopts0 now r1 f1 Hi Hwf Hpf Hins) as [[Hs|Hcomp] _].
  - pose proof Hs as [Hi' [_ Hnon]]. split; [exact Hi'|]. split; [intros k _; apply (SameIdx_abs hash); exact Hs|].
    split; [exact Hnon|left; apply (SameIdx_abs hash); exact Hs].
  - subst f1. assert (wf_sri_opt wopts0) as Hso by (intros i Ei; discriminate Ei).
    destruct (insert_abs hash f key wopts0 now Hi Hwf Hso) as [Hi' [_ [Habs Hnon]]].
    split; [exact Hi'|]. split; [intros k Hne; rewrite Habs; apply bytes_eqb_neq in Hne; rewrite Hne; reflexivity|].
    split; [intros l Hl; apply Hnon; intros q X; apply Hl; exists q; exact X|].
    right. rewrite Habs, (proj2 (bytes_eqb_eq key key) eq_refl). reflexivity.
Qed.

End FF.
