(* TreeP.v — the cache directory is a tree in every reachable state: the root is not an entry, every entry's parent is a
   directory, first-level entries are directories.  This is what [clear] needs (RemoveP.RootShape) to leave an empty,
   usable cache; here it is shown to be an invariant of every step of the API programs, so that the clause of C09 about
   clearing holds after any history. *)
From CC Require Import Bytes Codec Utf8 Lines Json Sri Record Fs Prog Api Crash Sess
  BytesP CodecP LinesP FsP ProgP SriP RecordP IndexP ReadP WriteP CommitP RemoveP TotalP CrashP CrashIdxP ConfineP KeepP
  FaultP SessP JsonP RecCodecP MetaP HistP LsWholeP LsHistP FaultFrameP RetryP.
From Coq Require Import Lia.
Local Open Scope N_scope.

Definition Tree (g : fs) : Prop :=
  lookup g (InCache []) = None /\
  (forall p nd, lookup g (InCache p) = Some nd -> is_dir g (parent p) = true) /\
  (forall n nd, lookup g (InCache [n]) = Some nd -> nd = Dir).

Lemma parent_neq p : p <> [] -> parent p <> p.
Proof.
  intros Hp E. assert (List.length (parent p) = List.length p) as El by (rewrite E; reflexivity).
  unfold parent in El. destruct p as [|x p]; [contradiction|]. clear -El.
  assert (forall (l : path) x, List.length (removelast (x :: l)) = List.length l) as H.
  { intros l. induction l as [|y l IH]; intros x0; [reflexivity|]. cbn [removelast List.length] in *. rewrite (IH y). reflexivity. }
  rewrite H in El. cbn [List.length] in El. lia.
Qed.

Lemma is_dir_update_other g l n p : InCache p <> l -> is_dir (update g l n) p = is_dir g p.
Proof. intros Hne. unfold is_dir. destruct p; [reflexivity|]. rewrite lookup_update_neq by congruence. reflexivity. Qed.
Lemma is_dir_remove_other g l p : InCache p <> l -> is_dir (remove g l) p = is_dir g p.
Proof. intros Hne. unfold is_dir. destruct p; [reflexivity|]. rewrite lookup_remove_neq by congruence. reflexivity. Qed.

(* a node is added or replaced at [pl]: its parent is a directory, it is a directory itself if first-level, and if it
   replaces a directory it is a directory *)
Lemma tree_update g pl n :
  Tree g -> pl <> [] -> is_dir g (parent pl) = true -> (List.length pl = 1%nat -> n = Dir) ->
  (lookup g (InCache pl) = Some Dir -> n = Dir) ->
  (lookup g (InCache pl) = None \/ (exists nd, lookup g (InCache pl) = Some nd)) ->
  (forall q nd, lookup g (InCache q) = Some nd -> parent q = pl -> n = Dir) ->
  Tree (update g (InCache pl) n).
Proof.
  intros [T1 [T2 T3]] Hpl Hpar H1 Hrep _ Hkids. split; [|split].
  - rewrite lookup_update_neq; [exact T1|]. intros E. inversion E. congruence.
  - intros p nd Hl. rewrite lookup_update in Hl. destruct (loc_eqb (InCache pl) (InCache p)) eqn:E.
    + apply loc_eqb_eq in E. inversion E; subst p. rewrite is_dir_update_other; [exact Hpar|]. intros X. inversion X as [X']. exact (parent_neq pl Hpl X').
    + apply loc_eqb_neq in E. pose proof (T2 p nd Hl) as Hd.
      destruct (loc_eq_dec (InCache (parent p)) (InCache pl)) as [X|X].
      * inversion X as [X']. rewrite X'. rewrite (Hkids p nd Hl X'). unfold is_dir. destruct pl as [|y r]; [reflexivity|].
        rewrite lookup_update_eq. reflexivity.
      * rewrite is_dir_update_other by exact X. exact Hd.
  - intros x nd Hl. rewrite lookup_update in Hl. destruct (loc_eqb (InCache pl) (InCache [x])) eqn:E.
    + apply loc_eqb_eq in E. inversion E; subst pl. inversion Hl; subst nd. apply H1. reflexivity.
    + exact (T3 x nd Hl).
Qed.

Lemma is_dir_true g p : p <> [] -> is_dir g p = true -> lookup g (InCache p) = Some Dir.
Proof. intros Hp H. unfold is_dir in H. destruct p; [contradiction|]. destruct (lookup g (InCache (n :: p))) as [[d| |t]|]; try discriminate. reflexivity. Qed.

(* a non-directory (or, first-level excluded, any node) put where no directory is *)
Lemma tree_put g pl n :
  Tree g -> pl <> [] -> is_dir g (parent pl) = true -> (List.length pl = 1%nat -> n = Dir) ->
  lookup g (InCache pl) <> Some Dir -> Tree (update g (InCache pl) n).
Proof.
  intros Ht Hpl Hpar H1 Hnd. apply tree_update; try assumption.
  - intros X. contradiction.
  - destruct (lookup g (InCache pl)); eauto.
  - intros q nd Hq Ep. exfalso. destruct Ht as [_ [T2 _]]. pose proof (T2 q nd Hq) as Hd. rewrite Ep in Hd. exact (Hnd (is_dir_true g pl Hpl Hd)).
Qed.

Lemma tree_put_dir g pl : Tree g -> pl <> [] -> is_dir g (parent pl) = true -> Tree (update g (InCache pl) Dir).
Proof.
  intros Ht Hpl Hpar. apply tree_update; auto. destruct (lookup g (InCache pl)); eauto.
Qed.

Lemma tree_remove g pl : Tree g -> pl <> [] -> lookup g (InCache pl) <> Some Dir -> Tree (remove g (InCache pl)).
Proof.
  intros [T1 [T2 T3]] Hpl Hnd. split; [|split].
  - rewrite lookup_remove_neq; [exact T1|]. intros E. inversion E. congruence.
  - intros p nd Hl. destruct (loc_eq_dec (InCache pl) (InCache p)) as [E|N]; [rewrite E, lookup_remove_eq in Hl; discriminate|].
    rewrite lookup_remove_neq in Hl by exact N. pose proof (T2 p nd Hl) as Hd.
    destruct (loc_eq_dec (InCache (parent p)) (InCache pl)) as [X|X].
    + exfalso. inversion X as [X']. rewrite X' in Hd. exact (Hnd (is_dir_true g pl Hpl Hd)).
    + rewrite is_dir_remove_other by exact X. exact Hd.
  - intros x nd Hl. destruct (loc_eq_dec (InCache pl) (InCache [x])) as [E|N]; [rewrite E, lookup_remove_eq in Hl; discriminate|].
    rewrite lookup_remove_neq in Hl by exact N. exact (T3 x nd Hl).
Qed.

Lemma tree_same g g' : Tree g -> (forall p, lookup g' (InCache p) = lookup g (InCache p)) -> Tree g'.
Proof.
  intros [T1 [T2 T3]] H. assert (forall p, is_dir g' p = is_dir g p) as Hd by (intros p; unfold is_dir; destruct p; [reflexivity|rewrite H; reflexivity]).
  split; [rewrite H; exact T1|]. split; [intros p nd Hl; rewrite H in Hl; rewrite Hd; exact (T2 p nd Hl)|intros x nd Hl; rewrite H in Hl; exact (T3 x nd Hl)].
Qed.
Lemma tree_ext_update g e n : Tree g -> Tree (update g (Ext e) n).
Proof. intros H. apply (tree_same g); [exact H|]. intros p. apply lookup_update_neq. discriminate. Qed.
Lemma tree_ext_remove g e : Tree g -> Tree (remove g (Ext e)).
Proof. intros H. apply (tree_same g); [exact H|]. intros p. apply lookup_remove_neq. discriminate. Qed.

(* an existing regular file is rewritten *)
Lemma tree_rewrite g l d d' : Tree g -> lookup g l = Some (File d) -> Tree (update g l (File d')).
Proof.
  intros Ht Hl. destruct l as [pl|e]; [|apply tree_ext_update; exact Ht].
  pose proof Ht as [T1 [T2 T3]].
  assert (pl <> []) as Hpl by (intros ->; rewrite T1 in Hl; discriminate).
  apply tree_put; [exact Ht|exact Hpl|exact (T2 pl _ Hl)| |rewrite Hl; discriminate].
  intros Hlen. destruct pl as [|x [|y r]]; try discriminate. pose proof (T3 x _ Hl) as X. discriminate X.
Qed.

Lemma is_prefix_app p q : is_prefix p (p ++ q) = true.
Proof. induction p as [|x p IH]; [reflexivity|]. cbn [app is_prefix]. rewrite (proj2 (bytes_eqb_eq x x) eq_refl). exact IH. Qed.
Lemma is_prefix_trans a b c : is_prefix a b = true -> is_prefix b c = true -> is_prefix a c = true.
Proof.
  revert b c. induction a as [|x a IH]; intros [|y b] [|z c] H1 H2; cbn [is_prefix] in *; try reflexivity; try discriminate.
  apply andb_true_iff in H1 as [E1 H1]. apply andb_true_iff in H2 as [E2 H2]. apply bytes_eqb_eq in E1, E2. subst.
  rewrite (proj2 (bytes_eqb_eq z z) eq_refl). exact (IH b c H1 H2).
Qed.
Lemma is_prefix_parent p : is_prefix (parent p) p = true.
Proof.
  unfold parent. induction p as [|x p IH]; [reflexivity|]. destruct p as [|y p]; [reflexivity|].
  change (removelast (x :: y :: p)) with (x :: removelast (y :: p)). cbn [is_prefix]. rewrite (proj2 (bytes_eqb_eq x x) eq_refl). exact IH.
Qed.

(* remove_dir_all *)
Lemma tree_rmtree g p0 : Tree g -> p0 <> [] -> Tree (filter (fun ln => negb (under p0 (fst ln))) g).
Proof.
  intros [T1 [T2 T3]] Hp0.
  assert (forall l, lookup (filter (fun ln => negb (under p0 (fst ln))) g) l = if negb (under p0 l) then lookup g l else None) as Hf
    by (intros l; apply (lookup_filter_key (fun l => negb (under p0 l)))).
  split; [|split].
  - rewrite Hf. destruct (negb (under p0 (InCache []))); [exact T1|reflexivity].
  - intros p nd Hl. rewrite Hf in Hl. destruct (under p0 (InCache p)) eqn:Eu; cbn [negb] in Hl; [discriminate|].
    pose proof (T2 p nd Hl) as Hd. unfold is_dir in *. destruct (parent p) as [|y r] eqn:Ep; [reflexivity|]. rewrite Hf.
    destruct (under p0 (InCache (y :: r))) eqn:Eu2; cbn [negb]; [|exact Hd].
    exfalso. cbn [under] in Eu, Eu2. rewrite <- Ep in Eu2. rewrite (is_prefix_trans p0 (parent p) p Eu2 (is_prefix_parent p)) in Eu. discriminate.
  - intros x nd Hl. rewrite Hf in Hl. destruct (negb (under p0 (InCache [x]))); [exact (T3 x nd Hl)|discriminate].
Qed.

(* mkdir -p *)
Lemma parent_snoc (pre : path) x : parent (pre ++ [x]) = pre.
Proof. unfold parent. apply removelast_last. Qed.

Lemma tree_mkdirs g pre p :
  Tree g -> is_dir g pre = true -> Tree (snd (mkdirs g (prefixes_from pre p))).
Proof.
  revert g pre. induction p as [|x p IH]; intros g pre Ht Hd; cbn [prefixes_from mkdirs snd]; [exact Ht|].
  destruct (lookup g (InCache (pre ++ [x]))) as [[d| |t]|] eqn:El; cbn [snd]; try exact Ht.
  - apply IH; [exact Ht|apply is_dir_of_lookup; exact El].
  - assert (pre ++ [x] <> []) as Hne by (destruct pre; discriminate).
    apply IH.
    + apply tree_put_dir; [exact Ht|exact Hne|rewrite parent_snoc; exact Hd].
    + apply is_dir_of_lookup. apply lookup_update_eq.
Qed.

Definition deep (l : loc) : Prop := match l with InCache p => (2 <= List.length p)%nat | Ext _ => True end.

(* the steps that keep the tree a tree *)
Definition tstep (c : sys) : Prop :=
  match c with
  | MkdirAll p | RemoveDirAll p => p <> []
  | Rename s d => (exists x, s = InCache [bs "tmp"; x]) /\ deep d
  | CreateIfMissing l => deep l
  | Link _ d | SymlinkTo _ d | CopyFile _ d => exists e, d = Ext e
  | _ => True
  end.

Lemma tree_put_deep g l n : Tree g -> deep l -> parent_ok g l = true -> lookup g l <> Some Dir -> Tree (update g l n).
Proof.
  intros Ht Hd Hp Hnd. destruct l as [pl|e]; [|apply tree_ext_update; exact Ht]. cbn [deep parent_ok] in *.
  apply tree_put; [exact Ht|destruct pl; [cbn in Hd; lia|discriminate]|exact Hp| |exact Hnd].
  intros Hlen. rewrite Hlen in Hd. lia.
Qed.

Lemma tree_step c g : Shape g -> Tree g -> tstep c -> Tree (snd (exec c g)).
Proof.
  intros Hs Ht Hc.
  destruct c as [p| |l n|l off s|l n|l s|src dst|l|l|l d|l|l|src dst|t dst|src dst|src dst|p|p|p]; cbn [tstep] in Hc; unfold exec.
  - (* MkdirAll *) apply tree_mkdirs; [exact Ht|reflexivity].
  - (* CreateTmp *) destruct (is_dir g tmp_dir) eqn:Ed; cbn [snd]; [|exact Ht].
    apply tree_put; [exact Ht|discriminate|exact Ed|cbn; intros X; discriminate X|rewrite (fresh_absent (fun _ _ => []) g); discriminate].
  - destruct (lookup g l) as [[x| |y]|] eqn:El; cbn [snd]; try exact Ht. destruct (n =? 0); cbn [snd]; [exact Ht|exact (tree_rewrite g l x _ Ht El)].
  - destruct (lookup g l) as [[x| |y]|] eqn:El; cbn [snd]; try exact Ht. destruct (off + lenN s <=? lenN x); cbn [snd]; [exact (tree_rewrite g l x _ Ht El)|exact Ht].
  - destruct (lookup g l) as [[x| |y]|] eqn:El; cbn [snd]; try exact Ht. exact (tree_rewrite g l x _ Ht El).
  - destruct (lookup g l) as [[x| |y]|] eqn:El; cbn [snd]; try exact Ht. exact (tree_rewrite g l x _ Ht El).
  - (* Rename *) destruct Hc as [[x ->] Hd]. destruct (lookup g (InCache [bs "tmp"; x])) as [n|] eqn:E; cbn [snd]; [|exact Ht].
    destruct (parent_ok g dst) eqn:Ep; cbn [snd]; [|exact Ht].
    pose proof (Hs _ _ E) as Hn. cbn [okn] in Hn. destruct (bytes_eqb (bs "tmp") content_dir) eqn:E1; [vm_compute in E1; discriminate|].
    rewrite (proj2 (bytes_eqb_eq _ _) eq_refl) in Hn. destruct Hn as [dd ->].
    assert (Tree (remove g (InCache [bs "tmp"; x]))) as Hr by (apply tree_remove; [exact Ht|discriminate|rewrite E; discriminate]).
    assert (dst <> InCache [bs "tmp"; x] -> parent_ok (remove g (InCache [bs "tmp"; x])) dst = true) as Hp2.
    { intros Hne. destruct dst as [pd|e]; [|reflexivity]. cbn [parent_ok] in *. rewrite is_dir_remove_other; [exact Ep|].
      intros X. inversion X as [X']. pose proof (is_dir_true g (parent pd) ltac:(rewrite X'; discriminate) Ep) as Y. rewrite X' in Y. congruence. }
    destruct (loc_eq_dec dst (InCache [bs "tmp"; x])) as [->|Hne].
    + (* renaming a file onto itself *)
      destruct (lookup g (InCache [bs "tmp"; x])) as [[d0| |t0]|]; cbn [snd]; try exact Ht;
        (apply tree_put; [exact Hr|discriminate|cbn [parent removelast]; rewrite is_dir_remove_other by discriminate; exact Ep|cbn; intros X; discriminate X|rewrite lookup_remove_eq; discriminate]).
    + destruct (lookup g dst) as [[d0| |t0]|] eqn:Ed; cbn [snd]; try exact Ht;
        (apply tree_put_deep; [exact Hr|exact Hd|exact (Hp2 Hne)|rewrite lookup_remove_neq by congruence; rewrite Ed; discriminate]).
  - (* Unlink *) destruct (lookup g l) as [[x| |y]|] eqn:El; cbn [snd]; try exact Ht;
      (destruct l as [pl|e]; [apply tree_remove; [exact Ht|intros ->; destruct Ht as [T1 _]; rewrite T1 in El; discriminate|rewrite El; discriminate]|apply tree_ext_remove; exact Ht]).
  - (* CreateIfMissing *) destruct (lookup g l) as [[x| |y]|] eqn:El; cbn [snd]; try exact Ht.
    destruct (parent_ok g l) eqn:Ep; cbn [snd]; [|exact Ht]. apply tree_put_deep; [exact Ht|exact Hc|exact Ep|rewrite El; discriminate].
  - (* Append *) destruct (lookup g l) as [[x| |y]|] eqn:El; cbn [snd]; try exact Ht. exact (tree_rewrite g l x _ Ht El).
  - destruct (resolve g l) as [[x| |y]|]; exact Ht.
  - exact Ht.
  - (* Link *) destruct Hc as [e ->]. destruct (lookup g src) as [[x| |y]|]; cbn [snd]; try exact Ht;
      (destruct (lookup g (Ext e)); cbn [snd]; [exact Ht|]; cbn [parent_ok snd]; apply tree_ext_update; exact Ht).
  - destruct Hc as [e ->]. destruct (lookup g (Ext e)); cbn [snd]; [exact Ht|]. cbn [parent_ok snd]. apply tree_ext_update; exact Ht.
  - destruct Hc as [e ->]. destruct (resolve g src) as [[x| |y]|]; cbn [snd]; try exact Ht.
    destruct (lookup g (Ext e)) as [[x0| |y0]|]; cbn [parent_ok snd]; try exact Ht; apply tree_ext_update; exact Ht.
  - destruct (resolve g src) as [[x| |y]|]; exact Ht.
  - destruct (is_dir g p); exact Ht.
  - destruct (is_dir g p); exact Ht.
  - destruct (lookup g (InCache p)) as [[x| |y]|]; cbn [snd]; try exact Ht. apply tree_rmtree; assumption.
Qed.

Section Tr.
Variable hash : algo -> bytes -> bytes.
Hypothesis HL : HashLen hash.

Definition ST (g : fs) : Prop := Shape g /\ Tree g.
Definition ststep (c : sys) : Prop := sstep c /\ tstep c.

Lemma st_step c g : ST g -> ststep c -> ST (snd (exec c g)).
Proof. intros [Hs Ht] [H1 H2]. split; [exact (proj1 (shape_step c g Hs H1))|exact (tree_step c g Hs Ht H2)]. Qed.

Lemma st_run {A} (p : prog A) f : ST f -> all_steps ststep p -> ST (snd (run p f)).
Proof.
  revert f. induction p as [a|c k IH]; intros f H Hp; cbn [run snd all_steps] in *; [exact H|].
  destruct Hp as [Hc Hk]. pose proof (st_step c f H Hc) as H1. destruct (exec c f) as [r f1]. apply IH; [exact H1|apply Hk].
Qed.

Lemma all_steps_both {A} (p : prog A) : all_steps sstep p -> all_steps tstep p -> all_steps ststep p.
Proof. apply all_steps_and. Qed.

(* ---------- the tree side conditions of the API programs ---------- *)
Lemma t_unlink_quiet_any {A} l (r : res A) : all_steps tstep (unlink_quiet l r).
Proof. unfold unlink_quiet. cbn [all_steps tstep]. split; [exact I|intros; exact I]. Qed.

Lemma tt_open_writer fl key o : all_steps tstep (open_writer fl key o).
Proof.
  unfold open_writer. apply all_steps_rbind; [apply all_steps_step_ok; cbn [tstep]; discriminate|intros _].
  cbn [all_steps tstep]. split; [exact I|]. intros r. destruct r; try exact I.
  destruct (content_size fl key o) as [sz|]; [|exact I]. destruct ((1 <=? sz) && (sz <=? max_mmap)); [|exact I].
  cbn [all_steps tstep]. split; [exact I|]. intros r2. destruct r2; try exact I. apply t_unlink_quiet_any.
Qed.

Lemma tt_write_chunk w d : all_steps tstep (write_chunk w d).
Proof.
  unfold write_chunk. destruct (w_map w) as [sz|].
  - destruct (w_pos w + lenN d <=? sz); repeat (apply all_steps_rbind; [apply all_steps_step_ok; exact I|intros _]); exact I.
  - apply all_steps_rbind; [apply all_steps_step_ok; exact I|intros; exact I].
Qed.

Lemma tt_close_writer w : tmpfile (w_tmp w) -> all_steps tstep (close_writer hash w).
Proof.
  intros [x Hx]. unfold close_writer. rewrite (content_path_computed hash _ _ HL). unfold cpath.
  apply all_steps_bind.
  - unfold trim. destruct (w_map w) as [sz|]; [destruct (w_pos w <? sz)|]; try exact I. apply all_steps_step_ok. exact I.
  - intros rt. destruct rt; try apply t_unlink_quiet_any.
    unfold publish. cbn [all_steps tstep parent removelast]. split; [discriminate|].
    intros r0. destruct r0; try apply t_unlink_quiet_any.
    all: cbn [all_steps tstep]; split; [split; [exists x; exact Hx|cbn [deep List.length]; lia]|].
    all: intros r; destruct r; try exact I.
    all: cbn [all_steps tstep]; split; [exact I|]; intros r2; destruct r2 as [| |[|]| | | |]; apply t_unlink_quiet_any.
Qed.

Lemma tt_insert key o now : all_steps tstep (insert hash key o now).
Proof.
  destruct (bucket_path_shape hash key) as [a [b [c Hb]]]. unfold insert. rewrite Hb.
  apply all_steps_rbind; [apply all_steps_step_ok; cbn [tstep parent removelast]; discriminate|intros _].
  apply all_steps_rbind; [apply all_steps_step_ok; cbn [tstep deep List.length]; lia|intros _].
  apply all_steps_rbind; [apply all_steps_step_ok; exact I|intros _]. exact I.
Qed.

Lemma tt_commit w now : tmpfile (w_tmp w) -> all_steps tstep (commit hash w now).
Proof.
  intros Ht. unfold commit. apply all_steps_rbind; [apply tt_close_writer; exact Ht|intros wsri].
  destruct (match o_sri (w_opts w) with Some d => match sri_matches d wsri with Some _ => Some d | None => None end | None => Some wsri end); [|exact I].
  destruct (match o_size (w_opts w) with Some s => negb (s =? w_written w) | None => false end); destruct (o_size (w_opts w));
    try exact I; destruct (w_key w); try exact I; apply tt_insert.
Qed.

(* a streamed write (hence every one-shot write) keeps shape and tree *)
Lemma st_write_chunks f w cs : ST f -> tmpfile (w_tmp w) ->
  ST (snd (run (write_chunks w cs) f)) /\ (forall w', fst (run (write_chunks w cs) f) = Ok w' -> tmpfile (w_tmp w')).
Proof.
  revert f w. induction cs as [|c cs IH]; intros f w Hs Ht; cbn [write_chunks run fst snd]; [split; [exact Hs|intros w' E; inversion E; subst; exact Ht]|].
  unfold rbind. rewrite run_bind.
  pose proof (st_run (write_chunk w c) f Hs (all_steps_both _ (s_write_chunk w c Ht) (tt_write_chunk w c))) as H1.
  pose proof (fpost_run _ _ f (write_chunk_fpost w c)) as Q.
  destruct (run (write_chunk w c) f) as [r f1]. cbn [fst snd] in *.
  destruct r as [w1|e| | |]; cbn [okq] in Q; try contradiction; cbn [run fst snd].
  - destruct Q as [Et _]. apply IH; [exact H1|rewrite Et; exact Ht].
  - split; [exact H1|intros w' E; discriminate E].
Qed.

Theorem st_stream_write f fl key o cs now : ST f -> ST (snd (run (stream_write hash fl key o cs now) f)).
Proof.
  intros Hs. unfold stream_write, rbind. rewrite run_bind.
  pose proof (st_run (open_writer fl key o) f Hs (all_steps_both _ (s_open_writer fl key o) (tt_open_writer fl key o))) as H1.
  pose proof (fpost_run _ _ f (open_writer_fpost fl key o)) as Q.
  destruct (run (open_writer fl key o) f) as [r f1]. cbn [fst snd] in *.
  destruct r as [w|e| | |]; cbn [okq] in Q; try contradiction; cbn [run snd]; try exact H1.
  destruct Q as [Ht _]. rewrite run_bind.
  destruct (st_write_chunks f1 w cs H1 Ht) as [H2 Hw2].
  destruct (run (write_chunks w cs) f1) as [r2 f2]. cbn [fst snd] in *.
  destruct r2 as [w2|e| | |]; cbn [run snd]; try exact H2.
  pose proof (Hw2 w2 eq_refl) as Ht2.
  exact (st_run (commit hash w2 now) f2 H2 (all_steps_both _ (s_commit hash HL w2 now Ht2) (tt_commit w2 now Ht2))).
Qed.


Lemma st_find key : all_steps ststep (find hash key).
Proof.
  unfold find. apply all_steps_rbind; [|intros; exact I]. unfold bucket_entries. cbn [all_steps]. split; [split; exact I|].
  intros r. destruct r as [| | | | | |[]]; exact I.
Qed.

Lemma st_cop f o : ST f -> ST (c_run hash f o).
Proof.
  intros Hs. destruct o as [fl a key data now|fl key o cs now|fl a data|key now|a d|key]; cbn [c_run].
  - (* write: the run of a one-shot write is that of a streamed write only on well-shaped caches; redo it directly *)
    unfold write, oneshot, rbind. rewrite run_bind.
    pose proof (st_run (open_writer fl (Some key) (write_opts fl a data)) f Hs (all_steps_both _ (s_open_writer _ _ _) (tt_open_writer _ _ _))) as H1.
    pose proof (fpost_run _ _ f (open_writer_fpost fl (Some key) (write_opts fl a data))) as Q.
    destruct (run (open_writer fl (Some key) (write_opts fl a data)) f) as [r f1]. cbn [fst snd] in *.
    destruct r as [w|e| | |]; cbn [okq] in Q; try contradiction; cbn [run snd]; try exact H1.
    destruct Q as [Ht _].
    destruct data as [|b data]; [exact (st_run _ f1 H1 (all_steps_both _ (s_commit hash HL w now Ht) (tt_commit w now Ht)))|].
    rewrite run_bind.
    pose proof (st_run (write_chunk w (b :: data)) f1 H1 (all_steps_both _ (s_write_chunk w _ Ht) (tt_write_chunk w _))) as H2.
    pose proof (fpost_run _ _ f1 (write_chunk_fpost w (b :: data))) as Q2.
    destruct (run (write_chunk w (b :: data)) f1) as [r2 f2]. cbn [fst snd] in *.
    destruct r2 as [w'|e| | |]; cbn [okq] in Q2; try contradiction.
    + destruct Q2 as [Et _]. assert (tmpfile (w_tmp w')) as Ht' by (rewrite Et; exact Ht).
      exact (st_run _ f2 H2 (all_steps_both _ (s_commit hash HL w' now Ht') (tt_commit w' now Ht'))).
    + exact (st_run _ f2 H2 (all_steps_both _ (s_unlink_quiet _ _) (t_unlink_quiet_any _ _))).
  - apply st_stream_write; assumption.
  - unfold write_hash, oneshot, rbind. rewrite run_bind.
    set (oo := mkWopts (Some a) None (Some (lenN data)) None None None).
    pose proof (st_run (open_writer fl None oo) f Hs (all_steps_both _ (s_open_writer _ _ _) (tt_open_writer _ _ _))) as H1.
    pose proof (fpost_run _ _ f (open_writer_fpost fl None oo)) as Q.
    destruct (run (open_writer fl None oo) f) as [r f1]. cbn [fst snd] in *.
    destruct r as [w|e| | |]; cbn [okq] in Q; try contradiction; cbn [run snd]; try exact H1.
    destruct Q as [Ht _].
    destruct data as [|b data]; [exact (st_run _ f1 H1 (all_steps_both _ (s_commit hash HL w 0 Ht) (tt_commit w 0 Ht)))|].
    rewrite run_bind.
    pose proof (st_run (write_chunk w (b :: data)) f1 H1 (all_steps_both _ (s_write_chunk w _ Ht) (tt_write_chunk w _))) as H2.
    pose proof (fpost_run _ _ f1 (write_chunk_fpost w (b :: data))) as Q2.
    destruct (run (write_chunk w (b :: data)) f1) as [r2 f2]. cbn [fst snd] in *.
    destruct r2 as [w'|e| | |]; cbn [okq] in Q2; try contradiction.
    + destruct Q2 as [Et _]. assert (tmpfile (w_tmp w')) as Ht' by (rewrite Et; exact Ht).
      exact (st_run _ f2 H2 (all_steps_both _ (s_commit hash HL w' 0 Ht') (tt_commit w' 0 Ht'))).
    + exact (st_run _ f2 H2 (all_steps_both _ (s_unlink_quiet _ _) (t_unlink_quiet_any _ _))).
  - apply st_run; [exact Hs|]. unfold delete. apply all_steps_rbind; [apply all_steps_both; [apply s_insert|apply tt_insert]|intros; exact I].
  - apply st_run; [exact Hs|]. unfold remove_hash, with_cpath. destruct (content_path (sri_of hash a d)); [|exact I].
    apply all_steps_step_ok. split; exact I.
  - apply st_run; [exact Hs|]. unfold remove_fully. apply all_steps_rbind; [apply st_find|]. intros e. apply all_steps_rbind.
    + destruct e as [m|]; [|exact I]. unfold with_cpath. destruct (content_path (m_sri m)); [|exact I].
      unfold unlink_if_present. cbn [all_steps]. split; [split; exact I|]. intros r. destruct r as [| | | | | |[]]; exact I.
    + intros _. apply all_steps_step_ok. split; exact I.
Qed.

Lemma st_empty : ST [].
Proof. split; [intros l n H; discriminate|]. split; [reflexivity|]. split; [intros p nd H; discriminate|intros n nd H; discriminate]. Qed.

Theorem st_history (h : list cop) f0 : ST f0 -> ST (fold_left (c_run hash) h f0).
Proof. revert f0. induction h as [|o h IH]; intros f0 H; cbn [fold_left]; [exact H|]. apply IH. apply st_cop. exact H. Qed.

(* the tree is what [clear] needs *)
Lemma tree_rootshape g : Tree g -> RootShape g.
Proof.
  intros [T1 [T2 T3]]. split; [exact T1|]. split; [exact T3|].
  intros x p. induction p as [|y p IH] using rev_ind; intros nd Hl; [congruence|].
  pose proof (T2 _ _ Hl) as Hd. change (x :: p ++ [y]) with ((x :: p) ++ [y]) in Hd. rewrite parent_snoc in Hd.
  pose proof (is_dir_true g (x :: p) ltac:(discriminate) Hd) as Hp. exact (IH Dir Hp).
Qed.


Lemma nodup_history (h : list cop) f0 : NoDupKeys f0 -> NoDupKeys (fold_left (c_run hash) h f0).
Proof.
  revert f0. induction h as [|o h IH]; intros f0 H; cbn [fold_left]; [exact H|]. apply IH. destruct o; cbn [c_run]; apply nodup_run; exact H.
Qed.

(* C09, the clause on clearing, after any history: clear succeeds, nothing is left under the cache root, nothing outside
   is touched, and the result is a usable (well-shaped) cache again *)
Theorem clear_after_history (h : list cop) :
  let f := fold_left (c_run hash) h [] in
  fst (run clear f) = Ok tt /\
  (forall p, lookup (snd (run clear f)) (InCache p) = None) /\
  (forall n, lookup (snd (run clear f)) (Ext n) = lookup f (Ext n)) /\
  CacheInv (snd (run clear f)).
Proof.
  intros f.
  assert (NoDupKeys f) as Hn by (apply nodup_history; constructor).
  assert (RootShape f) as Hr by (apply tree_rootshape; exact (proj2 (st_history h [] st_empty))).
  destruct (clear_scope f Hn Hr) as [H1 [H2 H3]]. split; [exact H1|]. split; [exact H2|]. split; [exact H3|].
  exact (clear_usable f Hn Hr).
Qed.

End Tr.
