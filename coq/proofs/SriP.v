(* SriP.v — facts about integrity values computed by the library itself. *)
From CC Require Import Bytes Codec Sri BytesP CodecP.
From Coq Require Import Lia.

Section S.
Variable hash : algo -> bytes -> bytes.

Lemma algo_eqb_refl a : algo_eqb a a = true.
Proof. destruct a; reflexivity. Qed.

Lemma algo_eqb_eq a b : algo_eqb a b = true <-> a = b.
Proof. destruct a, b; split; intros H; try reflexivity; try discriminate. Qed.

Lemma hashv_eqb_eq a b : hashv_eqb a b = true <-> a = b.
Proof.
  destruct a as [aa ad], b as [ba bd]. unfold hashv_eqb. cbn [h_algo h_digest]. rewrite andb_true_iff, algo_eqb_eq, bytes_eqb_eq.
  split; [intros [-> ->]; reflexivity|intros H; inversion H; auto].
Qed.

(* a computed address verifies exactly the data with the same digest *)
Lemma sri_check_computed a d0 d :
  sri_check hash (sri_of hash a d0) d = Some true <-> hash a d = hash a d0.
Proof.
  unfold sri_check, sri_of. cbn [pick_algorithm h_algo take_while_algo]. rewrite algo_eqb_refl.
  cbn [existsb]. rewrite orb_false_r. split.
  - intros H. inversion H as [H1]. apply hashv_eqb_eq in H1. inversion H1 as [H2]. apply b64_encode_inj in H2. exact H2.
  - intros ->. f_equal. apply hashv_eqb_eq. reflexivity.
Qed.

Lemma sri_check_self a d : sri_check hash (sri_of hash a d) d = Some true.
Proof. apply sri_check_computed. reflexivity. Qed.

Lemma sri_matches_self a d : sri_matches (sri_of hash a d) (sri_of hash a d) = Some a.
Proof.
  unfold sri_matches, sri_of. cbn [pick_algorithm h_algo existsb]. rewrite !algo_eqb_refl.
  cbn [andb]. assert (hashv_eqb (mkHash a (b64_encode (hash a d))) (mkHash a (b64_encode (hash a d))) = true) as ->
    by (apply hashv_eqb_eq; reflexivity). reflexivity.
Qed.

End S.
