(* SriP.v — facts about integrity values computed by the library itself. *)
From CC Require Import Bytes Codec Sri BytesP CodecP.
From Coq Require Import Lia ZifyN ZifyBool.

Section S.
Variable hash : algo -> bytes -> bytes.

Lemma algo_eqb_refl a : algo_eqb a a = true.
Proof. destruct a; reflexivity. Qed.

Lemma algo_eqb_eq a b : algo_eqb a b = true <-> a = b.
Proof. destruct a, b; split; intros H; try reflexivity; try discriminate. Qed.

Lemma hashv_eqb_eq a b : hashv_eqb a b = true <-> a = b.
Proof.
  destruct a as [aa ad], b as [ba bd]. unfold hashv_eqb. cbn [h_algo h_digest]. rewrite andb_true_iff, algo_eqb_eq, bytes_eqb_eq.
  split; [intros [-> ->]; reflexivity|intros H; inversion H; auto].
Qed.

(* a computed address verifies exactly the data with the same digest *)
Lemma sri_check_computed a d0 d :
  sri_check hash (sri_of hash a d0) d = Some true <-> hash a d = hash a d0.
Proof.
  unfold sri_check, sri_of. cbn [pick_algorithm h_algo take_while_algo]. rewrite algo_eqb_refl.
  cbn [existsb]. rewrite orb_false_r. split.
  - intros H. inversion H as [H1]. apply hashv_eqb_eq in H1. inversion H1 as [H2]. apply b64_encode_inj in H2. exact H2.
  - intros ->. f_equal. apply hashv_eqb_eq. reflexivity.
Qed.

Lemma sri_check_self a d : sri_check hash (sri_of hash a d) d = Some true.
Proof. apply sri_check_computed. reflexivity. Qed.

Lemma sri_matches_self a d : sri_matches (sri_of hash a d) (sri_of hash a d) = Some a.
Proof.
  unfold sri_matches, sri_of. cbn [pick_algorithm h_algo existsb]. rewrite !algo_eqb_refl.
  cbn [andb]. assert (hashv_eqb (mkHash a (b64_encode (hash a d))) (mkHash a (b64_encode (hash a d))) = true) as ->
    by (apply hashv_eqb_eq; reflexivity). reflexivity.
Qed.


(* ---------- the text of a computed address parses back to it ---------- *)
Section Text.
Local Open Scope N_scope.

Definition clean_b64 (x : byte) : bool := negb (is_space x) && negb (Byte.eqb x x2d).

Lemma enc6_clean_all : forallb (fun n => clean_b64 (enc6 n)) (map N.of_nat (seq 0 64)) = true.
Proof. vm_compute. reflexivity. Qed.

Lemma enc6_clean n : n < 64 -> clean_b64 (enc6 n) = true.
Proof.
  intros H. pose proof enc6_clean_all as A. rewrite forallb_forall in A. apply A.
  apply in_map_iff. exists (N.to_nat n). split; [apply N2Nat.id|]. apply in_seq. lia.
Qed.

Ltac Zify.zify_post_hook ::= Z.div_mod_to_equations.

Lemma b64_encode_clean l : forallb clean_b64 (b64_encode l) = true.
Proof.
  induction l as [|a|a b|a b c t IH] using bytes_ind3; cbn [b64_encode forallb].
  - reflexivity.
  - pose proof (b2n_bounded a). rewrite !enc6_clean by lia. reflexivity.
  - pose proof (b2n_bounded a). pose proof (b2n_bounded b). rewrite !enc6_clean by lia. reflexivity.
  - pose proof (b2n_bounded a). pose proof (b2n_bounded b). pose proof (b2n_bounded c).
    rewrite !enc6_clean by lia. exact IH.
Qed.

Lemma words_aux_clean l cur : forallb (fun x => negb (is_space x)) l = true ->
  words_aux l cur = match rev cur ++ l with [] => [] | w => [w] end.
Proof.
  revert cur. induction l as [|x l IH]; intros cur H; cbn [words_aux].
  - rewrite app_nil_r. destruct cur as [|c cur]; [reflexivity|]. cbn [rev]. destruct (rev cur ++ [c]) eqn:E; [|reflexivity].
    destruct (rev cur); discriminate.
  - cbn [forallb] in H. apply andb_true_iff in H as [H1 H2]. apply negb_true_iff in H1. rewrite H1.
    rewrite IH by exact H2. cbn [rev]. rewrite <- app_assoc. reflexivity.
Qed.

Lemma algo_name_facts a :
  parse_algo (algo_name a) = Some a /\ forallb (fun x => negb (is_space x) && negb (Byte.eqb x x2d)) (algo_name a) = true
  /\ algo_name a <> [].
Proof. destruct a; vm_compute; repeat split; discriminate. Qed.

Lemma forallb_in {A} (p : A -> bool) l x : forallb p l = true -> In x l -> p x = true.
Proof. intros H Hin. rewrite forallb_forall in H. apply H. exact Hin. Qed.

Theorem parse_sri_computed a d : parse_sri (sri_text (sri_of hash a d)) = Some (sri_of hash a d).
Proof.
  unfold sri_of, sri_text. cbn [map intercalate]. unfold hash_text. cbn [h_algo h_digest].
  destruct (algo_name_facts a) as [Hp [Hc Hne]]. pose proof (b64_encode_clean (hash a d)) as Hb.
  set (dig := b64_encode (hash a d)) in *.
  unfold parse_sri, words.
  assert (forallb (fun x => negb (is_space x)) (algo_name a ++ x2d :: dig) = true) as Hns.
  { rewrite forallb_app. cbn [forallb]. apply andb_true_iff. split.
    - rewrite forallb_forall in *. intros x Hx. specialize (Hc x Hx). apply andb_true_iff in Hc. tauto.
    - apply andb_true_iff. split; [reflexivity|]. rewrite forallb_forall in *. intros x Hx. specialize (Hb x Hx).
      unfold clean_b64 in Hb. apply andb_true_iff in Hb. tauto. }
  rewrite words_aux_clean by exact Hns. cbn [rev app].
  destruct (algo_name a ++ x2d :: dig) as [|y ys] eqn:E; [destruct (algo_name a); discriminate|].
  rewrite <- E. cbn [parse_hashes]. unfold parse_hash.
  rewrite split_two.
  - rewrite Hp. reflexivity.
  - intros x Hx. pose proof (forallb_in _ _ _ Hc Hx) as H. apply andb_true_iff in H as [_ H]. apply negb_true_iff in H. exact H.
  - intros x Hx. pose proof (forallb_in _ _ _ Hb Hx) as H. unfold clean_b64 in H. apply andb_true_iff in H as [_ H].
    apply negb_true_iff in H. exact H.
Qed.
End Text.

End S.
