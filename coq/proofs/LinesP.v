(* LinesP.v — the line reader is local: what a line contributes depends on that line only, and
   appending "\n" ++ line to a file adds exactly that line's contribution. *)
From CC Require Import Bytes Lines BytesP.
From Coq Require Import Lia.

Section Contrib.
Context {E : Type}.
Variable contrib : bytes -> list E.
Hypothesis contrib_nil : contrib [] = [].

Lemma lines_of_app_last segs l :
  segs <> [] ->
  ends_cr (last segs []) = false ->
  flat_map contrib (lines_of (segs ++ [l])) =
  flat_map contrib (lines_of segs) ++ flat_map contrib (lines_of [l]).
Proof.
  induction segs as [|s rest IH]; intros Hne Hcr; [congruence|].
  destruct rest as [|s2 rest].
  - simpl in *. unfold strip_cr. unfold ends_cr in Hcr.
    destruct (rev s) as [|c r] eqn:Er.
    + assert (s = []) by (destruct s; [reflexivity|]; simpl in Er; destruct (rev s); discriminate).
      subst. simpl. rewrite contrib_nil. reflexivity.
    + rewrite Hcr. destruct s; [simpl in Er; discriminate|]. simpl. rewrite app_nil_r. reflexivity.
  - assert (IH' := IH ltac:(discriminate) Hcr). clear IH.
    change (lines_of ((s :: s2 :: rest) ++ [l])) with (strip_cr s :: lines_of ((s2 :: rest) ++ [l])).
    change (lines_of (s :: s2 :: rest)) with (strip_cr s :: lines_of (s2 :: rest)).
    cbn [flat_map]. rewrite IH'. rewrite app_assoc. reflexivity.
Qed.

(* appending one newline-free line *)
Lemma lines_app_line f line :
  (forall b, In b line -> Byte.eqb b nl = false) ->
  ends_cr (last (split nl f) []) = false ->
  flat_map contrib (lines (f ++ nl :: line)) =
  flat_map contrib (lines f) ++ flat_map contrib (lines_of [line]).
Proof.
  intros Hnl Hcr. unfold lines.
  rewrite split_app_sep, (split_no_sep nl line Hnl).
  apply lines_of_app_last; [apply split_nonempty|exact Hcr].
Qed.

Lemma lines_of_single line : flat_map contrib (lines_of [line]) = contrib line.
Proof. destruct line; simpl; [symmetry; exact contrib_nil | apply app_nil_r]. Qed.

End Contrib.

(* the "no pending CR" condition is re-established by every appended line that does not end in CR *)
Lemma last_split_app f line :
  (forall b, In b line -> Byte.eqb b nl = false) ->
  last (split nl (f ++ nl :: line)) [] = line.
Proof.
  intros Hnl. rewrite split_app_sep, (split_no_sep nl line Hnl).
  apply last_last.
Qed.
