(* ConcP.v — C07: all interleavings.  (1) the explorer is complete: every terminal state reachable by any interleaving
   of the pool's steps is in its output; (2) an invariant kept by every step is kept by every interleaving, for pools of
   any size (content invariant for all programs whose steps are state-independently safe); (3) appends to one bucket by
   different threads never splice: the file is the initial bytes followed by whole records in step order. *)
From CC Require Import Bytes Codec Utf8 Lines Json Sri Record Fs Prog Api Crash Conc
  BytesP CodecP FsP ProgP SriP RecordP IndexP ReadP WriteP CommitP RemoveP CrashP.
From Coq Require Import Lia.

Lemma results_some_ret {A} (pl : pool A) rs : results pl = Some rs -> pl = map Ret rs.
Proof.
  revert rs. induction pl as [|p pl IH]; intros rs H; cbn [results] in H; [inversion H; reflexivity|].
  destruct p as [a|c k]; [|discriminate]. destruct (results pl) as [r|]; [|discriminate]. inversion H; subst. cbn [map]. f_equal. apply IH. reflexivity.
Qed.

Lemma results_none_step {A} (pl : pool A) : results pl = None -> exists pre c k post, pl = pre ++ Do c k :: post.
Proof.
  induction pl as [|p pl IH]; cbn [results]; [discriminate|]. destruct p as [a|c k].
  - destruct (results pl); [discriminate|]. intros _. destruct (IH eq_refl) as [pre [c [k [post E]]]]. exists (Ret a :: pre), c, k, post. rewrite E. reflexivity.
  - intros _. exists [], c, k, pl. reflexivity.
Qed.

Lemma pstep_no_results {A} (pl : pool A) f s rs : results pl = Some rs -> ~ pstep (pl, f) s.
Proof.
  intros H Hs. apply results_some_ret in H. inversion Hs as [pre c k post f0 E]. subst.
  assert (In (Do c k) (map Ret rs)) as Hin by (rewrite <- E; apply in_or_app; right; left; reflexivity).
  apply in_map_iff in Hin as [x [Hx _]]. discriminate.
Qed.

(* successors lists exactly the one-step moves *)
Lemma successors_complete {A} (pl : pool A) f s : pstep (pl, f) s -> forall pre0, In (let '(p, g) := s in (pre0 ++ p, g)) (successors pre0 pl f).
Proof.
  intros H. inversion H as [pre c k post f0 E]. subst. clear H. induction pre as [|x pre IH]; intros pre0; cbn [app successors].
  - left. reflexivity.
  - destruct x as [a|c0 k0].
    + specialize (IH (pre0 ++ [Ret a])). rewrite <- app_assoc in IH. exact IH.
    + right. specialize (IH (pre0 ++ [Do c0 k0])). rewrite <- app_assoc in IH. exact IH.
Qed.

Theorem explore_complete {A} fuel : forall (pl : pool A) f L,
  explore fuel pl f = Some L ->
  forall pl' f' rs, preach (pl, f) (pl', f') -> results pl' = Some rs -> In (rs, f') L.
Proof.
  induction fuel as [|n IH]; intros pl f L He pl' f' rs Hr Hres; cbn [explore] in He.
  - destruct (results pl) as [r|] eqn:Er; [|discriminate]. inversion He; subst.
    inversion Hr as [|s1 s2 s3 Hs _]; subst; [rewrite Er in Hres; inversion Hres; left; reflexivity|].
    exfalso. exact (pstep_no_results pl f s2 r Er Hs).
  - destruct (results pl) as [r|] eqn:Er.
    + inversion He; subst. inversion Hr as [|s1 s2 s3 Hs _]; subst; [rewrite Er in Hres; inversion Hres; left; reflexivity|].
      exfalso. exact (pstep_no_results pl f s2 r Er Hs).
    + inversion Hr as [|s1 [pl2 f2] s3 Hs Hrest]; subst; [rewrite Er in Hres; discriminate|].
      pose proof (successors_complete pl f (pl2, f2) Hs []) as Hin. cbn [app] in Hin.
      revert L He Hin. generalize (successors [] pl f). intros l. induction l as [|[p g] l IHl]; intros L He Hin; [destruct Hin|].
      destruct (explore n p g) as [a|] eqn:Ea; [|discriminate].
      destruct ((fix go (l : list (pool A * fs)) : option (list (list A * fs)) :=
                   match l with [] => Some [] | (pl', f') :: t => match explore n pl' f', go t with Some a, Some b => Some (a ++ b) | _, _ => None end end) l) as [b|] eqn:Eb; [|discriminate].
      inversion He; subst. apply in_or_app. destruct Hin as [E|Hin].
      * inversion E; subst. left. exact (IH pl2 f2 a Ea pl' f' rs Hrest Hres).
      * right. exact (IHl b eq_refl Hin).
Qed.

(* ---------- invariants over all interleavings, any number of threads ---------- *)
Theorem interleave_invariant {A} (P : fs -> Prop) (S' : sys -> Prop) :
  (forall c f, P f -> S' c -> P (snd (exec c f))) ->
  forall (s s' : pool A * fs), preach s s' -> Forall (all_steps S') (fst s) -> P (snd s) -> Forall (all_steps S') (fst s') /\ P (snd s').
Proof.
  intros Hstep s s' Hr. induction Hr as [s|s1 s2 s3 Hs _ IH]; intros Hall HP; [auto|].
  apply IH; inversion Hs as [pre c k post f E1 E2]; subst; cbn [fst snd] in *.
  - apply Forall_app in Hall as [H1 H2]. inversion H2 as [|? ? Hd Hpost]; subst. cbn [all_steps] in Hd. destruct Hd as [_ Hk].
    apply Forall_app. split; [exact H1|constructor; [apply Hk|exact Hpost]].
  - apply Forall_app in Hall as [_ H2]. inversion H2 as [|? ? Hd _]; subst. cbn [all_steps] in Hd. apply Hstep; [exact HP|apply Hd].
Qed.

Section Cc.
Variable hash : algo -> bytes -> bytes.

(* no reader ever sees partial content under a content address: in every reachable state of any pool of readers,
   removers, index writers, extractions, listings (every program whose steps never create a file under content-v2)
   the content invariant holds *)
Theorem conc_content_inv {A} (s s' : pool A * fs) :
  preach s s' -> Forall (all_steps csafe') (fst s) -> ContentInv hash (snd s) -> ContentInv hash (snd s').
Proof.
  intros Hr Hall Hc. apply (interleave_invariant (ContentInv hash) csafe' (fun c f Hf Hs => proj1 (step_content hash c f Hf (csafe'_csafe hash c f Hs))) s s' Hr Hall Hc).
Qed.

(* appends by any threads to one file: whole records, in step order, never spliced *)
Theorem appends_never_splice l d recs f :
  lookup f l = Some (File d) ->
  lookup (fold_left (fun g r => snd (exec (Append l r) g)) recs f) l = Some (File (d ++ List.concat recs)).
Proof.
  revert d f. induction recs as [|r recs IH]; intros d f H; cbn [fold_left List.concat]; [rewrite app_nil_r; exact H|].
  rewrite (IH (d ++ r)); [rewrite app_assoc; reflexivity|]. unfold exec. rewrite H. cbn [snd]. apply lookup_update_eq.
Qed.

End Cc.
