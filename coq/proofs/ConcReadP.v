(* ConcReadP.v — readers among writers, any number of each, any interleaving.
   A pool of keyed one-shot writers / tombstone removers (ConcWriteP) runs together with a pool of readers ([read key]:
   one step reads the bucket, a second step reads the content file).  Theorems:
   * content files are monotone in every reachable state of the writers: a content file, once present, keeps its bytes
     (published content is only ever replaced by identical bytes), and every content file is one of the initial cache
     or the complete data of one of the writers;
   * every index entry visible in a reachable state is backed by its complete content;
   * readers_among_writers: the result of every reader is the result of the same read executed ATOMICALLY at the
     reachable state of the writers in which the reader's index step happened (its linearisation point) — no reader
     observes partial content or a partial index record, whatever happens between its two steps;
   * atomic_read_value: an atomic read in a reachable state answers "not found" or the complete bytes of the initial
     entry / of one of the writers of that key. *)
From CC Require Import Bytes Codec Utf8 Lines Json Sri Record Fs Prog Api Crash Conc BytesP CodecP FsP ProgP SriP RecordP IndexP ReadP WriteP CommitP RemoveP CrashP CrashIdxP FormatP ConfineP ConcP ConcIdxP ConcWriteP.
From Coq Require Import Permutation Lia.
Local Open Scope N_scope.

Section CR.
Variable hash : algo -> bytes -> bytes.
Hypothesis HL : HashLen hash.

(* ---------- generic ---------- *)
Lemma preach_snoc {A} (a b c : pool A * fs) : preach a b -> pstep b c -> preach a c.
Proof. intros H. induction H as [s|s1 s2 s3 Hs _ IH]; intros Hc; [exact (PTrans _ _ _ Hc (PRefl _))|exact (PTrans _ _ _ Hs (IH Hc))]. Qed.

Lemma preach_trans {A} (a b c : pool A * fs) : preach a b -> preach b c -> preach a c.
Proof. intros H. induction H as [s|s1 s2 s3 Hs _ IH]; intros Hc; [exact Hc|exact (PTrans _ _ _ Hs (IH Hc))]. Qed.

Lemma mkdirs_any f ps l : lookup (snd (mkdirs f ps)) l = lookup f l \/ lookup (snd (mkdirs f ps)) l = Some Dir.
Proof.
  revert f. induction ps as [|p ps IH]; intros f; [left; reflexivity|].
  cbn [mkdirs]. destruct (lookup f (InCache p)) as [[| |]|] eqn:E; try (left; reflexivity).
  - apply IH.
  - destruct (IH (update f (InCache p) Dir)) as [H|H]; [|right; exact H].
    rewrite H, lookup_update. destruct (loc_eqb (InCache p) l) eqn:El; [|left; reflexivity].
    right. reflexivity.
Qed.

(* ---------- content files under concurrent writers ---------- *)
Definition coll0 (ws : list wspec) (f0 : fs) : Prop :=
  forall x d, In x ws -> ws_rm x = false -> lookup f0 (InCache (x_cp hash x)) = Some (File d) -> d = ws_data x.

Definition CProv (ws : list wspec) (f0 f : fs) : Prop :=
  forall l d, is_content l -> lookup f l = Some (File d) ->
    lookup f0 l = Some (File d) \/ exists x, In x ws /\ ws_rm x = false /\ l = InCache (x_cp hash x) /\ d = ws_data x.

Definition cmono (f g : fs) : Prop := forall l d, is_content l -> lookup f l = Some (File d) -> lookup g l = Some (File d).

Lemma cmono_refl f : cmono f f.
Proof. intros l d _ H. exact H. Qed.
Lemma cmono_trans f g h : cmono f g -> cmono g h -> cmono f h.
Proof. intros H1 H2 l d Hl H. exact (H2 l d Hl (H1 l d Hl H)). Qed.

(* what one step of the pool does to the files of the content area *)
Lemma step_effect ws f0 pl f pl' f' :
  PInvW hash ws f0 (pl, f) -> pstep (pl, f) (pl', f') ->
  ((forall l d, is_content l -> lookup f l = Some (File d) -> lookup f' l = Some (File d)) /\
   (forall l d, is_content l -> lookup f' l = Some (File d) -> lookup f l = Some (File d))) \/
  (exists x n, In x ws /\ ws_rm x = false /\ f' = update (remove f (x_tmp n)) (InCache (x_cp hash x)) (File (ws_data x))).
Proof.
  intros Hinv Hstep. inversion Hstep as [pre c k post f1 E1 E2]. subst pl f1 pl'. clear Hstep.
  destruct Hinv as [done [owns [Hnd [Hlt [Hlen [Hlo [Hst [Hdist [Hi [Hc [Ht Hb]]]]]]]]]]].
  set (i0 := List.length pre).
  assert (i0 < List.length ws)%nat as Hi0 by (rewrite <- Hlen, app_length; cbn [List.length]; lia).
  set (x := nth i0 ws dw).
  assert (In x ws) as Hxin by (apply nth_In; exact Hi0).
  pose proof (Hst i0 Hi0) as Hs0. fold x in Hs0. unfold i0 in Hs0 at 1. rewrite nth_mid in Hs0.
  assert (forall g, (forall l, is_content l -> lookup g l = lookup f l) ->
            (forall l d, is_content l -> lookup f l = Some (File d) -> lookup g l = Some (File d)) /\
            (forall l d, is_content l -> lookup g l = Some (File d) -> lookup f l = Some (File d))) as Hsame.
  { intros g Hg. split; intros l d Hl H; [rewrite (Hg l Hl); exact H|rewrite <- (Hg l Hl); exact H]. }
  remember (Do c k) as p0 eqn:Ep0. remember (member i0 done) as fl eqn:Efl. remember (nth i0 owns None) as own0 eqn:Eown.
  destruct Hs0 as [Hw|Hw Hd|n Hw Hl Hne|n Hw Hl|n Hw Hl Hd|Hcp|Hcp Hd|d Hcp Hd|Hcp].
  - destruct (do_eq c k (A0 hash x) _ (eq_sym Ep0) (A0_head hash x)) as [-> Hk].
    destruct (s_mktmp f Ht) as [Hr [Hdir [Hfr Hag]]]. left. apply Hsame. intros l Hl. apply Hfr. intros ->. exact (tmp_dir_not_content Hl).
  - destruct (do_eq c k (A1 hash x) _ (eq_sym Ep0) (A1_head hash x)) as [-> Hk].
    left. rewrite (exec_createtmp f Hd). cbn [snd]. apply Hsame. intros l Hl. apply lookup_update_neq. intros <-.
    exact (tmp_loc_not_content (fresh f) Hl).
  - destruct (A2_data hash x n Hne) as [Hh Hn2].
    destruct (do_eq c k (A2 hash x n) _ (eq_sym Ep0) Hh) as [-> Hk].
    left. rewrite (exec_writeappend f _ [] _ Hl). cbn [snd]. apply Hsame. intros l Hlc. apply lookup_update_neq. intros <-.
    exact (tmp_loc_not_content n Hlc).
  - destruct (do_eq c k (B0' hash x n) _ (eq_sym Ep0) (B0'_head hash x n)) as [-> Hk].
    destruct (s_mkcontent hash f (ws_a x) (ws_data x) Hc) as [Hr [Hdir [Hc' [Hfr Hag]]]].
    left. unfold x_cp. split.
    + intros l d Hlc H. rewrite (Hag l); [exact H|intros []|congruence].
    + intros l d Hlc H. rewrite exec_mkdirall in H. destruct (mkdirs_any f (prefixes (parent (cpath hash (ws_a x) (ws_data x)))) l) as [E|E]; rewrite E in H; [exact H|discriminate].
  - destruct (do_eq c k (B1 hash x n) _ (eq_sym Ep0) (B1_head hash x n)) as [-> Hk].
    assert (lookup f (InCache (x_cp hash x)) <> Some Dir) as Hnd5.
    { intros E. unfold x_cp, cpath in E. apply (proj2 (Hc _ _ E) eq_refl). reflexivity. }
    assert (parent_ok f (InCache (x_cp hash x)) = true) as Hpok by exact Hd.
    right. exists x, n. split; [exact Hxin|]. split; [exact Hw|]. rewrite (exec_rename f _ _ _ Hl Hpok Hnd5). reflexivity.
  - pose proof (hb_shape hash (x_hop hash x)) as Hbsx.
    destruct (seq_prog_unfold (MkdirAll (parent (hb hash (x_hop hash x)))) (tl (hop_steps hash (x_hop hash x))) (x_res hash x)) as [k1 [E Hk1]].
    assert (Do c k = Do (MkdirAll (parent (hb hash (x_hop hash x)))) k1) as Ed by (rewrite <- E; symmetry; exact Ep0).
    remember (MkdirAll (parent (hb hash (x_hop hash x)))) as c1 eqn:Ec1. injection Ed as -> ->. subst c1.
    left. apply Hsame. intros l Hlc. apply idx_mkdir_frame; [exact Hbsx|]. intro. eapply index_not_content; eauto.
  - pose proof (hb_shape hash (x_hop hash x)) as Hbsx.
    destruct (seq_prog_unfold (CreateIfMissing (InCache (hb hash (x_hop hash x)))) (tl (tl (hop_steps hash (x_hop hash x)))) (x_res hash x)) as [k1 [E Hk1]].
    assert (Do c k = Do (CreateIfMissing (InCache (hb hash (x_hop hash x)))) k1) as Ed by (rewrite <- E; symmetry; exact Ep0).
    remember (CreateIfMissing (InCache (hb hash (x_hop hash x)))) as c1 eqn:Ec1. injection Ed as -> ->. subst c1.
    left. apply Hsame. intros l Hlc. apply idx_create_frame; [exact Hbsx|]. intro. eapply index_not_content; eauto.
  - pose proof (hb_shape hash (x_hop hash x)) as Hbsx.
    destruct (seq_prog_unfold (Append (InCache (hb hash (x_hop hash x))) (record_bytes hash (hop_rec (x_hop hash x)))) [] (x_res hash x)) as [k1 [E Hk1]].
    assert (Do c k = Do (Append (InCache (hb hash (x_hop hash x))) (record_bytes hash (hop_rec (x_hop hash x)))) k1) as Ed by (rewrite <- E; symmetry; exact Ep0).
    remember (Append (InCache (hb hash (x_hop hash x))) (record_bytes hash (hop_rec (x_hop hash x)))) as c1 eqn:Ec1. injection Ed as -> ->. subst c1.
    left. apply Hsame. intros l Hlc. apply idx_append_frame; [exact Hbsx|]. intro. eapply index_not_content; eauto.
  - discriminate.
Qed.

Lemma cprov_step ws f0 pl f pl' f' :
  coll_free hash ws -> coll0 ws f0 ->
  PInvW hash ws f0 (pl, f) -> CProv ws f0 f -> pstep (pl, f) (pl', f') ->
  CProv ws f0 f' /\ cmono f f'.
Proof.
  intros Hcf Hc0 Hinv Hp Hstep.
  destruct (step_effect ws f0 pl f pl' f' Hinv Hstep) as [[H1 H2]|[x [n [Hx [Hw ->]]]]].
  - split; [|exact H1]. intros l d Hl H. exact (Hp l d Hl (H2 l d Hl H)).
  - assert (forall l, is_content l -> l <> InCache (x_cp hash x) ->
              lookup (update (remove f (x_tmp n)) (InCache (x_cp hash x)) (File (ws_data x))) l = lookup f l) as Hfr.
    { intros l Hl Hne. rewrite lookup_update_neq by congruence. apply lookup_remove_neq. intros <-. exact (tmp_loc_not_content n Hl). }
    split.
    + intros l d Hl H. destruct (loc_eq_dec l (InCache (x_cp hash x))) as [->|Hne].
      * rewrite lookup_update_eq in H. inversion H; subst d. right. exists x. auto.
      * rewrite (Hfr l Hl Hne) in H. exact (Hp l d Hl H).
    + intros l d Hl H. destruct (loc_eq_dec l (InCache (x_cp hash x))) as [->|Hne].
      * rewrite lookup_update_eq. f_equal. f_equal.
        destruct (Hp _ d Hl H) as [H0|[y [Hy [Hwy [E ->]]]]].
        -- symmetry. exact (Hc0 x d Hx Hw H0).
        -- apply (Hcf x y Hx Hy Hw Hwy). congruence.
      * rewrite (Hfr l Hl Hne). exact H.
Qed.

Lemma cprov_reach ws f0 s s' :
  coll_free hash ws -> coll0 ws f0 -> Forall (fun x => wf_rec hash (hop_rec (x_hop hash x))) ws ->
  PInvW hash ws f0 s -> CProv ws f0 (snd s) -> preach s s' ->
  PInvW hash ws f0 s' /\ CProv ws f0 (snd s') /\ cmono (snd s) (snd s').
Proof.
  intros Hcf Hc0 Hwf Hinv Hp Hr. induction Hr as [s|s1 s2 s3 Hs _ IH].
  - split; [exact Hinv|split; [exact Hp|apply cmono_refl]].
  - destruct s1 as [pl1 f1], s2 as [pl2 f2].
    destruct (cprov_step ws f0 pl1 f1 pl2 f2 Hcf Hc0 Hinv Hp Hs) as [Hp2 Hm].
    destruct (IH (PInvW_step hash HL ws f0 _ _ Hcf Hwf Hinv Hs) Hp2) as [Hi3 [Hp3 Hm3]].
    split; [exact Hi3|split; [exact Hp3|exact (cmono_trans _ _ _ Hm Hm3)]].
Qed.

Lemma cprov_init ws f0 : CProv ws f0 f0.
Proof. intros l d _ H. left. exact H. Qed.

(* ---------- the index in a reachable state: the serial run of the writers that have appended ---------- *)
Lemma wst_done x f p own : wst hash x f p true own -> content_fact hash x f.
Proof. intros H. inversion H; try discriminate; assumption. Qed.

Lemma PInvWd_index ws f0 done pl f :
  IndexInv f0 -> Forall (fun x => wf_rec hash (hop_rec (x_hop hash x))) ws ->
  PInvWd hash ws f0 done (pl, f) ->
  IndexInv f /\ NoDup done /\
    (forall i, In i done -> (i < List.length ws)%nat /\ content_fact hash (nth i ws dw) f) /\
    forall k, abs_idx hash f k = fold_left spec_step (hops_of (map (x_hop hash) ws) done) (abs_idx hash f0) k.
Proof.
  intros Hinv0 Hwf [owns [Hnd [Hlt [Hlen [Hlo [Hst [Hdist [Hi [Hc [Ht Hb]]]]]]]]]].
  split; [exact Hi|]. split; [exact Hnd|]. split.
  { intros i Hin. split; [exact (Hlt i Hin)|]. pose proof (Hst i (Hlt i Hin)) as H.
    assert (member i done = true) as E by (apply member_spec; exact Hin). rewrite E in H. exact (wst_done _ _ _ _ H). }
  set (hs := hops_of (map (x_hop hash) ws) done).
  assert (Forall (wf_hop hash) hs) as Hwf'.
  { apply Forall_forall. intros h Hh. unfold hs, hops_of in Hh. apply in_map_iff in Hh as [i [<- Hin]].
    rewrite (nth_indep _ dflt (x_hop hash dw)) by (rewrite map_length; apply Hlt; exact Hin).
    rewrite (map_nth (x_hop hash) ws dw i). set (y := nth i ws dw).
    assert (In y ws) as Hyw by (apply nth_In; apply Hlt; exact Hin).
    rewrite Forall_forall in Hwf. cbn [wf_hop x_hop]. split; [exact (Hwf y Hyw)|].
    intros j Ej. destruct (ws_rm y); [discriminate|]. cbn [x_o' o_sri] in Ej. inversion Ej; subst j. apply parse_entry_computed. exact HL. }
  assert (forall b, bshape b -> bucket_at f b = bucket_at (fold_left (exec_hop hash) hs f0) b) as Hbk.
  { intros b Hbs. rewrite (Hb b Hbs). symmetry. apply bucket_language; [exact Hinv0|exact Hwf'|exact Hbs]. }
  intros k.
  destruct (find_refines_map hash hs f0 Hinv0 Hwf') as [Hi' Hfind].
  pose proof (Hfind k) as Hf. rewrite (find_run hash _ k Hi') in Hf.
  assert (abs_idx hash (fold_left (exec_hop hash) hs f0) k = fold_left spec_step hs (abs_idx hash f0) k) as Hf' by congruence.
  rewrite <- Hf'. unfold abs_idx, bucket_bytes.
  pose proof (Hbk (bucket_path hash k)) as Hk. unfold bucket_at in Hk. rewrite Hk; [reflexivity|].
  destruct (bucket_path_shape hash k) as [a [b [c E]]]. exists a, b, c. exact E.
Qed.

Lemma PInvW_index ws f0 pl f :
  IndexInv f0 -> Forall (fun x => wf_rec hash (hop_rec (x_hop hash x))) ws ->
  PInvW hash ws f0 (pl, f) ->
  IndexInv f /\
  exists done,
    (forall i, In i done -> (i < List.length ws)%nat /\ content_fact hash (nth i ws dw) f) /\
    forall k, abs_idx hash f k = fold_left spec_step (hops_of (map (x_hop hash) ws) done) (abs_idx hash f0) k.
Proof.
  intros Hinv0 Hwf [done Hd]. destruct (PInvWd_index ws f0 done pl f Hinv0 Hwf Hd) as [Hi [_ [H1 H2]]].
  split; [exact Hi|]. exists done. split; [exact H1|exact H2].
Qed.

Lemma spec_fold_entry_key hs m k e :
  fold_left spec_step hs m k = Some e ->
  m k = Some e \/ exists key o now, In (HIns key o now) hs /\ bytes_eqb k key = true /\ new_entry key o now = Some e.
Proof.
  revert m. induction hs as [|h hs IH]; intros m H; [left; exact H|].
  cbn [fold_left] in H. destruct (IH _ H) as [H1|[key [o [now [Hin He]]]]].
  - unfold spec_step in H1. destruct h as [key o now|key now]; destruct (bytes_eqb k key) eqn:Ek.
    + right. exists key, o, now. split; [left; reflexivity|split; [exact Ek|exact H1]].
    + left. exact H1.
    + discriminate.
    + left. exact H1.
  - right. exists key, o, now. split; [right; exact Hin|exact He].
Qed.

Lemma spec_fold_entry hs m k e :
  fold_left spec_step hs m k = Some e ->
  m k = Some e \/ exists key o now, In (HIns key o now) hs /\ new_entry key o now = Some e.
Proof.
  revert m. induction hs as [|h hs IH]; intros m H; [left; exact H|].
  cbn [fold_left] in H. destruct (IH _ H) as [H1|[key [o [now [Hin He]]]]].
  - unfold spec_step in H1. destruct h as [key o now|key now]; destruct (bytes_eqb k key).
    + right. exists key, o, now. split; [left; reflexivity|exact H1].
    + left. exact H1.
    + discriminate.
    + left. exact H1.
  - right. exists key, o, now. split; [right; exact Hin|exact He].
Qed.

(* ---------- every visible entry is backed by its complete, verified content ---------- *)
Definition Backed (f : fs) : Prop :=
  forall k m, abs_idx hash f k = Some m ->
    exists p d, content_path (m_sri m) = Some p /\ lookup f (InCache p) = Some (File d) /\ check_res hash (m_sri m) d = Ok tt.

Lemma content_path_content i p : content_path i = Some p -> is_content (InCache p).
Proof.
  unfold content_path. destruct (sri_to_hex i) as [[a h]|]; [|discriminate]. destruct (lenN h <? 4); [discriminate|].
  intros E. inversion E. eexists. reflexivity.
Qed.

Lemma backed_reach ws f0 pl f :
  IndexInv f0 -> Backed f0 -> Forall (fun x => wf_rec hash (hop_rec (x_hop hash x))) ws ->
  PInvW hash ws f0 (pl, f) -> cmono f0 f -> Backed f.
Proof.
  intros Hinv0 Hb0 Hwf Hinv Hm k m Hk.
  destruct (PInvW_index ws f0 pl f Hinv0 Hwf Hinv) as [_ [done [Hdone Hidx]]].
  rewrite Hidx in Hk. destruct (spec_fold_entry _ _ _ _ Hk) as [H0|[key [o [now [Hin He]]]]].
  - destruct (Hb0 k m H0) as [p [d [Hp [Hl Hc]]]]. exists p, d. split; [exact Hp|]. split; [|exact Hc].
    apply Hm; [exact (content_path_content _ _ Hp)|exact Hl].
  - unfold hops_of in Hin. apply in_map_iff in Hin as [i [Ei Hi]].
    destruct (Hdone i Hi) as [Hlt Hcf].
    rewrite (nth_indep _ dflt (x_hop hash dw)) in Ei by (rewrite map_length; exact Hlt).
    rewrite (map_nth (x_hop hash) ws dw i) in Ei. set (y := nth i ws dw) in *.
    unfold x_hop in Ei. inversion Ei; subst key o now. clear Ei.
    unfold new_entry in He. destruct (ws_rm y) eqn:Erm; [cbn in He; discriminate|].
    cbn [x_o' o_sri o_time o_size o_meta o_raw] in He. inversion He; subst m. clear He. cbn [m_sri].
    exists (x_cp hash y), (ws_data y). split; [apply content_path_computed; exact HL|]. split; [exact (Hcf Erm)|].
    unfold check_res, x_sri. rewrite sri_check_self. reflexivity.
Qed.

(* ---------- the reader: one step on the bucket, one on the content file ---------- *)
Definition phase2 (k : bytes) (f1 : fs) : prog (res bytes) :=
  match abs_idx hash f1 k with Some m => read_hash hash (m_sri m) | None => Ret (Err ENotFound) end.

Lemma read_head k :
  exists kk, read hash k = Do (ReadFile (InCache (bucket_path hash k))) kk /\
    forall f, IndexInv f -> kk (fst (exec (ReadFile (InCache (bucket_path hash k))) f)) = phase2 k f.
Proof.
  eexists. split; [reflexivity|]. intros f Hinv. unfold phase2, abs_idx, bucket_bytes.
  destruct (bucket_lookup hash f k Hinv) as [Hn|[d [Hd _]]].
  - rewrite (exec_readfile_absent _ _ Hn), Hn. reflexivity.
  - rewrite (exec_readfile_file _ _ _ Hd), Hd. reflexivity.
Qed.

Lemma readfile_same f l : snd (exec (ReadFile l) f) = f.
Proof. unfold exec. destruct (resolve f l) as [[d| |t]|]; reflexivity. Qed.

Lemma phase2_run k f : IndexInv f -> run (read hash k) f = run (phase2 k f) f.
Proof.
  intros Hinv. destruct (read_head k) as [kk [E Hk]]. rewrite E. cbn [run].
  destruct (exec (ReadFile (InCache (bucket_path hash k))) f) as [r g] eqn:Ex.
  pose proof (Hk f Hinv) as H. rewrite Ex in H. cbn [fst] in H. rewrite H.
  pose proof (readfile_same f (InCache (bucket_path hash k))) as Hs. rewrite Ex in Hs. cbn [snd] in Hs. rewrite Hs. reflexivity.
Qed.

Definition rh_answer (i : integrity) (r : ret) : res bytes :=
  match r with
  | RBytes d => match check_res hash i d with Ok _ => Ok d | other => lift_err other end
  | RErr _ => Err EIoErr
  | _ => Stuck
  end.

Lemma read_hash_head i p : content_path i = Some p ->
  exists kk, read_hash hash i = Do (ReadFile (InCache p)) kk /\ forall r, kk r = Ret (rh_answer i r).
Proof.
  intros Hp. unfold read_hash, with_cpath. rewrite Hp. eexists. split; [reflexivity|].
  intros r. unfold rh_answer, rbind, read_file. cbn [bind]. destruct r as [|d| | | | |]; try reflexivity. cbn [bind]. destruct (check_res hash i d); reflexivity.
Qed.

(* ---------- readers among writers ---------- *)
Section Pools.
Variable ws : list wspec.
Variable f0 : fs.
Hypothesis Hinv0 : CacheInv f0.
Hypothesis Hb0 : Backed f0.
Hypothesis Hcf : coll_free hash ws.
Hypothesis Hc0 : coll0 ws f0.
Hypothesis Hwf : Forall (fun x => wf_rec hash (hop_rec (x_hop hash x))) ws.

Let s0 : pool (res integrity) * fs := (map (wprog hash) ws, f0).

Lemma reach_facts s : preach s0 s ->
  PInvW hash ws f0 s /\ CProv ws f0 (snd s) /\ cmono f0 (snd s) /\ IndexInv (snd s) /\ Backed (snd s).
Proof.
  intros Hr.
  destruct (cprov_reach ws f0 s0 s Hcf Hc0 Hwf (PInvW_init hash ws f0 Hinv0) (cprov_init ws f0) Hr) as [Hi [Hp Hm]].
  split; [exact Hi|]. split; [exact Hp|]. split; [exact Hm|]. destruct s as [pl f]. cbn [snd] in *.
  split; [exact (proj1 (PInvW_index ws f0 pl f (proj1 Hinv0) Hwf Hi))|].
  exact (backed_reach ws f0 pl f (proj1 Hinv0) Hb0 Hwf Hi Hm).
Qed.

Lemma reach_mono s1 s2 : preach s0 s1 -> preach s1 s2 -> cmono (snd s1) (snd s2).
Proof.
  intros H1 H2. destruct (reach_facts s1 H1) as [Hi [Hp _]].
  exact (proj2 (proj2 (cprov_reach ws f0 s1 s2 Hcf Hc0 Hwf Hi Hp H2))).
Qed.

(* where a reader of [k] can be, relative to the current state [s] of the writers *)
Inductive rst (k : bytes) (s : pool (res integrity) * fs) : prog (res bytes) -> Prop :=
| R0 : rst k s (read hash k)
| R1 s1 : preach s0 s1 -> preach s1 s -> rst k s (phase2 k (snd s1))
| R2 s1 : preach s0 s1 -> preach s1 s -> rst k s (Ret (fst (run (read hash k) (snd s1)))).

Lemma rst_step k s s' r : rst k s r -> pstep s s' -> rst k s' r.
Proof.
  intros H Hs. destruct H as [|s1 H1 H2|s1 H1 H2].
  - apply R0.
  - exact (R1 k s' s1 H1 (preach_snoc _ _ _ H2 Hs)).
  - exact (R2 k s' s1 H1 (preach_snoc _ _ _ H2 Hs)).
Qed.

(* one step of a reader: the tree is unchanged and the reader is in its next stage *)
Lemma rst_read_step k pl f c kk :
  preach s0 (pl, f) -> rst k (pl, f) (Do c kk) ->
  snd (exec c f) = f /\ rst k (pl, f) (kk (fst (exec c f))).
Proof.
  intros Hr H. remember (Do c kk) as r eqn:Er. destruct H as [|s1 H1 H2|s1 H1 H2].
  - destruct (read_head k) as [k1 [E Hk]]. rewrite E in Er. injection Er as Ec Ek. subst c kk.
    split; [apply readfile_same|].
    destruct (reach_facts (pl, f) Hr) as [_ [_ [_ [Hi _]]]]. cbn [snd] in Hi.
    rewrite (Hk f Hi). exact (R1 k (pl, f) (pl, f) Hr (PRefl _)).
  - destruct (reach_facts s1 H1) as [_ [_ [_ [Hi1 Hb1]]]].
    unfold phase2 in Er. destruct (abs_idx hash (snd s1) k) as [m|] eqn:Ea; [|discriminate].
    destruct (Hb1 k m Ea) as [p [d [Hp [Hl Hc]]]].
    destruct (read_hash_head (m_sri m) p Hp) as [k1 [E Hk]]. rewrite E in Er. injection Er as Ec Ek. subst c kk.
    split; [apply readfile_same|]. rewrite Hk.
    assert (lookup f (InCache p) = Some (File d)) as Hl2.
    { exact (reach_mono s1 (pl, f) H1 H2 _ _ (content_path_content _ _ Hp) Hl). }
    assert (fst (run (read hash k) (snd s1)) = rh_answer (m_sri m) (fst (exec (ReadFile (InCache p)) f))) as <-.
    { rewrite (phase2_run k (snd s1) Hi1). unfold phase2. rewrite Ea, E. cbn [run].
      rewrite (exec_readfile_file _ _ _ Hl), (exec_readfile_file _ _ _ Hl2). rewrite Hk. reflexivity. }
    exact (R2 k (pl, f) s1 H1 H2).
  - discriminate.
Qed.

Definition OInv (ks : list bytes) (st : pool (res integrity) * pool (res bytes) * fs) : Prop :=
  let '(pl, rl, f) := st in
  preach s0 (pl, f) /\ List.length rl = List.length ks /\
  forall j, (j < List.length ks)%nat -> rst (nth j ks []) (pl, f) (nth j rl (Ret Stuck)).

Lemma OInv_init ks : OInv ks (map (wprog hash) ws, map (read hash) ks, f0).
Proof.
  split; [apply PRefl|]. split; [apply map_length|]. intros j Hj.
  rewrite (nth_indep _ (Ret Stuck) (read hash [])) by (rewrite map_length; exact Hj).
  rewrite (map_nth (read hash) ks [] j). apply R0.
Qed.

Lemma OInv_step ks st st' : OInv ks st -> ostep st st' -> OInv ks st'.
Proof.
  intros Hinv Hs. destruct Hs as [pl pl' rl f f' Hp|pl rl rl' f f' Hp].
  - destruct Hinv as [Hr [Hlen Hst]]. split; [exact (preach_snoc _ _ _ Hr Hp)|]. split; [exact Hlen|].
    intros j Hj. exact (rst_step _ _ _ _ (Hst j Hj) Hp).
  - destruct Hinv as [Hr [Hlen Hst]]. inversion Hp as [pre c k post f1 E1 E2]. subst rl f1 rl'.
    set (j0 := List.length pre).
    assert (j0 < List.length ks)%nat as Hj0 by (rewrite <- Hlen, app_length; cbn [List.length]; lia).
    pose proof (Hst j0 Hj0) as Hrj. unfold j0 in Hrj at 2. rewrite nth_mid in Hrj.
    destruct (rst_read_step _ pl f c k Hr Hrj) as [Hsame Hnew]. rewrite Hsame.
    split; [exact Hr|]. split; [rewrite <- Hlen, !app_length; reflexivity|].
    intros j Hj. destruct (Nat.eq_dec j j0) as [->|Hne].
    + unfold j0 at 2. rewrite nth_mid. exact Hnew.
    + rewrite (nth_other pre post _ (Do c k)) by exact Hne. exact (Hst j Hj).
Qed.

Lemma OInv_reach ks st st' : OInv ks st -> oreach st st' -> OInv ks st'.
Proof. intros Hi Hr. induction Hr as [s|s1 s2 s3 Hs _ IH]; [exact Hi|]. exact (IH (OInv_step ks _ _ Hi Hs)). Qed.

(* the theorem: each reader answers as the same read executed atomically at a reachable state of the writers *)
Theorem readers_among_writers ks pl' rl' f' :
  oreach (map (wprog hash) ws, map (read hash) ks, f0) (pl', rl', f') ->
  preach (map (wprog hash) ws, f0) (pl', f') /\
  forall j a, (j < List.length ks)%nat -> nth j rl' (Ret Stuck) = Ret a ->
    exists s1, preach (map (wprog hash) ws, f0) s1 /\ preach s1 (pl', f') /\
               a = fst (run (read hash (nth j ks [])) (snd s1)).
Proof.
  intros Hr. destruct (OInv_reach ks _ _ (OInv_init ks) Hr) as [Hp [Hlen Hst]].
  split; [exact Hp|]. intros j a Hj Ha. pose proof (Hst j Hj) as H. rewrite Ha in H.
  remember (Ret a) as r eqn:Er. destruct H as [|s1 H1 H2|s1 H1 H2].
  - destruct (read_head (nth j ks [])) as [k1 [E _]]. rewrite E in Er. discriminate.
  - exists s1. split; [exact H1|]. split; [exact H2|].
    destruct (reach_facts s1 H1) as [_ [_ [_ [Hi1 _]]]].
    rewrite (phase2_run _ _ Hi1), Er. reflexivity.
  - exists s1. split; [exact H1|]. split; [exact H2|]. inversion Er. reflexivity.
Qed.

(* what an atomic read answers in a reachable state of the writers: not found, or the complete bytes of the initial entry
   or of a writer of that key which has appended its record *)
Theorem atomic_read_value k s :
  preach (map (wprog hash) ws, f0) s ->
  fst (run (read hash k) (snd s)) = Err ENotFound /\ abs_idx hash (snd s) k = None \/
  exists m d, abs_idx hash (snd s) k = Some m /\ fst (run (read hash k) (snd s)) = Ok d /\ check_res hash (m_sri m) d = Ok tt /\
    (abs_idx hash f0 k = Some m \/
     exists x, In x ws /\ ws_rm x = false /\ bytes_eqb k (ws_key x) = true /\ m_sri m = x_sri hash x /\ d = ws_data x).
Proof.
  intros Hr. destruct (reach_facts s Hr) as [Hi [_ [_ [Hidx Hb]]]].
  rewrite (phase2_run k (snd s) Hidx). unfold phase2.
  destruct (abs_idx hash (snd s) k) as [m|] eqn:Ea; [|left; split; reflexivity].
  right. destruct (Hb k m Ea) as [p [d [Hp [Hl Hc]]]]. exists m, d. split; [reflexivity|].
  destruct (read_hash_head (m_sri m) p Hp) as [k1 [E Hk]].
  split. { rewrite E. cbn [run]. rewrite (exec_readfile_file _ _ _ Hl), Hk. cbn [run fst]. unfold rh_answer. rewrite Hc. reflexivity. }
  split; [exact Hc|].
  destruct s as [pl f]. cbn [snd] in *.
  destruct (PInvW_index ws f0 pl f (proj1 Hinv0) Hwf Hi) as [_ [done [Hdone Hfold]]].
  rewrite Hfold in Ea. destruct (spec_fold_entry_key _ _ _ _ Ea) as [H0|[key [o [now [Hin [Hkey He]]]]]]; [left; exact H0|].
  right. unfold hops_of in Hin. apply in_map_iff in Hin as [i [Ei Hin]].
  destruct (Hdone i Hin) as [Hlt Hcfx].
  rewrite (nth_indep _ dflt (x_hop hash dw)) in Ei by (rewrite map_length; exact Hlt).
  rewrite (map_nth (x_hop hash) ws dw i) in Ei. set (y := nth i ws dw) in *.
  unfold x_hop in Ei. inversion Ei; subst key o now. clear Ei.
  unfold new_entry in He. destruct (ws_rm y) eqn:Erm; [cbn in He; discriminate|].
  cbn [x_o' o_sri o_time o_size o_meta o_raw] in He. inversion He; subst m. clear He. cbn [m_sri] in *.
  exists y. split; [apply nth_In; exact Hlt|]. split; [exact Erm|]. split; [exact Hkey|]. split; [reflexivity|].
  unfold x_sri in Hp. rewrite (content_path_computed hash (ws_a y) (ws_data y) HL) in Hp. inversion Hp; subst p.
  pose proof (Hcfx Erm) as Hy. unfold x_cp in Hy. rewrite Hy in Hl. inversion Hl. reflexivity.
Qed.

(* the hypotheses on the initial cache are met by the empty cache and by every state the writers reach *)
Lemma reach_cache_ok s : preach (map (wprog hash) ws, f0) s -> CacheInv (snd s) /\ Backed (snd s).
Proof.
  intros Hr. destruct (reach_facts s Hr) as [Hi [_ [_ [_ Hb]]]]. split; [|exact Hb].
  destruct s as [pl f]. destruct Hi as [done [owns [_ [_ [_ [_ [_ [_ [Hi [Hc [Ht _]]]]]]]]]]]. exact (conj Hi (conj Hc Ht)).
Qed.

End Pools.

Lemma backed_empty : Backed [].
Proof. intros k m H. unfold abs_idx, bucket_bytes in H. cbn in H. discriminate. Qed.

(* ---------- the writers never create a symbolic link ---------- *)
Definition nosym_cmd (f : fs) (c : sys) : Prop :=
  match c with
  | MkdirAll _ | CreateTmp | WriteAppend _ _ | CreateIfMissing _ | Append _ _ => True
  | Rename s _ => exists b, lookup f s = Some (File b)
  | _ => False
  end.

Lemma file_ns d t' : File d <> Symlink t'.
Proof. discriminate. Qed.

Lemma upd_sym f a n l t : (forall t', n <> Symlink t') -> lookup (update f a n) l = Some (Symlink t) -> lookup f l = Some (Symlink t).
Proof. intros Hn H. rewrite lookup_update in H. destruct (loc_eqb a l); [inversion H as [E]; exfalso; exact (Hn t E)|exact H]. Qed.

Lemma nosym_exec c f l t : nosym_cmd f c -> lookup (snd (exec c f)) l = Some (Symlink t) -> lookup f l = Some (Symlink t).
Proof.
  destruct c as [p| |l0 n|l0 off s0|l0 n|l0 s0|src dst|l0|l0|l0 d0|l0|l0|src dst|t0 dst|src dst|src dst|p|p|p]; cbn [nosym_cmd]; intros Hc H; try contradiction.
  - rewrite exec_mkdirall in H. destruct (mkdirs_any f (prefixes p) l) as [E|E]; rewrite E in H; [exact H|discriminate].
  - unfold exec in H. destruct (is_dir f tmp_dir); cbn [snd] in H; [|exact H]. apply (upd_sym _ _ _ _ _ (file_ns _) H).
  - unfold exec in H. destruct (lookup f l0) as [[d| |t1]|]; cbn [snd] in H; try exact H. apply (upd_sym _ _ _ _ _ (file_ns _) H).
  - destruct Hc as [b Hb]. unfold exec in H. rewrite Hb in H. destruct (parent_ok f dst); [|exact H].
    assert (lookup (update (remove f src) dst (File b)) l = Some (Symlink t) -> lookup f l = Some (Symlink t)) as Hu.
    { intros H1. apply (upd_sym _ _ _ _ _ (file_ns _)) in H1.
      destruct (loc_eq_dec src l) as [<-|Hne]; [rewrite lookup_remove_eq in H1; discriminate|rewrite lookup_remove_neq in H1 by exact Hne; exact H1]. }
    destruct (lookup f dst) as [[d| |t1]|]; cbn [snd] in H; try exact H; apply Hu; exact H.
  - unfold exec in H. destruct (lookup f l0) as [[d| |t1]|]; cbn [snd] in H; try exact H.
    destruct (parent_ok f l0); cbn [snd] in H; [|exact H]. apply (upd_sym _ _ _ _ _ (file_ns _) H).
  - unfold exec in H. destruct (lookup f l0) as [[d| |t1]|]; cbn [snd] in H; try exact H. apply (upd_sym _ _ _ _ _ (file_ns _) H).
Qed.

Lemma pstep_nosym_cmd ws f0 pl f pl' f' :
  PInvW hash ws f0 (pl, f) -> pstep (pl, f) (pl', f') -> exists c, nosym_cmd f c /\ f' = snd (exec c f).
Proof.
  intros Hinv Hstep. inversion Hstep as [pre c k post f1 E1 E2]. subst pl f1 pl'. clear Hstep.
  exists c. split; [|reflexivity].
  destruct Hinv as [done [owns [Hnd [Hlt [Hlen [Hlo [Hst [Hdist [Hi [Hc [Ht Hb]]]]]]]]]]].
  set (i0 := List.length pre).
  assert (i0 < List.length ws)%nat as Hi0 by (rewrite <- Hlen, app_length; cbn [List.length]; lia).
  set (x := nth i0 ws dw).
  pose proof (Hst i0 Hi0) as Hs0. fold x in Hs0. unfold i0 in Hs0 at 1. rewrite nth_mid in Hs0.
  remember (Do c k) as p0 eqn:Ep0. remember (member i0 done) as fl eqn:Efl. remember (nth i0 owns None) as own0 eqn:Eown.
  destruct Hs0 as [Hw|Hw Hd|n Hw Hl Hne|n Hw Hl|n Hw Hl Hd|Hcp|Hcp Hd|d Hcp Hd|Hcp].
  - destruct (do_eq c k (A0 hash x) _ (eq_sym Ep0) (A0_head hash x)) as [-> Hk]. exact I.
  - destruct (do_eq c k (A1 hash x) _ (eq_sym Ep0) (A1_head hash x)) as [-> Hk]. exact I.
  - destruct (A2_data hash x n Hne) as [Hh Hn2].
    destruct (do_eq c k (A2 hash x n) _ (eq_sym Ep0) Hh) as [-> Hk]. exact I.
  - destruct (do_eq c k (B0' hash x n) _ (eq_sym Ep0) (B0'_head hash x n)) as [-> Hk]. exact I.
  - destruct (do_eq c k (B1 hash x n) _ (eq_sym Ep0) (B1_head hash x n)) as [-> Hk]. exists (ws_data x). exact Hl.
  - destruct (seq_prog_unfold (MkdirAll (parent (hb hash (x_hop hash x)))) (tl (hop_steps hash (x_hop hash x))) (x_res hash x)) as [k1 [E Hk1]].
    assert (Do c k = Do (MkdirAll (parent (hb hash (x_hop hash x)))) k1) as Ed by (rewrite <- E; symmetry; exact Ep0).
    remember (MkdirAll (parent (hb hash (x_hop hash x)))) as c1 eqn:Ec1. injection Ed as -> ->. subst c1. exact I.
  - destruct (seq_prog_unfold (CreateIfMissing (InCache (hb hash (x_hop hash x)))) (tl (tl (hop_steps hash (x_hop hash x)))) (x_res hash x)) as [k1 [E Hk1]].
    assert (Do c k = Do (CreateIfMissing (InCache (hb hash (x_hop hash x)))) k1) as Ed by (rewrite <- E; symmetry; exact Ep0).
    remember (CreateIfMissing (InCache (hb hash (x_hop hash x)))) as c1 eqn:Ec1. injection Ed as -> ->. subst c1. exact I.
  - destruct (seq_prog_unfold (Append (InCache (hb hash (x_hop hash x))) (record_bytes hash (hop_rec (x_hop hash x)))) [] (x_res hash x)) as [k1 [E Hk1]].
    assert (Do c k = Do (Append (InCache (hb hash (x_hop hash x))) (record_bytes hash (hop_rec (x_hop hash x)))) k1) as Ed by (rewrite <- E; symmetry; exact Ep0).
    remember (Append (InCache (hb hash (x_hop hash x))) (record_bytes hash (hop_rec (x_hop hash x)))) as c1 eqn:Ec1. injection Ed as -> ->. subst c1. exact I.
  - discriminate.
Qed.

(* no symbolic link anywhere in the content area: true of every cache that ordinary writes produce, kept by the pool *)
Definition NoSymC (f : fs) : Prop := forall p t, lookup f (InCache (content_dir :: p)) <> Some (Symlink t).

Lemma nosym_step ws f0 pl f pl' f' :
  PInvW hash ws f0 (pl, f) -> NoSymC f -> pstep (pl, f) (pl', f') -> NoSymC f'.
Proof.
  intros Hinv Hn Hs p t H. destruct (pstep_nosym_cmd ws f0 pl f pl' f' Hinv Hs) as [c [Hc ->]].
  exact (Hn p t (nosym_exec c f _ t Hc H)).
Qed.

End CR.
