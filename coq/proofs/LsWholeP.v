(* LsWholeP.v — C10 for the whole cache: the listing program (walk of index-v5, every bucket read and reduced) yields
   exactly the entries that lookups find. *)
From CC Require Import Bytes Codec Utf8 Lines Json Sri Record Fs Prog Api
  BytesP CodecP LinesP LsP FsP ProgP SriP RecordP IndexP ReadP WriteP CommitP RemoveP.
From Coq Require Import Lia.

Section LW.
Variable hash : algo -> bytes -> bytes.

(* every record sits in the bucket of its key (true of everything the API writes; a record planted by hand in a foreign
   bucket is listed by the walk but not found by a lookup of its key: outside the property) *)
Definition BucketPlacement (f : fs) : Prop :=
  forall a b c d, lookup f (InCache [index_dir; a; b; c]) = Some (File d) ->
    forall e, In e (entries hash d) -> bucket_path hash (sm_key e) = [index_dir; a; b; c].
(* nothing below the bucket level *)
Definition NoDeep (f : fs) : Prop :=
  forall p n, lookup f (InCache (index_dir :: p)) = Some n -> (List.length p <= 3)%nat.

Lemma ls_buckets_run (bs : list loc) f :
  (forall l, In l bs -> exists d, lookup f l = Some (File d)) ->
  run (ls_buckets hash bs) f =
  (flat_map (fun l => match lookup f l with Some (File d) => map LMeta (ls_entries (entries hash d)) | _ => [] end) bs, f).
Proof.
  induction bs as [|b bs IH]; intros Hall; [reflexivity|].
  cbn [ls_buckets flat_map]. rewrite run_bind. unfold bucket_entries. cbn [run].
  destruct (Hall b (or_introl eq_refl)) as [d Hd]. rewrite (exec_readfile_file f b d Hd). cbn [run]. rewrite Hd.
  rewrite run_bind, IH by (intros l Hl; apply Hall; right; exact Hl). reflexivity.
Qed.

Lemma ls_entries_key es m : In m (ls_entries es) -> exists e, In e es /\ sm_key e = m_key m.
Proof.
  intros H. apply ls_iff_find in H. unfold find_in in H.
  assert (forall acc, fold_left (find_step (m_key m)) es acc = Some m -> (acc = Some m \/ exists e, In e es /\ sm_key e = m_key m)) as Hgen.
  { clear H. induction es as [|e es IH]; intros acc H; cbn [fold_left] in H; [left; exact H|].
    destruct (IH _ H) as [E|[e' [Hin Hk]]]; [|right; exists e'; split; [right; exact Hin|exact Hk]].
    unfold find_step in E. destruct (bytes_eqb (sm_key e) (m_key m)) eqn:Ek.
    - right. exists e. split; [left; reflexivity|apply bytes_eqb_eq; exact Ek].
    - left. exact E. }
  destruct (Hgen None H) as [E|E]; [discriminate|exact E].
Qed.

Lemma nodup_in_lookup f l n : NoDupKeys f -> In (l, n) f -> lookup f l = Some n.
Proof.
  unfold NoDupKeys. induction f as [|[l' n'] f IH]; intros Hnd Hin; [destruct Hin|].
  cbn [map fst] in Hnd. inversion Hnd as [|? ? Hni Hnd']; subst. rewrite lookup_cons. destruct Hin as [E|Hin].
  - inversion E; subst. rewrite loc_eqb_refl. reflexivity.
  - destruct (loc_eqb l' l) eqn:El; [|apply IH; assumption]. apply loc_eqb_eq in El. subst l'.
    exfalso. apply Hni. apply in_map_iff. exists (l, n). split; [reflexivity|exact Hin].
Qed.

Theorem ls_whole f :
  NoDupKeys f -> IndexInv f -> NoDeep f -> BucketPlacement f -> is_dir f [index_dir] = true ->
  exists items, run (ls hash) f = (Ok items, f) /\
    (forall it, In it items -> exists m, it = LMeta m) /\
    (forall m, In (LMeta m) items <-> abs_idx hash f (m_key m) = Some m).
Proof.
  intros Hnk Hinv Hnd Hbp Hd. unfold ls. cbn [run]. unfold exec.
  set (walk := map fst (filter (fun ln => strictly_under [index_dir] (fst ln) && match snd ln with Dir => false | _ => true end) f)).
  (* every walked location is a bucket file *)
  assert (forall l, In l walk -> exists a b c d, l = InCache [index_dir; a; b; c] /\ lookup f l = Some (File d)) as Hwalk.
  { intros l Hl. unfold walk in Hl. apply in_map_iff in Hl as [[l' n] [<- Hin]]. apply filter_In in Hin as [Hin Hc]. cbn [fst snd] in *.
    apply andb_true_iff in Hc as [Hu Hn]. destruct l' as [q|e]; [|discriminate]. cbn [strictly_under] in Hu.
    apply andb_true_iff in Hu as [Hpre Hne]. destruct q as [|x q]; [discriminate|]. cbn [is_prefix] in Hpre.
    apply andb_true_iff in Hpre as [Hx _]. apply bytes_eqb_eq in Hx. subst x.
    pose proof (nodup_in_lookup f _ _ Hnk Hin) as El.
    pose proof (Hnd q n El) as Hlen. destruct (Hinv q n El) as [H2 H3].
    destruct (le_lt_dec (List.length q) 2) as [Hle|Hgt]; [rewrite (H2 Hle) in Hn; discriminate|].
    assert (List.length q = 3%nat) as H3' by lia. destruct (H3 H3') as [d [-> _]].
    destruct q as [|a [|b [|c [|? ?]]]]; cbn in H3'; try lia. exists a, b, c, d. split; [reflexivity|exact El]. }
  (* and every bucket file is walked *)
  assert (forall a b c d, lookup f (InCache [index_dir; a; b; c]) = Some (File d) -> In (InCache [index_dir; a; b; c]) walk) as Hall.
  { intros a b c d Hl. unfold walk. apply in_map_iff. exists (InCache [index_dir; a; b; c], File d). split; [reflexivity|].
    apply filter_In. split; [apply lookup_in; exact Hl|]. cbn [fst snd strictly_under is_prefix]. rewrite bytes_eqb_refl. reflexivity. }
  rewrite Hd. fold walk. rewrite run_bind, ls_buckets_run by (intros l Hl; destruct (Hwalk l Hl) as [a [b [c [d [_ H]]]]]; eauto). cbn [run].
  eexists. split; [reflexivity|]. split.
  - intros it Hit. apply in_flat_map in Hit as [l [Hl Hit]]. destruct (lookup f l) as [[d| |t]|]; try destruct Hit.
      apply in_map_iff in Hit as [m [<- _]]. eauto.
  - intros m. split.
    + intros Hit. apply in_flat_map in Hit as [l [Hl Hit]]. destruct (Hwalk l Hl) as [a [b [c [d [-> Hld]]]]]. rewrite Hld in Hit.
        apply in_map_iff in Hit as [m' [E Hm']]. inversion E; subst m'.
        destruct (ls_entries_key _ _ Hm') as [e [He Hk]].
        pose proof (Hbp a b c d Hld e He) as Hpl. rewrite Hk in Hpl.
        unfold abs_idx, bucket_bytes. rewrite Hpl, Hld. apply ls_iff_find. exact Hm'.
    + intros Ha. unfold abs_idx, bucket_bytes in Ha. destruct (bucket_path_shape hash (m_key m)) as [a [b [c Eb]]]. rewrite Eb in Ha.
        destruct (lookup f (InCache [index_dir; a; b; c])) as [[d| |t]|] eqn:El; try discriminate.
        apply in_flat_map. exists (InCache [index_dir; a; b; c]). split; [apply (Hall a b c d El)|]. rewrite El.
        apply in_map. apply ls_iff_find. exact Ha.
Qed.

(* a cache without an index area (fresh, or just cleared): the walk fails and the listing is one error item — what the
   library's own test pins *)
Lemma ls_fresh f : is_dir f [index_dir] = false -> run (ls hash) f = (Ok [LErr EIoErr], f).
Proof. intros H. unfold ls. cbn [run]. unfold exec. rewrite H. reflexivity. Qed.

End LW.
