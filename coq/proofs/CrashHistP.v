(* CrashHistP.v — C04 for the whole operation and over histories: a kill at ANY point of a keyed write (opening the
   writer, any chunk, trimming, publishing, the index append torn at any length) leaves every other key's lookup as it
   was and the written key at its previous entry or at the complete new one (content stored); and this from every state
   a history of writes and removals reaches, so that reads after the crash answer from the history's specification. *)
From CC Require Import Bytes Codec Utf8 Lines Json Sri Record Fs Prog Api Crash Sess
  BytesP CodecP LinesP FsP ProgP SriP RecordP IndexP ReadP WriteP CommitP RemoveP TotalP CrashP CrashIdxP ConfineP KeepP
  FaultP SessP JsonP RecCodecP MetaP HistP.
From Coq Require Import Lia.
Local Open Scope N_scope.

Section CH.
Variable hash : algo -> bytes -> bytes.
Hypothesis HL : HashLen hash.

Definition old_or_new (f : fs) (key : bytes) (o' : wopts) (now : N) (cp : path) (data : bytes) (c : fs) : Prop :=
  IndexInv c /\
  (forall k, k <> key -> abs_idx hash c k = abs_idx hash f k) /\
  (abs_idx hash c key = abs_idx hash f key \/
   (abs_idx hash c key = new_entry key o' now /\ lookup c (InCache cp) = Some (File data))).

Lemma old_or_new_frame f key o' now cp data c :
  IndexInv f -> (forall l, is_index l -> lookup c l = lookup f l) -> old_or_new f key o' now cp data c.
Proof.
  intros Hi Hfr. split; [exact (IndexInv_frame f c Hi Hfr)|]. split; [intros k _; apply (abs_idx_frame hash); exact Hfr|left; apply (abs_idx_frame hash); exact Hfr].
Qed.

Lemma old_or_new_trans f g key o' now cp data c :
  (forall l, is_index l -> lookup g l = lookup f l) -> old_or_new g key o' now cp data c -> old_or_new f key o' now cp data c.
Proof.
  intros Hfr [Hi [Ho Hk]]. pose proof (abs_idx_frame hash f g Hfr) as Ha.
  split; [exact Hi|]. split; [intros k Hne; rewrite (Ho k Hne); apply Ha|rewrite <- (Ha key); exact Hk].
Qed.

Lemma tmponly_noidx c : tmponly c -> forall l, may_touch c l -> ~ is_index l.
Proof. intros Hc l Hl [q E]. destruct (Hc l Hl) as [X|[n X]]; rewrite X in E; inversion E as [[H1 H2]]; vm_compute in H1; discriminate. Qed.

Lemma write_chunks_noidx f w cs :
  WInv f w -> steps_ok (fun c _ => forall l, may_touch c l -> ~ is_index l) (write_chunks w cs) f.
Proof.
  revert f w. induction cs as [|c cs IH]; intros f w Hw; cbn [write_chunks]; [exact I|].
  unfold rbind. apply steps_ok_bind. split.
  - apply (all_steps_ok tmponly); [intros c0 g H; apply tmponly_noidx; exact H|]. apply t_write_chunk.
    destruct Hw as [[n Hn] _]. exists n. exact Hn.
  - destruct (write_chunk_ok hash f w c Hw) as [w1 [f1 [Hr [Hw1 _]]]]. rewrite Hr. cbn [fst snd]. apply IH. exact Hw1.
Qed.

(* the whole keyed streamed write *)
Theorem stream_write_keyed_crash f fl key o cs now :
  CacheInv f -> o_sri o = None -> size_ok o (lenN (List.concat cs)) = true ->
  let data := List.concat cs in let a := algo_of o in
  let o' := commit_opts o (sri_of hash a data) (lenN data) in
  wf_rec hash (smeta_of key o' now) -> PrefixFree hash (encode_smeta (smeta_of key o' now)) ->
  Forall (old_or_new f key o' now (cpath hash a data) data) (crash_states (stream_write hash fl (Some key) o cs now) f).
Proof.
  intros Hinv Hns Hs data a o' Hwf Hpf. unfold stream_write, rbind.
  apply crash_states_bind. split.
  - destruct (untouched_crash is_index (open_writer fl (Some key) o) f) as [Hall _].
    { apply (all_steps_ok tmponly); [intros c g H; apply tmponly_noidx; exact H|apply t_open_writer]. }
    eapply Forall_impl; [|exact Hall]. intros c Hc. apply old_or_new_frame; [exact (proj1 Hinv)|exact Hc].
  - destruct (open_writer_inv hash f fl (Some key) o Hinv) as [w [f1 [Hr1 [Hw1 [Hi1 [Hd1 [Hk1 [Ho1 [Ha1 [Hfr1 _]]]]]]]]]].
    rewrite Hr1. cbn [fst snd].
    assert (forall l, is_index l -> lookup f1 l = lookup f l) as F1 by (intros l Hl; apply Hfr1; intro X; eapply index_not_tmp; eauto).
    apply crash_states_bind. split.
    + destruct (untouched_crash is_index (write_chunks w cs) f1 (write_chunks_noidx f1 w cs Hw1)) as [Hall _].
      eapply Forall_impl; [|exact Hall]. intros c Hc. apply (old_or_new_trans f f1); [exact F1|].
      apply old_or_new_frame; [exact (proj1 Hi1)|exact Hc].
    + destruct (write_chunks_inv hash f1 w cs Hw1 Hi1) as [w2 [f2 [Hr2 [Hw2 [Hi2 [[S1 [S2 [S3 S4]]] [Hd2 Hfr2]]]]]]].
      rewrite Hr2. cbn [fst snd]. rewrite Hd1 in Hd2. cbn [app] in Hd2.
      assert (w_key w2 = Some key) as Hk2 by congruence.
      assert (w_opts w2 = o) as Ho2 by congruence.
      assert (w_algo w2 = a) as Ha2 by (unfold a, algo_of; congruence).
      assert (forall l, is_index l -> lookup f2 l = lookup f1 l) as F2.
      { intros l Hl. apply Hfr2. destruct Hw1 as [[n Hn] _]. intro X. eapply index_not_tmp; [exact Hl|right; exists n; congruence]. }
      assert (declared_ok (w_opts w2) (sri_of hash (w_algo w2) (w_data w2)) = Some (sri_of hash a data)) as Hd
        by (unfold declared_ok; rewrite Ho2, Hns, Ha2, Hd2; reflexivity).
      pose proof (commit_keyed_crash hash HL f2 w2 now key _ Hw2 Hi2 Hk2 Hd) as Hc.
      rewrite Ho2, Hd2, Ha2 in Hc. fold data o' in Hc.
      specialize (Hc Hs Hwf (parse_entry_computed hash _ _ HL) Hpf).
      eapply Forall_impl; [|exact Hc]. intros c Hcc. apply (old_or_new_trans f f1); [exact F1|]. apply (old_or_new_trans f1 f2); [exact F2|].
      exact Hcc.
Qed.


(* after any history: a kill at any point of the next keyed write; what every OTHER key reads afterwards *)
Theorem crash_reads_after_history (h : list cop) fl key o cs now :
  forallb (c_ok hash) h = true -> c_ok hash (CStream fl key o cs now) = true ->
  NoColl hash (c_all (c_step hash (fold_left (c_step hash) h cspec0) (CStream fl key o cs now))) ->
  let f := fold_left (c_run hash) h [] in let s := fold_left (c_step hash) h cspec0 in
  let data := List.concat cs in let a := algo_of o in
  PrefixFree hash (encode_smeta (smeta_of key (commit_opts o (sri_of hash a data) (lenN data)) now)) ->
  Forall (fun c =>
            (forall k, k <> key ->
               match c_map s k with
               | Some (a0, d0) => memb (a0, d0) (c_stored s) = true -> run (read hash k) c = (Ok d0, c)
               | None => run (read hash k) c = (Err ENotFound, c)
               end) /\
            (run (read hash key) c = (c_read s key, c) \/ run (read hash key) c = (Ok data, c) \/
             exists a0 d0, c_map s key = Some (a0, d0) /\ memb (a0, d0) (c_stored s) = false))
         (crash_states (stream_write hash fl (Some key) o cs now) f).
Proof.
  intros Hok Hokw Hnc f s data a Hpf.
  cbn [c_ok] in Hokw. apply andb_true_iff in Hokw as [Hx Hopts]. apply andb_true_iff in Hx as [Hns Hsz].
  assert (o_sri o = None) as Hns' by (destruct (o_sri o); [discriminate|reflexivity]).
  pose proof (opts_ok_wf_rec hash key _ now Hopts) as Hwf.
  assert (NoColl hash (c_all s)) as Hnc0.
  { destruct (c_all_grows hash (fold_left (c_step hash) h cspec0) (CStream fl key o cs now)) as [pre E]. rewrite E in Hnc. exact (NoColl_suffix hash _ _ Hnc). }
  destruct (chistory_refines hash HL h [] cspec0 (cinv_empty hash) Hok Hnc0) as [Hinv [Hm Hst]]. fold f s in Hinv, Hm, Hst.
  pose proof (stream_write_keyed_crash f fl key o cs now Hinv Hns' Hsz Hwf Hpf) as Hcr. fold data a in Hcr.
  apply Forall_forall. intros c Hin. rewrite Forall_forall in Hcr. destruct (Hcr c Hin) as [Hic [Hoth Hkey]].
  (* a stored content of the history is still there at [c] *)
  assert (forall a0 d0, In (a0, d0) (c_all s) -> memb (a0, d0) (c_stored s) = true -> lookup c (InCache (cpath hash a0 d0)) = Some (File d0)) as Hkeep.
  { intros a0 d0 Hin0 Hmem. pose proof (Hst a0 d0 Hin0) as Hl0. rewrite Hmem in Hl0.
    destruct (stream_write_keeps hash HL (InCache (cpath hash a0 d0)) (ex_intro _ a0 (ex_intro _ d0 eq_refl)) f fl (Some key) o cs now d0 Hinv Hl0) as [Hall _].
    - intros E. assert (cpath hash a data = cpath hash a0 d0) as E' by (unfold a, data; congruence).
      apply (Hnc a data a0 d0); [left; reflexivity|right; exact Hin0|exact E'].
    - rewrite Forall_forall in Hall. exact (Hall c Hin). }
  split.
  - intros k Hne. specialize (Hm k). rewrite <- (Hoth k Hne) in Hm. destruct (c_map s k) as [[a0 d0]|].
    + intros Hmem. destruct Hm as [Hin0 [e [He Hs]]]. rewrite (read_by_key hash c k e Hic He), Hs.
      apply (read_hash_stored hash HL). exact (Hkeep a0 d0 Hin0 Hmem).
    + unfold read, by_key, rbind. rewrite run_bind, (find_run hash c k Hic), Hm. reflexivity.
  - specialize (Hm key). destruct Hkey as [Hold|[Hnew Hcp]].
    + rewrite <- Hold in Hm. unfold c_read. destruct (c_map s key) as [[a0 d0]|].
      * destruct Hm as [Hin0 [e [He Hs]]]. destruct (memb (a0, d0) (c_stored s)) eqn:Hmem.
        -- left. rewrite (read_by_key hash c key e Hic He), Hs. apply (read_hash_stored hash HL). exact (Hkeep a0 d0 Hin0 Hmem).
        -- right. right. exists a0, d0. split; [reflexivity|exact Hmem].
      * left. unfold read, by_key, rbind. rewrite run_bind, (find_run hash c key Hic), Hm. reflexivity.
    + right. left. unfold new_entry, commit_opts in Hnew. cbn [o_sri] in Hnew.
      rewrite (read_by_key hash c key _ Hic Hnew). cbn [m_sri]. apply (read_hash_stored hash HL). exact Hcp.
Qed.

End CH.
