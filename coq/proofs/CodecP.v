(* CodecP.v — round trips of the codecs: base64 (standard alphabet, padding, canonical decoding). *)
From CC Require Import Bytes Codec BytesP.
From Coq Require Import Lia.
Local Open Scope N_scope.

Lemma b2n_bounded b : b2n b < 256.
Proof. pose proof (Byte.to_N_bounded b). unfold b2n. lia. Qed.

Definition sextets : list N := map N.of_nat (seq 0 64).

Lemma dec6_enc6_all : forallb (fun n => match dec6 (enc6 n) with Some m => N.eqb m n | None => false end) sextets = true.
Proof. vm_compute. reflexivity. Qed.

Lemma dec6_enc6 n : n < 64 -> dec6 (enc6 n) = Some n.
Proof.
  intros H. pose proof dec6_enc6_all as A. rewrite forallb_forall in A.
  assert (In n sextets) as Hin.
  { unfold sextets. apply in_map_iff. exists (N.to_nat n). split; [apply N2Nat.id|]. apply in_seq. lia. }
  specialize (A n Hin). destruct (dec6 (enc6 n)); [|discriminate]. apply N.eqb_eq in A. congruence.
Qed.

Lemma enc6_not_pad_all : forallb (fun n => negb (Byte.eqb (enc6 n) pad)) sextets = true.
Proof. vm_compute. reflexivity. Qed.

Require Import ZifyN ZifyBool.
Ltac Zify.zify_post_hook ::= Z.div_mod_to_equations.

Lemma enc6_not_pad n : n < 64 -> Byte.eqb (enc6 n) pad = false.
Proof.
  intros H. pose proof enc6_not_pad_all as A. rewrite forallb_forall in A.
  assert (In n sextets) as Hin.
  { unfold sextets. apply in_map_iff. exists (N.to_nat n). split; [apply N2Nat.id|]. apply in_seq. lia. }
  specialize (A n Hin). destruct (Byte.eqb (enc6 n) pad); [discriminate|reflexivity].
Qed.

Lemma byte_of_to_N x : Byte.of_N (b2n x) = Some x.
Proof. apply Byte.of_to_N. Qed.

Lemma bytes_ind3 (P : bytes -> Prop) :
  P [] -> (forall a, P [a]) -> (forall a b, P [a; b]) ->
  (forall a b c t, P t -> P (a :: b :: c :: t)) -> forall l, P l.
Proof.
  intros H0 H1 H2 H3.
  fix IH 1. intros [|a [|b [|c t]]]; [exact H0|exact (H1 a)|exact (H2 a b)|exact (H3 a b c t (IH t))].
Qed.

Lemma group3 a b c :
  let n := b2n a * 65536 + b2n b * 256 + b2n c in
  let s0 := n / 262144 in let s1 := (n / 4096) mod 64 in let s2 := (n / 64) mod 64 in let s3 := n mod 64 in
  s0 < 64 /\ s1 < 64 /\ s2 < 64 /\ s3 < 64 /\
  let n' := s0 * 262144 + s1 * 4096 + s2 * 64 + s3 in
  n' / 65536 = b2n a /\ (n' / 256) mod 256 = b2n b /\ n' mod 256 = b2n c.
Proof.
  pose proof (b2n_bounded a). pose proof (b2n_bounded b). pose proof (b2n_bounded c).
  cbv zeta. repeat split; lia.
Qed.

Theorem b64_decode_encode l : b64_decode (b64_encode l) = Some l.
Proof.
  induction l as [|a|a b|a b c t IH] using bytes_ind3.
  - reflexivity.
  - cbn [b64_encode]. pose proof (b2n_bounded a).
    set (n := b2n a * 16).
    assert (n / 64 < 64 /\ n mod 64 < 64 /\ (n mod 64) mod 16 = 0 /\ (n / 64) * 4 + (n mod 64) / 16 = b2n a) as (A1 & A2 & A3 & A4) by (subst n; repeat split; lia).
    cbn [b64_decode]. rewrite (Byte.byte_dec_lb (eq_refl pad)).
    rewrite !dec6_enc6 by assumption. rewrite A3, A4. cbn [N.eqb]. rewrite byte_of_to_N. reflexivity.
  - cbn [b64_encode]. pose proof (b2n_bounded a). pose proof (b2n_bounded b).
    set (n := b2n a * 1024 + b2n b * 4).
    assert (n / 4096 < 64 /\ (n / 64) mod 64 < 64 /\ n mod 64 < 64 /\ (n mod 64) mod 4 = 0 /\
            let m := n / 4096 * 4096 + (n / 64) mod 64 * 64 + n mod 64 in
            m / 1024 = b2n a /\ (m / 4) mod 256 = b2n b) as (A1 & A2 & A3 & A4 & A5 & A6)
      by (subst n; cbv zeta; repeat split; lia).
    cbn [b64_decode]. rewrite (enc6_not_pad _ A3). rewrite (Byte.byte_dec_lb (eq_refl pad)).
    rewrite !dec6_enc6 by assumption. rewrite A4. cbn [N.eqb]. cbv zeta. rewrite A5, A6, !byte_of_to_N. reflexivity.
  - cbn [b64_encode]. destruct (group3 a b c) as (S0 & S1 & S2 & S3 & R1 & R2 & R3). cbv zeta in *.
    set (n := b2n a * 65536 + b2n b * 256 + b2n c) in *.
    destruct (b64_encode t) as [|x xs] eqn:Et.
    + (* t must be [] ; IH gives decode [] = Some t *)
      cbn [b64_decode] in IH. inversion IH; subst t.
      cbn [b64_decode]. rewrite (enc6_not_pad _ S2), (enc6_not_pad _ S3).
      rewrite !dec6_enc6 by assumption. cbv zeta. rewrite R1, R2, R3, !byte_of_to_N. reflexivity.
    + change (b64_decode (enc6 (n / 262144) :: enc6 ((n / 4096) mod 64) :: enc6 ((n / 64) mod 64) :: enc6 (n mod 64) :: x :: xs))
        with (match dec6 (enc6 (n / 262144)), dec6 (enc6 ((n / 4096) mod 64)), dec6 (enc6 ((n / 64) mod 64)), dec6 (enc6 (n mod 64)), b64_decode (x :: xs) with
              | Some s0, Some s1, Some s2, Some s3, Some r =>
                  let n := s0 * 262144 + s1 * 4096 + s2 * 64 + s3 in
                  match Byte.of_N (n / 65536), Byte.of_N ((n / 256) mod 256), Byte.of_N (n mod 256) with
                  | Some a, Some b, Some c => Some (a :: b :: c :: r) | _, _, _ => None end
              | _, _, _, _, _ => None end).
      rewrite !dec6_enc6 by assumption. rewrite IH. cbv zeta. rewrite R1, R2, R3, !byte_of_to_N. reflexivity.
Qed.


Corollary b64_encode_inj a b : b64_encode a = b64_encode b -> a = b.
Proof. intros H. assert (Some a = Some b) as E by (rewrite <- !b64_decode_encode, H; reflexivity). inversion E. reflexivity. Qed.
