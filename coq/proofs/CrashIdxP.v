(* CrashIdxP.v — C04: a keyed write or a removal interrupted at any point (any step boundary, the index append torn
   at any byte length) leaves every lookup at exactly its previous or exactly its new value; the index area stays
   well-shaped (so every later history behaves per C05); a visible new entry has its content completely stored. *)
From CC Require Import Bytes Codec Utf8 Lines Json Sri Record Fs Prog Api Crash
  BytesP CodecP LinesP FsP ProgP SriP RecordP IndexP ReadP WriteP CommitP RemoveP CrashP.
From Coq Require Import Lia.
Local Open Scope N_scope.

(* ---------- what a step can touch ---------- *)
Lemma mkdirs_frame f ps l :
  ~ In l (map InCache ps) ->
  lookup (snd (mkdirs f ps)) l = lookup f l /\ Forall (fun g => lookup g l = lookup f l) (mkdirs_states f ps).
Proof.
  revert f. induction ps as [|p ps IH]; intros f Hn; cbn [mkdirs mkdirs_states snd]; [split; [reflexivity|constructor]|].
  cbn [map In] in Hn.
  destruct (lookup f (InCache p)) as [[d| |t]|]; cbn [snd]; try (split; [reflexivity|constructor]).
  - apply IH. tauto.
  - destruct (IH (update f (InCache p) Dir)) as [H1 H2]; [tauto|].
    assert (lookup (update f (InCache p) Dir) l = lookup f l) as E by (apply lookup_update_neq; tauto).
    split; [rewrite H1; exact E|]. constructor; [exact E|].
    eapply Forall_impl; [|exact H2]. intros g Hg. cbn beta in Hg. rewrite Hg. exact E.
Qed.

Lemma exec_frame c f l :
  ~ may_touch c l ->
  lookup (snd (exec c f)) l = lookup f l /\ Forall (fun g => lookup g l = lookup f l) (mid_states c f).
Proof.
  intros Hn.
  assert (forall l0 x, l <> l0 -> lookup (update f l0 x) l = lookup f l) as Hup by (intros; apply lookup_update_neq; congruence).
  assert (forall l0 (X : Type) (xs : list X) (g : X -> node), l <> l0 -> Forall (fun h => lookup h l = lookup f l) (map (fun p => update f l0 (g p)) xs)) as Hmap.
  { intros l0 X xs g Hne. apply Forall_forall. intros h Hh. apply in_map_iff in Hh as [p [<- _]]. apply Hup. exact Hne. }
  destruct c; cbn [may_touch] in Hn; unfold exec, mid_states.
  - apply mkdirs_frame. exact Hn.
  - destruct (is_dir f tmp_dir); cbn [snd]; (split; [|constructor]); [|reflexivity]. apply Hup. intro E. apply Hn. eexists. exact E.
  - destruct (lookup f l0) as [[d| |t]|]; try (split; [reflexivity|constructor]).
    destruct (n =? 0); cbn [snd]; (split; [|constructor]); [reflexivity|apply Hup; exact Hn].
  - destruct (lookup f l0) as [[d0| |t]|]; try (split; [reflexivity|constructor]).
    destruct (off + lenN d <=? lenN d0); cbn [snd]; split; try reflexivity; try constructor; [apply Hup; exact Hn|].
    apply (Hmap l0 bytes _ (fun p => File (store_at d0 off p))). exact Hn.
  - destruct (lookup f l0) as [[d| |t]|]; cbn [snd]; (split; [|constructor]); try reflexivity. apply Hup; exact Hn.
  - destruct (lookup f l0) as [[d0| |t]|]; cbn [snd]; split; try reflexivity; try constructor; [apply Hup; exact Hn|].
    apply (Hmap l0 bytes _ (fun p => File (d0 ++ p))). exact Hn.
  - destruct (lookup f src) as [n|]; [|split; [reflexivity|constructor]].
    destruct (parent_ok f dst); [|split; [reflexivity|constructor]].
    assert (lookup (update (remove f src) dst n) l = lookup f l) as E.
    { rewrite lookup_update_neq by (intro; subst; tauto). apply lookup_remove_neq. intro; subst; tauto. }
    destruct (lookup f dst) as [[d| |t]|]; cbn [snd]; (split; [|constructor]); try exact E. reflexivity.
  - destruct (lookup f l0) as [[d| |t]|]; cbn [snd]; (split; [|constructor]); try reflexivity; apply lookup_remove_neq; congruence.
  - destruct (lookup f l0) as [[d| |t]|]; cbn [snd]; try (split; [reflexivity|constructor]).
    destruct (parent_ok f l0); cbn [snd]; (split; [|constructor]); [apply Hup; exact Hn|reflexivity].
  - destruct (lookup f l0) as [[d0| |t]|]; cbn [snd]; split; try reflexivity; try constructor; [apply Hup; exact Hn|].
    apply (Hmap l0 bytes _ (fun p => File (d0 ++ p))). exact Hn.
  - destruct (resolve f l0) as [[d| |t]|]; split; try reflexivity; constructor.
  - split; [reflexivity|constructor].
  - destruct (lookup f src) as [[d| |t]|]; try (split; [reflexivity|constructor]);
      (destruct (lookup f dst); [split; [reflexivity|constructor]|]);
      (destruct (parent_ok f dst); cbn [snd]; (split; [|constructor]); [apply Hup; exact Hn|reflexivity]).
  - destruct (lookup f dst); [split; [reflexivity|constructor]|].
    destruct (parent_ok f dst); cbn [snd]; (split; [|constructor]); [apply Hup; exact Hn|reflexivity].
  - destruct (resolve f src) as [[d| |t]|]; try (split; [reflexivity|constructor]).
    destruct (lookup f dst) as [[d0| |t0]|]; try (split; [reflexivity|constructor]).
    all: destruct (parent_ok f dst); cbn [snd]; split; try reflexivity; try (constructor; fail).
    all: try (apply Hup; exact Hn).
    all: apply (Hmap dst bytes _ (fun p => File p)); exact Hn.
  - destruct (resolve f src) as [[d| |t]|]; split; try reflexivity; constructor.
  - destruct (is_dir f p); split; try reflexivity; constructor.
  - destruct (is_dir f p); split; try reflexivity; constructor.
  - destruct (lookup f (InCache p)) as [[d| |t]|]; cbn [snd]; (split; [|constructor]); try reflexivity.
    rewrite (lookup_filter_key (fun l => negb (under p l))). destruct (under p l); [tauto|reflexivity].
Qed.

(* a region of the tree that no step of a run touches is the same at every crash state *)
Theorem untouched_crash {A} (R : loc -> Prop) (p : prog A) f :
  steps_ok (fun c _ => forall l, may_touch c l -> ~ R l) p f ->
  Forall (fun g => forall l, R l -> lookup g l = lookup f l) (crash_states p f) /\
  (forall l, R l -> lookup (snd (run p f)) l = lookup f l).
Proof.
  intros Hs.
  apply (crash_invariant (fun g => forall l, R l -> lookup g l = lookup f l) (fun c _ => forall l, may_touch c l -> ~ R l)); [|reflexivity|exact Hs].
  intros c g Hg Hc. split.
  - intros l Hl. rewrite <- (Hg l Hl). apply exec_frame. intro Ht. exact (Hc l Ht Hl).
  - apply Forall_forall. intros h Hh l Hl. rewrite <- (Hg l Hl).
    destruct (exec_frame c g l) as [_ Hm]; [intro Ht; exact (Hc l Ht Hl)|].
    rewrite Forall_forall in Hm. exact (Hm h Hh).
Qed.

Section Ci.
Variable hash : algo -> bytes -> bytes.
Hypothesis HL : HashLen hash.

(* ---------- a torn record contributes nothing ---------- *)
(* no proper prefix of the JSON text carries the checksum of the whole text (a property of the hash on this one
   string: a theorem cannot exclude such a collision, so it is a hypothesis, visible in every statement) *)
Definition PrefixFree (text : bytes) : Prop :=
  forall p q, q <> [] -> text = p ++ q -> hash_entry hash p <> hash_entry hash text.

Lemma proper_prefixes_spec s p : In p (proper_prefixes s) -> exists q, p <> [] /\ q <> [] /\ s = p ++ q.
Proof.
  revert p. induction s as [|b s IH]; intros p; cbn [proper_prefixes]; [intros []|].
  destruct s as [|b2 s]; [intros []|]. intros [<-|Hin].
  - exists (b2 :: s). repeat split; discriminate.
  - apply in_map_iff in Hin as [p' [<- Hp']]. destruct (IH p' Hp') as [q [_ [Hq E]]].
    exists q. split; [discriminate|]. split; [exact Hq|]. rewrite E. reflexivity.
Qed.

Lemma no_tab_contrib p : (forall x, In x p -> Byte.eqb x tab = false) -> contrib hash p = [].
Proof. intros H. unfold contrib, entry_of_line. rewrite (split_no_sep tab p H). destruct (valid_utf8 p); reflexivity. Qed.

Lemma torn_contrib text p q :
  no_ctrl text -> PrefixFree text -> q <> [] -> record_line hash text = p ++ q -> contrib hash p = [].
Proof.
  intros Hc Hpf Hq E. destruct (no_ctrl_facts text Hc) as [_ [Htab _]].
  unfold record_line in E. symmetry in E. apply app_eq_app in E as [l [[E1 E2]|[E1 E2]]].
  - (* p = hash ++ l, tab :: text = l ++ q *)
    destruct l as [|t l].
    + rewrite app_nil_r in E1. subst p. apply no_tab_contrib. intros x Hx. apply (hex_encode_clean _ _ Hx).
    + cbn [app] in E2. inversion E2 as [[Et Etext]]. subst t. subst p.
      unfold contrib, entry_of_line.
      rewrite split_two; [|intros x Hx; apply (hex_encode_clean _ _ Hx)|intros x Hx; apply Htab; rewrite Etext; apply in_or_app; left; exact Hx].
      assert (bytes_eqb (hash_entry hash l) (hash_entry hash text) = false) as ->.
      { apply bytes_eqb_neq. apply (Hpf l q Hq Etext). }
      destruct (valid_utf8 _); reflexivity.
  - (* hash = p ++ l *)
    apply no_tab_contrib. intros x Hx. apply (hex_encode_clean (hash Sha256 text) x).
    change (hex_encode (hash Sha256 text)) with (hash_entry hash text). rewrite E1. apply in_or_app. left. exact Hx.
Qed.

(* the bytes of a torn record: no newline after the first byte, no CR anywhere *)
Lemma record_line_no_cr text x : no_ctrl text -> In x (record_line hash text) -> Byte.eqb x cr = false /\ Byte.eqb x nl = false.
Proof.
  intros Hc Hx. destruct (no_ctrl_facts text Hc) as [Hnl [_ Hcr]]. unfold record_line in Hx.
  apply in_app_or in Hx as [Hx|[<-|Hx]]; [split; apply (hex_encode_clean _ _ Hx)|split; reflexivity|split; [apply Hcr|apply Hnl]; exact Hx].
Qed.

Lemma ends_cr_no_cr s : (forall x, In x s -> Byte.eqb x cr = false) -> ends_cr s = false.
Proof.
  intros H. unfold ends_cr. destruct (rev s) as [|c r] eqn:E; [reflexivity|]. apply H. apply in_rev. rewrite E. left. reflexivity.
Qed.

(* appending any proper prefix of a record to a bucket changes no entry and keeps the bucket appendable *)
Lemma torn_append d m p :
  no_pending_cr d -> wf_rec hash m -> PrefixFree (encode_smeta m) -> In p (proper_prefixes (record_bytes hash m)) ->
  entries hash (d ++ p) = entries hash d /\ no_pending_cr (d ++ p).
Proof.
  intros Hd [Hc [_ _]] Hpf Hin. destruct (proper_prefixes_spec _ _ Hin) as [q [Hp [Hq E]]].
  unfold record_bytes in E. destruct p as [|b p']; [congruence|]. cbn [app] in E. inversion E as [[Eb El]]. subst b.
  assert (forall x, In x p' -> Byte.eqb x cr = false /\ Byte.eqb x nl = false) as Hclean.
  { intros x Hx. apply (record_line_no_cr (encode_smeta m) x Hc). rewrite El. apply in_or_app. left. exact Hx. }
  split.
  - rewrite entries_app_line; [|intros x Hx; apply Hclean; exact Hx|exact Hd].
    rewrite (torn_contrib (encode_smeta m) p' q Hc Hpf Hq El). apply app_nil_r.
  - apply no_pending_cr_app; [intros x Hx; apply Hclean; exact Hx|apply ends_cr_no_cr; intros x Hx; apply Hclean; exact Hx].
Qed.

(* ---------- trees with the same index meaning ---------- *)
Definition SameIdx (f c : fs) : Prop :=
  IndexInv c /\
  (forall k, entries hash (bucket_bytes hash c k) = entries hash (bucket_bytes hash f k)) /\
  (forall l, ~ is_index l -> lookup c l = lookup f l).

Lemma SameIdx_abs f c k : SameIdx f c -> abs_idx hash c k = abs_idx hash f k.
Proof. intros [_ [H _]]. unfold abs_idx. rewrite H. reflexivity. Qed.
Lemma SameIdx_refl f : IndexInv f -> SameIdx f f.
Proof. intros H. split; [exact H|]. split; reflexivity. Qed.
Lemma SameIdx_trans f g h : SameIdx f g -> SameIdx g h -> SameIdx f h.
Proof. intros [_ [A1 A2]] [B0 [B1 B2]]. split; [exact B0|]. split; [intros k; rewrite B1; apply A1|intros l Hl; rewrite B2 by exact Hl; apply A2; exact Hl]. Qed.

(* new directories (depth <= 2) in the index area change nothing *)
Lemma SameIdx_dirs f c :
  IndexInv f ->
  (forall l, lookup c l = lookup f l \/
             (lookup f l = None /\ lookup c l = Some Dir /\ exists p, l = InCache (index_dir :: p) /\ (List.length p <= 2)%nat)) ->
  SameIdx f c.
Proof.
  intros Hinv Hfr. split; [|split].
  - intros p n Hn. destruct (Hfr (InCache (index_dir :: p))) as [E|[_ [E [q [Eq Hlen]]]]].
    + rewrite E in Hn. apply (Hinv p n Hn).
    + rewrite E in Hn. inversion Hn; subst n. inversion Eq; subst q. split; [reflexivity|]. intros H3. rewrite H3 in Hlen. cbn in Hlen. lia.
  - intros k. unfold bucket_bytes. destruct (bucket_path_shape hash k) as [a [b [c0 Eb]]]. rewrite Eb.
    destruct (Hfr (InCache [index_dir; a; b; c0])) as [E|[_ [_ [q [Eq Hlen]]]]]; [rewrite E; reflexivity|].
    inversion Eq; subst q. cbn in Hlen. lia.
  - intros l Hl. destruct (Hfr l) as [E|[_ [_ [q [Eq _]]]]]; [exact E|]. exfalso. apply Hl. exists q. exact Eq.
Qed.

Lemma mkdirs_index_frame f ps :
  (forall p, In p ps -> exists q, p = index_dir :: q /\ (List.length q <= 2)%nat) ->
  (forall l, lookup (snd (mkdirs f ps)) l = lookup f l \/
     (lookup f l = None /\ lookup (snd (mkdirs f ps)) l = Some Dir /\ exists p, l = InCache (index_dir :: p) /\ (List.length p <= 2)%nat)) /\
  Forall (fun g => forall l, lookup g l = lookup f l \/
     (lookup f l = None /\ lookup g l = Some Dir /\ exists p, l = InCache (index_dir :: p) /\ (List.length p <= 2)%nat)) (mkdirs_states f ps).
Proof.
  revert f. induction ps as [|p ps IH]; intros f Hps; cbn [mkdirs mkdirs_states snd].
  - split; [intros l; left; reflexivity|constructor].
  - assert (forall p0, In p0 ps -> exists q, p0 = index_dir :: q /\ (List.length q <= 2)%nat) as Hps' by (intros; apply Hps; right; assumption).
    destruct (lookup f (InCache p)) as [[d| |t]|] eqn:E; cbn [snd]; try (split; [intros l; left; reflexivity|constructor]).
    + apply IH. exact Hps'.
    + destruct (IH (update f (InCache p) Dir) Hps') as [H1 H2].
      assert (forall g, (forall l, lookup g l = lookup (update f (InCache p) Dir) l \/
                 (lookup (update f (InCache p) Dir) l = None /\ lookup g l = Some Dir /\ exists p0, l = InCache (index_dir :: p0) /\ (List.length p0 <= 2)%nat)) ->
               forall l, lookup g l = lookup f l \/
                 (lookup f l = None /\ lookup g l = Some Dir /\ exists p0, l = InCache (index_dir :: p0) /\ (List.length p0 <= 2)%nat)) as Hcomp.
      { intros g Hg l. destruct (loc_eq_dec (InCache p) l) as [<-|N].
        - right. split; [exact E|]. destruct (Hps p (or_introl eq_refl)) as [q [Eq Hq]].
          destruct (Hg (InCache p)) as [G|[G _]]; [|rewrite lookup_update_eq in G; discriminate].
          rewrite lookup_update_eq in G. split; [exact G|]. exists q. split; [rewrite Eq; reflexivity|exact Hq].
        - destruct (Hg l) as [G|[G1 G2]]; rewrite lookup_update_neq in * by exact N; [left; exact G|right; split; assumption]. }
      split; [apply Hcomp; exact H1|]. constructor.
      * apply Hcomp. intros l. left. reflexivity.
      * eapply Forall_impl; [|exact H2]. intros g Hg. apply Hcomp. exact Hg.
Qed.

(* ---------- straight-line programs ---------- *)
Definition seq_prog {V} (cs : list sys) (v : V) : prog (res V) :=
  fold_right (fun c k => rbind (step_ok c) (fun _ => k)) (Ret (Ok v)) cs.
Definition is_err (r : ret) : bool := match r with RErr _ => true | _ => false end.

Lemma run_seq_cons {V} c cs (v : V) f :
  run (seq_prog (c :: cs) v) f =
  if is_err (fst (exec c f)) then (Err EIoErr, snd (exec c f)) else run (seq_prog cs v) (snd (exec c f)).
Proof.
  cbn [seq_prog fold_right]. unfold rbind, step_ok. cbn [bind run]. destruct (exec c f) as [r f1]. cbn [fst snd].
  destruct r; reflexivity.
Qed.

(* [R g fin]: what we want of crash state g when the run ends in fin *)
Lemma crash_seq_cons {V} (R : fs -> fs -> Prop) c cs (v : V) f :
  (forall fin, R f fin) -> (forall fin, Forall (fun g => R g fin) (mid_states c f)) ->
  (is_err (fst (exec c f)) = true -> R (snd (exec c f)) (snd (exec c f))) ->
  (is_err (fst (exec c f)) = false ->
     Forall (fun g => R g (snd (run (seq_prog cs v) (snd (exec c f))))) (crash_states (seq_prog cs v) (snd (exec c f)))) ->
  Forall (fun g => R g (snd (run (seq_prog (c :: cs) v) f))) (crash_states (seq_prog (c :: cs) v) f).
Proof.
  intros H0 Hmid Herr Hok. rewrite run_seq_cons.
  cbn [seq_prog fold_right]. unfold rbind, step_ok. cbn [bind crash_states].
  destruct (exec c f) as [r f1]. cbn [fst snd] in *.
  constructor; [apply H0|]. apply Forall_app. split; [apply Hmid|].
  destruct r; cbn [is_err] in *; cbn [crash_states]; try (apply Hok; reflexivity).
  constructor; [apply Herr; reflexivity|constructor].
Qed.

Lemma insert_is_seq key o now :
  insert hash key o now =
  seq_prog [MkdirAll (parent (bucket_path hash key)); CreateIfMissing (InCache (bucket_path hash key));
            Append (InCache (bucket_path hash key)) (record_bytes hash (smeta_of key o now))]
           (match o_sri o with Some i => i | None => deadbeef end).
Proof. reflexivity. Qed.

(* ---------- the index insert at every crash state ---------- *)
Theorem insert_crash_atomic f key o now :
  IndexInv f -> wf_rec hash (smeta_of key o now) -> PrefixFree (encode_smeta (smeta_of key o now)) ->
  Forall (fun c => SameIdx f c \/ c = snd (run (insert hash key o now) f)) (crash_states (insert hash key o now) f).
Proof.
  intros Hinv Hwf Hpf. set (sm := smeta_of key o now) in *. rewrite insert_is_seq. fold sm.
  destruct (bucket_path_shape hash key) as [a [b [c0 Eb]]]. rewrite Eb.
  set (bl := InCache [index_dir; a; b; c0]).
  set (R := fun (g fin : fs) => SameIdx f g \/ g = fin).
  assert (forall p, In p (prefixes (parent [index_dir; a; b; c0])) -> exists q, p = index_dir :: q /\ (List.length q <= 2)%nat) as Hps.
  { rewrite prefixes_parent_bucket. intros p [<-|[<-|[<-|[]]]]; eexists; (split; [reflexivity|cbn; lia]). }
  destruct (mkdirs_index_frame f _ Hps) as [Hf1 Hmid].
  assert (SameIdx f (snd (exec (MkdirAll (parent [index_dir; a; b; c0])) f))) as S1.
  { rewrite exec_mkdirall. apply SameIdx_dirs; assumption. }
  apply (crash_seq_cons R).
  - intros fin. left. apply SameIdx_refl. exact Hinv.
  - intros fin. unfold mid_states. eapply Forall_impl; [|exact Hmid]. intros g Hg. left. apply SameIdx_dirs; assumption.
  - intros _. left. exact S1.
  - intros _. set (f1 := snd (exec (MkdirAll (parent [index_dir; a; b; c0])) f)) in *.
    pose proof S1 as [Hinv1 _].
    assert (SameIdx f1 (snd (exec (CreateIfMissing bl) f1))) as S2.
    { unfold exec. destruct (lookup f1 bl) as [[d| |t]|] eqn:El; cbn [snd]; try (apply SameIdx_refl; exact Hinv1).
      destruct (parent_ok f1 bl); cbn [snd]; [|apply SameIdx_refl; exact Hinv1].
      split; [|split].
      - intros p n Hn. rewrite lookup_update in Hn. destruct (loc_eqb bl (InCache (index_dir :: p))) eqn:E.
        + apply loc_eqb_eq in E. inversion E; subst p. inversion Hn; subst n. split; [cbn; lia|]. intros _. exists []. split; [reflexivity|apply no_pending_cr_nil].
        + apply (Hinv1 p n Hn).
      - intros k. unfold bucket_bytes. rewrite lookup_update. destruct (loc_eqb bl (InCache (bucket_path hash k))) eqn:E.
        + apply loc_eqb_eq in E. rewrite <- E, El. reflexivity.
        + reflexivity.
      - intros l Hl. apply lookup_update_neq. intros <-. apply Hl. eexists. reflexivity. }
    apply (crash_seq_cons R).
    + intros fin. left. exact S1.
    + intros fin. constructor.
    + intros _. left. eapply SameIdx_trans; eauto.
    + intros _. set (f2 := snd (exec (CreateIfMissing bl) f1)) in *.
      assert (SameIdx f f2) as S2' by (eapply SameIdx_trans; eauto). pose proof S2' as [Hinv2 _].
      apply (crash_seq_cons R).
      * intros fin. left. exact S2'.
      * intros fin. unfold mid_states. destruct (lookup f2 bl) as [[d| |t]|] eqn:El; try constructor.
        apply Forall_forall. intros g Hg. apply in_map_iff in Hg as [p [<- Hp]]. left. eapply SameIdx_trans; [exact S2'|].
        assert (no_pending_cr d) as Hd by (destruct (Hinv2 [a; b; c0] _ El) as [_ H]; destruct (H eq_refl) as [d' [E' Hd']]; inversion E'; subst; exact Hd').
        destruct (torn_append d sm p Hd Hwf Hpf Hp) as [T1 T2].
        split; [|split].
        -- intros q n Hn. rewrite lookup_update in Hn. destruct (loc_eqb bl (InCache (index_dir :: q))) eqn:E.
           ++ apply loc_eqb_eq in E. inversion E; subst q. inversion Hn; subst n. split; [cbn; lia|]. intros _. eexists. split; [reflexivity|exact T2].
           ++ apply (Hinv2 q n Hn).
        -- intros k. unfold bucket_bytes. rewrite lookup_update. destruct (loc_eqb bl (InCache (bucket_path hash k))) eqn:E.
           ++ apply loc_eqb_eq in E. rewrite <- E, El. exact T1.
           ++ reflexivity.
        -- intros l Hl. apply lookup_update_neq. intros <-. apply Hl. eexists. reflexivity.
      * intros _. right. reflexivity.
      * intros _. cbn [seq_prog fold_right crash_states run snd]. constructor; [right; reflexivity|constructor].
Qed.

(* the same in terms of lookups: at every crash state of an index insert / tombstone, every key is at its old value, or
   every key is at its value after the complete operation; the index area is well-shaped (so every later history behaves
   per C05) and no location outside the index area has changed *)
Corollary insert_crash_lookups f key o now :
  IndexInv f -> wf_rec hash (smeta_of key o now) -> wf_sri_opt o -> PrefixFree (encode_smeta (smeta_of key o now)) ->
  Forall (fun c => IndexInv c /\ (forall l, ~ is_index l -> lookup c l = lookup f l) /\
                   ((forall k, abs_idx hash c k = abs_idx hash f k) \/
                    (forall k, abs_idx hash c k = if bytes_eqb k key then new_entry key o now else abs_idx hash f k)))
         (crash_states (insert hash key o now) f).
Proof.
  intros Hinv Hwf Hs Hpf. eapply Forall_impl; [|exact (insert_crash_atomic f key o now Hinv Hwf Hpf)].
  intros c [S| ->].
  - destruct S as [Hi [He Hn]]. split; [exact Hi|]. split; [exact Hn|]. left. intros k. unfold abs_idx. rewrite He. reflexivity.
  - destruct (insert_abs hash f key o now Hinv Hwf Hs) as [Hi [_ [Habs Hfr]]]. split; [exact Hi|]. split; [|right; exact Habs].
    intros l Hl. apply Hfr. intros p E. apply Hl. exists p. exact E.
Qed.

(* ---------- the whole keyed commit ---------- *)
Definition noidx (c : sys) : Prop := forall l, may_touch c l -> ~ is_index l.

Lemma content_prefix_not_index a d q : In q (prefixes (parent (cpath hash a d))) -> ~ is_index (InCache q).
Proof.
  rewrite cpath_prefixes. cbv zeta. intros Hq [p E]. destruct Hq as [<-|[<-|[<-|[<-|[]]]]]; inversion E as [[H1 H2]]; vm_compute in H1; discriminate.
Qed.

Lemma close_writer_noidx w : (exists n, w_tmp w = InCache [bs "tmp"; n]) -> all_steps noidx (close_writer hash w).
Proof.
  intros [n Hn].
  assert (~ is_index (w_tmp w)) as Ht by (intro H; eapply index_not_tmp; [exact H|right; exists n; exact Hn]).
  unfold close_writer. rewrite (content_path_computed hash _ _ HL). set (cp := cpath hash (w_algo w) (w_data w)).
  assert (~ is_index (InCache cp)) as Hcp by (intro H; eapply index_not_content; [exact H|eexists; reflexivity]).
  assert (forall A (r : res A), all_steps noidx (unlink_quiet (w_tmp w) r)) as Hunl.
  { intros A r. unfold unlink_quiet. cbn [all_steps]. split; [intros lx ->; exact Ht|intros; exact I]. }
  unfold trim, publish. apply all_steps_bind;
    [destruct (w_map w) as [sz|]; [destruct (w_pos w <? sz)|]; try exact I; apply all_steps_step_ok; intros lx ->; exact Ht|].
  intros rt; destruct rt; try apply Hunl.
  cbn [all_steps]. split.
  - intros lx Hl. cbn [may_touch] in Hl. apply in_map_iff in Hl as [q [<- Hq]]. exact (content_prefix_not_index _ _ q Hq).
  - intros r0. destruct r0; try apply Hunl.
    all: cbn [all_steps]; split; [intros lx [->| ->]; assumption|].
    all: intros r; destruct r; try exact I.
    all: cbn [all_steps]; split; [intros lx []|]; intros r2; destruct r2 as [| |[|]| | | |]; apply Hunl.
Qed.

Theorem commit_keyed_crash f w now key final :
  WInv f w -> CacheInv f -> w_key w = Some key ->
  declared_ok (w_opts w) (sri_of hash (w_algo w) (w_data w)) = Some final ->
  size_ok (w_opts w) (lenN (w_data w)) = true ->
  let o' := commit_opts (w_opts w) final (lenN (w_data w)) in
  wf_rec hash (smeta_of key o' now) -> parse_entry_sri (sri_text final) = Some final ->
  PrefixFree (encode_smeta (smeta_of key o' now)) ->
  Forall (fun c =>
            IndexInv c /\
            (forall k, k <> key -> abs_idx hash c k = abs_idx hash f k) /\
            (abs_idx hash c key = abs_idx hash f key \/
             (abs_idx hash c key = new_entry key o' now /\
              lookup c (InCache (cpath hash (w_algo w) (w_data w))) = Some (File (w_data w)))))
         (crash_states (commit hash w now) f).
Proof.
  intros Hw Hinv Hk Hd Hs o' Hwf Hps Hpf.
  destruct (close_writer_inv hash HL f w Hw Hinv) as [f1 [Hclose [[Hi1 [Hc1 Ht1]] [Hcp [Htmp [Hfr Hfrc]]]]]].
  unfold commit, rbind. apply crash_states_bind. split.
  - (* publishing the content: the index area is not touched *)
    destruct (untouched_crash is_index (close_writer hash w) f) as [Hall _].
    { apply (all_steps_ok noidx); [intros c g H; exact H|]. apply close_writer_noidx. destruct Hw as [Hn _]. exact Hn. }
    eapply Forall_impl; [|exact Hall]. intros c Hc. cbn beta in Hc.
    split; [apply (IndexInv_frame f); [exact (proj1 Hinv)|exact Hc]|].
    split; [intros k _; apply (abs_idx_frame hash f c Hc)|left; apply (abs_idx_frame hash f c Hc)].
  - rewrite Hclose. cbn [fst snd].
    pose proof (commit_rest_eq hash w now (sri_of hash (w_algo w) (w_data w))) as Erest. cbv zeta in Erest. rewrite Erest.
    assert (commit_rest hash w now (sri_of hash (w_algo w) (w_data w)) = insert hash key o' now) as ->.
    { unfold commit_rest. rewrite Hd, Hk. destruct Hw as [_ [Hwr _]]. rewrite Hwr. unfold size_ok in Hs.
      destruct (o_size (w_opts w)) as [s|]; [rewrite Hs|]; reflexivity. }
    assert (wf_sri_opt o') as Hso by (intros i Hi; unfold o', commit_opts in Hi; cbn [o_sri] in Hi; inversion Hi; subst i; exact Hps).
    assert (forall k, abs_idx hash f1 k = abs_idx hash f k) as Habs1.
    { apply abs_idx_frame. intros l Hl. apply Hfr.
      - intro. eapply index_not_content; eauto.
      - intro E. destruct Hw as [[n Hn] _]. eapply index_not_tmp; [exact Hl|]. right. exists n. congruence. }
    eapply Forall_impl; [|exact (insert_crash_lookups f1 key o' now Hi1 Hwf Hso Hpf)].
    intros c [Hic [Hnon Hcases]]. split; [exact Hic|].
    destruct Hcases as [Hold|Hnew].
    + split; [intros k _; rewrite Hold; apply Habs1|left; rewrite Hold; apply Habs1].
    + split.
      * intros k Hne. rewrite Hnew. apply bytes_eqb_neq in Hne. rewrite Hne. apply Habs1.
      * right. split; [rewrite Hnew, bytes_eqb_refl; reflexivity|].
        rewrite Hnon; [exact Hcp|]. intro H. eapply index_not_content; [exact H|eexists; reflexivity].
Qed.

(* removal: the tombstone is an index insert *)
Theorem delete_crash f key now :
  IndexInv f -> wf_rec hash (smeta_of key wopts0 now) -> PrefixFree (encode_smeta (smeta_of key wopts0 now)) ->
  Forall (fun c => IndexInv c /\ (forall l, ~ is_index l -> lookup c l = lookup f l) /\
                   ((forall k, abs_idx hash c k = abs_idx hash f k) \/
                    (forall k, abs_idx hash c k = if bytes_eqb k key then None else abs_idx hash f k)))
         (crash_states (delete hash key now) f).
Proof.
  intros Hinv Hwf Hpf. unfold delete, rbind. apply crash_states_bind. split.
  - apply (insert_crash_lookups f key wopts0 now Hinv Hwf); [intros i Hi; discriminate|exact Hpf].
  - destruct (insert_abs hash f key wopts0 now Hinv Hwf) as [Hi [Hres [Habs Hfr]]]; [intros i Hi; discriminate|].
    destruct (run (insert hash key wopts0 now) f) as [r f1]. cbn [fst snd] in *. subst r. cbn [crash_states].
    constructor; [|constructor]. split; [exact Hi|]. split; [|right; exact Habs].
    intros l Hl. apply Hfr. intros p E. apply Hl. exists p. exact E.
Qed.

End Ci.
