(* RemoveP.v — removals: tombstone (remove), remove_hash, remove_fully, clear.  Each removes exactly what it
   names; every other location of the tree (hence every other index entry and content file) is untouched. *)
From CC Require Import Bytes Codec Utf8 Lines Json Sri Record Fs Prog Api
  BytesP CodecP FsP ProgP SriP RecordP IndexP ReadP WriteP CommitP.
From Coq Require Import Lia.
Local Open Scope N_scope.

Section Rm.
Variable hash : algo -> bytes -> bytes.

(* ---------- remove / remove_sync: a tombstone record ---------- *)
Theorem remove_scope f key now :
  IndexInv f -> wf_rec hash (smeta_of key wopts0 now) ->
  let f' := snd (run (delete hash key now) f) in
  fst (run (delete hash key now) f) = Ok tt /\
  IndexInv f' /\
  (forall k, abs_idx hash f' k = if bytes_eqb k key then None else abs_idx hash f k) /\
  (forall l, (forall p, l <> InCache (index_dir :: p)) -> lookup f' l = lookup f l) /\
  (forall l, l <> InCache (bucket_path hash key) -> lookup f l <> None -> lookup f' l = lookup f l) /\
  entries hash (bucket_bytes hash f' key) = entries hash (bucket_bytes hash f key) ++ [smeta_of key wopts0 now].
Proof.
  intros Hinv Hwf f'.
  destruct (insert_run hash f key wopts0 now Hinv Hwf) as [f1 [Hrun [Hinv1 [Hb Ho]]]].
  assert (run (delete hash key now) f = (Ok tt, f1)) as Hd.
  { unfold delete, rbind. rewrite run_bind, Hrun. reflexivity. }
  subst f'. rewrite Hd. cbn [fst snd].
  destruct (insert_abs hash f key wopts0 now Hinv Hwf) as [_ [_ [Habs Hfr]]]; [intros i Hi; discriminate|].
  rewrite Hrun in Habs, Hfr. cbn [snd] in Habs, Hfr.
  split; [reflexivity|]. split; [exact Hinv1|]. split; [exact Habs|]. split; [exact Hfr|]. split.
  - intros l Hl Hsome. destruct (Ho l Hl) as [H|[H _]]; [exact H|contradiction].
  - unfold bucket_bytes at 1. rewrite Hb.
    assert (no_pending_cr (bucket_bytes hash f key)) as Hcr.
    { unfold bucket_bytes. destruct (bucket_lookup hash f key Hinv) as [Hn|[d [Hd' Hc]]]; [rewrite Hn; reflexivity|rewrite Hd'; exact Hc]. }
    exact (proj1 (entries_app_record hash _ _ Hcr Hwf)).
Qed.

(* the listing of the key's bucket loses exactly that key *)
Theorem remove_listing f key now m :
  IndexInv f -> wf_rec hash (smeta_of key wopts0 now) ->
  let f' := snd (run (delete hash key now) f) in
  In m (ls_bytes hash (bucket_bytes hash f' key)) <-> (In m (ls_bytes hash (bucket_bytes hash f key)) /\ m_key m <> key).
Proof.
  intros Hinv Hwf f'. destruct (remove_scope f key now Hinv Hwf) as [_ [_ [_ [_ [_ He]]]]].
  fold f' in He. unfold ls_bytes. rewrite !ls_iff_find. unfold ls_bytes. rewrite He, find_in_app.
  unfold find_step. cbn [smeta_of sm_key sm_integrity wopts0 o_sri option_map].
  destruct (bytes_eqb key (m_key m)) eqn:E.
  - apply bytes_eqb_eq in E. split; [discriminate|]. intros [_ H]. congruence.
  - apply bytes_eqb_neq in E. split; [intros H; split; [exact H|congruence]|intros [H _]; exact H].
Qed.

(* ---------- remove_hash: one unlink at the address's path ---------- *)
Lemma run_unlink l0 f :
  run (step_ok (Unlink l0)) f =
  match lookup f l0 with
  | Some Dir => (Err EIoErr, f)
  | Some _ => (Ok tt, remove f l0)
  | None => (Err EIoErr, f)
  end.
Proof. unfold step_ok. cbn [run]. unfold exec. destruct (lookup f l0) as [[d| |t]|]; reflexivity. Qed.

Theorem remove_hash_scope f i :
  (forall l, (forall cp, content_path i = Some cp -> l <> InCache cp) ->
     lookup (snd (run (remove_hash i) f)) l = lookup f l) /\
  (forall cp, content_path i = Some cp ->
     (match lookup f (InCache cp) with
      | Some Dir => fst (run (remove_hash i) f) = Err EIoErr /\ snd (run (remove_hash i) f) = f
      | Some _ => fst (run (remove_hash i) f) = Ok tt /\ lookup (snd (run (remove_hash i) f)) (InCache cp) = None
      | None => fst (run (remove_hash i) f) = Err EIoErr /\ snd (run (remove_hash i) f) = f
      end)).
Proof.
  unfold remove_hash, with_cpath. destruct (content_path i) as [cp|] eqn:Ecp.
  - split.
    + intros l Hl. specialize (Hl cp eq_refl). rewrite run_unlink.
      destruct (lookup f (InCache cp)) as [[d| |t]|] eqn:E; cbn [fst snd]; try reflexivity;
        apply lookup_remove_neq; congruence.
    + intros cp' Hcp. inversion Hcp; subst cp'. rewrite run_unlink.
      destruct (lookup f (InCache cp)) as [[d| |t]|] eqn:E; cbn [fst snd]; auto using lookup_remove_eq.
  - split; [intros l _; reflexivity|intros cp H; discriminate].
Qed.

(* ---------- remove_fully: unlink the entry's content, unlink the bucket ---------- *)
Lemma run_unlink_if_present l0 f :
  run (unlink_if_present l0) f =
  match lookup f l0 with
  | Some Dir => (Err EIoErr, f)
  | Some _ => (Ok tt, remove f l0)
  | None => (Ok tt, f)
  end.
Proof. unfold unlink_if_present. cbn [run]. unfold exec. destruct (lookup f l0) as [[d| |t]|]; reflexivity. Qed.

Lemma run_unlink_if_present_frame l0 f l : l <> l0 -> lookup (snd (run (unlink_if_present l0) f)) l = lookup f l.
Proof.
  intros Hl. rewrite run_unlink_if_present. destruct (lookup f l0) as [[d| |t]|]; cbn [snd]; try reflexivity;
    apply lookup_remove_neq; congruence.
Qed.

Lemma run_unlink_frame l0 f l : l <> l0 -> lookup (snd (run (step_ok (Unlink l0)) f)) l = lookup f l.
Proof.
  intros Hl. rewrite run_unlink. destruct (lookup f l0) as [[d| |t]|]; cbn [snd]; try reflexivity;
    apply lookup_remove_neq; congruence.
Qed.

Theorem remove_fully_frame f key l :
  l <> InCache (bucket_path hash key) ->
  (forall m cp, fst (run (find hash key) f) = Ok (Some m) -> content_path (m_sri m) = Some cp -> l <> InCache cp) ->
  lookup (snd (run (remove_fully hash key) f)) l = lookup f l.
Proof.
  intros Hb Hc. unfold remove_fully. unfold rbind at 1. rewrite run_bind.
  pose proof (find_fs hash f key) as Hfs. destruct (run (find hash key) f) as [r f0] eqn:Ef. cbn [snd] in Hfs. subst f0.
  cbn [fst] in Hc. destruct r as [[m|]|e| | |]; try reflexivity.
  - unfold rbind. rewrite run_bind. unfold with_cpath. destruct (content_path (m_sri m)) as [cp|] eqn:Ecp; [|reflexivity].
    specialize (Hc m cp eq_refl Ecp).
    destruct (run (unlink_if_present (InCache cp)) f) as [r1 f1] eqn:E1.
    assert (lookup f1 l = lookup f l) as H1.
    { change f1 with (snd (r1, f1)). rewrite <- E1. apply run_unlink_if_present_frame. exact Hc. }
    destruct r1; cbn [run]; try exact H1. rewrite <- H1. apply run_unlink_frame. exact Hb.
  - unfold rbind. rewrite run_bind. cbn [run]. apply run_unlink_frame. exact Hb.
Qed.

Theorem remove_fully_scope f key m cp nd :
  IndexInv f -> abs_idx hash f key = Some m -> content_path (m_sri m) = Some cp ->
  lookup f (InCache cp) = Some nd -> nd <> Dir -> cp <> bucket_path hash key ->
  let f' := snd (run (remove_fully hash key) f) in
  fst (run (remove_fully hash key) f) = Ok tt /\
  lookup f' (InCache cp) = None /\
  lookup f' (InCache (bucket_path hash key)) = None /\
  abs_idx hash f' key = None /\
  (forall l, l <> InCache cp -> l <> InCache (bucket_path hash key) -> lookup f' l = lookup f l).
Proof.
  intros Hinv Habs Hcp Hnd Hnodir Hneq f'.
  assert (run (remove_fully hash key) f
          = (Ok tt, remove (remove f (InCache cp)) (InCache (bucket_path hash key)))) as Hrun.
  { unfold remove_fully. unfold rbind at 1. rewrite run_bind, (find_run hash f key Hinv), Habs.
    unfold rbind. rewrite run_bind. unfold with_cpath. rewrite Hcp, run_unlink_if_present, Hnd.
    assert (lookup (remove f (InCache cp)) (InCache (bucket_path hash key)) = lookup f (InCache (bucket_path hash key))) as Hb.
    { apply lookup_remove_neq. congruence. }
    assert (exists d, lookup f (InCache (bucket_path hash key)) = Some (File d)) as [d Hd].
    { destruct (bucket_lookup hash f key Hinv) as [Hn|[d [Hd _]]]; [|eauto].
      unfold abs_idx, bucket_bytes in Habs. rewrite Hn in Habs. discriminate. }
    destruct nd as [d0| |t]; [|contradiction|]; rewrite run_unlink, Hb, Hd; reflexivity. }
  subst f'. rewrite Hrun. cbn [fst snd]. split; [reflexivity|]. split.
  - rewrite lookup_remove_neq by congruence. apply lookup_remove_eq.
  - split; [apply lookup_remove_eq|]. split.
    + unfold abs_idx, bucket_bytes. rewrite lookup_remove_eq. reflexivity.
    + intros l H1 H2. rewrite !lookup_remove_neq by congruence. reflexivity.
Qed.

(* the entry's content is already gone (shared with a key removed earlier, removed by address, or an earlier attempt
   of this call that failed later): the full removal still deletes the entry *)
Theorem remove_fully_content_gone f key m cp :
  IndexInv f -> abs_idx hash f key = Some m -> content_path (m_sri m) = Some cp ->
  lookup f (InCache cp) = None ->
  let f' := snd (run (remove_fully hash key) f) in
  fst (run (remove_fully hash key) f) = Ok tt /\
  abs_idx hash f' key = None /\
  (forall l, l <> InCache (bucket_path hash key) -> lookup f' l = lookup f l).
Proof.
  intros Hinv Habs Hcp Hnone f'.
  assert (run (remove_fully hash key) f = (Ok tt, remove f (InCache (bucket_path hash key)))) as Hrun.
  { unfold remove_fully. unfold rbind at 1. rewrite run_bind, (find_run hash f key Hinv), Habs.
    unfold rbind. rewrite run_bind. unfold with_cpath. rewrite Hcp, run_unlink_if_present, Hnone.
    assert (exists d, lookup f (InCache (bucket_path hash key)) = Some (File d)) as [d Hd].
    { destruct (bucket_lookup hash f key Hinv) as [Hn|[d [Hd _]]]; [|eauto].
      unfold abs_idx, bucket_bytes in Habs. rewrite Hn in Habs. discriminate. }
    rewrite run_unlink, Hd. reflexivity. }
  subst f'. rewrite Hrun. cbn [fst snd]. split; [reflexivity|]. split.
  - unfold abs_idx, bucket_bytes. rewrite lookup_remove_eq. reflexivity.
  - intros l H1. apply lookup_remove_neq. congruence.
Qed.

(* keys living in other buckets keep their lookups *)
Corollary remove_fully_other_keys f key k :
  bucket_path hash k <> bucket_path hash key ->
  (forall m cp, fst (run (find hash key) f) = Ok (Some m) -> content_path (m_sri m) = Some cp ->
                InCache (bucket_path hash k) <> InCache cp) ->
  abs_idx hash (snd (run (remove_fully hash key) f)) k = abs_idx hash f k.
Proof.
  intros Hb Hc. unfold abs_idx, bucket_bytes. rewrite remove_fully_frame; [reflexivity|congruence|exact Hc].
Qed.

(* ---------- clear: remove_dir_all of every child of the cache root ---------- *)
Definition NoDupKeys (f : fs) : Prop := NoDup (map fst f).
(* the root holds directories only, every stored path hangs below a stored top-level entry *)
Definition RootShape (f : fs) : Prop :=
  lookup f (InCache []) = None /\
  (forall n nd, lookup f (InCache [n]) = Some nd -> nd = Dir) /\
  (forall x p nd, lookup f (InCache (x :: p)) = Some nd -> lookup f (InCache [x]) <> None).

Lemma lookup_cons l' n f l : lookup ((l', n) :: f) l = if loc_eqb l' l then Some n else lookup f l.
Proof. reflexivity. Qed.

Lemma lookup_filter_key (g : loc -> bool) f l :
  lookup (filter (fun ln => g (fst ln)) f) l = if g l then lookup f l else None.
Proof.
  induction f as [|[l' n] f IH]; cbn [filter lookup fst].
  - destruct (g l); reflexivity.
  - change (lookup ((l', n) :: f) l) with (if loc_eqb l' l then Some n else lookup f l).
    destruct (g l') eqn:Eg; [change (lookup ((l', n) :: filter (fun ln => g (fst ln)) f) l) with (if loc_eqb l' l then Some n else lookup (filter (fun ln => g (fst ln)) f) l)|]; destruct (loc_eqb l' l) eqn:E.
    + apply loc_eqb_eq in E; subst. rewrite Eg. reflexivity.
    + exact IH.
    + apply loc_eqb_eq in E; subst. rewrite Eg in IH |- *. exact IH.
    + exact IH.
Qed.

Lemma lookup_in f l n : lookup f l = Some n -> In (l, n) f.
Proof.
  induction f as [|[l' n'] f IH]; [discriminate|]. rewrite lookup_cons.
  destruct (loc_eqb l' l) eqn:E; [apply loc_eqb_eq in E; subst; intros H; inversion H; left; reflexivity|right; auto].
Qed.

Lemma in_lookup f l n : In (l, n) f -> lookup f l <> None.
Proof.
  induction f as [|[l' n'] f IH]; [intros []|]. rewrite lookup_cons.
  intros [H|H]; [inversion H; subst; rewrite loc_eqb_refl; discriminate|].
  destruct (loc_eqb l' l); [discriminate|auto].
Qed.

Definition top (p : path) : loc := InCache p.
Definition covered (ps : list path) (l : loc) : bool := existsb (fun p => under p l) ps.

Lemma remove_all_dirs (ps : list path) : forall f,
  NoDup ps -> (forall p, In p ps -> exists n, p = [n]) ->
  (forall p, In p ps -> lookup f (InCache p) = Some Dir) ->
  run (remove_all (map top ps)) f = (Ok tt, filter (fun ln => negb (covered ps (fst ln))) f).
Proof.
  induction ps as [|p ps IH]; intros f Hnd Hone Hdir.
  - cbn [map remove_all run]. f_equal. clear. induction f as [|x f IHf]; [reflexivity|].
    cbn [filter covered existsb negb]. f_equal. exact IHf.
  - cbn [map remove_all top]. unfold rbind. rewrite run_bind. unfold step_ok. cbn [run]. unfold exec.
    rewrite (Hdir p (or_introl eq_refl)). cbn [run].
    inversion Hnd as [|? ? Hnotin Hnd']; subst.
    rewrite IH.
    + f_equal. clear. induction f as [|[l n] f IHf]; cbn [filter fst]; [reflexivity|].
      cbn [covered existsb]. destruct (under p l); cbn [negb orb filter fst]; [exact IHf|].
      fold (covered ps l). destruct (covered ps l); cbn [negb]; [exact IHf|f_equal; exact IHf].
    + exact Hnd'.
    + intros q Hq. apply Hone. right. exact Hq.
    + intros q Hq. rewrite (lookup_filter_key (fun l => negb (under p l))).
      destruct (Hone p (or_introl eq_refl)) as [n ->]. destruct (Hone q (or_intror Hq)) as [m ->].
      cbn [under is_prefix]. destruct (bytes_eqb n m) eqn:E.
      * apply bytes_eqb_eq in E. subst. contradiction.
      * cbn [andb negb]. apply Hdir. right. exact Hq.
Qed.

Lemma child_of_root l : child_of [] l = match l with InCache [n] => [n] | _ => [] end.
Proof. destruct l as [[|a [|b q]]|e]; reflexivity. Qed.

Fixpoint roots (f : fs) : list path :=
  match f with
  | (InCache [n], _) :: t => [n] :: roots t
  | _ :: t => roots t
  | [] => []
  end.

Lemma readdir_roots f : map (fun n => InCache ([] ++ [n])) (flat_map (fun ln => child_of [] (fst ln)) f) = map top (roots f).
Proof.
  induction f as [|[l n] f IH]; [reflexivity|]. cbn [flat_map fst]. rewrite child_of_root, map_app, IH.
  destruct l as [[|a [|b q]]|e]; reflexivity.
Qed.

Lemma roots_cons l nd f : roots ((l, nd) :: f) = match l with InCache [n] => [[n]] | _ => [] end ++ roots f.
Proof. destruct l as [[|a [|b q]]|e]; reflexivity. Qed.

Lemma roots_in f p : In p (roots f) <-> exists n nd, p = [n] /\ In (InCache [n], nd) f.
Proof.
  induction f as [|[l nd] f IH].
  - split; [intros []|intros [n [x [_ []]]]].
  - rewrite roots_cons, in_app_iff, IH. split.
    + intros [H|[n [x [E H]]]]; [|exists n, x; split; [exact E|right; exact H]].
      destruct l as [[|a [|b q]]|e]; try (destruct H; fail). destruct H as [<-|[]]. exists a, nd. split; [reflexivity|left; reflexivity].
    + intros [n [x [E [H|H]]]]; [|right; exists n, x; auto]. inversion H; subst. left. left. reflexivity.
Qed.

Lemma roots_nodup f : NoDupKeys f -> NoDup (roots f).
Proof.
  unfold NoDupKeys. induction f as [|[l nd] f IH]; cbn [roots map fst]; [constructor|].
  intros H. inversion H as [|? ? Hn Hd]; subst. specialize (IH Hd).
  destruct l as [[|a [|b q]]|e]; try exact IH. constructor; [|exact IH].
  intros Hin. apply roots_in in Hin as [n [x [E Hx]]]. inversion E; subst n.
  apply Hn. apply in_map_iff. exists (InCache [a], x). auto.
Qed.

Theorem clear_scope f :
  NoDupKeys f -> RootShape f ->
  let f' := snd (run clear f) in
  fst (run clear f) = Ok tt /\
  (forall p, lookup f' (InCache p) = None) /\
  (forall n, lookup f' (Ext n) = lookup f (Ext n)).
Proof.
  intros Hnd [Hroot [Hdirs Hclosed]] f'.
  assert (run clear f = (Ok tt, filter (fun ln => negb (covered (roots f) (fst ln))) f)) as Hrun.
  { unfold clear. cbn [run]. unfold exec. cbn [is_dir]. rewrite readdir_roots. apply remove_all_dirs.
    - apply roots_nodup. exact Hnd.
    - intros p Hp. apply roots_in in Hp as [n [x [E _]]]. eauto.
    - intros p Hp. apply roots_in in Hp as [n [x [-> Hx]]].
      destruct (lookup f (InCache [n])) as [y|] eqn:E; [|exfalso; exact (in_lookup _ _ _ Hx E)].
      rewrite (Hdirs n y E). reflexivity. }
  subst f'. rewrite Hrun. cbn [fst snd]. split; [reflexivity|]. split.
  - intros p. rewrite (lookup_filter_key (fun l => negb (covered (roots f) l))).
    destruct (covered (roots f) (InCache p)) eqn:Ec; [reflexivity|]. cbn [negb].
    destruct p as [|x q]; [exact Hroot|].
    destruct (lookup f (InCache (x :: q))) as [nd|] eqn:El; [|reflexivity]. exfalso.
    pose proof (Hclosed x q nd El) as Hx.
    destruct (lookup f (InCache [x])) as [y|] eqn:Ex; [|congruence].
    apply lookup_in in Ex.
    assert (In [x] (roots f)) as Hin by (apply roots_in; exists x, y; auto).
    unfold covered in Ec. rewrite <- not_true_iff_false in Ec. apply Ec. apply existsb_exists.
    exists [x]. split; [exact Hin|]. cbn [under is_prefix]. rewrite bytes_eqb_refl. reflexivity.
  - intros n. rewrite (lookup_filter_key (fun l => negb (covered (roots f) l))).
    assert (covered (roots f) (Ext n) = false) as ->; [|reflexivity].
    unfold covered. clear. generalize (roots f). intros ps. induction ps as [|p ps IH]; [reflexivity|]. cbn [existsb under orb]. exact IH.
Qed.

(* the cleared cache satisfies the invariant every write theorem (C02) starts from: it is usable *)
Corollary clear_usable f :
  NoDupKeys f -> RootShape f -> CacheInv (snd (run clear f)).
Proof.
  intros Hnd Hr. destruct (clear_scope f Hnd Hr) as [_ [Hnone _]].
  split; [|split].
  - intros p n H. rewrite Hnone in H. discriminate.
  - intros p n H. rewrite Hnone in H. discriminate.
  - left. apply Hnone.
Qed.

End Rm.
