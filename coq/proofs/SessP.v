(* SessP.v — invariants of whole sessions (C03 / C14 / C20 over histories): any sequence of API calls on one cache, with any
   number of writers open at the same time, their chunks interleaved, writes cancelled (OAbandon), writers dropped or
   committed in any order.  In every reachable state — and at every crash state of every call — each file under
   content-v2 carries the digest of its address, and every open writer's temp file holds exactly the bytes its digest
   covers.  Excluded: [clear] while writers are open, and damage steps (they delete temp files under open writers). *)
From CC Require Import Bytes Codec Utf8 Lines Json Sri Record Fs Prog Api Crash Sess
  BytesP CodecP FsP ProgP SriP RecordP IndexP ReadP WriteP CommitP RemoveP TotalP CrashP CrashIdxP ConfineP KeepP.
From Coq Require Import Lia.
Local Open Scope N_scope.

Section SP.
Variable hash : algo -> bytes -> bytes.
Hypothesis HL : HashLen hash.

(* ---------- the writer invariant without the byte counter (a cancelled write is stored but not acknowledged) ---------- *)
Definition WInv0 (f : fs) (w : wstate) : Prop :=
  (exists n, w_tmp w = InCache [bs "tmp"; n]) /\
  exists d, lookup f (w_tmp w) = Some (File d) /\
    match w_map w with
    | Some sz => lenN d = sz /\ w_pos w = lenN (w_data w) /\ takeN (w_pos w) d = w_data w /\ w_pos w <= sz
    | None => d = w_data w
    end.

Lemma WInv_WInv0 f w : WInv f w -> WInv0 f w.
Proof. intros [Hn [_ H]]. split; assumption. Qed.
Lemma WInv0_norm f w : WInv0 f w -> WInv f (with_written w (lenN (w_data w))).
Proof. intros [Hn H]. split; [exact Hn|]. split; [reflexivity|exact H]. Qed.
Lemma WInv0_written f w n : WInv0 f w -> WInv0 f (with_written w n).
Proof. intros H. exact H. Qed.
Lemma WInv0_frame f g w : WInv0 f w -> lookup g (w_tmp w) = lookup f (w_tmp w) -> WInv0 g w.
Proof. intros [Hn [d [Hl Hm]]] E. split; [exact Hn|]. exists d. rewrite E. split; assumption. Qed.

Lemma with_written_eta w : with_written (with_written w (lenN (w_data w))) (w_written w) = w.
Proof. destruct w. reflexivity. Qed.

Lemma write_chunk_written w n d f :
  run (write_chunk (with_written w n) d) f =
  (rmap (fun w' => with_written w' (n + lenN d)) (fst (run (write_chunk w d) f)), snd (run (write_chunk w d) f)).
Proof.
  unfold write_chunk. cbn [with_written w_key w_opts w_algo w_tmp w_map w_pos w_written w_data].
  destruct (w_map w) as [sz|].
  - destruct (w_pos w + lenN d <=? sz); unfold rbind; rewrite !run_bind.
    + destruct (run (step_ok (MmapStore (w_tmp w) (w_pos w) d)) f) as [r f1]. destruct r; reflexivity.
    + destruct (run (step_ok (Truncate (w_tmp w) (w_pos w))) f) as [r f1]. destruct r; try reflexivity.
      cbn [fst snd]. rewrite !run_bind. destruct (run (step_ok (WriteAppend (w_tmp w) d)) f1) as [r2 f2]. destruct r2; reflexivity.
  - unfold rbind; rewrite !run_bind. destruct (run (step_ok (WriteAppend (w_tmp w) d)) f) as [r f1]. destruct r; reflexivity.
Qed.

Lemma write_chunk_ok0 f w d :
  WInv0 f w ->
  exists w' f', run (write_chunk w d) f = (Ok w', f') /\ WInv0 f' w' /\ w_tmp w' = w_tmp w /\
    w_data w' = w_data w ++ d /\ (forall l, l <> w_tmp w -> lookup f' l = lookup f l).
Proof.
  intros Hw. destruct (write_chunk_ok hash f _ d (WInv0_norm f w Hw)) as [w1 [f1 [Hr [Hw1 [Hs [Hd Hfr]]]]]].
  assert (run (write_chunk w d) f = (Ok (with_written w1 (w_written w + lenN d)), f1)) as E.
  { rewrite <- (with_written_eta w) at 1. rewrite write_chunk_written, Hr. reflexivity. }
  eexists _, f1. split; [exact E|]. split; [apply WInv0_written, WInv_WInv0; exact Hw1|].
  destruct Hs as (_ & _ & _ & Ht). split; [exact Ht|]. split; [exact Hd|exact Hfr].
Qed.

Lemma close_writer_written w n : close_writer hash (with_written w n) = close_writer hash w.
Proof. reflexivity. Qed.

Lemma close_writer_steps0 f w : WInv0 f w -> steps_ok (csafe hash) (close_writer hash w) f.
Proof.
  intros Hw. rewrite <- (close_writer_written w (lenN (w_data w))). apply (close_writer_steps hash HL). apply WInv0_norm. exact Hw.
Qed.

Lemma commit_steps0 f w now : WInv0 f w -> steps_ok (csafe hash) (commit hash w now) f.
Proof.
  intros Hw. unfold commit, rbind. apply steps_ok_bind. split; [apply close_writer_steps0; exact Hw|].
  destruct (fst (run (close_writer hash w) f)); try exact I.
  destruct (match o_sri (w_opts w) with Some d => match sri_matches d a with Some _ => Some d | None => None end | None => Some a end); [|exact I].
  destruct (match o_size (w_opts w) with Some s => negb (s =? w_written w) | None => false end); destruct (o_size (w_opts w));
    try exact I; destruct (w_key w); try exact I; apply (all_steps_ok csafe'); try apply csafe'_csafe; apply insert_all.
Qed.


(* ---------- opening a writer, from ANY tree ---------- *)
Lemma run_step_ok_snd c f : snd (run (step_ok c) f) = snd (exec c f).
Proof. unfold step_ok. cbn [run]. destruct (exec c f) as [r f1]. destruct r; reflexivity. Qed.

Lemma open_writer_result f fl key o w f' :
  run (open_writer fl key o) f = (Ok w, f') ->
  WInv f' w /\ lookup f (w_tmp w) = None /\ w_data w = [] /\
  (forall l, lookup f l <> None -> lookup f' l = lookup f l).
Proof.
  unfold open_writer, rbind. rewrite run_bind.
  pose proof (run_step_ok_snd (MkdirAll tmp_dir) f) as Hs.
  destruct (run (step_ok (MkdirAll tmp_dir)) f) as [r f1]. cbn [fst snd] in *. subst f1.
  assert (forall l, lookup f l <> None -> lookup (snd (exec (MkdirAll tmp_dir) f)) l = lookup f l) as Hk1.
  { intros l Hl. destruct (lookup f l) as [nd|] eqn:E; [|contradiction]. rewrite exec_mkdirall. apply mkdirs_keeps. exact E. }
  set (f1 := snd (exec (MkdirAll tmp_dir) f)) in *.
  destruct r; cbn [run]; try discriminate.
  unfold exec at 1. destruct (is_dir f1 tmp_dir) eqn:Ed; cbn [fst snd run]; [|discriminate].
  set (n := fresh f1). set (t := InCache (tmp_dir ++ [n])).
  assert (lookup f1 t = None) as Hfresh by apply (fresh_absent hash).
  assert (lookup f t = None) as Hfresh0.
  { destruct (lookup f t) as [nd|] eqn:E; [|reflexivity]. rewrite <- Hfresh. symmetry. rewrite <- E. apply Hk1. congruence. }
  assert (forall l, lookup f l <> None -> lookup (update f1 t (File [])) l = lookup f l) as Hk2.
  { intros l Hl. rewrite lookup_update_neq by (intros <-; congruence). apply Hk1. exact Hl. }
  set (al := match o_algo o with Some a0 => a0 | None => Sha256 end).
  assert (forall w0 g, (Ok (mkW key o al t None 0 0 []), update f1 t (File [])) = (Ok w0, g) ->
            WInv g w0 /\ lookup f (w_tmp w0) = None /\ w_data w0 = [] /\ (forall l, lookup f l <> None -> lookup g l = lookup f l)) as Hplain.
  { intros w0 g E. inversion E; subst w0 g. split.
    - split; [exists n; reflexivity|]. split; [reflexivity|]. exists []. split; [apply lookup_update_eq|reflexivity].
    - cbn [w_tmp w_data]. auto. }
  destruct (content_size fl key o) as [sz|]; [|apply Hplain].
  destruct ((1 <=? sz) && (sz <=? max_mmap)) eqn:Erange; [|apply Hplain].
  apply andb_true_iff in Erange as [E1 _]. apply N.leb_le in E1.
  cbn [run]. rewrite (exec_fallocate _ t sz) by (try apply lookup_update_eq; lia). cbn [run].
  intros E. inversion E; subst w f'. split.
  - split; [exists n; reflexivity|]. split; [reflexivity|]. exists (zeros sz).
    cbn [w_tmp w_map w_pos w_data]. split; [apply lookup_update_eq|].
    split; [apply lenN_zeros|]. split; [reflexivity|]. split; [apply takeN_0|lia].
  - cbn [w_tmp w_data]. split; [exact Hfresh0|]. split; [reflexivity|].
    intros l Hl. rewrite lookup_update_neq by (intros <-; congruence). apply Hk2. exact Hl.
Qed.


(* ---------- where the steps of the API programs reach ---------- *)
(* every location a step may touch is under content-v2, under index-v5, the tmp directory itself, the acting writer's own
   temp file [t], or outside the cache *)
Definition zoned (t : option loc) (c : sys) : Prop :=
  forall l, may_touch c l -> is_content l \/ is_index l \/ l = InCache tmp_dir \/ t = Some l \/ (exists e, l = Ext e).

Definition tmpfile (l : loc) : Prop := exists n, l = InCache [bs "tmp"; n].

(* ... hence never another writer's temp file *)
Lemma zoned_away t c l : zoned t c -> tmpfile l -> t <> Some l -> ~ may_touch c l.
Proof.
  intros Hz [n ->] Hne Hm. destruct (Hz _ Hm) as [[p E]|[[p E]|[E|[E|[e E]]]]]; try discriminate; try (apply Hne; exact E).
  all: inversion E as [[H1 H2]]; try (vm_compute in H1; discriminate).
Qed.

Lemma readonly_zoned t c : readonly c -> zoned t c.
Proof. intros H l Hl. exfalso. exact (H l Hl). Qed.
Lemma readonly_all_zoned {A} t (p : prog A) : all_steps readonly p -> all_steps (zoned t) p.
Proof. induction p as [a|c k IH]; cbn [all_steps]; [auto|]. intros [Hc Hk]. split; [apply readonly_zoned; exact Hc|intros r; apply IH; apply Hk]. Qed.

Lemma z_unlink_quiet {A} t (r : res A) : all_steps (zoned (Some t)) (unlink_quiet t r).
Proof. unfold unlink_quiet. cbn [all_steps]. split; [intros l ->; right; right; right; left; reflexivity|intros; exact I]. Qed.

Lemma z_trim w : all_steps (zoned (Some (w_tmp w))) (trim w).
Proof.
  unfold trim. destruct (w_map w) as [sz|]; [destruct (w_pos w <? sz)|]; try exact I.
  apply all_steps_step_ok. intros l ->. right; right; right; left; reflexivity.
Qed.

Lemma z_write_chunk w d : all_steps (zoned (Some (w_tmp w))) (write_chunk w d).
Proof.
  assert (forall c, (forall l, may_touch c l -> l = w_tmp w) -> zoned (Some (w_tmp w)) c) as Hz.
  { intros c H l Hl. right; right; right; left. rewrite (H l Hl). reflexivity. }
  unfold write_chunk. destruct (w_map w) as [sz|].
  - destruct (w_pos w + lenN d <=? sz).
    + apply all_steps_rbind; [apply all_steps_step_ok, Hz; intros l E; exact E|intros; exact I].
    + apply all_steps_rbind; [apply all_steps_step_ok, Hz; intros l E; exact E|intros _].
      apply all_steps_rbind; [apply all_steps_step_ok, Hz; intros l E; exact E|intros; exact I].
  - apply all_steps_rbind; [apply all_steps_step_ok, Hz; intros l E; exact E|intros; exact I].
Qed.

Lemma z_publish w cp sri : (exists x a b c, cp = [content_dir; x; a; b; c]) -> all_steps (zoned (Some (w_tmp w))) (publish w cp sri).
Proof.
  intros [x [a [b [c ->]]]]. unfold publish. cbn [all_steps]. split.
  - intros l Hl. cbn [may_touch parent removelast] in Hl. apply in_map_iff in Hl as [q [<- Hq]].
    left. cbn in Hq. destruct Hq as [<-|[<-|[<-|[<-|[]]]]]; eexists; reflexivity.
  - intros r0. destruct r0; try apply z_unlink_quiet.
    all: cbn [all_steps]; split; [intros lx [->| ->]; [right; right; right; left; reflexivity|left; eexists; reflexivity]|].
    all: intros r; destruct r; try exact I.
    all: cbn [all_steps]; split; [intros lx []|]; intros r2; destruct r2 as [| |[|]| | | |]; apply z_unlink_quiet.
Qed.

Lemma content_path_shape i cp : content_path i = Some cp -> exists x a b c, cp = [content_dir; x; a; b; c].
Proof. intros H. destruct (content_components_hex i cp H) as [al [a [b [c [E _]]]]]. eauto. Qed.

Lemma z_close_writer w : all_steps (zoned (Some (w_tmp w))) (close_writer hash w).
Proof.
  unfold close_writer. destruct (content_path (sri_of hash (w_algo w) (w_data w))) as [cp|] eqn:E; [|apply z_unlink_quiet].
  apply all_steps_bind; [apply z_trim|]. intros rt. destruct rt; try apply z_unlink_quiet.
  apply z_publish. exact (content_path_shape _ _ E).
Qed.

Lemma z_insert t key o now : all_steps (zoned t) (insert hash key o now).
Proof.
  destruct (bucket_path_shape hash key) as [a [b [c Hb]]].
  assert (forall x, zoned t x -> zoned t x) as _ by auto.
  unfold insert. rewrite Hb. apply all_steps_rbind.
  - apply all_steps_step_ok. intros l Hl. cbn [may_touch parent removelast] in Hl. apply in_map_iff in Hl as [q [<- Hq]].
    right; left. cbn in Hq. destruct Hq as [<-|[<-|[<-|[]]]]; eexists; reflexivity.
  - intros _. apply all_steps_rbind; [apply all_steps_step_ok; intros l ->; right; left; eexists; reflexivity|intros _].
    apply all_steps_rbind; [apply all_steps_step_ok; intros l ->; right; left; eexists; reflexivity|intros _]. exact I.
Qed.

Lemma z_commit w now : all_steps (zoned (Some (w_tmp w))) (commit hash w now).
Proof.
  unfold commit. apply all_steps_rbind; [apply z_close_writer|intros wsri].
  destruct (match o_sri (w_opts w) with Some d => match sri_matches d wsri with Some _ => Some d | None => None end | None => Some wsri end); [|exact I].
  destruct (match o_size (w_opts w) with Some s => negb (s =? w_written w) | None => false end); destruct (o_size (w_opts w));
    try exact I; destruct (w_key w); try exact I; apply z_insert.
Qed.

Lemma z_remove_hash t i : all_steps (zoned t) (remove_hash i).
Proof.
  unfold remove_hash, with_cpath. destruct (content_path i) as [cp|] eqn:E; [|exact I].
  destruct (content_path_shape _ _ E) as [x [a [b [c ->]]]].
  apply all_steps_step_ok. intros l ->. left. eexists; reflexivity.
Qed.

Lemma z_remove_fully t key : all_steps (zoned t) (remove_fully hash key).
Proof.
  destruct (bucket_path_shape hash key) as [a [b [c Hb]]].
  unfold remove_fully. apply all_steps_rbind; [apply readonly_all_zoned, find_ro|]. intros e. apply all_steps_rbind.
  - destruct e as [m|]; [|exact I]. unfold with_cpath. destruct (content_path (m_sri m)) as [cp|] eqn:E; [|exact I].
    destruct (content_path_shape _ _ E) as [x [a0 [b0 [c0 ->]]]].
    unfold unlink_if_present. cbn [all_steps]. split; [intros lx ->; left; eexists; reflexivity|]. intros r. destruct r as [| | | | | |[]]; exact I.
  - intros _. rewrite Hb. apply all_steps_step_ok. intros l ->. right; left; eexists; reflexivity.
Qed.

Lemma z_extract_hash t x checked i e : all_steps (zoned t) (extract_hash hash x checked i (Ext e)).
Proof.
  unfold extract_hash, with_cpath. destruct (content_path i) as [cp|]; [|exact I].
  assert (all_steps (zoned t) (xstep x (InCache cp) (Ext e))) as Hx.
  { unfold xstep. cbn [all_steps]. split; [|intros r; destruct r; exact I].
    destruct x; intros l Hl; cbn [may_touch] in Hl; subst l; right; right; right; right; eexists; reflexivity. }
  destruct checked; [|exact Hx]. apply all_steps_rbind.
  - unfold verify. apply all_steps_rbind; [apply readonly_all_zoned, read_file_ro|]. intros d. destruct (check_res hash i d); exact I.
  - intros n. apply all_steps_rbind; [exact Hx|intros; exact I].
Qed.
Lemma z_extract t x checked key e : all_steps (zoned t) (extract hash x checked key (Ext e)).
Proof.
  unfold extract, by_key. apply all_steps_rbind; [apply readonly_all_zoned, find_ro|]. intros [m|]; [apply z_extract_hash|exact I].
Qed.

(* a program whose steps are zoned leaves every other writer's temp file alone, at every crash state and at the end *)
Lemma zoned_keeps_tmp {A} t (p : prog A) f :
  all_steps (zoned t) p ->
  forall l, tmpfile l -> t <> Some l -> lookup (snd (run p f)) l = lookup f l.
Proof.
  intros Hz l Hl Hne.
  destruct (untouched_crash (fun x => x = l) p f) as [_ H].
  - apply (all_steps_ok (zoned t)); [|exact Hz]. intros c g Hc x Hx ->. exact (zoned_away t c l Hc Hl Hne Hx).
  - apply H. reflexivity.
Qed.


(* ---------- opening a writer: every outcome ---------- *)
Lemma open_writer_outcomes f fl key o :
  (forall l, lookup f l <> None -> lookup (snd (run (open_writer fl key o) f)) l = lookup f l) /\
  (forall w, fst (run (open_writer fl key o) f) = Ok w ->
     WInv (snd (run (open_writer fl key o) f)) w /\ lookup f (w_tmp w) = None /\ w_data w = []).
Proof.
  destruct (run (open_writer fl key o) f) as [r f'] eqn:E. cbn [fst snd].
  destruct r as [w|e| | |].
  - destruct (open_writer_result f fl key o w f' E) as [H1 [H2 [H3 H4]]]. split; [exact H4|].
    intros w0 E0. inversion E0; subst w0. auto.
  - split; [|intros w0 E0; discriminate].
    (* a failed open: mkdir -p failed, or no temp file could be created — nothing that existed is changed *)
    revert E. unfold open_writer, rbind. rewrite run_bind.
    pose proof (run_step_ok_snd (MkdirAll tmp_dir) f) as Hs.
    destruct (run (step_ok (MkdirAll tmp_dir)) f) as [r f1]. cbn [fst snd] in *. subst f1.
    assert (forall l, lookup f l <> None -> lookup (snd (exec (MkdirAll tmp_dir) f)) l = lookup f l) as Hk1.
    { intros l Hl. destruct (lookup f l) as [nd|] eqn:El; [|contradiction]. rewrite exec_mkdirall. apply mkdirs_keeps. exact El. }
    set (f1 := snd (exec (MkdirAll tmp_dir) f)) in *.
    destruct r; cbn [run]; try (intros E; inversion E; subst; exact Hk1).
    unfold exec at 1. destruct (is_dir f1 tmp_dir) eqn:Ed; cbn [fst snd run]; [|intros E; inversion E; subst; exact Hk1].
    destruct (content_size fl key o) as [sz|]; [|discriminate].
    destruct ((1 <=? sz) && (sz <=? max_mmap)) eqn:Erange; [|discriminate].
    apply andb_true_iff in Erange as [E1 _]. apply N.leb_le in E1.
    cbn [run]. rewrite (exec_fallocate _ (InCache (tmp_dir ++ [fresh f1])) sz) by (try apply lookup_update_eq; lia). cbn [run]. discriminate.
  - split; [|intros w0 E0; discriminate]. exfalso. pose proof (open_writer_total fl key o f) as Ht. rewrite E in Ht. exact Ht.
  - split; [|intros w0 E0; discriminate]. exfalso. pose proof (open_writer_total fl key o f) as Ht. rewrite E in Ht. exact Ht.
  - split; [|intros w0 E0; discriminate]. exfalso. pose proof (open_writer_total fl key o f) as Ht. rewrite E in Ht. exact Ht.
Qed.

(* ---------- one-shot writes from ANY tree ---------- *)
Lemma oneshot_steps_any f fl key o data now : steps_ok (csafe hash) (oneshot hash fl key o data now) f.
Proof.
  unfold oneshot, rbind at 1. apply steps_ok_bind. split.
  - apply (all_steps_ok csafe'); [apply csafe'_csafe|apply open_writer_all].
  - destruct (open_writer_outcomes f fl key o) as [_ Hw]. destruct (run (open_writer fl key o) f) as [r f1]. cbn [fst snd] in *.
    destruct r as [w|e| | |]; try exact I. destruct (Hw w eq_refl) as [Hwi _].
    destruct data as [|b data]; [apply (commit_steps hash HL); exact Hwi|].
    apply steps_ok_bind. split.
    + apply (all_steps_ok csafe'); [apply csafe'_csafe|]. apply write_chunk_all. exact (WInv_wtmp f1 w Hwi).
    + destruct (write_chunk_ok hash f1 w (b :: data) Hwi) as [w1 [f2 [Hr2 [Hw1 _]]]]. rewrite Hr2. cbn [fst snd].
      apply (commit_steps hash HL). exact Hw1.
Qed.

Lemma oneshot_keeps_tmp f fl key o data now l :
  tmpfile l -> lookup f l <> None -> lookup (snd (run (oneshot hash fl key o data now) f)) l = lookup f l.
Proof.
  intros Hl Hex. unfold oneshot, rbind at 1. rewrite run_bind.
  destruct (open_writer_outcomes f fl key o) as [Hk Hw]. destruct (run (open_writer fl key o) f) as [r f1]. cbn [fst snd] in *.
  destruct r as [w|e| | |]; cbn [run snd]; try (apply Hk; exact Hex).
  destruct (Hw w eq_refl) as [Hwi [Hfresh _]].
  assert (Some (w_tmp w) <> Some l) as Hne by (intros E; inversion E; subst l; contradiction).
  rewrite <- (Hk l Hex).
  destruct data as [|b data]; [apply (zoned_keeps_tmp (Some (w_tmp w))); [apply z_commit|exact Hl|exact Hne]|].
  rewrite run_bind.
  rewrite <- (zoned_keeps_tmp (Some (w_tmp w)) (write_chunk w (b :: data)) f1 (z_write_chunk w (b :: data)) l Hl Hne).
  destruct (run (write_chunk w (b :: data)) f1) as [r2 f2] eqn:E2. cbn [fst snd].
  destruct r2 as [w'|e| | |].
  - assert (w_tmp w' = w_tmp w) as Et by (apply (write_chunk_wtmp w (b :: data) f1); rewrite E2; reflexivity).
    apply (zoned_keeps_tmp (Some (w_tmp w'))); [apply z_commit|exact Hl|rewrite Et; exact Hne].
  - apply (zoned_keeps_tmp (Some (w_tmp w))); [apply z_unlink_quiet|exact Hl|exact Hne].
  - apply (zoned_keeps_tmp (Some (w_tmp w))); [apply z_unlink_quiet|exact Hl|exact Hne].
  - apply (zoned_keeps_tmp (Some (w_tmp w))); [apply z_unlink_quiet|exact Hl|exact Hne].
  - apply (zoned_keeps_tmp (Some (w_tmp w))); [apply z_unlink_quiet|exact Hl|exact Hne].
Qed.


(* ---------- the session invariant ---------- *)
Definition SInv (s : sstate) : Prop :=
  ContentInv hash (s_fs s) /\
  (forall h ws, hget h (s_w s) = Some ws -> WInv0 (s_fs s) ws) /\
  (forall h1 h2 ws1 ws2, h1 <> h2 -> hget h1 (s_w s) = Some ws1 -> hget h2 (s_w s) = Some ws2 -> w_tmp ws1 <> w_tmp ws2).

(* the calls covered: everything except [clear] (it deletes the temp files of open writers), the link_to family (a
   different writer type) and the damage steps *)
Definition sess_op (o : op) : Prop :=
  match o with
  | OClear _ | OLinkTo _ _ _ | OLOpen _ _ _ _ _ _ | OLChunk _ _ | OLCommit _ | OLDrop _
  | DSet _ _ | DDel _ | DMkdir _ | DSymlink _ _ => False
  | _ => True
  end.

Lemma hget_hdel_same {A} h (l : list (N * A)) : hget h (hdel h l) = None.
Proof.
  induction l as [|[k v] l IH]; [reflexivity|]. cbn [hdel]. destruct (N.eqb k h) eqn:E; [exact IH|].
  cbn [hget]. rewrite E. exact IH.
Qed.
Lemma hget_hdel_other {A} h h' (l : list (N * A)) : h <> h' -> hget h (hdel h' l) = hget h l.
Proof.
  intros Hne. induction l as [|[k v] l IH]; [reflexivity|]. cbn [hdel]. destruct (N.eqb k h') eqn:E.
  - cbn [hget]. destruct (N.eqb k h) eqn:E2; [apply N.eqb_eq in E, E2; congruence|exact IH].
  - cbn [hget]. destruct (N.eqb k h); [reflexivity|exact IH].
Qed.

Lemma winv0_tmpfile f w : WInv0 f w -> tmpfile (w_tmp w) /\ lookup f (w_tmp w) <> None.
Proof. intros [[n Hn] [d [Hl _]]]. split; [exists n; exact Hn|congruence]. Qed.

(* the tables are unchanged, the tree changed by something that keeps every existing temp file *)
Lemma sinv_same_tables s s' :
  SInv s -> s_w s' = s_w s -> ContentInv hash (s_fs s') ->
  (forall l, tmpfile l -> lookup (s_fs s) l <> None -> lookup (s_fs s') l = lookup (s_fs s) l) ->
  SInv s'.
Proof.
  intros [Hc [Hw Hd]] Ew Hc' Hk. split; [exact Hc'|]. rewrite Ew. split; [|exact Hd].
  intros h ws Hh. specialize (Hw h ws Hh). destruct (winv0_tmpfile _ _ Hw) as [Ht He].
  apply (WInv0_frame (s_fs s)); [exact Hw|apply Hk; assumption].
Qed.

(* a program that names no temp file at all *)
Lemma sinv_prog {A} s (p : prog A) s' :
  SInv s -> steps_ok (csafe hash) p (s_fs s) -> all_steps (zoned None) p ->
  s_w s' = s_w s -> s_fs s' = snd (run p (s_fs s)) -> SInv s' /\ Forall (ContentInv hash) (crash_states p (s_fs s)).
Proof.
  intros Hs Hst Hz Ew Ef. destruct (content_inv_crash hash p (s_fs s) (proj1 Hs) Hst) as [Hcr Hfin].
  split; [|exact Hcr]. apply (sinv_same_tables s); [exact Hs|exact Ew|rewrite Ef; exact Hfin|].
  intros l Hl _. rewrite Ef. apply (zoned_keeps_tmp None); [exact Hz|exact Hl|discriminate].
Qed.

(* the acting writer [h] is replaced by [ws'] (same temp file); only that temp file changed *)
Lemma sinv_update_writer s h ws ws' s' :
  SInv s -> hget h (s_w s) = Some ws -> s_w s' = hset h ws' (s_w s) ->
  WInv0 (s_fs s') ws' -> w_tmp ws' = w_tmp ws -> ContentInv hash (s_fs s') ->
  (forall l, l <> w_tmp ws -> lookup (s_fs s') l = lookup (s_fs s) l) ->
  SInv s'.
Proof.
  intros [Hc [Hw Hd]] Hh Ew Hw' Et Hc' Hfr. split; [exact Hc'|]. rewrite Ew. split.
  - intros h2 ws2 H2. rewrite hget_hset in H2. destruct (N.eqb h h2) eqn:E.
    + inversion H2; subst ws2. exact Hw'.
    + apply N.eqb_neq in E. rewrite hget_hdel_other in H2 by congruence.
      apply (WInv0_frame (s_fs s)); [exact (Hw _ _ H2)|]. apply Hfr. intros E2. exact (Hd h2 h ws2 ws (fun X => E (eq_sym X)) H2 Hh E2).
  - intros h1 h2 ws1 ws2 Hne H1 H2. rewrite hget_hset in H1, H2.
    destruct (N.eqb h h1) eqn:E1; destruct (N.eqb h h2) eqn:E2.
    + apply N.eqb_eq in E1, E2. congruence.
    + inversion H1; subst ws1. apply N.eqb_neq in E2. rewrite hget_hdel_other in H2 by congruence. rewrite Et.
      intros X. exact (Hd h h2 ws ws2 E2 Hh H2 X).
    + inversion H2; subst ws2. apply N.eqb_neq in E1. rewrite hget_hdel_other in H1 by congruence. rewrite Et.
      intros X. exact (Hd h1 h ws1 ws (fun Y => E1 (eq_sym Y)) H1 Hh X).
    + apply N.eqb_neq in E1, E2. rewrite hget_hdel_other in H1, H2 by congruence. exact (Hd h1 h2 ws1 ws2 Hne H1 H2).
Qed.

(* the acting writer [h] leaves the table; the program run names no other temp file *)
Lemma sinv_remove_writer {A} s h ws (p : prog A) s' :
  SInv s -> hget h (s_w s) = Some ws -> s_w s' = hdel h (s_w s) ->
  steps_ok (csafe hash) p (s_fs s) -> all_steps (zoned (Some (w_tmp ws))) p -> s_fs s' = snd (run p (s_fs s)) ->
  SInv s' /\ Forall (ContentInv hash) (crash_states p (s_fs s)).
Proof.
  intros [Hc [Hw Hd]] Hh Ew Hst Hz Ef. destruct (content_inv_crash hash p (s_fs s) Hc Hst) as [Hcr Hfin].
  split; [|exact Hcr]. split; [rewrite Ef; exact Hfin|]. rewrite Ew. split.
  - intros h2 ws2 H2. destruct (N.eq_dec h2 h) as [->|Hne]; [rewrite hget_hdel_same in H2; discriminate|].
    rewrite hget_hdel_other in H2 by exact Hne. pose proof (Hw _ _ H2) as Hw2. destruct (winv0_tmpfile _ _ Hw2) as [Ht _].
    apply (WInv0_frame (s_fs s)); [exact Hw2|]. rewrite Ef. apply (zoned_keeps_tmp (Some (w_tmp ws))); [exact Hz|exact Ht|].
    intros X. inversion X as [X']. exact (Hd h h2 ws ws2 (fun Y => Hne (eq_sym Y)) Hh H2 X').
  - intros h1 h2 ws1 ws2 Hne H1 H2.
    destruct (N.eq_dec h1 h) as [->|N1]; [rewrite hget_hdel_same in H1; discriminate|].
    destruct (N.eq_dec h2 h) as [->|N2]; [rewrite hget_hdel_same in H2; discriminate|].
    rewrite hget_hdel_other in H1, H2 by assumption. exact (Hd h1 h2 ws1 ws2 Hne H1 H2).
Qed.


Lemma sinv_ext s s' : s_fs s' = s_fs s -> s_w s' = s_w s -> SInv s -> SInv s'.
Proof. intros Ef Ew [Hc [Hw Hd]]. unfold SInv. rewrite Ef, Ew. auto. Qed.

Lemma wtmp_ok0 f w : WInv0 f w -> wtmp_ok w.
Proof. intros [[n Hn] _]. unfold wtmp_ok. rewrite Hn. apply (tmp_loc_not_content n). Qed.

Lemma plain_chunk_sinv s h ws d :
  SInv s -> hget h (s_w s) = Some ws ->
  SInv (snd (plain_chunk s h ws d)) /\ Forall (ContentInv hash) (crash_states (write_chunk ws d) (s_fs s)) /\
  s_p (snd (plain_chunk s h ws d)) = s_p s.
Proof.
  intros Hs Hh. pose proof (proj1 (proj2 Hs) _ _ Hh) as Hw.
  destruct (content_inv_crash hash (write_chunk ws d) (s_fs s) (proj1 Hs)) as [Hcr Hfin].
  { apply (all_steps_ok csafe'); [apply csafe'_csafe|apply write_chunk_all; exact (wtmp_ok0 _ _ Hw)]. }
  destruct (write_chunk_ok0 (s_fs s) ws d Hw) as [w' [f' [Hr [Hw' [Et [_ Hfr]]]]]].
  unfold plain_chunk. rewrite Hr in *. cbn [fst snd] in *.
  split; [|split; [exact Hcr|reflexivity]].
  apply (sinv_update_writer s h ws w'); try assumption; reflexivity.
Qed.

Lemma ack_sinv s h ws n : SInv s -> hget h (s_w s) = Some ws -> SInv (ack s h ws n).
Proof.
  intros Hs Hh. apply (sinv_update_writer s h ws (with_written ws (w_written ws + n))); try reflexivity; try assumption.
  - apply WInv0_written. exact (proj1 (proj2 Hs) _ _ Hh).
  - exact (proj1 Hs).
Qed.
Lemma ack_hget s h ws n : hget h (s_w (ack s h ws n)) = Some (with_written ws (w_written ws + n)).
Proof. unfold ack, mkS. cbn [s_w]. rewrite hget_hset, N.eqb_refl. reflexivity. Qed.

Lemma start_abandoned_sinv s h ws d :
  SInv s -> hget h (s_w s) = Some ws -> SInv (snd (start_abandoned s h ws d)).
Proof.
  intros Hs Hh. pose proof (proj1 (proj2 Hs) _ _ Hh) as Hw.
  destruct (content_inv_crash hash (write_chunk ws d) (s_fs s) (proj1 Hs)) as [_ Hfin].
  { apply (all_steps_ok csafe'); [apply csafe'_csafe|apply write_chunk_all; exact (wtmp_ok0 _ _ Hw)]. }
  destruct (write_chunk_ok0 (s_fs s) ws d Hw) as [w' [f' [Hr [Hw' [Et [_ Hfr]]]]]].
  unfold start_abandoned. rewrite Hr in *. cbn [fst snd] in *.
  apply (sinv_update_writer s h ws (with_written w' (w_written ws))); try assumption; try reflexivity.
Qed.

Lemma write1_pending_sinv s h ws p d :
  SInv s -> hget h (s_w s) = Some ws -> SInv (snd (write1_pending s h ws p d)).
Proof.
  intros Hs Hh. unfold write1_pending.
  assert (SInv (clear_p s h)) as Hs1 by (apply (sinv_ext s); [reflexivity|reflexivity|exact Hs]).
  destruct p as [n|]; [|exact Hs1].
  destruct (n <=? lenN d); [apply ack_sinv; assumption|]. apply plain_chunk_sinv; assumption.
Qed.

Lemma write_all_pending_sinv s h ws p d :
  SInv s -> hget h (s_w s) = Some ws -> SInv (snd (write_all_pending s h ws p d)).
Proof.
  intros Hs Hh. unfold write_all_pending. destruct d as [|b d]; [exact Hs|].
  assert (SInv (clear_p s h)) as Hs1 by (apply (sinv_ext s); [reflexivity|reflexivity|exact Hs]).
  destruct p as [n|]; [|exact Hs1].
  destruct (n <=? lenN (b :: d)); [|apply plain_chunk_sinv; assumption].
  destruct (n =? 0); [exact Hs1|].
  pose proof (ack_sinv (clear_p s h) h ws n Hs1 Hh) as Hs2.
  destruct (dropN n (b :: d)) as [|b' rest]; [exact Hs2|].
  destruct (plain_chunk_sinv (ack (clear_p s h) h ws n) h (with_written ws (w_written ws + n)) (b' :: rest) Hs2 (ack_hget _ _ _ _)) as [H _].
  destruct (plain_chunk (ack (clear_p s h) h ws n) h (with_written ws (w_written ws + n)) (b' :: rest)) as [o s3]. exact H.
Qed.


Lemma ext_not_content e : ~ is_content (Ext e).
Proof. intros [p E]. discriminate E. Qed.

Lemma extract_all x checked key e : all_steps csafe' (extract hash x checked key (Ext e)).
Proof.
  unfold extract. apply by_key_all. intros i. apply extract_hash_all. apply ext_not_content.
Qed.

(* a read-only call *)
Lemma sinv_readonly {A} s (p : prog (res A)) g :
  SInv s -> all_steps readonly p -> SInv (snd (runv s p g)).
Proof.
  intros Hs Hro. unfold runv. destruct (readonly_no_mutation p (s_fs s) Hro) as [E _].
  destruct (run p (s_fs s)) as [r f]. cbn [snd] in *. subst f. apply (sinv_ext s); [reflexivity|reflexivity|exact Hs].
Qed.

(* a call whose steps name no temp file *)
Lemma sinv_runv {A} s (p : prog (res A)) g :
  SInv s -> all_steps csafe' p -> all_steps (zoned None) p ->
  SInv (snd (runv s p g)) /\ Forall (ContentInv hash) (crash_states p (s_fs s)).
Proof.
  intros Hs Hc Hz. apply (sinv_prog s p); [exact Hs|apply (all_steps_ok csafe'); [apply csafe'_csafe|exact Hc]|exact Hz| |];
    unfold runv; destruct (run p (s_fs s)) as [r f]; reflexivity.
Qed.

Lemma sinv_oneshot s fl key o data now g :
  SInv s -> SInv (snd (runv s (oneshot hash fl key o data now) g)) /\
            Forall (ContentInv hash) (crash_states (oneshot hash fl key o data now) (s_fs s)).
Proof.
  intros Hs. destruct (content_inv_crash hash (oneshot hash fl key o data now) (s_fs s) (proj1 Hs) (oneshot_steps_any _ _ _ _ _ _)) as [Hcr Hfin].
  split; [|exact Hcr]. apply (sinv_same_tables s); [exact Hs| | |].
  - unfold runv. destruct (run (oneshot hash fl key o data now) (s_fs s)); reflexivity.
  - unfold runv. destruct (run (oneshot hash fl key o data now) (s_fs s)) as [r f]; exact Hfin.
  - intros l Hl Hex. unfold runv. pose proof (oneshot_keeps_tmp (s_fs s) fl key o data now l Hl Hex) as E.
    destruct (run (oneshot hash fl key o data now) (s_fs s)) as [r f]. exact E.
Qed.

(* ---------- every call of the session fragment keeps the invariant, and the content invariant holds at each of its
   crash states ---------- *)
Theorem step_sinv s o now :
  SInv s -> sess_op o ->
  SInv (snd (step hash s o now)) /\ Forall (ContentInv hash) (step_crash hash s o now).
Proof.
  intros Hs Ho. pose proof Hs as [Hc [Hw Hd]].
  assert (Forall (ContentInv hash) [s_fs s]) as Hsame by (constructor; [exact Hc|constructor]).
  destruct o; cbn [sess_op] in Ho; try contradiction; cbn [step step_crash].
  - (* OWrite *) apply sinv_oneshot. exact Hs.
  - (* OWriteHash *) apply sinv_oneshot. exact Hs.
  - (* OOpen *)
    destruct (content_inv_crash hash (open_writer fl key o) (s_fs s) Hc) as [Hcr Hfin].
    { apply (all_steps_ok csafe'); [apply csafe'_csafe|apply open_writer_all]. }
    split; [|exact Hcr].
    destruct (open_writer_outcomes (s_fs s) fl key o) as [Hk Hnew].
    destruct (run (open_writer fl key o) (s_fs s)) as [r f]. cbn [fst snd] in *.
    destruct r as [ws|e| | |]; cbn [snd].
    2-5: apply (sinv_same_tables s); [exact Hs|reflexivity|exact Hfin|intros l _ Hex; apply Hk; exact Hex].
    destruct (Hnew ws eq_refl) as [Hwi [Hfresh _]].
    split; [exact Hfin|]. cbn [clear_p set_p mkS s_w s_fs]. split.
    + intros h2 ws2 H2. rewrite hget_hset in H2. destruct (N.eqb w h2) eqn:E.
      * inversion H2; subst ws2. apply WInv_WInv0. exact Hwi.
      * apply N.eqb_neq in E. rewrite hget_hdel_other in H2 by congruence. pose proof (Hw _ _ H2) as Hw2.
        apply (WInv0_frame (s_fs s)); [exact Hw2|]. apply Hk. exact (proj2 (winv0_tmpfile _ _ Hw2)).
    + assert (forall h2 ws2, hget h2 (s_w s) = Some ws2 -> w_tmp ws <> w_tmp ws2) as Hnewd.
      { intros h2 ws2 H2 E. pose proof (proj2 (winv0_tmpfile _ _ (Hw _ _ H2))) as Hex. rewrite <- E in Hex. contradiction. }
      intros h1 h2 ws1 ws2 Hne H1 H2. rewrite hget_hset in H1, H2.
      destruct (N.eqb w h1) eqn:E1; destruct (N.eqb w h2) eqn:E2.
      * apply N.eqb_eq in E1, E2. congruence.
      * inversion H1; subst ws1. apply N.eqb_neq in E2. rewrite hget_hdel_other in H2 by congruence. exact (Hnewd _ _ H2).
      * inversion H2; subst ws2. apply N.eqb_neq in E1. rewrite hget_hdel_other in H1 by congruence. intros X. exact (Hnewd _ _ H1 (eq_sym X)).
      * apply N.eqb_neq in E1, E2. rewrite hget_hdel_other in H1, H2 by congruence. exact (Hd h1 h2 ws1 ws2 Hne H1 H2).
  - (* OChunk *)
    destruct (hget w (s_w s)) as [ws|] eqn:Eh; [|split; [exact Hs|exact Hsame]].
    destruct (hget w (s_p s)) as [p|].
    + split; [apply write_all_pending_sinv; assumption|exact Hsame].
    + destruct (plain_chunk_sinv s w ws d Hs Eh) as [H1 [H2 _]]. split; assumption.
  - (* OCommit *)
    destruct (hget w (s_w s)) as [ws|] eqn:Eh; [|split; [exact Hs|exact Hsame]].
    destruct (sinv_remove_writer s w ws (commit hash ws now)
                (clear_p (mkS s (snd (run (commit hash ws now) (s_fs s))) (hdel w (s_w s)) (s_r s)) w) Hs Eh) as [H1 H2];
      [reflexivity|apply commit_steps0; exact (Hw _ _ Eh)|apply z_commit|reflexivity|].
    destruct (run (commit hash ws now) (s_fs s)) as [r f]. cbn [snd] in *. split; assumption.
  - (* ODrop *)
    destruct (hget w (s_w s)) as [ws|] eqn:Eh; [|split; [exact Hs|exact Hsame]].
    destruct (sinv_remove_writer s w ws (drop_writer ws)
                (clear_p (mkS s (snd (run (drop_writer ws) (s_fs s))) (hdel w (s_w s)) (s_r s)) w) Hs Eh) as [H1 H2];
      [reflexivity| |apply z_unlink_quiet|reflexivity|].
    { apply (all_steps_ok csafe'); [apply csafe'_csafe|apply all_unlink_quiet]. }
    destruct (run (drop_writer ws) (s_fs s)) as [r f]. cbn [snd] in *. split; assumption.
  - (* OInsert *) apply sinv_runv; [exact Hs|apply insert_all|apply z_insert].
  - (* ODelete *)
    apply sinv_runv; [exact Hs| |]; unfold delete; [apply all_steps_rbind; [apply insert_all|intros; exact I]|apply all_steps_rbind; [apply z_insert|intros; exact I]].
  - (* OFind *) split; [apply sinv_readonly; [exact Hs|apply find_ro]|exact Hsame].
  - (* ORead *) split; [apply sinv_readonly; [exact Hs|apply read_ro]|exact Hsame].
  - (* OReadHash *) split; [apply sinv_readonly; [exact Hs|apply read_hash_ro]|exact Hsame].
  - (* OROpen *)
    split; [|exact Hsame].
    assert (all_steps readonly (match b with ByKey k => ropen hash k | ByHash i => ropen_hash i end)) as Hro by (destruct b; [apply ropen_ro|apply ropen_hash_ro]).
    destruct (readonly_no_mutation _ (s_fs s) Hro) as [E _].
    destruct (run (match b with ByKey k => ropen hash k | ByHash i => ropen_hash i end) (s_fs s)) as [x f]. cbn [snd] in E. subst f.
    destruct x; cbn [snd]; (apply (sinv_ext s); [reflexivity|reflexivity|exact Hs]).
  - (* ORChunk *)
    split; [|exact Hsame]. destruct (hget r (s_r s)) as [rs|]; [|exact Hs]. destruct (rchunk rs n) as [c rs'].
    apply (sinv_ext s); [reflexivity|reflexivity|exact Hs].
  - (* ORAll *)
    split; [|exact Hsame]. destruct (hget r (s_r s)) as [rs|]; [|exact Hs]. destruct (rchunk rs (lenN (r_rest rs))) as [c rs'].
    apply (sinv_ext s); [reflexivity|reflexivity|exact Hs].
  - (* ORCheck *)
    split; [|exact Hsame]. destruct (hget r (s_r s)) as [rs|]; [|exact Hs]. apply (sinv_ext s); [reflexivity|reflexivity|exact Hs].
  - (* ORDrop *)
    split; [|exact Hsame]. destruct (hget r (s_r s)) as [rs|]; [|exact Hs]. apply (sinv_ext s); [reflexivity|reflexivity|exact Hs].
  - (* OExtract *)
    destruct b; apply sinv_runv; try exact Hs.
    + apply extract_all.
    + apply z_extract.
    + apply extract_hash_all, ext_not_content.
    + apply z_extract_hash.
  - (* OExists *) split; [apply sinv_readonly; [exact Hs|apply exists_hash_ro]|exact Hsame].
  - (* ORemove *)
    apply sinv_runv; [exact Hs| |]; unfold delete; [apply all_steps_rbind; [apply insert_all|intros; exact I]|apply all_steps_rbind; [apply z_insert|intros; exact I]].
  - (* ORemoveHash *) apply sinv_runv; [exact Hs|apply remove_hash_all|apply z_remove_hash].
  - (* ORemoveFully *) apply sinv_runv; [exact Hs|apply remove_fully_all|apply z_remove_fully].
  - (* OList *) split; [apply sinv_readonly; [exact Hs|apply ls_ro]|exact Hsame].
  - (* OAbandon *)
    destruct (hget w (s_w s)) as [ws|] eqn:Eh; [|split; [exact Hs|exact Hsame]].
    assert (SInv (clear_p s w)) as Hs1 by (apply (sinv_ext s); [reflexivity|reflexivity|exact Hs]).
    destruct (hget w (s_p s)) as [[n|]|].
    + split; [|exact Hsame]. destruct (n <=? lenN d); [apply ack_sinv; assumption|apply start_abandoned_sinv; assumption].
    + split; [exact Hs1|exact Hsame].
    + split; [apply start_abandoned_sinv; assumption|].
      destruct (plain_chunk_sinv s w ws d Hs Eh) as [_ [H2 _]]. exact H2.
  - (* OWrite1 *)
    destruct (hget w (s_w s)) as [ws|] eqn:Eh; [|split; [exact Hs|exact Hsame]].
    destruct (hget w (s_p s)) as [p|].
    + split; [apply write1_pending_sinv; assumption|exact Hsame].
    + destruct (plain_chunk_sinv s w ws d Hs Eh) as [H1 [H2 _]]. split; assumption.
Qed.

(* every reachable state of every session *)
Lemma sinv_init : SInv sstate0.
Proof.
  split; [intros p d H; discriminate H|]. split; [intros h ws H; discriminate H|intros h1 h2 ws1 ws2 _ H; discriminate H].
Qed.

Theorem run_ops_sinv ops : forall s i,
  SInv s -> Forall sess_op ops -> SInv (snd (run_ops hash s ops i)).
Proof.
  induction ops as [|o ops IH]; intros s i Hs Ho; cbn [run_ops]; [exact Hs|].
  inversion Ho as [|? ? H1 H2]; subst. destruct (step_sinv s o (pseudo_now i) Hs H1) as [Hs' _].
  destruct (step hash s o (pseudo_now i)) as [r s']. cbn [snd] in Hs'.
  specialize (IH s' (i + 1) Hs' H2). destruct (run_ops hash s' ops (i + 1)) as [rs s'']. exact IH.
Qed.

(* C03 over histories: after any session prefix, a kill during the next call leaves only matching content files *)
Theorem session_crash_content ops o : forall i,
  Forall sess_op ops -> sess_op o ->
  Forall (ContentInv hash) (step_crash hash (snd (run_ops hash sstate0 ops 0)) o i).
Proof.
  intros i Hops Ho. exact (proj2 (step_sinv _ o i (run_ops_sinv ops sstate0 0 sinv_init Hops) Ho)).
Qed.


(* ---------- C14 over sessions: a writer that has not committed leaves no trace ---------- *)
Definition tmponly (c : sys) : Prop := forall l, may_touch c l -> l = InCache tmp_dir \/ tmpfile l.

Lemma tmponly_frame {A} (p : prog A) f :
  all_steps tmponly p -> forall l, is_index l \/ is_content l -> lookup (snd (run p f)) l = lookup f l.
Proof.
  intros Hp l Hl. destruct (untouched_crash (fun x => is_index x \/ is_content x) p f) as [_ H]; [|exact (H l Hl)].
  apply (all_steps_ok tmponly); [|exact Hp]. intros c g Hc x Hx Hr.
  destruct (Hc x Hx) as [->|[n ->]]; destruct Hr as [[q E]|[q E]]; inversion E as [[H1 H2]]; try (vm_compute in H1; discriminate).
Qed.

Lemma t_unlink_quiet {A} n (r : res A) : all_steps tmponly (unlink_quiet (InCache (tmp_dir ++ [n])) r).
Proof. unfold unlink_quiet. cbn [all_steps]. split; [intros l ->; right; exists n; reflexivity|intros; exact I]. Qed.

Lemma t_open_writer fl key o : all_steps tmponly (open_writer fl key o).
Proof.
  unfold open_writer. apply all_steps_rbind.
  - apply all_steps_step_ok. intros l Hl. cbn [may_touch] in Hl. apply in_map_iff in Hl as [q [<- Hq]]. cbn in Hq. destruct Hq as [<-|[]]. left. reflexivity.
  - intros _. cbn [all_steps]. split; [intros l [n ->]; right; exists n; reflexivity|]. intros r. destruct r; try exact I.
    destruct (content_size fl key o) as [sz|]; [|exact I]. destruct ((1 <=? sz) && (sz <=? max_mmap)); [|exact I].
    cbn [all_steps]. split; [intros l ->; right; exists n; reflexivity|]. intros r2. destruct r2; try exact I. apply t_unlink_quiet.
Qed.

Lemma t_write_chunk w d : tmpfile (w_tmp w) -> all_steps tmponly (write_chunk w d).
Proof.
  intros Ht. assert (forall c, (forall l, may_touch c l -> l = w_tmp w) -> tmponly c) as Hz.
  { intros c H l Hl. right. rewrite (H l Hl). exact Ht. }
  unfold write_chunk. destruct (w_map w) as [sz|].
  - destruct (w_pos w + lenN d <=? sz).
    + apply all_steps_rbind; [apply all_steps_step_ok, Hz; intros l E; exact E|intros; exact I].
    + apply all_steps_rbind; [apply all_steps_step_ok, Hz; intros l E; exact E|intros _].
      apply all_steps_rbind; [apply all_steps_step_ok, Hz; intros l E; exact E|intros; exact I].
  - apply all_steps_rbind; [apply all_steps_step_ok, Hz; intros l E; exact E|intros; exact I].
Qed.

Definition quiet_op (o : op) : Prop :=
  match o with OOpen _ _ _ _ | OChunk _ _ | OWrite1 _ _ | OAbandon _ _ | ODrop _ => True | _ => False end.

Lemma plain_chunk_fs s h ws d : s_fs (snd (plain_chunk s h ws d)) = snd (run (write_chunk ws d) (s_fs s)).
Proof. unfold plain_chunk. destruct (run (write_chunk ws d) (s_fs s)) as [r f]. destruct r; reflexivity. Qed.
Lemma start_abandoned_fs s h ws d : s_fs (snd (start_abandoned s h ws d)) = snd (run (write_chunk ws d) (s_fs s)).
Proof. unfold start_abandoned. destruct (run (write_chunk ws d) (s_fs s)) as [r f]. destruct r; reflexivity. Qed.

(* opening a writer, feeding it (acknowledged or cancelled writes), dropping it: no location under index-v5 or content-v2
   changes — no lookup, listing or read can tell; and after the drop the temp file is gone *)
Theorem quiet_ops_no_trace s o now :
  SInv s -> quiet_op o ->
  (forall l, is_index l \/ is_content l -> lookup (s_fs (snd (step hash s o now))) l = lookup (s_fs s) l) /\
  (forall h ws, o = ODrop h -> hget h (s_w s) = Some ws -> lookup (s_fs (snd (step hash s o now))) (w_tmp ws) = None).
Proof.
  intros Hs Ho. pose proof Hs as [Hc [Hw Hd]].
  assert (forall h ws d g, hget h (s_w s) = Some ws -> s_fs g = s_fs s ->
            forall l, is_index l \/ is_content l -> lookup (snd (run (write_chunk ws d) (s_fs g))) l = lookup (s_fs s) l) as Hchunk.
  { intros h ws d g Hh Eg l Hl. rewrite Eg. apply tmponly_frame; [|exact Hl]. apply t_write_chunk. exact (proj1 (winv0_tmpfile _ _ (Hw _ _ Hh))). }
  destruct o; cbn [quiet_op] in Ho; try contradiction; cbn [step]; (split; [|intros h0 ws0 E0 H0; try discriminate E0]).
  - (* OOpen *)
    intros l Hl. pose proof (tmponly_frame (open_writer fl key o) (s_fs s) (t_open_writer fl key o) l Hl) as E.
    destruct (run (open_writer fl key o) (s_fs s)) as [r f]. destruct r; exact E.
  - (* OChunk *)
    intros l Hl. destruct (hget w (s_w s)) as [ws|] eqn:Eh; [|reflexivity].
    destruct (hget w (s_p s)) as [p|]; [|rewrite plain_chunk_fs; exact (Hchunk w ws d s Eh eq_refl l Hl)].
    unfold write_all_pending. destruct d as [|b d]; [reflexivity|]. destruct p as [n|]; [|reflexivity].
    destruct (n <=? lenN (b :: d)); [|rewrite plain_chunk_fs; exact (Hchunk w ws _ (clear_p s w) Eh eq_refl l Hl)].
    destruct (n =? 0); [reflexivity|]. destruct (dropN n (b :: d)) as [|b' rest]; [reflexivity|].
    pose proof (plain_chunk_fs (ack (clear_p s w) w ws n) w (with_written ws (w_written ws + n)) (b' :: rest)) as E.
    destruct (plain_chunk (ack (clear_p s w) w ws n) w (with_written ws (w_written ws + n)) (b' :: rest)) as [o s3]. cbn [snd] in *. rewrite E.
    apply tmponly_frame; [|exact Hl]. apply t_write_chunk. exact (proj1 (winv0_tmpfile _ _ (Hw _ _ Eh))).
  - (* ODrop: index and content untouched *)
    intros l Hl. destruct (hget w (s_w s)) as [ws|] eqn:Eh; [|reflexivity].
    destruct (winv0_tmpfile _ _ (Hw _ _ Eh)) as [[n Hn] _].
    pose proof (tmponly_frame (drop_writer ws) (s_fs s)) as E. unfold drop_writer in *. rewrite Hn in *.
    specialize (E (t_unlink_quiet n (Ok tt)) l Hl).
    destruct (run (unlink_quiet (InCache [bs "tmp"; n]) (Ok tt)) (s_fs s)) as [r f]. exact E.
  - (* ODrop: the temp file is gone *)
    inversion E0; subst h0. rewrite H0. pose proof (Hw _ _ H0) as [_ [d [Hl _]]].
    unfold drop_writer, unlink_quiet. cbn [run]. unfold exec. rewrite Hl. cbn [snd clear_p set_p mkS s_fs]. apply lookup_remove_eq.
  - (* OAbandon *)
    intros l Hl. destruct (hget w (s_w s)) as [ws|] eqn:Eh; [|reflexivity].
    destruct (hget w (s_p s)) as [[n|]|].
    + destruct (n <=? lenN d); [reflexivity|]. rewrite start_abandoned_fs. exact (Hchunk w ws d (clear_p s w) Eh eq_refl l Hl).
    + reflexivity.
    + rewrite start_abandoned_fs. exact (Hchunk w ws d s Eh eq_refl l Hl).
  - (* OWrite1 *)
    intros l Hl. destruct (hget w (s_w s)) as [ws|] eqn:Eh; [|reflexivity].
    destruct (hget w (s_p s)) as [p|]; [|rewrite plain_chunk_fs; exact (Hchunk w ws d s Eh eq_refl l Hl)].
    unfold write1_pending. destruct p as [n|]; [|reflexivity].
    destruct (n <=? lenN d); [reflexivity|]. rewrite plain_chunk_fs. exact (Hchunk w ws d (clear_p s w) Eh eq_refl l Hl).
Qed.

End SP.
