(* ConcSerP.v — serialisability of whole operations, writers / removers AND readers, unbounded.
   Any number of keyed one-shot writers and tombstone removers run with any number of readers by key, any interleaving of
   all their filesystem steps.  Then there is ONE sequential order of the writers / removers (the order of their append
   steps, a permutation) and, for every reader, a position in that order, such that
   * every writer / remover returns what it returns when run alone;
   * every read of the final tree answers as on the tree produced by running the writers / removers one after the other
     in that order (real sequential runs of the library's programs, [serial]);
   * every reader's result is the result of the same read on the tree produced by running the first n operations of that
     order one after the other — the reader is serialised at position n.
   Proof: the ghost order of appends of ConcWriteP carried through the two-pool semantics; each reader remembers the
   ghost prefix at its index step; both the concurrent state at that prefix and the sequential run of that prefix refine
   the key-value specification of HistP (last write per key), whose reads are determined. *)
From CC Require Import Bytes Codec Utf8 Lines Json Sri Record Fs Prog Api Crash Conc BytesP CodecP FsP ProgP SriP RecordP IndexP ReadP WriteP CommitP RemoveP CrashP CrashIdxP FormatP ConfineP KeepP HistP MetaP ConcP ConcIdxP ConcWriteP ConcReadP.
From Coq Require Import Permutation Lia.
Local Open Scope N_scope.

Section CS.
Variable hash : algo -> bytes -> bytes.
Hypothesis HL : HashLen hash.

(* the operation of a thread as a step of the sequential key-value history of HistP *)
Definition kv_of (x : wspec) : kvop :=
  if ws_rm x then KRemove (ws_key x) (ws_now x) else KWrite Sync (ws_a x) (ws_key x) (ws_data x) (ws_now x).

(* the threads' programs one after the other (real runs of [write] / [delete]) *)
Definition serial (f0 : fs) (xs : list wspec) : fs := fold_left (kv_run hash) (map kv_of xs) f0.

Definition sel (ws : list wspec) (done : list nat) : list wspec := map (fun i => nth i ws dw) done.

Lemma hops_sel ws done : (forall i, In i done -> (i < List.length ws)%nat) ->
  hops_of (map (x_hop hash) ws) done = map (x_hop hash) (sel ws done).
Proof.
  intros Hlt. unfold hops_of, sel. rewrite map_map. apply map_ext_in. intros i Hin.
  rewrite (nth_indep _ dflt (x_hop hash dw)) by (rewrite map_length; apply Hlt; exact Hin). apply (map_nth (x_hop hash) ws dw i).
Qed.

(* ---------- index map vs key-value map ---------- *)
Definition Rel (E : bytes -> option meta) (M : kv) : Prop :=
  forall k, match M k with
            | Some (a, d) => exists e, E k = Some e /\ m_sri e = sri_of hash a d
            | None => E k = None
            end.

Lemma rel_step E M x : Rel E M -> Rel (spec_step E (x_hop hash x)) (kv_step M (kv_of x)).
Proof.
  intros H k. unfold x_hop, kv_of. destruct (ws_rm x); cbn [spec_step kv_step]; destruct (bytes_eqb k (ws_key x)); try exact (H k).
  - reflexivity.
  - cbn. eexists. split; reflexivity.
Qed.

Lemma rel_fold xs : forall E M, Rel E M ->
  Rel (fold_left spec_step (map (x_hop hash) xs) E) (fold_left kv_step (map kv_of xs) M).
Proof. induction xs as [|x xs IH]; intros E M H; [exact H|]. cbn [map fold_left]. apply IH. apply rel_step. exact H. Qed.

Lemma kv_fold_prov xs : forall (M : kv) k a d,
  fold_left kv_step (map kv_of xs) M k = Some (a, d) ->
  M k = Some (a, d) \/ exists x, In x xs /\ ws_rm x = false /\ a = ws_a x /\ d = ws_data x.
Proof.
  induction xs as [|x xs IH]; intros M k a d H; [left; exact H|].
  cbn [map fold_left] in H. destruct (IH _ _ _ _ H) as [H1|[y [Hy R]]].
  - unfold kv_step, kv_of in H1. destruct (ws_rm x) eqn:Erm; destruct (bytes_eqb k (ws_key x)).
    + discriminate.
    + left. exact H1.
    + inversion H1; subst a d. right. exists x. split; [left; reflexivity|auto].
    + left. exact H1.
  - right. exists y. split; [right; exact Hy|exact R].
Qed.

(* ---------- what a read answers in a state of the pool with ghost order [done] ---------- *)
Definition GS (ws : list wspec) (f0 : fs) (done : list nat) (f1 : fs) : Prop :=
  exists pl1, PInvWd hash ws f0 done (pl1, f1) /\ CProv hash ws f0 f1 /\ cmono f0 f1.

Section Pool.
Variable ws : list wspec.
Variable f0 : fs.
Variable m0 : kv.
Variable W0 : list (algo * bytes).
Hypothesis H0 : HInv hash f0 m0 W0.
Hypothesis Hc0 : coll0 hash ws f0.
Hypothesis Hok : forallb (kv_ok hash) (map kv_of ws) = true.
Hypothesis Hnc : NoColl hash (W0 ++ written (map kv_of ws)).

Lemma in_written x : In x ws -> ws_rm x = false -> In (ws_a x, ws_data x) (written (map kv_of ws)).
Proof.
  intros Hin Hrm. unfold written. apply in_flat_map. exists (kv_of x). split; [apply in_map; exact Hin|].
  unfold kv_of. rewrite Hrm. left. reflexivity.
Qed.

Lemma Hcf : coll_free hash ws.
Proof.
  intros x y Hx Hy Hwx Hwy E. unfold x_cp in E.
  apply (Hnc (ws_a x) (ws_data x) (ws_a y) (ws_data y)); [apply in_or_app; right; apply in_written; assumption|apply in_or_app; right; apply in_written; assumption|exact E].
Qed.

Lemma Hwf : Forall (fun x => wf_rec hash (hop_rec (x_hop hash x))) ws.
Proof.
  apply Forall_forall. intros x Hx. rewrite forallb_forall in Hok. specialize (Hok (kv_of x) (in_map kv_of ws x Hx)).
  unfold kv_of, kv_ok in Hok. unfold x_hop, hop_rec. destruct (ws_rm x).
  - exact (opts_ok_wf_rec hash _ _ _ Hok).
  - exact (opts_ok_wf_rec hash _ _ _ Hok).
Qed.

Lemma Hinv0 : CacheInv f0.
Proof. exact (proj1 H0). Qed.

Lemma Hb0 : Backed hash f0.
Proof.
  intros k m Hk. destruct H0 as [_ [Hm Hst]]. specialize (Hm k). destruct (m0 k) as [[a d]|]; [|congruence].
  destruct Hm as [Hin [e [He Hs]]]. assert (e = m) by congruence. subst e.
  exists (cpath hash a d), d. rewrite Hs. split; [apply content_path_computed; exact HL|]. split; [exact (Hst a d Hin)|].
  unfold check_res. rewrite sri_check_self. reflexivity.
Qed.

Lemma rel0 : Rel (abs_idx hash f0) m0.
Proof.
  intros k. destruct H0 as [_ [Hm _]]. specialize (Hm k). destruct (m0 k) as [[a d]|]; [|exact Hm].
  destruct Hm as [_ Hex]. exact Hex.
Qed.

Lemma cpath_content a d : is_content (InCache (cpath hash a d)).
Proof. eexists. reflexivity. Qed.

Theorem atomic_read_spec done f1 k :
  GS ws f0 done f1 ->
  run (read hash k) f1 =
  (match fold_left kv_step (map kv_of (sel ws done)) m0 k with Some (a, d) => Ok d | None => Err ENotFound end, f1).
Proof.
  intros [pl1 [Hi [_ Hm]]].
  destruct (PInvWd_index hash HL ws f0 done pl1 f1 (proj1 Hinv0) Hwf Hi) as [Hidx [_ [Hdone Habs]]].
  assert (forall i, In i done -> (i < List.length ws)%nat) as Hlt by (intros i Hin; exact (proj1 (Hdone i Hin))).
  pose proof (rel_fold (sel ws done) _ _ rel0 k) as HR. rewrite <- (hops_sel ws done Hlt), <- Habs in HR.
  destruct (fold_left kv_step (map kv_of (sel ws done)) m0 k) as [[a d]|] eqn:EM.
  - destruct HR as [e [He Hs]]. rewrite (read_by_key hash f1 k e Hidx He), Hs. apply (read_hash_stored hash HL).
    destruct (kv_fold_prov _ _ _ _ _ EM) as [Hm0|[x [Hx [Hrm [-> ->]]]]].
    + destruct H0 as [_ [Hm' Hst]]. specialize (Hm' k). rewrite Hm0 in Hm'. destruct Hm' as [Hin _].
      exact (Hm _ _ (cpath_content a d) (Hst a d Hin)).
    + unfold sel in Hx. apply in_map_iff in Hx as [i [<- Hin]]. exact (proj2 (Hdone i Hin) Hrm).
  - unfold read, by_key, rbind. rewrite run_bind, (find_run hash f1 k Hidx), HR. reflexivity.
Qed.

(* the sequential run of any list of the threads' operations refines the same specification *)
Lemma NoColl_sub xs : (forall x, In x xs -> In x ws) -> NoColl hash (W0 ++ written (map kv_of xs)).
Proof.
  intros Hsub a d a' d' H1 H2. apply Hnc.
  - apply in_app_or in H1 as [H1|H1]; apply in_or_app; [left; exact H1|right].
    unfold written in *. apply in_flat_map in H1 as [o [Ho Hin]]. apply in_map_iff in Ho as [x [<- Hx]].
    apply in_flat_map. exists (kv_of x). split; [apply in_map; apply Hsub; exact Hx|exact Hin].
  - apply in_app_or in H2 as [H2|H2]; apply in_or_app; [left; exact H2|right].
    unfold written in *. apply in_flat_map in H2 as [o [Ho Hin]]. apply in_map_iff in Ho as [x [<- Hx]].
    apply in_flat_map. exists (kv_of x). split; [apply in_map; apply Hsub; exact Hx|exact Hin].
Qed.

Theorem serial_read_spec xs k :
  (forall x, In x xs -> In x ws) ->
  run (read hash k) (serial f0 xs) =
  (match fold_left kv_step (map kv_of xs) m0 k with Some (a, d) => Ok d | None => Err ENotFound end, serial f0 xs).
Proof.
  intros Hsub.
  assert (forallb (kv_ok hash) (map kv_of xs) = true) as Hok'.
  { apply forallb_forall. intros o Ho. apply in_map_iff in Ho as [x [<- Hx]]. rewrite forallb_forall in Hok. apply Hok. apply in_map. apply Hsub. exact Hx. }
  pose proof (history_refines hash HL (map kv_of xs) f0 m0 W0 H0 Hok' (NoColl_sub xs Hsub)) as Hh.
  exact (proj1 (hinv_reads hash HL _ _ _ Hh) k).
Qed.

(* ---------- readers, with the ghost prefix of their index step ---------- *)
Inductive rstd (k : bytes) (done : list nat) (f : fs) : prog (res bytes) -> Prop :=
| Rd0 : rstd k done f (read hash k)
| Rd1 n f1 : (n <= List.length done)%nat -> GS ws f0 (firstn n done) f1 -> cmono f1 f -> rstd k done f (phase2 hash k f1)
| Rd2 n f1 : (n <= List.length done)%nat -> GS ws f0 (firstn n done) f1 -> rstd k done f (Ret (fst (run (read hash k) f1))).

Lemma firstn_in {A} n : forall (l : list A) x, In x (firstn n l) -> In x l.
Proof. induction n as [|n IH]; intros l x H; [destruct H|]. destruct l as [|y l]; [destruct H|]. cbn [firstn] in H. destruct H as [->|H]; [left; reflexivity|right; exact (IH _ _ H)]. Qed.

Lemma firstn_app_le {A} n (l l' : list A) : (n <= List.length l)%nat -> firstn n (l ++ l') = firstn n l.
Proof. intros H. rewrite firstn_app. replace (n - List.length l)%nat with 0%nat by lia. cbn [firstn]. apply app_nil_r. Qed.

Lemma rstd_grow k done ext f f' r : rstd k done f r -> cmono f f' -> rstd k (done ++ ext) f' r.
Proof.
  intros H Hm. destruct H as [|n f1 Hn Hg Hm1|n f1 Hn Hg].
  - apply Rd0.
  - apply (Rd1 k (done ++ ext) f' n f1); [rewrite app_length; lia|rewrite (firstn_app_le n done ext Hn); exact Hg|exact (cmono_trans _ _ _ Hm1 Hm)].
  - apply (Rd2 k (done ++ ext) f' n f1); [rewrite app_length; lia|rewrite (firstn_app_le n done ext Hn); exact Hg].
Qed.

Lemma gs_facts d f1 : GS ws f0 d f1 -> IndexInv f1 /\ Backed hash f1.
Proof.
  intros [pl1 [Hi [Hp Hm]]]. split.
  - exact (proj1 (PInvWd_index hash HL ws f0 d pl1 f1 (proj1 Hinv0) Hwf Hi)).
  - apply (backed_reach hash HL ws f0 pl1 f1 (proj1 Hinv0) Hb0 Hwf); [exists d; exact Hi|exact Hm].
Qed.

Lemma rstd_read_step k done pl f c kk :
  GS ws f0 done f -> PInvWd hash ws f0 done (pl, f) -> rstd k done f (Do c kk) ->
  snd (exec c f) = f /\ rstd k done f (kk (fst (exec c f))).
Proof.
  intros Hg Hi H. remember (Do c kk) as r eqn:Er. destruct H as [|n f1 Hn Hg1 Hm1|n f1 Hn Hg1].
  - destruct (read_head hash k) as [k1 [E Hk]]. rewrite E in Er. injection Er as Ec Ek. subst c kk.
    split; [apply readfile_same|]. rewrite (Hk f (proj1 (gs_facts done f Hg))).
    apply (Rd1 k done f (List.length done) f); [lia|rewrite firstn_all; exact Hg|apply cmono_refl].
  - destruct (gs_facts _ f1 Hg1) as [Hi1 Hb1].
    unfold phase2 in Er. destruct (abs_idx hash f1 k) as [m|] eqn:Ea; [|discriminate].
    destruct (Hb1 k m Ea) as [p [d [Hp [Hl Hc]]]].
    destruct (read_hash_head hash (m_sri m) p Hp) as [k1 [E Hk]]. rewrite E in Er. injection Er as Ec Ek. subst c kk.
    split; [apply readfile_same|]. rewrite Hk.
    assert (lookup f (InCache p) = Some (File d)) as Hl2 by exact (Hm1 _ _ (content_path_content _ _ Hp) Hl).
    assert (fst (run (read hash k) f1) = rh_answer hash (m_sri m) (fst (exec (ReadFile (InCache p)) f))) as <-.
    { rewrite (phase2_run hash k f1 Hi1). unfold phase2. rewrite Ea, E. cbn [run].
      rewrite (exec_readfile_file _ _ _ Hl), (exec_readfile_file _ _ _ Hl2). rewrite Hk. reflexivity. }
    exact (Rd2 k done f n f1 Hn Hg1).
  - discriminate.
Qed.

Definition OInvd (ks : list bytes) (st : pool (res integrity) * pool (res bytes) * fs) : Prop :=
  let '(pl, rl, f) := st in
  exists done, PInvWd hash ws f0 done (pl, f) /\ CProv hash ws f0 f /\ cmono f0 f /\
    List.length rl = List.length ks /\
    forall j, (j < List.length ks)%nat -> rstd (nth j ks []) done f (nth j rl (Ret Stuck)).

Lemma OInvd_init ks : OInvd ks (map (wprog hash) ws, map (read hash) ks, f0).
Proof.
  exists []. split; [exact (PInvWd_init hash ws f0 Hinv0)|]. split; [apply cprov_init|]. split; [apply cmono_refl|].
  split; [apply map_length|]. intros j Hj.
  rewrite (nth_indep _ (Ret Stuck) (read hash [])) by (rewrite map_length; exact Hj).
  rewrite (map_nth (read hash) ks [] j). apply Rd0.
Qed.

Lemma OInvd_step ks st st' : OInvd ks st -> ostep st st' -> OInvd ks st'.
Proof.
  intros Hinv Hs. destruct Hs as [pl pl' rl f f' Hp|pl rl rl' f f' Hp].
  - destruct Hinv as [done [Hi [Hpv [Hm [Hlen Hst]]]]].
    destruct (PInvWd_step hash HL ws f0 done _ _ Hcf Hwf Hi Hp) as [ext Hi'].
    destruct (cprov_step hash ws f0 pl f pl' f' Hcf Hc0 (ex_intro _ done Hi) Hpv Hp) as [Hpv' Hm'].
    exists (done ++ ext). split; [exact Hi'|]. split; [exact Hpv'|]. split; [exact (cmono_trans _ _ _ Hm Hm')|]. split; [exact Hlen|].
    intros j Hj. exact (rstd_grow _ _ ext _ _ _ (Hst j Hj) Hm').
  - destruct Hinv as [done [Hi [Hpv [Hm [Hlen Hst]]]]]. inversion Hp as [pre c k post f1 E1 E2]. subst rl f1 rl'.
    set (j0 := List.length pre).
    assert (j0 < List.length ks)%nat as Hj0 by (rewrite <- Hlen, app_length; cbn [List.length]; lia).
    pose proof (Hst j0 Hj0) as Hrj. unfold j0 in Hrj at 2. rewrite nth_mid in Hrj.
    assert (GS ws f0 done f) as Hg by (exists pl; auto).
    destruct (rstd_read_step _ done pl f c k Hg Hi Hrj) as [Hsame Hnew]. rewrite Hsame.
    exists done. split; [exact Hi|]. split; [exact Hpv|]. split; [exact Hm|]. split; [rewrite <- Hlen, !app_length; reflexivity|].
    intros j Hj. destruct (Nat.eq_dec j j0) as [->|Hne].
    + unfold j0 at 2. rewrite nth_mid. exact Hnew.
    + rewrite (nth_other pre post _ (Do c k)) by exact Hne. exact (Hst j Hj).
Qed.

Lemma OInvd_reach ks st st' : OInvd ks st -> oreach st st' -> OInvd ks st'.
Proof. intros Hi Hr. induction Hr as [s|s1 s2 s3 Hs _ IH]; [exact Hi|]. exact (IH (OInvd_step ks _ _ Hi Hs)). Qed.

(* ---------- the theorem ---------- *)
Theorem serializable_with_readers ks pl' rl' f' rs :
  oreach (map (wprog hash) ws, map (read hash) ks, f0) (pl', rl', f') -> results pl' = Some rs ->
  exists perm,
    Permutation perm ws /\
    rs = map (fun x => Ok (x_res hash x)) ws /\
    (forall k, fst (run (read hash k) f') = fst (run (read hash k) (serial f0 perm))) /\
    (forall j a, (j < List.length ks)%nat -> nth j rl' (Ret Stuck) = Ret a ->
       exists n, (n <= List.length perm)%nat /\ a = fst (run (read hash (nth j ks [])) (serial f0 (firstn n perm)))).
Proof.
  intros Hr Hres.
  destruct (OInvd_reach ks _ _ (OInvd_init ks) Hr) as [done [Hi [Hpv [Hm [Hlen Hst]]]]].
  assert (GS ws f0 done f') as Hg by (exists pl'; auto).
  pose proof Hi as [owns [Hnd [Hlt [Hlenp [Hlo [Hstw _]]]]]].
  pose proof (results_some_ret pl' rs Hres) as Epl.
  assert (forall i, (i < List.length ws)%nat -> nth i rs Stuck = Ok (x_res hash (nth i ws dw)) /\ In i done) as Hall.
  { intros i Hi'. pose proof (Hstw i Hi') as Hs. rewrite Epl in Hs. rewrite (map_nth (@Ret (res integrity)) rs Stuck i) in Hs.
    destruct (wst_ret hash _ _ _ _ _ Hs) as [E1 [E2 _]]. split; [exact E1|apply member_spec; exact E2]. }
  assert (List.length rs = List.length ws) as Hlr by (rewrite <- Hlenp, Epl, map_length; reflexivity).
  assert (Permutation done (seq 0 (List.length ws))) as Hperm.
  { apply NoDup_Permutation; [exact Hnd|apply seq_NoDup|]. intros y. rewrite in_seq. split; [intros H; split; [lia|apply Hlt; exact H]|intros [_ H]; apply (Hall y H)]. }
  assert (Permutation (sel ws done) ws) as Hp.
  { unfold sel. pose proof (Permutation_map (fun i => nth i ws dw) Hperm) as H. rewrite (map_nth_seq ws dw) in H. exact H. }
  assert (forall n x, In x (firstn n (sel ws done)) -> In x ws) as Hsubn.
  { intros n x Hx. apply (Permutation_in _ Hp). exact (firstn_in _ _ _ Hx). }
  exists (sel ws done). split; [exact Hp|]. split.
  { apply (nth_ext _ _ Stuck (Ok (x_res hash dw))); [rewrite map_length; exact Hlr|].
    intros n Hn. rewrite Hlr in Hn. rewrite (proj1 (Hall n Hn)). symmetry. apply (map_nth (fun x => Ok (x_res hash x)) ws dw n). }
  split.
  { intros k. rewrite (atomic_read_spec done f' k Hg).
    rewrite (serial_read_spec (sel ws done) k (fun x Hx => Permutation_in _ Hp Hx)). reflexivity. }
  intros j a Hj Ha. pose proof (Hst j Hj) as H. rewrite Ha in H.
  remember (Ret a) as r eqn:Er. destruct H as [|n f1 Hn Hg1 Hm1|n f1 Hn Hg1].
  - destruct (read_head hash (nth j ks [])) as [k1 [E _]]. rewrite E in Er. discriminate.
  - exists n. split; [unfold sel; rewrite map_length; exact Hn|].
    assert (a = fst (run (read hash (nth j ks [])) f1)) as ->.
    { rewrite (phase2_run hash _ _ (proj1 (gs_facts _ f1 Hg1))), Er. reflexivity. }
    rewrite (atomic_read_spec _ f1 _ Hg1). unfold sel at 2. rewrite firstn_map. fold (sel ws (firstn n done)).
    rewrite (serial_read_spec (sel ws (firstn n done)) _); [reflexivity|].
    intros x Hx. apply (Hsubn n). unfold sel. rewrite firstn_map. exact Hx.
  - exists n. split; [unfold sel; rewrite map_length; exact Hn|].
    assert (a = fst (run (read hash (nth j ks [])) f1)) as -> by (injection Er as E; symmetry; exact E).
    rewrite (atomic_read_spec _ f1 _ Hg1). unfold sel at 2. rewrite firstn_map. fold (sel ws (firstn n done)).
    rewrite (serial_read_spec (sel ws (firstn n done)) _); [reflexivity|].
    intros x Hx. apply (Hsubn n). unfold sel. rewrite firstn_map. exact Hx.
Qed.

(* ---------- readers of two kinds in one pool: read by key (two steps) and metadata / index lookup (one step) ---------- *)
Inductive rop := RRead (k : bytes) | RMeta (k : bytes).
Inductive robs := OBytes (r : res bytes) | OMeta (r : res (option meta)).
Definition wrapB (r : res bytes) : prog robs := Ret (OBytes r).
Definition wrapM (r : res (option meta)) : prog robs := Ret (OMeta r).
Definition rprog (op : rop) : prog robs :=
  match op with RRead k => bind (read hash k) wrapB | RMeta k => bind (find hash k) wrapM end.
(* the operation run atomically on a tree *)
Definition ranswer (op : rop) (f : fs) : robs :=
  match op with RRead k => OBytes (fst (run (read hash k) f)) | RMeta k => OMeta (fst (run (find hash k) f)) end.

Lemma find_head k :
  exists kk g, find hash k = Do (ReadFile (InCache (bucket_path hash k))) kk /\ (forall r, kk r = Ret (g r)) /\
               forall f, fst (run (find hash k) f) = g (fst (exec (ReadFile (InCache (bucket_path hash k))) f)).
Proof.
  eexists. exists (fun r => match r with RBytes d => Ok (find_in k (entries hash d)) | RErr ENOENT => Ok (find_in k []) | RErr _ => Err EIoErr | _ => Stuck end).
  split; [reflexivity|]. split.
  - intros r. destruct r as [|d| | | | |e]; try reflexivity. destruct e; reflexivity.
  - intros f. unfold find, bucket_entries, rbind. cbn [bind run].
    destruct (exec (ReadFile (InCache (bucket_path hash k))) f) as [r g] eqn:Ex. cbn [fst].
    destruct r as [|d| | | | |e]; try reflexivity. destruct e; reflexivity.
Qed.

Inductive rstd2 (op : rop) (done : list nat) (f : fs) : prog robs -> Prop :=
| S0 : rstd2 op done f (rprog op)
| S1 k n f1 : op = RRead k -> (n <= List.length done)%nat -> GS ws f0 (firstn n done) f1 -> cmono f1 f ->
              rstd2 op done f (bind (phase2 hash k f1) wrapB)
| S2 n f1 : (n <= List.length done)%nat -> GS ws f0 (firstn n done) f1 -> rstd2 op done f (Ret (ranswer op f1)).

Lemma rstd2_grow op done ext f f' r : rstd2 op done f r -> cmono f f' -> rstd2 op (done ++ ext) f' r.
Proof.
  intros H Hm. destruct H as [|k n f1 Eo Hn Hg Hm1|n f1 Hn Hg].
  - apply S0.
  - apply (S1 op (done ++ ext) f' k n f1 Eo); [rewrite app_length; lia|rewrite (firstn_app_le n done ext Hn); exact Hg|exact (cmono_trans _ _ _ Hm1 Hm)].
  - apply (S2 op (done ++ ext) f' n f1); [rewrite app_length; lia|rewrite (firstn_app_le n done ext Hn); exact Hg].
Qed.

Lemma bind_do {A B} (p : prog A) (w : A -> B) c K :
  Do c K = bind p (fun r => Ret (w r)) -> exists kk, p = Do c kk /\ forall r, K r = bind (kk r) (fun r => Ret (w r)).
Proof.
  destruct p as [a|c0 kk]; cbn [bind]; intros E; [discriminate|].
  injection E as Ec Ek. subst c0. exists kk. split; [reflexivity|]. intros r. rewrite Ek. reflexivity.
Qed.

Lemma rstd2_read_step op done pl f c K :
  GS ws f0 done f -> PInvWd hash ws f0 done (pl, f) -> rstd2 op done f (Do c K) ->
  snd (exec c f) = f /\ rstd2 op done f (K (fst (exec c f))).
Proof.
  intros Hg Hi H. remember (Do c K) as r eqn:Er. destruct H as [|k n f1 Eo Hn Hg1 Hm1|n f1 Hn Hg1].
  - destruct op as [k|k]; unfold rprog, wrapB, wrapM in Er.
    + destruct (bind_do _ _ _ _ (eq_sym Er)) as [kk [Ep Hk]].
      destruct (read_head hash k) as [k1 [E Hk1]]. rewrite E in Ep. injection Ep as Ec Ek. subst c kk.
      split; [apply readfile_same|]. rewrite Hk, (Hk1 f (proj1 (gs_facts done f Hg))).
      apply (S1 (RRead k) done f k (List.length done) f eq_refl); [lia|rewrite firstn_all; exact Hg|apply cmono_refl].
    + destruct (bind_do _ _ _ _ (eq_sym Er)) as [kk [Ep Hk]].
      destruct (find_head k) as [k1 [g [E [Hk1 Hrun]]]]. rewrite E in Ep. injection Ep as Ec Ek. subst c kk.
      split; [apply readfile_same|]. rewrite Hk, Hk1. cbn [bind]. rewrite <- Hrun.
      apply (S2 (RMeta k) done f (List.length done) f); [lia|rewrite firstn_all; exact Hg].
  - subst op. unfold wrapB in Er. destruct (bind_do _ _ _ _ (eq_sym Er)) as [kk [Ep Hk]].
    destruct (gs_facts _ f1 Hg1) as [Hi1 Hb1].
    unfold phase2 in Ep. destruct (abs_idx hash f1 k) as [m|] eqn:Ea; [|discriminate].
    destruct (Hb1 k m Ea) as [p [d [Hp [Hl Hc]]]].
    destruct (read_hash_head hash (m_sri m) p Hp) as [k1 [E Hk1]]. rewrite E in Ep. injection Ep as Ec Ek. subst c kk.
    split; [apply readfile_same|]. rewrite Hk, Hk1. cbn [bind].
    assert (lookup f (InCache p) = Some (File d)) as Hl2 by exact (Hm1 _ _ (content_path_content _ _ Hp) Hl).
    assert (fst (run (read hash k) f1) = rh_answer hash (m_sri m) (fst (exec (ReadFile (InCache p)) f))) as <-.
    { rewrite (phase2_run hash k f1 Hi1). unfold phase2. rewrite Ea, E. cbn [run].
      rewrite (exec_readfile_file _ _ _ Hl), (exec_readfile_file _ _ _ Hl2). rewrite Hk1. reflexivity. }
    exact (S2 (RRead k) done f n f1 Hn Hg1).
  - discriminate.
Qed.

Definition OInv2 (ops : list rop) (st : pool (res integrity) * pool robs * fs) : Prop :=
  let '(pl, rl, f) := st in
  exists done, PInvWd hash ws f0 done (pl, f) /\ CProv hash ws f0 f /\ cmono f0 f /\
    List.length rl = List.length ops /\
    forall j, (j < List.length ops)%nat -> rstd2 (nth j ops (RMeta [])) done f (nth j rl (Ret (OMeta Stuck))).

Lemma OInv2_init ops : OInv2 ops (map (wprog hash) ws, map rprog ops, f0).
Proof.
  exists []. split; [exact (PInvWd_init hash ws f0 Hinv0)|]. split; [apply cprov_init|]. split; [apply cmono_refl|].
  split; [apply map_length|]. intros j Hj.
  rewrite (nth_indep _ (Ret (OMeta Stuck)) (rprog (RMeta []))) by (rewrite map_length; exact Hj).
  rewrite (map_nth rprog ops (RMeta []) j). apply S0.
Qed.

Lemma OInv2_step ops st st' : OInv2 ops st -> ostep st st' -> OInv2 ops st'.
Proof.
  intros Hinv Hs. destruct Hs as [pl pl' rl f f' Hp|pl rl rl' f f' Hp].
  - destruct Hinv as [done [Hi [Hpv [Hm [Hlen Hst]]]]].
    destruct (PInvWd_step hash HL ws f0 done _ _ Hcf Hwf Hi Hp) as [ext Hi'].
    destruct (cprov_step hash ws f0 pl f pl' f' Hcf Hc0 (ex_intro _ done Hi) Hpv Hp) as [Hpv' Hm'].
    exists (done ++ ext). split; [exact Hi'|]. split; [exact Hpv'|]. split; [exact (cmono_trans _ _ _ Hm Hm')|]. split; [exact Hlen|].
    intros j Hj. exact (rstd2_grow _ _ ext _ _ _ (Hst j Hj) Hm').
  - destruct Hinv as [done [Hi [Hpv [Hm [Hlen Hst]]]]]. inversion Hp as [pre c k post f1 E1 E2]. subst rl f1 rl'.
    set (j0 := List.length pre).
    assert (j0 < List.length ops)%nat as Hj0 by (rewrite <- Hlen, app_length; cbn [List.length]; lia).
    pose proof (Hst j0 Hj0) as Hrj. unfold j0 in Hrj at 2. rewrite nth_mid in Hrj.
    assert (GS ws f0 done f) as Hg by (exists pl; auto).
    destruct (rstd2_read_step _ done pl f c k Hg Hi Hrj) as [Hsame Hnew]. rewrite Hsame.
    exists done. split; [exact Hi|]. split; [exact Hpv|]. split; [exact Hm|]. split; [rewrite <- Hlen, !app_length; reflexivity|].
    intros j Hj. destruct (Nat.eq_dec j j0) as [->|Hne].
    + unfold j0 at 2. rewrite nth_mid. exact Hnew.
    + rewrite (nth_other pre post _ (Do c k)) by exact Hne. exact (Hst j Hj).
Qed.

Lemma OInv2_reach ops st st' : OInv2 ops st -> oreach st st' -> OInv2 ops st'.
Proof. intros Hi Hr. induction Hr as [s|s1 s2 s3 Hs _ IH]; [exact Hi|]. exact (IH (OInv2_step ops _ _ Hi Hs)). Qed.

(* the index after running a list of the threads' operations one after the other *)
Lemma kv_step_abs f x k :
  CacheInv f -> kv_ok hash (kv_of x) = true ->
  CacheInv (kv_run hash f (kv_of x)) /\ abs_idx hash (kv_run hash f (kv_of x)) k = spec_step (abs_idx hash f) (x_hop hash x) k.
Proof.
  intros Hinv Hk. unfold kv_of, x_hop in *. destruct (ws_rm x); cbn [kv_run kv_ok spec_step] in *.
  - pose proof (opts_ok_wf_rec hash _ _ _ Hk) as Hw.
    destruct (remove_scope hash f (ws_key x) (ws_now x) (proj1 Hinv) Hw) as [_ [Hi' [Habs [Hfr _]]]].
    split; [|rewrite Habs; reflexivity].
    destruct Hinv as [Hi [Hcs Hts]]. split; [exact Hi'|]. split.
    + intros p n Hl. rewrite Hfr in Hl by (intros q E; inversion E as [[H1 H2]]; vm_compute in H1; discriminate). exact (Hcs p n Hl).
    + unfold TmpShape, dir_or_absent in *. rewrite Hfr by (intros q E; inversion E as [[H1 H2]]; vm_compute in H1; discriminate). exact Hts.
  - pose proof (opts_ok_wf_rec hash _ _ _ Hk) as Hw.
    destruct (write_roundtrip hash HL f Sync (ws_a x) (ws_key x) (ws_data x) (ws_now x) Hinv Hw) as [_ [Hinv' [_ [_ [Hfr [m [Hm [M1 [M2 [M3 [M4 [M5 M6]]]]]]]]]]]].
    split; [exact Hinv'|]. destruct (bytes_eqb k (ws_key x)) eqn:Ek.
    + apply bytes_eqb_eq in Ek. subst k.
      assert (abs_idx hash (snd (run (write hash Sync (ws_a x) (ws_key x) (ws_data x) (ws_now x)) f)) (ws_key x) = Some m) as Hkey.
      { pose proof (find_run hash _ (ws_key x) (proj1 Hinv')) as E. rewrite Hm in E. congruence. }
      rewrite Hkey. unfold new_entry, x_o', x_sri. cbn [o_sri o_time o_size o_meta o_raw]. f_equal.
      destruct m as [mk ms mt mz mm mr]. cbn in M1, M2, M3, M4, M5, M6. subst. reflexivity.
    + apply bytes_eqb_neq in Ek. exact (Hfr k Ek).
Qed.

Lemma serial_abs_idx xs : forall f k,
  CacheInv f -> forallb (kv_ok hash) (map kv_of xs) = true ->
  abs_idx hash (serial f xs) k = fold_left spec_step (map (x_hop hash) xs) (abs_idx hash f) k /\ CacheInv (serial f xs).
Proof.
  induction xs as [|x xs IH]; intros f k Hinv Hk; [split; [reflexivity|exact Hinv]|].
  cbn [map forallb] in Hk. apply andb_true_iff in Hk as [Hk1 Hk2].
  unfold serial. cbn [map fold_left]. fold (serial (kv_run hash f (kv_of x)) xs).
  destruct (kv_step_abs f x k Hinv Hk1) as [Hinv' _].
  destruct (IH (kv_run hash f (kv_of x)) k Hinv' Hk2) as [E Hc]. split; [|exact Hc]. rewrite E.
  assert (forall E1 E2 : bytes -> option meta, (forall k, E1 k = E2 k) -> forall hs k, fold_left spec_step hs E1 k = fold_left spec_step hs E2 k) as Hext.
  { intros E1 E2 He hs. revert E1 E2 He. induction hs as [|h hs IHh]; intros E1 E2 He k0; [apply He|].
    cbn [fold_left]. apply IHh. intros k1. unfold spec_step. destruct h; destruct (bytes_eqb k1 key); try reflexivity; apply He. }
  apply Hext. intros k1. exact (proj2 (kv_step_abs f x k1 Hinv Hk1)).
Qed.

Theorem serializable_mixed ops pl' rl' f' rs :
  oreach (map (wprog hash) ws, map rprog ops, f0) (pl', rl', f') -> results pl' = Some rs ->
  exists perm,
    Permutation perm ws /\
    rs = map (fun x => Ok (x_res hash x)) ws /\
    (forall op, ranswer op f' = ranswer op (serial f0 perm)) /\
    (forall j a, (j < List.length ops)%nat -> nth j rl' (Ret (OMeta Stuck)) = Ret a ->
       exists n, (n <= List.length perm)%nat /\ a = ranswer (nth j ops (RMeta [])) (serial f0 (firstn n perm))).
Proof.
  intros Hr Hres.
  destruct (OInv2_reach ops _ _ (OInv2_init ops) Hr) as [done [Hi [Hpv [Hm [Hlen Hst]]]]].
  assert (GS ws f0 done f') as Hg by (exists pl'; auto).
  pose proof Hi as [owns [Hnd [Hlt [Hlenp [Hlo [Hstw _]]]]]].
  pose proof (results_some_ret pl' rs Hres) as Epl.
  assert (forall i, (i < List.length ws)%nat -> nth i rs Stuck = Ok (x_res hash (nth i ws dw)) /\ In i done) as Hall.
  { intros i Hi'. pose proof (Hstw i Hi') as Hs. rewrite Epl in Hs. rewrite (map_nth (@Ret (res integrity)) rs Stuck i) in Hs.
    destruct (wst_ret hash _ _ _ _ _ Hs) as [E1 [E2 _]]. split; [exact E1|apply member_spec; exact E2]. }
  assert (List.length rs = List.length ws) as Hlr by (rewrite <- Hlenp, Epl, map_length; reflexivity).
  assert (Permutation done (seq 0 (List.length ws))) as Hperm.
  { apply NoDup_Permutation; [exact Hnd|apply seq_NoDup|]. intros y. rewrite in_seq. split; [intros H; split; [lia|apply Hlt; exact H]|intros [_ H]; apply (Hall y H)]. }
  assert (Permutation (sel ws done) ws) as Hp.
  { unfold sel. pose proof (Permutation_map (fun i => nth i ws dw) Hperm) as H. rewrite (map_nth_seq ws dw) in H. exact H. }
  (* the atomic answer at a ghost prefix is the answer after the sequential run of that prefix *)
  assert (forall op d f1, (forall i, In i d -> In i done) -> GS ws f0 d f1 -> ranswer op f1 = ranswer op (serial f0 (sel ws d))) as Hans.
  { intros op d f1 Hsub Hg1.
    assert (forall x, In x (sel ws d) -> In x ws) as Hsubw.
    { intros x Hx. unfold sel in Hx. apply in_map_iff in Hx as [i [<- Hin]]. apply nth_In. apply Hlt. apply Hsub. exact Hin. }
    destruct op as [k|k]; unfold ranswer; f_equal.
    - rewrite (atomic_read_spec d f1 k Hg1), (serial_read_spec (sel ws d) k Hsubw). reflexivity.
    - destruct Hg1 as [pl1 [Hi1 _]].
      destruct (PInvWd_index hash HL ws f0 d pl1 f1 (proj1 Hinv0) Hwf Hi1) as [Hidx [_ [Hdone Habs]]].
      assert (forall i, In i d -> (i < List.length ws)%nat) as Hlt1 by (intros i Hin; exact (proj1 (Hdone i Hin))).
      assert (forallb (kv_ok hash) (map kv_of (sel ws d)) = true) as Hok1.
      { apply forallb_forall. intros o Ho. apply in_map_iff in Ho as [x [<- Hx]]. rewrite forallb_forall in Hok. apply Hok. apply in_map. apply Hsubw. exact Hx. }
      destruct (serial_abs_idx (sel ws d) f0 k Hinv0 Hok1) as [Es Hcs].
      rewrite (find_run hash f1 k Hidx), (find_run hash _ k (proj1 Hcs)). cbn [fst]. f_equal.
      rewrite Habs, Es, (hops_sel ws d Hlt1). reflexivity. }
  exists (sel ws done). split; [exact Hp|]. split.
  { apply (nth_ext _ _ Stuck (Ok (x_res hash dw))); [rewrite map_length; exact Hlr|].
    intros n Hn. rewrite Hlr in Hn. rewrite (proj1 (Hall n Hn)). symmetry. apply (map_nth (fun x => Ok (x_res hash x)) ws dw n). }
  split; [intros op; exact (Hans op done f' (fun i H => H) Hg)|].
  intros j a Hj Ha. pose proof (Hst j Hj) as H. rewrite Ha in H.
  assert (forall n f1, (n <= List.length done)%nat -> GS ws f0 (firstn n done) f1 ->
            exists n', (n' <= List.length (sel ws done))%nat /\
              ranswer (nth j ops (RMeta [])) f1 = ranswer (nth j ops (RMeta [])) (serial f0 (firstn n' (sel ws done)))) as Hpos.
  { intros n f1 Hn Hg1. exists n. split; [unfold sel; rewrite map_length; exact Hn|].
    rewrite (Hans _ (firstn n done) f1 (fun i Hin => firstn_in _ _ _ Hin) Hg1). unfold sel. rewrite firstn_map. reflexivity. }
  remember (Ret a) as r eqn:Er. destruct H as [|k n f1 Eo Hn Hg1 Hm1|n f1 Hn Hg1].
  - exfalso. destruct (nth j ops (RMeta [])) as [k|k]; unfold rprog in Er.
    + destruct (read_head hash k) as [k1 [E _]]. rewrite E in Er. discriminate.
    + destruct (find_head k) as [k1 [g [E _]]]. rewrite E in Er. discriminate.
  - destruct (Hpos n f1 Hn Hg1) as [n' [Hn' E]]. exists n'. split; [exact Hn'|]. rewrite <- E, Eo. unfold ranswer.
    destruct (phase2 hash k f1) as [v|c0 k0] eqn:Ep; [|discriminate]. cbn [bind] in Er. unfold wrapB in Er. injection Er as <-.
    rewrite (phase2_run hash k f1 (proj1 (gs_facts _ f1 Hg1))), Ep. reflexivity.
  - destruct (Hpos n f1 Hn Hg1) as [n' [Hn' E]]. exists n'. split; [exact Hn'|]. rewrite <- E. injection Er as <-. reflexivity.
Qed.

End Pool.
End CS.
