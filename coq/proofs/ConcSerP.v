(* ConcSerP.v — serialisability of whole operations, writers / removers AND readers, unbounded.
   Any number of keyed one-shot writers and tombstone removers run with any number of readers by key, any interleaving of
   all their filesystem steps.  Then there is ONE sequential order of the writers / removers (the order of their append
   steps, a permutation) and, for every reader, a position in that order, such that
   * every writer / remover returns what it returns when run alone;
   * every read of the final tree answers as on the tree produced by running the writers / removers one after the other
     in that order (real sequential runs of the library's programs, [serial]);
   * every reader's result is the result of the same read on the tree produced by running the first n operations of that
     order one after the other — the reader is serialised at position n.
   Proof: the ghost order of appends of ConcWriteP carried through the two-pool semantics; each reader remembers the
   ghost prefix at its index step; both the concurrent state at that prefix and the sequential run of that prefix refine
   the key-value specification of HistP (last write per key), whose reads are determined. *)
From CC Require Import Bytes Codec Utf8 Lines Json Sri Record Fs Prog Api Crash Conc BytesP CodecP FsP ProgP SriP RecordP IndexP ReadP WriteP CommitP RemoveP CrashP CrashIdxP FormatP ConfineP KeepP HistP MetaP ConcP ConcIdxP ConcWriteP ConcReadP.
From Coq Require Import Permutation Lia.
Local Open Scope N_scope.

Section CS.
Variable hash : algo -> bytes -> bytes.
Hypothesis HL : HashLen hash.

(* the operation of a thread as a step of the sequential key-value history of HistP *)
Definition kv_of (x : wspec) : kvop :=
  if ws_rm x then KRemove (ws_key x) (ws_now x) else KWrite Sync (ws_a x) (ws_key x) (ws_data x) (ws_now x).

(* the threads' programs one after the other (real runs of [write] / [delete]) *)
Definition serial (f0 : fs) (xs : list wspec) : fs := fold_left (kv_run hash) (map kv_of xs) f0.

Definition sel (ws : list wspec) (done : list nat) : list wspec := map (fun i => nth i ws dw) done.

Lemma hops_sel ws done : (forall i, In i done -> (i < List.length ws)%nat) ->
  hops_of (map (x_hop hash) ws) done = map (x_hop hash) (sel ws done).
Proof.
  intros Hlt. unfold hops_of, sel. rewrite map_map. apply map_ext_in. intros i Hin.
  rewrite (nth_indep _ dflt (x_hop hash dw)) by (rewrite map_length; apply Hlt; exact Hin). apply (map_nth (x_hop hash) ws dw i).
Qed.

(* ---------- index map vs key-value map ---------- *)
Definition Rel (E : bytes -> option meta) (M : kv) : Prop :=
  forall k, match M k with
            | Some (a, d) => exists e, E k = Some e /\ m_sri e = sri_of hash a d
            | None => E k = None
            end.

Lemma rel_step E M x : Rel E M -> Rel (spec_step E (x_hop hash x)) (kv_step M (kv_of x)).
Proof.
  intros H k. unfold x_hop, kv_of. destruct (ws_rm x); cbn [spec_step kv_step]; destruct (bytes_eqb k (ws_key x)); try exact (H k).
  - reflexivity.
  - cbn. eexists. split; reflexivity.
Qed.

Lemma rel_fold xs : forall E M, Rel E M ->
  Rel (fold_left spec_step (map (x_hop hash) xs) E) (fold_left kv_step (map kv_of xs) M).
Proof. induction xs as [|x xs IH]; intros E M H; [exact H|]. cbn [map fold_left]. apply IH. apply rel_step. exact H. Qed.

Lemma kv_fold_prov xs : forall (M : kv) k a d,
  fold_left kv_step (map kv_of xs) M k = Some (a, d) ->
  M k = Some (a, d) \/ exists x, In x xs /\ ws_rm x = false /\ a = ws_a x /\ d = ws_data x.
Proof.
  induction xs as [|x xs IH]; intros M k a d H; [left; exact H|].
  cbn [map fold_left] in H. destruct (IH _ _ _ _ H) as [H1|[y [Hy R]]].
  - unfold kv_step, kv_of in H1. destruct (ws_rm x) eqn:Erm; destruct (bytes_eqb k (ws_key x)).
    + discriminate.
    + left. exact H1.
    + inversion H1; subst a d. right. exists x. split; [left; reflexivity|auto].
    + left. exact H1.
  - right. exists y. split; [right; exact Hy|exact R].
Qed.

(* ---------- what a read answers in a state of the pool with ghost order [done] ---------- *)
(* content files are kept, and if the initial content area has no symbolic link then neither has the later one *)
Definition CM (f0 f1 : fs) : Prop := cmono f0 f1 /\ (NoSymC f0 -> NoSymC f1).
Definition GS (ws : list wspec) (f0 : fs) (done : list nat) (f1 : fs) : Prop :=
  exists pl1, PInvWd hash ws f0 done (pl1, f1) /\ CProv hash ws f0 f1 /\ CM f0 f1.

Section Pool.
Variable ws : list wspec.
Variable f0 : fs.
Variable m0 : kv.
Variable W0 : list (algo * bytes).
Hypothesis H0 : HInv hash f0 m0 W0.
Hypothesis Hc0 : coll0 hash ws f0.
Hypothesis Hok : forallb (kv_ok hash) (map kv_of ws) = true.
Hypothesis Hnc : NoColl hash (W0 ++ written (map kv_of ws)).

Lemma in_written x : In x ws -> ws_rm x = false -> In (ws_a x, ws_data x) (written (map kv_of ws)).
Proof.
  intros Hin Hrm. unfold written. apply in_flat_map. exists (kv_of x). split; [apply in_map; exact Hin|].
  unfold kv_of. rewrite Hrm. left. reflexivity.
Qed.

Lemma Hcf : coll_free hash ws.
Proof.
  intros x y Hx Hy Hwx Hwy E. unfold x_cp in E.
  apply (Hnc (ws_a x) (ws_data x) (ws_a y) (ws_data y)); [apply in_or_app; right; apply in_written; assumption|apply in_or_app; right; apply in_written; assumption|exact E].
Qed.

Lemma Hwf : Forall (fun x => wf_rec hash (hop_rec (x_hop hash x))) ws.
Proof.
  apply Forall_forall. intros x Hx. rewrite forallb_forall in Hok. specialize (Hok (kv_of x) (in_map kv_of ws x Hx)).
  unfold kv_of, kv_ok in Hok. unfold x_hop, hop_rec. destruct (ws_rm x).
  - exact (opts_ok_wf_rec hash _ _ _ Hok).
  - exact (opts_ok_wf_rec hash _ _ _ Hok).
Qed.

Lemma Hinv0 : CacheInv f0.
Proof. exact (proj1 H0). Qed.

Lemma Hb0 : Backed hash f0.
Proof.
  intros k m Hk. destruct H0 as [_ [Hm Hst]]. specialize (Hm k). destruct (m0 k) as [[a d]|]; [|congruence].
  destruct Hm as [Hin [e [He Hs]]]. assert (e = m) by congruence. subst e.
  exists (cpath hash a d), d. rewrite Hs. split; [apply content_path_computed; exact HL|]. split; [exact (Hst a d Hin)|].
  unfold check_res. rewrite sri_check_self. reflexivity.
Qed.

Lemma rel0 : Rel (abs_idx hash f0) m0.
Proof.
  intros k. destruct H0 as [_ [Hm _]]. specialize (Hm k). destruct (m0 k) as [[a d]|]; [|exact Hm].
  destruct Hm as [_ Hex]. exact Hex.
Qed.

Lemma cpath_content a d : is_content (InCache (cpath hash a d)).
Proof. eexists. reflexivity. Qed.

Theorem atomic_read_spec done f1 k :
  GS ws f0 done f1 ->
  run (read hash k) f1 =
  (match fold_left kv_step (map kv_of (sel ws done)) m0 k with Some (a, d) => Ok d | None => Err ENotFound end, f1).
Proof.
  intros [pl1 [Hi [_ [Hm _]]]].
  destruct (PInvWd_index hash HL ws f0 done pl1 f1 (proj1 Hinv0) Hwf Hi) as [Hidx [_ [Hdone Habs]]].
  assert (forall i, In i done -> (i < List.length ws)%nat) as Hlt by (intros i Hin; exact (proj1 (Hdone i Hin))).
  pose proof (rel_fold (sel ws done) _ _ rel0 k) as HR. rewrite <- (hops_sel ws done Hlt), <- Habs in HR.
  destruct (fold_left kv_step (map kv_of (sel ws done)) m0 k) as [[a d]|] eqn:EM.
  - destruct HR as [e [He Hs]]. rewrite (read_by_key hash f1 k e Hidx He), Hs. apply (read_hash_stored hash HL).
    destruct (kv_fold_prov _ _ _ _ _ EM) as [Hm0|[x [Hx [Hrm [-> ->]]]]].
    + destruct H0 as [_ [Hm' Hst]]. specialize (Hm' k). rewrite Hm0 in Hm'. destruct Hm' as [Hin _].
      exact (Hm _ _ (cpath_content a d) (Hst a d Hin)).
    + unfold sel in Hx. apply in_map_iff in Hx as [i [<- Hin]]. exact (proj2 (Hdone i Hin) Hrm).
  - unfold read, by_key, rbind. rewrite run_bind, (find_run hash f1 k Hidx), HR. reflexivity.
Qed.

(* the sequential run of any list of the threads' operations refines the same specification *)
Lemma NoColl_sub xs : (forall x, In x xs -> In x ws) -> NoColl hash (W0 ++ written (map kv_of xs)).
Proof.
  intros Hsub a d a' d' H1 H2. apply Hnc.
  - apply in_app_or in H1 as [H1|H1]; apply in_or_app; [left; exact H1|right].
    unfold written in *. apply in_flat_map in H1 as [o [Ho Hin]]. apply in_map_iff in Ho as [x [<- Hx]].
    apply in_flat_map. exists (kv_of x). split; [apply in_map; apply Hsub; exact Hx|exact Hin].
  - apply in_app_or in H2 as [H2|H2]; apply in_or_app; [left; exact H2|right].
    unfold written in *. apply in_flat_map in H2 as [o [Ho Hin]]. apply in_map_iff in Ho as [x [<- Hx]].
    apply in_flat_map. exists (kv_of x). split; [apply in_map; apply Hsub; exact Hx|exact Hin].
Qed.

Theorem serial_read_spec xs k :
  (forall x, In x xs -> In x ws) ->
  run (read hash k) (serial f0 xs) =
  (match fold_left kv_step (map kv_of xs) m0 k with Some (a, d) => Ok d | None => Err ENotFound end, serial f0 xs).
Proof.
  intros Hsub.
  assert (forallb (kv_ok hash) (map kv_of xs) = true) as Hok'.
  { apply forallb_forall. intros o Ho. apply in_map_iff in Ho as [x [<- Hx]]. rewrite forallb_forall in Hok. apply Hok. apply in_map. apply Hsub. exact Hx. }
  pose proof (history_refines hash HL (map kv_of xs) f0 m0 W0 H0 Hok' (NoColl_sub xs Hsub)) as Hh.
  exact (proj1 (hinv_reads hash HL _ _ _ Hh) k).
Qed.

(* ---------- readers, with the ghost prefix of their index step ---------- *)
Inductive rstd (k : bytes) (done : list nat) (f : fs) : prog (res bytes) -> Prop :=
| Rd0 : rstd k done f (read hash k)
| Rd1 n f1 : (n <= List.length done)%nat -> GS ws f0 (firstn n done) f1 -> cmono f1 f -> rstd k done f (phase2 hash k f1)
| Rd2 n f1 : (n <= List.length done)%nat -> GS ws f0 (firstn n done) f1 -> rstd k done f (Ret (fst (run (read hash k) f1))).

Lemma firstn_in {A} n : forall (l : list A) x, In x (firstn n l) -> In x l.
Proof. induction n as [|n IH]; intros l x H; [destruct H|]. destruct l as [|y l]; [destruct H|]. cbn [firstn] in H. destruct H as [->|H]; [left; reflexivity|right; exact (IH _ _ H)]. Qed.

Lemma firstn_app_le {A} n (l l' : list A) : (n <= List.length l)%nat -> firstn n (l ++ l') = firstn n l.
Proof. intros H. rewrite firstn_app. replace (n - List.length l)%nat with 0%nat by lia. cbn [firstn]. apply app_nil_r. Qed.

Lemma rstd_grow k done ext f f' r : rstd k done f r -> cmono f f' -> rstd k (done ++ ext) f' r.
Proof.
  intros H Hm. destruct H as [|n f1 Hn Hg Hm1|n f1 Hn Hg].
  - apply Rd0.
  - apply (Rd1 k (done ++ ext) f' n f1); [rewrite app_length; lia|rewrite (firstn_app_le n done ext Hn); exact Hg|exact (cmono_trans _ _ _ Hm1 Hm)].
  - apply (Rd2 k (done ++ ext) f' n f1); [rewrite app_length; lia|rewrite (firstn_app_le n done ext Hn); exact Hg].
Qed.

Lemma gs_facts d f1 : GS ws f0 d f1 -> IndexInv f1 /\ Backed hash f1.
Proof.
  intros [pl1 [Hi [Hp [Hm _]]]]. split.
  - exact (proj1 (PInvWd_index hash HL ws f0 d pl1 f1 (proj1 Hinv0) Hwf Hi)).
  - apply (backed_reach hash HL ws f0 pl1 f1 (proj1 Hinv0) Hb0 Hwf); [exists d; exact Hi|exact Hm].
Qed.

Lemma rstd_read_step k done pl f c kk :
  GS ws f0 done f -> PInvWd hash ws f0 done (pl, f) -> rstd k done f (Do c kk) ->
  snd (exec c f) = f /\ rstd k done f (kk (fst (exec c f))).
Proof.
  intros Hg Hi H. remember (Do c kk) as r eqn:Er. destruct H as [|n f1 Hn Hg1 Hm1|n f1 Hn Hg1].
  - destruct (read_head hash k) as [k1 [E Hk]]. rewrite E in Er. injection Er as Ec Ek. subst c kk.
    split; [apply readfile_same|]. rewrite (Hk f (proj1 (gs_facts done f Hg))).
    apply (Rd1 k done f (List.length done) f); [lia|rewrite firstn_all; exact Hg|apply cmono_refl].
  - destruct (gs_facts _ f1 Hg1) as [Hi1 Hb1].
    unfold phase2 in Er. destruct (abs_idx hash f1 k) as [m|] eqn:Ea; [|discriminate].
    destruct (Hb1 k m Ea) as [p [d [Hp [Hl Hc]]]].
    destruct (read_hash_head hash (m_sri m) p Hp) as [k1 [E Hk]]. rewrite E in Er. injection Er as Ec Ek. subst c kk.
    split; [apply readfile_same|]. rewrite Hk.
    assert (lookup f (InCache p) = Some (File d)) as Hl2 by exact (Hm1 _ _ (content_path_content _ _ Hp) Hl).
    assert (fst (run (read hash k) f1) = rh_answer hash (m_sri m) (fst (exec (ReadFile (InCache p)) f))) as <-.
    { rewrite (phase2_run hash k f1 Hi1). unfold phase2. rewrite Ea, E. cbn [run].
      rewrite (exec_readfile_file _ _ _ Hl), (exec_readfile_file _ _ _ Hl2). rewrite Hk. reflexivity. }
    exact (Rd2 k done f n f1 Hn Hg1).
  - discriminate.
Qed.

Definition OInvd (ks : list bytes) (st : pool (res integrity) * pool (res bytes) * fs) : Prop :=
  let '(pl, rl, f) := st in
  exists done, PInvWd hash ws f0 done (pl, f) /\ CProv hash ws f0 f /\ CM f0 f /\
    List.length rl = List.length ks /\
    forall j, (j < List.length ks)%nat -> rstd (nth j ks []) done f (nth j rl (Ret Stuck)).

Lemma OInvd_init ks : OInvd ks (map (wprog hash) ws, map (read hash) ks, f0).
Proof.
  exists []. split; [exact (PInvWd_init hash ws f0 Hinv0)|]. split; [apply cprov_init|]. split; [split; [apply cmono_refl|intros H; exact H]|].
  split; [apply map_length|]. intros j Hj.
  rewrite (nth_indep _ (Ret Stuck) (read hash [])) by (rewrite map_length; exact Hj).
  rewrite (map_nth (read hash) ks [] j). apply Rd0.
Qed.

Lemma OInvd_step ks st st' : OInvd ks st -> ostep st st' -> OInvd ks st'.
Proof.
  intros Hinv Hs. destruct Hs as [pl pl' rl f f' Hp|pl rl rl' f f' Hp].
  - destruct Hinv as [done [Hi [Hpv [Hm [Hlen Hst]]]]].
    destruct (PInvWd_step hash HL ws f0 done _ _ Hcf Hwf Hi Hp) as [ext Hi'].
    destruct (cprov_step hash ws f0 pl f pl' f' Hcf Hc0 (ex_intro _ done Hi) Hpv Hp) as [Hpv' Hm'].
    exists (done ++ ext). split; [exact Hi'|]. split; [exact Hpv'|]. split; [split; [exact (cmono_trans _ _ _ (proj1 Hm) Hm')|intros Hn0; exact (nosym_step hash ws f0 pl f pl' f' (ex_intro _ done Hi) (proj2 Hm Hn0) Hp)]|]. split; [exact Hlen|].
    intros j Hj. exact (rstd_grow _ _ ext _ _ _ (Hst j Hj) Hm').
  - destruct Hinv as [done [Hi [Hpv [Hm [Hlen Hst]]]]]. inversion Hp as [pre c k post f1 E1 E2]. subst rl f1 rl'.
    set (j0 := List.length pre).
    assert (j0 < List.length ks)%nat as Hj0 by (rewrite <- Hlen, app_length; cbn [List.length]; lia).
    pose proof (Hst j0 Hj0) as Hrj. unfold j0 in Hrj at 2. rewrite nth_mid in Hrj.
    assert (GS ws f0 done f) as Hg by (exists pl; auto).
    destruct (rstd_read_step _ done pl f c k Hg Hi Hrj) as [Hsame Hnew]. rewrite Hsame.
    exists done. split; [exact Hi|]. split; [exact Hpv|]. split; [exact Hm|]. split; [rewrite <- Hlen, !app_length; reflexivity|].
    intros j Hj. destruct (Nat.eq_dec j j0) as [->|Hne].
    + unfold j0 at 2. rewrite nth_mid. exact Hnew.
    + rewrite (nth_other pre post _ (Do c k)) by exact Hne. exact (Hst j Hj).
Qed.

Lemma OInvd_reach ks st st' : OInvd ks st -> oreach st st' -> OInvd ks st'.
Proof. intros Hi Hr. induction Hr as [s|s1 s2 s3 Hs _ IH]; [exact Hi|]. exact (IH (OInvd_step ks _ _ Hi Hs)). Qed.

(* ---------- the theorem ---------- *)
Theorem serializable_with_readers ks pl' rl' f' rs :
  oreach (map (wprog hash) ws, map (read hash) ks, f0) (pl', rl', f') -> results pl' = Some rs ->
  exists perm,
    Permutation perm ws /\
    rs = map (fun x => Ok (x_res hash x)) ws /\
    (forall k, fst (run (read hash k) f') = fst (run (read hash k) (serial f0 perm))) /\
    (forall j a, (j < List.length ks)%nat -> nth j rl' (Ret Stuck) = Ret a ->
       exists n, (n <= List.length perm)%nat /\ a = fst (run (read hash (nth j ks [])) (serial f0 (firstn n perm)))).
Proof.
  intros Hr Hres.
  destruct (OInvd_reach ks _ _ (OInvd_init ks) Hr) as [done [Hi [Hpv [Hm [Hlen Hst]]]]].
  assert (GS ws f0 done f') as Hg by (exists pl'; auto).
  pose proof Hi as [owns [Hnd [Hlt [Hlenp [Hlo [Hstw _]]]]]].
  pose proof (results_some_ret pl' rs Hres) as Epl.
  assert (forall i, (i < List.length ws)%nat -> nth i rs Stuck = Ok (x_res hash (nth i ws dw)) /\ In i done) as Hall.
  { intros i Hi'. pose proof (Hstw i Hi') as Hs. rewrite Epl in Hs. rewrite (map_nth (@Ret (res integrity)) rs Stuck i) in Hs.
    destruct (wst_ret hash _ _ _ _ _ Hs) as [E1 [E2 _]]. split; [exact E1|apply member_spec; exact E2]. }
  assert (List.length rs = List.length ws) as Hlr by (rewrite <- Hlenp, Epl, map_length; reflexivity).
  assert (Permutation done (seq 0 (List.length ws))) as Hperm.
  { apply NoDup_Permutation; [exact Hnd|apply seq_NoDup|]. intros y. rewrite in_seq. split; [intros H; split; [lia|apply Hlt; exact H]|intros [_ H]; apply (Hall y H)]. }
  assert (Permutation (sel ws done) ws) as Hp.
  { unfold sel. pose proof (Permutation_map (fun i => nth i ws dw) Hperm) as H. rewrite (map_nth_seq ws dw) in H. exact H. }
  assert (forall n x, In x (firstn n (sel ws done)) -> In x ws) as Hsubn.
  { intros n x Hx. apply (Permutation_in _ Hp). exact (firstn_in _ _ _ Hx). }
  exists (sel ws done). split; [exact Hp|]. split.
  { apply (nth_ext _ _ Stuck (Ok (x_res hash dw))); [rewrite map_length; exact Hlr|].
    intros n Hn. rewrite Hlr in Hn. rewrite (proj1 (Hall n Hn)). symmetry. apply (map_nth (fun x => Ok (x_res hash x)) ws dw n). }
  split.
  { intros k. rewrite (atomic_read_spec done f' k Hg).
    rewrite (serial_read_spec (sel ws done) k (fun x Hx => Permutation_in _ Hp Hx)). reflexivity. }
  intros j a Hj Ha. pose proof (Hst j Hj) as H. rewrite Ha in H.
  remember (Ret a) as r eqn:Er. destruct H as [|n f1 Hn Hg1 Hm1|n f1 Hn Hg1].
  - destruct (read_head hash (nth j ks [])) as [k1 [E _]]. rewrite E in Er. discriminate.
  - exists n. split; [unfold sel; rewrite map_length; exact Hn|].
    assert (a = fst (run (read hash (nth j ks [])) f1)) as ->.
    { rewrite (phase2_run hash _ _ (proj1 (gs_facts _ f1 Hg1))), Er. reflexivity. }
    rewrite (atomic_read_spec _ f1 _ Hg1). unfold sel at 2. rewrite firstn_map. fold (sel ws (firstn n done)).
    rewrite (serial_read_spec (sel ws (firstn n done)) _); [reflexivity|].
    intros x Hx. apply (Hsubn n). unfold sel. rewrite firstn_map. exact Hx.
  - exists n. split; [unfold sel; rewrite map_length; exact Hn|].
    assert (a = fst (run (read hash (nth j ks [])) f1)) as -> by (injection Er as E; symmetry; exact E).
    rewrite (atomic_read_spec _ f1 _ Hg1). unfold sel at 2. rewrite firstn_map. fold (sel ws (firstn n done)).
    rewrite (serial_read_spec (sel ws (firstn n done)) _); [reflexivity|].
    intros x Hx. apply (Hsubn n). unfold sel. rewrite firstn_map. exact Hx.
Qed.

(* ---------- readers of two kinds in one pool: read by key (two steps) and metadata / index lookup (one step) ---------- *)
Inductive rop := RRead (k : bytes) | RMeta (k : bytes) | RHash (a : algo) (d : bytes) | RExists (a : algo) (d : bytes).
Inductive robs := OBytes (r : res bytes) | OMeta (r : res (option meta)) | OBool (r : res bool).
Definition wrapB (r : res bytes) : prog robs := Ret (OBytes r).
Definition wrapM (r : res (option meta)) : prog robs := Ret (OMeta r).
Definition wrapL (r : res bool) : prog robs := Ret (OBool r).
Definition rprog (op : rop) : prog robs :=
  match op with
  | RRead k => bind (read hash k) wrapB
  | RMeta k => bind (find hash k) wrapM
  | RHash a d => bind (read_hash hash (sri_of hash a d)) wrapB          (* read by the address of some data *)
  | RExists a d => bind (exists_hash (sri_of hash a d)) wrapL
  end.
(* the operation run atomically on a tree *)
Definition ranswer (op : rop) (f : fs) : robs :=
  match op with
  | RRead k => OBytes (fst (run (read hash k) f))
  | RMeta k => OMeta (fst (run (find hash k) f))
  | RHash a d => OBytes (fst (run (read_hash hash (sri_of hash a d)) f))
  | RExists a d => OBool (fst (run (exists_hash (sri_of hash a d)) f))
  end.

Lemma hash_head a d :
  exists kk, read_hash hash (sri_of hash a d) = Do (ReadFile (InCache (cpath hash a d))) kk /\
    (forall r, kk r = Ret (rh_answer hash (sri_of hash a d) r)) /\
    forall f, fst (run (read_hash hash (sri_of hash a d)) f) = rh_answer hash (sri_of hash a d) (fst (exec (ReadFile (InCache (cpath hash a d))) f)).
Proof.
  destruct (read_hash_head hash (sri_of hash a d) (cpath hash a d) (content_path_computed hash a d HL)) as [kk [E Hk]].
  exists kk. split; [exact E|]. split; [exact Hk|]. intros f. rewrite E. cbn [run].
  destruct (exec (ReadFile (InCache (cpath hash a d))) f) as [r g]. rewrite Hk. reflexivity.
Qed.

Definition ex_answer (r : ret) : res bool := match r with RBool b => Ok b | _ => Stuck end.
Lemma exists_head a d :
  exists kk, exists_hash (sri_of hash a d) = Do (Exists (InCache (cpath hash a d))) kk /\
    (forall r, kk r = Ret (ex_answer r)) /\
    forall f, fst (run (exists_hash (sri_of hash a d)) f) = ex_answer (fst (exec (Exists (InCache (cpath hash a d))) f)).
Proof.
  unfold exists_hash, with_cpath. rewrite (content_path_computed hash a d HL). eexists. split; [reflexivity|]. split.
  - intros r. destruct r; reflexivity.
  - intros f. cbn [run]. destruct (exec (Exists (InCache (cpath hash a d))) f) as [r g]. destruct r; reflexivity.
Qed.

Lemma exists_same f l : snd (exec (Exists l) f) = f.
Proof. reflexivity. Qed.

Lemma find_head k :
  exists kk g, find hash k = Do (ReadFile (InCache (bucket_path hash k))) kk /\ (forall r, kk r = Ret (g r)) /\
               forall f, fst (run (find hash k) f) = g (fst (exec (ReadFile (InCache (bucket_path hash k))) f)).
Proof.
  eexists. exists (fun r => match r with RBytes d => Ok (find_in k (entries hash d)) | RErr ENOENT => Ok (find_in k []) | RErr _ => Err EIoErr | _ => Stuck end).
  split; [reflexivity|]. split.
  - intros r. destruct r as [|d| | | | |e]; try reflexivity. destruct e; reflexivity.
  - intros f. unfold find, bucket_entries, rbind. cbn [bind run].
    destruct (exec (ReadFile (InCache (bucket_path hash k))) f) as [r g] eqn:Ex. cbn [fst].
    destruct r as [|d| | | | |e]; try reflexivity. destruct e; reflexivity.
Qed.

Inductive rstd2 (op : rop) (done : list nat) (f : fs) : prog robs -> Prop :=
| S0 : rstd2 op done f (rprog op)
| S1 k n f1 : op = RRead k -> (n <= List.length done)%nat -> GS ws f0 (firstn n done) f1 -> cmono f1 f ->
              rstd2 op done f (bind (phase2 hash k f1) wrapB)
| S2 n f1 : (n <= List.length done)%nat -> GS ws f0 (firstn n done) f1 -> rstd2 op done f (Ret (ranswer op f1)).

Lemma rstd2_grow op done ext f f' r : rstd2 op done f r -> cmono f f' -> rstd2 op (done ++ ext) f' r.
Proof.
  intros H Hm. destruct H as [|k n f1 Eo Hn Hg Hm1|n f1 Hn Hg].
  - apply S0.
  - apply (S1 op (done ++ ext) f' k n f1 Eo); [rewrite app_length; lia|rewrite (firstn_app_le n done ext Hn); exact Hg|exact (cmono_trans _ _ _ Hm1 Hm)].
  - apply (S2 op (done ++ ext) f' n f1); [rewrite app_length; lia|rewrite (firstn_app_le n done ext Hn); exact Hg].
Qed.

Lemma bind_do {A B} (p : prog A) (w : A -> B) c K :
  Do c K = bind p (fun r => Ret (w r)) -> exists kk, p = Do c kk /\ forall r, K r = bind (kk r) (fun r => Ret (w r)).
Proof.
  destruct p as [a|c0 kk]; cbn [bind]; intros E; [discriminate|].
  injection E as Ec Ek. subst c0. exists kk. split; [reflexivity|]. intros r. rewrite Ek. reflexivity.
Qed.

Lemma rstd2_read_step op done pl f c K :
  GS ws f0 done f -> PInvWd hash ws f0 done (pl, f) -> rstd2 op done f (Do c K) ->
  snd (exec c f) = f /\ rstd2 op done f (K (fst (exec c f))).
Proof.
  intros Hg Hi H. remember (Do c K) as r eqn:Er. destruct H as [|k n f1 Eo Hn Hg1 Hm1|n f1 Hn Hg1].
  - destruct op as [k|k|a d|a d]; unfold rprog, wrapB, wrapM, wrapL in Er.
    + destruct (bind_do _ _ _ _ (eq_sym Er)) as [kk [Ep Hk]].
      destruct (read_head hash k) as [k1 [E Hk1]]. rewrite E in Ep. injection Ep as Ec Ek. subst c kk.
      split; [apply readfile_same|]. rewrite Hk, (Hk1 f (proj1 (gs_facts done f Hg))).
      apply (S1 (RRead k) done f k (List.length done) f eq_refl); [lia|rewrite firstn_all; exact Hg|apply cmono_refl].
    + destruct (bind_do _ _ _ _ (eq_sym Er)) as [kk [Ep Hk]].
      destruct (find_head k) as [k1 [g [E [Hk1 Hrun]]]]. rewrite E in Ep. injection Ep as Ec Ek. subst c kk.
      split; [apply readfile_same|]. rewrite Hk, Hk1. cbn [bind]. rewrite <- Hrun.
      apply (S2 (RMeta k) done f (List.length done) f); [lia|rewrite firstn_all; exact Hg].
    + destruct (bind_do _ _ _ _ (eq_sym Er)) as [kk [Ep Hk]].
      destruct (hash_head a d) as [k1 [E [Hk1 Hrun]]]. rewrite E in Ep. injection Ep as Ec Ek. subst c kk.
      split; [apply readfile_same|]. rewrite Hk, Hk1. cbn [bind]. rewrite <- Hrun.
      apply (S2 (RHash a d) done f (List.length done) f); [lia|rewrite firstn_all; exact Hg].
    + destruct (bind_do _ _ _ _ (eq_sym Er)) as [kk [Ep Hk]].
      destruct (exists_head a d) as [k1 [E [Hk1 Hrun]]]. rewrite E in Ep. injection Ep as Ec Ek. subst c kk.
      split; [apply exists_same|]. rewrite Hk, Hk1. cbn [bind]. rewrite <- Hrun.
      apply (S2 (RExists a d) done f (List.length done) f); [lia|rewrite firstn_all; exact Hg].
  - subst op. unfold wrapB in Er. destruct (bind_do _ _ _ _ (eq_sym Er)) as [kk [Ep Hk]].
    destruct (gs_facts _ f1 Hg1) as [Hi1 Hb1].
    unfold phase2 in Ep. destruct (abs_idx hash f1 k) as [m|] eqn:Ea; [|discriminate].
    destruct (Hb1 k m Ea) as [p [d [Hp [Hl Hc]]]].
    destruct (read_hash_head hash (m_sri m) p Hp) as [k1 [E Hk1]]. rewrite E in Ep. injection Ep as Ec Ek. subst c kk.
    split; [apply readfile_same|]. rewrite Hk, Hk1. cbn [bind].
    assert (lookup f (InCache p) = Some (File d)) as Hl2 by exact (Hm1 _ _ (content_path_content _ _ Hp) Hl).
    assert (fst (run (read hash k) f1) = rh_answer hash (m_sri m) (fst (exec (ReadFile (InCache p)) f))) as <-.
    { rewrite (phase2_run hash k f1 Hi1). unfold phase2. rewrite Ea, E. cbn [run].
      rewrite (exec_readfile_file _ _ _ Hl), (exec_readfile_file _ _ _ Hl2). rewrite Hk1. reflexivity. }
    exact (S2 (RRead k) done f n f1 Hn Hg1).
  - discriminate.
Qed.

Definition OInv2 (ops : list rop) (st : pool (res integrity) * pool robs * fs) : Prop :=
  let '(pl, rl, f) := st in
  exists done, PInvWd hash ws f0 done (pl, f) /\ CProv hash ws f0 f /\ CM f0 f /\
    List.length rl = List.length ops /\
    forall j, (j < List.length ops)%nat -> rstd2 (nth j ops (RMeta [])) done f (nth j rl (Ret (OMeta Stuck))).

Lemma OInv2_init ops : OInv2 ops (map (wprog hash) ws, map rprog ops, f0).
Proof.
  exists []. split; [exact (PInvWd_init hash ws f0 Hinv0)|]. split; [apply cprov_init|]. split; [split; [apply cmono_refl|intros H; exact H]|].
  split; [apply map_length|]. intros j Hj.
  rewrite (nth_indep _ (Ret (OMeta Stuck)) (rprog (RMeta []))) by (rewrite map_length; exact Hj).
  rewrite (map_nth rprog ops (RMeta []) j). apply S0.
Qed.

Lemma OInv2_step ops st st' : OInv2 ops st -> ostep st st' -> OInv2 ops st'.
Proof.
  intros Hinv Hs. destruct Hs as [pl pl' rl f f' Hp|pl rl rl' f f' Hp].
  - destruct Hinv as [done [Hi [Hpv [Hm [Hlen Hst]]]]].
    destruct (PInvWd_step hash HL ws f0 done _ _ Hcf Hwf Hi Hp) as [ext Hi'].
    destruct (cprov_step hash ws f0 pl f pl' f' Hcf Hc0 (ex_intro _ done Hi) Hpv Hp) as [Hpv' Hm'].
    exists (done ++ ext). split; [exact Hi'|]. split; [exact Hpv'|]. split; [split; [exact (cmono_trans _ _ _ (proj1 Hm) Hm')|intros Hn0; exact (nosym_step hash ws f0 pl f pl' f' (ex_intro _ done Hi) (proj2 Hm Hn0) Hp)]|]. split; [exact Hlen|].
    intros j Hj. exact (rstd2_grow _ _ ext _ _ _ (Hst j Hj) Hm').
  - destruct Hinv as [done [Hi [Hpv [Hm [Hlen Hst]]]]]. inversion Hp as [pre c k post f1 E1 E2]. subst rl f1 rl'.
    set (j0 := List.length pre).
    assert (j0 < List.length ops)%nat as Hj0 by (rewrite <- Hlen, app_length; cbn [List.length]; lia).
    pose proof (Hst j0 Hj0) as Hrj. unfold j0 in Hrj at 2. rewrite nth_mid in Hrj.
    assert (GS ws f0 done f) as Hg by (exists pl; auto).
    destruct (rstd2_read_step _ done pl f c k Hg Hi Hrj) as [Hsame Hnew]. rewrite Hsame.
    exists done. split; [exact Hi|]. split; [exact Hpv|]. split; [exact Hm|]. split; [rewrite <- Hlen, !app_length; reflexivity|].
    intros j Hj. destruct (Nat.eq_dec j j0) as [->|Hne].
    + unfold j0 at 2. rewrite nth_mid. exact Hnew.
    + rewrite (nth_other pre post _ (Do c k)) by exact Hne. exact (Hst j Hj).
Qed.

Lemma OInv2_reach ops st st' : OInv2 ops st -> oreach st st' -> OInv2 ops st'.
Proof. intros Hi Hr. induction Hr as [s|s1 s2 s3 Hs _ IH]; [exact Hi|]. exact (IH (OInv2_step ops _ _ Hi Hs)). Qed.

(* the index after running a list of the threads' operations one after the other *)
Lemma kv_step_abs f x k :
  CacheInv f -> kv_ok hash (kv_of x) = true ->
  CacheInv (kv_run hash f (kv_of x)) /\ abs_idx hash (kv_run hash f (kv_of x)) k = spec_step (abs_idx hash f) (x_hop hash x) k.
Proof.
  intros Hinv Hk. unfold kv_of, x_hop in *. destruct (ws_rm x); cbn [kv_run kv_ok spec_step] in *.
  - pose proof (opts_ok_wf_rec hash _ _ _ Hk) as Hw.
    destruct (remove_scope hash f (ws_key x) (ws_now x) (proj1 Hinv) Hw) as [_ [Hi' [Habs [Hfr _]]]].
    split; [|rewrite Habs; reflexivity].
    destruct Hinv as [Hi [Hcs Hts]]. split; [exact Hi'|]. split.
    + intros p n Hl. rewrite Hfr in Hl by (intros q E; inversion E as [[H1 H2]]; vm_compute in H1; discriminate). exact (Hcs p n Hl).
    + unfold TmpShape, dir_or_absent in *. rewrite Hfr by (intros q E; inversion E as [[H1 H2]]; vm_compute in H1; discriminate). exact Hts.
  - pose proof (opts_ok_wf_rec hash _ _ _ Hk) as Hw.
    destruct (write_roundtrip hash HL f Sync (ws_a x) (ws_key x) (ws_data x) (ws_now x) Hinv Hw) as [_ [Hinv' [_ [_ [Hfr [m [Hm [M1 [M2 [M3 [M4 [M5 M6]]]]]]]]]]]].
    split; [exact Hinv'|]. destruct (bytes_eqb k (ws_key x)) eqn:Ek.
    + apply bytes_eqb_eq in Ek. subst k.
      assert (abs_idx hash (snd (run (write hash Sync (ws_a x) (ws_key x) (ws_data x) (ws_now x)) f)) (ws_key x) = Some m) as Hkey.
      { pose proof (find_run hash _ (ws_key x) (proj1 Hinv')) as E. rewrite Hm in E. congruence. }
      rewrite Hkey. unfold new_entry, x_o', x_sri. cbn [o_sri o_time o_size o_meta o_raw]. f_equal.
      destruct m as [mk ms mt mz mm mr]. cbn in M1, M2, M3, M4, M5, M6. subst. reflexivity.
    + apply bytes_eqb_neq in Ek. exact (Hfr k Ek).
Qed.

Lemma serial_abs_idx xs : forall f k,
  CacheInv f -> forallb (kv_ok hash) (map kv_of xs) = true ->
  abs_idx hash (serial f xs) k = fold_left spec_step (map (x_hop hash) xs) (abs_idx hash f) k /\ CacheInv (serial f xs).
Proof.
  induction xs as [|x xs IH]; intros f k Hinv Hk; [split; [reflexivity|exact Hinv]|].
  cbn [map forallb] in Hk. apply andb_true_iff in Hk as [Hk1 Hk2].
  unfold serial. cbn [map fold_left]. fold (serial (kv_run hash f (kv_of x)) xs).
  destruct (kv_step_abs f x k Hinv Hk1) as [Hinv' _].
  destruct (IH (kv_run hash f (kv_of x)) k Hinv' Hk2) as [E Hc]. split; [|exact Hc]. rewrite E.
  assert (forall E1 E2 : bytes -> option meta, (forall k, E1 k = E2 k) -> forall hs k, fold_left spec_step hs E1 k = fold_left spec_step hs E2 k) as Hext.
  { intros E1 E2 He hs. revert E1 E2 He. induction hs as [|h hs IHh]; intros E1 E2 He k0; [apply He|].
    cbn [fold_left]. apply IHh. intros k1. unfold spec_step. destruct h; destruct (bytes_eqb k1 key); try reflexivity; apply He. }
  apply Hext. intros k1. exact (proj2 (kv_step_abs f x k1 Hinv Hk1)).
Qed.

(* ---------- content observers: what is under an address after a sequential run ---------- *)
Definition writes_at (l : loc) (x : wspec) : bool := negb (ws_rm x) && loc_eqb (InCache (x_cp hash x)) l.
Fixpoint last_at (l : loc) (xs : list wspec) : option bytes :=
  match xs with
  | [] => None
  | x :: t => match last_at l t with Some dd => Some dd | None => if writes_at l x then Some (ws_data x) else None end
  end.

Lemma last_at_some l xs dd : last_at l xs = Some dd -> exists z, In z xs /\ writes_at l z = true /\ dd = ws_data z.
Proof.
  induction xs as [|x t IH]; cbn [last_at]; [discriminate|]. destruct (last_at l t) as [d1|] eqn:E.
  - intros H. inversion H; subst d1. destruct (IH eq_refl) as [z [Hz R]]. exists z. split; [right; exact Hz|exact R].
  - destruct (writes_at l x) eqn:Ew; [|discriminate]. intros H. inversion H. exists x. split; [left; reflexivity|split; [exact Ew|reflexivity]].
Qed.

Lemma last_at_hit l xs z : In z xs -> writes_at l z = true -> last_at l xs <> None.
Proof.
  induction xs as [|x t IH]; [intros []|]. intros [->|Hin] Hw; cbn [last_at].
  - destruct (last_at l t); [discriminate|]. rewrite Hw. discriminate.
  - pose proof (IH Hin Hw) as H. destruct (last_at l t); [discriminate|contradiction].
Qed.

Lemma kv_run_content f x l :
  CacheInv f -> kv_ok hash (kv_of x) = true -> cfile hash l ->
  lookup (kv_run hash f (kv_of x)) l = if writes_at l x then Some (File (ws_data x)) else lookup f l.
Proof.
  intros Hinv Hk Hl. unfold writes_at, kv_of in Hk |- *. destruct (ws_rm x) eqn:Erm; cbn [negb andb kv_run kv_ok] in Hk |- *.
  - pose proof (opts_ok_wf_rec hash _ _ _ Hk) as Hw.
    destruct (remove_scope hash f (ws_key x) (ws_now x) (proj1 Hinv) Hw) as [_ [_ [_ [Hfr _]]]].
    apply Hfr. destruct Hl as [a [d ->]]. intros p E. inversion E as [[H1 H2]]; try (vm_compute in H1; discriminate).
  - pose proof (opts_ok_wf_rec hash _ _ _ Hk) as Hw.
    destruct (loc_eqb (InCache (x_cp hash x)) l) eqn:El.
    + apply loc_eqb_eq in El. subst l. exact (write_stored hash HL f Sync (ws_a x) (ws_key x) (ws_data x) (ws_now x) Hinv Hw).
    + unfold write. rewrite (oneshot_stream hash _ _ _ _ _ f Hinv).
      apply (stream_write_frame hash HL); [exact Hinv|exact Hl|]. rewrite concat_oneshot. cbn [write_opts algo_of].
      intros E. assert (loc_eqb (InCache (x_cp hash x)) l = true) as R by (apply loc_eqb_eq; rewrite <- E; reflexivity). congruence.
Qed.

Lemma serial_content l xs : forall f,
  CacheInv f -> forallb (kv_ok hash) (map kv_of xs) = true -> cfile hash l ->
  lookup (serial f xs) l = match last_at l xs with Some dd => Some (File dd) | None => lookup f l end.
Proof.
  induction xs as [|x pre IH] using rev_ind; intros f Hinv Hk Hl; [reflexivity|].
  rewrite map_app, forallb_app in Hk. apply andb_true_iff in Hk as [Hk1 Hk2]. cbn [map forallb] in Hk2. rewrite andb_true_r in Hk2.
  unfold serial. rewrite map_app, fold_left_app. cbn [map fold_left]. fold (serial f pre).
  rewrite (kv_run_content _ x l (proj2 (serial_abs_idx pre f [] Hinv Hk1)) Hk2 Hl), (IH f Hinv Hk1 Hl).
  assert (forall ys, last_at l (ys ++ [x]) = if writes_at l x then Some (ws_data x) else last_at l ys) as Hla.
  { induction ys as [|y ys IHy]; cbn [app last_at]; [destruct (writes_at l x); reflexivity|].
    rewrite IHy. destruct (writes_at l x); reflexivity. }
  rewrite Hla. destruct (writes_at l x); reflexivity.
Qed.

Definition content_op (op : rop) : Prop := match op with RHash _ _ | RExists _ _ => True | _ => False end.

Lemma content_obs op a d f g :
  op = RHash a d \/ op = RExists a d ->
  lookup f (InCache (cpath hash a d)) = lookup g (InCache (cpath hash a d)) ->
  (lookup f (InCache (cpath hash a d)) = None \/ exists d', lookup f (InCache (cpath hash a d)) = Some (File d')) ->
  ranswer op f = ranswer op g.
Proof.
  intros Hop E Hs.
  assert (resolve f (InCache (cpath hash a d)) = resolve g (InCache (cpath hash a d))) as Er.
  { unfold resolve. rewrite <- E. destruct Hs as [Hn|[d' Hd]]; [rewrite Hn|rewrite Hd]; reflexivity. }
  destruct Hop as [-> | ->]; unfold ranswer; f_equal.
  - destruct (hash_head a d) as [k1 [_ [_ Hrun]]]. rewrite !Hrun. unfold exec. rewrite Er.
    destruct (resolve g (InCache (cpath hash a d))) as [[b| |t]|]; reflexivity.
  - destruct (exists_head a d) as [k1 [_ [_ Hrun]]]. rewrite !Hrun. unfold exec. rewrite Er. reflexivity.
Qed.

Lemma content_serial a d d1 f1 perm :
  NoSymC f0 -> GS ws f0 d1 f1 -> Permutation perm ws ->
  (exists d', lookup f1 (InCache (cpath hash a d)) = Some (File d') /\ lookup (serial f0 perm) (InCache (cpath hash a d)) = Some (File d')) \/
  (lookup f1 (InCache (cpath hash a d)) = None /\ lookup (serial f0 (sel ws d1)) (InCache (cpath hash a d)) = None).
Proof.
  intros Hns [pl1 [Hi1 [Hp1 [Hm1 Hn1]]]] Hperm. set (l := InCache (cpath hash a d)).
  assert (cfile hash l) as Hcf' by (exists a, d; reflexivity).
  destruct (PInvWd_index hash HL ws f0 d1 pl1 f1 (proj1 Hinv0) Hwf Hi1) as [_ [_ [Hdone _]]].
  pose proof Hi1 as [owns [_ [_ [_ [_ [_ [_ [_ [Hcs1 _]]]]]]]]].
  assert (forall xs, (forall x, In x xs -> In x ws) -> forallb (kv_ok hash) (map kv_of xs) = true) as Hoks.
  { intros xs Hsub. apply forallb_forall. intros o Ho. apply in_map_iff in Ho as [x [<- Hx]]. rewrite forallb_forall in Hok. apply Hok. apply in_map. apply Hsub. exact Hx. }
  assert (forall z, writes_at l z = true -> ws_rm z = false /\ InCache (x_cp hash z) = l) as Hwa.
  { intros z Hz. unfold writes_at in Hz. apply andb_true_iff in Hz as [H1 H2]. split; [destruct (ws_rm z); [discriminate|reflexivity]|apply loc_eqb_eq; exact H2]. }
  destruct (lookup f1 l) as [[d'| |t]|] eqn:E1.
  - left. exists d'. split; [reflexivity|].
    rewrite (serial_content l perm f0 Hinv0 (Hoks perm (fun x Hx => Permutation_in _ Hperm Hx)) Hcf').
    destruct (Hp1 l d' (cpath_content a d) E1) as [H0f|[y [Hy [Hwy [El ->]]]]].
    + destruct (last_at l perm) as [dd|] eqn:Ela; [|exact H0f].
      destruct (last_at_some l perm dd Ela) as [z [Hz [Hwz ->]]]. destruct (Hwa z Hwz) as [Hrz Hlz].
      f_equal. f_equal. symmetry. apply (Hc0 z d' (Permutation_in _ Hperm Hz) Hrz). rewrite Hlz. exact H0f.
    + assert (writes_at l y = true) as Hwy'.
      { unfold writes_at. rewrite Hwy. cbn [negb andb]. apply loc_eqb_eq. symmetry. exact El. }
      assert (In y perm) as Hyp by (apply (Permutation_in _ (Permutation_sym Hperm)); exact Hy).
      destruct (last_at l perm) as [dd|] eqn:Ela; [|exfalso; exact (last_at_hit l perm y Hyp Hwy' Ela)].
      destruct (last_at_some l perm dd Ela) as [z [Hz [Hwz ->]]]. destruct (Hwa z Hwz) as [Hrz Hlz].
      f_equal. f_equal. apply (Hcf z y (Permutation_in _ Hperm Hz) Hy Hrz Hwy). congruence.
  - exfalso. unfold l, cpath in E1. exact (proj2 (Hcs1 _ _ E1) eq_refl eq_refl).
  - exfalso. unfold l, cpath in E1. exact (Hn1 Hns _ _ E1).
  - right. split; [reflexivity|].
    assert (forall x, In x (sel ws d1) -> In x ws) as Hsub.
    { intros x Hx. unfold sel in Hx. apply in_map_iff in Hx as [i [<- Hin]]. apply nth_In. exact (proj1 (Hdone i Hin)). }
    rewrite (serial_content l (sel ws d1) f0 Hinv0 (Hoks _ Hsub) Hcf').
    destruct (last_at l (sel ws d1)) as [dd|] eqn:Ela.
    + exfalso. destruct (last_at_some l _ dd Ela) as [z [Hz [Hwz _]]]. destruct (Hwa z Hwz) as [Hrz Hlz].
      unfold sel in Hz. apply in_map_iff in Hz as [i [<- Hin]]. pose proof (proj2 (Hdone i Hin) Hrz) as Hc. rewrite Hlz in Hc. rewrite E1 in Hc. discriminate.
    + destruct (lookup f0 l) as [[b| |t]|] eqn:E0; [| | |reflexivity]; exfalso.
      * pose proof (Hm1 l b (cpath_content a d) E0) as H. congruence.
      * unfold l, cpath in E0. exact (proj2 (proj1 (proj2 Hinv0) _ _ E0) eq_refl eq_refl).
      * unfold l, cpath in E0. exact (Hns _ _ E0).
Qed.

Theorem serializable_mixed ops pl' rl' f' rs :
  oreach (map (wprog hash) ws, map rprog ops, f0) (pl', rl', f') -> results pl' = Some rs ->
  exists perm,
    Permutation perm ws /\
    rs = map (fun x => Ok (x_res hash x)) ws /\
    (forall op, (content_op op -> NoSymC f0) -> ranswer op f' = ranswer op (serial f0 perm)) /\
    (forall j a, (j < List.length ops)%nat -> (content_op (nth j ops (RMeta [])) -> NoSymC f0) ->
       nth j rl' (Ret (OMeta Stuck)) = Ret a ->
       exists n, (n <= List.length perm)%nat /\ a = ranswer (nth j ops (RMeta [])) (serial f0 (firstn n perm))).
Proof.
  intros Hr Hres.
  destruct (OInv2_reach ops _ _ (OInv2_init ops) Hr) as [done [Hi [Hpv [Hm [Hlen Hst]]]]].
  assert (GS ws f0 done f') as Hg by (exists pl'; auto).
  pose proof Hi as [owns [Hnd [Hlt [Hlenp [Hlo [Hstw _]]]]]].
  pose proof (results_some_ret pl' rs Hres) as Epl.
  assert (forall i, (i < List.length ws)%nat -> nth i rs Stuck = Ok (x_res hash (nth i ws dw)) /\ In i done) as Hall.
  { intros i Hi'. pose proof (Hstw i Hi') as Hs. rewrite Epl in Hs. rewrite (map_nth (@Ret (res integrity)) rs Stuck i) in Hs.
    destruct (wst_ret hash _ _ _ _ _ Hs) as [E1 [E2 _]]. split; [exact E1|apply member_spec; exact E2]. }
  assert (List.length rs = List.length ws) as Hlr by (rewrite <- Hlenp, Epl, map_length; reflexivity).
  assert (Permutation done (seq 0 (List.length ws))) as Hperm.
  { apply NoDup_Permutation; [exact Hnd|apply seq_NoDup|]. intros y. rewrite in_seq. split; [intros H; split; [lia|apply Hlt; exact H]|intros [_ H]; apply (Hall y H)]. }
  assert (Permutation (sel ws done) ws) as Hp.
  { unfold sel. pose proof (Permutation_map (fun i => nth i ws dw) Hperm) as H. rewrite (map_nth_seq ws dw) in H. exact H. }
  (* index observers: the atomic answer at a ghost prefix is the answer after the sequential run of that prefix *)
  assert (forall op d f1, ~ content_op op -> (forall i, In i d -> In i done) -> GS ws f0 d f1 -> ranswer op f1 = ranswer op (serial f0 (sel ws d))) as Hans.
  { intros op d f1 Hnc' Hsub Hg1.
    assert (forall x, In x (sel ws d) -> In x ws) as Hsubw.
    { intros x Hx. unfold sel in Hx. apply in_map_iff in Hx as [i [<- Hin]]. apply nth_In. apply Hlt. apply Hsub. exact Hin. }
    destruct op as [k|k|a0 d0|a0 d0]; try (exfalso; exact (Hnc' I)); unfold ranswer; f_equal.
    - rewrite (atomic_read_spec d f1 k Hg1), (serial_read_spec (sel ws d) k Hsubw). reflexivity.
    - destruct Hg1 as [pl1 [Hi1 _]].
      destruct (PInvWd_index hash HL ws f0 d pl1 f1 (proj1 Hinv0) Hwf Hi1) as [Hidx [_ [Hdone Habs]]].
      assert (forall i, In i d -> (i < List.length ws)%nat) as Hlt1 by (intros i Hin; exact (proj1 (Hdone i Hin))).
      assert (forallb (kv_ok hash) (map kv_of (sel ws d)) = true) as Hok1.
      { apply forallb_forall. intros o Ho. apply in_map_iff in Ho as [x [<- Hx]]. rewrite forallb_forall in Hok. apply Hok. apply in_map. apply Hsubw. exact Hx. }
      destruct (serial_abs_idx (sel ws d) f0 k Hinv0 Hok1) as [Es Hcs].
      rewrite (find_run hash f1 k Hidx), (find_run hash _ k (proj1 Hcs)). cbn [fst]. f_equal.
      rewrite Habs, Es, (hops_sel ws d Hlt1). reflexivity. }
  (* every observer has a position in the order *)
  assert (forall op n f1, (content_op op -> NoSymC f0) -> (n <= List.length done)%nat -> GS ws f0 (firstn n done) f1 ->
            exists n', (n' <= List.length (sel ws done))%nat /\ ranswer op f1 = ranswer op (serial f0 (firstn n' (sel ws done)))) as Hpos.
  { intros op n f1 Hns Hn Hg1.
    assert (forall a0 d0, op = RHash a0 d0 \/ op = RExists a0 d0 ->
              exists n', (n' <= List.length (sel ws done))%nat /\ ranswer op f1 = ranswer op (serial f0 (firstn n' (sel ws done)))) as Hcont.
    { intros a0 d0 Hop. assert (content_op op) as Hco by (destruct Hop as [-> | ->]; exact I).
      destruct (content_serial a0 d0 (firstn n done) f1 (sel ws done) (Hns Hco) Hg1 Hp) as [[d' [E1 E2]]|[E1 E2]].
      - exists (List.length (sel ws done)). split; [lia|]. rewrite firstn_all.
        apply (content_obs op a0 d0 _ _ Hop); [congruence|right; exists d'; exact E1].
      - exists n. split; [unfold sel; rewrite map_length; exact Hn|].
        replace (firstn n (sel ws done)) with (sel ws (firstn n done)) by (unfold sel; rewrite firstn_map; reflexivity).
        apply (content_obs op a0 d0 _ _ Hop); [congruence|left; exact E1]. }
    destruct op as [k|k|a0 d0|a0 d0].
    - exists n. split; [unfold sel; rewrite map_length; exact Hn|].
      rewrite (Hans (RRead k) (firstn n done) f1 (fun H => H) (fun i Hin => firstn_in _ _ _ Hin) Hg1). unfold sel. rewrite firstn_map. reflexivity.
    - exists n. split; [unfold sel; rewrite map_length; exact Hn|].
      rewrite (Hans (RMeta k) (firstn n done) f1 (fun H => H) (fun i Hin => firstn_in _ _ _ Hin) Hg1). unfold sel. rewrite firstn_map. reflexivity.
    - exact (Hcont a0 d0 (or_introl eq_refl)).
    - exact (Hcont a0 d0 (or_intror eq_refl)). }
  exists (sel ws done). split; [exact Hp|]. split.
  { apply (nth_ext _ _ Stuck (Ok (x_res hash dw))); [rewrite map_length; exact Hlr|].
    intros n Hn. rewrite Hlr in Hn. rewrite (proj1 (Hall n Hn)). symmetry. apply (map_nth (fun x => Ok (x_res hash x)) ws dw n). }
  split.
  { intros op Hns.
    assert (forall a0 d0, op = RHash a0 d0 \/ op = RExists a0 d0 -> ranswer op f' = ranswer op (serial f0 (sel ws done))) as Hcont.
    { intros a0 d0 Hop. assert (content_op op) as Hco by (destruct Hop as [-> | ->]; exact I).
      destruct (content_serial a0 d0 done f' (sel ws done) (Hns Hco) Hg Hp) as [[d' [E1 E2]]|[E1 E2]].
      - apply (content_obs op a0 d0 _ _ Hop); [congruence|right; exists d'; exact E1].
      - apply (content_obs op a0 d0 _ _ Hop); [congruence|left; exact E1]. }
    destruct op as [k|k|a0 d0|a0 d0].
    - exact (Hans (RRead k) done f' (fun H => H) (fun i H => H) Hg).
    - exact (Hans (RMeta k) done f' (fun H => H) (fun i H => H) Hg).
    - exact (Hcont a0 d0 (or_introl eq_refl)).
    - exact (Hcont a0 d0 (or_intror eq_refl)). }
  intros j a Hj Hns Ha. pose proof (Hst j Hj) as H. rewrite Ha in H.
  remember (Ret a) as r eqn:Er. destruct H as [|k n f1 Eo Hn Hg1 Hm1|n f1 Hn Hg1].
  - exfalso. destruct (nth j ops (RMeta [])) as [k|k|a0 d0|a0 d0]; unfold rprog in Er.
    + destruct (read_head hash k) as [k1 [E _]]. rewrite E in Er. discriminate.
    + destruct (find_head k) as [k1 [g [E _]]]. rewrite E in Er. discriminate.
    + destruct (hash_head a0 d0) as [k1 [E _]]. rewrite E in Er. discriminate.
    + destruct (exists_head a0 d0) as [k1 [E _]]. rewrite E in Er. discriminate.
  - destruct (Hpos _ n f1 Hns Hn Hg1) as [n' [Hn' E]]. exists n'. split; [exact Hn'|]. rewrite <- E, Eo. unfold ranswer.
    destruct (phase2 hash k f1) as [v|c0 k0] eqn:Ep; [|discriminate]. cbn [bind] in Er. unfold wrapB in Er. injection Er as <-.
    rewrite (phase2_run hash k f1 (proj1 (gs_facts _ f1 Hg1))), Ep. reflexivity.
  - destruct (Hpos _ n f1 Hns Hn Hg1) as [n' [Hn' E]]. exists n'. split; [exact Hn'|]. rewrite <- E. injection Er as <-. reflexivity.
Qed.

End Pool.
End CS.
