(* JsonP.v — the JSON codec of Json.v: the serializer's output is free of control bytes, is valid
   UTF-8, and parses back to the value it was produced from. *)
From Coq Require Import Lia DecimalN DecimalPos DecimalFacts.
From CC Require Import Bytes Codec Utf8 Json BytesP CodecP.
Local Open Scope N_scope.

(* ====================================================================================== *)
(* 0. Structure of values: an induction principle through the nested lists, and names for  *)
(*    the local [fix go] loops of [ser].                                                   *)
(* ====================================================================================== *)
Section JvInd.
Variable P : jv -> Prop.
Hypothesis HNull : P JNull.
Hypothesis HBool : forall b, P (JBool b).
Hypothesis HInt : forall z, P (JInt z).
Hypothesis HFloat : forall raw, P (JFloat raw).
Hypothesis HStr : forall s, P (JStr s).
Hypothesis HArr : forall l, Forall P l -> P (JArr l).
Hypothesis HObj : forall m, Forall (fun kv => P (snd kv)) m -> P (JObj m).

Fixpoint jv_ind' (v : jv) : P v :=
  match v with
  | JNull => HNull
  | JBool b => HBool b
  | JInt z => HInt z
  | JFloat raw => HFloat raw
  | JStr s => HStr s
  | JArr l =>
      HArr l ((fix go (l : list jv) : Forall P l :=
                 match l with
                 | [] => Forall_nil P
                 | x :: t => Forall_cons x (jv_ind' x) (go t)
                 end) l)
  | JObj m =>
      HObj m ((fix go (m : list (bytes * jv)) : Forall (fun kv => P (snd kv)) m :=
                 match m with
                 | [] => Forall_nil _
                 | kv :: t => Forall_cons kv (jv_ind' (snd kv)) (go t)
                 end) m)
  end.
End JvInd.

Fixpoint ser_arr (l : list jv) : bytes :=
  match l with
  | [] => []
  | v :: t => ser v ++ match t with [] => [] | _ => x2c :: ser_arr t end
  end.

Fixpoint ser_obj (m : list (bytes * jv)) : bytes :=
  match m with
  | [] => []
  | (k, v) :: t => ser_string k ++ x3a :: ser v ++ match t with [] => [] | _ => x2c :: ser_obj t end
  end.

Lemma ser_JArr l : ser (JArr l) = x5b :: ser_arr l ++ [x5d].
Proof. reflexivity. Qed.

Lemma ser_JObj m : ser (JObj m) = x7b :: ser_obj m ++ [x7d].
Proof. reflexivity. Qed.

(* the side conditions, all boolean *)

(* no float anywhere: [JFloat] carries raw, unconstrained text *)
Fixpoint jclean (v : jv) : bool :=
  match v with
  | JFloat _ => false
  | JArr l => forallb jclean l
  | JObj m => forallb (fun kv => jclean (snd kv)) m
  | _ => true
  end.

(* every string and every object key is valid UTF-8 *)
Fixpoint jutf8 (v : jv) : bool :=
  match v with
  | JStr s => valid_utf8 s
  | JArr l => forallb jutf8 l
  | JObj m => forallb (fun kv => valid_utf8 (fst kv) && jutf8 (snd kv)) m
  | _ => true
  end.

(* nesting depth of containers (an empty container counts: the parser decrements its depth
   budget on '[' / '{' before looking for the closing bracket) *)
Fixpoint jdepth (v : jv) : nat :=
  match v with
  | JArr l => S (fold_right (fun x acc => Nat.max (jdepth x) acc) O l)
  | JObj m => S (fold_right (fun kv acc => Nat.max (jdepth (snd kv)) acc) O m)
  | _ => O
  end.

(* fuel the parser needs: one unit per value and one per container member *)
Fixpoint jsize (v : jv) : nat :=
  match v with
  | JArr l => S (fold_right (fun x acc => S (jsize x) + acc)%nat O l)
  | JObj m => S (fold_right (fun kv acc => S (jsize (snd kv)) + acc)%nat O m)
  | _ => 1%nat
  end.

(* ====================================================================================== *)
(* 1. Strings                                                                              *)
(* ====================================================================================== *)

(* NB: never [vm_compute]/[cbv] a goal in which [parse_body]/[pval] stays stuck on a variable: strong
   normalisation would expand the (huge) compiled pattern matches in their bodies.  Per-byte facts
   are therefore stated on closed terms, or proved by [reflexivity] (lazy conversion). *)
Lemma parse_body_step f fuel c t acc bs' r :
  c <> x22 -> parse_char (c :: t) = Some (bs', r) ->
  parse_body (f :: fuel) (c :: t) acc = parse_body fuel r (rev_append bs' acc).
Proof. intros Hc Hp. cbn [parse_body]. rewrite Hp. destruct c; try reflexivity. congruence. Qed.

Lemma esc_parse b rest :
  exists c t, esc b ++ rest = c :: t /\ c <> x22 /\ parse_char (c :: t) = Some ([b], rest).
Proof.
  destruct b; (eexists; eexists; split; [reflexivity|split; [discriminate|reflexivity]]).
Qed.

(* one escaped byte is consumed by one step of [parse_body] and yields that byte *)
Lemma parse_body_esc b f fuel rest acc :
  parse_body (f :: fuel) (esc b ++ rest) acc = parse_body fuel rest (b :: acc).
Proof.
  destruct (esc_parse b rest) as [c [t [E [Hc Hp]]]]. rewrite E.
  rewrite (parse_body_step f fuel c t acc [b] rest Hc Hp). reflexivity.
Qed.

Lemma parse_body_flat fuel s rest acc :
  (List.length s < List.length fuel)%nat ->
  parse_body fuel (flat_map esc s ++ x22 :: rest) acc = Some (rev acc ++ s, rest).
Proof.
  revert fuel acc. induction s as [|b s IH]; intros fuel acc Hlen.
  - destruct fuel as [|f fuel]; [cbn [List.length] in Hlen; lia|].
    cbn [flat_map app parse_body]. rewrite app_nil_r. reflexivity.
  - destruct fuel as [|f fuel]; [cbn [List.length] in Hlen; lia|].
    cbn [flat_map]. rewrite <- app_assoc, parse_body_esc.
    rewrite IH by (cbn [List.length] in Hlen; lia).
    cbn [rev]. rewrite <- app_assoc. reflexivity.
Qed.

Lemma esc_nonempty b : (1 <= List.length (esc b))%nat.
Proof. destruct b; vm_compute; lia. Qed.

Lemma flat_map_esc_length s : (List.length s <= List.length (flat_map esc s))%nat.
Proof.
  induction s as [|b s IH]; [cbn; lia|].
  cbn [flat_map]. rewrite app_length. pose proof (esc_nonempty b). cbn [List.length]. lia.
Qed.

(* Target 1: every byte string, whatever follows the closing quote *)
Theorem parse_string_body_ser s rest :
  parse_string_body (flat_map esc s ++ x22 :: rest) = Some (s, rest).
Proof.
  unfold parse_string_body. rewrite parse_body_flat; [reflexivity|].
  cbn [List.length]. rewrite app_length. pose proof (flat_map_esc_length s). cbn [List.length]. lia.
Qed.

(* ====================================================================================== *)
(* 2. Numbers                                                                              *)
(* ====================================================================================== *)
Fixpoint uint_val (u : Decimal.uint) (acc : N) : N :=
  match u with
  | Decimal.Nil => acc
  | Decimal.D0 r => uint_val r (acc * 10 + 0)
  | Decimal.D1 r => uint_val r (acc * 10 + 1)
  | Decimal.D2 r => uint_val r (acc * 10 + 2)
  | Decimal.D3 r => uint_val r (acc * 10 + 3)
  | Decimal.D4 r => uint_val r (acc * 10 + 4)
  | Decimal.D5 r => uint_val r (acc * 10 + 5)
  | Decimal.D6 r => uint_val r (acc * 10 + 6)
  | Decimal.D7 r => uint_val r (acc * 10 + 7)
  | Decimal.D8 r => uint_val r (acc * 10 + 8)
  | Decimal.D9 r => uint_val r (acc * 10 + 9)
  end.

Definition starts_digit (rest : bytes) : bool :=
  match rest with b :: _ => is_digit b | [] => false end.

Lemma take_digits_cons b t acc d :
  digit_val b = Some d -> take_digits (b :: t) acc = take_digits t (acc * 10 + d).
Proof. intros H. cbn [take_digits]. rewrite H. reflexivity. Qed.

Lemma take_digits_uint u rest acc :
  starts_digit rest = false -> take_digits (uint_bytes u ++ rest) acc = (uint_val u acc, rest).
Proof.
  intros Hr. revert acc.
  induction u as [|u IH|u IH|u IH|u IH|u IH|u IH|u IH|u IH|u IH|u IH]; intros acc;
    cbn [uint_bytes app uint_val];
    try (erewrite take_digits_cons by reflexivity; apply IH).
  destruct rest as [|b t]; [reflexivity|]. cbn [take_digits]. cbn [starts_digit] in Hr.
  unfold is_digit in Hr. destruct (digit_val b); [discriminate Hr|reflexivity].
Qed.

Lemma uint_val_pos u p : uint_val u (Npos p) = Npos (Pos.of_uint_acc u p).
Proof.
  revert p.
  induction u as [|u IH|u IH|u IH|u IH|u IH|u IH|u IH|u IH|u IH|u IH]; intros p;
    cbn [uint_val Pos.of_uint_acc]; [reflexivity|..].
  - replace (N.pos p * 10 + 0) with (N.pos (10 * p)) by lia. apply IH.
  - replace (N.pos p * 10 + 1) with (N.pos (1 + 10 * p)) by lia. apply IH.
  - replace (N.pos p * 10 + 2) with (N.pos (2 + 10 * p)) by lia. apply IH.
  - replace (N.pos p * 10 + 3) with (N.pos (3 + 10 * p)) by lia. apply IH.
  - replace (N.pos p * 10 + 4) with (N.pos (4 + 10 * p)) by lia. apply IH.
  - replace (N.pos p * 10 + 5) with (N.pos (5 + 10 * p)) by lia. apply IH.
  - replace (N.pos p * 10 + 6) with (N.pos (6 + 10 * p)) by lia. apply IH.
  - replace (N.pos p * 10 + 7) with (N.pos (7 + 10 * p)) by lia. apply IH.
  - replace (N.pos p * 10 + 8) with (N.pos (8 + 10 * p)) by lia. apply IH.
  - replace (N.pos p * 10 + 9) with (N.pos (9 + 10 * p)) by lia. apply IH.
Qed.

Lemma uint_val_0 u : uint_val u 0 = N.of_uint u.
Proof.
  induction u as [|u IH|u IH|u IH|u IH|u IH|u IH|u IH|u IH|u IH|u IH];
    cbn [uint_val]; [reflexivity|exact IH|..]; apply uint_val_pos.
Qed.

Lemma uint_val_to_uint n : uint_val (N.to_uint n) 0 = n.
Proof. rewrite uint_val_0. apply DecimalN.Unsigned.of_to. Qed.

(* the decimal printer/lexer pair *)
Theorem take_digits_dec n rest :
  starts_digit rest = false -> take_digits (dec_of_N n ++ rest) 0 = (n, rest).
Proof. intros H. unfold dec_of_N. rewrite take_digits_uint by exact H. rewrite uint_val_to_uint. reflexivity. Qed.

Lemma pos_to_uint_head p :
  match Pos.to_uint p with Decimal.Nil | Decimal.D0 _ => False | _ => True end.
Proof.
  pose proof (DecimalN.Unsigned.to_of (Pos.to_uint p)) as E.
  change (Pos.to_uint p) with (N.to_uint (Npos p)) in E at 1.
  rewrite DecimalN.Unsigned.of_to in E. cbn [N.to_uint] in E.
  pose proof (DecimalPos.Unsigned.to_uint_nonzero p) as Hnz.
  destruct (Pos.to_uint p) as [|r|r|r|r|r|r|r|r|r|r] eqn:Eu; try exact I.
  - discriminate E.
  - unfold Decimal.unorm in E. rewrite nzhead_D0 in E.
    destruct (Decimal.nzhead r) eqn:En; try discriminate E.
    + injection E as E. subst r. apply Hnz. reflexivity.
    + eapply nzhead_nonzero. exact En.
Qed.

(* what may follow an integer token: anything but a digit, '.', 'e', 'E' (so: end of input, ',', ']', '}',
   white space, ...) — otherwise the lexer would extend the number *)
Definition num_stop (rest : bytes) : bool :=
  match rest with
  | [] => true
  | b :: _ => negb (is_digit b || Byte.eqb b x2e || Byte.eqb b x65 || Byte.eqb b x45)
  end.

Lemma frac_exp_stop rest : num_stop rest = true -> frac_exp rest = Some (false, rest).
Proof.
  destruct rest as [|b t]; [reflexivity|]. intros H. cbn [num_stop] in H.
  destruct b; cbv in H; try discriminate H; reflexivity.
Qed.

Lemma num_stop_nodigit rest : num_stop rest = true -> starts_digit rest = false.
Proof.
  destruct rest as [|b t]; [reflexivity|]. cbn [num_stop starts_digit].
  destruct (is_digit b); [discriminate|reflexivity].
Qed.


Ltac number_steps Ht Hf :=
  unfold parse_number; cbv beta iota;
  match goal with |- context [digit_val ?b] =>
    let v := eval cbv in (digit_val b) in change (digit_val b) with v end;
  cbv beta iota; cbn [N.eqb andb]; rewrite Ht; cbv beta iota; rewrite Hf; cbv beta iota.

Lemma parse_number_nz d dv t mag l1 :
  digit_val d = Some dv -> dv <> 0 -> take_digits t dv = (mag, l1) -> frac_exp l1 = Some (false, l1) ->
  parse_number (d :: t) = POk (JInt (Z.of_N mag)) l1.
Proof.
  intros Hd Hnz Ht Hf.
  destruct d; cbv in Hd; try discriminate Hd; injection Hd as <-; try (exfalso; apply Hnz; reflexivity).
  all: number_steps Ht Hf; reflexivity.
Qed.

Lemma parse_number_neg_nz d dv t mag l1 :
  digit_val d = Some dv -> dv <> 0 -> take_digits t dv = (mag, l1) -> frac_exp l1 = Some (false, l1) ->
  mag <> 0 ->
  parse_number (x2d :: d :: t) = POk (JInt (Z.opp (Z.of_N mag))) l1.
Proof.
  intros Hd Hnz Ht Hf Hm. apply N.eqb_neq in Hm.
  destruct d; cbv in Hd; try discriminate Hd; injection Hd as <-; try (exfalso; apply Hnz; reflexivity).
  all: number_steps Ht Hf; rewrite Hm; reflexivity.
Qed.

Lemma parse_number_zero rest : num_stop rest = true -> parse_number (x30 :: rest) = POk (JInt 0) rest.
Proof.
  intros H. pose proof (frac_exp_stop rest H) as Hf. pose proof (num_stop_nodigit rest H) as Hd.
  unfold parse_number. cbv beta iota. change (digit_val x30) with (Some 0). cbv beta iota.
  cbn [N.eqb andb]. unfold starts_digit in Hd. rewrite Hd, Hf. reflexivity.
Qed.

Lemma uint_bytes_digit_head p :
  exists d dv r, uint_bytes (Pos.to_uint p) = d :: uint_bytes r /\ digit_val d = Some dv /\ dv <> 0 /\
                 uint_val r dv = Npos p.
Proof.
  pose proof (pos_to_uint_head p) as Hh. pose proof (uint_val_to_uint (Npos p)) as Hv.
  cbn [N.to_uint] in Hv.
  destruct (Pos.to_uint p) as [|r|r|r|r|r|r|r|r|r|r]; try contradiction;
    cbn [uint_val] in Hv; cbn [uint_bytes];
    (eexists; eexists; exists r; split; [reflexivity|split; [reflexivity|split; [discriminate|exact Hv]]]).
Qed.

Theorem parse_number_ser z rest :
  num_stop rest = true -> parse_number (ser_int z ++ rest) = POk (JInt z) rest.
Proof.
  intros H. pose proof (frac_exp_stop rest H) as Hf. pose proof (num_stop_nodigit rest H) as Hd.
  destruct z as [|p|p]; cbn [ser_int].
  - apply parse_number_zero. exact H.
  - unfold dec_of_N. cbn [N.to_uint].
    destruct (uint_bytes_digit_head p) as [d [dv [r [E [Hdv [Hnz Hv]]]]]]. rewrite E. cbn [app].
    rewrite (parse_number_nz d dv (uint_bytes r ++ rest) (Npos p) rest Hdv Hnz); [reflexivity| |exact Hf].
    rewrite take_digits_uint by exact Hd. rewrite Hv. reflexivity.
  - unfold dec_of_N. cbn [N.to_uint].
    destruct (uint_bytes_digit_head p) as [d [dv [r [E [Hdv [Hnz Hv]]]]]]. rewrite E. cbn [app].
    rewrite (parse_number_neg_nz d dv (uint_bytes r ++ rest) (Npos p) rest Hdv Hnz); [reflexivity| |exact Hf|discriminate].
    rewrite take_digits_uint by exact Hd. rewrite Hv. reflexivity.
Qed.

(* ====================================================================================== *)
(* 3. The parser on serializer output                                                      *)
(* ====================================================================================== *)
(* one-step unfoldings of the mutual fixpoint, on inputs whose first byte is known *)
Lemma pval_null n d rest : pval (S n) d (bs "null" ++ rest) = POk JNull rest.
Proof. reflexivity. Qed.
Lemma pval_true n d rest : pval (S n) d (bs "true" ++ rest) = POk (JBool true) rest.
Proof. reflexivity. Qed.
Lemma pval_false n d rest : pval (S n) d (bs "false" ++ rest) = POk (JBool false) rest.
Proof. reflexivity. Qed.
Lemma pval_str n d r :
  pval (S n) d (x22 :: r) =
  match parse_string_body r with Some (str, r') => POk (JStr str) r' | None => PFail end.
Proof. reflexivity. Qed.
Lemma pval_num n d c r :
  (Byte.eqb c x2d || is_digit c) = true -> pval (S n) d (c :: r) = parse_number (c :: r).
Proof. intros H. destruct c; cbv in H; try discriminate H; reflexivity. Qed.
Lemma pval_arr_nil n d rest : pval (S n) (S d) (x5b :: x5d :: rest) = POk (JArr []) rest.
Proof. reflexivity. Qed.
Lemma pval_obj_nil n d rest : pval (S n) (S d) (x7b :: x7d :: rest) = POk (JObj []) rest.
Proof. reflexivity. Qed.
Lemma pval_arr_ne n d c t :
  is_ws c = false -> c <> x5d -> pval (S n) (S d) (x5b :: c :: t) = parr n d (c :: t) [].
Proof. intros Hw Hc. destruct c; try discriminate Hw; try reflexivity. congruence. Qed.
Lemma pval_obj_ne n d t : pval (S n) (S d) (x7b :: x22 :: t) = pobj n d (x22 :: t) [].
Proof. reflexivity. Qed.

Lemma parr_S n d s acc :
  parr (S n) d s acc =
  match pval n d s with
  | POk v r =>
      match skip_ws r with
      | x2c :: r' => parr n d r' (v :: acc)
      | x5d :: r' => POk (JArr (rev (v :: acc))) r'
      | _ => PFail
      end
  | PFail => PFail
  | PFuel => PFuel
  end.
Proof. reflexivity. Qed.

Lemma parr_step_comma n d s acc v r :
  pval n d s = POk v (x2c :: r) -> parr (S n) d s acc = parr n d r (v :: acc).
Proof. intros H. rewrite parr_S, H. reflexivity. Qed.

Lemma parr_step_end n d s acc v r :
  pval n d s = POk v (x5d :: r) -> parr (S n) d s acc = POk (JArr (rev (v :: acc))) r.
Proof. intros H. rewrite parr_S, H. reflexivity. Qed.

Lemma pobj_S n d body acc :
  pobj (S n) d (x22 :: body) acc =
  match parse_string_body body with
  | Some (k, r1) =>
      match skip_ws r1 with
      | x3a :: r2 =>
          match pval n d r2 with
          | POk v r3 =>
              match skip_ws r3 with
              | x2c :: r4 => pobj n d r4 ((k, v) :: acc)
              | x7d :: r4 => POk (JObj (rev ((k, v) :: acc))) r4
              | _ => PFail
              end
          | PFail => PFail
          | PFuel => PFuel
          end
      | _ => PFail
      end
  | None => PFail
  end.
Proof. reflexivity. Qed.

Lemma pobj_step_comma n d body k r2 v r4 acc :
  parse_string_body body = Some (k, x3a :: r2) -> pval n d r2 = POk v (x2c :: r4) ->
  pobj (S n) d (x22 :: body) acc = pobj n d r4 ((k, v) :: acc).
Proof. intros H1 H2. rewrite pobj_S, H1. cbn [skip_ws is_ws]. rewrite H2. reflexivity. Qed.

Lemma pobj_step_end n d body k r2 v r4 acc :
  parse_string_body body = Some (k, x3a :: r2) -> pval n d r2 = POk v (x7d :: r4) ->
  pobj (S n) d (x22 :: body) acc = POk (JObj (rev ((k, v) :: acc))) r4.
Proof. intros H1 H2. rewrite pobj_S, H1. cbn [skip_ws is_ws]. rewrite H2. reflexivity. Qed.

(* the continuation must not extend the token: only integers are sensitive to what follows *)
Definition stop_ok (v : jv) (rest : bytes) : bool :=
  match v with JInt _ => num_stop rest | _ => true end.

Lemma stop_ok_2c v r : stop_ok v (x2c :: r) = true. Proof. destruct v; reflexivity. Qed.
Lemma stop_ok_5d v r : stop_ok v (x5d :: r) = true. Proof. destruct v; reflexivity. Qed.
Lemma stop_ok_7d v r : stop_ok v (x7d :: r) = true. Proof. destruct v; reflexivity. Qed.
Lemma stop_ok_nil v : stop_ok v [] = true. Proof. destruct v; reflexivity. Qed.

Lemma digit_head_facts d dv :
  digit_val d = Some dv ->
  is_ws d = false /\ d <> x5d /\ (Byte.eqb d x2d || is_digit d) = true.
Proof.
  intros H. destruct d; cbv in H; try discriminate H; (split; [reflexivity|split; [discriminate|reflexivity]]).
Qed.

Lemma ser_int_head z :
  exists c t, ser_int z = c :: t /\ is_ws c = false /\ c <> x5d /\ (Byte.eqb c x2d || is_digit c) = true.
Proof.
  destruct z as [|p|p]; cbn [ser_int].
  - exists x30, []. repeat split; discriminate.
  - unfold dec_of_N. cbn [N.to_uint]. destruct (uint_bytes_digit_head p) as [d [dv [r [E [Hdv _]]]]].
    rewrite E. exists d, (uint_bytes r). split; [reflexivity|]. exact (digit_head_facts d dv Hdv).
  - exists x2d, (dec_of_N (Npos p)). repeat split; discriminate.
Qed.

(* first byte of the text of a value: not white space, not ']' *)
Lemma ser_head v : jclean v = true -> exists c t, ser v = c :: t /\ is_ws c = false /\ c <> x5d.
Proof.
  destruct v as [|b|z|raw|s|l|m]; intros Hc.
  - exists x6e, (bs "ull"). repeat split; discriminate.
  - destruct b; [exists x74, (bs "rue")|exists x66, (bs "alse")]; repeat split; discriminate.
  - destruct (ser_int_head z) as [c [t [E [Hw [H5 _]]]]]. exists c, t. auto.
  - discriminate Hc.
  - exists x22, (flat_map esc s ++ [x22]). repeat split; discriminate.
  - rewrite ser_JArr. exists x5b, (ser_arr l ++ [x5d]). repeat split; discriminate.
  - rewrite ser_JObj. exists x7b, (ser_obj m ++ [x7d]). repeat split; discriminate.
Qed.

Definition pval_ok (v : jv) : Prop :=
  jclean v = true -> forall n d rest,
    (jsize v <= n)%nat -> (jdepth v <= d)%nat -> stop_ok v rest = true ->
    pval n d (ser v ++ rest) = POk v rest.

Definition arr_fuel (l : list jv) : nat := fold_right (fun x acc => S (jsize x) + acc)%nat O l.
Definition arr_depth (l : list jv) : nat := fold_right (fun x acc => Nat.max (jdepth x) acc) O l.
Definition obj_fuel (m : list (bytes * jv)) : nat := fold_right (fun kv acc => S (jsize (snd kv)) + acc)%nat O m.
Definition obj_depth (m : list (bytes * jv)) : nat := fold_right (fun kv acc => Nat.max (jdepth (snd kv)) acc) O m.

Lemma ser_arr_cons2 v v2 t : ser_arr (v :: v2 :: t) = ser v ++ x2c :: ser_arr (v2 :: t).
Proof. reflexivity. Qed.
Lemma ser_arr_one v : ser_arr [v] = ser v.
Proof. cbn [ser_arr]. apply app_nil_r. Qed.

Lemma parr_ser l :
  Forall pval_ok l -> forallb jclean l = true -> l <> [] ->
  forall n d rest acc,
    (arr_fuel l <= n)%nat -> (arr_depth l <= d)%nat ->
    parr n d (ser_arr l ++ x5d :: rest) acc = POk (JArr (rev acc ++ l)) rest.
Proof.
  induction l as [|v t IH]; intros Hall Hcl Hne n d rest acc Hn Hd; [congruence|].
  inversion Hall as [|v' t' Hv Ht]; subst v' t'.
  cbn [forallb] in Hcl. apply andb_true_iff in Hcl as [Hcv Hct].
  unfold arr_fuel in Hn. cbn [fold_right] in Hn. fold (arr_fuel t) in Hn.
  unfold arr_depth in Hd. cbn [fold_right] in Hd. fold (arr_depth t) in Hd.
  destruct n as [|n]; [lia|].
  destruct t as [|v2 t].
  - rewrite ser_arr_one.
    rewrite (parr_step_end n d _ acc v rest).
    + cbn [rev]. reflexivity.
    + apply Hv; [exact Hcv|lia|lia|apply stop_ok_5d].
  - rewrite ser_arr_cons2, <- app_assoc, <- app_comm_cons.
    rewrite (parr_step_comma n d _ acc v (ser_arr (v2 :: t) ++ x5d :: rest)).
    + rewrite IH; [|exact Ht|exact Hct|discriminate|lia|lia].
      cbn [rev]. rewrite <- app_assoc. reflexivity.
    + apply Hv; [exact Hcv|lia|lia|apply stop_ok_2c].
Qed.

Lemma ser_obj_one k v rest :
  ser_obj [(k, v)] ++ rest = x22 :: flat_map esc k ++ x22 :: x3a :: ser v ++ rest.
Proof.
  cbn [ser_obj]. unfold ser_string. rewrite app_nil_r.
  cbn [app]. rewrite <- !app_assoc. cbn [app]. reflexivity.
Qed.
Lemma ser_obj_cons2 k v kv2 t rest :
  ser_obj ((k, v) :: kv2 :: t) ++ rest =
  x22 :: flat_map esc k ++ x22 :: x3a :: ser v ++ x2c :: ser_obj (kv2 :: t) ++ rest.
Proof.
  change (ser_obj ((k, v) :: kv2 :: t)) with (ser_string k ++ x3a :: ser v ++ x2c :: ser_obj (kv2 :: t)).
  unfold ser_string. cbn [app]. rewrite <- !app_assoc. cbn [app]. rewrite <- !app_assoc. reflexivity.
Qed.

Lemma pobj_ser m :
  Forall (fun kv => pval_ok (snd kv)) m -> forallb (fun kv => jclean (snd kv)) m = true -> m <> [] ->
  forall n d rest acc,
    (obj_fuel m <= n)%nat -> (obj_depth m <= d)%nat ->
    pobj n d (ser_obj m ++ x7d :: rest) acc = POk (JObj (rev acc ++ m)) rest.
Proof.
  induction m as [|[k v] t IH]; intros Hall Hcl Hne n d rest acc Hn Hd; [congruence|].
  inversion Hall as [|kv' t' Hv Ht]; subst kv' t'. cbn [snd] in Hv.
  cbn [forallb snd] in Hcl. apply andb_true_iff in Hcl as [Hcv Hct].
  unfold obj_fuel in Hn. cbn [fold_right snd] in Hn. fold (obj_fuel t) in Hn.
  unfold obj_depth in Hd. cbn [fold_right snd] in Hd. fold (obj_depth t) in Hd.
  destruct n as [|n]; [lia|].
  destruct t as [|kv2 t].
  - rewrite ser_obj_one.
    rewrite (pobj_step_end n d _ k (ser v ++ x7d :: rest) v rest acc).
    + cbn [rev]. reflexivity.
    + apply parse_string_body_ser.
    + apply Hv; [exact Hcv|lia|lia|apply stop_ok_7d].
  - rewrite ser_obj_cons2.
    rewrite (pobj_step_comma n d _ k (ser v ++ x2c :: ser_obj (kv2 :: t) ++ x7d :: rest) v
               (ser_obj (kv2 :: t) ++ x7d :: rest) acc).
    + rewrite IH; [|exact Ht|exact Hct|discriminate|lia|lia].
      cbn [rev]. rewrite <- app_assoc. reflexivity.
    + apply parse_string_body_ser.
    + apply Hv; [exact Hcv|lia|lia|apply stop_ok_2c].
Qed.

Lemma Forall_forallb_imp {A} (q : A -> bool) (R : A -> Prop) l :
  Forall (fun x => q x = true -> R x) l -> forallb q l = true -> Forall R l.
Proof.
  induction l as [|x l IH]; intros HF Hq; [constructor|].
  inversion HF as [|x' l' Hx Hl]; subst x' l'. cbn [forallb] in Hq. apply andb_true_iff in Hq as [Hq1 Hq2].
  constructor; [apply Hx; exact Hq1|apply IH; assumption].
Qed.

Theorem pval_ser v : pval_ok v.
Proof.
  induction v as [|b|z|raw|s|l IHl|m IHm] using jv_ind'; intros Hc n d rest Hn Hd Hs.
  - destruct n as [|n]; [cbn [jsize] in Hn; lia|]. apply pval_null.
  - destruct n as [|n]; [cbn [jsize] in Hn; lia|]. destruct b; [apply pval_true|apply pval_false].
  - destruct n as [|n]; [cbn [jsize] in Hn; lia|]. cbn [stop_ok] in Hs. cbn [ser].
    destruct (ser_int_head z) as [c [t [E [_ [_ Hnum]]]]].
    pose proof (parse_number_ser z rest Hs) as Hp. rewrite E in *. cbn [app] in *.
    rewrite pval_num by exact Hnum. exact Hp.
  - discriminate Hc.
  - destruct n as [|n]; [cbn [jsize] in Hn; lia|]. cbn [ser]. unfold ser_string.
    cbn [app]. rewrite <- app_assoc. cbn [app]. rewrite pval_str, parse_string_body_ser. reflexivity.
  - cbn [jclean] in Hc. cbn [jsize] in Hn. fold (arr_fuel l) in Hn. cbn [jdepth] in Hd. fold (arr_depth l) in Hd.
    destruct n as [|n]; [lia|]. destruct d as [|d]; [lia|].
    rewrite ser_JArr. cbn [app]. rewrite <- app_assoc. cbn [app].
    destruct l as [|v t]; [apply pval_arr_nil|].
    assert (Forall pval_ok (v :: t)) as HF by (apply (Forall_forallb_imp jclean); [|exact Hc]; revert IHl; apply Forall_impl; intros a Ha _; exact Ha).
    pose proof (parr_ser (v :: t) HF Hc ltac:(discriminate) n d rest [] ltac:(lia) ltac:(lia)) as Hp.
    cbn [forallb] in Hc. apply andb_true_iff in Hc as [Hcv _].
    destruct (ser_head v Hcv) as [c [tl [E [Hw H5]]]].
    assert (exists tl', ser_arr (v :: t) ++ x5d :: rest = c :: tl') as [tl' E'].
    { destruct t as [|v2 t]; [rewrite ser_arr_one|rewrite ser_arr_cons2, <- app_assoc]; rewrite E; eexists; reflexivity. }
    rewrite E' in *. rewrite pval_arr_ne by assumption. exact Hp.
  - cbn [jclean] in Hc. cbn [jsize] in Hn. fold (obj_fuel m) in Hn. cbn [jdepth] in Hd. fold (obj_depth m) in Hd.
    destruct n as [|n]; [lia|]. destruct d as [|d]; [lia|].
    rewrite ser_JObj. cbn [app]. rewrite <- app_assoc. cbn [app].
    destruct m as [|kv t]; [apply pval_obj_nil|].
    assert (Forall (fun kv => pval_ok (snd kv)) (kv :: t)) as HF
      by (apply (Forall_forallb_imp (fun kv => jclean (snd kv))); [|exact Hc]; revert IHm; apply Forall_impl; intros a Ha _; exact Ha).
    pose proof (pobj_ser (kv :: t) HF Hc ltac:(discriminate) n d rest [] ltac:(lia) ltac:(lia)) as Hp.
    assert (exists tl', ser_obj (kv :: t) ++ x7d :: rest = x22 :: tl') as [tl' E'].
    { destruct kv as [k v]. destruct t as [|kv2 t]; [rewrite ser_obj_one|rewrite ser_obj_cons2]; eexists; reflexivity. }
    rewrite E' in *. rewrite pval_obj_ne. exact Hp.
Qed.

(* the fuel chosen by [parse_json] suffices: [jsize v <= length (ser v)] *)
Lemma ser_arr_length_fuel l :
  Forall (fun v => (jsize v <= List.length (ser v))%nat) l ->
  (arr_fuel l <= S (List.length (ser_arr l)))%nat.
Proof.
  induction l as [|v t IH]; intros HF; [cbn; lia|].
  inversion HF as [|v' t' Hv Ht]; subst v' t'. specialize (IH Ht).
  unfold arr_fuel in *. cbn [fold_right]. 
  destruct t as [|v2 t].
  - rewrite ser_arr_one. cbn [fold_right]. lia.
  - rewrite ser_arr_cons2, app_length. cbn [List.length]. lia.
Qed.

Lemma ser_obj_length_fuel m :
  Forall (fun kv => (jsize (snd kv) <= List.length (ser (snd kv)))%nat) m ->
  (obj_fuel m <= S (List.length (ser_obj m)))%nat.
Proof.
  induction m as [|[k v] t IH]; intros HF; [cbn; lia|].
  inversion HF as [|kv' t' Hv Ht]; subst kv' t'. specialize (IH Ht). cbn [snd] in Hv.
  unfold obj_fuel in *. cbn [fold_right snd].
  destruct t as [|kv2 t].
  - pose proof (f_equal (@List.length byte) (ser_obj_one k v [])) as E.
    repeat (first [rewrite app_length in E | progress (cbn [List.length] in E)]).
    cbn [fold_right]. lia.
  - pose proof (f_equal (@List.length byte) (ser_obj_cons2 k v kv2 t [])) as E.
    repeat (first [rewrite app_length in E | progress (cbn [List.length] in E)]).
    lia.
Qed.

Lemma ser_int_length z : (1 <= List.length (ser_int z))%nat.
Proof. destruct (ser_int_head z) as [c [t [E _]]]. rewrite E. cbn [List.length]. lia. Qed.

Lemma jsize_le_length v : jclean v = true -> (jsize v <= List.length (ser v))%nat.
Proof.
  induction v as [|b|z|raw|s|l IHl|m IHm] using jv_ind'; intros Hc.
  - cbn. lia.
  - destruct b; cbn; lia.
  - cbn [jsize ser]. apply ser_int_length.
  - discriminate Hc.
  - cbn [jsize ser]. unfold ser_string. cbn [List.length]. lia.
  - cbn [jclean] in Hc. cbn [jsize]. fold (arr_fuel l). rewrite ser_JArr. cbn [List.length]. rewrite app_length. cbn [List.length].
    pose proof (ser_arr_length_fuel l (Forall_forallb_imp jclean _ l IHl Hc)). lia.
  - cbn [jclean] in Hc. cbn [jsize]. fold (obj_fuel m). rewrite ser_JObj. cbn [List.length]. rewrite app_length. cbn [List.length].
    pose proof (ser_obj_length_fuel m (Forall_forallb_imp (fun kv => jclean (snd kv)) _ m IHm Hc)). lia.
Qed.

(* Target 4 *)
Theorem pval_ser_rest v n d rest :
  jclean v = true -> (jsize v <= n)%nat -> (jdepth v <= d)%nat -> stop_ok v rest = true ->
  pval n d (ser v ++ rest) = POk v rest.
Proof. intros Hc Hn Hd Hs. exact (pval_ser v Hc n d rest Hn Hd Hs). Qed.

Theorem parse_json_ser v :
  jclean v = true -> (jdepth v <= json_depth)%nat -> parse_json (ser v) = POk v [].
Proof.
  intros Hc Hd. unfold parse_json.
  pose proof (jsize_le_length v Hc) as Hl.
  pose proof (pval_ser v Hc (2 * List.length (ser v) + 4)%nat json_depth [] ltac:(lia) Hd (stop_ok_nil v)) as Hp.
  rewrite app_nil_r in Hp. rewrite Hp. reflexivity.
Qed.

(* ====================================================================================== *)
(* 4. No control bytes                                                                     *)
(* ====================================================================================== *)
(* ---- a byte-wise property of the whole text, from the same property of the pieces ---- *)
Section AllBytes.
Variable p : byte -> bool.
Hypothesis p_esc : forall b, forallb p (esc b) = true.
Hypothesis p_digit : forall b, is_digit b = true -> p b = true.
Hypothesis p_punct : forallb p (bs "nulltruefalse-"",:[]{}") = true.

Lemma allb_uint u : forallb p (uint_bytes u) = true.
Proof.
  induction u as [|u IH|u IH|u IH|u IH|u IH|u IH|u IH|u IH|u IH|u IH]; cbn [uint_bytes forallb];
    [reflexivity|..]; rewrite IH, p_digit by reflexivity; reflexivity.
Qed.

Lemma allb_lit l : forallb (fun b => existsb (Byte.eqb b) (bs "nulltruefalse-"",:[]{}")) l = true -> forallb p l = true.
Proof.
  intros H. apply forallb_forall. intros b Hb. rewrite forallb_forall in H. specialize (H b Hb).
  apply existsb_exists in H as [c [Hc E]]. apply byte_eqb_eq in E. subst c.
  pose proof p_punct as Hp. rewrite forallb_forall in Hp. apply Hp. exact Hc.
Qed.

Lemma allb_ser_int z : forallb p (ser_int z) = true.
Proof.
  destruct z as [|q|q]; cbn [ser_int].
  - cbn [forallb]. rewrite p_digit by reflexivity. reflexivity.
  - apply allb_uint.
  - change (x2d :: dec_of_N (N.pos q)) with ([x2d] ++ dec_of_N (N.pos q)).
    rewrite forallb_app, (allb_lit [x2d]) by reflexivity. unfold dec_of_N. rewrite allb_uint. reflexivity.
Qed.

Lemma allb_flat_esc s : forallb p (flat_map esc s) = true.
Proof. induction s as [|b s IH]; [reflexivity|]. cbn [flat_map]. rewrite forallb_app, p_esc, IH. reflexivity. Qed.

Lemma allb_ser_string s : forallb p (ser_string s) = true.
Proof.
  unfold ser_string. change (x22 :: flat_map esc s ++ [x22]) with ([x22] ++ flat_map esc s ++ [x22]).
  rewrite !forallb_app, allb_flat_esc, (allb_lit [x22]) by reflexivity. reflexivity.
Qed.

Lemma allb_ser_arr l : Forall (fun v => forallb p (ser v) = true) l -> forallb p (ser_arr l) = true.
Proof.
  induction l as [|v t IH]; intros HF; [reflexivity|].
  inversion HF as [|v' t' Hv Ht]; subst v' t'. destruct t as [|v2 t].
  - rewrite ser_arr_one. exact Hv.
  - rewrite ser_arr_cons2. change (x2c :: ser_arr (v2 :: t)) with ([x2c] ++ ser_arr (v2 :: t)).
    rewrite !forallb_app, Hv, (IH Ht), (allb_lit [x2c]) by reflexivity. reflexivity.
Qed.

Lemma allb_ser_obj m : Forall (fun kv => forallb p (ser (snd kv)) = true) m -> forallb p (ser_obj m) = true.
Proof.
  induction m as [|[k v] t IH]; intros HF; [reflexivity|].
  inversion HF as [|kv' t' Hv Ht]; subst kv' t'. cbn [snd] in Hv. destruct t as [|kv2 t].
  - cbn [ser_obj]. rewrite app_nil_r. change (x3a :: ser v) with ([x3a] ++ ser v).
    rewrite !forallb_app, allb_ser_string, Hv, (allb_lit [x3a]) by reflexivity. reflexivity.
  - change (ser_obj ((k, v) :: kv2 :: t)) with (ser_string k ++ [x3a] ++ ser v ++ [x2c] ++ ser_obj (kv2 :: t)).
    rewrite !forallb_app, allb_ser_string, Hv, (IH Ht), (allb_lit [x3a]), (allb_lit [x2c]) by reflexivity. reflexivity.
Qed.

Lemma allb_ser v : jclean v = true -> forallb p (ser v) = true.
Proof.
  induction v as [|b|z|raw|s|l IHl|m IHm] using jv_ind'; intros Hc.
  - apply allb_lit. reflexivity.
  - destruct b; apply allb_lit; reflexivity.
  - apply allb_ser_int.
  - discriminate Hc.
  - apply allb_ser_string.
  - cbn [jclean] in Hc. rewrite ser_JArr. change (x5b :: ser_arr l ++ [x5d]) with ([x5b] ++ ser_arr l ++ [x5d]).
    rewrite !forallb_app, (allb_ser_arr l (Forall_forallb_imp jclean _ l IHl Hc)), (allb_lit [x5b]), (allb_lit [x5d]) by reflexivity.
    reflexivity.
  - cbn [jclean] in Hc. rewrite ser_JObj. change (x7b :: ser_obj m ++ [x7d]) with ([x7b] ++ ser_obj m ++ [x7d]).
    rewrite !forallb_app, (allb_ser_obj m (Forall_forallb_imp (fun kv => jclean (snd kv)) _ m IHm Hc)), (allb_lit [x7b]), (allb_lit [x7d]) by reflexivity.
    reflexivity.
Qed.
End AllBytes.

Definition ge32 (b : byte) : bool := 32 <=? b2n b.

Lemma esc_ge32 b : forallb ge32 (esc b) = true.
Proof. destruct b; vm_compute; reflexivity. Qed.

Lemma digit_ge32 b : is_digit b = true -> ge32 b = true.
Proof. intros H. destruct b; cbv in H; try discriminate H; reflexivity. Qed.

(* Target 2 *)
Theorem ser_no_ctrl v : jclean v = true -> forall b, In b (ser v) -> 32 <= b2n b.
Proof.
  intros Hc b Hb. pose proof (allb_ser ge32 esc_ge32 digit_ge32 eq_refl v Hc) as H.
  rewrite forallb_forall in H. apply N.leb_le. exact (H b Hb).
Qed.

(* ====================================================================================== *)
(* 5. UTF-8                                                                                *)
(* ====================================================================================== *)
Definition is_ascii (b : byte) : bool := b2n b <? 128.

Lemma valid_utf8_ascii_app l r : forallb is_ascii l = true -> valid_utf8 (l ++ r) = valid_utf8 r.
Proof.
  induction l as [|x l IH]; intros H; [reflexivity|].
  cbn [forallb] in H. apply andb_true_iff in H as [Hx Hl]. unfold is_ascii in Hx.
  cbn [app valid_utf8]. rewrite Hx. apply IH. exact Hl.
Qed.


(* case analysis following the structure of [valid_utf8 (x :: t) = true] in hypothesis [Ha] *)
Ltac utf8_cases Ha :=
  repeat match type of Ha with
  | (if ?c then _ else _) = true => let E := fresh "E" in destruct c eqn:E
  | (match ?t with [] => _ | _ :: _ => _ end) = true =>
      let y := fresh "y" in let t' := fresh "t" in destruct t as [|y t']; [discriminate Ha|]
  | false = true => discriminate Ha
  end.

(* [Ha : c1 && ... && valid_utf8 t' = true]; the goal is the same conjunction with [t' ++ b] *)
Ltac utf8_tail IH Ha Hb Hl :=
  match type of Ha with
  | context [valid_utf8 ?t'] =>
      let Et := fresh "Et" in
      destruct (valid_utf8 t') eqn:Et; [|rewrite ?andb_false_r in Ha; discriminate Ha];
      rewrite (IH t' _ ltac:(cbn [List.length] in Hl; lia) Et Hb); exact Ha
  end.

Lemma valid_utf8_app_aux n : forall a b,
  (List.length a <= n)%nat -> valid_utf8 a = true -> valid_utf8 b = true -> valid_utf8 (a ++ b) = true.
Proof.
  induction n as [|n IH]; intros a b Hl Ha Hb.
  - destruct a as [|x t]; [exact Hb|cbn [List.length] in Hl; lia].
  - destruct a as [|x t]; [exact Hb|].
    cbn [app]. cbn [valid_utf8] in Ha |- *.
    utf8_cases Ha; cbn [app]; utf8_tail IH Ha Hb Hl.
Qed.

Theorem valid_utf8_app a b : valid_utf8 a = true -> valid_utf8 b = true -> valid_utf8 (a ++ b) = true.
Proof. apply (valid_utf8_app_aux (List.length a)). lia. Qed.

Lemma esc_ascii b : is_ascii b = true -> forallb is_ascii (esc b) = true.
Proof. intros H. destruct b; cbv in H; try discriminate H; vm_compute; reflexivity. Qed.

Lemma esc_hi b : is_ascii b = false -> esc b = [b].
Proof. intros H. destruct b; cbv in H; try discriminate H; reflexivity. Qed.

Lemma in_rng_esc lo hi y : in_rng lo hi y = true -> (128 <=? lo) = true -> esc y = [y].
Proof.
  intros H Hlo. apply esc_hi. unfold in_rng in H. unfold is_ascii.
  apply andb_true_iff in H as [H1 _]. apply N.leb_le in H1. apply N.leb_le in Hlo. apply N.ltb_ge. lia.
Qed.

Lemma is_cont_esc y : is_cont y = true -> esc y = [y].
Proof. intros H. apply (in_rng_esc 128 191 y); [exact H|reflexivity]. Qed.

Ltac split_andb Ha :=
  repeat match type of Ha with
  | (_ && _) = true => let H := fresh "Hc" in apply andb_true_iff in Ha as [Ha H]
  end.

Lemma valid_utf8_esc_aux n : forall s,
  (List.length s <= n)%nat -> valid_utf8 s = true -> valid_utf8 (flat_map esc s) = true.
Proof.
  induction n as [|n IH]; intros s Hl Ha.
  - destruct s as [|x t]; [reflexivity|cbn [List.length] in Hl; lia].
  - destruct s as [|x t]; [reflexivity|].
    cbn [flat_map]. destruct (is_ascii x) eqn:E0.
    + rewrite valid_utf8_ascii_app by (apply esc_ascii; exact E0).
      cbn [valid_utf8] in Ha. unfold is_ascii in E0. rewrite E0 in Ha.
      apply IH; [cbn [List.length] in Hl; lia|exact Ha].
    + rewrite (esc_hi x E0). cbn [app]. cbn [valid_utf8] in Ha |- *.
      unfold is_ascii in E0. rewrite E0 in Ha |- *.
      utf8_cases Ha; split_andb Ha; cbn [flat_map];
        repeat match goal with
        | H : is_cont ?y = true |- context [esc ?y] => rewrite (is_cont_esc y H)
        | H : in_rng ?lo ?hi ?y = true |- context [esc ?y] => rewrite (in_rng_esc lo hi y H eq_refl)
        end;
        cbn [app];
        match goal with
        | H : valid_utf8 ?t' = true |- context [valid_utf8 (flat_map esc ?t')] =>
            rewrite (IH t' ltac:(cbn [List.length] in Hl; lia) H)
        end;
        repeat match goal with H : ?c = true |- context [?c] => rewrite H end; reflexivity.
Qed.

Theorem valid_utf8_esc s : valid_utf8 s = true -> valid_utf8 (flat_map esc s) = true.
Proof. apply (valid_utf8_esc_aux (List.length s)). lia. Qed.

Lemma valid_utf8_ascii l : forallb is_ascii l = true -> valid_utf8 l = true.
Proof. intros H. rewrite <- (app_nil_r l). rewrite valid_utf8_ascii_app by exact H. reflexivity. Qed.

Lemma digit_ascii b : is_digit b = true -> is_ascii b = true.
Proof. intros H. destruct b; cbv in H; try discriminate H; reflexivity. Qed.

Lemma ser_int_utf8 z : valid_utf8 (ser_int z) = true.
Proof. apply valid_utf8_ascii. apply (allb_ser_int is_ascii digit_ascii eq_refl). Qed.

Lemma ser_string_utf8 s : valid_utf8 s = true -> valid_utf8 (ser_string s) = true.
Proof.
  intros H. unfold ser_string. change (x22 :: flat_map esc s ++ [x22]) with ([x22] ++ flat_map esc s ++ [x22]).
  apply valid_utf8_app; [reflexivity|]. apply valid_utf8_app; [apply valid_utf8_esc; exact H|reflexivity].
Qed.

Lemma ser_arr_utf8 l : Forall (fun v => valid_utf8 (ser v) = true) l -> valid_utf8 (ser_arr l) = true.
Proof.
  induction l as [|v t IH]; intros HF; [reflexivity|].
  inversion HF as [|v' t' Hv Ht]; subst v' t'. destruct t as [|v2 t].
  - rewrite ser_arr_one. exact Hv.
  - rewrite ser_arr_cons2. apply valid_utf8_app; [exact Hv|].
    change (x2c :: ser_arr (v2 :: t)) with ([x2c] ++ ser_arr (v2 :: t)).
    apply valid_utf8_app; [reflexivity|exact (IH Ht)].
Qed.

Lemma ser_obj_utf8 m :
  Forall (fun kv => valid_utf8 (fst kv) = true /\ valid_utf8 (ser (snd kv)) = true) m ->
  valid_utf8 (ser_obj m) = true.
Proof.
  induction m as [|[k v] t IH]; intros HF; [reflexivity|].
  inversion HF as [|kv' t' [Hk Hv] Ht]; subst kv' t'. cbn [fst snd] in Hk, Hv.
  assert (valid_utf8 (ser_string k ++ [x3a] ++ ser v) = true) as H1.
  { apply valid_utf8_app; [apply ser_string_utf8; exact Hk|]. apply valid_utf8_app; [reflexivity|exact Hv]. }
  destruct t as [|kv2 t].
  - cbn [ser_obj]. rewrite app_nil_r. exact H1.
  - change (ser_obj ((k, v) :: kv2 :: t)) with (ser_string k ++ [x3a] ++ ser v ++ [x2c] ++ ser_obj (kv2 :: t)).
    apply valid_utf8_app; [apply ser_string_utf8; exact Hk|]. apply valid_utf8_app; [reflexivity|].
    apply valid_utf8_app; [exact Hv|]. apply valid_utf8_app; [reflexivity|exact (IH Ht)].
Qed.

Lemma Forall_forallb_imp2 {A} (q1 q2 : A -> bool) (R : A -> Prop) l :
  Forall (fun x => q1 x = true -> q2 x = true -> R x) l ->
  forallb q1 l = true -> forallb q2 l = true -> Forall R l.
Proof.
  induction l as [|x l IH]; intros HF H1 H2; [constructor|].
  inversion HF as [|x' l' Hx Hl]; subst x' l'. cbn [forallb] in H1, H2.
  apply andb_true_iff in H1 as [H1a H1b]. apply andb_true_iff in H2 as [H2a H2b].
  constructor; [apply Hx; assumption|apply IH; assumption].
Qed.

(* Target 3 *)
Theorem ser_utf8 v : jclean v = true -> jutf8 v = true -> valid_utf8 (ser v) = true.
Proof.
  induction v as [|b|z|raw|s|l IHl|m IHm] using jv_ind'; intros Hc Hu.
  - reflexivity.
  - destruct b; reflexivity.
  - apply ser_int_utf8.
  - discriminate Hc.
  - apply ser_string_utf8. exact Hu.
  - cbn [jclean] in Hc. cbn [jutf8] in Hu. rewrite ser_JArr.
    change (x5b :: ser_arr l ++ [x5d]) with ([x5b] ++ ser_arr l ++ [x5d]).
    apply valid_utf8_app; [reflexivity|]. apply valid_utf8_app; [|reflexivity].
    apply ser_arr_utf8. exact (Forall_forallb_imp2 jclean jutf8 _ l IHl Hc Hu).
  - cbn [jclean] in Hc. cbn [jutf8] in Hu. rewrite ser_JObj.
    change (x7b :: ser_obj m ++ [x7d]) with ([x7b] ++ ser_obj m ++ [x7d]).
    apply valid_utf8_app; [reflexivity|]. apply valid_utf8_app; [|reflexivity].
    apply ser_obj_utf8.
    apply (Forall_forallb_imp2 (fun kv => jclean (snd kv)) (fun kv => valid_utf8 (fst kv) && jutf8 (snd kv))); [|exact Hc|exact Hu].
    revert IHm. apply Forall_impl. intros kv IH H1 H2. apply andb_true_iff in H2 as [H2a H2b].
    split; [exact H2a|exact (IH H1 H2b)].
Qed.

(* ====================================================================================== *)
(* 6. [jv_eqb] decides equality; normal form as a boolean                                  *)
(* ====================================================================================== *)
Fixpoint arr_eqb (x y : list jv) : bool :=
  match x, y with
  | [], [] => true
  | a :: x', b :: y' => jv_eqb a b && arr_eqb x' y'
  | _, _ => false
  end.
Fixpoint obj_eqb (x y : list (bytes * jv)) : bool :=
  match x, y with
  | [], [] => true
  | (ka, a) :: x', (kb, b) :: y' => bytes_eqb ka kb && jv_eqb a b && obj_eqb x' y'
  | _, _ => false
  end.
Lemma jv_eqb_arr x y : jv_eqb (JArr x) (JArr y) = arr_eqb x y.
Proof. reflexivity. Qed.
Lemma jv_eqb_obj x y : jv_eqb (JObj x) (JObj y) = obj_eqb x y.
Proof. reflexivity. Qed.

Theorem jv_eqb_eq a : forall b, jv_eqb a b = true -> a = b.
Proof.
  induction a as [|x|x|x|x|l IHl|m IHm] using jv_ind'; intros b H; destruct b as [|y|y|y|y|l2|m2]; try discriminate H.
  - reflexivity.
  - cbn [jv_eqb] in H. apply Bool.eqb_prop in H. congruence.
  - cbn [jv_eqb] in H. apply Z.eqb_eq in H. congruence.
  - cbn [jv_eqb] in H. apply bytes_eqb_eq in H. congruence.
  - cbn [jv_eqb] in H. apply bytes_eqb_eq in H. congruence.
  - rewrite jv_eqb_arr in H. f_equal. revert l2 H.
    induction IHl as [|v t Hv Ht IH]; intros [|v2 t2] H; cbn [arr_eqb] in H; try discriminate H; [reflexivity|].
    apply andb_true_iff in H as [H1 H2]. rewrite (Hv v2 H1), (IH t2 H2). reflexivity.
  - rewrite jv_eqb_obj in H. f_equal. revert m2 H.
    induction IHm as [|[k v] t Hv Ht IH]; intros [|[k2 v2] t2] H; cbn [obj_eqb] in H; try discriminate H; [reflexivity|].
    apply andb_true_iff in H as [H1 H3]. apply andb_true_iff in H1 as [H1 H2]. cbn [snd] in Hv.
    apply bytes_eqb_eq in H1. rewrite H1, (Hv v2 H2), (IH t2 H3). reflexivity.
Qed.

(* serde_json normal form, as a boolean *)
Definition jcanon (v : jv) : bool := jv_eqb (canon v) v.
Lemma jcanon_canon v : jcanon v = true -> canon v = v.
Proof. apply jv_eqb_eq. Qed.

(* ---- a structural sufficient condition for the normal form: strictly ascending keys ---- *)
Ltac ltb_cases :=
  repeat match goal with
  | H : context [N.ltb ?p ?q] |- _ => destruct (N.ltb_spec p q)
  | |- context [N.ltb ?p ?q] => destruct (N.ltb_spec p q)
  end.

Lemma bytes_ltb_trans a : forall b c, bytes_ltb a b = true -> bytes_ltb b c = true -> bytes_ltb a c = true.
Proof.
  induction a as [|x a IH]; intros [|y b] [|z c] H1 H2; cbn [bytes_ltb] in *;
    try discriminate H1; try discriminate H2; try reflexivity.
  ltb_cases; try discriminate H1; try discriminate H2; try reflexivity; try lia.
  exact (IH b c H1 H2).
Qed.

Lemma bytes_ltb_irrefl a : bytes_ltb a a = false.
Proof. induction a as [|x a IH]; [reflexivity|]. cbn [bytes_ltb]. rewrite N.ltb_irrefl. exact IH. Qed.

Lemma bytes_ltb_asym a b : bytes_ltb a b = true -> bytes_ltb b a = false.
Proof.
  intros H. destruct (bytes_ltb b a) eqn:E; [|reflexivity].
  pose proof (bytes_ltb_trans a b a H E) as C. rewrite bytes_ltb_irrefl in C. discriminate C.
Qed.

Lemma bytes_ltb_neq a b : bytes_ltb a b = true -> bytes_eqb b a = false.
Proof.
  intros H. apply bytes_eqb_neq. intros ->. rewrite bytes_ltb_irrefl in H. discriminate H.
Qed.

Fixpoint keys_sorted (ks : list bytes) : bool :=
  match ks with
  | k1 :: t => match t with k2 :: _ => bytes_ltb k1 k2 | [] => true end && keys_sorted t
  | [] => true
  end.

Fixpoint jsorted (v : jv) : bool :=
  match v with
  | JArr l => forallb jsorted l
  | JObj m => keys_sorted (map fst m) && forallb (fun kv => jsorted (snd kv)) m
  | _ => true
  end.

Lemma keys_sorted_app_lt a k r :
  keys_sorted (a ++ k :: r) = true -> Forall (fun x => bytes_ltb x k = true) a.
Proof.
  induction a as [|x a IH]; intros H; [constructor|].
  cbn [app keys_sorted] in H. apply andb_true_iff in H as [H1 H2]. specialize (IH H2).
  constructor; [|exact IH].
  destruct a as [|y a]; cbn [app] in H1; [exact H1|].
  inversion IH as [|y' a' Hy Ha]; subst y' a'. exact (bytes_ltb_trans x y k H1 Hy).
Qed.

Lemma obj_insert_last k v acc :
  Forall (fun x => bytes_ltb x k = true) (map fst acc) -> obj_insert k v acc = acc ++ [(k, v)].
Proof.
  induction acc as [|[k' v'] acc IH]; intros H; [reflexivity|].
  cbn [map fst] in H. inversion H as [|x l Hk Hl]; subst x l.
  cbn [obj_insert]. rewrite (bytes_ltb_neq k' k Hk), (bytes_ltb_asym k' k Hk), (IH Hl). reflexivity.
Qed.

Fixpoint canon_obj (m acc : list (bytes * jv)) : list (bytes * jv) :=
  match m with
  | [] => acc
  | (k, v) :: t => canon_obj t (obj_insert k (canon v) acc)
  end.

Lemma canon_JObj m : canon (JObj m) = JObj (canon_obj m []).
Proof. reflexivity. Qed.

Lemma canon_obj_sorted m : forall acc,
  Forall (fun kv => canon (snd kv) = snd kv) m -> keys_sorted (map fst (acc ++ m)) = true ->
  canon_obj m acc = acc ++ m.
Proof.
  induction m as [|[k v] t IH]; intros acc HF Hs; [symmetry; apply app_nil_r|].
  inversion HF as [|kv l Hv Ht]; subst kv l. cbn [snd] in Hv.
  cbn [canon_obj]. rewrite Hv.
  rewrite map_app in Hs. cbn [map fst] in Hs.
  rewrite (obj_insert_last k v acc (keys_sorted_app_lt _ _ _ Hs)).
  rewrite (IH (acc ++ [(k, v)]) Ht).
  - rewrite <- app_assoc. reflexivity.
  - rewrite <- app_assoc, map_app. cbn [app map fst]. exact Hs.
Qed.

Theorem jsorted_canon v : jsorted v = true -> canon v = v.
Proof.
  induction v as [|b|z|raw|s|l IHl|m IHm] using jv_ind'; intros H; try reflexivity.
  - cbn [jsorted] in H. cbn [canon]. f_equal.
    pose proof (Forall_forallb_imp jsorted _ l IHl H) as HF. clear IHl H.
    induction HF as [|v t Hv Ht IH]; [reflexivity|]. cbn [map]. rewrite Hv, IH. reflexivity.
  - cbn [jsorted] in H. apply andb_true_iff in H as [Hk Hv]. rewrite canon_JObj. f_equal.
    apply (canon_obj_sorted m []); [|exact Hk].
    exact (Forall_forallb_imp (fun kv => jsorted (snd kv)) _ m IHm Hv).
Qed.

Lemma jv_eqb_refl v : jv_eqb v v = true.
Proof.
  induction v as [|b|z|raw|s|l IHl|m IHm] using jv_ind'.
  - reflexivity.
  - destruct b; reflexivity.
  - apply Z.eqb_refl.
  - apply bytes_eqb_refl.
  - apply bytes_eqb_refl.
  - rewrite jv_eqb_arr. induction IHl as [|v t Hv Ht IH]; [reflexivity|]. cbn [arr_eqb]. rewrite Hv, IH. reflexivity.
  - rewrite jv_eqb_obj. induction IHm as [|[k v] t Hv Ht IH]; [reflexivity|]. cbn [obj_eqb]. cbn [snd] in Hv.
    rewrite bytes_eqb_refl, Hv, IH. reflexivity.
Qed.

Corollary jsorted_jcanon v : jsorted v = true -> jcanon v = true.
Proof. intros H. unfold jcanon. rewrite (jsorted_canon v H). apply jv_eqb_refl. Qed.

Lemma jcanon_iff v : jcanon v = true <-> canon v = v.
Proof. split; [apply jcanon_canon|]. intros E. unfold jcanon. rewrite E. apply jv_eqb_refl. Qed.

(* ====================================================================================== *)
Print Assumptions parse_string_body_ser.
Print Assumptions take_digits_dec.
Print Assumptions parse_number_ser.
Print Assumptions pval_ser_rest.
Print Assumptions parse_json_ser.
Print Assumptions ser_no_ctrl.
Print Assumptions valid_utf8_app.
Print Assumptions valid_utf8_esc.
Print Assumptions ser_utf8.
Print Assumptions jv_eqb_eq.
Print Assumptions jsorted_canon.
