(* RetryP.v — C13 "once the fault is gone the same call succeeds": the shape of the cache (directories where directories
   belong, files where files belong, every temp entry a regular file) is kept by every step of a keyed one-shot write and
   by every intermediate state of a step, so after a run in which ANY steps failed the tree still satisfies the
   invariant the fault-free round-trip theorem starts from: the same call, run again without faults, succeeds and its
   data reads back. *)
From CC Require Import Bytes Codec Utf8 Lines Json Sri Record Fs Prog Api Crash Sess
  BytesP CodecP LinesP FsP ProgP SriP RecordP IndexP ReadP WriteP CommitP RemoveP TotalP CrashP CrashIdxP ConfineP KeepP
  FaultP SessP JsonP RecCodecP MetaP HistP FaultFrameP.
From Coq Require Import Lia.
Local Open Scope N_scope.

(* what kind of node may sit at a location *)
Definition okn (l : loc) (n : node) : Prop :=
  match l with
  | InCache (x :: p) =>
      if bytes_eqb x content_dir then ((List.length p <= 3)%nat -> n = Dir) /\ (List.length p = 4%nat -> n <> Dir)
      else if bytes_eqb x (bs "tmp") then
        match p with [] => n = Dir | [_] => exists d, n = File d | _ => True end
      else True
  | _ => True
  end.

Definition Shape (g : fs) : Prop := forall l n, lookup g l = Some n -> okn l n.

Lemma Shape_content g : Shape g -> ContentShape g.
Proof. intros H p n Hl. specialize (H _ _ Hl). cbn [okn] in H. rewrite (proj2 (bytes_eqb_eq content_dir content_dir) eq_refl) in H. exact H. Qed.
Lemma Shape_tmp g : Shape g -> TmpShape g.
Proof.
  intros H. unfold TmpShape, dir_or_absent. destruct (lookup g (InCache tmp_dir)) as [n|] eqn:E; [|left; reflexivity].
  right. f_equal. exact (H _ _ E).
Qed.

(* the steps that keep the shape: whatever node they put somewhere is of the right kind for that place *)
Definition sstep (c : sys) : Prop :=
  match c with
  | MkdirAll p => forall q, In q (prefixes p) -> okn (InCache q) Dir
  | Fallocate l _ | MmapStore l _ _ | Truncate l _ | WriteAppend l _ | Append l _ | CreateIfMissing l => forall d, okn l (File d)
  | Rename s d => (exists x, s = InCache [bs "tmp"; x]) /\ forall dd, okn d (File dd)
  | Link _ _ | SymlinkTo _ _ | CopyFile _ _ => False
  | _ => True
  end.

Lemma Shape_update g l n : Shape g -> okn l n -> Shape (update g l n).
Proof. intros H Hn l' n' Hl. rewrite lookup_update in Hl. destruct (loc_eqb l l') eqn:E; [apply loc_eqb_eq in E; subst l'; inversion Hl; subst n'; exact Hn|exact (H _ _ Hl)]. Qed.
Lemma Shape_remove g l : Shape g -> Shape (remove g l).
Proof.
  intros H l' n' Hl. destruct (loc_eq_dec l l') as [->|N]; [rewrite lookup_remove_eq in Hl; discriminate|].
  rewrite lookup_remove_neq in Hl by exact N. exact (H _ _ Hl).
Qed.

Lemma Shape_mkdirs g ps : Shape g -> (forall q, In q ps -> okn (InCache q) Dir) -> Shape (snd (mkdirs g ps)) /\ Forall Shape (mkdirs_states g ps).
Proof.
  revert g. induction ps as [|p ps IH]; intros g H Hq; cbn [mkdirs mkdirs_states snd]; [split; [exact H|constructor]|].
  destruct (lookup g (InCache p)) as [[d| |t]|]; cbn [snd]; try (split; [exact H|constructor]).
  - apply IH; [exact H|intros q Hin; apply Hq; right; exact Hin].
  - assert (Shape (update g (InCache p) Dir)) as H1 by (apply Shape_update; [exact H|apply Hq; left; reflexivity]).
    destruct (IH _ H1 (fun q Hin => Hq q (or_intror Hin))) as [A B]. split; [exact A|constructor; assumption].
Qed.

Lemma tmpfile_okn x d : okn (InCache [bs "tmp"; x]) (File d).
Proof. cbn [okn]. destruct (bytes_eqb (bs "tmp") content_dir) eqn:E; [vm_compute in E; discriminate|]. rewrite (proj2 (bytes_eqb_eq _ _) eq_refl). eauto. Qed.

Lemma shape_step c g : Shape g -> sstep c -> Shape (snd (exec c g)) /\ Forall Shape (mid_states c g).
Proof.
  intros H Hs.
  assert (forall l (X : Type) (xs : list X) (k : X -> bytes), (forall d, okn l (File d)) -> Forall Shape (map (fun p => update g l (File (k p))) xs)) as Hmap.
  { intros l X xs k Hl. apply Forall_forall. intros h Hh. apply in_map_iff in Hh as [p [<- _]]. apply Shape_update; [exact H|apply Hl]. }
  destruct c as [p| |l n|l off s|l n|l s|src dst|l|l|l d|l|l|src dst|t dst|src dst|src dst|p|p|p]; cbn [sstep] in Hs; try contradiction; unfold exec, mid_states.
  - (* MkdirAll *) apply Shape_mkdirs; assumption.
  - (* CreateTmp *) destruct (is_dir g tmp_dir); cbn [snd]; (split; [|constructor]); [apply Shape_update; [exact H|apply tmpfile_okn]|exact H].
  - (* Fallocate *) destruct (lookup g l) as [[xd| |xt]|]; cbn [snd]; try (split; [exact H|constructor]).
    destruct (n =? 0); cbn [snd]; (split; [|constructor]); [exact H|apply Shape_update; [exact H|apply Hs]].
  - (* MmapStore *) destruct (lookup g l) as [[xd| |xt]|]; cbn [snd]; try (split; [exact H|constructor]).
    destruct (off + lenN s <=? lenN xd); cbn [snd]; (split; [|try constructor]); try exact H; [apply Shape_update; [exact H|apply Hs]|].
    apply (Hmap l _ _ (fun p => store_at xd off p)). exact Hs.
  - (* Truncate *) destruct (lookup g l) as [[xd| |xt]|]; cbn [snd]; (split; [|constructor]); try exact H. apply Shape_update; [exact H|apply Hs].
  - (* WriteAppend *) destruct (lookup g l) as [[xd| |xt]|]; cbn [snd]; (split; [|try constructor]); try exact H; [apply Shape_update; [exact H|apply Hs]|].
    apply (Hmap l _ _ (fun p => xd ++ p)). exact Hs.
  - (* Rename *) destruct Hs as [[x ->] Hd]. split; [|constructor].
    destruct (lookup g (InCache [bs "tmp"; x])) as [n|] eqn:E; cbn [snd]; [|exact H].
    destruct (parent_ok g dst); cbn [snd]; [|exact H].
    pose proof (H _ _ E) as Hn. cbn [okn] in Hn. destruct (bytes_eqb (bs "tmp") content_dir) eqn:E1; [vm_compute in E1; discriminate|].
    rewrite (proj2 (bytes_eqb_eq _ _) eq_refl) in Hn. destruct Hn as [dd ->].
    destruct (lookup g dst) as [[xd0| |xt0]|]; cbn [snd]; try exact H; (apply Shape_update; [apply Shape_remove; exact H|apply Hd]).
  - (* Unlink *) split; [|constructor]. destruct (lookup g l) as [[xd| |xt]|]; cbn [snd]; try exact H; apply Shape_remove; exact H.
  - (* CreateIfMissing *) split; [|constructor]. destruct (lookup g l) as [[xd| |xt]|]; cbn [snd]; try exact H.
    destruct (parent_ok g l); cbn [snd]; [apply Shape_update; [exact H|apply Hs]|exact H].
  - (* Append *) destruct (lookup g l) as [[xd0| |xt]|]; cbn [snd]; (split; [|try constructor]); try exact H; [apply Shape_update; [exact H|apply Hs]|].
    apply (Hmap l _ _ (fun p => xd0 ++ p)). exact Hs.
  - (* ReadFile *) split; [|constructor]. destruct (resolve g l) as [[xd| |xt]|]; exact H.
  - (* Exists *) split; [exact H|constructor].
  - (* Reflink *) split; [|constructor]. destruct (resolve g src) as [[xd| |xt]|]; exact H.
  - (* WalkFiles *) split; [|constructor]. destruct (is_dir g p); exact H.
  - (* ReadDir *) split; [|constructor]. destruct (is_dir g p); exact H.
  - (* RemoveDirAll *) split; [|constructor]. destruct (lookup g (InCache p)) as [[xd| |xt]|]; cbn [snd]; try exact H.
    intros l n Hl. rewrite (lookup_filter_key (fun l => negb (under p l))) in Hl. destruct (negb (under p l)); [exact (H _ _ Hl)|discriminate].
Qed.

Section Rt.
Variable hash : algo -> bytes -> bytes.
Hypothesis HL : HashLen hash.

Lemma s_unlink_quiet {A} l (r : res A) : all_steps sstep (unlink_quiet l r).
Proof. unfold unlink_quiet. cbn [all_steps sstep]. split; [exact I|intros; exact I]. Qed.

Lemma okn_tmpdir : okn (InCache tmp_dir) Dir.
Proof. cbn [okn tmp_dir]. destruct (bytes_eqb (bs "tmp") content_dir) eqn:E; [vm_compute in E; discriminate|]. rewrite (proj2 (bytes_eqb_eq _ _) eq_refl). reflexivity. Qed.

Lemma s_open_writer fl key o : all_steps sstep (open_writer fl key o).
Proof.
  unfold open_writer. apply all_steps_rbind.
  - apply all_steps_step_ok. cbn [sstep]. intros q Hq. cbn in Hq. destruct Hq as [<-|[]]. exact okn_tmpdir.
  - intros _. cbn [all_steps sstep]. split; [exact I|]. intros r. destruct r; try exact I.
    destruct (content_size fl key o) as [sz|]; [|exact I]. destruct ((1 <=? sz) && (sz <=? max_mmap)); [|exact I].
    cbn [all_steps sstep]. split; [intros d; apply tmpfile_okn|]. intros r2. destruct r2; try exact I. apply s_unlink_quiet.
Qed.

Lemma s_write_chunk w d : tmpfile (w_tmp w) -> all_steps sstep (write_chunk w d).
Proof.
  intros [x Hx]. assert (forall dd, okn (w_tmp w) (File dd)) as Ht by (intros dd; rewrite Hx; apply tmpfile_okn).
  unfold write_chunk. destruct (w_map w) as [sz|].
  - destruct (w_pos w + lenN d <=? sz).
    + apply all_steps_rbind; [apply all_steps_step_ok; exact Ht|intros; exact I].
    + apply all_steps_rbind; [apply all_steps_step_ok; exact Ht|intros _].
      apply all_steps_rbind; [apply all_steps_step_ok; exact Ht|intros; exact I].
  - apply all_steps_rbind; [apply all_steps_step_ok; exact Ht|intros; exact I].
Qed.

Lemma okn_content p n : ((List.length p <= 3)%nat -> n = Dir) /\ (List.length p = 4%nat -> n <> Dir) -> okn (InCache (content_dir :: p)) n.
Proof. intros H. unfold okn. rewrite (proj2 (bytes_eqb_eq content_dir content_dir) eq_refl). exact H. Qed.
Lemma okn_content_prefix x a b q : In q (prefixes [content_dir; x; a; b]) -> okn (InCache q) Dir.
Proof.
  change (prefixes [content_dir; x; a; b]) with [[content_dir]; [content_dir; x]; [content_dir; x; a]; [content_dir; x; a; b]].
  intros [<-|[<-|[<-|[<-|[]]]]]; apply okn_content; (split; [reflexivity|cbn [List.length]; intros X; discriminate X]).
Qed.
Lemma okn_content_file x a b c d : okn (InCache [content_dir; x; a; b; c]) (File d).
Proof. apply okn_content. split; [cbn [List.length]; lia|discriminate]. Qed.

Lemma s_close_writer w : tmpfile (w_tmp w) -> all_steps sstep (close_writer hash w).
Proof.
  intros [x Hx]. assert (forall dd, okn (w_tmp w) (File dd)) as Ht by (intros dd; rewrite Hx; apply tmpfile_okn).
  unfold close_writer. rewrite (content_path_computed hash _ _ HL). unfold cpath.
  apply all_steps_bind.
  - unfold trim. destruct (w_map w) as [sz|]; [destruct (w_pos w <? sz)|]; try exact I. apply all_steps_step_ok. exact Ht.
  - intros rt. destruct rt; try apply s_unlink_quiet.
    unfold publish. cbn [all_steps sstep parent removelast]. split; [intros q Hq; exact (okn_content_prefix _ _ _ q Hq)|].
    intros r0. destruct r0; try apply s_unlink_quiet.
    all: cbn [all_steps sstep]; split; [split; [exists x; exact Hx|intros dd; apply okn_content_file]|].
    all: intros r; destruct r; try exact I.
    all: cbn [all_steps sstep]; split; [exact I|]; intros r2; destruct r2 as [| |[|]| | | |]; apply s_unlink_quiet.
Qed.

Lemma okn_index p n : okn (InCache (index_dir :: p)) n.
Proof.
  cbn [okn]. destruct (bytes_eqb index_dir content_dir) eqn:E; [vm_compute in E; discriminate|].
  destruct (bytes_eqb index_dir (bs "tmp")) eqn:E2; [vm_compute in E2; discriminate|exact I].
Qed.

Lemma s_insert key o now : all_steps sstep (insert hash key o now).
Proof.
  destruct (bucket_path_shape hash key) as [a [b [c Hb]]]. unfold insert. rewrite Hb.
  apply all_steps_rbind.
  - apply all_steps_step_ok. cbn [sstep parent removelast]. intros q Hq. cbn in Hq. destruct Hq as [<-|[<-|[<-|[]]]]; apply okn_index.
  - intros _. apply all_steps_rbind; [apply all_steps_step_ok; intros d; apply okn_index|intros _].
    apply all_steps_rbind; [apply all_steps_step_ok; intros d; apply okn_index|intros _]. exact I.
Qed.

Lemma s_commit w now : tmpfile (w_tmp w) -> all_steps sstep (commit hash w now).
Proof.
  intros Ht. unfold commit. apply all_steps_rbind; [apply s_close_writer; exact Ht|intros wsri].
  destruct (match o_sri (w_opts w) with Some d => match sri_matches d wsri with Some _ => Some d | None => None end | None => Some wsri end); [|exact I].
  destruct (match o_size (w_opts w) with Some s => negb (s =? w_written w) | None => false end); destruct (o_size (w_opts w));
    try exact I; destruct (w_key w); try exact I; apply s_insert.
Qed.

(* the shape after any faulty run of a program whose steps keep it *)
Lemma shape_faulty {A} (p : prog A) f a f' : Shape f -> all_steps sstep p -> frun p f a f' -> Shape f'.
Proof.
  intros Hs Hp Hr. apply (frun_invariant Shape (fun c _ => sstep c)) with (p := p) (f := f) (a := a); [|exact Hs| |exact Hr].
  - intros c g Hg Hc. apply shape_step; assumption.
  - apply (all_steps_fsteps sstep); [intros c g H; exact H|exact Hp].
Qed.

(* a keyed one-shot write in which any steps fail leaves the cache well-shaped *)
Theorem write_faulty_shape f fl a key data now r f' :
  Shape f -> frun (write hash fl a key data now) f r f' -> Shape f'.
Proof.
  intros Hs Hr. unfold write, oneshot, rbind in Hr. apply frun_bind in Hr as [r1 [f1 [Ho Hrest]]].
  pose proof (shape_faulty _ _ _ _ Hs (s_open_writer _ _ _) Ho) as H1.
  pose proof (fpost_frun _ _ _ _ _ (open_writer_fpost fl (Some key) (write_opts fl a data)) Ho) as Q1.
  destruct r1 as [w|e| | |]; cbn [okq] in Q1; try contradiction.
  2: { apply frun_ret in Hrest as [_ ->]. exact H1. }
  destruct Q1 as [Ht _].
  destruct data as [|b data]; [exact (shape_faulty _ _ _ _ H1 (s_commit w now Ht) Hrest)|].
  apply frun_bind in Hrest as [r2 [f2 [Hc Hrest]]].
  pose proof (shape_faulty _ _ _ _ H1 (s_write_chunk w (b :: data) Ht) Hc) as H2.
  pose proof (fpost_frun _ _ _ _ _ (write_chunk_fpost w (b :: data)) Hc) as Q2.
  destruct r2 as [w'|e| | |]; cbn [okq] in Q2; try contradiction.
  - destruct Q2 as [Et _]. apply (shape_faulty _ _ _ _ H2 (s_commit w' now (eq_ind_r tmpfile Ht Et)) Hrest).
  - exact (shape_faulty _ _ _ _ H2 (s_unlink_quiet _ _) Hrest).
Qed.

(* hence: the same call, issued again without faults, succeeds and its data reads back *)
Theorem write_retry_succeeds f fl a key data now r f' :
  IndexInv f -> Shape f ->
  let o' := commit_opts (write_opts fl a data) (sri_of hash a data) (lenN data) in
  wf_rec hash (smeta_of key o' now) -> PrefixFree hash (encode_smeta (smeta_of key o' now)) ->
  frun (write hash fl a key data now) f r f' ->
  CacheInv f' /\
  fst (run (write hash fl a key data now) f') = Ok (sri_of hash a data) /\
  let f'' := snd (run (write hash fl a key data now) f') in
  run (read hash key) f'' = (Ok data, f'') /\ (forall k, k <> key -> abs_idx hash f'' k = abs_idx hash f k).
Proof.
  intros Hi Hs o' Hwf Hpf Hr.
  destruct (write_faulty_others hash HL f fl a key data now r f' Hi Hwf Hpf Hr) as [Hi' [Hother _]].
  pose proof (write_faulty_shape f fl a key data now r f' Hs Hr) as Hs'.
  assert (CacheInv f') as Hinv by (split; [exact Hi'|split; [apply Shape_content|apply Shape_tmp]; exact Hs']).
  split; [exact Hinv|].
  destruct (write_roundtrip hash HL f' fl a key data now Hinv Hwf) as [R1 [_ [R3 [_ [R5 _]]]]].
  split; [exact R1|]. split; [exact R3|]. intros k Hne. rewrite (R5 k Hne). exact (Hother k Hne).
Qed.

End Rt.
