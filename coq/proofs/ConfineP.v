(* ConfineP.v — C15: every location any step of any API program can create, change or delete lies inside the cache
   (or is the destination handed to an extraction); read-only calls have no mutating step at all; keys reach paths
   only through their hash; path components are hex strings / fixed literals. *)
From CC Require Import Bytes Codec Utf8 Lines Json Sri Record Fs Prog Api Crash
  BytesP CodecP FsP ProgP SriP RecordP IndexP ReadP WriteP CommitP RemoveP CrashP.
From Coq Require Import Lia.
Local Open Scope N_scope.

Definition in_cache (l : loc) : Prop := exists p, l = InCache p.
(* all touched locations are inside the cache, or are the one destination [dst] *)
Definition confined (dst : option loc) (c : sys) : Prop :=
  forall l, may_touch c l -> in_cache l \/ dst = Some l.
Definition readonly (c : sys) : Prop := forall l, ~ may_touch c l.

Lemma readonly_confined dst c : readonly c -> confined dst c.
Proof. intros H l Hl. exfalso. exact (H l Hl). Qed.

Lemma under_in_cache p l : under p l = true -> in_cache l.
Proof. destruct l as [q|e]; cbn; [eexists; reflexivity|discriminate]. Qed.

Section Cf.
Variable hash : algo -> bytes -> bytes.

Ltac conf_step := apply all_steps_step_ok; intros lx Hx; cbn [may_touch] in Hx;
  first [ left; subst lx; eexists; reflexivity
        | left; apply in_map_iff in Hx as [q [<- _]]; eexists; reflexivity
        | left; destruct Hx as [n ->]; eexists; reflexivity
        | left; apply (under_in_cache _ _ Hx) ].

Lemma unlink_quiet_conf {A} dst p (r : res A) : all_steps (confined dst) (unlink_quiet (InCache p) r).
Proof. unfold unlink_quiet. cbn [all_steps]. split; [intros l ->; left; eexists; reflexivity|intros; exact I]. Qed.

Theorem open_writer_confined dst fl key o : all_steps (confined dst) (open_writer fl key o).
Proof.
  unfold open_writer. apply all_steps_rbind; [conf_step|intros _].
  cbn [all_steps]. split; [intros l [n ->]; left; eexists; reflexivity|]. intros r. destruct r; try exact I.
  destruct (content_size fl key o) as [sz|]; [|exact I]. destruct ((1 <=? sz) && (sz <=? max_mmap)); [|exact I].
  cbn [all_steps]. split; [intros l ->; left; eexists; reflexivity|]. intros r2. destruct r2; try exact I. apply unlink_quiet_conf.
Qed.

Definition wtmp_in (w : wstate) : Prop := exists p, w_tmp w = InCache p.

Theorem write_chunk_confined dst w d : wtmp_in w -> all_steps (confined dst) (write_chunk w d).
Proof.
  intros [p Hp]. unfold write_chunk. rewrite Hp. destruct (w_map w) as [sz|].
  - destruct (w_pos w + lenN d <=? sz).
    + apply all_steps_rbind; [conf_step|intros; exact I].
    + apply all_steps_rbind; [conf_step|intros _]. apply all_steps_rbind; [conf_step|intros; exact I].
  - apply all_steps_rbind; [conf_step|intros; exact I].
Qed.

Theorem insert_confined dst key o now : all_steps (confined dst) (insert hash key o now).
Proof.
  unfold insert. apply all_steps_rbind; [conf_step|intros _].
  apply all_steps_rbind; [conf_step|intros _]. apply all_steps_rbind; [conf_step|intros _]. exact I.
Qed.

Theorem close_writer_confined dst w : wtmp_in w -> all_steps (confined dst) (close_writer hash w).
Proof.
  intros [p Hp]. unfold close_writer, trim, publish. rewrite Hp. destruct (content_path (sri_of hash (w_algo w) (w_data w))) as [cp|]; [|apply unlink_quiet_conf].
  apply all_steps_bind;
    [destruct (w_map w) as [sz|]; [destruct (w_pos w <? sz)|]; try exact I; conf_step|].
  intros rt; destruct rt; try apply unlink_quiet_conf.
  cbn [all_steps]. split; [intros lx Hl; cbn [may_touch] in Hl; apply in_map_iff in Hl as [q [<- _]]; left; eexists; reflexivity|].
  intros r0. destruct r0; try apply unlink_quiet_conf.
  all: cbn [all_steps]; split; [intros lx [->| ->]; left; eexists; reflexivity|].
  all: intros r; destruct r; try exact I.
  all: cbn [all_steps]; split; [intros lx []|]; intros r2; destruct r2 as [| |[|]| | | |]; apply unlink_quiet_conf.
Qed.

Theorem commit_confined dst w now : wtmp_in w -> all_steps (confined dst) (commit hash w now).
Proof.
  intros Hw. unfold commit. apply all_steps_rbind; [apply close_writer_confined; exact Hw|intros wsri].
  destruct (match o_sri (w_opts w) with Some d => match sri_matches d wsri with Some _ => Some d | None => None end | None => Some wsri end); [|exact I].
  destruct (match o_size (w_opts w) with Some s => negb (s =? w_written w) | None => false end); destruct (o_size (w_opts w));
    try exact I; destruct (w_key w); try exact I; apply insert_confined.
Qed.

(* the writer handed out by open_writer has its temp file inside the cache, and chunks keep it *)
Lemma open_writer_wtmp fl key o f w : fst (run (open_writer fl key o) f) = Ok w -> wtmp_in w.
Proof.
  unfold open_writer, rbind. rewrite run_bind. destruct (run (step_ok (MkdirAll tmp_dir)) f) as [r f1].
  destruct r; cbn [run fst]; try discriminate. destruct (exec CreateTmp f1) as [r2 f2]. destruct r2; cbn [run fst]; try discriminate.
  destruct (content_size fl key o) as [sz|].
  - destruct ((1 <=? sz) && (sz <=? max_mmap)).
    + cbn [run]. destruct (exec (Fallocate _ sz) f2) as [r3 f3]. destruct r3; cbn [run fst]; try (intros H; inversion H; eexists; reflexivity).
      unfold unlink_quiet. cbn [run]. destruct (exec _ f3). cbn. discriminate.
    + cbn [run fst]. intros H; inversion H; eexists; reflexivity.
  - cbn [run fst]. intros H; inversion H; eexists; reflexivity.
Qed.
Lemma write_chunk_wtmp w d f w' : fst (run (write_chunk w d) f) = Ok w' -> w_tmp w' = w_tmp w.
Proof.
  unfold write_chunk. destruct (w_map w) as [sz|]; [destruct (w_pos w + lenN d <=? sz)|]; unfold rbind; rewrite ?run_bind.
  - destruct (run (step_ok _) f) as [r f1]. destruct r; cbn [run fst]; try discriminate. intros H; inversion H; reflexivity.
  - destruct (run (step_ok _) f) as [r f1]. destruct r; cbn [run fst]; try discriminate. rewrite run_bind.
    destruct (run (step_ok _) f1) as [r2 f2]. destruct r2; cbn [run fst]; try discriminate. intros H; inversion H; reflexivity.
  - destruct (run (step_ok _) f) as [r f1]. destruct r; cbn [run fst]; try discriminate. intros H; inversion H; reflexivity.
Qed.

Theorem oneshot_confined dst fl key o data now f : steps_ok (fun c _ => confined dst c) (oneshot hash fl key o data now) f.
Proof.
  unfold oneshot, rbind at 1. apply steps_ok_bind. split.
  - apply (all_steps_ok (confined dst)); [auto|apply open_writer_confined].
  - pose proof (open_writer_wtmp fl key o f) as Hw. destruct (run (open_writer fl key o) f) as [r f1]. cbn [fst snd] in *.
    destruct r as [w|e| | |]; try exact I. specialize (Hw w eq_refl).
    destruct data as [|b data]; [apply (all_steps_ok (confined dst)); [auto|apply commit_confined; exact Hw]|].
    apply steps_ok_bind. split; [apply (all_steps_ok (confined dst)); [auto|apply write_chunk_confined; exact Hw]|].
    pose proof (write_chunk_wtmp w (b :: data) f1) as Hw'. destruct (run (write_chunk w (b :: data)) f1) as [r2 f2]. cbn [fst snd] in *.
    destruct Hw as [p Hp].
    destruct r2 as [w'|e| | |]; try (apply (all_steps_ok (confined dst)); [auto|]; rewrite Hp; apply unlink_quiet_conf).
    apply (all_steps_ok (confined dst)); [auto|]. apply commit_confined. exists p. rewrite (Hw' w' eq_refl). exact Hp.
Qed.

(* ---------- read-only calls: no mutating step at all, on any answers ---------- *)
Lemma read_file_ro l : all_steps readonly (read_file l).
Proof. unfold read_file. cbn. split; [intros l0 H; exact H|]. intros r; destruct r; exact I. Qed.
Lemma bucket_entries_ro b : all_steps readonly (bucket_entries hash b).
Proof. unfold bucket_entries. cbn. split; [intros l0 H; exact H|]. intros r; destruct r as [| | | | | |[]]; exact I. Qed.
Theorem find_ro key : all_steps readonly (find hash key).
Proof. unfold find. apply all_steps_rbind; [apply bucket_entries_ro|intros; exact I]. Qed.
Lemma with_cpath_ro {A} i (k : loc -> prog (res A)) : (forall l, all_steps readonly (k l)) -> all_steps readonly (with_cpath i k).
Proof. intros H. unfold with_cpath. destruct (content_path i); [apply H|exact I]. Qed.
Lemma by_key_ro {A} key (k : integrity -> prog (res A)) : (forall i, all_steps readonly (k i)) -> all_steps readonly (by_key hash key k).
Proof. intros H. unfold by_key. apply all_steps_rbind; [apply find_ro|]. intros [m|]; [apply H|exact I]. Qed.
Theorem read_hash_ro i : all_steps readonly (read_hash hash i).
Proof.
  unfold read_hash. apply with_cpath_ro. intros l. apply all_steps_rbind; [apply read_file_ro|]. intros d.
  destruct (check_res hash i d); exact I.
Qed.
Theorem read_ro key : all_steps readonly (read hash key).
Proof. apply by_key_ro. apply read_hash_ro. Qed.
Theorem ropen_hash_ro i : all_steps readonly (ropen_hash i).
Proof. unfold ropen_hash. apply with_cpath_ro. intros l. apply all_steps_rbind; [apply read_file_ro|intros; exact I]. Qed.
Theorem ropen_ro key : all_steps readonly (ropen hash key).
Proof. apply by_key_ro. apply ropen_hash_ro. Qed.
Theorem exists_hash_ro i : all_steps readonly (exists_hash i).
Proof. unfold exists_hash. apply with_cpath_ro. intros l. cbn. split; [intros l0 H; exact H|]. intros r; destruct r; exact I. Qed.
Lemma ls_buckets_ro bs : all_steps (fun c => readonly c) (ls_buckets hash bs).
Proof.
  induction bs as [|b bs IH]; [exact I|]. cbn [ls_buckets]. apply all_steps_bind; [apply bucket_entries_ro|intros r].
  apply all_steps_bind; [exact IH|intros; exact I].
Qed.
Theorem ls_ro : all_steps readonly (ls hash).
Proof.
  unfold ls. cbn [all_steps]. split; [intros l H; exact H|]. intros r. destruct r; try exact I.
  apply all_steps_bind; [apply ls_buckets_ro|intros; exact I].
Qed.

(* a program without mutating steps leaves the tree exactly as it was — at the end and at every crash state *)
Lemma is_prefix_refl p : is_prefix p p = true.
Proof. induction p as [|x p IH]; [reflexivity|]. cbn. rewrite bytes_eqb_refl. exact IH. Qed.

Lemma readonly_exec c f : readonly c -> snd (exec c f) = f /\ mid_states c f = [].
Proof.
  intros Hc. unfold readonly in Hc.
  destruct c; cbn [may_touch] in Hc.
  - destruct p as [|x p]; [split; reflexivity|]. exfalso. apply (Hc (InCache [x])). cbn. left. reflexivity.
  - exfalso. apply (Hc (InCache (tmp_dir ++ [[]]))). eexists. reflexivity.
  - exfalso. apply (Hc l). reflexivity.
  - exfalso. apply (Hc l). reflexivity.
  - exfalso. apply (Hc l). reflexivity.
  - exfalso. apply (Hc l). reflexivity.
  - exfalso. apply (Hc src). left. reflexivity.
  - exfalso. apply (Hc l). reflexivity.
  - exfalso. apply (Hc l). reflexivity.
  - exfalso. apply (Hc l). reflexivity.
  - unfold exec, mid_states. destruct (resolve f l) as [[d| |t]|]; split; reflexivity.
  - unfold exec, mid_states. split; reflexivity.
  - exfalso. apply (Hc dst). reflexivity.
  - exfalso. apply (Hc dst). reflexivity.
  - exfalso. apply (Hc dst). reflexivity.
  - exfalso. apply (Hc dst). reflexivity.
  - unfold exec, mid_states. destruct (is_dir f p); split; reflexivity.
  - unfold exec, mid_states. destruct (is_dir f p); split; reflexivity.
  - exfalso. apply (Hc (InCache p)). cbn. apply is_prefix_refl.
Qed.

Theorem readonly_no_mutation {A} (p : prog A) f :
  all_steps readonly p -> snd (run p f) = f /\ Forall (fun g => g = f) (crash_states p f).
Proof.
  revert f. induction p as [a|c k IH]; intros f Hp; cbn [run crash_states snd all_steps] in *; [split; [reflexivity|constructor; [reflexivity|constructor]]|].
  destruct Hp as [Hc Hk]. destruct (readonly_exec c f Hc) as [E1 E2].
  destruct (exec c f) as [r f1]. cbn [snd] in E1. subst f1. rewrite E2. cbn [app].
  destruct (IH r f (Hk r)) as [H1 H2]. split; [exact H1|constructor; [reflexivity|exact H2]].
Qed.

(* ---------- removals and extraction ---------- *)
Theorem remove_hash_confined dst i : all_steps (confined dst) (remove_hash i).
Proof. unfold remove_hash, with_cpath. destruct (content_path i); [conf_step|exact I]. Qed.

Lemma readonly_all_confined {A} dst (p : prog A) : all_steps readonly p -> all_steps (confined dst) p.
Proof. induction p as [a|c k IH]; cbn [all_steps]; [auto|]. intros [Hc Hk]. split; [apply readonly_confined; exact Hc|intros r; apply IH; apply Hk]. Qed.

Theorem remove_fully_confined dst key : all_steps (confined dst) (remove_fully hash key).
Proof.
  unfold remove_fully. apply all_steps_rbind; [apply readonly_all_confined, find_ro|]. intros e. apply all_steps_rbind.
  - destruct e as [m|]; [|exact I]. unfold with_cpath. destruct (content_path (m_sri m)); [|exact I].
    unfold unlink_if_present. cbn [all_steps]. split; [intros lx ->; left; eexists; reflexivity|]. intros r. destruct r as [| | | | | |[]]; exact I.
  - intros _. conf_step.
Qed.

Lemma remove_all_confined dst ls : all_steps (confined dst) (remove_all ls).
Proof.
  induction ls as [|[p|e] ls IH]; [exact I| |exact IH]. cbn [remove_all]. apply all_steps_rbind; [conf_step|intros _; exact IH].
Qed.
Theorem clear_confined dst : all_steps (confined dst) clear.
Proof. unfold clear. cbn [all_steps]. split; [intros l []|]. intros r. destruct r; try exact I. apply remove_all_confined. Qed.

Theorem extract_hash_confined x checked i dst : all_steps (confined (Some dst)) (extract_hash hash x checked i dst).
Proof.
  unfold extract_hash, with_cpath. destruct (content_path i) as [cp|]; [|exact I].
  assert (all_steps (confined (Some dst)) (xstep x (InCache cp) dst)) as Hx.
  { unfold xstep. cbn [all_steps]. split; [|intros r; destruct r; exact I].
    destruct x; intros l Hl; cbn [may_touch] in Hl; subst l; right; reflexivity. }
  destruct checked; [|exact Hx]. apply all_steps_rbind.
  - unfold verify. apply all_steps_rbind; [apply readonly_all_confined, read_file_ro|]. intros d. destruct (check_res hash i d); exact I.
  - intros n. apply all_steps_rbind; [exact Hx|intros; exact I].
Qed.
Theorem extract_confined x checked key dst : all_steps (confined (Some dst)) (extract hash x checked key dst).
Proof.
  unfold extract, by_key. apply all_steps_rbind; [apply readonly_all_confined, find_ro|]. intros [m|]; [apply extract_hash_confined|exact I].
Qed.

(* ---------- keys are opaque: they reach paths only through their hash ---------- *)
Theorem key_only_via_hash k1 k2 : hash Sha1 k1 = hash Sha1 k2 -> bucket_path hash k1 = bucket_path hash k2.
Proof. intros H. unfold bucket_path, hash_key. rewrite H. reflexivity. Qed.

Definition hexchar (b : byte) : bool := let n := b2n b in ((48 <=? n) && (n <=? 57)) || ((97 <=? n) && (n <=? 102)).
Lemma hexd_hexchar n : n < 16 -> hexchar (hexd n) = true.
Proof.
  intros H. assert (In n (map N.of_nat (seq 0 16))) as Hin.
  { apply in_map_iff. exists (N.to_nat n). split; [apply N2Nat.id|apply in_seq; lia]. }
  cbn in Hin. repeat (destruct Hin as [<-|Hin]; [reflexivity|]). destruct Hin.
Qed.
Lemma hex_encode_hexchars l : forallb hexchar (hex_encode l) = true.
Proof.
  induction l as [|b l IH]; [reflexivity|]. unfold hex_encode in *. cbn [flat_map hex_byte app forallb]. rewrite IH.
  pose proof (b2n_bounded b) as Hb.
  rewrite !hexd_hexchar; [reflexivity| |].
  - apply N.mod_lt. discriminate.
  - apply N.div_lt_upper_bound; [discriminate|exact Hb].
Qed.
Lemma forallb_takeN {A} (p : A -> bool) n l : forallb p l = true -> forallb p (takeN n l) = true.
Proof. rewrite takeN_firstn. revert l. induction (N.to_nat n) as [|m IH]; intros l H; [reflexivity|]. destruct l as [|x l]; [reflexivity|]. cbn in *. apply andb_true_iff in H as [H1 H2]. rewrite H1. apply IH. exact H2. Qed.
Lemma forallb_dropN {A} (p : A -> bool) n l : forallb p l = true -> forallb p (dropN n l) = true.
Proof. rewrite dropN_skipn. revert l. induction (N.to_nat n) as [|m IH]; intros l H; [exact H|]. destruct l as [|x l]; [reflexivity|]. cbn in *. apply andb_true_iff in H as [H1 H2]. apply IH. exact H2. Qed.

(* every component below index-v5 / content-v2/<algo> is a string over [0-9a-f]: never ".", "..", never contains "/" or NUL *)
Theorem bucket_components_hex key : exists a b c, bucket_path hash key = [index_dir; a; b; c] /\
  forallb hexchar a = true /\ forallb hexchar b = true /\ forallb hexchar c = true.
Proof.
  unfold bucket_path, hash_key. eexists _, _, _. split; [reflexivity|].
  pose proof (hex_encode_hexchars (hash Sha1 key)) as H. repeat split; auto using forallb_takeN, forallb_dropN.
Qed.
Theorem content_components_hex i p : content_path i = Some p -> exists al a b c, p = [content_dir; algo_name al; a; b; c] /\
  forallb hexchar a = true /\ forallb hexchar b = true /\ forallb hexchar c = true.
Proof.
  unfold content_path, sri_to_hex. destruct i as [|h t]; [discriminate|]. destruct (b64_decode (h_digest h)) as [raw|]; [|discriminate].
  destruct (lenN (hex_encode raw) <? 4); [discriminate|]. intros H. inversion H. eexists _, _, _, _. split; [reflexivity|].
  pose proof (hex_encode_hexchars raw) as Hh. repeat split; auto using forallb_takeN, forallb_dropN.
Qed.

End Cf.
