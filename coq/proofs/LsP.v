(* LsP.v — "reverse, keep the first record per key, drop tombstones" lists exactly what
   "fold, last record per key wins, tombstone clears" finds.  Generic in the key/value types. *)
From Coq Require Import List Bool Lia.
Import ListNotations.

Section Ls.
Variable K V : Type.
Variable keqb : K -> K -> bool.
Hypothesis keqb_spec : forall a b, reflect (a = b) (keqb a b).

Definition grec := (K * option V)%type.

Definition gfind (k : K) (es : list grec) : option V :=
  fold_left (fun acc e => if keqb (fst e) k then snd e else acc) es None.

Fixpoint gdedupe (seen : list K) (es : list grec) : list grec :=
  match es with
  | [] => []
  | e :: t => if existsb (keqb (fst e)) seen then gdedupe seen t
              else e :: gdedupe (fst e :: seen) t
  end.

Definition glive (e : grec) : list (K * V) :=
  match snd e with Some v => [(fst e, v)] | None => [] end.

Definition gls (es : list grec) : list (K * V) := flat_map glive (gdedupe [] (rev es)).

Fixpoint first_match (k : K) (es : list grec) : option (option V) :=
  match es with
  | [] => None
  | e :: t => if keqb (fst e) k then Some (snd e) else first_match k t
  end.

Lemma gfind_app_one k es e :
  gfind k (es ++ [e]) = if keqb (fst e) k then snd e else gfind k es.
Proof. unfold gfind. rewrite fold_left_app. reflexivity. Qed.

Lemma gfind_first_match k es :
  gfind k es = match first_match k (rev es) with Some o => o | None => None end.
Proof.
  induction es as [|e es IH] using rev_ind; [reflexivity|].
  rewrite gfind_app_one, rev_app_distr. simpl.
  destruct (keqb (fst e) k); [reflexivity|exact IH].
Qed.

Lemma existsb_keqb k seen : existsb (keqb k) seen = true <-> In k seen.
Proof.
  rewrite existsb_exists. split.
  - intros [x [Hx E]]. destruct (keqb_spec k x); [subst; auto|discriminate].
  - intros H. exists k. split; auto. destruct (keqb_spec k k); congruence.
Qed.

Lemma in_gdedupe seen es k o :
  In (k, o) (gdedupe seen es) <-> (~ In k seen /\ first_match k es = Some o).
Proof.
  revert seen. induction es as [|e t IH]; intros seen; simpl.
  - split; [tauto|intros [_ H]; discriminate].
  - destruct e as [k' o']. simpl.
    destruct (existsb (keqb k') seen) eqn:Ex.
    + apply existsb_keqb in Ex. rewrite IH.
      destruct (keqb_spec k' k); [subst; tauto|tauto].
    + assert (~ In k' seen) as Hn by (intro H; apply existsb_keqb in H; congruence).
      simpl. rewrite IH. simpl.
      destruct (keqb_spec k' k) as [->|Hne].
      * split.
        -- intros [H|[H _]]; [inversion H; subst; auto|tauto].
        -- intros [_ H]. inversion H; subst. auto.
      * split.
        -- intros [H|[H1 H2]]; [inversion H; congruence|]. split; [tauto|auto].
        -- intros [H1 H2]. right. split; [|auto]. intros [E|E]; [congruence|tauto].
Qed.

Theorem gls_iff_gfind es k v : In (k, v) (gls es) <-> gfind k es = Some v.
Proof.
  unfold gls. rewrite in_flat_map, gfind_first_match. split.
  - intros [[k' o] [Hin Hv]]. unfold glive in Hv. simpl in Hv. apply in_gdedupe in Hin as [_ Hf].
    destruct o as [v'|]; [|contradiction]. destruct Hv as [Hv|[]]. inversion Hv; subst.
    rewrite Hf. reflexivity.
  - intros H. destruct (first_match k (rev es)) as [o|] eqn:Hf; [|discriminate]. subst o.
    exists (k, Some v). split; [apply in_gdedupe; split; [tauto|exact Hf]|simpl; auto].
Qed.

(* each key is listed at most once *)
Lemma gdedupe_keys_nodup seen es :
  NoDup (map fst (gdedupe seen es)) /\ (forall k, In k (map fst (gdedupe seen es)) -> ~ In k seen).
Proof.
  revert seen. induction es as [|e t IH]; intros seen; simpl.
  - split; [constructor|intros k []].
  - destruct (existsb (keqb (fst e)) seen) eqn:Ex.
    + apply IH.
    + assert (~ In (fst e) seen) as Hn by (intro H; apply existsb_keqb in H; congruence).
      destruct (IH (fst e :: seen)) as [Hnd Hns]. simpl. split.
      * constructor; [|exact Hnd]. intro Hin. apply Hns in Hin. apply Hin. left. reflexivity.
      * intros k [<-|Hin]; [exact Hn|]. apply Hns in Hin. intro. apply Hin. right. assumption.
Qed.

Lemma map_fst_flat_glive l : incl (map fst (flat_map glive l)) (map fst l).
Proof.
  induction l as [|e t IH]; simpl; [intros x []|].
  unfold glive at 1. destruct (snd e); simpl.
  - intros x [<-|H]; [left; reflexivity|right; apply IH; exact H].
  - intros x H. right. apply IH. exact H.
Qed.

Lemma nodup_flat_glive l : NoDup (map fst l) -> NoDup (map fst (flat_map glive l)).
Proof.
  induction l as [|e t IH]; simpl; intros H; [constructor|].
  inversion H as [|? ? Hn Hnd]; subst. unfold glive at 1. destruct (snd e); simpl.
  - constructor; [|apply IH; exact Hnd]. intro Hin. apply Hn. apply (map_fst_flat_glive t). exact Hin.
  - apply IH. exact Hnd.
Qed.

Theorem gls_nodup es : NoDup (map fst (gls es)).
Proof. unfold gls. apply nodup_flat_glive. apply gdedupe_keys_nodup. Qed.

End Ls.
