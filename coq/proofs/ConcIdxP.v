(* ConcIdxP.v — C07, unbounded: any number of concurrent index writers (inserts and tombstone removals — the index phase
   of every keyed write and removal), any interleaving of their filesystem steps, any tree with a well-shaped index area:
   no step fails, every operation returns Ok, and the final index is exactly the one produced by running the operations
   serially in the order of their append steps.  No write is lost, none is spliced. *)
From CC Require Import Bytes Codec Utf8 Lines Json Sri Record Fs Prog Api Crash Conc
  BytesP CodecP LinesP FsP ProgP SriP RecordP IndexP ReadP WriteP CommitP RemoveP CrashP CrashIdxP FormatP ConcP.
From Coq Require Import Lia Permutation.

Section CI.
Variable hash : algo -> bytes -> bytes.

Definition hop_key (h : hop) : bytes := match h with HIns k _ _ | HDel k _ => k end.
Definition hop_rec (h : hop) : smeta := match h with HIns k o now => smeta_of k o now | HDel k now => smeta_of k wopts0 now end.
Definition hb (h : hop) : path := bucket_path hash (hop_key h).
Definition hop_steps (h : hop) : list sys :=
  [MkdirAll (parent (hb h)); CreateIfMissing (InCache (hb h)); Append (InCache (hb h)) (record_bytes hash (hop_rec h))].
(* the step program of an index insert / removal (result reduced to success or failure) *)
Definition hop_prog (h : hop) : prog (res unit) := seq_prog (hop_steps h) tt.

Lemma insert_is_hop_prog key o now :
  insert hash key o now = seq_prog (hop_steps (HIns key o now)) (match o_sri o with Some i => i | None => deadbeef end).
Proof. reflexivity. Qed.

Definition dflt : hop := HDel [] 0%N.
Definition bshape (b : path) : Prop := exists a c d, b = [index_dir; a; c; d].
Lemma hb_shape h : bshape (hb h).
Proof. unfold hb. destruct (bucket_path_shape hash (hop_key h)) as [a [b [c E]]]. exists a, b, c. exact E. Qed.

(* where a thread stands *)
Inductive stage (h : hop) (f : fs) : prog (res unit) -> bool -> Prop :=
| St0 : stage h f (seq_prog (hop_steps h) tt) false
| St1 : is_dir f (parent (hb h)) = true -> stage h f (seq_prog (tl (hop_steps h)) tt) false
| St2 d : lookup f (InCache (hb h)) = Some (File d) -> stage h f (seq_prog (tl (tl (hop_steps h))) tt) false
| St3 : stage h f (Ret (Ok tt)) true.

(* facts about the tree that no index step ever undoes *)
Definition mono (f g : fs) : Prop :=
  (forall p, is_dir f p = true -> is_dir g p = true) /\
  (forall b, bshape b -> forall d, lookup f (InCache b) = Some (File d) -> exists d', lookup g (InCache b) = Some (File d')).

Lemma stage_mono h f g p fl : mono f g -> stage h f p fl -> stage h g p fl.
Proof.
  intros [Hd Hf] Hs. destruct Hs as [|H|d H|]; [constructor|constructor; apply Hd; exact H| |constructor].
  destruct (Hf (hb h) (hb_shape h) d H) as [d' Hd']. exact (St2 h g d' Hd').
Qed.

Definition member (i : nat) (l : list nat) : bool := existsb (Nat.eqb i) l.

Definition hops_of (hs : list hop) (done : list nat) : list hop := map (fun i => nth i hs dflt) done.

(* the pool invariant *)
Definition PInvD (hs : list hop) (f0 : fs) (done : list nat) (s : pool (res unit) * fs) : Prop :=
  let '(pl, f) := s in
    NoDup done /\ (forall i, In i done -> (i < List.length hs)%nat) /\
    List.length pl = List.length hs /\
    (forall i, (i < List.length hs)%nat -> stage (nth i hs dflt) f (nth i pl (Ret Stuck)) (member i done)) /\
    IndexInv f /\
    (forall b, bshape b -> bucket_at f b = bucket_at f0 b ++ bucket_of hash (hist_records hash (hops_of hs done) b)).
Definition PInv (hs : list hop) (f0 : fs) (s : pool (res unit) * fs) : Prop := exists done, PInvD hs f0 done s.

(* ---------- the three steps ---------- *)
Lemma is_dir_mkdirs_keeps f ps p : is_dir f p = true -> is_dir (snd (mkdirs f ps)) p = true.
Proof.
  unfold is_dir. destruct p as [|x p]; [auto|]. destruct (lookup f (InCache (x :: p))) as [[d| |t]|] eqn:E; try discriminate.
  intros _. rewrite (mkdirs_keeps f ps _ _ E). reflexivity.
Qed.

Lemma step_mkdir f b :
  IndexInv f -> bshape b ->
  let f' := snd (exec (MkdirAll (parent b)) f) in
  is_err (fst (exec (MkdirAll (parent b)) f)) = false /\ IndexInv f' /\ is_dir f' (parent b) = true /\
  (forall b', bshape b' -> bucket_at f' b' = bucket_at f b') /\ mono f f'.
Proof.
  intros Hinv [a [c [d ->]]] f'. subst f'. rewrite exec_mkdirall.
  destruct (mkdirs_ok f (prefixes (parent [index_dir; a; c; d]))) as [f1 [Hmk [Hdirs [Hother Hany]]]].
  { rewrite prefixes_parent_bucket. intros p Hp. unfold dir_or_absent.
    destruct (lookup f (InCache p)) as [n|] eqn:El; [|left; reflexivity]. right. f_equal.
    destruct Hp as [<-|[<-|[<-|[]]]].
    - apply (Hinv [] n El). simpl. lia.
    - apply (Hinv [a] n El). simpl. lia.
    - apply (Hinv [a; c] n El). simpl. lia. }
  rewrite Hmk. cbn [fst snd is_err]. split; [reflexivity|].
  assert (forall p, In p (prefixes (parent [index_dir; a; c; d])) -> exists q, p = index_dir :: q /\ (List.length q <= 2)%nat) as Hps.
  { rewrite prefixes_parent_bucket. intros p [<-|[<-|[<-|[]]]]; eexists; (split; [reflexivity|cbn; lia]). }
  destruct (mkdirs_index_frame f _ Hps) as [Hfr _]. rewrite Hmk in Hfr. cbn [snd] in Hfr.
  destruct (SameIdx_dirs hash f f1 Hinv Hfr) as [Hi1 _]. split; [exact Hi1|]. split.
  - unfold is_dir. cbn [parent removelast]. rewrite (Hdirs [index_dir; a; c]); [reflexivity|]. rewrite prefixes_parent_bucket. right. right. left. reflexivity.
  - split.
    + intros b' [a' [c' [d' ->]]]. unfold bucket_at. destruct (Hfr (InCache [index_dir; a'; c'; d'])) as [E|[_ [_ [q [Eq Hlen]]]]]; [rewrite E; reflexivity|].
      inversion Eq; subst q. cbn in Hlen. lia.
    + split.
      * intros p Hp. pose proof (is_dir_mkdirs_keeps f (prefixes (parent [index_dir; a; c; d])) p Hp) as H. rewrite Hmk in H. exact H.
      * intros b' _ d0 Hd0. exists d0. pose proof (mkdirs_keeps f (prefixes (parent [index_dir; a; c; d])) _ _ Hd0) as H. rewrite Hmk in H. exact H.
Qed.

Lemma step_create f b :
  IndexInv f -> bshape b -> is_dir f (parent b) = true ->
  let f' := snd (exec (CreateIfMissing (InCache b)) f) in
  is_err (fst (exec (CreateIfMissing (InCache b)) f)) = false /\ IndexInv f' /\
  (exists d, lookup f' (InCache b) = Some (File d)) /\
  (forall b', bshape b' -> bucket_at f' b' = bucket_at f b') /\ mono f f'.
Proof.
  intros Hinv [a [c [d ->]]] Hpar f'. subst f'. unfold exec.
  destruct (lookup f (InCache [index_dir; a; c; d])) as [n|] eqn:El.
  - destruct (Hinv [a; c; d] n El) as [_ H]. destruct (H eq_refl) as [d0 [-> Hcr]]. cbn [fst snd is_err].
    split; [reflexivity|]. split; [exact Hinv|]. split; [exists d0; exact El|]. split; [reflexivity|].
    split; [auto|intros b' _ d1 H1; exists d1; exact H1].
  - unfold parent_ok. rewrite Hpar. cbn [fst snd is_err]. split; [reflexivity|].
    set (bl := InCache [index_dir; a; c; d]).
    split; [|split; [exists []; apply lookup_update_eq|split]].
    + intros p n Hn. rewrite lookup_update in Hn. destruct (loc_eqb bl (InCache (index_dir :: p))) eqn:E.
      * apply loc_eqb_eq in E. inversion E; subst p. inversion Hn; subst n. split; [cbn; lia|]. intros _. exists []. split; [reflexivity|apply no_pending_cr_nil].
      * apply (Hinv p n Hn).
    + intros b' Hb'. unfold bucket_at. rewrite lookup_update. destruct (loc_eqb bl (InCache b')) eqn:E; [|reflexivity].
      apply loc_eqb_eq in E. rewrite <- E. fold bl in El. rewrite El. reflexivity.
    + split.
      * intros p Hp. unfold is_dir in *. destruct p as [|x p]; [reflexivity|]. rewrite lookup_update.
        destruct (loc_eqb bl (InCache (x :: p))) eqn:E; [|exact Hp]. apply loc_eqb_eq in E. rewrite <- E in Hp. fold bl in El. rewrite El in Hp. discriminate.
      * intros b' _ d1 H1. rewrite lookup_update. destruct (loc_eqb bl (InCache b')) eqn:E; [eexists; reflexivity|exists d1; exact H1].
Qed.

Lemma step_append f h d :
  IndexInv f -> wf_rec hash (hop_rec h) -> lookup f (InCache (hb h)) = Some (File d) ->
  let f' := snd (exec (Append (InCache (hb h)) (record_bytes hash (hop_rec h))) f) in
  is_err (fst (exec (Append (InCache (hb h)) (record_bytes hash (hop_rec h))) f)) = false /\ IndexInv f' /\
  (forall b', bshape b' -> bucket_at f' b' = bucket_at f b' ++ bucket_of hash (hist_records hash [h] b')) /\ mono f f'.
Proof.
  intros Hinv Hwf Hl f'. subst f'. unfold exec. rewrite Hl. cbn [fst snd is_err]. split; [reflexivity|].
  destruct (hb_shape h) as [a [c [e Eb]]].
  assert (no_pending_cr d) as Hd.
  { pose proof Hl as Hl'. rewrite Eb in Hl'. destruct (Hinv [a; c; e] _ Hl') as [_ H]. destruct (H eq_refl) as [d' [E' Hd']]. inversion E'; subst. exact Hd'. }
  set (bl := InCache (hb h)) in *.
  split; [|split].
  - intros p n Hn. rewrite lookup_update in Hn. destruct (loc_eqb bl (InCache (index_dir :: p))) eqn:E.
    + apply loc_eqb_eq in E. unfold bl in E. rewrite Eb in E. inversion E; subst p. inversion Hn; subst n. split; [cbn; lia|]. intros _.
      eexists. split; [reflexivity|]. exact (proj2 (entries_app_record hash d (hop_rec h) Hd Hwf)).
    + apply (Hinv p n Hn).
  - intros b' Hb'. unfold bucket_at. rewrite lookup_update.
    assert (hist_records hash [h] b' = if path_eqb (hb h) b' then [hop_rec h] else []) as ->.
    { destruct h; cbn [hist_records hb hop_key hop_rec]; destruct (path_eqb _ b'); reflexivity. }
    destruct (loc_eqb bl (InCache b')) eqn:E.
    + apply loc_eqb_eq in E. inversion E as [E']. rewrite E', (proj2 (path_eqb_eq b' b') eq_refl). rewrite <- E'. fold bl. rewrite Hl.
      unfold bucket_of. cbn [map List.concat]. rewrite app_nil_r. reflexivity.
    + assert (path_eqb (hb h) b' = false) as ->.
      { destruct (path_eqb (hb h) b') eqn:E2; [|reflexivity]. apply path_eqb_eq in E2. unfold bl in E. rewrite E2, loc_eqb_refl in E. discriminate. }
      unfold bucket_of. cbn [map List.concat]. rewrite app_nil_r. reflexivity.
  - split.
    + intros p Hp. unfold is_dir in *. destruct p as [|x p]; [reflexivity|]. rewrite lookup_update.
      destruct (loc_eqb bl (InCache (x :: p))) eqn:E; [|exact Hp]. apply loc_eqb_eq in E. rewrite <- E in Hp. fold bl in Hl. rewrite Hl in Hp. discriminate.
    + intros b' _ d1 H1. rewrite lookup_update. destruct (loc_eqb bl (InCache b')); [eexists; reflexivity|exists d1; exact H1].
Qed.

(* ---------- list plumbing ---------- *)
Lemma nth_mid {A} (pre post : list A) x d : nth (List.length pre) (pre ++ x :: post) d = x.
Proof. rewrite app_nth2 by lia. rewrite Nat.sub_diag. reflexivity. Qed.
Lemma nth_other {A} (pre post : list A) x y d i : i <> List.length pre -> nth i (pre ++ x :: post) d = nth i (pre ++ y :: post) d.
Proof.
  intros Hne. destruct (Nat.lt_ge_cases i (List.length pre)) as [Hlt|Hge].
  - rewrite !app_nth1 by exact Hlt. reflexivity.
  - rewrite !app_nth2 by exact Hge. destruct (i - List.length pre)%nat as [|m] eqn:E; [lia|reflexivity].
Qed.
Lemma map_nth_seq {A} (l : list A) d : map (fun i => nth i l d) (seq 0 (List.length l)) = l.
Proof.
  induction l as [|x l IH]; [reflexivity|]. cbn [List.length seq map nth]. f_equal.
  rewrite <- seq_shift, map_map. exact IH.
Qed.
Lemma member_spec i l : member i l = true <-> In i l.
Proof.
  unfold member. rewrite existsb_exists. split; [intros [x [Hx E]]; apply Nat.eqb_eq in E; subst; exact Hx|intros H; exists i; split; [exact H|apply Nat.eqb_refl]].
Qed.
Lemma member_snoc_other i j l : i <> j -> member i (l ++ [j]) = member i l.
Proof. intros Hne. unfold member. rewrite existsb_app. cbn [existsb]. apply Nat.eqb_neq in Hne. rewrite Hne. rewrite !orb_false_r. reflexivity. Qed.

Lemma NoDup_snoc {A} (l : list A) x : NoDup l -> ~ In x l -> NoDup (l ++ [x]).
Proof.
  induction l as [|y l IH]; intros Hnd Hn; cbn [app]; [constructor; [intros []|constructor]|].
  inversion Hnd as [|? ? Hy Hl]; subst. constructor.
  - intros Hin. apply in_app_or in Hin as [Hin|[<-|[]]]; [exact (Hy Hin)|apply Hn; left; reflexivity].
  - apply IH; [exact Hl|intros Hin; apply Hn; right; exact Hin].
Qed.

Lemma seq_prog_unfold {V} c cs (v : V) :
  exists k, seq_prog (c :: cs) v = Do c k /\ forall r, is_err r = false -> k r = seq_prog cs v.
Proof. eexists. split; [reflexivity|]. intros r Hr. destruct r; try reflexivity. discriminate. Qed.

Lemma seq_prog_not_ret {V} c cs (v : V) (r : res V) : seq_prog (c :: cs) v <> Ret r.
Proof. destruct (seq_prog_unfold c cs v) as [k [E _]]. rewrite E. discriminate. Qed.

Lemma hist_records_snoc h x b : hist_records hash (h ++ [x]) b = hist_records hash h b ++ hist_records hash [x] b.
Proof. apply hist_records_app. Qed.

(* ---------- the invariant is kept by every step of every thread ---------- *)
Lemma PInv_init hs f0 : IndexInv f0 -> PInv hs f0 (map hop_prog hs, f0).
Proof.
  intros Hi. exists []. unfold PInvD. split; [constructor|]. split; [intros i []|]. split; [apply map_length|]. split; [|split; [exact Hi|]].
  - intros i Hi'. cbn [member existsb]. rewrite (nth_indep _ (Ret Stuck) (hop_prog dflt)) by (rewrite map_length; exact Hi').
    rewrite (map_nth hop_prog hs dflt i). constructor.
  - intros b _. cbn [hops_of map hist_records]. unfold bucket_of. cbn. rewrite app_nil_r. reflexivity.
Qed.

(* the ghost order only ever grows at its end *)
Lemma PInvD_step hs f0 done s s' :
  Forall (wf_hop hash) hs -> PInvD hs f0 done s -> pstep s s' -> exists ext, PInvD hs f0 (done ++ ext) s'.
Proof.
  intros Hwf Hinv Hstep. inversion Hstep as [pre c k post f E1 E2]. subst s s'. clear Hstep.
  destruct Hinv as [Hnd [Hlt [Hlen [Hst [Hi Hb]]]]].
  set (i0 := List.length pre).
  assert (i0 < List.length hs)%nat as Hi0 by (rewrite <- Hlen, app_length; cbn [List.length]; lia).
  set (h := nth i0 hs dflt).
  assert (wf_rec hash (hop_rec h)) as Hwfh.
  { rewrite Forall_forall in Hwf. pose proof (Hwf h (nth_In hs dflt Hi0)) as H. destruct h; cbn [wf_hop hop_rec] in *; [exact (proj1 H)|exact H]. }
  pose proof (Hst i0 Hi0) as Hs0. fold h in Hs0. unfold i0 in Hs0 at 1. rewrite nth_mid in Hs0.
  (* every other thread keeps its stage under a monotone change of the tree *)
  assert (forall f' done' p', mono f f' -> (forall i, i <> i0 -> member i done' = member i done) ->
            stage h f' p' (member i0 done') ->
            forall i, (i < List.length hs)%nat -> stage (nth i hs dflt) f' (nth i (pre ++ p' :: post) (Ret Stuck)) (member i done')) as Hothers.
  { intros f' done' p' Hm Hmem Hnew i Hi'. destruct (Nat.eq_dec i i0) as [->|Hne].
    - unfold i0 at 2. rewrite nth_mid. exact Hnew.
    - rewrite (nth_other pre post p' (Do c k)) by exact Hne. rewrite (Hmem i Hne). apply (stage_mono _ f); [exact Hm|apply Hst; exact Hi']. }
  assert (List.length (pre ++ k (fst (exec c f)) :: post) = List.length hs) as Hlen'.
  { rewrite <- Hlen, !app_length. reflexivity. }
  (* which stage was the stepping thread in? *)
  remember (Do c k) as p0 eqn:Ep0. remember (member i0 done) as fl eqn:Efl.
  destruct Hs0 as [|Hdir|d Hd|].
  - (* MkdirAll *)
    remember (MkdirAll (parent (hb h))) as c1 eqn:Ec1.
    destruct (seq_prog_unfold c1 (tl (hop_steps h)) tt) as [k1 [E Hk1]].
    change (seq_prog (hop_steps h) tt) with (seq_prog (MkdirAll (parent (hb h)) :: tl (hop_steps h)) tt) in Ep0. rewrite <- Ec1, E in Ep0.
    injection Ep0 as <- <-. subst c1.
    destruct (step_mkdir f (hb h) Hi (hb_shape h)) as [Herr [Hi' [Hdir' [Hbk Hm]]]].
    exists []. rewrite app_nil_r. split; [exact Hnd|]. split; [exact Hlt|]. split; [exact Hlen'|]. split; [|split; [exact Hi'|]].
    + apply Hothers; [exact Hm|reflexivity|]. rewrite (Hk1 _ Herr), <- Efl. apply St1. exact Hdir'.
    + intros b Hbs. rewrite (Hbk b Hbs). apply Hb. exact Hbs.
  - (* CreateIfMissing *)
    remember (CreateIfMissing (InCache (hb h))) as c1 eqn:Ec1.
    destruct (seq_prog_unfold c1 (tl (tl (hop_steps h))) tt) as [k1 [E Hk1]].
    change (seq_prog (tl (hop_steps h)) tt) with (seq_prog (CreateIfMissing (InCache (hb h)) :: tl (tl (hop_steps h))) tt) in Ep0. rewrite <- Ec1, E in Ep0.
    injection Ep0 as <- <-. subst c1.
    destruct (step_create f (hb h) Hi (hb_shape h) Hdir) as [Herr [Hi' [[d Hd] [Hbk Hm]]]].
    exists []. rewrite app_nil_r. split; [exact Hnd|]. split; [exact Hlt|]. split; [exact Hlen'|]. split; [|split; [exact Hi'|]].
    + apply Hothers; [exact Hm|reflexivity|]. rewrite (Hk1 _ Herr), <- Efl. exact (St2 h _ d Hd).
    + intros b Hbs. rewrite (Hbk b Hbs). apply Hb. exact Hbs.
  - (* Append: the thread takes its place in the serial order *)
    remember (Append (InCache (hb h)) (record_bytes hash (hop_rec h))) as c1 eqn:Ec1.
    destruct (seq_prog_unfold c1 [] tt) as [k1 [E Hk1]].
    change (seq_prog (tl (tl (hop_steps h))) tt) with (seq_prog [Append (InCache (hb h)) (record_bytes hash (hop_rec h))] tt) in Ep0. rewrite <- Ec1, E in Ep0.
    injection Ep0 as <- <-. subst c1.
    destruct (step_append f h d Hi Hwfh Hd) as [Herr [Hi' [Hbk Hm]]].
    assert (~ In i0 done) as Hnotin by (intro Hin; apply member_spec in Hin; congruence).
    exists [i0]. split; [|split; [|split; [exact Hlen'|split; [|split; [exact Hi'|]]]]].
    + apply NoDup_snoc; assumption.
    + intros i Hin. apply in_app_or in Hin as [Hin|[<-|[]]]; [apply Hlt; exact Hin|exact Hi0].
    + apply Hothers; [exact Hm|intros i Hne; apply member_snoc_other; exact Hne|].
      rewrite (Hk1 _ Herr). assert (member i0 (done ++ [i0]) = true) as -> by (apply member_spec; apply in_or_app; right; left; reflexivity).
      cbn [seq_prog fold_right]. apply St3.
    + intros b Hbs. rewrite (Hbk b Hbs), (Hb b Hbs). unfold hops_of. rewrite map_app. cbn [map]. fold h.
      rewrite hist_records_snoc. unfold bucket_of. rewrite map_app, concat_app, app_assoc. reflexivity.
  - discriminate.
Qed.

Lemma PInvD_reach hs f0 done s s' :
  Forall (wf_hop hash) hs -> PInvD hs f0 done s -> preach s s' -> exists ext, PInvD hs f0 (done ++ ext) s'.
Proof.
  intros Hwf Hi Hr. revert done Hi. induction Hr as [s|s1 s2 s3 Hs _ IH]; intros done Hi; [exists []; rewrite app_nil_r; exact Hi|].
  destruct (PInvD_step hs f0 done s1 s2 Hwf Hi Hs) as [e1 H1]. destruct (IH _ H1) as [e2 H2]. exists (e1 ++ e2). rewrite app_assoc. exact H2.
Qed.

Lemma PInv_reach hs f0 s s' : Forall (wf_hop hash) hs -> PInv hs f0 s -> preach s s' -> PInv hs f0 s'.
Proof. intros Hwf [done Hi] Hr. destruct (PInvD_reach hs f0 done s s' Hwf Hi Hr) as [ext H]. exists (done ++ ext). exact H. Qed.

(* ---------- what a reader can observe: the serial state of the appends so far ---------- *)
(* a lookup is one step (the read of the bucket file); executed in ANY reachable state of the pool it answers what the
   serial run of the operations appended so far answers — never a partial record, never a lost write *)
Lemma perm_wf hs done : Forall (wf_hop hash) hs -> (forall i, In i done -> (i < List.length hs)%nat) -> Forall (wf_hop hash) (hops_of hs done).
Proof.
  intros Hwf Hlt. apply Forall_forall. intros h Hh. unfold hops_of in Hh. apply in_map_iff in Hh as [i [<- Hi]].
  rewrite Forall_forall in Hwf. apply Hwf. apply nth_In. apply Hlt. exact Hi.
Qed.

Theorem observe_serial_prefix hs f0 done pl f k :
  IndexInv f0 -> Forall (wf_hop hash) hs -> PInvD hs f0 done (pl, f) ->
  run (find hash k) f = (Ok (fold_left spec_step (hops_of hs done) (abs_idx hash f0) k), f).
Proof.
  intros Hi0 Hwf [Hnd [Hlt [Hlen [Hst [Hi Hb]]]]].
  pose proof (perm_wf hs done Hwf Hlt) as Hwf'.
  rewrite (find_run hash f k Hi). f_equal. f_equal.
  destruct (find_refines_map hash (hops_of hs done) f0 Hi0 Hwf') as [Hi' Hfind].
  pose proof (Hfind k) as Hf. rewrite (find_run hash _ k Hi') in Hf.
  assert (abs_idx hash (fold_left (exec_hop hash) (hops_of hs done) f0) k = fold_left spec_step (hops_of hs done) (abs_idx hash f0) k) as Hf' by congruence.
  rewrite <- Hf'. unfold abs_idx, bucket_bytes.
  assert (bshape (bucket_path hash k)) as Hbs by (destruct (bucket_path_shape hash k) as [a [b [c E]]]; exists a, b, c; exact E).
  pose proof (Hb _ Hbs) as Hk. rewrite <- (bucket_language hash (hops_of hs done) f0 _ Hi0 Hwf' Hbs) in Hk. unfold bucket_at in Hk. rewrite Hk. reflexivity.
Qed.

(* linearisability of lookups: two observations one after the other see serial states of growing prefixes of one order *)
Theorem observations_monotone hs f0 s1 s2 :
  IndexInv f0 -> Forall (wf_hop hash) hs ->
  preach (map hop_prog hs, f0) s1 -> preach s1 s2 ->
  exists done ext,
    (forall k, run (find hash k) (snd s1) = (Ok (fold_left spec_step (hops_of hs done) (abs_idx hash f0) k), snd s1)) /\
    (forall k, run (find hash k) (snd s2) = (Ok (fold_left spec_step (hops_of hs (done ++ ext)) (abs_idx hash f0) k), snd s2)).
Proof.
  intros Hi0 Hwf H1 H2. destruct (PInv_init hs f0 Hi0) as [d0 Hd0].
  destruct (PInvD_reach hs f0 d0 _ s1 Hwf Hd0 H1) as [e1 He1]. destruct (PInvD_reach hs f0 _ s1 s2 Hwf He1 H2) as [e2 He2].
  exists (d0 ++ e1), e2. destruct s1 as [pl1 f1], s2 as [pl2 f2]. cbn [snd]. split; intros k.
  - exact (observe_serial_prefix hs f0 _ pl1 f1 k Hi0 Hwf He1).
  - exact (observe_serial_prefix hs f0 _ pl2 f2 k Hi0 Hwf He2).
Qed.

(* ---------- the theorem ---------- *)
Theorem conc_index_serializable hs f0 pl' f' rs :
  IndexInv f0 -> Forall (wf_hop hash) hs ->
  preach (map hop_prog hs, f0) (pl', f') -> results pl' = Some rs ->
  exists perm,
    Permutation perm hs /\
    rs = repeat (Ok tt) (List.length hs) /\
    IndexInv f' /\
    (forall b, bshape b -> bucket_at f' b = bucket_at (fold_left (exec_hop hash) perm f0) b) /\
    (forall k, abs_idx hash f' k = fold_left spec_step perm (abs_idx hash f0) k).
Proof.
  intros Hi0 Hwf Hr Hres.
  destruct (PInv_reach hs f0 _ _ Hwf (PInv_init hs f0 Hi0) Hr) as [done [Hnd [Hlt [Hlen [Hst [Hi Hb]]]]]].
  pose proof (results_some_ret pl' rs Hres) as Epl.
  (* every thread has finished: it has appended, and returned Ok *)
  assert (forall i, (i < List.length hs)%nat -> In i done /\ nth i pl' (Ret Stuck) = Ret (Ok tt)) as Hall.
  { intros i Hi'. pose proof (Hst i Hi') as Hs.
    assert (exists r, nth i pl' (Ret Stuck) = Ret r) as [r Er].
    { rewrite Epl. rewrite (map_nth (@Ret (res unit)) rs Stuck i). eauto. }
    rewrite Er in Hs. inversion Hs; subst.
    split; [apply member_spec; symmetry; assumption|exact Er]. }
  assert (Permutation done (seq 0 (List.length hs))) as Hperm.
  { apply NoDup_Permutation; [exact Hnd|apply seq_NoDup|]. intros x. rewrite in_seq. split; [intros H; split; [lia|apply Hlt; exact H]|intros [_ H]; apply (Hall x H)]. }
  exists (hops_of hs done).
  assert (Permutation (hops_of hs done) hs) as Hp.
  { unfold hops_of. pose proof (Permutation_map (fun i => nth i hs dflt) Hperm) as H. rewrite (map_nth_seq hs dflt) in H. exact H. }
  assert (Forall (wf_hop hash) (hops_of hs done)) as Hwf'.
  { apply (Permutation_Forall (Permutation_sym Hp)). exact Hwf. }
  split; [exact Hp|]. split; [|split; [exact Hi|]].
  - apply (nth_ext _ _ Stuck (Ok tt)).
    + rewrite repeat_length. rewrite <- Hlen, Epl, map_length. reflexivity.
    + intros n Hn. assert (n < List.length hs)%nat as Hn' by (rewrite <- Hlen, Epl, map_length; exact Hn).
      destruct (Hall n Hn') as [_ E]. rewrite Epl in E.
      rewrite (map_nth (@Ret (res unit)) rs Stuck n) in E.
      inversion E as [E']. rewrite E'. symmetry. apply nth_repeat.
  - assert (forall b, bshape b -> bucket_at f' b = bucket_at (fold_left (exec_hop hash) (hops_of hs done) f0) b) as Hbk.
    { intros b Hbs. rewrite (Hb b Hbs). symmetry. apply bucket_language; assumption. }
    split; [exact Hbk|]. intros k.
    destruct (find_refines_map hash (hops_of hs done) f0 Hi0 Hwf') as [Hi' Hfind].
    pose proof (Hfind k) as Hf. rewrite (find_run hash _ k Hi') in Hf.
    assert (abs_idx hash (fold_left (exec_hop hash) (hops_of hs done) f0) k = fold_left spec_step (hops_of hs done) (abs_idx hash f0) k) as Hf' by congruence.
    rewrite <- Hf'. unfold abs_idx, bucket_bytes.
    pose proof (Hbk (bucket_path hash k)) as Hk. unfold bucket_at in Hk. rewrite Hk; [reflexivity|].
    destruct (bucket_path_shape hash k) as [a [b [c E]]]. exists a, b, c. exact E.
Qed.

End CI.
