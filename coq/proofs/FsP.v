(* FsP.v — finite-map facts about the abstract filesystem and [mkdirs]. *)
From CC Require Import Bytes Fs BytesP.
From Coq Require Import Lia.

Lemma path_eqb_eq a b : path_eqb a b = true <-> a = b.
Proof. apply list_eqb_eq. apply bytes_eqb_eq. Qed.

Lemma loc_eqb_eq a b : loc_eqb a b = true <-> a = b.
Proof.
  destruct a as [p|n], b as [q|m]; simpl; split; intros H; try discriminate.
  - apply path_eqb_eq in H. congruence.
  - inversion H; subst. apply path_eqb_eq. reflexivity.
  - apply bytes_eqb_eq in H. congruence.
  - inversion H; subst. apply bytes_eqb_refl.
Qed.

Lemma loc_eqb_refl a : loc_eqb a a = true.
Proof. apply loc_eqb_eq. reflexivity. Qed.

Lemma loc_eqb_neq a b : loc_eqb a b = false <-> a <> b.
Proof.
  split.
  - intros H E. subst. rewrite loc_eqb_refl in H. discriminate.
  - intros H. destruct (loc_eqb a b) eqn:E; [|reflexivity]. apply loc_eqb_eq in E. contradiction.
Qed.

Lemma loc_eq_dec (a b : loc) : {a = b} + {a <> b}.
Proof. destruct (loc_eqb a b) eqn:E; [left; apply loc_eqb_eq; exact E|right; apply loc_eqb_neq; exact E]. Qed.

Lemma lookup_remove_eq f l : lookup (remove f l) l = None.
Proof.
  induction f as [|[l' n] f IH]; simpl; [reflexivity|].
  destruct (loc_eqb l' l) eqn:E; [exact IH|]. simpl. rewrite E. exact IH.
Qed.

Lemma lookup_remove_neq f l l' : l <> l' -> lookup (remove f l) l' = lookup f l'.
Proof.
  intros Hne. induction f as [|[l0 n] f IH]; simpl; [reflexivity|].
  destruct (loc_eqb l0 l) eqn:E.
  - apply loc_eqb_eq in E. subst l0.
    destruct (loc_eqb l l') eqn:E2; [apply loc_eqb_eq in E2; contradiction|exact IH].
  - simpl. destruct (loc_eqb l0 l'); [reflexivity|exact IH].
Qed.

Lemma lookup_update_eq f l n : lookup (update f l n) l = Some n.
Proof. unfold update. simpl. rewrite loc_eqb_refl. reflexivity. Qed.

Lemma lookup_update_neq f l n l' : l <> l' -> lookup (update f l n) l' = lookup f l'.
Proof.
  intros Hne. unfold update. simpl.
  destruct (loc_eqb l l') eqn:E; [apply loc_eqb_eq in E; contradiction|].
  apply lookup_remove_neq. exact Hne.
Qed.

Lemma lookup_update f l n l' :
  lookup (update f l n) l' = if loc_eqb l l' then Some n else lookup f l'.
Proof.
  destruct (loc_eqb l l') eqn:E.
  - apply loc_eqb_eq in E. subst. apply lookup_update_eq.
  - apply lookup_update_neq. apply loc_eqb_neq. exact E.
Qed.

(* ---- mkdirs ---- *)
Definition dir_or_absent (f : fs) (p : path) : Prop :=
  lookup f (InCache p) = None \/ lookup f (InCache p) = Some Dir.

Lemma mkdirs_ok f ps :
  (forall p, In p ps -> dir_or_absent f p) ->
  exists f', mkdirs f ps = (ROk, f') /\
    (forall p, In p ps -> lookup f' (InCache p) = Some Dir) /\
    (forall l, (forall p, In p ps -> l <> InCache p) -> lookup f' l = lookup f l) /\
    (forall l, lookup f' l = lookup f l \/ lookup f' l = Some Dir).
Proof.
  revert f. induction ps as [|p ps IH]; intros f Hall.
  - exists f. simpl. repeat split; auto; intros ? [].
  - simpl. destruct (Hall p (or_introl eq_refl)) as [Hn|Hd].
    + rewrite Hn.
      destruct (IH (update f (InCache p) Dir)) as [f' [Hrun [Hdirs [Hother Hany]]]].
      { intros q Hq. unfold dir_or_absent. rewrite lookup_update.
        destruct (loc_eqb (InCache p) (InCache q)); [right; reflexivity|apply Hall; right; exact Hq]. }
      exists f'. split; [exact Hrun|]. split; [|split].
      * intros q [<-|Hq]; [|apply Hdirs; exact Hq].
        destruct (in_dec (list_eq_dec (list_eq_dec Byte.byte_eq_dec)) p ps) as [Hin|Hnin].
        -- apply Hdirs. exact Hin.
        -- rewrite Hother; [apply lookup_update_eq|]. intros q Hq E. inversion E; subst. contradiction.
      * intros l Hl. rewrite Hother; [|intros q Hq; apply Hl; right; exact Hq].
        apply lookup_update_neq. intro E. apply (Hl p (or_introl eq_refl)). symmetry. exact E.
      * intros l. destruct (Hany l) as [H|H]; [|right; exact H].
        rewrite H, lookup_update. destruct (loc_eqb (InCache p) l); [right|left]; reflexivity.
    + rewrite Hd.
      destruct (IH f) as [f' [Hrun [Hdirs [Hother Hany]]]].
      { intros q Hq. apply Hall. right. exact Hq. }
      exists f'. split; [exact Hrun|]. split; [|split].
      * intros q [<-|Hq]; [|apply Hdirs; exact Hq].
        destruct (Hany (InCache p)) as [H|H]; [rewrite H; exact Hd|exact H].
      * intros l Hl. apply Hother. intros q Hq. apply Hl. right. exact Hq.
      * exact Hany.
Qed.

Lemma prefixes_from_length pre p q : In q (prefixes_from pre p) ->
  (List.length pre < List.length q <= List.length pre + List.length p)%nat /\ exists r, q = pre ++ r /\ r <> [].
Proof.
  revert pre. induction p as [|x p IH]; intros pre H; simpl in H; [destruct H|].
  destruct H as [<-|H].
  - rewrite app_length. simpl. split; [lia|]. exists [x]. split; [reflexivity|discriminate].
  - apply IH in H as [Hl [r [-> Hr]]]. rewrite app_length in Hl. simpl in Hl.
    split; [simpl; lia|]. exists (x :: r). rewrite <- app_assoc. split; [reflexivity|discriminate].
Qed.

Lemma prefixes_length p q : In q (prefixes p) -> (0 < List.length q <= List.length p)%nat.
Proof. intros H. apply prefixes_from_length in H as [H _]. simpl in H. exact H. Qed.

Lemma prefixes_from_last pre p : p <> [] -> In (pre ++ p) (prefixes_from pre p).
Proof.
  revert pre. induction p as [|x p IH]; intros pre Hne; [congruence|].
  simpl. destruct p as [|y p].
  - left. reflexivity.
  - right. specialize (IH (pre ++ [x]) ltac:(discriminate)). rewrite <- app_assoc in IH. exact IH.
Qed.

Lemma prefixes_last p : p <> [] -> In p (prefixes p).
Proof. intros H. apply (prefixes_from_last [] p H). Qed.

Lemma prefixes_from_head pre p q : In q (prefixes_from pre p) -> exists r, q = pre ++ r /\ is_prefix r p = true /\ r <> [].
Proof.
  revert pre. induction p as [|x p IH]; intros pre H; simpl in H; [destruct H|].
  destruct H as [<-|H].
  - exists [x]. simpl. rewrite bytes_eqb_refl. split; [reflexivity|]. split; [reflexivity|discriminate].
  - apply IH in H as [r [-> [Hp Hr]]]. exists (x :: r). rewrite <- app_assoc. simpl.
    rewrite bytes_eqb_refl. split; [reflexivity|]. split; [exact Hp|discriminate].
Qed.

(* ---- single steps ---- *)
Lemma exec_create_absent f l :
  lookup f l = None -> parent_ok f l = true -> exec (CreateIfMissing l) f = (ROk, update f l (File [])).
Proof. intros H1 H2. cbn [exec]. rewrite H1, H2. reflexivity. Qed.

Lemma exec_create_file f l d :
  lookup f l = Some (File d) -> exec (CreateIfMissing l) f = (ROk, f).
Proof. intros H1. cbn [exec]. rewrite H1. reflexivity. Qed.

Lemma exec_append f l d s :
  lookup f l = Some (File d) -> exec (Append l s) f = (ROk, update f l (File (d ++ s))).
Proof. intros H1. cbn [exec]. rewrite H1. reflexivity. Qed.

Lemma exec_mkdirall f p : exec (MkdirAll p) f = mkdirs f (prefixes p).
Proof. reflexivity. Qed.

Lemma exec_readfile_file f l d : lookup f l = Some (File d) -> exec (ReadFile l) f = (RBytes d, f).
Proof. intros H. cbn [exec]. unfold resolve. rewrite H. reflexivity. Qed.

Lemma exec_readfile_absent f l : lookup f l = None -> exec (ReadFile l) f = (RErr ENOENT, f).
Proof. intros H. cbn [exec]. unfold resolve. rewrite H. reflexivity. Qed.

Global Arguments lookup : simpl never.
Global Arguments update : simpl never.
Global Arguments remove : simpl never.
Global Arguments exec : simpl never.
