(* ProgP.v — equations for the sequential interpreter. *)
From CC Require Import Bytes Fs Prog.

Lemma run_bind {A B} (p : prog A) (g : A -> prog B) f :
  run (bind p g) f = let '(a, f1) := run p f in run (g a) f1.
Proof.
  revert f. induction p as [a|c k IH]; intros f; simpl; [reflexivity|].
  destruct (exec c f) as [r f1]. apply IH.
Qed.

Lemma run_rbind_ok {A B} (p : prog (res A)) (g : A -> prog (res B)) f a f1 :
  run p f = (Ok a, f1) -> run (rbind p g) f = run (g a) f1.
Proof. intros H. unfold rbind. rewrite run_bind, H. reflexivity. Qed.

Lemma run_rbind_err {A B} (p : prog (res A)) (g : A -> prog (res B)) f e f1 :
  run p f = (Err e, f1) -> run (rbind p g) f = (Err e, f1).
Proof. intros H. unfold rbind. rewrite run_bind, H. reflexivity. Qed.

Definition not_err (r : ret) : Prop := match r with RErr _ => False | _ => True end.

Lemma run_step_ok c f r f1 : exec c f = (r, f1) -> not_err r -> run (step_ok c) f = (Ok tt, f1).
Proof. intros H Hr. unfold step_ok. simpl. rewrite H. destruct r; simpl in *; try reflexivity. contradiction. Qed.

Lemma run_step_err c f e f1 : exec c f = (RErr e, f1) -> run (step_ok c) f = (Err EIoErr, f1).
Proof. intros H. unfold step_ok. simpl. rewrite H. reflexivity. Qed.
