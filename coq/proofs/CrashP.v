(* CrashP.v — invariants at every crash state (C03): whatever the kill point and the torn length of the write in
   flight, every file under content-v2 carries the digest of its address. *)
From CC Require Import Bytes Codec Utf8 Lines Json Sri Record Fs Prog Api Crash
  BytesP CodecP FsP ProgP SriP RecordP IndexP ReadP WriteP CommitP RemoveP.
From Coq Require Import Lia.
Local Open Scope N_scope.

(* ---------- generic facts about crash_states / steps_ok ---------- *)
Lemma crash_states_bind {A B} (P : fs -> Prop) (p : prog A) (g : A -> prog B) f :
  Forall P (crash_states (bind p g) f) <->
  Forall P (crash_states p f) /\ Forall P (crash_states (g (fst (run p f))) (snd (run p f))).
Proof.
  revert f. induction p as [a|c k IH]; intros f; cbn [bind crash_states run fst snd].
  - split; [intros H; split; [constructor; [|constructor]|exact H]|intros [_ H]; exact H].
    destruct (g a); cbn [crash_states] in H; inversion H; assumption.
  - destruct (exec c f) as [r f1]. rewrite !Forall_cons_iff, !Forall_app, IH. tauto.
Qed.

Lemma steps_ok_bind {A B} (S : sys -> fs -> Prop) (p : prog A) (g : A -> prog B) f :
  steps_ok S (bind p g) f <-> steps_ok S p f /\ steps_ok S (g (fst (run p f))) (snd (run p f)).
Proof.
  revert f. induction p as [a|c k IH]; intros f; cbn [bind steps_ok run fst snd]; [tauto|].
  destruct (exec c f) as [r f1]. rewrite IH. tauto.
Qed.

Lemma all_steps_ok {A} (S' : sys -> Prop) (S : sys -> fs -> Prop) (p : prog A) :
  (forall c f, S' c -> S c f) -> all_steps S' p -> forall f, steps_ok S p f.
Proof.
  intros HS. induction p as [a|c k IH]; intros H f; cbn [steps_ok all_steps] in *; [exact I|].
  destruct H as [Hc Hk]. split; [apply HS; exact Hc|]. destruct (exec c f) as [r f1]. apply IH. apply Hk.
Qed.

Lemma all_steps_bind {A B} (S' : sys -> Prop) (p : prog A) (g : A -> prog B) :
  all_steps S' p -> (forall a, all_steps S' (g a)) -> all_steps S' (bind p g).
Proof. induction p as [a|c k IH]; cbn [bind all_steps]; [auto|]. intros [Hc Hk] Hg. split; [exact Hc|]. intros r. apply IH; auto. Qed.

Lemma all_steps_rbind {A B} (S' : sys -> Prop) (p : prog (res A)) (g : A -> prog (res B)) :
  all_steps S' p -> (forall a, all_steps S' (g a)) -> all_steps S' (rbind p g).
Proof. intros Hp Hg. unfold rbind. apply all_steps_bind; [exact Hp|]. intros [a|e| | |]; cbn; auto. Qed.

Lemma all_steps_step_ok (S' : sys -> Prop) c : S' c -> all_steps S' (step_ok c).
Proof. intros H. unfold step_ok. cbn. split; [exact H|]. intros [| | | | | |]; exact I. Qed.

(* an invariant kept by every safe step (and its intermediate states) holds at every crash state *)
Theorem crash_invariant {A} (P : fs -> Prop) (S : sys -> fs -> Prop) :
  (forall c f, P f -> S c f -> P (snd (exec c f)) /\ Forall P (mid_states c f)) ->
  forall (p : prog A) f, P f -> steps_ok S p f -> Forall P (crash_states p f) /\ P (snd (run p f)).
Proof.
  intros Hstep. induction p as [a|c k IH]; intros f HP Hs; cbn [crash_states steps_ok run snd] in *.
  - split; [constructor; [exact HP|constructor]|exact HP].
  - destruct Hs as [Hc Hk]. destruct (Hstep c f HP Hc) as [H1 H2]. destruct (exec c f) as [r f1]. cbn [snd] in H1.
    destruct (IH r f1 H1 Hk) as [H3 H4]. split; [|exact H4].
    constructor; [exact HP|]. apply Forall_app. split; assumption.
Qed.

Section Cr.
Variable hash : algo -> bytes -> bytes.
Hypothesis HL : HashLen hash.

(* ---------- C03: the content invariant ---------- *)
Definition ContentInv (f : fs) : Prop :=
  forall p d, lookup f (InCache (content_dir :: p)) = Some (File d) -> exists a, content_dir :: p = cpath hash a d.

Definition cwrites (c : sys) : list loc :=
  match c with
  | Fallocate l _ | MmapStore l _ _ | Truncate l _ | WriteAppend l _ | CreateIfMissing l | Append l _ => [l]
  | Link _ dst | CopyFile _ dst => [dst]
  | _ => []
  end.

Definition csafe (c : sys) (f : fs) : Prop :=
  match c with
  | Rename src dst => is_content dst -> forall d, lookup f src = Some (File d) -> exists a, dst = InCache (cpath hash a d)
  | _ => forall l, In l (cwrites c) -> ~ is_content l
  end.
Definition csafe' (c : sys) : Prop :=
  match c with Rename _ dst => ~ is_content dst | _ => forall l, In l (cwrites c) -> ~ is_content l end.
Lemma csafe'_csafe c f : csafe' c -> csafe c f.
Proof. destruct c; cbn; auto. intros H Hc. contradiction. Qed.

Lemma ContentInv_frame f f' :
  ContentInv f ->
  (forall l, is_content l -> lookup f' l = lookup f l \/ (forall d, lookup f' l <> Some (File d))) ->
  ContentInv f'.
Proof.
  intros H Hfr p d Hl. destruct (Hfr (InCache (content_dir :: p))) as [E|E]; [eexists; reflexivity|rewrite E in Hl; eauto|].
  exfalso. exact (E d Hl).
Qed.

Lemma ContentInv_update f l n : ContentInv f -> ~ is_content l -> ContentInv (update f l n).
Proof.
  intros H Hl. apply (ContentInv_frame f); [exact H|]. intros l' Hc. left. apply lookup_update_neq. intros ->. contradiction.
Qed.
Lemma ContentInv_update_dir f l : ContentInv f -> ContentInv (update f l Dir).
Proof.
  intros H. apply (ContentInv_frame f); [exact H|]. intros l' Hc. rewrite lookup_update.
  destruct (loc_eqb l l'); [right; discriminate|left; reflexivity].
Qed.
Lemma ContentInv_remove f l : ContentInv f -> ContentInv (remove f l).
Proof.
  intros H. apply (ContentInv_frame f); [exact H|]. intros l' Hc.
  destruct (loc_eq_dec l l') as [->|N]; [right; rewrite lookup_remove_eq; discriminate|left; apply lookup_remove_neq; exact N].
Qed.

Lemma mkdirs_content f ps : ContentInv f -> ContentInv (snd (mkdirs f ps)) /\ Forall ContentInv (mkdirs_states f ps).
Proof.
  revert f. induction ps as [|p ps IH]; intros f H; cbn [mkdirs mkdirs_states snd]; [split; [exact H|constructor]|].
  destruct (lookup f (InCache p)) as [[d| |t]|]; cbn [snd]; try (split; [exact H|constructor]).
  - apply IH. exact H.
  - destruct (IH _ (ContentInv_update_dir f (InCache p) H)) as [H1 H2]. split; [exact H1|constructor; [apply ContentInv_update_dir; exact H|exact H2]].
Qed.

Lemma tmp_loc_not_content n : ~ is_content (InCache (tmp_dir ++ [n])).
Proof. intros [p E]. inversion E as [[H1 H2]]; try (vm_compute in H1; discriminate). Qed.

Lemma step_content c f : ContentInv f -> csafe c f -> ContentInv (snd (exec c f)) /\ Forall ContentInv (mid_states c f).
Proof.
  intros H Hs.
  assert (forall l x, In l (cwrites c) -> (forall l0, In l0 (cwrites c) -> ~ is_content l0) -> ContentInv (update f l x)) as Hup.
  { intros l x Hin Hall. apply ContentInv_update; [exact H|apply Hall; exact Hin]. }
  destruct c; cbn [csafe cwrites] in Hs; unfold exec, mid_states.
  - (* MkdirAll *) apply mkdirs_content. exact H.
  - (* CreateTmp *) destruct (is_dir f tmp_dir); cbn [snd]; (split; [|constructor]); [apply ContentInv_update; [exact H|apply tmp_loc_not_content]|exact H].
  - (* Fallocate *) destruct (lookup f l) as [[d| |t]|]; try (split; [exact H|constructor]).
    destruct (n =? 0); cbn [snd]; (split; [|constructor]); [exact H|apply (Hup l); [left; reflexivity|exact Hs]].
  - (* MmapStore *) destruct (lookup f l) as [[d0| |t]|]; try (split; [exact H|constructor]).
    destruct (off + lenN d <=? lenN d0); cbn [snd]; (split; [|]); try exact H; try constructor.
    + apply (Hup l); [left; reflexivity|exact Hs].
    + apply Forall_forall. intros x Hx. apply in_map_iff in Hx as [p [<- _]]. apply (Hup l); [left; reflexivity|exact Hs].
  - (* Truncate *) destruct (lookup f l) as [[d| |t]|]; cbn [snd]; (split; [|constructor]); try exact H.
    apply (Hup l); [left; reflexivity|exact Hs].
  - (* WriteAppend *) destruct (lookup f l) as [[d0| |t]|]; cbn [snd]; (split; [|]); try exact H; try constructor.
    + apply (Hup l); [left; reflexivity|exact Hs].
    + apply Forall_forall. intros x Hx. apply in_map_iff in Hx as [p [<- _]]. apply (Hup l); [left; reflexivity|exact Hs].
  - (* Rename *) destruct (lookup f src) as [n|] eqn:Esrc; [|split; [exact H|constructor]].
    destruct (parent_ok f dst); [|split; [exact H|constructor]].
    assert (ContentInv (update (remove f src) dst n)) as Hr.
    { intros p d Hl. rewrite lookup_update in Hl. destruct (loc_eqb dst (InCache (content_dir :: p))) eqn:E.
      - apply loc_eqb_eq in E. inversion Hl; subst n. destruct (Hs (ex_intro _ p E) d eq_refl) as [a Ha].
        exists a. rewrite E in Ha. inversion Ha. reflexivity.
      - apply (ContentInv_remove f src H p d Hl). }
    destruct (lookup f dst) as [[d| |t]|]; cbn [snd]; (split; [|constructor]); try exact Hr. exact H.
  - (* Unlink *) destruct (lookup f l) as [[d| |t]|]; cbn [snd]; (split; [|constructor]); try exact H; apply ContentInv_remove; exact H.
  - (* CreateIfMissing *) destruct (lookup f l) as [[d| |t]|]; cbn [snd]; try (split; [exact H|constructor]).
    destruct (parent_ok f l); cbn [snd]; (split; [|constructor]); [apply (Hup l); [left; reflexivity|exact Hs]|exact H].
  - (* Append *) destruct (lookup f l) as [[d0| |t]|]; cbn [snd]; (split; [|]); try exact H; try constructor.
    + apply (Hup l); [left; reflexivity|exact Hs].
    + apply Forall_forall. intros x Hx. apply in_map_iff in Hx as [p [<- _]]. apply (Hup l); [left; reflexivity|exact Hs].
  - (* ReadFile *) destruct (resolve f l) as [[d| |t]|]; split; try exact H; constructor.
  - (* Exists *) split; [exact H|constructor].
  - (* Link *) destruct (lookup f src) as [[d| |t]|]; try (split; [exact H|constructor]);
      (destruct (lookup f dst); [split; [exact H|constructor]|]);
      (destruct (parent_ok f dst); cbn [snd]; (split; [|constructor]); [apply (Hup dst); [left; reflexivity|exact Hs]|exact H]).
  - (* SymlinkTo *) destruct (lookup f dst); [split; [exact H|constructor]|].
    destruct (parent_ok f dst); cbn [snd]; (split; [|constructor]); [|exact H].
    apply (ContentInv_frame f); [exact H|]. intros l' Hc. rewrite lookup_update. destruct (loc_eqb dst l'); [right; discriminate|left; reflexivity].
  - (* CopyFile *) destruct (resolve f src) as [[d| |t]|]; try (split; [exact H|constructor]).
    destruct (lookup f dst) as [[d0| |t0]|]; try (split; [exact H|constructor]).
    all: destruct (parent_ok f dst); cbn [snd]; split; try exact H; try (constructor; fail).
    all: try (apply (Hup dst); [left; reflexivity|exact Hs]).
    all: apply Forall_forall; intros x Hx; apply in_map_iff in Hx as [p [<- _]]; apply (Hup dst); [left; reflexivity|exact Hs].
  - (* Reflink *) destruct (resolve f src) as [[d| |t]|]; split; try exact H; constructor.
  - (* WalkFiles *) destruct (is_dir f p); split; try exact H; constructor.
  - (* ReadDir *) destruct (is_dir f p); split; try exact H; constructor.
  - (* RemoveDirAll *) destruct (lookup f (InCache p)) as [[d| |t]|]; cbn [snd]; (split; [|constructor]); try exact H.
    apply (ContentInv_frame f); [exact H|]. intros l' Hc. rewrite (lookup_filter_key (fun l => negb (under p l))).
    destruct (negb (under p l')); [left; reflexivity|right; discriminate].
Qed.

Theorem content_inv_crash {A} (p : prog A) f :
  ContentInv f -> steps_ok csafe p f -> Forall ContentInv (crash_states p f) /\ ContentInv (snd (run p f)).
Proof. apply crash_invariant. exact step_content. Qed.

(* ---------- the steps of the API programs are content-safe ---------- *)
Lemma index_loc_not_content p : ~ is_content (InCache (index_dir :: p)).
Proof. intros H. eapply index_not_content; [exists p; reflexivity|exact H]. Qed.
Lemma bucket_not_content key : ~ is_content (InCache (bucket_path hash key)).
Proof. destruct (bucket_path_shape hash key) as [a [b [c ->]]]. apply index_loc_not_content. Qed.

Ltac safe_step := apply all_steps_step_ok; cbn [csafe' cwrites]; intros l0 Hl0; repeat (destruct Hl0 as [<-|Hl0]; [assumption|]); try destruct Hl0.

Lemma all_unlink_quiet {A} l (r : res A) : all_steps csafe' (unlink_quiet l r).
Proof. unfold unlink_quiet. cbn. split; [intros l0 []|]. intros; exact I. Qed.

Lemma open_writer_all fl key o : all_steps csafe' (open_writer fl key o).
Proof.
  unfold open_writer. apply all_steps_rbind; [apply all_steps_step_ok; cbn; intros l0 []|intros _].
  cbn [all_steps]. split; [cbn; intros l0 []|]. intros r. destruct r; try exact I.
  destruct (content_size fl key o) as [sz|]; [|exact I]. destruct ((1 <=? sz) && (sz <=? max_mmap)); [|exact I].
  cbn [all_steps]. split.
  - cbn [csafe' cwrites]. intros l0 [<-|[]]. apply tmp_loc_not_content.
  - intros r2. destruct r2; try exact I. apply all_unlink_quiet.
Qed.

Definition wtmp_ok (w : wstate) : Prop := ~ is_content (w_tmp w).
Lemma WInv_wtmp f w : WInv f w -> wtmp_ok w.
Proof. intros [[n Hn] _]. unfold wtmp_ok. rewrite Hn. apply (tmp_loc_not_content n). Qed.

Lemma write_chunk_all w d : wtmp_ok w -> all_steps csafe' (write_chunk w d).
Proof.
  intros Hw. unfold write_chunk. destruct (w_map w) as [sz|].
  - destruct (w_pos w + lenN d <=? sz).
    + apply all_steps_rbind; [safe_step|intros; exact I].
    + apply all_steps_rbind; [safe_step|intros _]. apply all_steps_rbind; [safe_step|intros; exact I].
  - apply all_steps_rbind; [safe_step|intros; exact I].
Qed.

Lemma insert_all key o now : all_steps csafe' (insert hash key o now).
Proof.
  pose proof (bucket_not_content key) as Hb.
  unfold insert. apply all_steps_rbind; [apply all_steps_step_ok; cbn; intros l0 []|intros _].
  apply all_steps_rbind; [safe_step|intros _]. apply all_steps_rbind; [safe_step|intros _]. exact I.
Qed.

Lemma mkdirs_keeps f ps l n : lookup f l = Some n -> lookup (snd (mkdirs f ps)) l = Some n.
Proof.
  revert f. induction ps as [|p ps IH]; intros f H; cbn [mkdirs snd]; [exact H|].
  destruct (lookup f (InCache p)) as [[d| |t]|] eqn:E; cbn [snd]; try exact H; [apply IH; exact H|].
  apply IH. rewrite lookup_update_neq; [exact H|]. intros <-. congruence.
Qed.

(* closing: the only step of any program that puts a file under content-v2 is the rename of the writer's temp file,
   and at that moment the temp file holds exactly the bytes that were hashed *)
Lemma trim_all w : wtmp_ok w -> all_steps csafe' (trim w).
Proof.
  intros Htmp. unfold trim. destruct (w_map w) as [sz|]; [destruct (w_pos w <? sz)|]; try exact I. safe_step.
Qed.

Lemma publish_steps f w sri :
  wtmp_ok w -> lookup f (w_tmp w) = Some (File (w_data w)) ->
  steps_ok csafe (publish w (cpath hash (w_algo w) (w_data w)) sri) f.
Proof.
  intros Htmp Hl. unfold publish. set (cp := cpath hash (w_algo w) (w_data w)).
  cbn [steps_ok]. split; [cbn; intros l0 []|].
  assert (lookup (snd (exec (MkdirAll (parent cp)) f)) (w_tmp w) = Some (File (w_data w))) as Hl1.
  { rewrite exec_mkdirall. apply mkdirs_keeps. exact Hl. }
  destruct (exec (MkdirAll (parent cp)) f) as [r0 f1]. cbn [snd] in Hl1.
  assert (forall (r : res integrity) g, steps_ok csafe (unlink_quiet (w_tmp w) r) g) as Hunl.
  { intros r g. apply (all_steps_ok csafe'); [apply csafe'_csafe|apply all_unlink_quiet]. }
  destruct r0; try apply Hunl.
  all: cbn [steps_ok]; split;
       [cbn [csafe]; intros _ dd Hdd; rewrite Hl1 in Hdd; inversion Hdd; subst dd; exists (w_algo w); reflexivity|].
  all: destruct (exec (Rename (w_tmp w) (InCache cp)) f1) as [r f3]; destruct r; try exact I.
  all: cbn [steps_ok]; split; [cbn; intros l0 []|].
  all: destruct (exec (Exists (InCache cp)) f3) as [r2 f4]; destruct r2 as [| |[|]| | | |]; apply Hunl.
Qed.

Lemma close_writer_steps f w : WInv f w -> steps_ok csafe (close_writer hash w) f.
Proof.
  intros Hw. pose proof (WInv_wtmp f w Hw) as Htmp.
  unfold close_writer. rewrite (content_path_computed hash _ _ HL).
  apply steps_ok_bind. split; [apply (all_steps_ok csafe'); [apply csafe'_csafe|apply trim_all; exact Htmp]|].
  destruct (trim_ok hash f w Hw) as [ft [Htr [Hlt _]]]. rewrite Htr. cbn [fst snd].
  apply publish_steps; assumption.
Qed.

Lemma commit_steps f w now : WInv f w -> steps_ok csafe (commit hash w now) f.
Proof.
  intros Hw. unfold commit, rbind. apply steps_ok_bind. split; [apply close_writer_steps; exact Hw|].
  destruct (fst (run (close_writer hash w) f)); try exact I.
  destruct (match o_sri (w_opts w) with Some d => match sri_matches d a with Some _ => Some d | None => None end | None => Some a end); [|exact I].
  destruct (match o_size (w_opts w) with Some s => negb (s =? w_written w) | None => false end); destruct (o_size (w_opts w));
    try exact I; destruct (w_key w); try exact I; apply (all_steps_ok csafe'); try apply csafe'_csafe; apply insert_all.
Qed.

Lemma write_chunks_steps f w cs : WInv f w -> steps_ok csafe (write_chunks w cs) f.
Proof.
  revert f w. induction cs as [|c cs IH]; intros f w Hw; cbn [write_chunks]; [exact I|].
  unfold rbind. apply steps_ok_bind. split.
  - apply (all_steps_ok csafe'); [apply csafe'_csafe|]. apply write_chunk_all. exact (WInv_wtmp f w Hw).
  - destruct (write_chunk_ok hash f w c Hw) as [w1 [f1 [Hr [Hw1 _]]]]. rewrite Hr. cbn [fst snd]. apply IH. exact Hw1.
Qed.

(* C03 for every streamed write (any chunking, keyed or by address, any options) *)
Theorem stream_write_crash f fl key o cs now :
  CacheInv f -> ContentInv f ->
  Forall ContentInv (crash_states (stream_write hash fl key o cs now) f) /\ ContentInv (snd (run (stream_write hash fl key o cs now) f)).
Proof.
  intros Hinv Hc. apply content_inv_crash; [exact Hc|].
  unfold stream_write, rbind. apply steps_ok_bind. split.
  - apply (all_steps_ok csafe'); [apply csafe'_csafe|apply open_writer_all].
  - destruct (open_writer_inv hash f fl key o Hinv) as [w [f1 [Hr [Hw [Hi1 _]]]]]. rewrite Hr. cbn [fst snd].
    apply steps_ok_bind. split; [apply write_chunks_steps; exact Hw|].
    destruct (write_chunks_inv hash f1 w cs Hw Hi1) as [w2 [f2 [Hr2 [Hw2 _]]]]. rewrite Hr2. cbn [fst snd].
    apply commit_steps. exact Hw2.
Qed.

(* one-shot writes *)
Theorem oneshot_crash f fl key o data now :
  CacheInv f -> ContentInv f ->
  Forall ContentInv (crash_states (oneshot hash fl key o data now) f) /\ ContentInv (snd (run (oneshot hash fl key o data now) f)).
Proof.
  intros Hinv Hc. apply content_inv_crash; [exact Hc|].
  unfold oneshot, rbind at 1. apply steps_ok_bind. split.
  - apply (all_steps_ok csafe'); [apply csafe'_csafe|apply open_writer_all].
  - destruct (open_writer_inv hash f fl key o Hinv) as [w [f1 [Hr [Hw [Hi1 _]]]]]. rewrite Hr. cbn [fst snd].
    destruct data as [|b data]; [apply commit_steps; exact Hw|].
    apply steps_ok_bind. split.
    + apply (all_steps_ok csafe'); [apply csafe'_csafe|]. apply write_chunk_all. exact (WInv_wtmp f1 w Hw).
    + destruct (write_chunk_ok hash f1 w (b :: data) Hw) as [w1 [f2 [Hr2 [Hw1 _]]]]. rewrite Hr2. cbn [fst snd].
      apply commit_steps. exact Hw1.
Qed.

(* every other API program: none of its steps writes a file under content-v2, on ANY tree *)
Theorem other_ops_crash {A} (p : prog A) f :
  all_steps csafe' p -> ContentInv f -> Forall ContentInv (crash_states p f) /\ ContentInv (snd (run p f)).
Proof. intros Hp Hc. apply content_inv_crash; [exact Hc|]. apply (all_steps_ok csafe'); [apply csafe'_csafe|exact Hp]. Qed.

Lemma read_file_all l : all_steps csafe' (read_file l).
Proof. unfold read_file. cbn. split; [intros l0 []|]. intros r; destruct r; exact I. Qed.
Lemma bucket_entries_all b : all_steps csafe' (bucket_entries hash b).
Proof. unfold bucket_entries. cbn. split; [intros l0 []|]. intros r; destruct r as [| | | | | |[]]; exact I. Qed.
Lemma find_all key : all_steps csafe' (find hash key).
Proof. unfold find. apply all_steps_rbind; [apply bucket_entries_all|intros; exact I]. Qed.
Lemma with_cpath_all {A} i (k : loc -> prog (res A)) : (forall l, all_steps csafe' (k l)) -> all_steps csafe' (with_cpath i k).
Proof. intros H. unfold with_cpath. destruct (content_path i); [apply H|exact I]. Qed.
Lemma by_key_all {A} key (k : integrity -> prog (res A)) : (forall i, all_steps csafe' (k i)) -> all_steps csafe' (by_key hash key k).
Proof. intros H. unfold by_key. apply all_steps_rbind; [apply find_all|]. intros [m|]; [apply H|exact I]. Qed.
Lemma read_hash_all i : all_steps csafe' (read_hash hash i).
Proof.
  unfold read_hash. apply with_cpath_all. intros l. apply all_steps_rbind; [apply read_file_all|]. intros d.
  destruct (check_res hash i d); exact I.
Qed.
Lemma remove_hash_all i : all_steps csafe' (remove_hash i).
Proof. unfold remove_hash. apply with_cpath_all. intros l. apply all_steps_step_ok. cbn. intros l0 []. Qed.
Lemma remove_fully_all key : all_steps csafe' (remove_fully hash key).
Proof.
  unfold remove_fully. apply all_steps_rbind; [apply find_all|]. intros e. apply all_steps_rbind.
  - destruct e as [m|]; [|exact I]. apply with_cpath_all. intros l. unfold unlink_if_present. cbn [all_steps].
    split; [cbn; intros l0 []|]. intros r. destruct r as [| | | | | |[]]; exact I.
  - intros _. apply all_steps_step_ok. cbn. intros l0 [].
Qed.
Lemma extract_hash_all x checked i dst : ~ is_content dst -> all_steps csafe' (extract_hash hash x checked i dst).
Proof.
  intros Hd. unfold extract_hash. apply with_cpath_all. intros cp.
  assert (all_steps csafe' (xstep x cp dst)) as Hx.
  { unfold xstep. cbn [all_steps]. split; [|intros r; destruct r; exact I].
    destruct x; cbn [csafe' cwrites]; intros l0 Hl0; try destruct Hl0 as [<-|[]]; try exact Hd; destruct Hl0. }
  destruct checked; [|exact Hx]. apply all_steps_rbind.
  - unfold verify. apply all_steps_rbind; [apply read_file_all|]. intros d. destruct (check_res hash i d); exact I.
  - intros n. apply all_steps_rbind; [exact Hx|intros; exact I].
Qed.

End Cr.
