(* CommitP.v — commit = close, then the integrity decision, then the size decision, then the index insert;
   whole keyed / by-address writes; reading back. *)
From CC Require Import Bytes Codec Utf8 Lines Json Sri Record Fs Prog Api
  BytesP CodecP FsP ProgP SriP RecordP IndexP ReadP WriteP.
From Coq Require Import Lia.
Local Open Scope N_scope.

Section C.
Variable hash : algo -> bytes -> bytes.
Hypothesis HL : HashLen hash.

Definition CacheInv (f : fs) : Prop := IndexInv f /\ ContentShape f /\ TmpShape f.

Definition is_index (l : loc) : Prop := exists p, l = InCache (index_dir :: p).
Definition is_content (l : loc) : Prop := exists p, l = InCache (content_dir :: p).
Definition is_tmp (l : loc) : Prop := l = InCache tmp_dir \/ exists n, l = InCache [bs "tmp"; n].

Lemma index_not_content l : is_index l -> is_content l -> False.
Proof. intros [p ->] [q H]. inversion H as [[H1 H2]]; try (vm_compute in H1; discriminate). Qed.
Lemma index_not_tmp l : is_index l -> is_tmp l -> False.
Proof. intros [p ->] [H|[n H]]; inversion H as [[H1 H2]]; try (vm_compute in H1; discriminate). Qed.
Lemma content_not_tmp l : is_content l -> is_tmp l -> False.
Proof. intros [p ->] [H|[n H]]; inversion H as [[H1 H2]]; try (vm_compute in H1; discriminate). Qed.

Lemma IndexInv_frame f f' : IndexInv f -> (forall l, is_index l -> lookup f' l = lookup f l) -> IndexInv f'.
Proof. intros H Hfr p n Hn. rewrite Hfr in Hn by (exists p; reflexivity). apply (H p n Hn). Qed.
Lemma ContentShape_frame f f' : ContentShape f -> (forall l, is_content l -> lookup f' l = lookup f l) -> ContentShape f'.
Proof. intros H Hfr p n Hn. rewrite Hfr in Hn by (exists p; reflexivity). apply (H p n Hn). Qed.
Lemma TmpShape_frame f f' : TmpShape f -> lookup f' (InCache tmp_dir) = lookup f (InCache tmp_dir) -> TmpShape f'.
Proof. unfold TmpShape, dir_or_absent. intros H E. rewrite E. exact H. Qed.

Lemma abs_idx_frame f f' : (forall l, is_index l -> lookup f' l = lookup f l) -> forall k, abs_idx hash f' k = abs_idx hash f k.
Proof.
  intros Hfr k. unfold abs_idx, bucket_bytes. rewrite Hfr; [reflexivity|].
  destruct (bucket_path_shape hash k) as [a [b [c E]]]. rewrite E. exists [a; b; c]. reflexivity.
Qed.

(* ---------- the three phases preserve the cache invariant ---------- *)
Lemma open_writer_inv f fl key o :
  CacheInv f ->
  exists w f', run (open_writer fl key o) f = (Ok w, f') /\ WInv f' w /\ CacheInv f' /\
    w_data w = [] /\ w_key w = key /\ w_opts w = o /\
    w_algo w = match o_algo o with Some a => a | None => Sha256 end /\
    (forall l, ~ is_tmp l -> lookup f' l = lookup f l) /\ lookup f (w_tmp w) = None.
Proof.
  intros [Hi [Hc Ht]]. destruct (open_writer_ok hash f fl key o Ht) as [w [f' [Hr [Hw [Hd [Hk [Ho [Ha [Hfresh [Htd Hfr]]]]]]]]]].
  exists w, f'. split; [exact Hr|]. split; [exact Hw|].
  assert (forall l, ~ is_tmp l -> lookup f' l = lookup f l) as Hfr'.
  { intros l Hl. apply Hfr; intro E; apply Hl.
    - destruct Hw as [[n Hn] _]. right. exists n. congruence.
    - left. exact E. }
  split; [|repeat split; auto].
  split; [|split].
  - apply (IndexInv_frame f); [exact Hi|]. intros l Hl. apply Hfr'. intro. eapply index_not_tmp; eauto.
  - apply (ContentShape_frame f); [exact Hc|]. intros l Hl. apply Hfr'. intro. eapply content_not_tmp; eauto.
  - unfold TmpShape, dir_or_absent. right. exact Htd.
Qed.

Lemma write_chunk_inv f w s :
  WInv f w -> CacheInv f ->
  exists w' f', run (write_chunk w s) f = (Ok w', f') /\ WInv f' w' /\ CacheInv f' /\ same_writer w w' /\
    w_data w' = w_data w ++ s /\ (forall l, l <> w_tmp w -> lookup f' l = lookup f l).
Proof.
  intros Hw [Hi [Hc Ht]]. destruct (write_chunk_ok hash f w s Hw) as [w' [f' [Hr [Hw' [Hs [Hd Hfr]]]]]].
  exists w', f'. split; [exact Hr|]. split; [exact Hw'|]. split; [|auto].
  destruct Hw as [[n Hn] _].
  assert (forall l, ~ is_tmp l -> lookup f' l = lookup f l) as Hfr'.
  { intros l Hl. apply Hfr. intro E. apply Hl. right. exists n. congruence. }
  split; [|split].
  - apply (IndexInv_frame f); [exact Hi|]. intros l Hl. apply Hfr'. intro. eapply index_not_tmp; eauto.
  - apply (ContentShape_frame f); [exact Hc|]. intros l Hl. apply Hfr'. intro. eapply content_not_tmp; eauto.
  - apply (TmpShape_frame f); [exact Ht|]. apply Hfr. rewrite Hn. discriminate.
Qed.

Lemma close_writer_inv f w :
  WInv f w -> CacheInv f ->
  let cp := InCache (cpath hash (w_algo w) (w_data w)) in
  exists f', run (close_writer hash w) f = (Ok (sri_of hash (w_algo w) (w_data w)), f') /\ CacheInv f' /\
    lookup f' cp = Some (File (w_data w)) /\ lookup f' (w_tmp w) = None /\
    (forall l, ~ is_content l -> l <> w_tmp w -> lookup f' l = lookup f l) /\
    (forall l, is_content l -> l <> cp -> lookup f' l = lookup f l \/ (lookup f l = None /\ lookup f' l = Some Dir)).
Proof.
  intros Hw [Hi [Hc Ht]] cp. destruct (close_writer_ok hash f w HL Hw Hc) as [f' [Hr [Hcp [Htmp [Hc' Hfr]]]]].
  fold cp in Hcp, Hfr. exists f'. split; [exact Hr|].
  assert (is_content cp) as Hcpc by (eexists; reflexivity).
  assert (forall l, ~ is_content l -> l <> w_tmp w -> lookup f' l = lookup f l) as Hfr'.
  { intros l H1 H2. destruct (Hfr l) as [H|[_ [_ [p [-> _]]]]]; [intro; subst; contradiction|exact H2|exact H|].
    exfalso. apply H1. exists p. reflexivity. }
  destruct Hw as [[n Hn] _].
  split; [|split; [exact Hcp|split; [exact Htmp|split; [exact Hfr'|]]]].
  - split; [|split; [exact Hc'|]].
    + apply (IndexInv_frame f); [exact Hi|]. intros l Hl. apply Hfr'.
      * intro. eapply index_not_content; eauto.
      * intro E. eapply index_not_tmp; [exact Hl|]. right. exists n. congruence.
    + apply (TmpShape_frame f); [exact Ht|]. apply Hfr'.
      * intro. eapply content_not_tmp; [eassumption|]. left. reflexivity.
      * rewrite Hn. discriminate.
  - intros l H1 H2. destruct (Hfr l H2) as [H|[H3 [H4 _]]]; auto.
    intro E. eapply content_not_tmp; [exact H1|]. right. exists n. congruence.
Qed.

(* ---------- commit: the decision rule (C08) ---------- *)
Definition declared_ok (o : wopts) (wsri : integrity) : option integrity :=
  match o_sri o with
  | Some d => match sri_matches d wsri with Some _ => Some d | None => None end
  | None => Some wsri
  end.

Definition commit_opts (o : wopts) (final : integrity) (written : N) : wopts :=
  mkWopts (o_algo o) (Some final) (match o_size o with Some s => Some s | None => Some written end)
          (o_time o) (o_meta o) (o_raw o).

Definition size_ok (o : wopts) (n : N) : bool :=
  match o_size o with Some s => N.eqb s n | None => true end.

(* what commit does once the content writer is closed *)
Definition commit_rest (w : wstate) (now : N) (wsri : integrity) : prog (res integrity) :=
  let o := w_opts w in
  match declared_ok o wsri with
  | None => Ret (Err EIntegrity)
  | Some final =>
      match o_size o with
      | Some s => if N.eqb s (w_written w) then
                    match w_key w with
                    | Some key => insert hash key (commit_opts o final (w_written w)) now
                    | None => Ret (Ok wsri) end
                  else Ret (Err (ESizeMismatch s (w_written w)))
      | None => match w_key w with
                | Some key => insert hash key (commit_opts o final (w_written w)) now
                | None => Ret (Ok wsri) end
      end
  end.

Lemma commit_rest_eq w now wsri :
  (let o := w_opts w in
   match (match o_sri o with
          | Some d => match sri_matches d wsri with Some _ => Some d | None => None end
          | None => Some wsri end) with
   | None => Ret (Err EIntegrity)
   | Some final =>
       match (match o_size o with Some s => negb (N.eqb s (w_written w)) | None => false end), o_size o with
       | true, Some s => Ret (Err (ESizeMismatch s (w_written w)))
       | _, _ =>
           match w_key w with
           | Some key =>
               let o' := mkWopts (o_algo o) (Some final)
                                 (match o_size o with Some s => Some s | None => Some (w_written w) end)
                                 (o_time o) (o_meta o) (o_raw o) in
               insert hash key o' now
           | None => Ret (Ok wsri)
           end
       end
   end) = commit_rest w now wsri.
Proof.
  cbv zeta. unfold commit_rest, declared_ok, commit_opts.
  destruct (o_sri (w_opts w)) as [d|]; [destruct (sri_matches d wsri)|]; try reflexivity;
  destruct (o_size (w_opts w)) as [s|]; try reflexivity; destruct (N.eqb s (w_written w)); reflexivity.
Qed.

Section Commit.
Variables (f : fs) (w : wstate) (now : N).
Hypothesis Hw : WInv f w.
Hypothesis Hinv : CacheInv f.
Let data := w_data w.
Let a := w_algo w.
Let o := w_opts w.
Let wsri := sri_of hash a data.
(* the state right after the content has been published *)
Let f1 := snd (run (close_writer hash w) f).

Lemma commit_close : run (close_writer hash w) f = (Ok wsri, f1).
Proof.
  destruct (close_writer_inv f w Hw Hinv) as [f' [Hclose _]]. subst f1. rewrite Hclose. reflexivity.
Qed.

Lemma commit_run : run (commit hash w now) f = run (commit_rest w now wsri) f1.
Proof.
  unfold commit. rewrite (run_rbind_ok _ _ _ _ _ commit_close). fold o a data wsri.
  rewrite <- commit_rest_eq. reflexivity.
Qed.

Lemma written_is_len : w_written w = lenN data.
Proof. destruct Hw as [_ [H _]]. exact H. Qed.

(* (i) a declared integrity the data does not satisfy: integrity error, nothing inserted *)
Theorem commit_rejected_integrity :
  declared_ok o wsri = None -> run (commit hash w now) f = (Err EIntegrity, f1).
Proof. intros Hd. rewrite commit_run. unfold commit_rest. fold o. rewrite Hd. reflexivity. Qed.

(* (ii) otherwise, a declared size different from the bytes written: size mismatch, nothing inserted *)
Theorem commit_rejected_size final s :
  declared_ok o wsri = Some final -> o_size o = Some s -> s <> lenN data ->
  run (commit hash w now) f = (Err (ESizeMismatch s (lenN data)), f1).
Proof.
  intros Hd Hs Hne. rewrite commit_run. unfold commit_rest. fold o. rewrite Hd, Hs, written_is_len.
  apply N.eqb_neq in Hne. rewrite Hne. reflexivity.
Qed.

(* (iii) otherwise success: by address ... *)
Theorem commit_by_hash_ok final :
  declared_ok o wsri = Some final -> size_ok o (lenN data) = true -> w_key w = None ->
  run (commit hash w now) f = (Ok wsri, f1).
Proof.
  intros Hd Hs Hk. rewrite commit_run. unfold commit_rest. fold o. rewrite Hd, Hk, written_is_len.
  unfold size_ok in Hs. destruct (o_size o) as [s|]; [rewrite Hs|]; reflexivity.
Qed.

(* ... or keyed: the index insert of the complete new entry *)
Theorem commit_keyed_run final key :
  declared_ok o wsri = Some final -> size_ok o (lenN data) = true -> w_key w = Some key ->
  run (commit hash w now) f = run (insert hash key (commit_opts o final (lenN data)) now) f1.
Proof.
  intros Hd Hs Hk. rewrite commit_run. unfold commit_rest. fold o. rewrite Hd, Hk, written_is_len.
  unfold size_ok in Hs. destruct (o_size o) as [s|]; [rewrite Hs|]; reflexivity.
Qed.

End Commit.

(* ---------- reading back ---------- *)
Lemma read_hash_stored f a d :
  lookup f (InCache (cpath hash a d)) = Some (File d) -> run (read_hash hash (sri_of hash a d)) f = (Ok d, f).
Proof.
  intros H. unfold read_hash, with_cpath. rewrite (content_path_computed hash a d HL).
  unfold rbind. rewrite run_bind. unfold read_file. cbn [run]. rewrite (exec_readfile_file _ _ _ H). cbn [run].
  unfold check_res. rewrite sri_check_self. reflexivity.
Qed.

Lemma read_by_key f key m :
  IndexInv f -> abs_idx hash f key = Some m -> run (read hash key) f = run (read_hash hash (m_sri m)) f.
Proof.
  intros Hi Ha. unfold read, by_key, rbind. rewrite run_bind, (find_run hash f key Hi), Ha. reflexivity.
Qed.

(* ---------- accepted keyed commit ---------- *)
Theorem commit_keyed_accepted f w now key final :
  WInv f w -> CacheInv f -> w_key w = Some key ->
  declared_ok (w_opts w) (sri_of hash (w_algo w) (w_data w)) = Some final ->
  size_ok (w_opts w) (lenN (w_data w)) = true ->
  wf_rec hash (smeta_of key (commit_opts (w_opts w) final (lenN (w_data w))) now) ->
  parse_entry_sri (sri_text final) = Some final ->
  fst (run (commit hash w now) f) = Ok final /\
  CacheInv (snd (run (commit hash w now) f)) /\
  (forall k, abs_idx hash (snd (run (commit hash w now) f)) k
             = if bytes_eqb k key then new_entry key (commit_opts (w_opts w) final (lenN (w_data w))) now
               else abs_idx hash f k) /\
  lookup (snd (run (commit hash w now) f)) (InCache (cpath hash (w_algo w) (w_data w))) = Some (File (w_data w)) /\
  lookup (snd (run (commit hash w now) f)) (w_tmp w) = None /\
  (forall l, ~ is_index l -> ~ is_content l -> l <> w_tmp w ->
             lookup (snd (run (commit hash w now) f)) l = lookup f l).
Proof.
  intros Hw Hinv Hk Hd Hs Hwf Hps.
  rewrite (commit_keyed_run f w now Hw Hinv final key Hd Hs Hk).
  destruct (close_writer_inv f w Hw Hinv) as [f1 [Hclose [[Hi1 [Hc1 Ht1]] [Hcp [Htmp [Hfr Hfrc]]]]]].
  rewrite Hclose. cbn [snd].
  set (o' := commit_opts (w_opts w) final (lenN (w_data w))) in *.
  destruct (insert_abs hash f1 key o' now Hi1 Hwf) as [Hi2 [Hres [Habs Hfr2]]].
  { intros i Hi. unfold o', commit_opts in Hi. cbn [o_sri] in Hi. inversion Hi; subst i. exact Hps. }
  assert (forall l, ~ is_index l -> lookup (snd (run (insert hash key o' now) f1)) l = lookup f1 l) as Hfr2'.
  { intros l Hl. apply Hfr2. intros p E. apply Hl. exists p. exact E. }
  split; [rewrite Hres; unfold o', commit_opts; reflexivity|].
  assert (is_content (InCache (cpath hash (w_algo w) (w_data w)))) as Hcc by (eexists; reflexivity).
  destruct Hw as [[n Hn] _].
  assert (~ is_index (w_tmp w)) as Hti by (intro H; eapply index_not_tmp; [exact H|right; exists n; exact Hn]).
  split; [split; [exact Hi2|split]|].
  - apply (ContentShape_frame f1); [exact Hc1|]. intros l Hl. apply Hfr2'. intro. eapply index_not_content; eauto.
  - apply (TmpShape_frame f1); [exact Ht1|]. apply Hfr2'. intro H. eapply index_not_tmp; [exact H|left; reflexivity].
  - split.
    + intros k. rewrite Habs. destruct (bytes_eqb k key); [reflexivity|].
      apply abs_idx_frame. intros l Hl. apply Hfr.
      * intro. eapply index_not_content; eauto.
      * intro E. apply Hti. rewrite <- E. exact Hl.
    + split; [rewrite Hfr2' by (intro; eapply index_not_content; eauto); exact Hcp|].
      split; [rewrite Hfr2' by exact Hti; exact Htmp|].
      intros l H1 H2 H3. rewrite Hfr2' by exact H1. apply Hfr; assumption.
Qed.

(* no declared integrity: the entry points at the data's own address and the data reads back *)
Theorem commit_keyed_roundtrip f w now key :
  WInv f w -> CacheInv f -> w_key w = Some key -> o_sri (w_opts w) = None ->
  size_ok (w_opts w) (lenN (w_data w)) = true ->
  wf_rec hash (smeta_of key (commit_opts (w_opts w) (sri_of hash (w_algo w) (w_data w)) (lenN (w_data w))) now) ->
  fst (run (commit hash w now) f) = Ok (sri_of hash (w_algo w) (w_data w)) /\
  CacheInv (snd (run (commit hash w now) f)) /\
  run (read hash key) (snd (run (commit hash w now) f)) = (Ok (w_data w), snd (run (commit hash w now) f)) /\
  run (read_hash hash (sri_of hash (w_algo w) (w_data w))) (snd (run (commit hash w now) f))
    = (Ok (w_data w), snd (run (commit hash w now) f)) /\
  exists m, run (find hash key) (snd (run (commit hash w now) f)) = (Ok (Some m), snd (run (commit hash w now) f)) /\
            m_key m = key /\ m_sri m = sri_of hash (w_algo w) (w_data w) /\
            m_size m = match o_size (w_opts w) with Some s => s | None => lenN (w_data w) end /\
            m_time m = match o_time (w_opts w) with Some t => t | None => now end /\
            m_metadata m = match o_meta (w_opts w) with Some j => j | None => JNull end /\
            m_raw m = o_raw (w_opts w).
Proof.
  intros Hw Hinv Hk Hns Hs Hwf.
  assert (declared_ok (w_opts w) (sri_of hash (w_algo w) (w_data w)) = Some (sri_of hash (w_algo w) (w_data w))) as Hd
    by (unfold declared_ok; rewrite Hns; reflexivity).
  destruct (commit_keyed_accepted f w now key _ Hw Hinv Hk Hd Hs Hwf (parse_entry_computed hash _ _ HL))
    as [Hres [Hinv' [Habs [Hcp [Htmp Hfr]]]]].
  set (f' := snd (run (commit hash w now) f)) in *.
  split; [exact Hres|]. split; [exact Hinv'|].
  pose proof (Habs key) as Hkey. rewrite bytes_eqb_refl in Hkey. unfold new_entry, commit_opts in Hkey. cbn [o_sri o_time o_size o_meta o_raw] in Hkey.
  destruct Hinv' as [Hi' _].
  split; [|split].
  - rewrite (read_by_key f' key _ Hi' Hkey). cbn [m_sri]. apply read_hash_stored. exact Hcp.
  - apply read_hash_stored. exact Hcp.
  - eexists. split; [rewrite (find_run hash f' key Hi'), Hkey; reflexivity|].
    cbn [m_key m_sri m_size m_time m_metadata m_raw]. repeat split.
    destruct (o_size (w_opts w)); reflexivity.
Qed.

(* by address *)
Theorem commit_by_hash_roundtrip f w now :
  WInv f w -> CacheInv f -> w_key w = None -> o_sri (w_opts w) = None ->
  size_ok (w_opts w) (lenN (w_data w)) = true ->
  fst (run (commit hash w now) f) = Ok (sri_of hash (w_algo w) (w_data w)) /\
  CacheInv (snd (run (commit hash w now) f)) /\
  run (read_hash hash (sri_of hash (w_algo w) (w_data w))) (snd (run (commit hash w now) f))
    = (Ok (w_data w), snd (run (commit hash w now) f)) /\
  (forall k, abs_idx hash (snd (run (commit hash w now) f)) k = abs_idx hash f k).
Proof.
  intros Hw Hinv Hk Hns Hs.
  assert (declared_ok (w_opts w) (sri_of hash (w_algo w) (w_data w)) = Some (sri_of hash (w_algo w) (w_data w))) as Hd
    by (unfold declared_ok; rewrite Hns; reflexivity).
  rewrite (commit_by_hash_ok f w now Hw Hinv _ Hd Hs Hk).
  destruct (close_writer_inv f w Hw Hinv) as [f1 [Hclose [Hinv1 [Hcp [Htmp [Hfr Hfrc]]]]]].
  rewrite Hclose. cbn [fst snd]. split; [reflexivity|]. split; [exact Hinv1|].
  split; [apply read_hash_stored; exact Hcp|].
  apply abs_idx_frame. intros l Hl. apply Hfr.
  - intro. eapply index_not_content; eauto.
  - destruct Hw as [[n Hn] _]. intro E. eapply index_not_tmp; [exact Hl|right; exists n; congruence].
Qed.

(* a rejected commit leaves every index location as it was (the key's previous mapping is untouched) *)
Theorem commit_rejected_frame f w now :
  WInv f w -> CacheInv f ->
  (declared_ok (w_opts w) (sri_of hash (w_algo w) (w_data w)) = None \/
   exists s, o_size (w_opts w) = Some s /\ s <> lenN (w_data w)) ->
  (fst (run (commit hash w now) f) = Err EIntegrity \/
   exists s, fst (run (commit hash w now) f) = Err (ESizeMismatch s (lenN (w_data w)))) /\
  (forall l, is_index l -> lookup (snd (run (commit hash w now) f)) l = lookup f l) /\
  (forall k, abs_idx hash (snd (run (commit hash w now) f)) k = abs_idx hash f k) /\
  lookup (snd (run (commit hash w now) f)) (w_tmp w) = None /\
  CacheInv (snd (run (commit hash w now) f)).
Proof.
  intros Hw Hinv Hrej.
  destruct (close_writer_inv f w Hw Hinv) as [f1 [Hclose [Hinv1 [Hcp [Htmp [Hfr Hfrc]]]]]].
  assert (snd (run (close_writer hash w) f) = f1) as Ef1 by (rewrite Hclose; reflexivity).
  assert (forall l, is_index l -> lookup f1 l = lookup f l) as Hidx.
  { intros l Hl. apply Hfr.
    - intro. eapply index_not_content; eauto.
    - destruct Hw as [[n Hn] _]. intro E. eapply index_not_tmp; [exact Hl|right; exists n; congruence]. }
  destruct (declared_ok (w_opts w) (sri_of hash (w_algo w) (w_data w))) as [final|] eqn:Hd.
  - destruct Hrej as [?|[s [Hs Hne]]]; [discriminate|].
    rewrite (commit_rejected_size f w now Hw Hinv final s Hd Hs Hne), Ef1. cbn [fst snd].
    split; [right; exists s; reflexivity|]. split; [exact Hidx|]. split; [apply abs_idx_frame; exact Hidx|]. auto.
  - rewrite (commit_rejected_integrity f w now Hw Hinv Hd), Ef1. cbn [fst snd].
    split; [left; reflexivity|]. split; [exact Hidx|]. split; [apply abs_idx_frame; exact Hidx|]. auto.
Qed.

(* ---------- whole writes ---------- *)
Lemma write_chunks_inv f w cs :
  WInv f w -> CacheInv f ->
  exists w' f', run (write_chunks w cs) f = (Ok w', f') /\ WInv f' w' /\ CacheInv f' /\ same_writer w w' /\
    w_data w' = w_data w ++ List.concat cs /\ (forall l, l <> w_tmp w -> lookup f' l = lookup f l).
Proof.
  revert f w. induction cs as [|c cs IH]; intros f w Hw Hinv; cbn [write_chunks].
  - exists w, f. cbn [run List.concat]. rewrite app_nil_r. split; [reflexivity|]. split; [exact Hw|]. split; [exact Hinv|].
    split; [repeat split|]. split; [reflexivity|]. intros; reflexivity.
  - destruct (write_chunk_inv f w c Hw Hinv) as [w1 [f1 [Hr [Hw1 [Hi1 [Hs1 [Hd1 Ho1]]]]]]].
    erewrite run_rbind_ok by exact Hr.
    destruct (IH f1 w1 Hw1 Hi1) as [w2 [f2 [Hr2 [Hw2 [Hi2 [Hs2 [Hd2 Ho2]]]]]]].
    exists w2, f2. split; [exact Hr2|]. split; [exact Hw2|]. split; [exact Hi2|].
    destruct Hs1 as (A1 & A2 & A3 & A4), Hs2 as (B1 & B2 & B3 & B4).
    split; [repeat split; congruence|]. split; [rewrite Hd2, Hd1; cbn [List.concat]; rewrite app_assoc; reflexivity|].
    intros l Hne. rewrite Ho2 by congruence. apply Ho1. exact Hne.
Qed.

(* a streamed write: open, any chunking, commit *)
Definition stream_write (fl : flavour) (key : option bytes) (o : wopts) (cs : list bytes) (now : N)
  : prog (res integrity) :=
  rbind (open_writer fl key o) (fun w => rbind (write_chunks w cs) (fun w' => commit hash w' now)).

Definition algo_of (o : wopts) : algo := match o_algo o with Some a => a | None => Sha256 end.

Theorem stream_write_keyed_roundtrip f fl key o cs now :
  CacheInv f -> o_sri o = None -> size_ok o (lenN (List.concat cs)) = true ->
  let data := List.concat cs in let a := algo_of o in
  wf_rec hash (smeta_of key (commit_opts o (sri_of hash a data) (lenN data)) now) ->
  let f' := snd (run (stream_write fl (Some key) o cs now) f) in
  fst (run (stream_write fl (Some key) o cs now) f) = Ok (sri_of hash a data) /\
  CacheInv f' /\
  run (read hash key) f' = (Ok data, f') /\
  run (read_hash hash (sri_of hash a data)) f' = (Ok data, f') /\
  (forall k, k <> key -> abs_idx hash f' k = abs_idx hash f k) /\
  exists m, run (find hash key) f' = (Ok (Some m), f') /\ m_key m = key /\ m_sri m = sri_of hash a data /\
            m_size m = match o_size o with Some s => s | None => lenN data end /\
            m_time m = match o_time o with Some t => t | None => now end /\
            m_metadata m = match o_meta o with Some j => j | None => JNull end /\ m_raw m = o_raw o.
Proof.
  intros Hinv Hns Hs data a Hwf. cbv zeta. unfold stream_write.
  destruct (open_writer_inv f fl (Some key) o Hinv) as [w [f1 [Hr1 [Hw1 [Hi1 [Hd1 [Hk1 [Ho1 [Ha1 [Hfr1 _]]]]]]]]]].
  rewrite (run_rbind_ok _ _ _ _ _ Hr1).
  destruct (write_chunks_inv f1 w cs Hw1 Hi1) as [w2 [f2 [Hr2 [Hw2 [Hi2 [[S1 [S2 [S3 S4]]] [Hd2 Hfr2]]]]]]].
  rewrite (run_rbind_ok _ _ _ _ _ Hr2).
  rewrite Hd1 in Hd2. cbn [app] in Hd2.
  assert (w_key w2 = Some key) as Hk2 by congruence.
  assert (w_opts w2 = o) as Ho2 by congruence.
  assert (w_algo w2 = a) as Ha2 by (unfold a, algo_of; congruence).
  destruct (commit_keyed_roundtrip f2 w2 now key Hw2 Hi2 Hk2) as [R1 [R2 [R3 [R4 R5]]]];
    try (rewrite ?Ho2, ?Hd2, ?Ha2; assumption).
  rewrite Ho2, Hd2, Ha2 in *. fold data in R1, R3, R4, R5 |- *.
  split; [exact R1|]. split; [exact R2|]. split; [exact R3|]. split; [exact R4|]. split; [|exact R5].
  intros k Hne.
  assert (declared_ok (w_opts w2) (sri_of hash (w_algo w2) (w_data w2)) = Some (sri_of hash a data)) as Hd
    by (unfold declared_ok; rewrite Ho2, Hns, Ha2, Hd2; reflexivity).
  destruct (commit_keyed_accepted f2 w2 now key _ Hw2 Hi2 Hk2 Hd) as [_ [_ [Habs _]]];
    try (rewrite ?Ho2, ?Hd2, ?Ha2; try assumption; apply parse_entry_computed; exact HL).
  rewrite Habs. assert (bytes_eqb k key = false) as -> by (apply bytes_eqb_neq; exact Hne).
  rewrite (abs_idx_frame f1 f2).
  - apply abs_idx_frame. intros l Hl. apply Hfr1. intro. eapply index_not_tmp; eauto.
  - intros l Hl. apply Hfr2. destruct Hw1 as [[n Hn] _]. intro E. eapply index_not_tmp; [exact Hl|right; exists n; congruence].
Qed.

Theorem stream_write_by_hash_roundtrip f fl o cs now :
  CacheInv f -> o_sri o = None -> size_ok o (lenN (List.concat cs)) = true ->
  let data := List.concat cs in let a := algo_of o in
  let f' := snd (run (stream_write fl None o cs now) f) in
  fst (run (stream_write fl None o cs now) f) = Ok (sri_of hash a data) /\
  CacheInv f' /\
  run (read_hash hash (sri_of hash a data)) f' = (Ok data, f') /\
  (forall k, abs_idx hash f' k = abs_idx hash f k).
Proof.
  intros Hinv Hns Hs data a. cbv zeta. unfold stream_write.
  destruct (open_writer_inv f fl None o Hinv) as [w [f1 [Hr1 [Hw1 [Hi1 [Hd1 [Hk1 [Ho1 [Ha1 [Hfr1 _]]]]]]]]]].
  rewrite (run_rbind_ok _ _ _ _ _ Hr1).
  destruct (write_chunks_inv f1 w cs Hw1 Hi1) as [w2 [f2 [Hr2 [Hw2 [Hi2 [[S1 [S2 [S3 S4]]] [Hd2 Hfr2]]]]]]].
  rewrite (run_rbind_ok _ _ _ _ _ Hr2).
  rewrite Hd1 in Hd2. cbn [app] in Hd2.
  assert (w_key w2 = None) as Hk2 by congruence.
  assert (w_opts w2 = o) as Ho2 by congruence.
  assert (w_algo w2 = a) as Ha2 by (unfold a, algo_of; congruence).
  destruct (commit_by_hash_roundtrip f2 w2 now Hw2 Hi2 Hk2) as [R1 [R2 [R3 R4]]];
    try (rewrite ?Ho2, ?Hd2, ?Ha2; assumption).
  rewrite Hd2, Ha2 in *. fold data in R1, R3 |- *.
  split; [exact R1|]. split; [exact R2|]. split; [exact R3|].
  intros k. rewrite R4. rewrite (abs_idx_frame f1 f2).
  - apply abs_idx_frame. intros l Hl. apply Hfr1. intro. eapply index_not_tmp; eauto.
  - intros l Hl. apply Hfr2. destruct Hw1 as [[n Hn] _]. intro E. eapply index_not_tmp; [exact Hl|right; exists n; congruence].
Qed.

(* the one-shot entry points are streamed writes with zero or one chunk *)
Lemma oneshot_stream fl key o data now f :
  CacheInv f ->
  run (oneshot hash fl key o data now) f
  = run (stream_write fl key o (match data with [] => [] | _ => [data] end) now) f.
Proof.
  intros Hinv. unfold oneshot, stream_write.
  destruct (open_writer_inv f fl key o Hinv) as [w [f1 [Hr1 [Hw1 [Hi1 _]]]]].
  rewrite !(run_rbind_ok _ _ _ _ _ Hr1).
  destruct data as [|x data]; [cbn [write_chunks]; unfold rbind at 1; rewrite run_bind; reflexivity|].
  cbn [write_chunks].
  destruct (write_chunk_inv f1 w (x :: data) Hw1 Hi1) as [w2 [f2 [Hr2 _]]].
  rewrite run_bind, Hr2. unfold rbind at 1. rewrite run_bind. unfold rbind at 1. rewrite run_bind, Hr2. reflexivity.
Qed.

(* ---------- the public one-shot calls ---------- *)
Lemma concat_oneshot (data : bytes) : List.concat (match data with [] => [] | _ => [data] end) = data.
Proof. destruct data; [reflexivity|]. cbn [List.concat]. apply app_nil_r. Qed.

Theorem write_roundtrip f fl a key data now :
  CacheInv f ->
  wf_rec hash (smeta_of key (commit_opts (write_opts fl a data) (sri_of hash a data) (lenN data)) now) ->
  let f' := snd (run (write hash fl a key data now) f) in
  fst (run (write hash fl a key data now) f) = Ok (sri_of hash a data) /\
  CacheInv f' /\
  run (read hash key) f' = (Ok data, f') /\
  run (read_hash hash (sri_of hash a data)) f' = (Ok data, f') /\
  (forall k, k <> key -> abs_idx hash f' k = abs_idx hash f k) /\
  exists m, run (find hash key) f' = (Ok (Some m), f') /\ m_key m = key /\ m_sri m = sri_of hash a data /\
            m_size m = lenN data /\ m_time m = now /\ m_metadata m = JNull /\ m_raw m = None.
Proof.
  intros Hinv Hwf. cbv zeta. unfold write. rewrite (oneshot_stream _ _ _ _ _ _ Hinv).
  pose proof (stream_write_keyed_roundtrip f fl key (write_opts fl a data) (match data with [] => [] | _ => [data] end) now Hinv) as H.
  rewrite concat_oneshot in H. cbv zeta in H.
  assert (algo_of (write_opts fl a data) = a) as Ea by (destruct fl; reflexivity).
  rewrite Ea in H.
  destruct H as [R1 [R2 [R3 [R4 [R5 [m [M1 [M2 [M3 [M4 [M5 [M6 M7]]]]]]]]]]]].
  - destruct fl; reflexivity.
  - destruct fl; unfold size_ok; cbn [write_opts o_size]; [reflexivity|apply N.eqb_refl].
  - exact Hwf.
  - split; [exact R1|]. split; [exact R2|]. split; [exact R3|]. split; [exact R4|]. split; [exact R5|].
    exists m. split; [exact M1|]. split; [exact M2|]. split; [exact M3|].
    split; [rewrite M4; destruct fl; reflexivity|]. split; [rewrite M5; destruct fl; reflexivity|].
    split; [rewrite M6; destruct fl; reflexivity|rewrite M7; destruct fl; reflexivity].
Qed.

(* ... and the data sits, as a regular file, at the path of its digest *)
Theorem stream_write_keyed_stored f fl key o cs now :
  CacheInv f -> o_sri o = None -> size_ok o (lenN (List.concat cs)) = true ->
  let data := List.concat cs in let a := algo_of o in
  wf_rec hash (smeta_of key (commit_opts o (sri_of hash a data) (lenN data)) now) ->
  lookup (snd (run (stream_write fl (Some key) o cs now) f)) (InCache (cpath hash a data)) = Some (File data).
Proof.
  intros Hinv Hns Hs data a Hwf. unfold stream_write.
  destruct (open_writer_inv f fl (Some key) o Hinv) as [w [f1 [Hr1 [Hw1 [Hi1 [Hd1 [Hk1 [Ho1 [Ha1 [Hfr1 _]]]]]]]]]].
  rewrite (run_rbind_ok _ _ _ _ _ Hr1).
  destruct (write_chunks_inv f1 w cs Hw1 Hi1) as [w2 [f2 [Hr2 [Hw2 [Hi2 [[S1 [S2 [S3 S4]]] [Hd2 Hfr2]]]]]]].
  rewrite (run_rbind_ok _ _ _ _ _ Hr2).
  rewrite Hd1 in Hd2. cbn [app] in Hd2.
  assert (w_key w2 = Some key) as Hk2 by congruence.
  assert (w_opts w2 = o) as Ho2 by congruence.
  assert (w_algo w2 = a) as Ha2 by (unfold a, algo_of; congruence).
  assert (declared_ok (w_opts w2) (sri_of hash (w_algo w2) (w_data w2)) = Some (sri_of hash a data)) as Hd
    by (unfold declared_ok; rewrite Ho2, Hns, Ha2, Hd2; reflexivity).
  destruct (commit_keyed_accepted f2 w2 now key _ Hw2 Hi2 Hk2 Hd) as [_ [_ [_ [Hcp _]]]];
    try (rewrite ?Ho2, ?Hd2, ?Ha2; try assumption; apply parse_entry_computed; exact HL).
  rewrite Ha2, Hd2 in Hcp. exact Hcp.
Qed.

Theorem write_stored f fl a key data now :
  CacheInv f ->
  wf_rec hash (smeta_of key (commit_opts (write_opts fl a data) (sri_of hash a data) (lenN data)) now) ->
  lookup (snd (run (write hash fl a key data now) f)) (InCache (cpath hash a data)) = Some (File data).
Proof.
  intros Hinv Hwf. unfold write. rewrite (oneshot_stream _ _ _ _ _ _ Hinv).
  pose proof (stream_write_keyed_stored f fl key (write_opts fl a data) (match data with [] => [] | _ => [data] end) now Hinv) as H.
  rewrite concat_oneshot in H. cbv zeta in H.
  assert (algo_of (write_opts fl a data) = a) as Ea by (destruct fl; reflexivity).
  rewrite Ea in H. apply H.
  - destruct fl; reflexivity.
  - destruct fl; unfold size_ok; cbn [write_opts o_size]; [reflexivity|apply N.eqb_refl].
  - exact Hwf.
Qed.

Theorem write_hash_roundtrip f fl a data :
  CacheInv f ->
  let f' := snd (run (write_hash hash fl a data) f) in
  fst (run (write_hash hash fl a data) f) = Ok (sri_of hash a data) /\
  CacheInv f' /\
  run (read_hash hash (sri_of hash a data)) f' = (Ok data, f') /\
  (forall k, abs_idx hash f' k = abs_idx hash f k).
Proof.
  intros Hinv. cbv zeta. unfold write_hash. rewrite (oneshot_stream _ _ _ _ _ _ Hinv).
  pose proof (stream_write_by_hash_roundtrip f fl (mkWopts (Some a) None (Some (lenN data)) None None None)
                (match data with [] => [] | _ => [data] end) 0 Hinv) as H.
  rewrite concat_oneshot in H. cbv zeta in H. apply H; [reflexivity|].
  unfold size_ok. cbn [o_size]. apply N.eqb_refl.
Qed.

Theorem stream_write_by_hash_stored f fl o cs now :
  CacheInv f -> o_sri o = None -> size_ok o (lenN (List.concat cs)) = true ->
  let data := List.concat cs in let a := algo_of o in
  lookup (snd (run (stream_write fl None o cs now) f)) (InCache (cpath hash a data)) = Some (File data).
Proof.
  intros Hinv Hns Hs data a. unfold stream_write.
  destruct (open_writer_inv f fl None o Hinv) as [w [f1 [Hr1 [Hw1 [Hi1 [Hd1 [Hk1 [Ho1 [Ha1 [Hfr1 _]]]]]]]]]].
  rewrite (run_rbind_ok _ _ _ _ _ Hr1).
  destruct (write_chunks_inv f1 w cs Hw1 Hi1) as [w2 [f2 [Hr2 [Hw2 [Hi2 [[S1 [S2 [S3 S4]]] [Hd2 Hfr2]]]]]]].
  rewrite (run_rbind_ok _ _ _ _ _ Hr2).
  rewrite Hd1 in Hd2. cbn [app] in Hd2.
  assert (w_key w2 = None) as Hk2 by congruence.
  assert (w_opts w2 = o) as Ho2 by congruence.
  assert (w_algo w2 = a) as Ha2 by (unfold a, algo_of; congruence).
  assert (declared_ok (w_opts w2) (sri_of hash (w_algo w2) (w_data w2)) = Some (sri_of hash (w_algo w2) (w_data w2))) as Hd
    by (unfold declared_ok; rewrite Ho2, Hns; reflexivity).
  assert (size_ok (w_opts w2) (lenN (w_data w2)) = true) as Hs2 by (rewrite Ho2, Hd2; exact Hs).
  rewrite (commit_by_hash_ok f2 w2 now Hw2 Hi2 _ Hd Hs2 Hk2).
  destruct (close_writer_inv f2 w2 Hw2 Hi2) as [f3 [Hclose [_ [Hcp _]]]].
  rewrite Hclose. cbn [fst snd]. rewrite Ha2, Hd2 in Hcp. exact Hcp.
Qed.

Theorem write_hash_stored f fl a data :
  CacheInv f -> lookup (snd (run (write_hash hash fl a data) f)) (InCache (cpath hash a data)) = Some (File data).
Proof.
  intros Hinv. unfold write_hash. rewrite (oneshot_stream _ _ _ _ _ _ Hinv).
  pose proof (stream_write_by_hash_stored f fl (mkWopts (Some a) None (Some (lenN data)) None None None)
                (match data with [] => [] | _ => [data] end) 0 Hinv) as H.
  rewrite concat_oneshot in H. cbv zeta in H. apply H; [reflexivity|].
  unfold size_ok. cbn [o_size]. apply N.eqb_refl.
Qed.

(* ---------- C14: what does NOT change a lookup ---------- *)
Theorem open_no_effect f fl key o :
  CacheInv f -> forall k, abs_idx hash (snd (run (open_writer fl key o) f)) k = abs_idx hash f k.
Proof.
  intros Hinv k. destruct (open_writer_inv f fl key o Hinv) as [w [f1 [Hr1 [_ [_ [_ [_ [_ [_ [Hfr1 _]]]]]]]]]].
  rewrite Hr1. cbn [snd]. apply abs_idx_frame. intros l Hl. apply Hfr1. intro. eapply index_not_tmp; eauto.
Qed.

Theorem chunk_no_effect f w s :
  WInv f w -> forall l, l <> w_tmp w -> lookup (snd (run (write_chunk w s) f)) l = lookup f l.
Proof.
  intros Hw l Hl. destruct (write_chunk_ok hash f w s Hw) as [w' [f' [Hr [_ [_ [_ Hfr]]]]]]. rewrite Hr. cbn [snd].
  apply Hfr. exact Hl.
Qed.

Theorem drop_no_trace f w :
  WInv f w ->
  lookup (snd (run (drop_writer w) f)) (w_tmp w) = None /\
  forall l, l <> w_tmp w -> lookup (snd (run (drop_writer w) f)) l = lookup f l.
Proof.
  intros Hw. destruct (drop_writer_ok f w Hw) as [f' [Hr [H1 H2]]]. rewrite Hr. cbn [snd]. auto.
Qed.

(* ---------- C16 ---------- *)
Lemma algo_name_inj a b : algo_name a = algo_name b -> a = b.
Proof. destruct a, b; intros H; try reflexivity; vm_compute in H; discriminate. Qed.

Theorem algos_disjoint a1 d1 a2 d2 : a1 <> a2 -> cpath hash a1 d1 <> cpath hash a2 d2.
Proof. intros Hne E. unfold cpath in E. injection E as H1 _ _. apply Hne. apply algo_name_inj. exact H1. Qed.

(* re-storing bytes whose address already exists: the stored copy stays byte-identical, no other content
   file appears or changes *)
Theorem restore_idempotent f w :
  WInv f w -> CacheInv f ->
  lookup f (InCache (cpath hash (w_algo w) (w_data w))) = Some (File (w_data w)) ->
  forall l, is_content l ->
    lookup (snd (run (close_writer hash w) f)) l = lookup f l \/
    (lookup f l = None /\ lookup (snd (run (close_writer hash w) f)) l = Some Dir).
Proof.
  intros Hw Hinv Hpre l Hl.
  destruct (close_writer_inv f w Hw Hinv) as [f1 [Hclose [_ [Hcp [_ [_ Hfrc]]]]]]. rewrite Hclose. cbn [snd].
  destruct (loc_eq_dec l (InCache (cpath hash (w_algo w) (w_data w)))) as [->|Hne].
  - left. rewrite Hcp, Hpre. reflexivity.
  - apply Hfrc; assumption.
Qed.

End C.
