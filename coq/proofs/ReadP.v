(* ReadP.v — checked retrievals and extractions on an ARBITRARY tree (arbitrary = every damage pattern). *)
From CC Require Import Bytes Codec Utf8 Lines Json Sri Record Fs Prog Api BytesP FsP ProgP.
From Coq Require Import Lia.

Section R.
Variable hash : algo -> bytes -> bytes.

(* "d carries the digest that address i asks for" *)
Definition digest_ok (i : integrity) (d : bytes) : Prop := sri_check hash i d = Some true.

Lemma exec_readfile_fs f l : snd (exec (ReadFile l) f) = f.
Proof. unfold exec. destruct (resolve f l) as [[d| |t]|]; reflexivity. Qed.

Lemma exec_readfile_ok f l d : fst (exec (ReadFile l) f) = RBytes d -> resolve f l = Some (File d).
Proof. unfold exec. destruct (resolve f l) as [[d'| |t]|]; cbn; intros H; try discriminate. inversion H. reflexivity. Qed.

Lemma read_file_run f l :
  snd (run (read_file l) f) = f /\
  (forall d, fst (run (read_file l) f) = Ok d -> resolve f l = Some (File d)) /\
  (forall e, fst (run (read_file l) f) = Err e -> e = EIoErr /\ forall d, resolve f l <> Some (File d)) /\
  fst (run (read_file l) f) <> Panic /\ fst (run (read_file l) f) <> Hang /\ fst (run (read_file l) f) <> Stuck.
Proof.
  unfold read_file. cbn [run]. unfold exec.
  destruct (resolve f l) as [[d'| |t]|] eqn:Er; cbn [run fst snd].
  - split; [reflexivity|]. split; [intros d H; inversion H; reflexivity|]. split; [discriminate|].
    repeat split; discriminate.
  - split; [reflexivity|]. split; [discriminate|].
    split; [intros e H; inversion H; split; [reflexivity|intros d; discriminate]|]. repeat split; discriminate.
  - split; [reflexivity|]. split; [discriminate|].
    split; [intros e H; inversion H; split; [reflexivity|intros d; discriminate]|]. repeat split; discriminate.
  - split; [reflexivity|]. split; [discriminate|].
    split; [intros e H; inversion H; split; [reflexivity|intros d; discriminate]|]. repeat split; discriminate.
Qed.

Lemma check_res_ok i d : check_res hash i d = Ok tt <-> digest_ok i d.
Proof.
  unfold check_res, digest_ok. destruct (sri_check hash i d) as [[|]|]; split; intros H; try reflexivity; try discriminate.
Qed.

(* ---------- read_hash ---------- *)
Theorem read_hash_sound f i :
  snd (run (read_hash hash i) f) = f /\
  forall d, fst (run (read_hash hash i) f) = Ok d ->
    digest_ok i d /\ exists cp, content_path i = Some cp /\ resolve f (InCache cp) = Some (File d).
Proof.
  unfold read_hash, with_cpath. destruct (content_path i) as [cp|] eqn:Ecp; [|split; [reflexivity|discriminate]].
  unfold rbind. rewrite run_bind.
  destruct (read_file_run f (InCache cp)) as [Hfs [Hok _]].
  destruct (run (read_file (InCache cp)) f) as [r f1]. cbn [fst snd] in *. subst f1.
  destruct r as [d| | | |]; cbn [run]; try (split; [reflexivity|discriminate]).
  destruct (check_res hash i d) as [[]| | | |] eqn:Ec; cbn [run lift_err fst snd]; split; try reflexivity; try discriminate.
  intros d' H. inversion H; subst d'. split; [apply check_res_ok; exact Ec|].
  exists cp. split; [reflexivity|apply Hok; reflexivity].
Qed.

(* ---------- by key: whatever [find] returns, the bytes delivered match that entry's address ---------- *)
Lemma bucket_entries_fs f b : snd (run (bucket_entries hash b) f) = f.
Proof.
  unfold bucket_entries. cbn [run]. pose proof (exec_readfile_fs f b) as H.
  destruct (exec (ReadFile b) f) as [r f1]. cbn [snd] in H. subst.
  destruct r as [| | | | | |[]]; reflexivity.
Qed.

Lemma find_fs f key : snd (run (find hash key) f) = f.
Proof.
  unfold find, rbind. rewrite run_bind. pose proof (bucket_entries_fs f (InCache (bucket_path hash key))) as H.
  destruct (run (bucket_entries hash (InCache (bucket_path hash key))) f) as [r f1]. cbn [snd] in H. subst.
  destruct r; reflexivity.
Qed.

Lemma by_key_run {A} f key (k : integrity -> prog (res A)) :
  (exists m, fst (run (find hash key) f) = Ok (Some m) /\ run (by_key hash key k) f = run (k (m_sri m)) f) \/
  (fst (run (find hash key) f) = Ok None /\ run (by_key hash key k) f = (Err ENotFound, f)) \/
  (exists r, run (by_key hash key k) f = (r, f) /\ (forall a, r <> Ok a) /\ fst (run (find hash key) f) = lift_err r
             /\ forall o, fst (run (find hash key) f) <> Ok o).
Proof.
  unfold by_key, rbind. rewrite run_bind. pose proof (find_fs f key) as Hfs.
  destruct (run (find hash key) f) as [r f1]. cbn [snd fst] in *. subst f1.
  destruct r as [[m|]| | | |].
  - left. exists m. split; reflexivity.
  - right. left. split; reflexivity.
  - right. right. exists (Err e). cbn. repeat split; intros; discriminate.
  - right. right. exists Panic. cbn. repeat split; intros; discriminate.
  - right. right. exists Hang. cbn. repeat split; intros; discriminate.
  - right. right. exists Stuck. cbn. repeat split; intros; discriminate.
Qed.

Theorem read_sound f key :
  snd (run (read hash key) f) = f /\
  forall d, fst (run (read hash key) f) = Ok d ->
    exists m, fst (run (find hash key) f) = Ok (Some m) /\ digest_ok (m_sri m) d.
Proof.
  unfold read. destruct (by_key_run f key (read_hash hash)) as [[m [Hf Hr]]|[[Hf Hr]|[r [Hr [Hn _]]]]]; rewrite Hr.
  - destruct (read_hash_sound f (m_sri m)) as [Hfs Hok]. split; [exact Hfs|].
    intros d Hd. exists m. split; [exact Hf|]. apply (Hok d Hd).
  - split; [reflexivity|discriminate].
  - split; [reflexivity|]. intros d Hd. cbn in Hd. subst. exfalso. apply (Hn d). reflexivity.
Qed.

(* ---------- streamed reader ---------- *)
Fixpoint rchunks (r : rstate) (ns : list N) : list bytes * rstate :=
  match ns with
  | [] => ([], r)
  | n :: t => let '(c, r1) := rchunk r n in let '(cs, r2) := rchunks r1 t in (c :: cs, r2)
  end.

Lemma rchunks_seen r ns :
  r_seen (snd (rchunks r ns)) = r_seen r ++ List.concat (fst (rchunks r ns)) /\ r_sri (snd (rchunks r ns)) = r_sri r.
Proof.
  revert r. induction ns as [|n ns IH]; intros r; cbn [rchunks].
  - cbn. rewrite app_nil_r. auto.
  - destruct (rchunk r n) as [c r1] eqn:E1. destruct (rchunks r1 ns) as [cs r2] eqn:E2. cbn [fst snd List.concat].
    specialize (IH r1). rewrite E2 in IH. cbn [fst snd] in IH. destruct IH as [IH1 IH2].
    unfold rchunk in E1. inversion E1; subst. cbn [r_seen r_sri] in *. rewrite IH1, IH2, <- app_assoc. auto.
Qed.

(* a successful final check vouches for exactly the bytes that were delivered, however the buffer sizes
   were chosen (so stopping early can only make the check fail) *)
Theorem reader_sound f i ns r :
  fst (run (ropen_hash i) f) = Ok r ->
  forall a, rcheck hash (snd (rchunks r ns)) = Ok a -> digest_ok i (List.concat (fst (rchunks r ns))).
Proof.
  intros Hopen a Hc.
  assert (r_sri r = i /\ r_seen r = []) as [Hi Hs].
  { unfold ropen_hash, with_cpath in Hopen. destruct (content_path i); [|discriminate].
    unfold rbind in Hopen. rewrite run_bind in Hopen.
    destruct (run (read_file (InCache p)) f) as [x f1]. destruct x; cbn in Hopen; try discriminate.
    inversion Hopen; subst. auto. }
  destruct (rchunks_seen r ns) as [H1 H2]. unfold rcheck in Hc. rewrite H1, H2, Hs, Hi in Hc. cbn [app] in Hc.
  destruct (check_res hash i (List.concat (fst (rchunks r ns)))) as [[]| | | |] eqn:E; cbn in Hc; try discriminate.
  apply check_res_ok. exact E.
Qed.

(* ---------- extraction ---------- *)
Lemma verify_run f i cp :
  snd (run (verify hash i cp) f) = f /\
  (forall n, fst (run (verify hash i cp) f) = Ok n ->
     exists d, resolve f cp = Some (File d) /\ digest_ok i d /\ n = lenN d) /\
  (forall e, fst (run (verify hash i cp) f) = Err e -> e = EIoErr \/ e = EIntegrity).
Proof.
  unfold verify, rbind. rewrite run_bind.
  destruct (read_file_run f cp) as [Hfs [Hok [Herr _]]].
  destruct (run (read_file cp) f) as [r f1]. cbn [fst snd] in *. subst f1.
  destruct r as [d| | | |]; cbn [run fst snd].
  - destruct (check_res hash i d) as [[]| | | |] eqn:Ec; cbn [run lift_err fst snd].
    + split; [reflexivity|]. split; [|discriminate]. intros n H. inversion H; subst. exists d.
      split; [apply Hok; reflexivity|]. split; [apply check_res_ok; exact Ec|reflexivity].
    + split; [reflexivity|]. split; [discriminate|]. intros e' H. inversion H; subst.
      unfold check_res in Ec. destruct (sri_check hash i d) as [[|]|]; inversion Ec. right. reflexivity.
    + split; [reflexivity|]. split; discriminate.
    + split; [reflexivity|]. split; discriminate.
    + split; [reflexivity|]. split; discriminate.
  - split; [reflexivity|]. split; [discriminate|]. intros e' H. inversion H; subst. left. apply (Herr e'). reflexivity.
  - split; [reflexivity|]. split; discriminate.
  - split; [reflexivity|]. split; discriminate.
  - split; [reflexivity|]. split; discriminate.
Qed.

(* the filesystem effect of the copying / linking step itself *)
Lemma xstep_run f x cp dst :
  (fst (run (xstep x cp dst) f) = Err EIoErr /\ snd (run (xstep x cp dst) f) = f) \/
  (exists n, fst (run (xstep x cp dst) f) = Ok n /\
     match x with
     | XCopy => exists d, resolve f cp = Some (File d) /\ n = lenN d /\
                          snd (run (xstep x cp dst) f) = update f dst (File d)
     | XHardLink => exists nd, lookup f cp = Some nd /\ nd <> Dir /\ lookup f dst = None /\
                               snd (run (xstep x cp dst) f) = update f dst nd
     | XReflink => False
     end).
Proof.
  unfold xstep. cbn [run]. destruct x; unfold exec.
  - destruct (resolve f cp) as [[d| |t]|] eqn:Er; try (left; split; reflexivity).
    destruct (lookup f dst) as [[d'| |t']|]; try (left; split; reflexivity);
    destruct (parent_ok f dst); try (left; split; reflexivity);
    right; exists (lenN d); (split; [reflexivity|]); exists d; auto.
  - destruct (lookup f cp) as [[d| |t]|] eqn:El; try (left; split; reflexivity);
    destruct (lookup f dst) as [nd'|] eqn:Ed; try (left; split; reflexivity);
    destruct (parent_ok f dst); try (left; split; reflexivity).
    + right. exists 0%N. split; [reflexivity|]. exists (File d). repeat split; auto; discriminate.
    + right. exists 0%N. split; [reflexivity|]. exists (Symlink t). repeat split; auto; discriminate.
  - destruct (resolve f cp) as [[d| |t]|]; left; split; reflexivity.
Qed.

(* checked extraction by address *)
Theorem extract_hash_checked f x i dst :
  forall n, fst (run (extract_hash hash x true i dst) f) = Ok n ->
    exists cp d, content_path i = Some cp /\ resolve f (InCache cp) = Some (File d) /\ digest_ok i d /\ n = lenN d /\
      match x with
      | XCopy => snd (run (extract_hash hash x true i dst) f) = update f dst (File d)
      | XHardLink => exists nd, lookup f (InCache cp) = Some nd /\ lookup f dst = None /\
                                snd (run (extract_hash hash x true i dst) f) = update f dst nd
      | XReflink => False
      end.
Proof.
  intros n. unfold extract_hash, with_cpath. destruct (content_path i) as [cp|] eqn:Ecp; [|discriminate].
  unfold rbind. rewrite run_bind.
  destruct (verify_run f i (InCache cp)) as [Hfs [Hok _]].
  destruct (run (verify hash i (InCache cp)) f) as [r f1]. cbn [fst snd] in *. subst f1.
  destruct r as [n0| | | |]; cbn [run]; try discriminate.
  destruct (Hok n0 eq_refl) as [d [Hr [Hd Hn]]].
  rewrite run_bind.
  destruct (xstep_run f x (InCache cp) dst) as [[He Hs]|[m [Hm Hx]]];
  destruct (run (xstep x (InCache cp) dst) f) as [r2 f2]; cbn [fst snd] in *; subst.
  - discriminate.
  - cbn [run fst snd]. intros H. inversion H; subst n. exists cp, d. repeat split; auto.
    destruct x.
    + destruct Hx as [d' [Hr' [_ Hf]]]. assert (d' = d) by congruence. subst d'. exact Hf.
    + destruct Hx as [nd [Hl [_ [Hn Hf]]]]. exists nd. auto.
    + exact Hx.
Qed.

(* a failed verification leaves the whole tree — in particular the destination — exactly as it was *)
Theorem extract_hash_checked_fail f x i dst e :
  fst (run (extract_hash hash x true i dst) f) = Err e -> e = EIntegrity ->
  snd (run (extract_hash hash x true i dst) f) = f.
Proof.
  unfold extract_hash, with_cpath. destruct (content_path i) as [cp|] eqn:Ecp; [|discriminate].
  unfold rbind. rewrite run_bind.
  destruct (verify_run f i (InCache cp)) as [Hfs _].
  destruct (run (verify hash i (InCache cp)) f) as [r f1]. cbn [fst snd] in *. subst f1.
  destruct r as [n0| | | |]; cbn [run fst snd]; try reflexivity; try discriminate.
  rewrite run_bind.
  destruct (xstep_run f x (InCache cp) dst) as [[He Hs]|[m [Hm Hx]]];
  destruct (run (xstep x (InCache cp) dst) f) as [r2 f2]; cbn [fst snd] in *; subst; cbn [run fst snd].
  - intros H1 H2. inversion H1. subst. discriminate.
  - discriminate.
Qed.

(* unchecked extraction: exactly the stored bytes *)
Theorem extract_hash_unchecked f x i dst n :
  fst (run (extract_hash hash x false i dst) f) = Ok n ->
  exists cp, content_path i = Some cp /\
    match x with
    | XCopy => exists d, resolve f (InCache cp) = Some (File d) /\ n = lenN d /\
                         snd (run (extract_hash hash x false i dst) f) = update f dst (File d)
    | XHardLink => exists nd, lookup f (InCache cp) = Some nd /\ lookup f dst = None /\
                              snd (run (extract_hash hash x false i dst) f) = update f dst nd
    | XReflink => False
    end.
Proof.
  unfold extract_hash, with_cpath. destruct (content_path i) as [cp|] eqn:Ecp; [|discriminate].
  destruct (xstep_run f x (InCache cp) dst) as [[He Hs]|[m [Hm Hx]]].
  - rewrite He. discriminate.
  - rewrite Hm. intros H. inversion H; subst m. exists cp. split; [reflexivity|].
    destruct x.
    + destruct Hx as [d [Hr [Hn Hf]]]. exists d. auto.
    + destruct Hx as [nd [Hl [_ [Hn Hf]]]]. exists nd. auto.
    + exact Hx.
Qed.

(* missing key: not-found and nothing touched; missing content: I/O error and nothing touched *)
Theorem extract_missing_key f x checked key dst :
  fst (run (find hash key) f) = Ok None ->
  run (extract hash x checked key dst) f = (Err ENotFound, f).
Proof.
  intros H. unfold extract. destruct (by_key_run f key (fun i => extract_hash hash x checked i dst)) as [[m [Hf _]]|[[_ Hr]|[r [_ [_ [_ Hn]]]]]].
  - rewrite H in Hf. discriminate.
  - exact Hr.
  - exfalso. apply (Hn None). exact H.
Qed.

Theorem extract_missing_content f x checked i dst cp :
  content_path i = Some cp -> resolve f (InCache cp) = None -> lookup f (InCache cp) = None ->
  run (extract_hash hash x checked i dst) f = (Err EIoErr, f).
Proof.
  intros Hcp Hr Hl. unfold extract_hash, with_cpath. rewrite Hcp.
  assert (run (xstep x (InCache cp) dst) f = (Err EIoErr, f)) as Hx.
  { unfold xstep. cbn [run]. destruct x; unfold exec; rewrite ?Hr, ?Hl; reflexivity. }
  destruct checked; [|exact Hx].
  unfold rbind. rewrite run_bind. unfold verify, rbind. rewrite run_bind. unfold read_file. cbn [run].
  unfold exec. rewrite Hr. reflexivity.
Qed.

End R.
