(* BytesP.v — basic facts about byte strings, equality tests and [split]. *)
From CC Require Import Bytes.
From Coq Require Import Lia.

Lemma byte_eqb_refl b : Byte.eqb b b = true.
Proof. apply Byte.byte_dec_lb. reflexivity. Qed.

Lemma byte_eqb_eq a b : Byte.eqb a b = true <-> a = b.
Proof. split; [apply Byte.byte_dec_bl | intros ->; apply byte_eqb_refl]. Qed.

Lemma byte_eqb_neq a b : Byte.eqb a b = false <-> a <> b.
Proof.
  split.
  - intros H E. subst. rewrite byte_eqb_refl in H. discriminate.
  - intros H. destruct (Byte.eqb a b) eqn:E; [|reflexivity]. apply byte_eqb_eq in E. contradiction.
Qed.

Lemma bytes_eqb_eq a b : bytes_eqb a b = true <-> a = b.
Proof.
  revert b. induction a as [|x a IH]; intros [|y b]; simpl; split; intros H; try reflexivity; try discriminate.
  - apply andb_true_iff in H as [H1 H2]. apply byte_eqb_eq in H1. apply IH in H2. congruence.
  - inversion H; subst. rewrite byte_eqb_refl. simpl. apply IH. reflexivity.
Qed.

Lemma bytes_eqb_refl a : bytes_eqb a a = true.
Proof. apply bytes_eqb_eq. reflexivity. Qed.

Lemma bytes_eqb_neq a b : bytes_eqb a b = false <-> a <> b.
Proof.
  split.
  - intros H E. subst. rewrite bytes_eqb_refl in H. discriminate.
  - intros H. destruct (bytes_eqb a b) eqn:E; [|reflexivity]. apply bytes_eqb_eq in E. contradiction.
Qed.

Lemma bytes_eqb_spec a b : reflect (a = b) (bytes_eqb a b).
Proof. destruct (bytes_eqb a b) eqn:E; constructor; [apply bytes_eqb_eq|apply bytes_eqb_neq]; exact E. Qed.

Lemma list_eqb_eq {A} (eqb : A -> A -> bool) :
  (forall x y, eqb x y = true <-> x = y) -> forall a b, list_eqb eqb a b = true <-> a = b.
Proof.
  intros Hspec a. induction a as [|x a IH]; intros [|y b]; simpl; split; intros H; try reflexivity; try discriminate.
  - apply andb_true_iff in H as [H1 H2]. apply Hspec in H1. apply IH in H2. congruence.
  - inversion H; subst. apply andb_true_iff. split; [apply Hspec; reflexivity | apply IH; reflexivity].
Qed.

(* ---- split ---- *)
Lemma split_nonempty sep l : split sep l <> [].
Proof.
  destruct l as [|b t]; simpl; [discriminate|].
  destruct (Byte.eqb b sep); [discriminate|]. destruct (split sep t); discriminate.
Qed.

Lemma split_app_sep sep a b : split sep (a ++ sep :: b) = split sep a ++ split sep b.
Proof.
  induction a as [|x a IH]; simpl.
  - rewrite byte_eqb_refl. reflexivity.
  - destruct (Byte.eqb x sep) eqn:E.
    + rewrite IH. reflexivity.
    + rewrite IH. destruct (split sep a) as [|s ss] eqn:Es.
      * exfalso. eapply split_nonempty; eauto.
      * reflexivity.
Qed.

Lemma split_no_sep sep l : (forall b, In b l -> Byte.eqb b sep = false) -> split sep l = [l].
Proof.
  induction l as [|x l IH]; intros H; simpl; [reflexivity|].
  rewrite (H x (or_introl eq_refl)). rewrite IH; [reflexivity|]. intros; apply H; right; auto.
Qed.

Lemma split_two sep a b :
  (forall x, In x a -> Byte.eqb x sep = false) -> (forall x, In x b -> Byte.eqb x sep = false) ->
  split sep (a ++ sep :: b) = [a; b].
Proof. intros Ha Hb. rewrite split_app_sep, (split_no_sep sep a Ha), (split_no_sep sep b Hb). reflexivity. Qed.

(* ---- N-indexed list functions are the nat-indexed ones ---- *)
Lemma lenN_of_nat (l : bytes) : lenN l = N.of_nat (List.length l).
Proof. induction l as [|x l IH]; [reflexivity|]. cbn [lenN List.length]. rewrite IH. lia. Qed.

Lemma takeN_firstn {A} (n : N) (l : list A) : takeN n l = firstn (N.to_nat n) l.
Proof.
  revert n. induction l as [|x l IH]; intros n; [destruct (N.to_nat n); reflexivity|].
  cbn [takeN]. destruct (N.eqb n 0) eqn:E.
  - apply N.eqb_eq in E. subst. reflexivity.
  - apply N.eqb_neq in E. rewrite IH. replace (N.to_nat n) with (S (N.to_nat (N.pred n))) by lia. reflexivity.
Qed.

Lemma dropN_skipn {A} (n : N) (l : list A) : dropN n l = skipn (N.to_nat n) l.
Proof.
  revert n. induction l as [|x l IH]; intros n; [destruct (N.to_nat n); reflexivity|].
  cbn [dropN]. destruct (N.eqb n 0) eqn:E.
  - apply N.eqb_eq in E. subst. reflexivity.
  - apply N.eqb_neq in E. rewrite IH. replace (N.to_nat n) with (S (N.to_nat (N.pred n))) by lia. reflexivity.
Qed.

Lemma lenN_app (a b : bytes) : lenN (a ++ b) = (lenN a + lenN b)%N.
Proof. rewrite !lenN_of_nat, app_length. lia. Qed.

Lemma takeN_all (l : bytes) : takeN (lenN l) l = l.
Proof. rewrite takeN_firstn, lenN_of_nat, Nat2N.id. apply firstn_all. Qed.

Lemma takeN_app_exact (a b : bytes) : takeN (lenN a) (a ++ b) = a.
Proof.
  rewrite takeN_firstn, lenN_of_nat, Nat2N.id. rewrite firstn_app, Nat.sub_diag, firstn_all. cbn. apply app_nil_r.
Qed.

Lemma take_drop_N {A} n (l : list A) : takeN n l ++ dropN n l = l.
Proof. rewrite takeN_firstn, dropN_skipn. apply firstn_skipn. Qed.

Lemma lenN_takeN (n : N) (l : bytes) : (n <= lenN l)%N -> lenN (takeN n l) = n.
Proof. intros H. rewrite lenN_of_nat in *. rewrite takeN_firstn, firstn_length. lia. Qed.

Lemma lenN_dropN (n : N) (l : bytes) : lenN (dropN n l) = (lenN l - n)%N.
Proof. rewrite !lenN_of_nat, dropN_skipn, skipn_length. lia. Qed.
