(* KeepP.v — stored copies stay (C16 "leaves the stored copy byte-identical", C04/C14 "every other key keeps its value", the
   content half): at EVERY crash state of every write — one-shot, streamed, keyed or by address, re-writing the same bytes or
   writing others — a content file that was there is still there with the same bytes.  The only step of a write that names
   a content location at all is the publishing rename, and it renames a temp file that holds exactly the hashed bytes. *)
From CC Require Import Bytes Codec Utf8 Lines Json Sri Record Fs Prog Api Crash
  BytesP CodecP FsP ProgP SriP RecordP IndexP ReadP WriteP CommitP RemoveP CrashP CrashIdxP.
From Coq Require Import Lia.
Local Open Scope N_scope.

Section Keep.
Variable hash : algo -> bytes -> bytes.
Hypothesis HL : HashLen hash.

(* a step keeps the file [d] at [l]: it does not name [l] at all, or it renames a file with the same bytes over it
   (creating a fresh temp file never names an existing location) *)
Definition ksafe (l : loc) (d : bytes) (c : sys) (f : fs) : Prop :=
  match c with
  | Rename src dst => src <> l /\ (dst = l -> lookup f src = Some (File d))
  | CreateTmp => True
  | _ => ~ may_touch c l
  end.
Definition ksafe' (l : loc) (c : sys) : Prop :=
  match c with Rename src dst => src <> l /\ dst <> l | _ => ~ may_touch c l end.
Lemma ksafe'_ksafe l d c f : ksafe' l c -> ksafe l d c f.
Proof. destruct c; cbn; auto. intros [H1 H2]. split; [exact H1|]. intros E. contradiction. Qed.

Lemma keep_createtmp l d f :
  lookup f l = Some (File d) -> lookup (snd (exec CreateTmp f)) l = Some (File d) /\ mid_states CreateTmp f = [].
Proof.
  intros Hl. split; [|reflexivity]. unfold exec. destruct (is_dir f tmp_dir); [|exact Hl]. cbn [snd].
  assert (InCache (tmp_dir ++ [fresh f]) <> l) as Hne.
  { intros E. pose proof (fresh_absent hash f) as Hf. rewrite E in Hf. congruence. }
  rewrite lookup_update_neq by congruence. exact Hl.
Qed.

Lemma keep_step l d c f :
  lookup f l = Some (File d) -> ksafe l d c f ->
  lookup (snd (exec c f)) l = Some (File d) /\ Forall (fun g => lookup g l = Some (File d)) (mid_states c f).
Proof.
  intros Hl Hs.
  assert (~ may_touch c l -> lookup (snd (exec c f)) l = Some (File d) /\ Forall (fun g => lookup g l = Some (File d)) (mid_states c f)) as Hfr.
  { intros Hn. destruct (exec_frame c f l Hn) as [H1 H2]. split; [rewrite H1; exact Hl|].
    eapply Forall_impl; [|exact H2]. cbn. intros g Hg. rewrite Hg. exact Hl. }
  destruct c; try (apply Hfr; exact Hs).
  { destruct (keep_createtmp l d f Hl) as [H1 H2]. rewrite H2. split; [exact H1|constructor]. }
  cbn [ksafe] in Hs. destruct Hs as [Hsrc Hdst].
  destruct (loc_eq_dec dst l) as [->|Hne].
  - specialize (Hdst eq_refl). split; [|constructor].
    unfold exec. rewrite Hdst. destruct (parent_ok f l); [|exact Hl]. rewrite Hl. cbn [snd]. apply lookup_update_eq.
  - apply Hfr. cbn [may_touch]. intros [E|E]; congruence.
Qed.

Theorem keep_crash {A} l d (p : prog A) f :
  lookup f l = Some (File d) -> steps_ok (ksafe l d) p f ->
  Forall (fun g => lookup g l = Some (File d)) (crash_states p f) /\ lookup (snd (run p f)) l = Some (File d).
Proof. apply (crash_invariant (fun g => lookup g l = Some (File d)) (ksafe l d)). intros c g. apply keep_step. Qed.

(* ---------- the steps of a write ---------- *)
(* a content file location: five components under content-v2 *)
Definition cfile (l : loc) : Prop := exists a d, l = InCache (cpath hash a d).

Lemma cfile_content l : cfile l -> is_content l.
Proof. intros [a [d ->]]. unfold cpath. eexists. reflexivity. Qed.
Lemma cfile_not_tmp l n : cfile l -> InCache (tmp_dir ++ [n]) <> l.
Proof. intros [a [d ->]]. apply tmp_not_content. Qed.
Lemma cfile_not_tmpdir_prefix l : cfile l -> ~ In l (map InCache (prefixes tmp_dir)).
Proof.
  intros [a [d ->]] H. apply in_map_iff in H as [q [E Hq]]. inversion E; subst q.
  apply prefixes_length in Hq. unfold cpath in Hq. cbn in Hq. lia.
Qed.
Lemma cfile_not_parent_prefix l a d : cfile l -> ~ In l (map InCache (prefixes (parent (cpath hash a d)))).
Proof.
  intros [a0 [d0 ->]] H. apply in_map_iff in H as [q [E Hq]]. inversion E; subst q.
  apply prefixes_length in Hq. unfold cpath in Hq. cbn in Hq. lia.
Qed.
Lemma cfile_not_index_prefix l p : cfile l -> ~ In l (map InCache (prefixes (index_dir :: p))).
Proof.
  intros [a [d ->]] H. apply in_map_iff in H as [q [E Hq]]. inversion E; subst q.
  unfold prefixes in Hq. cbn [prefixes_from app] in Hq. destruct Hq as [Hq|Hq].
  - unfold cpath in Hq. discriminate Hq.
  - apply prefixes_from_length in Hq as [_ [r [Hr _]]]. unfold cpath in Hr. cbn [app] in Hr. inversion Hr as [[H1 H2]]; try (vm_compute in H1; discriminate).
Qed.


Section L.
Variable l : loc.
Hypothesis Hl : cfile l.

Lemma k_unlink_quiet {A} n (r : res A) : all_steps (ksafe' l) (unlink_quiet (InCache (tmp_dir ++ [n])) r).
Proof. unfold unlink_quiet. cbn. split; [intros E; exact (cfile_not_tmp l n Hl (eq_sym E))|]. intros; exact I. Qed.

Lemma k_open_writer fl key o : all_steps (ksafe' l) (open_writer fl key o).
Proof.
  unfold open_writer. apply all_steps_rbind; [apply all_steps_step_ok; cbn [ksafe' may_touch]; apply cfile_not_tmpdir_prefix; exact Hl|intros _].
  cbn [all_steps]. split; [cbn [ksafe' may_touch]; intros [n E]; exact (cfile_not_tmp l n Hl (eq_sym E))|].
  intros r. destruct r; try exact I.
  destruct (content_size fl key o) as [sz|]; [|exact I]. destruct ((1 <=? sz) && (sz <=? max_mmap)); [|exact I].
  cbn [all_steps]. split.
  - cbn [ksafe' may_touch]. intros E. exact (cfile_not_tmp l n Hl (eq_sym E)).
  - intros r2. destruct r2; try exact I. apply k_unlink_quiet.
Qed.

Definition wtmp_is (w : wstate) : Prop := exists n, w_tmp w = InCache (tmp_dir ++ [n]).
Lemma WInv_wtmp_is f w : WInv f w -> wtmp_is w.
Proof. intros [[n Hn] _]. exists n. exact Hn. Qed.

Lemma k_write_chunk w d : wtmp_is w -> all_steps (ksafe' l) (write_chunk w d).
Proof.
  intros [n Hn]. assert (l <> w_tmp w) as Hne by (rewrite Hn; intros E; exact (cfile_not_tmp l n Hl (eq_sym E))).
  unfold write_chunk. destruct (w_map w) as [sz|].
  - destruct (w_pos w + lenN d <=? sz).
    + apply all_steps_rbind; [apply all_steps_step_ok; exact Hne|intros; exact I].
    + apply all_steps_rbind; [apply all_steps_step_ok; exact Hne|intros _].
      apply all_steps_rbind; [apply all_steps_step_ok; exact Hne|intros; exact I].
  - apply all_steps_rbind; [apply all_steps_step_ok; exact Hne|intros; exact I].
Qed.

Lemma k_insert key o now : all_steps (ksafe' l) (insert hash key o now).
Proof.
  destruct (bucket_path_shape hash key) as [a [b [c Hb]]].
  assert (l <> InCache (bucket_path hash key)) as Hne.
  { intros E. apply (index_not_content l); [exists [a; b; c]; rewrite E, Hb; reflexivity|apply cfile_content; exact Hl]. }
  unfold insert. apply all_steps_rbind.
  - apply all_steps_step_ok. cbn [ksafe' may_touch]. rewrite Hb. cbn [parent removelast]. apply cfile_not_index_prefix. exact Hl.
  - intros _. apply all_steps_rbind; [apply all_steps_step_ok; exact Hne|intros _].
    apply all_steps_rbind; [apply all_steps_step_ok; exact Hne|intros _]. exact I.
Qed.

(* closing and committing: the rename is the one step that may name [l], and then the temp file holds the writer's bytes *)
Lemma k_publish f w d sri :
  (exists n, w_tmp w = InCache [bs "tmp"; n]) -> lookup f (w_tmp w) = Some (File (w_data w)) ->
  (InCache (cpath hash (w_algo w) (w_data w)) = l -> w_data w = d) ->
  steps_ok (ksafe l d) (publish w (cpath hash (w_algo w) (w_data w)) sri) f.
Proof.
  intros [n Hn] Hl0 Hsame.
  assert (w_tmp w <> l) as Hne by (rewrite Hn; apply cfile_not_tmp; exact Hl).
  unfold publish. set (cp := cpath hash (w_algo w) (w_data w)) in *.
  assert (forall (r : res integrity) g, steps_ok (ksafe l d) (unlink_quiet (w_tmp w) r) g) as Hunl.
  { intros r g. apply (all_steps_ok (ksafe' l)); [intros; apply ksafe'_ksafe; assumption|]. rewrite Hn. apply k_unlink_quiet. }
  cbn [steps_ok]. split; [cbn [ksafe may_touch]; apply cfile_not_parent_prefix; exact Hl|].
  assert (lookup (snd (exec (MkdirAll (parent cp)) f)) (w_tmp w) = Some (File (w_data w))) as Hl1.
  { rewrite exec_mkdirall. apply mkdirs_keeps. exact Hl0. }
  destruct (exec (MkdirAll (parent cp)) f) as [r0 f1]. cbn [snd] in Hl1.
  destruct r0; try apply Hunl.
  all: cbn [steps_ok]; split; [cbn [ksafe]; split; [exact Hne|intros E; rewrite Hl1, (Hsame E); reflexivity]|].
  all: destruct (exec (Rename (w_tmp w) (InCache cp)) f1) as [r f3]; destruct r; try exact I.
  all: cbn [steps_ok]; split; [cbn [ksafe may_touch]; tauto|]; destruct (exec (Exists (InCache cp)) f3) as [r2 f4].
  all: destruct r2; try apply Hunl; match goal with b : bool |- _ => destruct b end; apply Hunl.
Qed.

Lemma k_trim w : wtmp_is w -> all_steps (ksafe' l) (trim w).
Proof.
  intros [n Hn]. assert (l <> w_tmp w) as Hne by (rewrite Hn; intros E; exact (cfile_not_tmp l n Hl (eq_sym E))).
  unfold trim. destruct (w_map w) as [sz|]; [destruct (w_pos w <? sz)|]; try exact I. apply all_steps_step_ok. exact Hne.
Qed.

Lemma k_close_writer f w d :
  WInv f w -> (InCache (cpath hash (w_algo w) (w_data w)) = l -> w_data w = d) -> steps_ok (ksafe l d) (close_writer hash w) f.
Proof.
  intros Hw Hsame. pose proof Hw as [Hn _].
  unfold close_writer. rewrite (content_path_computed hash _ _ HL).
  apply steps_ok_bind. split.
  - apply (all_steps_ok (ksafe' l)); [intros; apply ksafe'_ksafe; assumption|]. apply k_trim. exact (WInv_wtmp_is f w Hw).
  - destruct (trim_ok hash f w Hw) as [ft [Htr [Hlt _]]]. rewrite Htr. cbn [fst snd]. apply k_publish; assumption.
Qed.

Lemma k_commit f w now d :
  WInv f w -> (InCache (cpath hash (w_algo w) (w_data w)) = l -> w_data w = d) -> steps_ok (ksafe l d) (commit hash w now) f.
Proof.
  intros Hw Hsame. unfold commit, rbind. apply steps_ok_bind. split; [apply k_close_writer; assumption|].
  destruct (fst (run (close_writer hash w) f)); try exact I.
  destruct (match o_sri (w_opts w) with Some d0 => match sri_matches d0 a with Some _ => Some d0 | None => None end | None => Some a end); [|exact I].
  destruct (match o_size (w_opts w) with Some s => negb (s =? w_written w) | None => false end); destruct (o_size (w_opts w));
    try exact I; destruct (w_key w); try exact I;
    (apply (all_steps_ok (ksafe' l)); [intros; apply ksafe'_ksafe; assumption|apply k_insert]).
Qed.

Lemma k_write_chunks f w cs d : WInv f w -> steps_ok (ksafe l d) (write_chunks w cs) f.
Proof.
  revert f w. induction cs as [|c cs IH]; intros f w Hw; cbn [write_chunks]; [exact I|].
  unfold rbind. apply steps_ok_bind. split.
  - apply (all_steps_ok (ksafe' l)); [intros; apply ksafe'_ksafe; assumption|]. apply k_write_chunk. exact (WInv_wtmp_is f w Hw).
  - destruct (write_chunk_ok hash f w c Hw) as [w1 [f1 [Hr [Hw1 _]]]]. rewrite Hr. cbn [fst snd]. apply IH. exact Hw1.
Qed.

(* every streamed write (any chunking, keyed or by address, any options), from any well-shaped cache: the copy at [l] is
   there with the same bytes at every crash state and at the end — provided the data being written, if it has the very
   address [l], is the data stored there (no digest collision between the two) *)
Theorem stream_write_keeps f fl key o cs now d :
  CacheInv f -> lookup f l = Some (File d) ->
  (InCache (cpath hash (algo_of o) (List.concat cs)) = l -> List.concat cs = d) ->
  Forall (fun g => lookup g l = Some (File d)) (crash_states (stream_write hash fl key o cs now) f) /\
  lookup (snd (run (stream_write hash fl key o cs now) f)) l = Some (File d).
Proof.
  intros Hinv Hd Hsame. apply keep_crash; [exact Hd|].
  unfold stream_write, rbind. apply steps_ok_bind. split.
  - apply (all_steps_ok (ksafe' l)); [intros; apply ksafe'_ksafe; assumption|apply k_open_writer].
  - destruct (open_writer_inv hash f fl key o Hinv) as [w [f1 [Hr [Hw [Hi1 [Hd0 [_ [_ [Ha _]]]]]]]]]. rewrite Hr. cbn [fst snd].
    apply steps_ok_bind. split; [apply k_write_chunks; exact Hw|].
    destruct (write_chunks_ok hash f1 w cs Hw) as [w2 [f2 [Hr2 [Hw2 [Hs2 [Hd2 _]]]]]]. rewrite Hr2. cbn [fst snd].
    apply k_commit; [exact Hw2|]. destruct Hs2 as (_ & _ & Ha2 & _). rewrite Ha2, Ha, Hd2, Hd0. cbn [app]. exact Hsame.
Qed.

Theorem oneshot_keeps f fl key o data now d :
  CacheInv f -> lookup f l = Some (File d) ->
  (InCache (cpath hash (algo_of o) data) = l -> data = d) ->
  Forall (fun g => lookup g l = Some (File d)) (crash_states (oneshot hash fl key o data now) f) /\
  lookup (snd (run (oneshot hash fl key o data now) f)) l = Some (File d).
Proof.
  intros Hinv Hd Hsame. apply keep_crash; [exact Hd|].
  unfold oneshot, rbind at 1. apply steps_ok_bind. split.
  - apply (all_steps_ok (ksafe' l)); [intros; apply ksafe'_ksafe; assumption|apply k_open_writer].
  - destruct (open_writer_inv hash f fl key o Hinv) as [w [f1 [Hr [Hw [Hi1 [Hd0 [_ [_ [Ha _]]]]]]]]]. rewrite Hr. cbn [fst snd].
    destruct data as [|b data]; [apply k_commit; [exact Hw|rewrite Ha, Hd0; exact Hsame]|].
    apply steps_ok_bind. split.
    + apply (all_steps_ok (ksafe' l)); [intros; apply ksafe'_ksafe; assumption|]. apply k_write_chunk. exact (WInv_wtmp_is f1 w Hw).
    + destruct (write_chunk_ok hash f1 w (b :: data) Hw) as [w1 [f2 [Hr2 [Hw1 [Hs1 [Hd1 _]]]]]]. rewrite Hr2. cbn [fst snd].
      apply k_commit; [exact Hw1|]. destruct Hs1 as (_ & _ & Ha1 & _). rewrite Ha1, Ha, Hd1, Hd0. cbn [app]. exact Hsame.
Qed.

(* index-only operations (insert, tombstone removal) never name a content file *)
Theorem insert_keeps f key o now d :
  lookup f l = Some (File d) ->
  Forall (fun g => lookup g l = Some (File d)) (crash_states (insert hash key o now) f) /\
  lookup (snd (run (insert hash key o now) f)) l = Some (File d).
Proof.
  intros Hd. apply keep_crash; [exact Hd|]. apply (all_steps_ok (ksafe' l)); [intros; apply ksafe'_ksafe; assumption|apply k_insert].
Qed.

End L.

(* the re-write of the very same bytes: no side condition left *)
Corollary rewrite_keeps_copy f fl key o data now :
  CacheInv f -> lookup f (InCache (cpath hash (algo_of o) data)) = Some (File data) ->
  Forall (fun g => lookup g (InCache (cpath hash (algo_of o) data)) = Some (File data)) (crash_states (oneshot hash fl key o data now) f) /\
  lookup (snd (run (oneshot hash fl key o data now) f)) (InCache (cpath hash (algo_of o) data)) = Some (File data).
Proof. intros Hinv Hd. apply oneshot_keeps; [eexists _, _; reflexivity|exact Hinv|exact Hd|reflexivity]. Qed.

End Keep.
