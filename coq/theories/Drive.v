(* Drive.v — the driver's loop as a Gallina function, so that the very computation the extracted OCaml binary performs
   on a program can be re-evaluated inside Coq (vm_compute) and compared: removes the extraction and ocaml/driver.ml
   from the trust of the sampled programs.  The hash oracle is a finite table of the queries the run made. *)
From CC Require Import Bytes Codec Utf8 Lines Json Sri Record Fs Prog Api Crash Sess.
Local Open Scope N_scope.

Definition hash_table := list (algo * bytes * bytes).

Fixpoint table_lookup (t : hash_table) (a : algo) (d : bytes) : option bytes :=
  match t with
  | [] => None
  | (a', d', r) :: rest => if algo_eqb a a' && bytes_eqb d d' then Some r else table_lookup rest a d
  end.
(* a query outside the table answers the empty digest: the comparison then fails visibly *)
Definition table_hash (t : hash_table) (a : algo) (d : bytes) : bytes :=
  match table_lookup t a d with Some r => r | None => [] end.

Definition is_dump (line : bytes) : bool := bytes_eqb line (bs "dump").
Definition is_reset (line : bytes) : bool := bytes_eqb line (bs "reset").
Definition crash_prefix (line : bytes) : bool := bytes_eqb (takeN 6 line) (bs "crash ") && negb (bytes_eqb line (bs "crash ")).

(* one answer = first line + extra lines, exactly what driver.ml prints after "= k" *)
Fixpoint drive (t : hash_table) (lines : list bytes) (s : sstate) (idx : N) : list (bytes * list bytes) :=
  match lines with
  | [] => []
  | line :: rest =>
      if is_reset line then (bs "reset", []) :: drive t rest sstate0 0
      else if is_dump line then (bs "dump", dump (table_hash t) (s_fs s)) :: drive t rest s idx
      else if crash_prefix line then
        (* peek: the crash states of the operation; the session does not advance *)
        match parse_op (split x20 (dropN 6 line)) with
        | None => (bs "parse-error", []) :: drive t rest s idx
        | Some o =>
            let states := step_crash (table_hash t) s o (pseudo_now idx) in
            (bs "crash " ++ dec_of_N (N.of_nat (List.length states)),
             flat_map (fun f => bs "state" :: dump (table_hash t) f) states) :: drive t rest s idx
        end
      else
        match parse_op (split x20 line) with
        | None => (bs "parse-error", []) :: drive t rest s (idx + 1)
        | Some o =>
            let '(out, s') := step (table_hash t) s o (pseudo_now idx) in
            show_outcome out :: drive t rest s' (idx + 1)
        end
  end.

Definition answers_eqb (a b : list (bytes * list bytes)) : bool :=
  list_eqb (fun x y => bytes_eqb (fst x) (fst y) && list_eqb bytes_eqb (snd x) (snd y)) a b.

(* decode helpers for the generated case files: everything is passed as hex text to keep the files small and ASCII *)
Definition unhex_or_empty (h : bytes) : bytes := match hex_decode h with Some d => d | None => [] end.
