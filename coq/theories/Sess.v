(* Sess.v — sessions: a program is a list of operations (API calls with writer/reader handles, plus
   explicit damage steps); [step] runs one of them on the model state.  Also the textual front end
   (token lists in, one result line out) so that the OCaml driver is I/O glue only and the very same
   functions can be evaluated inside Coq by [vm_compute]. *)
From CC Require Import Bytes Codec Utf8 Lines Json Sri Record Fs Prog Api Crash.
Local Open Scope N_scope.

Inductive byarg := ByKey (k : bytes) | ByHash (i : integrity).

Inductive op :=
| OWrite (fl : flavour) (a : algo) (key data : bytes)
| OWriteHash (fl : flavour) (a : algo) (data : bytes)
| OOpen (fl : flavour) (w : N) (key : option bytes) (o : wopts)
| OChunk (w : N) (d : bytes)
| OCommit (w : N)
| ODrop (w : N)
| OInsert (fl : flavour) (key : bytes) (o : wopts)
| ODelete (fl : flavour) (key : bytes)
| OFind (fl : flavour) (key : bytes)
| ORead (fl : flavour) (key : bytes)
| OReadHash (fl : flavour) (i : integrity)
| OROpen (fl : flavour) (r : N) (b : byarg)
| ORChunk (r : N) (n : N)
| ORAll (r : N)
| ORCheck (r : N)
| ORDrop (r : N)
| OExtract (x : xkind) (fl : flavour) (checked : bool) (b : byarg) (dst : name)
| OExists (fl : flavour) (i : integrity)
| ORemove (fl : flavour) (key : bytes)
| ORemoveHash (fl : flavour) (i : integrity)
| ORemoveFully (fl : flavour) (key : bytes)
| OClear (fl : flavour)
| OList
| OLinkTo (fl : flavour) (key : option bytes) (target : name)
| OLOpen (fl : flavour) (l : N) (plain : bool) (key : option bytes) (o : wopts) (target : name)
| OLChunk (l : N) (n : N)
| OLCommit (l : N)
| OLDrop (l : N)
(* the async writers' cancellation behaviour (content::write::AsyncWriter::poll_write): [OAbandon] starts a write, polls it
   once and drops the future; [OWrite1] is one write() call (as opposed to write_all) *)
| OAbandon (w : N) (d : bytes)
| OWrite1 (w : N) (d : bytes)
(* damage / environment steps, applied verbatim to the tree *)
| DSet (l : loc) (d : bytes)
| DDel (l : loc)
| DMkdir (l : loc)
| DSymlink (l : loc) (t : linkt).

Inductive val :=
| VUnit
| VBytes (d : bytes)
| VSri (i : integrity)
| VMeta (m : option meta)
| VNum (n : N)
| VBool (b : bool)
| VList (l : list litem)
| VAlgo (a : algo).

Inductive outcome :=
| Res (r : res val)
| BadArg.                       (* unknown handle: the harness answers "badarg" too *)

(* the answer of an abandoned write that its writer still holds (AsyncWriter's [last_op]) *)
Inductive pend := PLen (n : N) | PErr.

Record sstate := mkS0 {
  s_fs : fs;
  s_w : list (N * wstate);
  s_r : list (N * rstate);
  s_l : list (N * lstate);
  s_p : list (N * pend)
}.
(* a new state that keeps the open linkers and the pending answers of [s] *)
Definition mkS (s : sstate) (f : fs) (w : list (N * wstate)) (r : list (N * rstate)) : sstate := mkS0 f w r (s_l s) (s_p s).
Definition set_p (s : sstate) (p : list (N * pend)) : sstate := mkS0 (s_fs s) (s_w s) (s_r s) (s_l s) p.
Definition sstate0 : sstate := mkS0 [] [] [] [] [].

Fixpoint hget {A} (h : N) (l : list (N * A)) : option A :=
  match l with
  | [] => None
  | (k, v) :: t => if N.eqb k h then Some v else hget h t
  end.
Fixpoint hdel {A} (h : N) (l : list (N * A)) : list (N * A) :=
  match l with
  | [] => []
  | (k, v) :: t => if N.eqb k h then hdel h t else (k, v) :: hdel h t
  end.
Definition hset {A} (h : N) (v : A) (l : list (N * A)) : list (N * A) := (h, v) :: hdel h l.

Definition clear_p (s : sstate) (w : N) : sstate := set_p s (hdel w (s_p s)).
Definition with_written (ws : wstate) (n : N) : wstate :=
  mkW (w_key ws) (w_opts ws) (w_algo ws) (w_tmp ws) (w_map ws) (w_pos ws) n (w_data ws).

Definition rmap {A B} (g : A -> B) (r : res A) : res B :=
  match r with
  | Ok a => Ok (g a) | Err e => Err e | Panic => Panic | Hang => Hang | Stuck => Stuck
  end.

Section WithHash.
Variable hash : algo -> bytes -> bytes.

Definition runv {A} (s : sstate) (p : prog (res A)) (g : A -> val) : outcome * sstate :=
  let '(r, f) := run p (s_fs s) in (Res (rmap g r), mkS s f (s_w s) (s_r s)).

(* one chunk through a writer that holds no pending answer *)
Definition plain_chunk (s : sstate) (w : N) (ws : wstate) (d : bytes) : outcome * sstate :=
  let '(r, f) := run (write_chunk ws d) (s_fs s) in
  match r with
  | Ok ws' => (Res (Ok (VNum (lenN d))), mkS s f (hset w ws' (s_w s)) (s_r s))
  | other => (Res (rmap (fun _ => VUnit) other), mkS s f (s_w s) (s_r s))
  end.

(* the writer acknowledges [n] bytes (put::Writer::poll_write adds the inner answer to [written]) *)
Definition ack (s : sstate) (w : N) (ws : wstate) (n : N) : sstate :=
  mkS s (s_fs s) (hset w (with_written ws (w_written ws + n)) (s_w s)) (s_r s).

(* poll_write starts an operation: the blocking task stores and hashes the chunk whether or not anybody waits for it;
   nothing is acknowledged; the answer stays in the writer *)
Definition start_abandoned (s : sstate) (w : N) (ws : wstate) (d : bytes) : outcome * sstate :=
  let '(r, f) := run (write_chunk ws d) (s_fs s) in
  match r with
  | Ok ws' => (Res (Ok VUnit), set_p (mkS s f (hset w (with_written ws' (w_written ws)) (s_w s)) (s_r s)) (hset w (PLen (lenN d)) (s_p s)))
  | _ => (Res (Ok VUnit), set_p (mkS s f (s_w s) (s_r s)) (hset w PErr (s_p s)))
  end.

(* one write() call on a writer that holds the answer [p] of an abandoned write: an answer that fits the new buffer is
   handed out as this call's answer (nothing is stored); a longer one is discarded and the call proceeds *)
Definition write1_pending (s : sstate) (w : N) (ws : wstate) (p : pend) (d : bytes) : outcome * sstate :=
  let s1 := clear_p s w in
  match p with
  | PErr => (Res (Err EIoErr), s1)
  | PLen n => if n <=? lenN d then (Res (Ok (VNum n)), ack s1 w ws n) else plain_chunk s1 w ws d
  end.

(* write_all on such a writer: write() until the buffer is empty; an answer of 0 bytes for a non-empty buffer is WriteZero *)
Definition write_all_pending (s : sstate) (w : N) (ws : wstate) (p : pend) (d : bytes) : outcome * sstate :=
  match d with
  | [] => (Res (Ok (VNum 0)), s)               (* no write() call at all: the answer stays *)
  | _ =>
      let s1 := clear_p s w in
      match p with
      | PErr => (Res (Err EIoErr), s1)
      | PLen n =>
          if n <=? lenN d then
            if n =? 0 then (Res (Err EIoErr), s1)
            else
              let s2 := ack s1 w ws n in
              match dropN n d with
              | [] => (Res (Ok (VNum (lenN d))), s2)
              | rest =>
                  let '(o, s3) := plain_chunk s2 w (with_written ws (w_written ws + n)) rest in
                  (match o with Res (Ok _) => Res (Ok (VNum (lenN d))) | x => x end, s3)
              end
          else plain_chunk s1 w ws d
      end
  end.

Definition step (s : sstate) (o : op) (now : N) : outcome * sstate :=
  match o with
  | OWrite fl a key data => runv s (write hash fl a key data now) VSri
  | OWriteHash fl a data => runv s (write_hash hash fl a data) VSri
  | OOpen fl w key o =>
      let '(r, f) := run (open_writer fl key o) (s_fs s) in
      match r with
      | Ok ws => (Res (Ok VUnit), clear_p (mkS s f (hset w ws (s_w s)) (s_r s)) w)
      | other => (Res (rmap (fun _ => VUnit) other), mkS s f (s_w s) (s_r s))
      end
  | OChunk w d =>
      match hget w (s_w s) with
      | None => (BadArg, s)
      | Some ws =>
          match hget w (s_p s) with
          | None => plain_chunk s w ws d
          | Some p => write_all_pending s w ws p d
          end
      end
  | OWrite1 w d =>
      match hget w (s_w s) with
      | None => (BadArg, s)
      | Some ws =>
          match hget w (s_p s) with
          | None => plain_chunk s w ws d
          | Some p => write1_pending s w ws p d
          end
      end
  | OAbandon w d =>
      match hget w (s_w s) with
      | None => (BadArg, s)
      | Some ws =>
          match hget w (s_p s) with
          | Some PErr => (Res (Err EIoErr), clear_p s w)
          | Some (PLen n) => if n <=? lenN d then (Res (Ok (VNum n)), ack (clear_p s w) w ws n)
                             else start_abandoned (clear_p s w) w ws d
          | None => start_abandoned s w ws d
          end
      end
  | OCommit w =>
      match hget w (s_w s) with
      | None => (BadArg, s)
      | Some ws =>
          let '(r, f) := run (commit hash ws now) (s_fs s) in
          (Res (rmap VSri r), clear_p (mkS s f (hdel w (s_w s)) (s_r s)) w)
      end
  | ODrop w =>
      match hget w (s_w s) with
      | None => (BadArg, s)
      | Some ws =>
          let '(r, f) := run (drop_writer ws) (s_fs s) in
          (Res (Ok VUnit), clear_p (mkS s f (hdel w (s_w s)) (s_r s)) w)
      end
  | OInsert _ key o => runv s (insert hash key o now) VSri
  | ODelete _ key => runv s (delete hash key now) (fun _ => VUnit)
  | OFind _ key => runv s (find hash key) VMeta
  | ORead _ key => runv s (read hash key) VBytes
  | OReadHash _ i => runv s (read_hash hash i) VBytes
  | OROpen _ r b =>
      let p := match b with ByKey k => ropen hash k | ByHash i => ropen_hash i end in
      let '(x, f) := run p (s_fs s) in
      match x with
      | Ok rs => (Res (Ok VUnit), mkS s f (s_w s) (hset r rs (s_r s)))
      | other => (Res (rmap (fun _ => VUnit) other), mkS s f (s_w s) (s_r s))
      end
  | ORChunk r n =>
      match hget r (s_r s) with
      | None => (BadArg, s)
      | Some rs => let '(c, rs') := rchunk rs n in
                   (Res (Ok (VBytes c)), mkS s (s_fs s) (s_w s) (hset r rs' (s_r s)))
      end
  | ORAll r =>
      match hget r (s_r s) with
      | None => (BadArg, s)
      | Some rs => let '(c, rs') := rchunk rs (lenN (r_rest rs)) in
                   (Res (Ok (VBytes c)), mkS s (s_fs s) (s_w s) (hset r rs' (s_r s)))
      end
  | ORCheck r =>
      match hget r (s_r s) with
      | None => (BadArg, s)
      | Some rs => (Res (rmap VAlgo (rcheck hash rs)), mkS s (s_fs s) (s_w s) (hdel r (s_r s)))
      end
  | ORDrop r =>
      match hget r (s_r s) with
      | None => (BadArg, s)
      | Some _ => (Res (Ok VUnit), mkS s (s_fs s) (s_w s) (hdel r (s_r s)))
      end
  | OExtract x _ checked b dst =>
      let p := match b with
               | ByKey k => extract hash x checked k (Ext dst)
               | ByHash i => extract_hash hash x checked i (Ext dst) end in
      runv s p (fun n => match x with XCopy => VNum n | _ => VUnit end)
  | OExists _ i => runv s (exists_hash i) VBool
  | ORemove _ key => runv s (delete hash key now) (fun _ => VUnit)
  | ORemoveHash _ i => runv s (remove_hash i) (fun _ => VUnit)
  | ORemoveFully _ key => runv s (remove_fully hash key) (fun _ => VUnit)
  | OClear _ => runv s clear (fun _ => VUnit)
  | OList => runv s (ls hash) VList
  | OLinkTo _ key target => runv s (link_to hash key target now) VSri
  | OLOpen _ l plain key o target =>
      let '(r, f) := run (open_linker plain key o target) (s_fs s) in
      match r with
      | Ok ls => (Res (Ok VUnit), mkS0 f (s_w s) (s_r s) (hset l ls (s_l s)) (s_p s))
      | other => (Res (rmap (fun _ => VUnit) other), mkS s f (s_w s) (s_r s))
      end
  | OLChunk l n =>
      match hget l (s_l s) with
      | None => (BadArg, s)
      | Some ls => let '(c, ls') := lchunk ls n in
                   (Res (Ok (VBytes c)), mkS0 (s_fs s) (s_w s) (s_r s) (hset l ls' (s_l s)) (s_p s))
      end
  | OLCommit l =>
      match hget l (s_l s) with
      | None => (BadArg, s)
      | Some ls =>
          let '(r, f) := run (commit_linker hash ls now) (s_fs s) in
          (Res (rmap VSri r), mkS0 f (s_w s) (s_r s) (hdel l (s_l s)) (s_p s))
      end
  | OLDrop l =>
      match hget l (s_l s) with
      | None => (BadArg, s)
      | Some _ => (Res (Ok VUnit), mkS0 (s_fs s) (s_w s) (s_r s) (hdel l (s_l s)) (s_p s))
      end
  | DSet l d => (Res (Ok VUnit), mkS s (update (s_fs s) l (File d)) (s_w s) (s_r s))
  | DDel l => (Res (Ok VUnit), mkS s (remove (s_fs s) l) (s_w s) (s_r s))
  | DMkdir l =>
      let f := match l with
               | InCache p => snd (mkdirs (remove (s_fs s) l) (prefixes p))
               | Ext _ => update (s_fs s) l Dir end in
      (Res (Ok VUnit), mkS s f (s_w s) (s_r s))
  | DSymlink l t => (Res (Ok VUnit), mkS s (update (s_fs s) l (Symlink t)) (s_w s) (s_r s))
  end.


(* the trees a kill during operation [o] can leave behind (theories/Crash.v), from the session state [s] *)
Definition step_crash (s : sstate) (o : op) (now : N) : list fs :=
  let f := s_fs s in
  match o with
  | OWrite fl a key data => crash_states (write hash fl a key data now) f
  | OWriteHash fl a data => crash_states (write_hash hash fl a data) f
  | OOpen fl w key o => crash_states (open_writer fl key o) f
  | OChunk w d | OWrite1 w d | OAbandon w d =>
      match hget w (s_w s), hget w (s_p s) with
      | Some ws, None => crash_states (write_chunk ws d) f
      | _, _ => [f]            (* with a pending answer the steps depend on it: not used for crash comparison *)
      end
  | OCommit w => match hget w (s_w s) with Some ws => crash_states (commit hash ws now) f | None => [f] end
  | ODrop w => match hget w (s_w s) with Some ws => crash_states (drop_writer ws) f | None => [f] end
  | OInsert _ key o => crash_states (insert hash key o now) f
  | ODelete _ key | ORemove _ key => crash_states (delete hash key now) f
  | OExtract x _ checked b dst =>
      match b with
      | ByKey k => crash_states (extract hash x checked k (Ext dst)) f
      | ByHash i => crash_states (extract_hash hash x checked i (Ext dst)) f
      end
  | ORemoveHash _ i => crash_states (remove_hash i) f
  | ORemoveFully _ key => crash_states (remove_fully hash key) f
  | OClear _ => crash_states clear f
  | _ => [f]
  end.

(* default timestamps are an oracle: op number i of a program sees the clock value [pseudo_now i] *)
Definition pseudo_base : N := 1329227995784915872903807060280344576.     (* 2^120 *)
Definition pseudo_now (i : N) : N := pseudo_base + i.

Fixpoint run_ops (s : sstate) (ops : list op) (i : N) : list outcome * sstate :=
  match ops with
  | [] => ([], s)
  | o :: t => let '(r, s') := step s o (pseudo_now i) in
              let '(rs, s'') := run_ops s' t (i + 1) in (r :: rs, s'')
  end.

End WithHash.

(* ---------------- textual front end ---------------- *)
Definition tok_is (s : string) (t : bytes) : bool := bytes_eqb t (bs s).

Definition tok_bytes (t : bytes) : option bytes :=
  match t with x78 :: h => hex_decode h | _ => None end.

Definition tok_opt {A} (g : bytes -> option A) (t : bytes) : option (option A) :=
  if tok_is "-" t then Some None else option_map Some (g t).

Definition tok_num (t : bytes) : option N :=
  match t with
  | [] => None
  | _ => match take_digits t 0 with (n, []) => Some n | _ => None end
  end.

Definition tok_fl (t : bytes) : option flavour :=
  if tok_is "sync" t then Some Sync else if tok_is "async" t then Some Async else None.

Definition tok_bool (t : bytes) : option bool :=
  if tok_is "t" t then Some true else if tok_is "f" t then Some false else None.

Definition tok_sri (t : bytes) : option integrity :=
  match tok_bytes t with Some s => parse_sri s | None => None end.

Definition tok_json (t : bytes) : option jv :=
  match tok_bytes t with
  | Some s => match parse_json s with POk v _ => Some (canon v) | _ => None end
  | None => None
  end.

Definition tok_loc (t : bytes) : option loc :=
  match t with
  | x63 :: x3a :: r => Some (InCache (match r with [] => [] | _ => split x2f r end))
  | x65 :: x3a :: r => Some (Ext r)
  | _ => None
  end.

Definition tok_xkind (t : bytes) : option xkind :=
  if tok_is "copy" t then Some XCopy else if tok_is "hard_link" t then Some XHardLink
  else if tok_is "reflink" t then Some XReflink else None.

Definition tok_wopts (a s z t m r : bytes) : option wopts :=
  match tok_opt parse_algo a, tok_opt tok_sri s, tok_opt tok_num z, tok_opt tok_num t,
        tok_opt tok_json m, tok_opt tok_bytes r with
  | Some a', Some s', Some z', Some t', Some m', Some r' => Some (mkWopts a' s' z' t' m' r')
  | _, _, _, _, _, _ => None
  end.

Definition tok_by (b v : bytes) : option byarg :=
  if tok_is "key" b then option_map ByKey (tok_bytes v)
  else if tok_is "hash" b then option_map ByHash (tok_sri v) else None.

Notation "'do' x <- e ; k" := (match e with Some x => k | None => None end)
  (at level 200, x pattern, e at level 100, k at level 200).

Definition parse_op (ts : list bytes) : option op :=
  match ts with
  | [c; fl; a; k; d] =>
      if tok_is "write" c then
        do fl' <- tok_fl fl; do a' <- parse_algo a; do k' <- tok_bytes k; do d' <- tok_bytes d;
        Some (OWrite fl' a' k' d')
      else None
  | [c; fl; a; d] =>
      if tok_is "write_hash" c then
        do fl' <- tok_fl fl; do a' <- parse_algo a; do d' <- tok_bytes d; Some (OWriteHash fl' a' d')
      else if tok_is "ropen" c then
        do fl' <- tok_fl fl; do r <- tok_num a; do k <- tok_bytes d; Some (OROpen fl' r (ByKey k))
      else if tok_is "ropen_hash" c then
        do fl' <- tok_fl fl; do r <- tok_num a; do i <- tok_sri d; Some (OROpen fl' r (ByHash i))
      else if tok_is "link_to" c then
        do fl' <- tok_fl fl; do k' <- tok_opt tok_bytes a; Some (OLinkTo fl' k' d)
      else None
  | [c; fl; w; k; a; s; z; t; m; r] =>
      if tok_is "open" c then
        do fl' <- tok_fl fl; do w' <- tok_num w; do k' <- tok_opt tok_bytes k;
        do o <- tok_wopts a s z t m r; Some (OOpen fl' w' k' o)
      else None
  | [c; fl; k; a; s; z; t; m; r] =>
      if tok_is "insert" c then
        do fl' <- tok_fl fl; do k' <- tok_bytes k; do o <- tok_wopts a s z t m r;
        Some (OInsert fl' k' o)
      else None
  | [c; x; fl; b; ch; v; dst] =>
      if tok_is "extract" c then
        do x' <- tok_xkind x; do fl' <- tok_fl fl; do ch' <- tok_bool ch; do b' <- tok_by b v;
        Some (OExtract x' fl' ch' b' dst)
      else None
  | [c; a; b] =>
      if tok_is "wchunk" c then do w <- tok_num a; do d <- tok_bytes b; Some (OChunk w d)
      else if tok_is "wwrite" c then do w <- tok_num a; do d <- tok_bytes b; Some (OWrite1 w d)
      else if tok_is "wabandon" c then do w <- tok_num a; do d <- tok_bytes b; Some (OAbandon w d)
      else if tok_is "rchunk" c then do r <- tok_num a; do n <- tok_num b; Some (ORChunk r n)
      else if tok_is "lchunk" c then do l <- tok_num a; do n <- tok_num b; Some (OLChunk l n)
      else if tok_is "delete" c then do fl <- tok_fl a; do k <- tok_bytes b; Some (ODelete fl k)
      else if tok_is "find" c then do fl <- tok_fl a; do k <- tok_bytes b; Some (OFind fl k)
      else if tok_is "read" c then do fl <- tok_fl a; do k <- tok_bytes b; Some (ORead fl k)
      else if tok_is "read_hash" c then do fl <- tok_fl a; do i <- tok_sri b; Some (OReadHash fl i)
      else if tok_is "exists" c then do fl <- tok_fl a; do i <- tok_sri b; Some (OExists fl i)
      else if tok_is "remove" c then do fl <- tok_fl a; do k <- tok_bytes b; Some (ORemove fl k)
      else if tok_is "remove_hash" c then do fl <- tok_fl a; do i <- tok_sri b; Some (ORemoveHash fl i)
      else if tok_is "remove_fully" c then do fl <- tok_fl a; do k <- tok_bytes b; Some (ORemoveFully fl k)
      else if tok_is "dset" c then do l <- tok_loc a; do d <- tok_bytes b; Some (DSet l d)
      else if tok_is "dsymlink" c then
        do l <- tok_loc a;
        match b with
        | x61 :: x3a :: n => Some (DSymlink l (LAbs n))
        | x64 :: x3a :: h => do t <- hex_decode h; Some (DSymlink l (LDangling t))
        | _ => None end
      else None
  | [c; a] =>
      if tok_is "commit" c then option_map OCommit (tok_num a)
      else if tok_is "drop" c then option_map ODrop (tok_num a)
      else if tok_is "rall" c then option_map ORAll (tok_num a)
      else if tok_is "rcheck" c then option_map ORCheck (tok_num a)
      else if tok_is "rdrop" c then option_map ORDrop (tok_num a)
      else if tok_is "lcommit" c then option_map OLCommit (tok_num a)
      else if tok_is "ldrop" c then option_map OLDrop (tok_num a)
      else if tok_is "clear" c then option_map OClear (tok_fl a)
      else if tok_is "ddel" c then option_map DDel (tok_loc a)
      else if tok_is "dmkdir" c then option_map DMkdir (tok_loc a)
      else None
  | [c; fl; l; pl; k; a; sr; z; t; m; r; tg] =>
      if tok_is "lopen" c then
        do fl' <- tok_fl fl; do l' <- tok_num l; do pl' <- tok_bool pl; do k' <- tok_opt tok_bytes k;
        do o <- tok_wopts a sr z t m r; Some (OLOpen fl' l' pl' k' o tg)
      else None
  | [c] => if tok_is "list" c then Some OList else None
  | _ => None
  end.

(* ---- printing ---- *)
Definition sp : byte := x20.
Definition hx (d : bytes) : bytes := x78 :: hex_encode d.
Definition join_sp (l : list bytes) : bytes := intercalate [sp] l.

Definition show_meta (m : meta) : bytes :=
  join_sp [hx (m_key m); hx (sri_text (m_sri m)); dec_of_N (m_time m); dec_of_N (m_size m);
           hx (ser (m_metadata m));
           match m_raw m with Some r => hx r | None => bs "-" end;
           if modelled (m_metadata m) then bs "m" else bs "u"].

Definition show_err (e : err) : bytes :=
  match e with
  | ENotFound => bs "NotFound"
  | ESizeMismatch w a => join_sp [bs "SizeMismatch"; dec_of_N w; dec_of_N a]
  | EIoErr => bs "Io"
  | ESerde => bs "Serde"
  | EIntegrity => bs "Integrity"
  end.

Definition show_item (i : litem) : bytes :=
  match i with
  | LMeta m => join_sp [bs "item"; bs "meta"; show_meta m]
  | LErr e => join_sp [bs "item"; bs "err"; show_err e]
  end.

(* first line, then the extra lines (list items) *)
Definition show_val (v : val) : bytes * list bytes :=
  match v with
  | VUnit => (bs "ok unit", [])
  | VBytes d => (join_sp [bs "ok bytes"; hx d], [])
  | VSri i => (join_sp [bs "ok sri"; hx (sri_text i)], [])
  | VMeta None => (bs "ok meta -", [])
  | VMeta (Some m) => (join_sp [bs "ok meta"; show_meta m], [])
  | VNum n => (join_sp [bs "ok num"; dec_of_N n], [])
  | VBool b => (if b then bs "ok bool t" else bs "ok bool f", [])
  | VList l => (join_sp [bs "ok list"; dec_of_N (N.of_nat (List.length l))], map show_item l)
  | VAlgo a => (join_sp [bs "ok algo"; algo_name a], [])
  end.

Definition show_outcome (o : outcome) : bytes * list bytes :=
  match o with
  | BadArg => (bs "badarg", [])
  | Res (Ok v) => show_val v
  | Res (Err e) => (join_sp [bs "err"; show_err e], [])
  | Res Panic => (bs "panic", [])
  | Res Hang => (bs "hang", [])
  | Res Stuck => (bs "stuck", [])
  end.

Definition show_loc (l : loc) : bytes :=
  match l with
  | InCache p => x63 :: x3a :: intercalate [x2f] p
  | Ext n => x65 :: x3a :: n
  end.

Section Dump.
Variable hash : algo -> bytes -> bytes.
Definition show_node (ln : loc * node) : bytes :=
  let '(l, n) := ln in
  match n with
  | Dir => join_sp [bs "node"; show_loc l; bs "dir"]
  | File d =>
      if (lenN d <=? 512) || under [index_dir] l then join_sp [bs "node"; show_loc l; bs "file"; hx d]
      else join_sp [bs "node"; show_loc l; bs "filehash"; dec_of_N (lenN d); hx (hash Sha256 d)]
  | Symlink (LAbs t) => join_sp [bs "node"; show_loc l; bs "symlink"; x61 :: x3a :: t]
  | Symlink (LDangling t) => join_sp [bs "node"; show_loc l; bs "symlink"; x64 :: x3a :: hex_encode t]
  end.
Definition dump (f : fs) : list bytes := map show_node f.
End Dump.
