(* Record.v — index records: SerializableMetadata <-> JSON text, the record line, the bucket reader,
   [find] and the per-bucket part of [ls].  Pure functions on bytes. *)
From CC Require Import Bytes Codec Utf8 Lines Json Sri.
Local Open Scope N_scope.

Record smeta := mkSmeta {
  sm_key : bytes;
  sm_integrity : option bytes;     (* None = tombstone ("integrity":null) *)
  sm_time : N;
  sm_size : N;
  sm_metadata : jv;
  sm_raw : option bytes
}.

(* what the API hands back: integrity parsed *)
Record meta := mkMeta {
  m_key : bytes;
  m_sri : integrity;
  m_time : N;
  m_size : N;
  m_metadata : jv;
  m_raw : option bytes
}.

Definition jraw (r : option bytes) : jv :=
  match r with
  | None => JNull
  | Some d => JArr (map (fun b => JInt (Z.of_N (b2n b))) d)
  end.

Definition smeta_json (m : smeta) : jv :=
  JObj [ (bs "key", JStr (sm_key m));
         (bs "integrity", match sm_integrity m with Some s => JStr s | None => JNull end);
         (bs "time", JInt (Z.of_N (sm_time m)));
         (bs "size", JInt (Z.of_N (sm_size m)));
         (bs "metadata", sm_metadata m);
         (bs "raw_metadata", jraw (sm_raw m)) ].

Definition encode_smeta (m : smeta) : bytes := ser (smeta_json m).

(* ---- typed decoding of the generic JSON value (serde derive for SerializableMetadata) ---- *)
Definition dec_string (v : jv) : option bytes := match v with JStr s => Some s | _ => None end.
Definition dec_opt_string (v : jv) : option (option bytes) :=
  match v with JNull => Some None | JStr s => Some (Some s) | _ => None end.
Definition dec_uint (bound : Z) (v : jv) : option N :=
  match v with
  | JInt z => if (Z.leb 0 z && Z.ltb z bound)%Z then Some (Z.to_N z) else None
  | _ => None end.
Definition two64 : Z := 18446744073709551616%Z.
Definition two128 : Z := 340282366920938463463374607431768211456%Z.

Fixpoint dec_u8s (l : list jv) : option bytes :=
  match l with
  | [] => Some []
  | v :: t => match dec_uint 256 v, dec_u8s t with
              | Some n, Some r => Some (n2b n :: r)
              | _, _ => None end
  end.
Definition dec_raw (v : jv) : option (option bytes) :=
  match v with
  | JNull => Some None
  | JArr l => match dec_u8s l with Some d => Some (Some d) | None => None end
  | _ => None end.

Record partial := mkPartial {
  p_key : option bytes; p_int : option (option bytes); p_time : option N; p_size : option N;
  p_meta : option jv; p_raw : option (option bytes) }.
Definition partial0 := mkPartial None None None None None None.

(* one member of the object: known field (duplicate = error, wrong type = error) or ignored *)
Definition dec_field (k : bytes) (v : jv) (p : partial) : option partial :=
  if bytes_eqb k (bs "key") then
    match p_key p, dec_string v with
    | None, Some s => Some (mkPartial (Some s) (p_int p) (p_time p) (p_size p) (p_meta p) (p_raw p))
    | _, _ => None end
  else if bytes_eqb k (bs "integrity") then
    match p_int p, dec_opt_string v with
    | None, Some s => Some (mkPartial (p_key p) (Some s) (p_time p) (p_size p) (p_meta p) (p_raw p))
    | _, _ => None end
  else if bytes_eqb k (bs "time") then
    match p_time p, dec_uint two128 v with
    | None, Some n => Some (mkPartial (p_key p) (p_int p) (Some n) (p_size p) (p_meta p) (p_raw p))
    | _, _ => None end
  else if bytes_eqb k (bs "size") then
    match p_size p, dec_uint two64 v with
    | None, Some n => Some (mkPartial (p_key p) (p_int p) (p_time p) (Some n) (p_meta p) (p_raw p))
    | _, _ => None end
  else if bytes_eqb k (bs "metadata") then
    match p_meta p with
    | None => Some (mkPartial (p_key p) (p_int p) (p_time p) (p_size p) (Some (canon v)) (p_raw p))
    | Some _ => None end
  else if bytes_eqb k (bs "raw_metadata") then
    match p_raw p, dec_raw v with
    | None, Some r => Some (mkPartial (p_key p) (p_int p) (p_time p) (p_size p) (p_meta p) (Some r))
    | _, _ => None end
  else Some p.

Fixpoint dec_fields (m : list (bytes * jv)) (p : partial) : option partial :=
  match m with
  | [] => Some p
  | (k, v) :: t => match dec_field k v p with Some p' => dec_fields t p' | None => None end
  end.

Definition finish (p : partial) : option smeta :=
  match p_key p, p_time p, p_size p, p_meta p with
  | Some k, Some t, Some s, Some m =>
      Some (mkSmeta k (match p_int p with Some i => i | None => None end) t s m
                    (match p_raw p with Some r => r | None => None end))
  | _, _, _, _ => None
  end.

Definition decode_smeta (v : jv) : option smeta :=
  match v with
  | JObj m => match dec_fields m partial0 with Some p => finish p | None => None end
  | JArr [k; i; t; s; m; r] =>          (* serde also accepts the struct as a 6-element sequence *)
      match dec_string k, dec_opt_string i, dec_uint two128 t, dec_uint two64 s, dec_raw r with
      | Some k', Some i', Some t', Some s', Some r' => Some (mkSmeta k' i' t' s' (canon m) r')
      | _, _, _, _, _ => None end
  | _ => None
  end.

Definition parse_smeta (text : bytes) : option smeta :=
  match parse_json text with
  | POk v _ => decode_smeta v
  | _ => None
  end.

Section WithHash.
Variable hash : algo -> bytes -> bytes.

Definition hash_entry (text : bytes) : bytes := hex_encode (hash Sha256 text).
Definition hash_key (key : bytes) : bytes := hex_encode (hash Sha1 key).

(* the bytes appended for one record *)
Definition record_line (text : bytes) : bytes := hash_entry text ++ tab :: text.
Definition record_bytes (m : smeta) : bytes := nl :: record_line (encode_smeta m).

(* one line of a bucket (already known to be valid UTF-8): exactly one tab, checksum, JSON *)
Definition entry_of_line (line : bytes) : list smeta :=
  match split tab line with
  | [h; text] =>
      if bytes_eqb (hash_entry text) h then
        match parse_smeta text with Some m => [m] | None => [] end
      else []
  | _ => []
  end.

Definition contrib (line : bytes) : list smeta :=
  if valid_utf8 line then entry_of_line line else [].

(* bucket_entries / bucket_entries_async on the bytes of a bucket file *)
Definition entries (f : bytes) : list smeta := flat_map contrib (lines f).

(* index::find's fold; an integrity that does not parse (or cannot address content) leaves the accumulator alone *)
Definition find_step (key : bytes) (acc : option meta) (e : smeta) : option meta :=
  if bytes_eqb (sm_key e) key then
    match sm_integrity e with
    | Some text =>
        match parse_entry_sri text with
        | Some i => Some (mkMeta (sm_key e) i (sm_time e) (sm_size e) (sm_metadata e) (sm_raw e))
        | None => acc
        end
    | None => None
    end
  else acc.

Definition find_in (key : bytes) (es : list smeta) : option meta :=
  fold_left (find_step key) es None.

Definition find_bytes (key : bytes) (f : bytes) : option meta := find_in key (entries f).

(* index::ls on one bucket: records whose integrity text does not parse are dropped first (as [find]
   ignores them), then newest-first de-duplication by key, then tombstones are dropped *)
Definition parses (e : smeta) : bool :=
  match sm_integrity e with
  | Some text => match parse_entry_sri text with Some _ => true | None => false end
  | None => true
  end.

Fixpoint dedupe (seen : list bytes) (es : list smeta) : list smeta :=
  match es with
  | [] => []
  | e :: t => if existsb (bytes_eqb (sm_key e)) seen then dedupe seen t
              else e :: dedupe (sm_key e :: seen) t
  end.

Definition live (e : smeta) : list meta :=
  match sm_integrity e with
  | Some text =>
      match parse_entry_sri text with
      | Some i => [mkMeta (sm_key e) i (sm_time e) (sm_size e) (sm_metadata e) (sm_raw e)]
      | None => []
      end
  | None => []
  end.

Definition ls_entries (es : list smeta) : list meta :=
  flat_map live (dedupe [] (rev (filter parses es))).

Definition ls_bytes (f : bytes) : list meta := ls_entries (entries f).

End WithHash.
