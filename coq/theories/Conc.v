(* Conc.v — several operations on one cache at the granularity of filesystem steps: a pool of step programs, one
   transition = one step of one thread; and an exhaustive explorer of all interleavings of a given pool. *)
From CC Require Import Bytes Codec Fs Prog.

Definition pool (A : Type) := list (prog A).

Inductive pstep {A} : pool A * fs -> pool A * fs -> Prop :=
| PStep pre c k post f :
    pstep (pre ++ Do c k :: post, f) (pre ++ k (fst (exec c f)) :: post, snd (exec c f)).

Inductive preach {A} : pool A * fs -> pool A * fs -> Prop :=
| PRefl s : preach s s
| PTrans s1 s2 s3 : pstep s1 s2 -> preach s2 s3 -> preach s1 s3.

Fixpoint results {A} (pl : pool A) : option (list A) :=
  match pl with
  | [] => Some []
  | Ret a :: t => option_map (cons a) (results t)
  | Do _ _ :: _ => None
  end.

(* all ways to let one unfinished thread take one step: (prefix, thread, suffix) decompositions *)
Fixpoint successors {A} (pre : pool A) (pl : pool A) (f : fs) : list (pool A * fs) :=
  match pl with
  | [] => []
  | Ret a :: t => successors (pre ++ [Ret a]) t f
  | Do c k :: t => (pre ++ k (fst (exec c f)) :: t, snd (exec c f)) :: successors (pre ++ [Do c k]) t f
  end.

(* every terminal state of every interleaving; [None] = the fuel did not suffice somewhere *)
Fixpoint explore {A} (fuel : nat) (pl : pool A) (f : fs) : option (list (list A * fs)) :=
  match results pl with
  | Some rs => Some [(rs, f)]
  | None =>
      match fuel with
      | O => None
      | S n =>
          (fix go (l : list (pool A * fs)) : option (list (list A * fs)) :=
             match l with
             | [] => Some []
             | (pl', f') :: t =>
                 match explore n pl' f', go t with
                 | Some a, Some b => Some (a ++ b)
                 | _, _ => None
                 end
             end) (successors [] pl f)
      end
  end.

(* two pools with different result types on one cache (writers and observers): a transition is a step of a thread of
   either pool *)
Inductive ostep {A B} : pool A * pool B * fs -> pool A * pool B * fs -> Prop :=
| OL pl pl' rl f f' : pstep (pl, f) (pl', f') -> ostep (pl, rl, f) (pl', rl, f')
| OR pl rl rl' f f' : pstep (rl, f) (rl', f') -> ostep (pl, rl, f) (pl, rl', f').

Inductive oreach {A B} : pool A * pool B * fs -> pool A * pool B * fs -> Prop :=
| ORefl s : oreach s s
| OTrans s1 s2 s3 : ostep s1 s2 -> oreach s2 s3 -> oreach s1 s3.
