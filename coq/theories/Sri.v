(* Sri.v — ssri 9.2.0: Algorithm, Hash, Integrity (parse / print / sort / pick / matches / check /
   to_hex).  Digests are kept as their base64 *text*, exactly as ssri does. *)
From CC Require Import Bytes Codec.
Local Open Scope N_scope.

Inductive algo := Sha512 | Sha384 | Sha256 | Sha1 | Xxh3.

Definition algo_rank (a : algo) : N :=
  match a with Sha512 => 0 | Sha384 => 1 | Sha256 => 2 | Sha1 => 3 | Xxh3 => 4 end.
Definition algo_eqb (a b : algo) : bool := N.eqb (algo_rank a) (algo_rank b).

Definition algo_name (a : algo) : bytes :=
  match a with
  | Sha512 => bs "sha512" | Sha384 => bs "sha384" | Sha256 => bs "sha256"
  | Sha1 => bs "sha1" | Xxh3 => bs "xxh3"
  end.

Definition parse_algo (s : bytes) : option algo :=
  if bytes_eqb s (bs "sha1") then Some Sha1
  else if bytes_eqb s (bs "sha256") then Some Sha256
  else if bytes_eqb s (bs "sha384") then Some Sha384
  else if bytes_eqb s (bs "sha512") then Some Sha512
  else if bytes_eqb s (bs "xxh3") then Some Xxh3
  else None.

(* digest length in bytes of each algorithm *)
Definition algo_len (a : algo) : N :=
  match a with Sha512 => 64 | Sha384 => 48 | Sha256 => 32 | Sha1 => 20 | Xxh3 => 16 end.

Record hashv := mkHash { h_algo : algo; h_digest : bytes }.
Definition integrity := list hashv.

Definition hashv_eqb (a b : hashv) : bool :=
  algo_eqb (h_algo a) (h_algo b) && bytes_eqb (h_digest a) (h_digest b).

(* stable insertion sort by algorithm rank (Vec::sort with Ord = algorithm only) *)
Fixpoint sri_insert (h : hashv) (l : integrity) : integrity :=
  match l with
  | [] => [h]
  | x :: t => if algo_rank (h_algo x) <=? algo_rank (h_algo h) then x :: sri_insert h t else h :: l
  end.
Fixpoint sri_sort (l : integrity) : integrity :=
  match l with [] => [] | h :: t => sri_insert h (sri_sort t) end.

(* ASCII whitespace only; other Unicode White_Space code points in an integrity string are outside
   the model (never produced by the API; excluded from the generators) *)
Definition is_space (b : byte) : bool :=
  match b with x09 | x0a | x0b | x0c | x0d | x20 => true | _ => false end.

Fixpoint words_aux (l : bytes) (cur : bytes) : list bytes :=
  match l with
  | [] => match cur with [] => [] | _ => [rev cur] end
  | b :: t =>
      if is_space b then match cur with [] => words_aux t [] | _ => rev cur :: words_aux t [] end
      else words_aux t (b :: cur)
  end.
Definition words (l : bytes) : list bytes := words_aux l [].

(* Hash::from_str: "algo-digest[-ignored...]" *)
Definition parse_hash (s : bytes) : option hashv :=
  match split x2d s with
  | a :: d :: _ => match parse_algo a with Some al => Some (mkHash al d) | None => None end
  | _ => None
  end.

Fixpoint parse_hashes (ws : list bytes) : option integrity :=
  match ws with
  | [] => Some []
  | w :: t => match parse_hash w, parse_hashes t with
              | Some h, Some r => Some (h :: r)
              | _, _ => None end
  end.

Definition parse_sri (s : bytes) : option integrity :=
  match parse_hashes (words s) with
  | Some hs => Some (sri_sort hs)
  | None => None
  end.

Definition hash_text (h : hashv) : bytes := algo_name (h_algo h) ++ x2d :: h_digest h.
Definition sri_text (i : integrity) : bytes := intercalate [x20] (map hash_text i).

Definition pick_algorithm (i : integrity) : option algo :=     (* [None]: index-out-of-bounds panic *)
  match i with h :: _ => Some (h_algo h) | [] => None end.

(* Integrity::matches: [self] = i, [other] = o *)
Definition sri_matches (i o : integrity) : option algo :=
  match pick_algorithm o with
  | None => None
  | Some a =>
      if existsb (fun h => algo_eqb (h_algo h) a &&
                           existsb (fun x => algo_eqb (h_algo x) a && hashv_eqb h x) o) i
      then Some a else None
  end.

(* Integrity::to_hex of the first hash; [None] is a panic (empty list or undecodable base64) *)
Definition sri_to_hex (i : integrity) : option (algo * bytes) :=
  match i with
  | h :: _ => match b64_decode (h_digest h) with
              | Some raw => Some (h_algo h, hex_encode raw)
              | None => None end
  | [] => None
  end.

(* can [content_path] address this integrity?  (first hash canonical base64 of at least two bytes) *)
Definition addressable (i : integrity) : bool :=
  match sri_to_hex i with
  | Some (_, h) => 4 <=? lenN h
  | None => false
  end.

(* the integrity text of an index record: it must parse and be addressable, else the record is damaged *)
Definition parse_entry_sri (text : bytes) : option integrity :=
  match parse_sri text with
  | Some i => if addressable i then Some i else None
  | None => None
  end.

Fixpoint take_while_algo (a : algo) (i : integrity) : integrity :=
  match i with
  | h :: t => if algo_eqb (h_algo h) a then h :: take_while_algo a t else []
  | [] => []
  end.

Section WithHash.
Variable hash : algo -> bytes -> bytes.

Definition sri_of (a : algo) (data : bytes) : integrity := [mkHash a (b64_encode (hash a data))].

(* Integrity::check / IntegrityChecker::result on the complete data; [None] = panic (empty) *)
Definition sri_check (i : integrity) (data : bytes) : option bool :=
  match pick_algorithm i with
  | None => None
  | Some a =>
      let computed := mkHash a (b64_encode (hash a data)) in
      Some (existsb (hashv_eqb computed) (take_while_algo a i))
  end.
End WithHash.
