(* Api.v — one program per public entry point of cacache (sync and async families). *)
From CC Require Import Bytes Codec Utf8 Lines Json Sri Record Fs Prog.
Local Open Scope N_scope.
Local Open Scope prog_scope.

Inductive flavour := Sync | Async.

Record wopts := mkWopts {
  o_algo : option algo;
  o_sri  : option integrity;
  o_size : option N;
  o_time : option N;
  o_meta : option jv;
  o_raw  : option bytes
}.
Definition wopts0 := mkWopts None None None None None None.

Definition max_mmap : N := 1048576.

Definition index_dir : name := bs "index-v5".
Definition content_dir : name := bs "content-v2".

Section WithHash.
Variable hash : algo -> bytes -> bytes.

(* ---------- paths ---------- *)
Definition bucket_path (key : bytes) : path :=
  let h := hash_key hash key in
  [index_dir; takeN 2 h; takeN 2 (dropN 2 h); dropN 4 h].

(* [None] = the panics of Integrity::to_hex / of slicing hex[0..2], hex[2..4] *)
Definition content_path (i : integrity) : option path :=
  match sri_to_hex i with
  | Some (a, h) =>
      if lenN h <? 4 then None
      else Some [content_dir; algo_name a; takeN 2 h; takeN 2 (dropN 2 h); dropN 4 h]
  | None => None
  end.

Definition with_cpath {A} (i : integrity) (k : loc -> prog (res A)) : prog (res A) :=
  match content_path i with
  | Some p => k (InCache p)
  | None => Ret Panic
  end.

(* ---------- index ---------- *)
Definition bucket_entries (bucket : loc) : prog (res (list smeta)) :=
  Do (ReadFile bucket) (fun r =>
    match r with
    | RBytes d => Ret (Ok (entries hash d))
    | RErr ENOENT => Ret (Ok [])
    | RErr _ => Ret (Err EIoErr)
    | _ => Ret Stuck
    end).

Definition find (key : bytes) : prog (res (option meta)) :=
  es <- bucket_entries (InCache (bucket_path key)) ;;
  Ret (Ok (find_in key es)).

Definition deadbeef : integrity := [mkHash Sha1 (bs "deadbeef")].

Definition smeta_of (key : bytes) (o : wopts) (now : N) : smeta :=
  mkSmeta key (option_map sri_text (o_sri o))
          (match o_time o with Some t => t | None => now end)
          (match o_size o with Some s => s | None => 0 end)
          (match o_meta o with Some m => m | None => JNull end)
          (o_raw o).

Definition insert (key : bytes) (o : wopts) (now : N) : prog (res integrity) :=
  let b := bucket_path key in
  step_ok (MkdirAll (parent b)) ;;;
  step_ok (CreateIfMissing (InCache b)) ;;;
  step_ok (Append (InCache b) (record_bytes hash (smeta_of key o now))) ;;;
  Ret (Ok (match o_sri o with Some i => i | None => deadbeef end)).

Definition delete (key : bytes) (now : N) : prog (res unit) :=
  _ <- insert key wopts0 now ;; Ret (Ok tt).

(* ---------- content writer ---------- *)
Record wstate := mkW {
  w_key : option bytes;
  w_opts : wopts;
  w_algo : algo;
  w_tmp : loc;
  w_map : option N;        (* Some n: the temp file is n bytes long and mapped *)
  w_pos : N;               (* bytes stored through the mapping so far *)
  w_written : N;           (* the public writer's byte count *)
  w_data : bytes           (* everything fed to the digest *)
}.

Definition unlink_quiet {A} (l : loc) (r : res A) : prog (res A) :=
  Do (Unlink l) (fun _ => Ret r).

(* size handed to the content writer *)
Definition content_size (fl : flavour) (key : option bytes) (o : wopts) : option N :=
  match fl, key with
  | Async, Some _ => None
  | _, _ => o_size o
  end.

Definition open_writer (fl : flavour) (key : option bytes) (o : wopts) : prog (res wstate) :=
  step_ok (MkdirAll tmp_dir) ;;;
  Do CreateTmp (fun r =>
    match r with
    | RName n =>
        let t := InCache (tmp_dir ++ [n]) in
        let a := match o_algo o with Some a => a | None => Sha256 end in
        match content_size fl key o with
        | Some sz =>
            if (1 <=? sz) && (sz <=? max_mmap) then
              Do (Fallocate t sz) (fun r2 =>
                match r2 with
                | RErr _ => unlink_quiet t (Err EIoErr)
                | _ => Ret (Ok (mkW key o a t (Some sz) 0 0 []))
                end)
            else Ret (Ok (mkW key o a t None 0 0 []))
        | None => Ret (Ok (mkW key o a t None 0 0 []))
        end
    | RErr _ => Ret (Err EIoErr)
    | _ => Ret Stuck
    end).

(* one [write] call on the public writer: all bytes are accepted *)
Definition write_chunk (w : wstate) (d : bytes) : prog (res wstate) :=
  let n := lenN d in
  let w' m pos := mkW (w_key w) (w_opts w) (w_algo w) (w_tmp w) m pos (w_written w + n) (w_data w ++ d) in
  match w_map w with
  | Some sz =>
      if w_pos w + n <=? sz then
        step_ok (MmapStore (w_tmp w) (w_pos w) d) ;;; Ret (Ok (w' (Some sz) (w_pos w + n)))
      else
        (* more data than declared: leave the mapping, continue through the descriptor *)
        step_ok (Truncate (w_tmp w) (w_pos w)) ;;;
        step_ok (WriteAppend (w_tmp w) d) ;;; Ret (Ok (w' None 0))
  | None =>
      step_ok (WriteAppend (w_tmp w) d) ;;; Ret (Ok (w' None 0))
  end.

Fixpoint write_chunks (w : wstate) (cs : list bytes) : prog (res wstate) :=
  match cs with
  | [] => Ret (Ok w)
  | c :: t => w' <- write_chunk w c ;; write_chunks w' t
  end.

Definition drop_writer (w : wstate) : prog (res unit) := unlink_quiet (w_tmp w) (Ok tt).

(* content::write::Writer::close, second half: create the shard directories, publish by rename; a failed rename is
   accepted iff the destination exists *)
Definition publish (w : wstate) (cp : path) (sri : integrity) : prog (res integrity) :=
  Do (MkdirAll (parent cp)) (fun r0 =>
    match r0 with
    | RErr _ => unlink_quiet (w_tmp w) (Err EIoErr)
    | _ =>
        Do (Rename (w_tmp w) (InCache cp)) (fun r =>
          match r with
          | RErr _ =>
              Do (Exists (InCache cp)) (fun r2 =>
                match r2 with
                | RBool true => unlink_quiet (w_tmp w) (Ok sri)
                | _ => unlink_quiet (w_tmp w) (Err EIoErr)
                end)
          | _ => Ret (Ok sri)
          end)
    end).

(* the optional trim of a mapped temp file to the bytes actually stored (finish_mmap) *)
Definition trim (w : wstate) : prog (res unit) :=
  match w_map w with
  | Some sz => if w_pos w <? sz then step_ok (Truncate (w_tmp w) (w_pos w)) else Ret (Ok tt)
  | None => Ret (Ok tt)
  end.

(* content::write::Writer::close: trim first, then publish *)
Definition close_writer (w : wstate) : prog (res integrity) :=
  let sri := sri_of hash (w_algo w) (w_data w) in
  match content_path sri with
  | None => unlink_quiet (w_tmp w) Panic
  | Some cp =>
      bind (trim w) (fun rt =>
        match rt with
        | Ok _ => publish w cp sri
        | _ => unlink_quiet (w_tmp w) (Err EIoErr)
        end)
  end.

(* put::{SyncWriter,Writer}::commit *)
Definition commit (w : wstate) (now : N) : prog (res integrity) :=
  wsri <- close_writer w ;;
  let o := w_opts w in
  match (match o_sri o with
         | Some d => match sri_matches d wsri with Some _ => Some d | None => None end
         | None => Some wsri end) with
  | None => Ret (Err EIntegrity)
  | Some final =>
      match (match o_size o with Some s => negb (N.eqb s (w_written w)) | None => false end), o_size o with
      | true, Some s => Ret (Err (ESizeMismatch s (w_written w)))
      | _, _ =>
          match w_key w with
          | Some key =>
              let o' := mkWopts (o_algo o) (Some final)
                                (match o_size o with Some s => Some s | None => Some (w_written w) end)
                                (o_time o) (o_meta o) (o_raw o) in
              insert key o' now
          | None => Ret (Ok wsri)
          end
      end
  end.

(* one-shot writes *)
Definition write_opts (fl : flavour) (a : algo) (data : bytes) : wopts :=
  match fl with
  | Sync => mkWopts (Some a) None None None None None
  | Async => mkWopts (Some a) None (Some (lenN data)) None None None
  end.

Definition lift_err {A B} (r : res A) : res B :=
  match r with
  | Ok _ => Stuck | Err e => Err e | Panic => Panic | Hang => Hang | Stuck => Stuck
  end.

Definition oneshot (fl : flavour) (key : option bytes) (o : wopts) (data : bytes) (now : N)
  : prog (res integrity) :=
  w <- open_writer fl key o ;;
  match data with
  | [] => commit w now                          (* write_all(b"") issues no write *)
  | _ => bind (write_chunk w data) (fun r =>
           match r with
           | Ok w' => commit w' now
           | other => unlink_quiet (w_tmp w) (lift_err other)
           end)
  end.

Definition write (fl : flavour) (a : algo) (key data : bytes) (now : N) : prog (res integrity) :=
  oneshot fl (Some key) (write_opts fl a data) data now.

Definition write_hash (fl : flavour) (a : algo) (data : bytes) : prog (res integrity) :=
  oneshot fl None (mkWopts (Some a) None (Some (lenN data)) None None None) data 0.

(* ---------- reads ---------- *)
Definition check_res (i : integrity) (d : bytes) : res unit :=
  match sri_check hash i d with
  | Some true => Ok tt
  | Some false => Err EIntegrity
  | None => Panic
  end.

Definition read_file (l : loc) : prog (res bytes) :=
  Do (ReadFile l) (fun r =>
    match r with
    | RBytes d => Ret (Ok d)
    | RErr _ => Ret (Err EIoErr)
    | _ => Ret Stuck
    end).

Definition read_hash (i : integrity) : prog (res bytes) :=
  with_cpath i (fun cp =>
    d <- read_file cp ;;
    match check_res i d with
    | Ok _ => Ret (Ok d)
    | other => Ret (lift_err other)
    end).

Definition by_key {A} (key : bytes) (k : integrity -> prog (res A)) : prog (res A) :=
  e <- find key ;;
  match e with
  | Some m => k (m_sri m)
  | None => Ret (Err ENotFound)
  end.

Definition read (key : bytes) : prog (res bytes) := by_key key read_hash.

(* streaming reader: the descriptor pins the file as of open *)
Record rstate := mkR { r_sri : integrity; r_rest : bytes; r_seen : bytes }.

Definition ropen_hash (i : integrity) : prog (res rstate) :=
  with_cpath i (fun cp => d <- read_file cp ;; Ret (Ok (mkR i d []))).
Definition ropen (key : bytes) : prog (res rstate) := by_key key ropen_hash.

Definition rchunk (r : rstate) (n : N) : bytes * rstate :=
  let c := takeN n (r_rest r) in
  (c, mkR (r_sri r) (dropN n (r_rest r)) (r_seen r ++ c)).

Definition rcheck (r : rstate) : res algo :=
  match check_res (r_sri r) (r_seen r), pick_algorithm (r_sri r) with
  | Ok _, Some a => Ok a
  | Ok _, None => Panic
  | other, _ => lift_err other
  end.

(* the verification pass of checked extractions: returns the byte count *)
Definition verify (i : integrity) (cp : loc) : prog (res N) :=
  d <- read_file cp ;;
  match check_res i d with
  | Ok _ => Ret (Ok (lenN d))
  | other => Ret (lift_err other)
  end.

Inductive xkind := XCopy | XHardLink | XReflink.

Definition xstep (x : xkind) (cp dst : loc) : prog (res N) :=
  Do (match x with XCopy => CopyFile cp dst | XHardLink => Link cp dst | XReflink => Reflink cp dst end)
     (fun r => match r with
               | RErr _ => Ret (Err EIoErr)
               | RNum n => Ret (Ok n)
               | _ => Ret (Ok 0)
               end).

Definition extract_hash (x : xkind) (checked : bool) (i : integrity) (dst : loc) : prog (res N) :=
  with_cpath i (fun cp =>
    if checked then
      n <- verify i cp ;; m <- xstep x cp dst ;; Ret (Ok n)
    else xstep x cp dst).

Definition extract (x : xkind) (checked : bool) (key : bytes) (dst : loc) : prog (res N) :=
  by_key key (fun i => extract_hash x checked i dst).

Definition exists_hash (i : integrity) : prog (res bool) :=
  with_cpath i (fun cp =>
    Do (Exists cp) (fun r => match r with RBool b => Ret (Ok b) | _ => Ret Stuck end)).

(* ---------- removal ---------- *)
Definition remove_hash (i : integrity) : prog (res unit) :=
  with_cpath i (fun cp => step_ok (Unlink cp)).

(* content that is already gone is not an error of a full removal *)
Definition unlink_if_present (l : loc) : prog (res unit) :=
  Do (Unlink l) (fun r => match r with
                          | RErr ENOENT => Ret (Ok tt)
                          | RErr _ => Ret (Err EIoErr)
                          | _ => Ret (Ok tt)
                          end).

Definition remove_fully (key : bytes) : prog (res unit) :=
  e <- find key ;;
  (match e with
   | Some m => with_cpath (m_sri m) (fun cp => unlink_if_present cp)
   | None => Ret (Ok tt)
   end) ;;;
  step_ok (Unlink (InCache (bucket_path key))).

Fixpoint remove_all (ls : list loc) : prog (res unit) :=
  match ls with
  | [] => Ret (Ok tt)
  | InCache p :: t => step_ok (RemoveDirAll p) ;;; remove_all t
  | Ext _ :: t => remove_all t
  end.

Definition clear : prog (res unit) :=
  Do (ReadDir []) (fun r =>
    match r with
    | RLocs ls => remove_all ls
    | RErr _ => Ret (Err EIoErr)
    | _ => Ret Stuck
    end).

(* ---------- listing ---------- *)
Inductive litem := LMeta (m : meta) | LErr (e : err).

Fixpoint ls_buckets (bs : list loc) : prog (list litem) :=
  match bs with
  | [] => Ret []
  | b :: t =>
      bind (bucket_entries b) (fun r =>
        bind (ls_buckets t) (fun rest =>
          Ret (match r with
               | Ok es => map LMeta (ls_entries es) ++ rest
               | Err e => LErr e :: rest
               | _ => LErr EIoErr :: rest
               end)))
  end.

Definition ls : prog (res (list litem)) :=
  Do (WalkFiles [index_dir]) (fun r =>
    match r with
    | RLocs bs => bind (ls_buckets bs) (fun l => Ret (Ok l))
    | RErr _ => Ret (Ok [LErr EIoErr])
    | _ => Ret Stuck
    end).

(* ---------- link_to (feature): the content path becomes a symlink to a file of the caller ---------- *)
Record lstate := mkL {
  l_key : option bytes;
  l_opts : wopts;
  l_algo : algo;
  l_target : name;
  l_rest : bytes;       (* unread part of the target, pinned by the descriptor at open *)
  l_seen : bytes        (* what has been read (and hashed) so far *)
}.

(* WriteOpts::link_to* : opens the target; [plain] = ToLinker::open*, which declares the file's size *)
Definition open_linker (plain : bool) (key : option bytes) (o : wopts) (target : name) : prog (res lstate) :=
  d <- read_file (Ext target) ;;
  let o' := if plain then mkWopts None None (Some (lenN d)) None None None else o in
  Ret (Ok (mkL key o' (match o_algo o' with Some a => a | None => Sha256 end) target d [])).

Definition lchunk (l : lstate) (n : N) : bytes * lstate :=
  let c := takeN n (l_rest l) in
  (c, mkL (l_key l) (l_opts l) (l_algo l) (l_target l) (dropN n (l_rest l)) (l_seen l ++ c)).

(* commit: consume the rest, symlink the content path to the (absolute) target, then the same decision rule as a
   write's commit *)
Definition commit_linker (l : lstate) (now : N) : prog (res integrity) :=
  let data := l_seen l ++ l_rest l in
  let lsri := sri_of hash (l_algo l) data in
  let o := l_opts l in
  let rest : prog (res integrity) :=
    match (match o_sri o with
           | Some d => match sri_matches d lsri with Some _ => Some d | None => None end
           | None => Some lsri end) with
    | None => Ret (Err EIntegrity)
    | Some final =>
        match (match o_size o with Some s => negb (N.eqb s (lenN data)) | None => false end), o_size o with
        | true, Some s => Ret (Err (ESizeMismatch s (lenN data)))
        | _, _ =>
            match l_key l with
            | Some key =>
                insert key (mkWopts (o_algo o) (Some final)
                                    (match o_size o with Some s => Some s | None => Some (lenN data) end)
                                    (o_time o) (o_meta o) (o_raw o)) now
            | None => Ret (Ok lsri)
            end
        end
    end in
  match content_path lsri with
  | None => Ret Panic
  | Some cp =>
      step_ok (MkdirAll (parent cp)) ;;;
      Do (SymlinkTo (LAbs (l_target l)) (InCache cp)) (fun r =>
        match r with
        | RErr _ => Do (Exists (InCache cp)) (fun r2 =>
                      match r2 with RBool true => rest | _ => Ret (Err EIoErr) end)
        | _ => rest
        end)
  end.

Definition link_to (key : option bytes) (target : name) (now : N) : prog (res integrity) :=
  l <- open_linker true key wopts0 target ;; commit_linker l now.

End WithHash.
