(* Crash.v — crash semantics of the step programs: the tree a killed process leaves behind.
   [crash_states p f] lists the state at every step boundary of the run of [p] from [f] and, for every step that the
   kernel performs piecemeal, the intermediate states (a data write torn at every byte length, a recursive mkdir
   stopped after any number of directories, a copy stopped at any length).  Steps that are one atomic kernel
   operation (rename, unlink, link, symlink, O_CREAT open, O_EXCL create, truncate) have no intermediate state.
   posix_fallocate and remove_dir_all are treated as atomic here (neither occurs in a keyed write; see DESIGN). *)
From CC Require Import Bytes Codec Fs Prog.
Local Open Scope N_scope.

(* every non-empty proper prefix of s, shortest first *)
Fixpoint proper_prefixes (s : bytes) : list bytes :=
  match s with
  | [] => []
  | [_] => []
  | b :: t => [b] :: map (cons b) (proper_prefixes t)
  end.

(* states after each directory creation of a recursive mkdir (the last one is the step's final state) *)
Fixpoint mkdirs_states (f : fs) (ps : list path) : list fs :=
  match ps with
  | [] => []
  | p :: t =>
      match lookup f (InCache p) with
      | None => let f' := update f (InCache p) Dir in f' :: mkdirs_states f' t
      | Some Dir => mkdirs_states f t
      | Some _ => []
      end
  end.

Definition mid_states (c : sys) (f : fs) : list fs :=
  match c with
  | MkdirAll p => mkdirs_states f (prefixes p)
  | WriteAppend l s | Append l s =>
      match lookup f l with
      | Some (File d) => map (fun p => update f l (File (d ++ p))) (proper_prefixes s)
      | _ => []
      end
  | MmapStore l off s =>
      match lookup f l with
      | Some (File d) =>
          if off + lenN s <=? lenN d then map (fun p => update f l (File (store_at d off p))) (proper_prefixes s) else []
      | _ => []
      end
  | CopyFile src dst =>
      match resolve f src, lookup f dst with
      | Some (File d), Some Dir => []
      | Some (File d), _ =>
          if parent_ok f dst then map (fun p => update f dst (File p)) ([] :: proper_prefixes d) else []
      | _, _ => []
      end
  | _ => []
  end.

Fixpoint crash_states {A} (p : prog A) (f : fs) : list fs :=
  match p with
  | Ret _ => [f]
  | Do c k => f :: mid_states c f ++ (let '(r, f') := exec c f in crash_states (k r) f')
  end.

(* the steps a run issues, each with the state it is issued in *)
Fixpoint steps_ok {A} (S : sys -> fs -> Prop) (p : prog A) (f : fs) : Prop :=
  match p with
  | Ret _ => True
  | Do c k => S c f /\ (let '(r, f') := exec c f in steps_ok S (k r) f')
  end.

(* the same, for every possible answer of every step (syntactic) *)
Fixpoint all_steps {A} (S : sys -> Prop) (p : prog A) : Prop :=
  match p with
  | Ret _ => True
  | Do c k => S c /\ forall r, all_steps S (k r)
  end.

(* the locations whose node a step (or any of its intermediate states) may create, change or delete *)
Definition may_touch (c : sys) (l : loc) : Prop :=
  match c with
  | MkdirAll p => In l (map InCache (prefixes p))
  | CreateTmp => exists n, l = InCache (tmp_dir ++ [n])
  | Fallocate l0 _ | MmapStore l0 _ _ | Truncate l0 _ | WriteAppend l0 _ | Unlink l0 | CreateIfMissing l0
  | Append l0 _ => l = l0
  | Rename s d => l = s \/ l = d
  | Link _ d | SymlinkTo _ d | CopyFile _ d | Reflink _ d => l = d
  | RemoveDirAll p => under p l = true
  | ReadFile _ | Exists _ | WalkFiles _ | ReadDir _ => False
  end.

(* ---------- fault semantics ---------- *)
(* a step that can fail: everything except [Path::exists], which swallows errors and answers false *)
Definition faultable (c : sys) : Prop := match c with Exists _ => False | _ => True end.

(* runs in which any number of steps fail: a failing step answers an errno and leaves the tree as it was or in one
   of the step's intermediate states (a short write, some of the directories created, part of a copy) *)
Inductive frun {A} : prog A -> fs -> A -> fs -> Prop :=
| FRet a f : frun (Ret a) f a f
| FStep c k f a f'' : frun (k (fst (exec c f))) (snd (exec c f)) a f'' -> frun (Do c k) f a f''
| FFault c k f e g a f'' :
    faultable c -> (g = f \/ In g (mid_states c f)) -> frun (k (RErr e)) g a f'' -> frun (Do c k) f a f''.

(* the answers a step can give at all: its own kind of payload, or an errno *)
Definition shape (c : sys) (r : ret) : Prop :=
  match r with
  | RErr _ => faultable c
  | RBytes _ => match c with ReadFile _ => True | _ => False end
  | RBool _ => match c with Exists _ => True | _ => False end
  | RName _ => match c with CreateTmp => True | _ => False end
  | RLocs _ => match c with WalkFiles _ | ReadDir _ => True | _ => False end
  | RNum _ => match c with WriteAppend _ _ | CopyFile _ _ => True | _ => False end
  | ROk => match c with ReadFile _ | Exists _ | CreateTmp | WalkFiles _ | ReadDir _ => False | _ => True end
  end.

(* [Q] holds of the result whatever the steps answer *)
Fixpoint fpost {A} (Q : A -> Prop) (p : prog A) : Prop :=
  match p with
  | Ret a => Q a
  | Do c k => forall r, shape c r -> fpost Q (k r)
  end.

(* the steps of faulty runs, each with the state it is issued in *)
Fixpoint fsteps {A} (S : sys -> fs -> Prop) (p : prog A) (f : fs) : Prop :=
  match p with
  | Ret _ => True
  | Do c k =>
      S c f /\ fsteps S (k (fst (exec c f))) (snd (exec c f)) /\
      (faultable c -> forall e g, (g = f \/ In g (mid_states c f)) -> fsteps S (k (RErr e)) g)
  end.
