(* Prog.v — API operations as small programs over abstract filesystem steps, and the sequential
   interpreter.  The same programs are given crash, fault and interleaving semantics elsewhere. *)
From CC Require Import Bytes Fs.

Inductive prog (A : Type) :=
| Ret (a : A)
| Do (c : sys) (k : ret -> prog A).
Arguments Ret {A}. Arguments Do {A}.

Fixpoint bind {A B} (p : prog A) (g : A -> prog B) : prog B :=
  match p with
  | Ret a => g a
  | Do c k => Do c (fun r => bind (k r) g)
  end.

Fixpoint run {A} (p : prog A) (f : fs) : A * fs :=
  match p with
  | Ret a => (a, f)
  | Do c k => let '(r, f') := exec c f in run (k r) f'
  end.

(* outcomes of a public call *)
Inductive err :=
| ENotFound
| ESizeMismatch (wanted actual : N)
| EIoErr
| ESerde
| EIntegrity.

Inductive res (A : Type) :=
| Ok (a : A)
| Err (e : err)
| Panic              (* the Rust code would panic here *)
| Hang               (* the Rust code would not terminate here *)
| Stuck.             (* a step answered with a payload of the wrong shape: impossible for [exec] *)
Arguments Ok {A}. Arguments Err {A}. Arguments Panic {A}. Arguments Hang {A}. Arguments Stuck {A}.

(* bind on [prog (res _)]: errors short-circuit *)
Definition rbind {A B} (p : prog (res A)) (g : A -> prog (res B)) : prog (res B) :=
  bind p (fun r => match r with
                   | Ok a => g a
                   | Err e => Ret (Err e)
                   | Panic => Ret Panic
                   | Hang => Ret Hang
                   | Stuck => Ret Stuck
                   end).

(* a step whose only interesting answers are success / failure *)
Definition step_ok (c : sys) : prog (res unit) :=
  Do c (fun r => match r with
                 | RErr _ => Ret (Err EIoErr)
                 | _ => Ret (Ok tt)
                 end).

Declare Scope prog_scope.
Delimit Scope prog_scope with prog.
Notation "x <- p ;; q" := (rbind p (fun x => q)) (at level 61, p at next level, right associativity) : prog_scope.
Notation "p ;;; q" := (rbind p (fun _ => q)) (at level 61, right associativity) : prog_scope.
