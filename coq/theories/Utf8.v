(* Utf8.v — [str::from_utf8] validity (RFC 3629: no overlongs, no surrogates, <= U+10FFFF). *)
From CC Require Import Bytes.
Local Open Scope N_scope.

Definition is_cont (b : byte) : bool := let n := b2n b in (128 <=? n) && (n <=? 191).
Definition in_rng (lo hi : N) (b : byte) : bool := let n := b2n b in (lo <=? n) && (n <=? hi).

(* structural on the list: every branch recurses on a syntactic sub-list *)
Fixpoint valid_utf8 (l : bytes) : bool :=
  match l with
  | [] => true
  | a :: t =>
      let n := b2n a in
      if n <? 128 then valid_utf8 t
      else if (194 <=? n) && (n <=? 223) then
        match t with b :: t' => is_cont b && valid_utf8 t' | _ => false end
      else if n =? 224 then
        match t with b :: c :: t' => in_rng 160 191 b && is_cont c && valid_utf8 t' | _ => false end
      else if ((225 <=? n) && (n <=? 236)) || (n =? 238) || (n =? 239) then
        match t with b :: c :: t' => is_cont b && is_cont c && valid_utf8 t' | _ => false end
      else if n =? 237 then
        match t with b :: c :: t' => in_rng 128 159 b && is_cont c && valid_utf8 t' | _ => false end
      else if n =? 240 then
        match t with b :: c :: d :: t' => in_rng 144 191 b && is_cont c && is_cont d && valid_utf8 t'
                | _ => false end
      else if (241 <=? n) && (n <=? 243) then
        match t with b :: c :: d :: t' => is_cont b && is_cont c && is_cont d && valid_utf8 t'
                | _ => false end
      else if n =? 244 then
        match t with b :: c :: d :: t' => in_rng 128 143 b && is_cont c && is_cont d && valid_utf8 t'
                | _ => false end
      else false
  end.

(* UTF-8 encoding of a scalar value (used by the JSON \uXXXX decoder) *)
Definition utf8_encode (cp : N) : bytes :=
  if cp <? 128 then [n2b cp]
  else if cp <? 2048 then [n2b (192 + cp / 64); n2b (128 + cp mod 64)]
  else if cp <? 65536 then [n2b (224 + cp / 4096); n2b (128 + (cp / 64) mod 64); n2b (128 + cp mod 64)]
  else [n2b (240 + cp / 262144); n2b (128 + (cp / 4096) mod 64); n2b (128 + (cp / 64) mod 64);
        n2b (128 + cp mod 64)].
