(* Codec.v — lower-case hex, base64 (standard alphabet, padding, canonical decode), decimal [N]. *)
From CC Require Import Bytes.
From Coq Require Import DecimalN Decimal.
Local Open Scope N_scope.

(* ---------- hex ---------- *)
Definition hexd (n : N) : byte :=
  nth (N.to_nat n) [x30;x31;x32;x33;x34;x35;x36;x37;x38;x39;x61;x62;x63;x64;x65;x66] x30.

Definition unhex (b : byte) : option N :=
  let n := b2n b in
  if (48 <=? n) && (n <=? 57) then Some (n - 48)
  else if (97 <=? n) && (n <=? 102) then Some (n - 87)
  else if (65 <=? n) && (n <=? 70) then Some (n - 55)
  else None.

Definition hex_byte (b : byte) : bytes := [hexd (b2n b / 16); hexd (b2n b mod 16)].
Definition hex_encode (l : bytes) : bytes := flat_map hex_byte l.

(* ---------- base64 ---------- *)
Definition alphabet : bytes :=
  bs "ABCDEFGHIJKLMNOPQRSTUVWXYZabcdefghijklmnopqrstuvwxyz0123456789+/".
Definition pad : byte := x3d.

Definition enc6 (n : N) : byte := nth (N.to_nat n) alphabet pad.

Fixpoint index_of (b : byte) (l : bytes) (i : N) : option N :=
  match l with
  | [] => None
  | x :: t => if Byte.eqb x b then Some i else index_of b t (i + 1)
  end.
Definition dec6 (b : byte) : option N := index_of b alphabet 0.

Fixpoint b64_encode (l : bytes) : bytes :=
  match l with
  | a :: b :: c :: t =>
      let n := b2n a * 65536 + b2n b * 256 + b2n c in
      enc6 (n / 262144) :: enc6 ((n / 4096) mod 64) :: enc6 ((n / 64) mod 64) :: enc6 (n mod 64)
        :: b64_encode t
  | [a; b] =>
      let n := b2n a * 1024 + b2n b * 4 in
      [enc6 (n / 4096); enc6 ((n / 64) mod 64); enc6 (n mod 64); pad]
  | [a] =>
      let n := b2n a * 16 in
      [enc6 (n / 64); enc6 (n mod 64); pad; pad]
  | [] => []
  end.

(* canonical decode (base64 0.21 STANDARD engine): whole 4-groups, padding only in the last group,
   trailing bits zero.  [None] is where [Integrity::to_hex] panics. *)
Fixpoint b64_decode (l : bytes) : option bytes :=
  match l with
  | [] => Some []
  | [c0; c1; c2; c3] =>
      if Byte.eqb c2 pad then
        if Byte.eqb c3 pad then
          match dec6 c0, dec6 c1 with
          | Some s0, Some s1 =>
              if N.eqb (s1 mod 16) 0 then
                match Byte.of_N (s0 * 4 + s1 / 16) with Some a => Some [a] | None => None end
              else None
          | _, _ => None
          end
        else None
      else if Byte.eqb c3 pad then
        match dec6 c0, dec6 c1, dec6 c2 with
        | Some s0, Some s1, Some s2 =>
            if N.eqb (s2 mod 4) 0 then
              let n := s0 * 4096 + s1 * 64 + s2 in
              match Byte.of_N (n / 1024), Byte.of_N ((n / 4) mod 256) with
              | Some a, Some b => Some [a; b] | _, _ => None end
            else None
        | _, _, _ => None
        end
      else
        match dec6 c0, dec6 c1, dec6 c2, dec6 c3 with
        | Some s0, Some s1, Some s2, Some s3 =>
            let n := s0 * 262144 + s1 * 4096 + s2 * 64 + s3 in
            match Byte.of_N (n / 65536), Byte.of_N ((n / 256) mod 256), Byte.of_N (n mod 256) with
            | Some a, Some b, Some c => Some [a; b; c] | _, _, _ => None end
        | _, _, _, _ => None
        end
  | c0 :: c1 :: c2 :: c3 :: t =>
      match dec6 c0, dec6 c1, dec6 c2, dec6 c3, b64_decode t with
      | Some s0, Some s1, Some s2, Some s3, Some r =>
          let n := s0 * 262144 + s1 * 4096 + s2 * 64 + s3 in
          match Byte.of_N (n / 65536), Byte.of_N ((n / 256) mod 256), Byte.of_N (n mod 256) with
          | Some a, Some b, Some c => Some (a :: b :: c :: r) | _, _, _ => None end
      | _, _, _, _, _ => None
      end
  | _ => None
  end.

(* ---------- decimal ---------- *)
Fixpoint uint_bytes (u : Decimal.uint) : bytes :=
  match u with
  | Nil => []
  | D0 r => x30 :: uint_bytes r | D1 r => x31 :: uint_bytes r | D2 r => x32 :: uint_bytes r
  | D3 r => x33 :: uint_bytes r | D4 r => x34 :: uint_bytes r | D5 r => x35 :: uint_bytes r
  | D6 r => x36 :: uint_bytes r | D7 r => x37 :: uint_bytes r | D8 r => x38 :: uint_bytes r
  | D9 r => x39 :: uint_bytes r
  end.

Definition dec_of_N (n : N) : bytes := uint_bytes (N.to_uint n).

Definition digit_val (b : byte) : option N :=
  let n := b2n b in if (48 <=? n) && (n <=? 57) then Some (n - 48) else None.

(* longest digit prefix, accumulated most-significant first *)
Fixpoint take_digits (l : bytes) (acc : N) : N * bytes :=
  match l with
  | b :: t => match digit_val b with
              | Some d => take_digits t (acc * 10 + d)
              | None => (acc, l) end
  | [] => (acc, [])
  end.

Fixpoint hex_decode (l : bytes) : option bytes :=
  match l with
  | [] => Some []
  | a :: b :: t =>
      match unhex a, unhex b, hex_decode t with
      | Some x, Some y, Some r => Some (n2b (x * 16 + y) :: r)
      | _, _, _ => None end
  | _ => None
  end.
