(* Lines.v — the three [lines()] readers (std BufRead::lines, futures::io::Lines, tokio::io::Lines)
   as one function on bytes: split at LF, a terminated segment loses one trailing CR, an empty final
   segment is dropped, a non-empty final (unterminated) segment is kept as is. *)
From CC Require Import Bytes.

Definition strip_cr (s : bytes) : bytes :=
  match rev s with
  | c :: r => if Byte.eqb c cr then rev r else s
  | [] => s
  end.

Fixpoint lines_of (segs : list bytes) : list bytes :=
  match segs with
  | [] => []
  | [last] => match last with [] => [] | _ => [last] end
  | s :: rest => strip_cr s :: lines_of rest
  end.

Definition lines (f : bytes) : list bytes := lines_of (split nl f).

Definition ends_cr (s : bytes) : bool :=
  match rev s with c :: _ => Byte.eqb c cr | [] => false end.
